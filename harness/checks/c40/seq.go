package c40

import (
	"errors"
	"fmt"
	"math/rand/v2"
	"strings"
	"sync/atomic"
	"time"

	abci "github.com/gnolang/gno/tm2/pkg/bft/abci/types"
	"github.com/gnolang/gno/tm2/pkg/bft/mempool"
	cfg "github.com/gnolang/gno/tm2/pkg/bft/mempool/config"
	"github.com/gnolang/gno/tm2/pkg/bft/types"

	"verifharness/internal/vf"
)

const seqWatchdog = 30 * time.Second

type preErr struct{ max, got int }

func (e preErr) Error() string {
	return fmt.Sprintf("precheck: tx of %d bytes exceeds %d", e.got, e.max)
}

func preCheckFor(max int) mempool.PreCheckFunc {
	if max <= 0 {
		return func(types.Tx) error { return nil }
	}
	return func(tx types.Tx) error {
		if len(tx) > max {
			return preErr{max, len(tx)}
		}
		return nil
	}
}

// seqRun is one sequential sequence.
type seqRun struct {
	c     *vf.Ctx
	idx   int
	rng   *rand.Rand
	mc    mcfg
	m     *mstate
	u     *universe
	app   *stubApp
	mem   *mempool.CListMempool
	log   []string // op texts (witness)
	next  uint16   // next tx id
	dead  bool     // model and implementation diverged: stop the sequence
	dupK  string   // key suffix for a duplicate found by the next after()
	param bool     // sequence may change maxTxBytes / preCheck through Update
	huge  bool     // sequence may create txs with gas near MaxInt64
}

func (s *seqRun) witness(extra map[string]any) map[string]any {
	ops := s.log
	if len(ops) > 120 {
		ops = ops[len(ops)-120:]
	}
	w := map[string]any{"sequence": s.idx, "config": s.mc, "ops": ops, "model_pool": s.poolStr(s.m.pool)}
	for k, v := range extra {
		w[k] = v
	}
	return w
}

func (s *seqRun) poolStr(p []int) []string {
	out := make([]string, len(p))
	for k, i := range p {
		out[k] = vf.Hex(s.u.txs[i])
	}
	return out
}

func (s *seqRun) viol(key string, extra map[string]any, format string, args ...any) {
	s.c.Violation(key, s.witness(extra), format, args...)
}

func (s *seqRun) newTx() []byte {
	r := s.rng
	s.next++
	var flags, exp byte
	switch x := r.IntN(20); {
	case x < 2:
		flags = flagInvalid
	case x < 5:
		flags = flagExpires
		exp = byte(s.m.height + 1 + int64(r.IntN(3)))
	}
	gasCode := byte(r.IntN(6))
	if s.huge && r.IntN(4) == 0 {
		gasCode = byte(6 + r.IntN(2))
	}
	length := 5 + r.IntN(20)
	switch x := r.IntN(20); {
	case x == 0:
		length = int(s.m.maxTxBytes) + 1 + r.IntN(3) // too large
	case x == 1:
		length = int(s.m.maxTxBytes) // exactly at the limit
	case x < 5:
		length = int(s.m.maxTxBytes) - r.IntN(8) // close to the limit (candidates for a later shrink)
	}
	return makeTx(flags, gasCode, exp, s.next, length)
}

// after compares the observable state with the model after every op.
func (s *seqRun) after(op string) {
	if s.dead {
		return
	}
	c, mem, m := s.c, s.mem, s.m
	if flag, cur := rechecking(mem); flag != 0 || cur {
		s.viol("stuck-rechecking", map[string]any{"after": op, "rechecking": flag, "cursor_set": cur},
			"after %s returned (synchronous ABCI client, no request in flight) the mempool is still in recheck mode (rechecking=%d, cursor set=%v): every later Reap spins forever and CheckTx panics", op, flag, cur)
		s.dead = true
		return
	}
	// contents
	var got types.Txs
	if pv := vf.Try(func() { got = mem.ReapMaxTxs(-1) }); pv != nil {
		s.viol("panic:ReapMaxTxs", map[string]any{"after": op, "panic": fmt.Sprint(pv)}, "ReapMaxTxs(-1) panicked after %s: %v", op, pv)
		s.dead = true
		return
	}
	want := m.pool
	same := len(got) == len(want)
	for k := 0; same && k < len(got); k++ {
		same = string(got[k]) == string(s.u.txs[want[k]])
	}
	seen := map[string]bool{}
	for _, tx := range got {
		if seen[string(tx)] {
			s.viol("duplicate-in-pool"+s.dupK, map[string]any{"after": op, "tx": vf.Hex(tx), "contents": hexes(got)},
				"after %s the mempool holds tx %s twice", op, vf.Hex(tx))
			s.dead = true
			return
		}
		seen[string(tx)] = true
	}
	if !same {
		s.viol("contents-mismatch:"+strings.SplitN(op, "(", 2)[0], map[string]any{"after": op, "contents": hexes(got)},
			"after %s the mempool holds %v, the model %v", op, hexes(got), s.poolStr(want))
		s.dead = true
		return
	}
	if n := mem.Size(); n != len(want) {
		s.viol("size-mismatch", map[string]any{"after": op, "size": n}, "after %s Size() = %d, contents have %d txs", op, n, len(want))
		s.dead = true
	}
	if b := mem.TxsBytes(); b != m.bytes(s.u) {
		s.viol("txsbytes-mismatch", map[string]any{"after": op, "txs_bytes": b}, "after %s TxsBytes() = %d, contents sum to %d", op, b, m.bytes(s.u))
		s.dead = true
	}
	if len(got) > s.mc.Size {
		s.viol("limit-exceeded:size", map[string]any{"after": op}, "after %s the mempool holds %d txs, limit %d", op, len(got), s.mc.Size)
	}
	if b := mem.TxsBytes(); b > s.mc.MaxPending {
		s.viol("limit-exceeded:bytes", map[string]any{"after": op}, "after %s the mempool holds %d bytes, limit %d", op, b, s.mc.MaxPending)
	}
	if len(got) == s.mc.Size {
		c.Count("state:full-by-count", 1)
	}
	// notification channel
	if s.mc.Notify {
		fired := false
		select {
		case <-mem.TxsAvailable():
			fired = true
		default:
		}
		if fired != m.chanFull {
			s.viol("txs-available-mismatch", map[string]any{"after": op, "fired": fired, "want": m.chanFull},
				"after %s the TxsAvailable channel fired=%v, want %v (once per height, only when the mempool is not empty)", op, fired, m.chanFull)
		}
		if fired {
			c.Count("txs_available_fired", 1)
		}
		m.chanFull = false
	}
}

func hexes(txs types.Txs) []string {
	out := make([]string, len(txs))
	for i, tx := range txs {
		out[i] = vf.Hex(tx)
	}
	return out
}

func (s *seqRun) opCheckTx() {
	r, m, u := s.rng, s.m, s.u
	var tx []byte
	what := "new"
	switch x := r.IntN(100); {
	case x < 55 || len(u.txs) == 0:
		tx = s.newTx()
	case x < 75 && len(m.pool) > 0:
		tx = u.txs[m.pool[r.IntN(len(m.pool))]]
		what = "pooled"
	default:
		tx = u.txs[r.IntN(len(u.txs))]
		what = "seen"
	}
	i := u.add(tx)
	wasCached, wasPooled := m.inCache(i), m.inPool(i)
	want := m.checkTx(&s.mc, u, i)
	op := fmt.Sprintf("CheckTx(%s %s)", what, txStr(tx))
	s.log = append(s.log, op+" want "+want.String())
	var err error
	cbCalls := 0
	var cbRes abci.Response
	pv := vf.Try(func() {
		err = s.mem.CheckTx(tx, func(res abci.Response) { cbCalls++; cbRes = res })
	})
	if pv != nil {
		s.viol("panic:CheckTx", map[string]any{"panic": fmt.Sprint(pv)}, "%s panicked: %v", op, pv)
		s.dead = true
		return
	}
	s.c.Count("checktx:"+want.String(), 1)
	s.c.Case(fmt.Sprintf("CheckTx/%s/%v/pool=%d/cached=%v/pooled=%v", what, want, len(m.pool), wasCached, wasPooled), want != outAdded || len(m.pool) > 1)
	// contract: either cb is called or an error is returned
	if (err != nil && cbCalls != 0) || (err == nil && cbCalls != 1) {
		s.viol("cb-contract", map[string]any{"err": fmt.Sprint(err), "cb_calls": cbCalls}, "%s: err=%v but the callback ran %d times (contract: either cb is called or err returned)", op, err, cbCalls)
	}
	var got outcome
	var full mempool.MempoolIsFullError
	var large mempool.TxTooLargeError
	var pre preErr
	switch {
	case err == nil:
		if r, ok := cbRes.(abci.ResponseCheckTx); ok && r.Error != nil {
			got = outInvalid
		} else {
			got = outAdded
		}
	case errors.As(err, &full):
		got = outFull
	case errors.As(err, &large):
		got = outTooLarge
	case errors.As(err, &pre):
		got = outPreCheck
	case err == mempool.ErrTxInCache:
		got = outInCache
	default:
		s.viol("checktx-unknown-error", map[string]any{"err": err.Error()}, "%s returned unexpected error %v", op, err)
		s.dead = true
		return
	}
	switch {
	case want == outDupNotAdded:
		// the tx is still pooled but no longer cached: any answer is fine as long as it is not pooled twice (checked by after())
		switch got {
		case outAdded, outInCache:
		case outInvalid: // the application was asked again and now rejects it: the mempool drops it from the cache
			if ok, _ := verdict(tx, m.height); ok {
				s.viol("checktx-outcome:"+want.String(), map[string]any{"got": got.String()}, "%s: reported invalid although the application accepts it", op)
			}
			m.cacheRemove(i)
		default:
			s.viol("checktx-outcome:"+want.String(), map[string]any{"got": got.String()}, "%s: got %v for a tx that is already pooled", op, got)
		}
	case got != want:
		key := "checktx-outcome:" + want.String() + "-got-" + got.String()
		if (want == outInCache) != (got == outInCache) {
			key = "cache-mismatch:" + want.String() + "-got-" + got.String()
		}
		s.viol(key, map[string]any{"got": got.String(), "want": want.String()}, "%s: got %v (err=%v), model says %v", op, got, err, want)
		s.dead = true
		return
	}
	if wasCached && want == outInCache {
		s.c.Count("checktx:in-cache-"+map[bool]string{true: "still-pooled", false: "not-pooled-any-more"}[wasPooled], 1)
	}
	if want == outDupNotAdded {
		// pooled, evicted from (or never kept by) the cache, valid again: the one way the cache cannot prevent a second copy
		s.dupK = ":cache-evicted"
		s.c.Count("checktx:pooled-but-not-cached", 1)
	}
	s.after(op)
	s.dupK = ""
}

func (s *seqRun) opUpdate() {
	r, m, u := s.rng, s.m, s.u
	var block []int
	switch x := r.IntN(10); {
	case x < 6: // proposer reaped a prefix
		k := r.IntN(len(m.pool) + 1)
		block = append(block, m.pool[:k]...)
	case x < 8: // arbitrary subset (a proposer may drop txs)
		for _, i := range m.pool {
			if r.IntN(2) == 0 {
				block = append(block, i)
			}
		}
	}
	for k := r.IntN(3); k > 0 && r.IntN(3) == 0; k-- { // txs this node never saw or saw earlier
		if r.IntN(2) == 0 && len(u.txs) > 0 {
			i := r.IntN(len(u.txs))
			dup := false
			for _, b := range block {
				dup = dup || b == i
			}
			if !dup {
				block = append(block, i)
			}
		} else {
			block = append(block, u.add(s.newTx()))
		}
	}
	oks := make([]bool, len(block))
	txs := make(types.Txs, len(block))
	res := make([]abci.ResponseDeliverTx, len(block))
	var desc []string
	for k, i := range block {
		oks[k] = r.IntN(5) != 0
		txs[k] = u.txs[i]
		if !oks[k] {
			res[k].Error = stubErr{}
		}
		desc = append(desc, fmt.Sprintf("%s:%v", vf.Hex(u.txs[i][:5]), oks[k]))
	}
	newPre, newMax := -1, int64(0)
	var pre mempool.PreCheckFunc
	if s.param && r.IntN(4) == 0 {
		if r.IntN(2) == 0 {
			newMax = []int64{s.mc.MaxTxBytes, s.mc.MaxTxBytes - 4, s.mc.MaxTxBytes - 9, s.mc.MaxTxBytes + 8}[r.IntN(4)]
		} else {
			newPre = []int{0, int(s.mc.MaxTxBytes) - 3, int(s.mc.MaxTxBytes) - 10}[r.IntN(3)]
			pre = preCheckFor(newPre)
		}
	}
	height := m.height + 1
	poolBefore := len(m.pool)
	removed, filtered, invalidated := m.update(&s.mc, u, height, block, oks, newPre, newMax)
	op := fmt.Sprintf("Update(h=%d, [%s], preMax=%d, maxTxBytes=%d)", height, strings.Join(desc, " "), newPre, newMax)
	s.log = append(s.log, fmt.Sprintf("%s want removed=%d filtered=%d invalidated=%d", op, removed, filtered, invalidated))
	s.app.height.Store(height) // the application committed the block
	var err error
	pv := vf.Try(func() {
		s.mem.Lock()
		defer s.mem.Unlock()
		if e := s.mem.FlushAppConn(); e != nil {
			panic(e)
		}
		err = s.mem.Update(height, txs, res, pre, newMax)
	})
	s.c.Count("update", 1)
	s.c.Count("update:removed-committed", removed)
	s.c.Count("update:recheck-filtered", filtered)
	s.c.Count("update:recheck-invalidated", invalidated)
	if s.mc.Recheck && poolBefore-removed > 0 {
		s.c.Count("update:with-recheck", 1)
	}
	s.c.Case(fmt.Sprintf("Update/pool=%d/block=%d/removed=%d/filtered=%d/invalidated=%d/recheck=%v", poolBefore, len(block), removed, filtered, invalidated, s.mc.Recheck),
		removed+filtered+invalidated > 0)
	if pv != nil {
		key := "panic:Update"
		if filtered > 0 && strings.Contains(fmt.Sprint(pv), "Unexpected tx response from proxy during recheck") {
			key = "panic:Update:recheck-skip-desync"
		}
		s.viol(key, map[string]any{"panic": fmt.Sprint(pv), "recheck_filtered": filtered},
			"%s panicked: %v (the recheck pass dropped %d pooled txs for the new size limit/preCheck)", op, pv, filtered)
		s.dead = true
		return
	}
	if err != nil {
		s.viol("update-error", map[string]any{"err": err.Error()}, "%s returned %v", op, err)
	}
	if flag, cur := rechecking(s.mem); (flag != 0 || cur) && filtered > 0 {
		s.viol("stuck-rechecking:recheck-skip-desync", map[string]any{"rechecking": flag, "cursor_set": cur, "recheck_filtered": filtered},
			"%s returned, but the mempool stays in recheck mode for ever (rechecking=%d, cursor set=%v) because the recheck pass dropped %d pooled txs for the new size limit/preCheck without advancing the cursor: every later Reap spins while holding the mempool lock and the next CheckTx panics", op, flag, cur, filtered)
		s.dead = true
		return
	}
	s.after(op)
}

func (s *seqRun) opReapBytesGas() {
	r, m, u := s.rng, s.m, s.u
	// prefix sums
	var pb, pg []int64
	var tb, tg int64
	for _, i := range m.pool {
		tb += int64(len(u.txs[i]))
		_, g := verdict(u.txs[i], 0)
		if tg+g < tg {
			tg = 1<<63 - 1
		} else {
			tg += g
		}
		pb = append(pb, tb)
		pg = append(pg, tg)
	}
	pick := func(ps []int64) int64 {
		switch x := r.IntN(10); {
		case x < 2:
			return -1
		case x < 3:
			return int64(r.IntN(4)) // tiny (0 only for gas)
		case x < 8 && len(ps) > 0:
			v := ps[r.IntN(len(ps))] + int64(r.IntN(3)) - 1
			if v < 0 {
				v = 0
			}
			return v
		default:
			return 1 << 50
		}
	}
	maxBytes, maxGas := pick(pb), pick(pg)
	if maxBytes == 0 {
		if r.IntN(3) != 0 {
			maxBytes = 1
		}
	}
	op := fmt.Sprintf("ReapMaxBytesMaxGas(%d,%d)", maxBytes, maxGas)
	s.log = append(s.log, op)
	var got types.Txs
	pv := vf.Try(func() { got = s.mem.ReapMaxBytesMaxGas(maxBytes, maxGas) })
	if maxBytes == 0 {
		// documented: requires maxDataBytes > 0 (panics); the lock must be released and nothing changes
		s.c.Count("reap-bytes-gas:zero-bytes-panic", 1)
		if pv == nil {
			s.viol("reap-zero-bytes-no-panic", nil, "%s did not panic although the code documents maxDataBytes > 0", op)
		}
		s.after(op)
		return
	}
	if pv != nil {
		s.viol("panic:ReapMaxBytesMaxGas", map[string]any{"panic": fmt.Sprint(pv)}, "%s panicked: %v", op, pv)
		s.dead = true
		return
	}
	want, overflow := m.reapBytesGas(u, maxBytes, maxGas)
	s.c.Count("reap-bytes-gas", 1)
	truncated := len(want) < len(m.pool)
	if truncated {
		s.c.Count("reap-bytes-gas:truncating", 1)
	}
	s.c.Case(fmt.Sprintf("ReapBG/pool=%d/want=%d/b=%v/g=%v", len(m.pool), len(want), maxBytes < 0, maxGas < 0), truncated || maxBytes < 0 || maxGas < 0)
	s.judgeReap(op, got, want, func(key string) string {
		if overflow {
			return "reap-gas-overflow"
		}
		return key
	}, maxBytes, maxGas, -1)
	s.after(op)
}

// judgeReap: got must be a prefix of the pool, within limits, and equal to the model's answer.
func (s *seqRun) judgeReap(op string, got types.Txs, want []int, rekey func(string) string, maxBytes, maxGas int64, maxTxs int) {
	m, u := s.m, s.u
	extra := map[string]any{"got": hexes(got), "want": s.poolStr(want)}
	for k, tx := range got {
		if k >= len(m.pool) || string(tx) != string(u.txs[m.pool[k]]) {
			s.viol(rekey("reap-not-a-prefix"), extra, "%s returned %v, which is not a prefix of the contents %v", op, hexes(got), s.poolStr(m.pool))
			return
		}
	}
	if maxTxs >= 0 && len(got) > maxTxs {
		key := "reap-maxtxs-over"
		if len(got) != maxTxs+1 {
			key = "reap-maxtxs-over:by-more-than-one"
		}
		s.viol(key, extra, "%s returned %d txs, more than the %d requested (pool holds %d)", op, len(got), maxTxs, len(m.pool))
		return
	}
	var tb int64
	gasOver := false
	var tg int64
	for _, tx := range got {
		tb += int64(len(tx))
		_, g := verdict(tx, 0)
		if maxGas > -1 && (g > maxGas || tg > maxGas-g) {
			gasOver = true
		}
		tg += g
	}
	if maxBytes > -1 && tb > maxBytes {
		s.viol(rekey("reap-over-bytes"), extra, "%s returned %d bytes", op, tb)
		return
	}
	if gasOver {
		s.viol(rekey("reap-over-gas"), extra, "%s returned txs whose gas wanted adds up to more than maxGas", op)
		return
	}
	if len(got) != len(want) {
		s.viol(rekey("reap-short"), extra, "%s returned %d txs, the longest prefix within the limits has %d", op, len(got), len(want))
	}
}

func (s *seqRun) opReapMaxTxs() {
	r, m := s.rng, s.m
	var n int
	switch x := r.IntN(10); {
	case x < 2:
		n = -1
	case x < 4:
		n = 0
	case x < 6:
		n = len(m.pool)
	case x < 8 && len(m.pool) > 0:
		n = r.IntN(len(m.pool))
	default:
		n = len(m.pool) + 1 + r.IntN(3)
	}
	op := fmt.Sprintf("ReapMaxTxs(%d)", n)
	s.log = append(s.log, op)
	var got types.Txs
	if pv := vf.Try(func() { got = s.mem.ReapMaxTxs(n) }); pv != nil {
		s.viol("panic:ReapMaxTxs", map[string]any{"panic": fmt.Sprint(pv)}, "%s panicked: %v", op, pv)
		s.dead = true
		return
	}
	want := m.reapMaxTxs(n)
	rel := "lt"
	switch {
	case n < 0:
		rel = "neg"
	case n == 0:
		rel = "zero"
	case n == len(m.pool):
		rel = "eq"
	case n > len(m.pool):
		rel = "gt"
	}
	s.c.Count("reap-max-txs:"+rel, 1)
	s.c.Case(fmt.Sprintf("ReapMaxTxs/%s/pool=%d/n=%d", rel, len(m.pool), n), len(m.pool) > 0)
	s.judgeReap(op, got, want, func(k string) string { return k }, -1, -1, n)
	s.after(op)
}

func (s *seqRun) opFlush() {
	op := "Flush()"
	s.log = append(s.log, op)
	s.c.Case(fmt.Sprintf("Flush/pool=%d/cache=%d", len(s.m.pool), len(s.m.cache)), len(s.m.pool) > 0)
	s.c.Count("flush", 1)
	s.m.flush()
	if pv := vf.Try(func() { s.mem.Flush() }); pv != nil {
		s.viol("panic:Flush", map[string]any{"panic": fmt.Sprint(pv)}, "Flush panicked: %v", pv)
		s.dead = true
		return
	}
	s.after(op)
}

func runSequence(c *vf.Ctx, idx int, r *rand.Rand) {
	mc := mcfg{
		Size:       2 + r.IntN(11),
		MaxPending: 1 << 30,
		CacheSize:  1000,
		Recheck:    r.IntN(3) != 0,
		Notify:     r.IntN(10) < 7,
		MaxTxBytes: 30 + int64(r.IntN(20)),
	}
	if r.IntN(3) == 0 {
		mc.MaxPending = 40 + int64(r.IntN(200))
	}
	switch x := r.IntN(10); {
	case x < 3:
		mc.CacheSize = 1 + r.IntN(6)
	case x < 4:
		mc.CacheSize = 0
	}
	s := &seqRun{c: c, idx: idx, rng: r, mc: mc, u: newUniverse(), app: &stubApp{}}
	s.param = r.IntN(4) == 0
	s.huge = r.IntN(15) == 0
	s.m = &mstate{maxTxBytes: mc.MaxTxBytes}
	conf := cfg.TestMempoolConfig()
	conf.Size, conf.MaxPendingTxsBytes, conf.CacheSize, conf.Recheck = mc.Size, mc.MaxPending, mc.CacheSize, mc.Recheck
	s.mem = newMempool(conf, s.app, mc.MaxTxBytes)
	if mc.Notify {
		s.mem.EnableTxsAvailable()
	}
	c.Count("sequences", 1)
	c.Count(fmt.Sprintf("sequences:cache=%s", map[bool]string{true: "large", false: "small-or-off"}[mc.CacheSize == 1000]), 1)
	nops := 40 + r.IntN(41)
	// the ops run in their own goroutine so that an operation that never returns (a mutex left locked) is noticed
	var progress atomic.Int64
	var lastOp atomic.Pointer[string]
	finished := make(chan struct{})
	go func() {
		defer close(finished)
		for k := 0; k < nops && !s.dead; k++ {
			switch x := r.IntN(100); {
			case x < 55:
				s.opCheckTx()
			case x < 70:
				s.opUpdate()
			case x < 82:
				s.opReapBytesGas()
			case x < 96:
				s.opReapMaxTxs()
			default:
				s.opFlush()
			}
			if n := len(s.log); n > 0 {
				lastOp.Store(&s.log[n-1])
			}
			progress.Add(1)
		}
	}()
	select {
	case <-finished:
	case <-time.After(seqWatchdog):
		before := progress.Load()
		time.Sleep(2 * time.Second)
		last := "(first op)"
		if p := lastOp.Load(); p != nil {
			last = *p
		}
		if progress.Load() == before {
			c.Violation("deadlock:sequential", map[string]any{"sequence": idx, "config": mc, "ops_completed": before, "last_completed_op": last},
				"a single-threaded sequence stopped making progress for %s + 2 s after %d ops (last completed: %s): an operation never returned (mempool operations only wait for the mempool mutex)", seqWatchdog, before, last)
		} else {
			c.Inconclusive(fmt.Sprintf("sequence %d: watchdog fired but the sequence was still progressing", idx))
		}
		c.Count("sequences_hung", 1)
		return
	}
	if s.dead {
		c.Count("sequences_cut_short", 1)
	}
	if idx < 2 && !s.dead {
		ops := s.log
		if len(ops) > 25 {
			ops = ops[:25]
		}
		c.Sample(map[string]any{"phase": "sequential", "config": mc, "first_ops": ops})
	}
	c.Count("app_checktx_calls", int(s.app.checks.Load()))
	c.Count("app_recheck_calls", int(s.app.rechecks.Load()))
}

func runSequential(c *vf.Ctx) {
	n := c.N(600, 20000)
	c.Parallel(n, 8, 1, func(i int, r *rand.Rand) {
		if c.Counter("sequences_hung") >= 4 {
			return
		}
		runSequence(c, i, r)
	})
	for _, k := range []string{"checktx:added", "checktx:invalid", "checktx:full", "checktx:too-large", "checktx:in-cache",
		"checktx:in-cache-not-pooled-any-more", "update:removed-committed", "update:recheck-invalidated", "update:with-recheck",
		"reap-bytes-gas:truncating", "reap-max-txs:neg", "reap-max-txs:zero", "reap-max-txs:lt", "reap-max-txs:eq", "reap-max-txs:gt", "flush", "txs_available_fired", "state:full-by-count"} {
		c.RequireCounter(k, 20)
	}
	c.RequireCounter("checktx:precheck", 1)
	c.RequireCounter("update:recheck-filtered", 1)
}
