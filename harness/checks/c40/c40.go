// Package c40: the CList mempool never duplicates, loses order, or over-reaps.
//
// Sequential phase: the real CListMempool (local ABCI client, stub application
// whose CheckTx verdict and gas are a pure function of the tx bytes and the
// application height) is driven op by op next to a reference model (ordered
// list + LRU cache + byte/gas accounting + TxsAvailable flag). After every
// operation Size, TxsBytes, the contents in order (ReapMaxTxs(-1)), the
// notification channel and the size limits are compared with the model.
//
// Concurrent phase (engine built with -race): several goroutines CheckTx while
// one goroutine does what consensus does (Reap, then Lock; FlushAppConn;
// Update; Unlock) and others reap and read Size/TxsBytes. Every call is
// stamped from one logical clock; invariants are monitored continuously and
// the recorded CheckTx/Update/Reap history is checked for linearizability
// against the same sequential model with porcupine.
package c40

import (
	"fmt"
	"math"
	"math/rand/v2"
	"reflect"
	"runtime"
	"sync/atomic"

	abci "github.com/gnolang/gno/tm2/pkg/bft/abci/types"
	"github.com/gnolang/gno/tm2/pkg/bft/mempool"
	cfg "github.com/gnolang/gno/tm2/pkg/bft/mempool/config"
	"github.com/gnolang/gno/tm2/pkg/bft/proxy"

	"verifharness/internal/vf"
)

func init() {
	vf.Register(&vf.Check{
		ID:    "C40",
		Level: "exploration",
		Rule: "sequential cases = (seed, sequence index) -> mempool config (size 2-12, pending-bytes limit, cache 0/small/large, recheck on/off, notifications on/off) and a sequence of 40-80 ops " +
			"(CheckTx of new valid/invalid/expiring/oversized/huge-gas txs and of previously seen ones, Update with reaped prefixes, subsets, foreign txs, valid/invalid results and occasional maxTxBytes/preCheck changes, " +
			"ReapMaxBytesMaxGas with limits at and around prefix sums, ReapMaxTxs(-1,0,<size,=size,>size), Flush); one evaluated case per op, distinct by (op, outcome, model pool size, cache relation), " +
			"non-trivial = a rejection, a limit that binds, a removal by Update/recheck, or a reap that truncates. " +
			"concurrent cases = one history of 2-6 CheckTx goroutines + consensus goroutine + reapers on one mempool, distinct by the observed op sequence, non-trivial = an Update overlapped a CheckTx or Reap in logical time",
		Run: run,
	})
}

// ------------------------------------------------------------------ txs

// tx layout: [0] flags, [1] gas code, [2] expiry height, [3..4] id, rest padding.
const (
	flagInvalid = 1 << 0 // CheckTx always fails
	flagExpires = 1 << 1 // CheckTx fails once app height >= tx[2]
)

var gasTable = []int64{0, 1, 2, 5, 10, 50, 1 << 40, math.MaxInt64 - 3}

// verdict is the stub application's pure CheckTx function.
func verdict(tx []byte, height int64) (ok bool, gas int64) {
	var f, g, x byte
	if len(tx) > 0 {
		f = tx[0]
	}
	if len(tx) > 1 {
		g = tx[1]
	}
	if len(tx) > 2 {
		x = tx[2]
	}
	gas = gasTable[int(g)%len(gasTable)]
	if f&flagInvalid != 0 {
		return false, gas
	}
	if f&flagExpires != 0 && height >= int64(x) {
		return false, gas
	}
	return true, gas
}

type stubErr struct{}

func (stubErr) AssertABCIError() {}
func (stubErr) Error() string    { return "stub: tx rejected" }

type stubApp struct {
	abci.BaseApplication
	height   atomic.Int64
	checks   atomic.Int64
	rechecks atomic.Int64
	work     bool // concurrent phase: the application takes a little while and yields (the mempool and app mutexes are held meanwhile)
}

func (a *stubApp) CheckTx(req abci.RequestCheckTx) abci.ResponseCheckTx {
	if req.Type == abci.CheckTxTypeRecheck {
		a.rechecks.Add(1)
	} else {
		a.checks.Add(1)
	}
	if a.work {
		n := int(req.Tx[len(req.Tx)-1]) % 4
		for i := 0; i < n; i++ {
			runtime.Gosched()
		}
	}
	ok, gas := verdict(req.Tx, a.height.Load())
	res := abci.ResponseCheckTx{GasWanted: gas}
	if !ok {
		res.Error = stubErr{}
	}
	return res
}

func newMempool(c *cfg.MempoolConfig, app abci.Application, maxTxBytes int64) *mempool.CListMempool {
	cc := proxy.NewLocalClientCreator(app)
	cl, err := cc.NewABCIClient()
	if err != nil {
		panic(err)
	}
	if err := cl.Start(); err != nil {
		panic(err)
	}
	return mempool.NewCListMempool(c, cl, 0, maxTxBytes)
}

// rechecking reads the mempool's unexported recheck state (sequential phase
// only; plain reads under quiescence).
func rechecking(mem *mempool.CListMempool) (flag int64, cursorSet bool) {
	v := reflect.ValueOf(mem).Elem()
	return v.FieldByName("rechecking").Int(), !v.FieldByName("recheckCursor").IsNil()
}

// universe maps tx index <-> bytes.
type universe struct {
	txs [][]byte
	idx map[string]int
}

func newUniverse() *universe { return &universe{idx: map[string]int{}} }

func (u *universe) add(tx []byte) int {
	if i, ok := u.idx[string(tx)]; ok {
		return i
	}
	u.txs = append(u.txs, tx)
	u.idx[string(tx)] = len(u.txs) - 1
	return len(u.txs) - 1
}

func (u *universe) lookup(tx []byte) int {
	if i, ok := u.idx[string(tx)]; ok {
		return i
	}
	return -1
}

func makeTx(flags, gasCode, expiry byte, id uint16, length int) []byte {
	if length < 5 {
		length = 5
	}
	tx := make([]byte, length)
	tx[0], tx[1], tx[2], tx[3], tx[4] = flags, gasCode, expiry, byte(id>>8), byte(id)
	for i := 5; i < length; i++ {
		tx[i] = byte(i) ^ byte(id)
	}
	return tx
}

func txStr(tx []byte) string {
	ok, gas := verdict(tx, 0)
	return fmt.Sprintf("%s(len=%d gas=%d ok@0=%v)", vf.Hex(tx[:min(len(tx), 5)]), len(tx), gas, ok)
}

func run(c *vf.Ctx) {
	runSequential(c)
	runConcurrent(c)
	c.Assume("the stub ABCI application (verdict and gas a pure function of tx bytes and application height) stands in for a real application; the local (synchronous) ABCI client is the only client in the tree")
	c.Assume("concurrent interleavings are sampled by the Go scheduler with seeded noise, not enumerated; porcupine v1.3.0 decides linearizability, timeouts are counted and never reported as violations")
}

func rngBool(r *rand.Rand, pct int) bool { return r.IntN(100) < pct }
