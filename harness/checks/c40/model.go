package c40

import (
	"fmt"
	"sort"
	"strings"
)

// mcfg is the static configuration the model shares with the real mempool.
type mcfg struct {
	Size       int   `json:"size"`
	MaxPending int64 `json:"max_pending_bytes"`
	CacheSize  int   `json:"cache_size"`
	Recheck    bool  `json:"recheck"`
	Notify     bool  `json:"notify"`
	MaxTxBytes int64 `json:"max_tx_bytes"`
}

// mstate is the reference model: ordered pool, LRU cache, limits, notification flag.
// Txs are indices into a universe.
type mstate struct {
	pool       []int
	cache      []int // LRU order, front = oldest
	height     int64 // application height (drives expiring txs)
	maxTxBytes int64
	preMax     int // preCheck rejects len(tx) > preMax; 0 = no preCheck
	notified   bool
	chanFull   bool
}

func (m *mstate) clone() *mstate {
	n := *m
	n.pool = append([]int(nil), m.pool...)
	n.cache = append([]int(nil), m.cache...)
	return &n
}

func (m *mstate) inPool(i int) bool {
	for _, p := range m.pool {
		if p == i {
			return true
		}
	}
	return false
}

func (m *mstate) inCache(i int) bool {
	for _, p := range m.cache {
		if p == i {
			return true
		}
	}
	return false
}

func (m *mstate) bytes(u *universe) int64 {
	var n int64
	for _, p := range m.pool {
		n += int64(len(u.txs[p]))
	}
	return n
}

func del(s []int, v int) []int {
	for i, x := range s {
		if x == v {
			return append(s[:i:i], s[i+1:]...)
		}
	}
	return s
}

// cachePush mirrors the documented LRU: false if present (and refreshed), else insert, evicting the oldest when full.
func (m *mstate) cachePush(c *mcfg, i int) bool {
	if c.CacheSize <= 0 {
		return true
	}
	if m.inCache(i) {
		m.cache = append(del(m.cache, i), i)
		return false
	}
	if len(m.cache) >= c.CacheSize {
		m.cache = m.cache[1:]
	}
	m.cache = append(m.cache, i)
	return true
}

func (m *mstate) cacheRemove(i int) { m.cache = del(m.cache, i) }

func (m *mstate) notify(c *mcfg) {
	if c.Notify && !m.notified {
		m.notified = true
		m.chanFull = true
	}
}

type outcome int

const (
	outAdded outcome = iota
	outInvalid
	outFull
	outTooLarge
	outPreCheck
	outInCache
	outDupNotAdded // valid, not cached any more, but still pooled: must not be pooled twice
)

var outcomeNames = []string{"added", "invalid", "full", "too-large", "precheck", "in-cache", "dup-not-added"}

func (o outcome) String() string { return outcomeNames[o] }

// checkTx applies CheckTx(tx i) to the model.
func (m *mstate) checkTx(c *mcfg, u *universe, i int) outcome {
	tx := u.txs[i]
	if len(m.pool) >= c.Size || int64(len(tx))+m.bytes(u) > c.MaxPending {
		return outFull
	}
	if int64(len(tx)) > m.maxTxBytes {
		return outTooLarge
	}
	if m.preMax > 0 && len(tx) > m.preMax {
		return outPreCheck
	}
	if !m.cachePush(c, i) {
		return outInCache
	}
	if m.inPool(i) {
		// pooled but no longer cached (evicted, or the cache is off). What the mempool answers here is not
		// specified (it may or may not ask the application again); the caller adapts the cache to the answer.
		return outDupNotAdded
	}
	ok, _ := verdict(tx, m.height)
	if !ok {
		m.cacheRemove(i)
		return outInvalid
	}
	m.pool = append(m.pool, i)
	m.notify(c)
	return outAdded
}

// update applies Update. newPreMax < 0 keeps the preCheck, newMaxTxBytes == 0 keeps the limit.
// It reports how many pooled txs the recheck pass dropped for size/preCheck and for an invalid verdict.
func (m *mstate) update(c *mcfg, u *universe, height int64, txs []int, oks []bool, newPreMax int, newMaxTxBytes int64) (removedCommitted, filtered, invalidated int) {
	m.height = height
	m.notified = false
	if newPreMax >= 0 {
		m.preMax = newPreMax
	}
	if newMaxTxBytes != 0 {
		m.maxTxBytes = newMaxTxBytes
	}
	for k, i := range txs {
		if oks[k] {
			m.cachePush(c, i)
		} else {
			m.cacheRemove(i)
		}
		if m.inPool(i) {
			m.pool = del(m.pool, i)
			removedCommitted++
		}
	}
	if len(m.pool) == 0 {
		return
	}
	if !c.Recheck {
		m.notify(c)
		return
	}
	for _, i := range append([]int(nil), m.pool...) {
		tx := u.txs[i]
		switch {
		case int64(len(tx)) > m.maxTxBytes, m.preMax > 0 && len(tx) > m.preMax:
			m.pool = del(m.pool, i) // stays cached
			filtered++
		default:
			if ok, _ := verdict(tx, m.height); !ok {
				m.pool = del(m.pool, i)
				m.cacheRemove(i)
				invalidated++
			}
		}
	}
	if len(m.pool) > 0 {
		m.notify(c)
	}
	return
}

// reapBytesGas: the longest prefix within both limits (negative = unlimited).
// overflow reports that an int64 running gas sum would have wrapped at the cut.
func (m *mstate) reapBytesGas(u *universe, maxBytes, maxGas int64) (out []int, overflow bool) {
	var tb, tg int64
	for _, i := range m.pool {
		tx := u.txs[i]
		if maxBytes > -1 && tb+int64(len(tx)) > maxBytes {
			return
		}
		tb += int64(len(tx))
		_, gas := verdict(tx, 0)
		if maxGas > -1 {
			if gas > maxGas-tg { // tg <= maxGas, no overflow in this form
				overflow = tg+gas < 0
				return
			}
			tg += gas
		}
		out = append(out, i)
	}
	return
}

func (m *mstate) reapMaxTxs(n int) []int {
	if n < 0 || n > len(m.pool) {
		n = len(m.pool)
	}
	return append([]int(nil), m.pool[:n]...)
}

func (m *mstate) flush() {
	m.pool = nil
	m.cache = nil
}

func idxStr(s []int) string {
	var sb strings.Builder
	for k, i := range s {
		if k > 0 {
			sb.WriteByte(',')
		}
		fmt.Fprintf(&sb, "%d", i)
	}
	return sb.String()
}

// key is a canonical encoding for the concurrent phase (cache as a set: no eviction there).
func (m *mstate) key() string {
	cs := append([]int(nil), m.cache...)
	sort.Ints(cs)
	return fmt.Sprintf("%d|%s|%s", m.height, idxStr(m.pool), idxStr(cs))
}
