package c40

import (
	"errors"
	"fmt"
	"hash/fnv"
	"math/rand/v2"
	"runtime"
	"sort"
	"strings"
	"sync"
	"sync/atomic"
	"time"

	"github.com/anishathalye/porcupine"

	abci "github.com/gnolang/gno/tm2/pkg/bft/abci/types"
	"github.com/gnolang/gno/tm2/pkg/bft/mempool"
	cfg "github.com/gnolang/gno/tm2/pkg/bft/mempool/config"
	"github.com/gnolang/gno/tm2/pkg/bft/types"

	"verifharness/internal/vf"
)

type ckind int

const (
	cCheckTx ckind = iota
	cUpdate
	cReapTxs
	cReapBG
	cSize // invariant monitor only
)

var ckindNames = []string{"CheckTx", "Update", "ReapMaxTxs", "ReapMaxBytesMaxGas", "Size/TxsBytes"}

type cop struct {
	G     int
	Kind  ckind
	Tx    int     // CheckTx
	N     int     // ReapMaxTxs
	B, Gs int64   // ReapMaxBytesMaxGas
	H     int64   // Update
	Block []int   // Update
	Oks   []bool  // Update
	Class outcome // CheckTx result
	Out   string  // reap result (tx indices)
	Call  int64
	Ret   int64
}

func (o *cop) String() string {
	switch o.Kind {
	case cCheckTx:
		return fmt.Sprintf("g%d CheckTx(%d)->%v [%d,%d]", o.G, o.Tx, o.Class, o.Call, o.Ret)
	case cUpdate:
		return fmt.Sprintf("g%d Lock;Update(h=%d,[%s],%v);Unlock [%d,%d]", o.G, o.H, idxStr(o.Block), o.Oks, o.Call, o.Ret)
	case cReapTxs:
		return fmt.Sprintf("g%d ReapMaxTxs(%d)->[%s] [%d,%d]", o.G, o.N, o.Out, o.Call, o.Ret)
	default:
		return fmt.Sprintf("g%d ReapMaxBytesMaxGas(%d,%d)->[%s] [%d,%d]", o.G, o.B, o.Gs, o.Out, o.Call, o.Ret)
	}
}

type cparams struct {
	Index    int      `json:"index"`
	Config   mcfg     `json:"config"`
	Txs      []string `json:"txs"`
	Checkers [][]int  `json:"checkers"`
	Rounds   int      `json:"consensus_rounds"`
	Reapers  int      `json:"reapers"`
	Monitor  bool     `json:"monitor"`
	Noise    uint64   `json:"noise_seed"`
}

type chist struct {
	c     *vf.Ctx
	p     cparams
	u     *universe
	mem   *mempool.CListMempool
	app   *stubApp
	clock atomic.Int64
}

type cworker struct {
	h    *chist
	g    int
	rng  *rand.Rand
	ops  []*cop
	seq  atomic.Int64
	in   atomic.Int32
	done atomic.Bool
}

func (w *cworker) noise() {
	switch r := w.rng.IntN(32); {
	case r < 22:
	case r < 28:
		for i := w.rng.IntN(3) + 1; i > 0; i-- {
			runtime.Gosched()
		}
	case r < 31:
		time.Sleep(time.Duration(w.rng.IntN(30)+1) * time.Microsecond)
	default:
		time.Sleep(time.Duration(w.rng.IntN(300)+50) * time.Microsecond)
	}
}

func (w *cworker) begin(k ckind) int64 {
	w.in.Store(int32(k))
	w.seq.Add(1)
	return w.h.clock.Add(1)
}

func (w *cworker) end(o *cop) {
	o.Ret = w.h.clock.Add(1)
	w.seq.Add(1)
	o.G = w.g
	w.ops = append(w.ops, o)
}

func (h *chist) idxs(txs types.Txs) string {
	out := make([]int, len(txs))
	for k, tx := range txs {
		out[k] = h.u.lookup(tx)
	}
	return idxStr(out)
}

func (w *cworker) checkTx(i int) {
	w.noise()
	h := w.h
	o := &cop{Kind: cCheckTx, Tx: i}
	var fired atomic.Int32
	var cbErr atomic.Bool
	o.Call = w.begin(cCheckTx)
	err := h.mem.CheckTx(h.u.txs[i], func(res abci.Response) {
		if r, ok := res.(abci.ResponseCheckTx); ok && r.Error != nil {
			cbErr.Store(true)
		}
		fired.Add(1)
	})
	if err == nil {
		// the operation completes when the application's answer has been processed
		for spins := 0; fired.Load() == 0 && spins < 1_000_000; spins++ {
			runtime.Gosched()
		}
	}
	var full mempool.MempoolIsFullError
	var large mempool.TxTooLargeError
	switch {
	case err == nil && fired.Load() != 1:
		h.c.Violation("cb-contract", map[string]any{"params": h.p, "tx": i, "cb_calls": fired.Load()}, "CheckTx returned nil but the callback ran %d times", fired.Load())
		o.Class = outAdded
	case err == nil && cbErr.Load():
		o.Class = outInvalid
	case err == nil:
		o.Class = outAdded
	case errors.As(err, &full):
		o.Class = outFull
	case errors.As(err, &large):
		o.Class = outTooLarge
	case err == mempool.ErrTxInCache:
		o.Class = outInCache
	default:
		h.c.Violation("checktx-unknown-error", map[string]any{"params": h.p, "err": err.Error()}, "CheckTx returned unexpected error %v", err)
	}
	if err != nil && fired.Load() != 0 {
		h.c.Violation("cb-contract", map[string]any{"params": h.p, "tx": i, "err": err.Error()}, "CheckTx returned %v and also ran the callback", err)
	}
	w.end(o)
}

func (w *cworker) reapTxs(n int) {
	w.noise()
	h := w.h
	o := &cop{Kind: cReapTxs, N: n}
	o.Call = w.begin(cReapTxs)
	got := h.mem.ReapMaxTxs(n)
	o.Out = h.idxs(got)
	w.end(o)
	h.reapInvariants(o, got)
	if n >= 0 && len(got) > n {
		key := "reap-maxtxs-over"
		if len(got) != n+1 {
			key = "reap-maxtxs-over:by-more-than-one"
		}
		h.c.Violation(key, map[string]any{"params": h.p, "op": o.String()}, "ReapMaxTxs(%d) returned %d txs", n, len(got))
		o.Out = h.idxs(got[:n]) // judge the rest of the history as if the extra tx had not been returned
	}
}

func (w *cworker) reapBG(b, g int64) types.Txs {
	w.noise()
	h := w.h
	o := &cop{Kind: cReapBG, B: b, Gs: g}
	o.Call = w.begin(cReapBG)
	got := h.mem.ReapMaxBytesMaxGas(b, g)
	o.Out = h.idxs(got)
	w.end(o)
	h.reapInvariants(o, got)
	var tb, tg int64
	for _, tx := range got {
		tb += int64(len(tx))
		_, gas := verdict(tx, 0)
		tg += gas
	}
	if (b > -1 && tb > b) || (g > -1 && tg > g) {
		h.c.Violation("reap-over-limit", map[string]any{"params": h.p, "op": o.String()}, "ReapMaxBytesMaxGas(%d,%d) returned %d bytes / %d gas", b, g, tb, tg)
	}
	return got
}

func (h *chist) reapInvariants(o *cop, got types.Txs) {
	seen := map[string]bool{}
	for _, tx := range got {
		if seen[string(tx)] {
			h.c.Violation("duplicate-in-pool:concurrent", map[string]any{"params": h.p, "op": o.String()}, "a reap returned tx %s twice", vf.Hex(tx))
		}
		seen[string(tx)] = true
		if h.u.lookup(tx) < 0 {
			h.c.Violation("reap-unknown-tx", map[string]any{"params": h.p, "op": o.String()}, "a reap returned a tx that was never submitted: %s", vf.Hex(tx))
		}
	}
	if len(got) > h.p.Config.Size {
		h.c.Violation("limit-exceeded:size", map[string]any{"params": h.p, "op": o.String()}, "a reap returned %d txs, the mempool's size limit is %d", len(got), h.p.Config.Size)
	}
}

// commit does what consensus does after a block: Lock; FlushAppConn; (app commits); Update; Unlock.
func (w *cworker) commit(height int64, block types.Txs) {
	w.noise()
	h := w.h
	o := &cop{Kind: cUpdate, H: height}
	res := make([]abci.ResponseDeliverTx, len(block))
	for k, tx := range block {
		o.Block = append(o.Block, h.u.lookup(tx))
		ok := w.rng.IntN(5) != 0
		o.Oks = append(o.Oks, ok)
		if !ok {
			res[k].Error = stubErr{}
		}
	}
	o.Call = w.begin(cUpdate)
	var err error
	pv := vf.Try(func() {
		h.mem.Lock()
		defer h.mem.Unlock()
		if e := h.mem.FlushAppConn(); e != nil {
			panic(e)
		}
		h.app.height.Store(height)
		err = h.mem.Update(height, block, res, nil, 0)
	})
	w.end(o)
	if pv != nil || err != nil {
		h.c.Violation("panic:Update:concurrent", map[string]any{"params": h.p, "op": o.String(), "panic": fmt.Sprint(pv), "err": fmt.Sprint(err)}, "Update failed: panic=%v err=%v", pv, err)
	}
}

func genConc(i int, r *rand.Rand) (cparams, *universe) {
	u := newUniverse()
	mc := mcfg{Size: 3 + r.IntN(6), MaxPending: 1 << 30, CacheSize: 1000, Recheck: r.IntN(3) != 0, MaxTxBytes: 24}
	ntx := 5 + r.IntN(6)
	if r.IntN(3) == 0 {
		mc.MaxPending = 40 + int64(r.IntN(80))
	}
	for k := 0; k < ntx; k++ {
		var flags, exp byte
		switch x := r.IntN(10); {
		case x == 0:
			flags = flagInvalid
		case x < 3:
			flags, exp = flagExpires, byte(1+r.IntN(3))
		}
		length := 5 + r.IntN(18)
		if r.IntN(12) == 0 {
			length = 25 + r.IntN(3)
		}
		u.add(makeTx(flags, byte(r.IntN(6)), exp, uint16(k+1), length))
	}
	p := cparams{Index: i, Config: mc, Noise: r.Uint64()}
	for _, tx := range u.txs {
		p.Txs = append(p.Txs, txStr(tx))
	}
	nc := 2 + r.IntN(5)
	budget := 26
	for g := 0; g < nc; g++ {
		n := 2 + r.IntN(4)
		if n > budget {
			n = budget
		}
		budget -= n
		var l []int
		for k := 0; k < n; k++ {
			l = append(l, r.IntN(ntx))
		}
		p.Checkers = append(p.Checkers, l)
	}
	p.Rounds = 1 + r.IntN(3)
	p.Reapers = r.IntN(3)
	p.Monitor = r.IntN(2) == 0
	return p, u
}

const cwatchdog = 20 * time.Second

func runConcHistory(c *vf.Ctx, p cparams, u *universe) ([]*cop, *chist, bool) {
	h := &chist{c: c, p: p, u: u, app: &stubApp{work: true}}
	conf := cfg.TestMempoolConfig()
	conf.Size, conf.MaxPendingTxsBytes, conf.CacheSize, conf.Recheck = p.Config.Size, p.Config.MaxPending, p.Config.CacheSize, p.Config.Recheck
	h.mem = newMempool(conf, h.app, p.Config.MaxTxBytes)
	var ws []*cworker
	var wg sync.WaitGroup
	start := make(chan struct{})
	var stopMon atomic.Bool
	spawn := func(f func(w *cworker)) *cworker {
		w := &cworker{h: h, g: len(ws)}
		w.rng = rand.New(rand.NewPCG(p.Noise, uint64(w.g)+1))
		ws = append(ws, w)
		wg.Add(1)
		go func() {
			defer wg.Done()
			defer w.done.Store(true)
			defer func() {
				if pv := recover(); pv != nil {
					c.Violation("panic:"+ckindNames[w.in.Load()]+":concurrent", map[string]any{"params": p, "goroutine": w.g, "panic": fmt.Sprint(pv)},
						"goroutine %d panicked inside %s: %v", w.g, ckindNames[w.in.Load()], pv)
				}
			}()
			<-start
			f(w)
		}()
		return w
	}
	for _, l := range p.Checkers {
		spawn(func(w *cworker) {
			for _, i := range l {
				w.checkTx(i)
			}
		})
	}
	spawn(func(w *cworker) { // consensus
		for round := 1; round <= p.Rounds; round++ {
			for k := w.rng.IntN(4); k > 0; k-- {
				w.noise()
			}
			var b, g int64 = -1, -1
			if w.rng.IntN(2) == 0 {
				b = int64(10 + w.rng.IntN(60))
			}
			if w.rng.IntN(2) == 0 {
				g = int64(w.rng.IntN(30))
			}
			block := w.reapBG(b, g)
			w.commit(int64(round), block)
		}
	})
	for k := 0; k < p.Reapers; k++ {
		spawn(func(w *cworker) {
			for n := 2 + w.rng.IntN(3); n > 0; n-- {
				if w.rng.IntN(2) == 0 {
					w.reapTxs([]int{-1, 0, 1, 2, 3, 20}[w.rng.IntN(6)])
				} else {
					w.reapBG([]int64{-1, 12, 30, 60}[w.rng.IntN(4)], []int64{-1, 0, 3, 12, 1000}[w.rng.IntN(5)])
				}
			}
		})
	}
	var monWG sync.WaitGroup
	if p.Monitor {
		monWG.Add(1)
		go func() {
			defer monWG.Done()
			<-start
			for !stopMon.Load() {
				n, b := h.mem.Size(), h.mem.TxsBytes()
				c.Count("monitor_reads", 1)
				if n > p.Config.Size || n < 0 {
					c.Violation("limit-exceeded:size", map[string]any{"params": p, "size": n}, "Size() = %d observed concurrently, limit %d", n, p.Config.Size)
				}
				if b > p.Config.MaxPending || b < 0 {
					c.Violation("limit-exceeded:bytes", map[string]any{"params": p, "bytes": b}, "TxsBytes() = %d observed concurrently, limit %d", b, p.Config.MaxPending)
				}
				runtime.Gosched()
			}
		}()
	}
	close(start)
	ok := func() bool {
		ch := make(chan struct{})
		go func() { wg.Wait(); close(ch) }()
		select {
		case <-ch:
			return true
		case <-time.After(cwatchdog):
			return false
		}
	}()
	stopMon.Store(true)
	if !ok {
		// every mempool operation only ever waits for the mempool/app mutex: no progress at all for 2 more seconds is a deadlock
		type snap struct {
			seq int64
			in  int32
		}
		before := map[int]snap{}
		for _, w := range ws {
			if !w.done.Load() {
				before[w.g] = snap{w.seq.Load(), w.in.Load()}
			}
		}
		for i := 0; i < 20000; i++ {
			runtime.Gosched()
			h.clock.Add(1)
		}
		time.Sleep(2 * time.Second)
		progressed := false
		var stuck []string
		for _, w := range ws {
			if b, was := before[w.g]; was {
				if w.done.Load() || w.seq.Load() != b.seq {
					progressed = true
				} else {
					stuck = append(stuck, fmt.Sprintf("g%d in %s", w.g, ckindNames[b.in]))
				}
			}
		}
		if !progressed && len(stuck) > 0 {
			sort.Strings(stuck)
			kinds := map[string]bool{}
			for _, s := range stuck {
				kinds[s[strings.Index(s, "in ")+3:]] = true
			}
			var ks []string
			for k := range kinds {
				ks = append(ks, k)
			}
			sort.Strings(ks)
			c.Violation("deadlock:concurrent", map[string]any{"params": p, "stuck": stuck},
				"no goroutine made progress for %s + 20000 yields + 2 s, blocked inside %s: %v (mempool operations only wait for the mempool mutex)", cwatchdog, strings.Join(ks, "+"), stuck)
		} else {
			c.Inconclusive(fmt.Sprintf("concurrent history %d: watchdog fired but goroutines were still progressing", p.Index))
		}
		return nil, h, false
	}
	monWG.Wait()
	// quiescent point: contents, size, bytes
	fw := &cworker{h: h, g: len(ws), rng: rand.New(rand.NewPCG(p.Noise, 999))}
	fw.reapTxs(-1)
	final := h.mem.ReapMaxTxs(-1)
	var fb int64
	for _, tx := range final {
		fb += int64(len(tx))
	}
	if n := h.mem.Size(); n != len(final) {
		c.Violation("size-mismatch:quiescent", map[string]any{"params": p, "size": n, "contents": h.idxs(final)}, "quiescent Size() = %d but contents have %d txs", n, len(final))
	}
	if b := h.mem.TxsBytes(); b != fb {
		c.Violation("txsbytes-mismatch:quiescent", map[string]any{"params": p, "txs_bytes": b, "contents": h.idxs(final)}, "quiescent TxsBytes() = %d but contents sum to %d", b, fb)
	}
	var all []*cop
	for _, w := range append(ws, fw) {
		all = append(all, w.ops...)
	}
	return all, h, true
}

func concModel(mc *mcfg, u *universe) porcupine.Model {
	return porcupine.Model{
		Init: func() any { return &mstate{maxTxBytes: mc.MaxTxBytes} },
		Step: func(state, input, output any) (bool, any) {
			m := state.(*mstate)
			o := input.(*cop)
			switch o.Kind {
			case cCheckTx:
				n := m.clone()
				want := n.checkTx(mc, u, o.Tx)
				if want == outDupNotAdded {
					want = outInCache
				}
				return want == o.Class, n
			case cUpdate:
				n := m.clone()
				n.update(mc, u, o.H, o.Block, o.Oks, -1, 0)
				return true, n
			case cReapTxs:
				return idxStr(m.reapMaxTxs(o.N)) == o.Out, m
			case cReapBG:
				want, _ := m.reapBytesGas(u, o.B, o.Gs)
				return idxStr(want) == o.Out, m
			}
			return false, m
		},
		Equal: func(a, b any) bool { return a.(*mstate).key() == b.(*mstate).key() },
		Hash: func(a any) uint64 {
			f := fnv.New64a()
			f.Write([]byte(a.(*mstate).key()))
			return f.Sum64()
		},
	}
}

func runConcurrent(c *vf.Ctx) {
	n := c.N(400, 12000)
	c.Parallel(n, 6, 500000, func(i int, r *rand.Rand) {
		if c.Counter("conc_histories_aborted") >= 4 { // every hung history costs a watchdog period

			c.Count("conc_histories_skipped_after_violations", 1)
			return
		}
		p, u := genConc(i, r)
		ops, h, ok := runConcHistory(c, p, u)
		c.Count("conc_histories", 1)
		if !ok {
			c.Count("conc_histories_aborted", 1)
			return
		}
		sort.Slice(ops, func(a, b int) bool { return ops[a].Call < ops[b].Call })
		var hist []porcupine.Operation
		var sb strings.Builder
		overlapUpd := 0
		for _, o := range ops {
			hist = append(hist, porcupine.Operation{ClientId: o.G, Input: o, Output: 0, Call: o.Call, Return: o.Ret})
			fmt.Fprintf(&sb, "%d:%d:%d:%d:%v:%s;", o.G, o.Kind, o.Tx, o.N, o.Class, o.Out)
			c.Count("conc_op:"+ckindNames[o.Kind], 1)
			if o.Kind == cCheckTx {
				c.Count("conc_checktx:"+o.Class.String(), 1)
			}
			if o.Kind == cUpdate {
				for _, q := range ops {
					if q != o && q.Call < o.Ret && o.Call < q.Ret {
						overlapUpd++
					}
				}
				if len(o.Block) > 0 {
					c.Count("conc_update_nonempty_block", 1)
				}
			}
		}
		c.Count("conc_ops_overlapping_update", overlapUpd)
		c.Case("conc|"+sb.String(), overlapUpd > 0)
		if i < 2 {
			var hs []string
			for _, o := range ops {
				hs = append(hs, o.String())
			}
			c.Sample(map[string]any{"phase": "concurrent", "params": p, "history": hs})
		}
		mc := p.Config
		res, _ := porcupine.CheckOperationsVerbose(concModel(&mc, h.u), hist, 20*time.Second)
		switch res {
		case porcupine.Ok:
			c.Count("conc_porcupine_ok", 1)
		case porcupine.Unknown:
			c.Count("conc_porcupine_timeout", 1)
		case porcupine.Illegal:
			var hs []string
			for _, o := range ops {
				hs = append(hs, o.String())
			}
			c.Violation("not-linearizable", map[string]any{"params": p, "history": hs},
				"the recorded CheckTx/Update/Reap history (%d operations) has no linearization against the sequential mempool model", len(ops))
		}
	})
	done := c.Counter("conc_histories") - c.Counter("conc_histories_aborted")
	c.Require("conc_histories_completed", done, int64(n*9/10))
	c.Require("conc_porcupine_decided", c.Counter("conc_porcupine_ok"), done*9/10)
	c.RequireCounter("conc_ops_overlapping_update", int64(n))
	c.RequireCounter("conc_update_nonempty_block", int64(n/4))
	for _, k := range []string{"conc_checktx:added", "conc_checktx:in-cache", "conc_checktx:full", "conc_checktx:invalid", "conc_op:ReapMaxTxs", "conc_op:ReapMaxBytesMaxGas", "monitor_reads"} {
		c.RequireCounter(k, 10)
	}
}
