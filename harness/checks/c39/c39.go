// Package c39: block part sets reassemble exactly the proposed block.
//
// Oracle: a byte-slice model of the block (chunk i = data[i*ps : min(len,(i+1)*ps)]),
// a boolean vector of the parts that were legitimately added, and an
// independent RFC-6962-style Merkle implementation (sha256, 0x00 leaf prefix,
// 0x01 inner prefix, split at the largest power of two < n) that decides
// whether a (index, bytes, proof) triple is valid for a header.
//
// For every (part size, block size, arrival order) the parts are added to an
// empty set created from the header, interleaved with hostile parts (corrupted
// bytes, corrupted proofs, relabelled indices, out-of-range indices,
// duplicates). After every AddPart the observable state of the set (Count,
// BitArray, IsComplete, GetPart, Header, GetReader) is compared with the model;
// a rejected part must leave it unchanged. On completion the reassembled bytes
// and the hash must equal the original.
package c39

import (
	"bytes"
	"crypto/sha256"
	"errors"
	"fmt"
	"io"
	"math"
	"math/bits"
	"math/rand/v2"
	"runtime"
	"sort"
	"strings"
	"sync/atomic"

	"github.com/gnolang/gno/tm2/pkg/amino"
	bft "github.com/gnolang/gno/tm2/pkg/bft/types"
	"github.com/gnolang/gno/tm2/pkg/crypto/merkle"

	"verifharness/internal/vf"
)

func init() {
	vf.Register(&vf.Check{
		ID:    "C39",
		Level: "exploration",
		Rule: "cases = (part size, block byte length, arrival order, hostile script); part sizes {1,2,3,7,16,64,1024,65536}; block lengths k*ps-1, k*ps, k*ps+1 " +
			"for k in a per-part-size list (1..9,16,17,31..33 for small part sizes, fewer for large) plus length 1; every permutation of the parts when total <= 6, seeded random " +
			"permutations above; in every order hostile parts (corrupt bytes / proof / index, out-of-range, duplicates) are injected between legitimate adds " +
			"(every position for random orders and for a seeded subset of the exhaustive permutations); AddPart documents no precondition, so negative indices are judged like every other " +
			"out-of-range index (must be rejected via the return values, set unchanged) although the only in-tree caller runs Part.ValidateBasic first; non-trivial = total >= 2 or at least one hostile part was evaluated; " +
			"distinct by (ps, len, data digest, order, hostile script digest)",
		Run: run,
	})
}

// ---------------------------------------------------------------- reference merkle

func refLeaf(b []byte) []byte {
	h := sha256.New()
	h.Write([]byte{0})
	h.Write(b)
	return h.Sum(nil)
}

func refInner(l, r []byte) []byte {
	h := sha256.New()
	h.Write([]byte{1})
	h.Write(l)
	h.Write(r)
	return h.Sum(nil)
}

func refSplit(n int) int {
	k := 1 << (bits.Len(uint(n)) - 1)
	if k == n {
		k >>= 1
	}
	return k
}

// refRoot computes the root over leaf hashes.
func refRoot(leaves [][]byte) []byte {
	switch len(leaves) {
	case 0:
		return nil
	case 1:
		return leaves[0]
	}
	k := refSplit(len(leaves))
	return refInner(refRoot(leaves[:k]), refRoot(leaves[k:]))
}

// refFromAunts recomputes the root from a leaf hash and its audit path
// (aunts ordered leaf-sibling first). ok=false when the path shape is wrong.
func refFromAunts(index, total int, leaf []byte, aunts [][]byte) ([]byte, bool) {
	if total <= 0 || index < 0 || index >= total {
		return nil, false
	}
	if total == 1 {
		if len(aunts) != 0 {
			return nil, false
		}
		return leaf, true
	}
	if len(aunts) == 0 {
		return nil, false
	}
	k := refSplit(total)
	last := aunts[len(aunts)-1]
	if index < k {
		l, ok := refFromAunts(index, k, leaf, aunts[:len(aunts)-1])
		if !ok {
			return nil, false
		}
		return refInner(l, last), true
	}
	r, ok := refFromAunts(index-k, total-k, leaf, aunts[:len(aunts)-1])
	if !ok {
		return nil, false
	}
	return refInner(last, r), true
}

// refValid decides independently whether a part is valid for (total, root).
func refValid(p *bft.Part, total int, root []byte) bool {
	if p.Index < 0 || p.Index >= total {
		return false
	}
	if p.Proof.Index != p.Index || p.Proof.Total != total {
		return false
	}
	if !bytes.Equal(p.Proof.LeafHash, refLeaf(p.Bytes)) {
		return false
	}
	r, ok := refFromAunts(p.Proof.Index, p.Proof.Total, p.Proof.LeafHash, p.Proof.Aunts)
	return ok && bytes.Equal(r, root)
}

// ---------------------------------------------------------------- helpers

func cloneBytes(b []byte) []byte {
	if b == nil {
		return nil
	}
	return append([]byte{}, b...)
}

func clonePart(p *bft.Part) *bft.Part {
	q := &bft.Part{Index: p.Index, Bytes: cloneBytes(p.Bytes)}
	q.Proof = merkle.SimpleProof{Total: p.Proof.Total, Index: p.Proof.Index, LeafHash: cloneBytes(p.Proof.LeafHash)}
	if p.Proof.Aunts != nil {
		q.Proof.Aunts = make([][]byte, len(p.Proof.Aunts))
		for i, a := range p.Proof.Aunts {
			q.Proof.Aunts[i] = cloneBytes(a)
		}
	}
	return q
}

func partWitness(p *bft.Part) map[string]any {
	au := make([]string, len(p.Proof.Aunts))
	for i, a := range p.Proof.Aunts {
		au[i] = vf.Hex(a)
	}
	bz := vf.Hex(p.Bytes)
	if len(bz) > 256 {
		bz = bz[:256] + fmt.Sprintf("...(%d bytes)", len(p.Bytes))
	}
	return map[string]any{"index": p.Index, "bytes": bz, "proof_total": p.Proof.Total, "proof_index": p.Proof.Index, "leaf_hash": vf.Hex(p.Proof.LeafHash), "aunts": au}
}

// snapshot is the observable state of a part set.
type snapshot struct {
	count    int
	total    int
	complete bool
	bits     string
	hash     string
	parts    []*bft.Part // pointer identity
	bytes    [][]byte    // copies
}

func bitString(ps *bft.PartSet) string {
	ba := ps.BitArray()
	var sb strings.Builder
	for i := 0; i < ba.Size(); i++ {
		if ba.GetIndex(i) {
			sb.WriteByte('x')
		} else {
			sb.WriteByte('_')
		}
	}
	return sb.String()
}

func snap(ps *bft.PartSet) snapshot {
	s := snapshot{count: ps.Count(), total: ps.Total(), complete: ps.IsComplete(), bits: bitString(ps), hash: vf.Hex(ps.Hash())}
	s.parts = make([]*bft.Part, s.total)
	s.bytes = make([][]byte, s.total)
	for i := 0; i < s.total; i++ {
		p := ps.GetPart(i)
		s.parts[i] = p
		if p != nil {
			s.bytes[i] = cloneBytes(p.Bytes)
		}
	}
	return s
}

func (a snapshot) diff(b snapshot) string {
	switch {
	case a.count != b.count:
		return fmt.Sprintf("count %d -> %d", a.count, b.count)
	case a.total != b.total:
		return fmt.Sprintf("total %d -> %d", a.total, b.total)
	case a.complete != b.complete:
		return fmt.Sprintf("complete %v -> %v", a.complete, b.complete)
	case a.bits != b.bits:
		return fmt.Sprintf("bit array %s -> %s", a.bits, b.bits)
	case a.hash != b.hash:
		return fmt.Sprintf("hash %s -> %s", a.hash, b.hash)
	}
	for i := range a.parts {
		if a.parts[i] != b.parts[i] {
			return fmt.Sprintf("part slot %d replaced", i)
		}
		if !bytes.Equal(a.bytes[i], b.bytes[i]) {
			return fmt.Sprintf("bytes of stored part %d changed", i)
		}
	}
	return ""
}

// ---------------------------------------------------------------- one block

type block struct {
	c      *vf.Ctx
	ps     int
	data   []byte
	digest string
	total  int
	chunks [][]byte
	src    *bft.PartSet
	header bft.PartSetHeader
	root   []byte
	kind   string
}

func (b *block) base() map[string]any {
	d := vf.Hex(b.data)
	if len(d) > 512 {
		d = d[:512] + "..."
	}
	return map[string]any{"part_size": b.ps, "len": len(b.data), "data_sha256": b.digest, "data_hex_prefix": d, "data_kind": b.kind}
}

// otherViol counts violations other than the negative-index signature, to stop early on a broken tree
// without letting that one signature cut the run short.
var otherViol, negIdxViol atomic.Int64

func (b *block) viol(key string, extra map[string]any, f string, a ...any) {
	if key != "addpart-panics-on-negative-index" {
		otherViol.Add(1)
	} else if negIdxViol.Add(1) > 3 {
		// vf keeps three witnesses per key; later occurrences are only counted
		b.c.Violation(key, nil, f, a...)
		return
	}
	w := b.base()
	for k, v := range extra {
		w[k] = v
	}
	b.c.Violation(key, w, f, a...)
}

// newBlock splits data and checks the source set against the model.
func newBlock(c *vf.Ctx, data []byte, ps int, kind string) *block {
	b := &block{c: c, ps: ps, data: data, kind: kind}
	sum := sha256.Sum256(data)
	b.digest = vf.Hex(sum[:8])
	b.total = (len(data) + ps - 1) / ps
	leaves := make([][]byte, b.total)
	for i := 0; i < b.total; i++ {
		hi := (i + 1) * ps
		if hi > len(data) {
			hi = len(data)
		}
		b.chunks = append(b.chunks, data[i*ps:hi])
		leaves[i] = refLeaf(b.chunks[i])
	}
	b.root = refRoot(leaves)
	orig := cloneBytes(data)
	if pv := vf.Try(func() { b.src = bft.NewPartSetFromData(data, ps) }); pv != nil {
		b.viol("panic:NewPartSetFromData", nil, "NewPartSetFromData(len=%d, ps=%d) panicked: %v", len(data), ps, pv)
		return nil
	}
	if !bytes.Equal(orig, data) {
		b.viol("split:input-modified", nil, "NewPartSetFromData modified its input")
		return nil
	}
	src := b.src
	b.header = src.Header()
	c.Count("splits", 1)
	if src.Total() != b.total || src.Count() != b.total || !src.IsComplete() || b.header.Total != b.total {
		b.viol("split:totals", map[string]any{"total": src.Total(), "count": src.Count(), "want": b.total}, "source set total=%d count=%d complete=%v, model total=%d", src.Total(), src.Count(), src.IsComplete(), b.total)
		return nil
	}
	if !bytes.Equal(src.Hash(), b.root) || !bytes.Equal(b.header.Hash, b.root) {
		b.viol("split:root-hash", map[string]any{"got": vf.Hex(src.Hash()), "want": vf.Hex(b.root)}, "part-set hash %X differs from the reference Merkle root %X", src.Hash(), b.root)
		return nil
	}
	if bs := bitString(src); bs != strings.Repeat("x", b.total) {
		b.viol("split:bitarray", map[string]any{"bits": bs}, "source set bit array %s not all set", bs)
	}
	for i := 0; i < b.total; i++ {
		p := src.GetPart(i)
		if p == nil || p.Index != i || !bytes.Equal(p.Bytes, b.chunks[i]) {
			b.viol("split:chunk", map[string]any{"index": i}, "part %d of the source set does not equal the model chunk", i)
			return nil
		}
		if !refValid(p, b.total, b.root) {
			b.viol("split:proof", map[string]any{"part": partWitness(p)}, "proof of part %d produced by the splitter is not valid against the reference Merkle tree", i)
			return nil
		}
		if err := p.ValidateBasic(); err != nil && ps <= bft.BlockPartSizeBytes {
			b.viol("split:validate-basic", map[string]any{"part": partWitness(p), "err": err.Error()}, "genuine part %d fails ValidateBasic: %v", i, err)
		}
	}
	b.checkReader(src, "source")
	return b
}

// checkReader reads a complete set back in several ways and compares with the block.
func (b *block) checkReader(ps *bft.PartSet, where string) bool {
	var got []byte
	var err error
	if pv := vf.Try(func() { got, err = io.ReadAll(ps.GetReader()) }); pv != nil {
		b.viol("reader:panic", map[string]any{"where": where}, "GetReader/ReadAll on a complete set panicked: %v", pv)
		return false
	}
	b.c.Count("reader_checks", 1)
	if err != nil || !bytes.Equal(got, b.data) {
		b.viol("reader:bytes-differ", map[string]any{"where": where, "got_len": len(got), "err": fmt.Sprint(err)}, "reassembled bytes differ from the block (%s): got %d bytes, want %d, err=%v", where, len(got), len(b.data), err)
		return false
	}
	// odd buffer sizes exercise the reader's part-boundary logic
	for _, bufN := range []int{1, 2, 3, b.ps - 1, b.ps, b.ps + 1, 2*b.ps + 1, len(b.data), len(b.data) + 5} {
		if bufN <= 0 || (len(b.data) > 4096 && bufN < 16) {
			continue
		}
		var out []byte
		var rerr error
		pv := vf.Try(func() {
			r := ps.GetReader()
			buf := make([]byte, bufN)
			for iter := 0; iter < len(b.data)+10; iter++ {
				n, e := r.Read(buf)
				if n < 0 || n > len(buf) {
					rerr = fmt.Errorf("Read returned n=%d for a buffer of %d", n, len(buf))
					return
				}
				out = append(out, buf[:n]...)
				if e == io.EOF {
					return
				}
				if e != nil {
					rerr = e
					return
				}
			}
			rerr = errors.New("reader never returned EOF")
		})
		b.c.Count("reader_checks", 1)
		if pv != nil || rerr != nil || !bytes.Equal(out, b.data) {
			b.viol("reader:chunked-read", map[string]any{"where": where, "buf": bufN, "got_len": len(out), "err": fmt.Sprint(rerr), "panic": fmt.Sprint(pv)},
				"reading a complete set with a %d-byte buffer gave %d bytes (want %d), err=%v panic=%v", bufN, len(out), len(b.data), rerr, pv)
			return false
		}
	}
	return true
}

// hostile describes one bad part together with what the oracle expects.
type hostile struct {
	kind string
	part *bft.Part
}

func flip(b []byte, r *rand.Rand) []byte {
	o := cloneBytes(b)
	if len(o) == 0 {
		return []byte{byte(1 + r.IntN(255))}
	}
	o[r.IntN(len(o))] ^= byte(1 << r.UintN(8))
	return o
}

// mkHostile derives one hostile part. have[i] says which indices are already in the set.
func (b *block) mkHostile(r *rand.Rand, have []bool, kindSel int) hostile {
	total := b.total
	pick := func(want bool) int { // an index whose presence == want, or -1
		var c []int
		for i, h := range have {
			if h == want {
				c = append(c, i)
			}
		}
		if len(c) == 0 {
			return -1
		}
		return c[r.IntN(len(c))]
	}
	missing := pick(false)
	present := pick(true)
	genuine := func(i int) *bft.Part { return clonePart(b.src.GetPart(i)) }
	kinds := []string{"bytes-flip", "bytes-truncate", "bytes-extend", "bytes-empty", "bytes-of-other", "leafhash-flip", "aunt-flip", "aunt-drop", "aunt-add", "aunt-swap",
		"proof-index", "proof-total", "proof-of-other", "relabel-index", "relabel-both", "index-eq-total", "index-gt-total", "index-maxint", "index-negative", "index-minint",
		"dup-same", "dup-diffbytes", "dup-garbage-proof", "proof-empty", "total-minus-one"}
	k := kinds[kindSel%len(kinds)]
	if missing < 0 {
		// nothing left to corrupt: only duplicates / out-of-range make sense
		switch k {
		case "index-eq-total", "index-gt-total", "index-maxint", "index-negative", "index-minint", "dup-same", "dup-diffbytes", "dup-garbage-proof":
		default:
			k = "dup-same"
		}
	}
	if present < 0 && strings.HasPrefix(k, "dup-") {
		k = "bytes-flip"
	}
	var p *bft.Part
	switch k {
	case "bytes-flip":
		p = genuine(missing)
		p.Bytes = flip(p.Bytes, r)
	case "bytes-truncate":
		p = genuine(missing)
		p.Bytes = p.Bytes[:len(p.Bytes)-1]
	case "bytes-extend":
		p = genuine(missing)
		p.Bytes = append(p.Bytes, byte(r.UintN(256)))
	case "bytes-empty":
		p = genuine(missing)
		p.Bytes = nil
	case "bytes-of-other":
		p = genuine(missing)
		o := r.IntN(total)
		p.Bytes = cloneBytes(b.chunks[o])
	case "leafhash-flip":
		p = genuine(missing)
		p.Proof.LeafHash = flip(p.Proof.LeafHash, r)
	case "aunt-flip":
		p = genuine(missing)
		if len(p.Proof.Aunts) == 0 {
			p.Proof.Aunts = [][]byte{refLeaf([]byte("x"))}
		} else {
			i := r.IntN(len(p.Proof.Aunts))
			p.Proof.Aunts[i] = flip(p.Proof.Aunts[i], r)
		}
	case "aunt-drop":
		p = genuine(missing)
		if len(p.Proof.Aunts) == 0 {
			p.Proof.LeafHash = flip(p.Proof.LeafHash, r)
		} else {
			i := r.IntN(len(p.Proof.Aunts))
			p.Proof.Aunts = append(p.Proof.Aunts[:i], p.Proof.Aunts[i+1:]...)
		}
	case "aunt-add":
		p = genuine(missing)
		extra := refLeaf([]byte{byte(r.UintN(256))})
		if r.IntN(2) == 0 {
			p.Proof.Aunts = append(p.Proof.Aunts, extra)
		} else {
			p.Proof.Aunts = append([][]byte{extra}, p.Proof.Aunts...)
		}
	case "aunt-swap":
		p = genuine(missing)
		if n := len(p.Proof.Aunts); n >= 2 {
			i := r.IntN(n - 1)
			p.Proof.Aunts[i], p.Proof.Aunts[i+1] = p.Proof.Aunts[i+1], p.Proof.Aunts[i]
		} else {
			p.Proof.LeafHash = flip(p.Proof.LeafHash, r)
		}
	case "proof-index":
		p = genuine(missing)
		p.Proof.Index = (p.Proof.Index + 1 + r.IntN(max(total-1, 1))) % max(total, 2)
	case "proof-total":
		p = genuine(missing)
		p.Proof.Total += []int{1, -1, total}[r.IntN(3)]
	case "proof-of-other":
		p = genuine(missing)
		o := r.IntN(total)
		p.Proof = clonePart(b.src.GetPart(o)).Proof
	case "relabel-index": // genuine bytes+proof of i, announced as j
		p = genuine(missing)
		p.Index = r.IntN(total)
	case "relabel-both":
		p = genuine(missing)
		p.Index = r.IntN(total)
		p.Proof.Index = p.Index
	case "index-eq-total":
		p = genuine(r.IntN(total))
		p.Index = total
	case "index-gt-total":
		p = genuine(r.IntN(total))
		p.Index = total + 1 + r.IntN(5)
		if r.IntN(2) == 0 {
			p.Proof.Index = p.Index
		}
	case "index-maxint":
		p = genuine(r.IntN(total))
		p.Index = math.MaxInt
	case "index-negative":
		p = genuine(r.IntN(total))
		p.Index = -1 - r.IntN(3)
		if r.IntN(2) == 0 {
			p.Proof.Index = p.Index
		}
	case "index-minint":
		p = genuine(r.IntN(total))
		p.Index = math.MinInt
	case "dup-same":
		p = genuine(present)
	case "dup-diffbytes":
		p = genuine(present)
		p.Bytes = flip(p.Bytes, r)
	case "dup-garbage-proof":
		p = genuine(present)
		p.Proof = merkle.SimpleProof{Total: r.IntN(4), Index: r.IntN(4)}
	case "proof-empty":
		p = genuine(missing)
		p.Proof = merkle.SimpleProof{Total: total, Index: p.Index}
	case "total-minus-one": // proof from a tree with a different total
		p = genuine(missing)
		p.Proof.Total = total - 1
		if p.Proof.Index >= p.Proof.Total {
			p.Proof.Index = 0
		}
	}
	return hostile{kind: k, part: p}
}

// addHostile submits one hostile part and checks the verdict and that the state is unchanged.
func (b *block) addHostile(dst *bft.PartSet, h hostile, have []bool, ctxw map[string]any) {
	c := b.c
	p := h.part
	before := snap(dst)
	w := func() map[string]any {
		m := map[string]any{"hostile_kind": h.kind, "part": partWitness(p), "have": before.bits}
		for k, v := range ctxw {
			m[k] = v
		}
		return m
	}
	pcopy := clonePart(p)
	var added bool
	var err error
	pv := vf.Try(func() { added, err = dst.AddPart(p) })
	after := snap(dst)
	c.Count("hostile_parts", 1)
	c.Count("hostile:"+h.kind, 1)
	if d := before.diff(after); d != "" && !(added && pv == nil) {
		b.viol("rejected-part-changed-state:"+h.kind, w(), "a part that was not added (%s; added=%v err=%v panic=%v) changed the set: %s", h.kind, added, err, pv, d)
		return
	}
	if !bytes.Equal(pcopy.Bytes, p.Bytes) || pcopy.Index != p.Index {
		b.viol("addpart-modified-argument:"+h.kind, w(), "AddPart modified the part passed in")
	}
	switch {
	case p.Index < 0:
		// AddPart documents no precondition (it has no doc comment and does not call ValidateBasic); a negative
		// index is an out-of-range index like any other and must be rejected through the return values. The only
		// in-tree caller (consensus reactor -> state.addProposalBlockPart) runs Part.ValidateBasic first, which
		// must reject it as well.
		if p.ValidateBasic() == nil {
			b.viol("validate-basic-accepts-negative-index", w(), "Part.ValidateBasic accepted index %d", p.Index)
		}
		c.Count("rejected_out_of_range", 1)
		switch {
		case pv != nil:
			c.Count("negative_index_addpart_panics", 1)
			var wit map[string]any
			if negIdxViol.Load() < 3 {
				wit = w()
			}
			b.viol("addpart-panics-on-negative-index", wit, "AddPart(index %d) panicked instead of rejecting the part: %v (set left unchanged)", p.Index, pv)
		case added || err == nil:
			b.viol("out-of-range-index-not-rejected", w(), "AddPart(index %d, total %d) = (%v, %v), want (false, error)", p.Index, b.total, added, err)
		}
		return
	case pv != nil:
		b.viol("panic:AddPart:"+h.kind, w(), "AddPart panicked on a hostile part (%s): %v", h.kind, pv)
		return
	case p.Index >= b.total:
		if added || !errors.Is(err, bft.ErrPartSetUnexpectedIndex) {
			b.viol("out-of-range-index-not-rejected", w(), "AddPart(index %d, total %d) = (%v, %v), want (false, ErrPartSetUnexpectedIndex)", p.Index, b.total, added, err)
		}
		c.Count("rejected_out_of_range", 1)
		return
	case have[p.Index]:
		// documented: "If part already exists, return false" (no error)
		if added || err != nil {
			b.viol("duplicate-not-reported-as-not-added", w(), "AddPart of an already present index %d = (%v, %v), want (false, nil)", p.Index, added, err)
		}
		c.Count("duplicates", 1)
		return
	}
	valid := refValid(p, b.total, b.root)
	if valid {
		// the mutation happened to produce a genuinely valid part (e.g. identical chunks): it must be accepted
		c.Count("hostile_but_valid", 1)
		if !added || err != nil {
			b.viol("valid-part-rejected", w(), "a part valid per the reference Merkle check was rejected: (%v, %v)", added, err)
			return
		}
		if !bytes.Equal(p.Bytes, b.chunks[p.Index]) {
			b.viol("accepted-wrong-content", w(), "accepted part %d has bytes different from the block chunk", p.Index)
		}
		have[p.Index] = true
		return
	}
	if added {
		b.viol("invalid-part-accepted:"+h.kind, w(), "AddPart accepted a part that does not match the header (%s)", h.kind)
		have[p.Index] = true // keep the model in step with what the set now claims
		return
	}
	if !errors.Is(err, bft.ErrPartSetInvalidProof) {
		b.viol("invalid-part-wrong-error:"+h.kind, w(), "AddPart rejected an invalid part with (%v, %v), want (false, ErrPartSetInvalidProof)", added, err)
	}
	if strings.HasPrefix(h.kind, "bytes-") {
		c.Count("rejected_bytes", 1)
	} else if strings.HasPrefix(h.kind, "relabel") {
		c.Count("rejected_relabelled_index", 1)
	} else {
		c.Count("rejected_proof", 1)
	}
}

// checkState compares the set with the model vector.
func (b *block) checkState(dst *bft.PartSet, have []bool, stored []*bft.Part, ctxw map[string]any) bool {
	n := 0
	var sb strings.Builder
	for _, h := range have {
		if h {
			n++
			sb.WriteByte('x')
		} else {
			sb.WriteByte('_')
		}
	}
	fail := func(key, f string, a ...any) bool {
		w := map[string]any{"model_bits": sb.String()}
		for k, v := range ctxw {
			w[k] = v
		}
		b.viol(key, w, f, a...)
		return false
	}
	if dst.Count() != n {
		return fail("state:count", "Count()=%d, model %d", dst.Count(), n)
	}
	if bs := bitString(dst); bs != sb.String() {
		return fail("state:bitarray", "BitArray %s, model %s", bs, sb.String())
	}
	if dst.IsComplete() != (n == b.total) {
		return fail("state:complete", "IsComplete()=%v with %d of %d parts", dst.IsComplete(), n, b.total)
	}
	if dst.Total() != b.total || !dst.HasHeader(b.header) || !dst.HashesTo(b.root) {
		return fail("state:header", "header of the set changed")
	}
	for i := range have {
		p := dst.GetPart(i)
		if have[i] {
			if p == nil || p != stored[i] || p.Index != i || !bytes.Equal(p.Bytes, b.chunks[i]) {
				return fail("state:stored-part", "GetPart(%d) is not the part that was added / does not hold the chunk", i)
			}
		} else if p != nil {
			return fail("state:phantom-part", "GetPart(%d) non-nil for an index never added", i)
		}
	}
	if n < b.total {
		// documented: GetReader panics on an incomplete set
		if pv := vf.Try(func() { dst.GetReader() }); pv == nil {
			return fail("reader:incomplete-no-panic", "GetReader on an incomplete set (%d/%d) did not panic", n, b.total)
		}
	}
	return true
}

// runOrder adds the parts in the given order, with hostile parts injected
// (hostileEvery: 0 = none, otherwise hostile parts before each legit add and at the end).
func (b *block) runOrder(order []int, r *rand.Rand, nHostile int, kindBase int) {
	c := b.c
	var dst *bft.PartSet
	hdr := bft.PartSetHeader{Total: b.header.Total, Hash: cloneBytes(b.header.Hash)}
	dst = bft.NewPartSetFromHeader(hdr)
	have := make([]bool, b.total)
	stored := make([]*bft.Part, b.total)
	ctxw := map[string]any{"order": order}
	var script []string
	hostileRound := func(step int) {
		for j := 0; j < nHostile; j++ {
			h := b.mkHostile(r, have, kindBase+step*nHostile+j+r.IntN(3)*7)
			script = append(script, fmt.Sprintf("%d:%s:%d", step, h.kind, h.part.Index))
			prev := append([]bool{}, have...)
			b.addHostile(dst, h, have, ctxw)
			for i := range have {
				if have[i] && !prev[i] {
					stored[i] = h.part
				}
			}
			if otherViol.Load() > 20 {
				return
			}
		}
	}
	if !b.checkState(dst, have, stored, ctxw) {
		return
	}
	for step, idx := range order {
		if nHostile > 0 {
			hostileRound(step)
			if !b.checkState(dst, have, stored, ctxw) {
				return
			}
		}
		if have[idx] { // a hostile mutation turned out to be the genuine part idx
			continue
		}
		p := clonePart(b.src.GetPart(idx))
		before := dst.Count()
		var added bool
		var err error
		if pv := vf.Try(func() { added, err = dst.AddPart(p) }); pv != nil {
			b.viol("panic:AddPart:genuine", map[string]any{"order": order, "step": step, "part": partWitness(p)}, "AddPart panicked on a genuine part: %v", pv)
			return
		}
		if !added || err != nil {
			b.viol("genuine-part-rejected", map[string]any{"order": order, "step": step, "part": partWitness(p), "err": fmt.Sprint(err)}, "genuine part %d (step %d of order %v) not added: (%v, %v)", idx, step, order, added, err)
			return
		}
		c.Count("adds_accepted", 1)
		have[idx] = true
		stored[idx] = p
		if dst.Count() != before+1 {
			b.viol("state:count", map[string]any{"order": order, "step": step}, "Count went %d -> %d on an accepted part", before, dst.Count())
			return
		}
		if !b.checkState(dst, have, stored, ctxw) {
			return
		}
	}
	if nHostile > 0 {
		hostileRound(len(order))
		if !b.checkState(dst, have, stored, ctxw) {
			return
		}
	}
	if !dst.IsComplete() {
		b.viol("state:complete", ctxw, "set not complete after all parts were added")
		return
	}
	if !bytes.Equal(dst.Hash(), b.src.Hash()) {
		b.viol("final:hash", ctxw, "hash of the reassembled set differs from the source")
		return
	}
	var got []byte
	if pv := vf.Try(func() { got, _ = io.ReadAll(dst.GetReader()) }); pv != nil {
		b.viol("reader:panic", ctxw, "GetReader on the reassembled set panicked: %v", pv)
		return
	}
	if !bytes.Equal(got, b.data) {
		b.viol("reader:bytes-differ", map[string]any{"order": order, "got_len": len(got)}, "reassembled bytes differ from the block for order %v", order)
		return
	}
	c.Count("orders_completed", 1)
	sd := sha256.Sum256([]byte(strings.Join(script, ",")))
	c.Case(fmt.Sprintf("%d/%d/%s/%v/%x", b.ps, len(b.data), b.digest, order, sd[:6]), b.total >= 2 || len(script) > 0)
}

func permutations(n int) [][]int {
	var out [][]int
	a := make([]int, n)
	for i := range a {
		a[i] = i
	}
	var rec func(k int)
	rec = func(k int) {
		if k == n {
			out = append(out, append([]int{}, a...))
			return
		}
		for i := k; i < n; i++ {
			a[k], a[i] = a[i], a[k]
			rec(k + 1)
			a[k], a[i] = a[i], a[k]
		}
	}
	rec(0)
	return out
}

func genData(r *rand.Rand, n int, kind int) ([]byte, string) {
	d := make([]byte, n)
	switch kind % 4 {
	case 0, 1:
		for i := range d {
			d[i] = byte(r.UintN(256))
		}
		return d, "random"
	case 2:
		return d, "zeros" // identical chunks: relabelled parts may be genuinely valid
	default:
		for i := range d {
			d[i] = byte(i % 3)
		}
		return d, "period3"
	}
}

type job struct {
	ps, n int
	kind  int
}

func sizesFor(ps int, quick bool) []int {
	var ks []int
	switch {
	case ps <= 64:
		ks = []int{1, 2, 3, 4, 5, 6, 7, 8, 9, 16, 17, 31, 32, 33}
		if !quick {
			ks = append(ks, 10, 11, 12, 13, 15, 63, 64, 65, 100)
		}
	case ps <= 1024:
		ks = []int{1, 2, 3, 4, 5, 6, 7, 8, 9, 16, 17}
		if !quick {
			ks = append(ks, 31, 32, 33, 64)
		}
	default:
		ks = []int{1, 2, 3, 4, 5, 6, 7}
		if !quick {
			ks = append(ks, 8, 9, 16, 17)
		}
	}
	set := map[int]bool{1: true}
	for _, k := range ks {
		for _, d := range []int{-1, 0, 1} {
			if n := k*ps + d; n > 0 {
				set[n] = true
			}
		}
	}
	var out []int
	for n := range set {
		out = append(out, n)
	}
	sort.Ints(out)
	return out
}

func run(c *vf.Ctx) {
	partSizes := []int{1, 2, 3, 7, 16, 64, 1024, bft.BlockPartSizeBytes}
	c.Set("part_sizes", partSizes)
	var jobs []job
	dataKinds := c.N(2, 4)
	for _, ps := range partSizes {
		for _, n := range sizesFor(ps, c.Quick()) {
			for k := 0; k < dataKinds; k++ {
				kind := k
				if k == 1 {
					kind = 2 // zeros
				}
				jobs = append(jobs, job{ps, n, kind})
			}
		}
	}
	c.Set("blocks", len(jobs))
	nRandOrders := c.N(6, 40)
	exhHostileEvery := c.N(12, 3) // every n-th exhaustive permutation gets hostile injections
	workers := runtime.NumCPU()
	c.Parallel(len(jobs), workers, 1000, func(i int, r *rand.Rand) {
		if otherViol.Load() > 20 {
			return
		}
		j := jobs[i]
		data, kind := genData(r, j.n, j.kind)
		b := newBlock(c, data, j.ps, kind)
		if b == nil {
			return
		}
		if b.total <= 6 {
			perms := permutations(b.total)
			c.Count("blocks_all_orders", 1)
			for pi, o := range perms {
				nh := 0
				if pi%exhHostileEvery == 0 || pi == len(perms)-1 {
					nh = 2
				}
				b.runOrder(o, r, nh, pi)
				c.Count("orders_exhaustive", 1)
			}
		} else {
			c.Count("blocks_random_orders", 1)
			for k := 0; k < nRandOrders; k++ {
				var o []int
				switch k {
				case 0: // in order
					for x := 0; x < b.total; x++ {
						o = append(o, x)
					}
				case 1: // reverse
					for x := b.total - 1; x >= 0; x-- {
						o = append(o, x)
					}
				default:
					o = r.Perm(b.total)
				}
				nh := 1
				if b.total <= 20 {
					nh = 3
				}
				b.runOrder(o, r, nh, k*11)
				c.Count("orders_random", 1)
			}
		}
		if i < 3 {
			c.Sample(map[string]any{"part_size": j.ps, "len": j.n, "total_parts": b.total, "data_kind": kind, "root": vf.Hex(b.root)})
		}
	})

	realBlocks(c)
	zeroish(c)
	c.Set("violations_other_than_negative_index_signature", otherViol.Load())

	c.Sample(map[string]any{"part_size": 3, "len": 10, "note": "4 parts, all 24 orders; hostile kinds: bytes-flip, aunt-swap, relabel-both, index-eq-total, dup-diffbytes, ..."})
	c.Assume("crypto/sha256 and the RFC-6962-style reference Merkle tree written in the check are the hash reference")
	c.RequireCounter("adds_accepted", 1000)
	c.RequireCounter("orders_exhaustive", 500)
	c.RequireCounter("orders_random", 100)
	c.RequireCounter("rejected_bytes", 200)
	c.RequireCounter("rejected_proof", 200)
	c.RequireCounter("rejected_relabelled_index", 20)
	c.RequireCounter("rejected_out_of_range", 100)
	c.RequireCounter("duplicates", 100)
	c.RequireCounter("reader_checks", 500)
	c.RequireCounter("real_blocks", 10)
}

// realBlocks: genuine Blocks are split with Block.MakePartSet, reassembled from
// shuffled parts and decoded the way consensus does; the decoded block must hash
// to the original.
func realBlocks(c *vf.Ctx) {
	r := c.Rng(77)
	n := c.N(24, 200)
	for i := 0; i < n; i++ {
		ntx := r.IntN(20)
		txs := make([]bft.Tx, ntx)
		for t := range txs {
			tx := make([]byte, 1+r.IntN(300))
			for x := range tx {
				tx[x] = byte(r.UintN(256))
			}
			txs[t] = tx
		}
		blk := bft.MakeBlock(int64(1+r.IntN(1000)), txs, &bft.Commit{})
		blk.ChainID = "c39-chain"
		blk.ValidatorsHash = refLeaf([]byte{byte(i)})
		ps := []int{16, 64, 333, 1024, bft.BlockPartSizeBytes}[r.IntN(5)]
		var src *bft.PartSet
		if pv := vf.Try(func() { src = blk.MakePartSet(ps) }); pv != nil {
			c.Violation("panic:MakePartSet", map[string]any{"ntx": ntx, "ps": ps}, "Block.MakePartSet panicked: %v", pv)
			continue
		}
		want := blk.Hash()
		if len(want) == 0 {
			c.Inconclusive("real block has no hash; the real-block monitor cannot compare")
			return
		}
		dst := bft.NewPartSetFromHeader(src.Header())
		okAll := true
		for _, idx := range r.Perm(src.Total()) {
			added, err := dst.AddPart(clonePart(src.GetPart(idx)))
			if !added || err != nil {
				c.Violation("genuine-part-rejected", map[string]any{"real_block": true, "ps": ps, "index": idx}, "real block: part %d rejected (%v, %v)", idx, added, err)
				okAll = false
				break
			}
		}
		if !okAll {
			continue
		}
		var got bft.Block
		var err error
		if pv := vf.Try(func() { _, err = amino.UnmarshalSizedReader(dst.GetReader(), &got, 0) }); pv != nil || err != nil {
			c.Violation("real-block:decode", map[string]any{"ps": ps, "ntx": ntx, "total": src.Total()}, "reassembled real block does not decode: err=%v panic=%v", err, pv)
			continue
		}
		if !bytes.Equal(got.Hash(), want) || len(got.Data.Txs) != ntx {
			c.Violation("real-block:hash", map[string]any{"ps": ps, "ntx": ntx, "got": vf.Hex(got.Hash()), "want": vf.Hex(want)}, "reassembled real block hashes to %X, original %X", got.Hash(), want)
			continue
		}
		c.Count("real_blocks", 1)
		c.Case(fmt.Sprintf("real/%d/%d/%x", ps, ntx, want), src.Total() >= 2)
	}
}

// zeroish records (without judging) what the API does for an empty block and a
// zero-total header: a block is never empty, so the property does not cover it.
func zeroish(c *vf.Ctx) {
	pv := vf.Try(func() { bft.NewPartSetFromData(nil, 16) })
	c.Set("empty_data_split_panics", pv != nil)
	ps := bft.NewPartSetFromHeader(bft.PartSetHeader{Total: 0})
	var added bool
	var err error
	pv2 := vf.Try(func() {
		added, err = ps.AddPart(&bft.Part{Index: 0, Bytes: []byte{1}, Proof: merkle.SimpleProof{Total: 0, Index: 0}})
	})
	if pv2 == nil && (added || !errors.Is(err, bft.ErrPartSetUnexpectedIndex)) {
		c.Violation("out-of-range-index-not-rejected", map[string]any{"total": 0, "index": 0}, "AddPart(index 0) on a zero-total set = (%v, %v)", added, err)
	}
	if ps.Count() != 0 {
		c.Violation("rejected-part-changed-state:zero-total", map[string]any{"total": 0}, "count of a zero-total set became %d", ps.Count())
	}
	c.Count("rejected_out_of_range", 1)
}
