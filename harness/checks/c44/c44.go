// Package c44: signature verification, including multisig, is exact and never panics.
//
// Code under test: tm2/pkg/crypto/{ed25519,secp256k1,multisig}.
//
// Oracles
//   - single keys: ground truth by construction (a signature made by key K over
//     message M is valid for exactly (K, M); every altered message / public key
//     / signature byte string is invalid), plus an independent math/big ECDSA
//     verifier and signer for secp256k1 (secpref.go) including the documented
//     lower-S rule;
//   - multisig: a boolean model over the *intended* shape (bit-array size,
//     marked positions, per-slot ground truth "who signed what, intact?"):
//     verifies ⇔ size == n ∧ marked ≥ k ∧ the j-th marked position has a j-th
//     signature that is valid for that position. Multisignatures are
//     hand-encoded (amino wire format written out by the harness) so malformed
//     shapes the library's builder never produces can be generated;
//   - arbitrary bytes: no panic, result false (for mutated valid
//     multisignatures the model is evaluated on the amino-decoded value).
//
// Not asserted (counted only): the result for a multisignature that carries
// MORE signatures than marked positions while all marked positions are valid
// (the property statement does not say whether surplus signatures matter), and
// the result for structurally inconsistent bit arrays (ExtraBitsStored ≥ 8 or
// not matching Elems) — for those only "no panic" is asserted.
package c44

import (
	"bytes"
	"crypto/sha256"
	"fmt"
	"math/big"
	"math/rand/v2"
	"sync"

	"github.com/gnolang/gno/tm2/pkg/amino"
	"github.com/gnolang/gno/tm2/pkg/crypto"
	"github.com/gnolang/gno/tm2/pkg/crypto/ed25519"
	"github.com/gnolang/gno/tm2/pkg/crypto/multisig"
	"github.com/gnolang/gno/tm2/pkg/crypto/secp256k1"

	"verifharness/internal/vf"
)

func init() {
	vf.Register(&vf.Check{
		ID:    "C44",
		Level: "exploration",
		Rule: "cases = (key type, key, message, signature bytes, alteration) for ed25519/secp256k1: every bit of the signature and of the public key, every bit of short messages " +
			"(64 sampled bits of long ones), length changes, foreign keys, high-S / S+L variants, reference-signed signatures, random bytes; " +
			"multisig cases = (n ≤ 5, k ≤ n, bit-array size 0..8, every bit pattern, signature-list variant: canonical, one slot wrong-key/wrong-message/corrupted/empty/random, " +
			"fewer, shifted, surplus, swapped, duplicated, reversed, trailing bits), malformed bit arrays, builder-API insertion orders (n up to 10, nested multisig keys), " +
			"random bytes and every single-byte substitution / truncation of valid encodings; " +
			"non-trivial = every case except the unaltered single-key round trip; distinct by the full case text",
		Run: run,
	})
}

// viol reports a violation; per key only the first 3 witnesses are handed to
// vf (which stops printing after 25 violations in total), so that every
// distinct key gets its VIOLATION line and replay file. The full count per key
// is kept in the monitor counter "violation_key:<key>".
var (
	violMu   sync.Mutex
	violSeen = map[string]int{}
)

func viol(c *vf.Ctx, key string, witness any, format string, args ...any) {
	c.Count("violation_key:"+key, 1)
	violMu.Lock()
	violSeen[key]++
	n := violSeen[key]
	violMu.Unlock()
	if n > 3 {
		return
	}
	c.Violation(key, witness, format, args...)
}

func randBytes(r *rand.Rand, n int) []byte {
	b := make([]byte, n)
	for i := range b {
		b[i] = byte(r.UintN(256))
	}
	return b
}

func clone(b []byte) []byte { return append([]byte{}, b...) }

func flip(b []byte, bit int) []byte {
	c := clone(b)
	c[bit>>3] ^= 1 << uint(bit&7)
	return c
}

func shortID(s string) string {
	h := sha256.Sum256([]byte(s))
	return vf.Hex(h[:16])
}

// ---------------------------------------------------------------- signers

type signer struct {
	typ  string // ed25519 | secp256k1 | multisig
	priv crypto.PrivKey
	pub  crypto.PubKey
	sub  []*signer // nested multisig
	k    int
}

func newSigner(r *rand.Rand, typ string) *signer {
	secret := randBytes(r, 8+r.IntN(24))
	switch typ {
	case "ed25519":
		p := ed25519.GenPrivKeyFromSecret(secret)
		return &signer{typ: typ, priv: p, pub: p.PubKey()}
	case "secp256k1":
		p := secp256k1.GenPrivKeySecp256k1(secret)
		return &signer{typ: typ, priv: p, pub: p.PubKey()}
	case "multisig":
		n := 1 + r.IntN(3)
		s := &signer{typ: typ, k: 1 + r.IntN(n)}
		pubs := make([]crypto.PubKey, n)
		for i := range pubs {
			s.sub = append(s.sub, newSigner(r, []string{"ed25519", "secp256k1"}[r.IntN(2)]))
			pubs[i] = s.sub[i].pub
		}
		s.pub = multisig.NewPubKeyMultisigThreshold(s.k, pubs)
		return s
	}
	panic(typ)
}

func (s *signer) sign(msg []byte) []byte {
	if s.typ == "multisig" {
		ms := multisig.NewMultisig(len(s.sub))
		for i := 0; i < s.k; i++ {
			ms.AddSignature(s.sub[i].sign(msg), i)
		}
		return ms.Marshal()
	}
	sig, err := s.priv.Sign(msg)
	if err != nil {
		panic(err)
	}
	return sig
}

func pubFromBytes(typ string, b []byte) crypto.PubKey {
	if typ == "ed25519" {
		var p ed25519.PubKeyEd25519
		copy(p[:], b)
		return p
	}
	var p secp256k1.PubKeySecp256k1
	copy(p[:], b)
	return p
}

func pubBytes(p crypto.PubKey) []byte {
	switch v := p.(type) {
	case ed25519.PubKeyEd25519:
		return clone(v[:])
	case secp256k1.PubKeySecp256k1:
		return clone(v[:])
	}
	return p.Bytes()
}

// verify runs VerifyBytes under a panic guard.
func verify(p crypto.PubKey, msg, sig []byte) (ok bool, pv any) {
	pv = vf.Try(func() { ok = p.VerifyBytes(msg, sig) })
	return
}

// ---------------------------------------------------------------- part A: single keys

var ed25519L = hexInt("1000000000000000000000000000000014def9dea2f79cd65812631a5cf5d3ed")

func msgFor(r *rand.Rand, i int) []byte {
	switch i % 8 {
	case 0:
		return nil
	case 1:
		return randBytes(r, 1)
	case 2:
		return randBytes(r, 200+r.IntN(4000))
	default:
		return randBytes(r, r.IntN(65))
	}
}

func singleKey(c *vf.Ctx, i int, r *rand.Rand) {
	typ := []string{"ed25519", "secp256k1"}[i%2]
	s := newSigner(r, typ)
	other := newSigner(r, typ)
	msg := msgFor(r, i/2)
	sig := s.sign(msg)
	pkb := pubBytes(s.pub)
	id := shortID(fmt.Sprintf("%s/%x/%x", typ, pkb, msg))
	w := func(extra map[string]any) map[string]any {
		m := map[string]any{"type": typ, "pubkey": vf.Hex(pkb), "msg": vf.Hex(msg), "sig": vf.Hex(sig)}
		for k, v := range extra {
			m[k] = v
		}
		return m
	}
	if i < 2 {
		c.Sample(w(map[string]any{"part": "single-key"}))
	}
	// round trip
	ok, pv := verify(s.pub, msg, sig)
	c.Case(id+"/rt", false)
	c.Count("roundtrip_"+typ, 1)
	if pv != nil {
		viol(c, "panic:"+typ+":verify-own-signature", w(map[string]any{"panic": fmt.Sprint(pv)}), "VerifyBytes panicked on its own signature: %v", pv)
		return
	}
	if !ok || len(sig) != 64 {
		viol(c, "roundtrip:"+typ, w(nil), "signature produced by the private key does not verify (len %d)", len(sig))
		return
	}
	mustReject := func(kind string, pos int, p crypto.PubKey, m, sg []byte) {
		c.Case(fmt.Sprintf("%s/%s/%d", id, kind, pos), true)
		c.Count("altered_"+kind, 1)
		ok, pv := verify(p, m, sg)
		if pv != nil {
			viol(c, "panic:"+typ+":"+kind, w(map[string]any{"alteration": kind, "pos": pos, "alt_pubkey": vf.Hex(pubBytes(p)), "alt_msg": vf.Hex(m), "alt_sig": vf.Hex(sg), "panic": fmt.Sprint(pv)}),
				"VerifyBytes panicked (%s @%d): %v", kind, pos, pv)
			return
		}
		if ok {
			viol(c, "accepts-altered:"+typ+":"+kind, w(map[string]any{"alteration": kind, "pos": pos, "alt_pubkey": vf.Hex(pubBytes(p)), "alt_msg": vf.Hex(m), "alt_sig": vf.Hex(sg)}),
				"signature verifies although %s was altered (position %d)", kind, pos)
			return
		}
		c.Count("altered_rejected", 1)
	}
	for b := 0; b < 64*8; b++ {
		mustReject("sig-bit", b, s.pub, msg, flip(sig, b))
	}
	for b := 0; b < len(pkb)*8; b++ {
		mustReject("pubkey-bit", b, pubFromBytes(typ, flip(pkb, b)), msg, sig)
	}
	if len(msg) <= 64 {
		for b := 0; b < len(msg)*8; b++ {
			mustReject("msg-bit", b, s.pub, flip(msg, b), sig)
		}
	} else {
		for j := 0; j < 64; j++ {
			b := r.IntN(len(msg) * 8)
			mustReject("msg-bit", b, s.pub, flip(msg, b), sig)
		}
	}
	mustReject("msg-append", len(msg), s.pub, append(clone(msg), 0), sig)
	if len(msg) > 0 {
		mustReject("msg-truncate", len(msg)-1, s.pub, msg[:len(msg)-1], sig)
		mustReject("msg-empty", 0, s.pub, nil, sig)
	}
	mustReject("other-key", 0, other.pub, msg, sig)
	mustReject("other-keys-sig", 0, s.pub, msg, other.sign(msg))
	msg2 := append(clone(msg), 1)
	mustReject("sig-of-other-msg", 0, s.pub, msg, s.sign(msg2))
	for _, n := range []int{0, 1, 32, 63} {
		mustReject("sig-truncated", n, s.pub, msg, sig[:n])
	}
	mustReject("sig-extended", 65, s.pub, msg, append(clone(sig), 0))
	mustReject("sig-doubled", 128, s.pub, msg, append(clone(sig), sig...))
	mustReject("sig-zero", 0, s.pub, msg, make([]byte, 64))
	mustReject("sig-ff", 0, s.pub, msg, bytes.Repeat([]byte{0xff}, 64))
	mustReject("pubkey-zero", 0, pubFromBytes(typ, make([]byte, len(pkb))), msg, sig)
	mustReject("pubkey-random", 0, pubFromBytes(typ, randBytes(r, len(pkb))), msg, sig)
	for j := 0; j < 8; j++ {
		mustReject("sig-random", j, s.pub, msg, randBytes(r, 64))
	}

	if typ == "ed25519" {
		// S' = S + L encodes the same scalar mod L; it is an altered signature and must not verify.
		S := new(big.Int)
		le := clone(sig[32:])
		for a, b := 0, len(le)-1; a < b; a, b = a+1, b-1 {
			le[a], le[b] = le[b], le[a]
		}
		S.SetBytes(le).Add(S, ed25519L)
		if S.BitLen() <= 256 {
			be := S.FillBytes(make([]byte, 32))
			for a, b := 0, 31; a < b; a, b = a+1, b-1 {
				be[a], be[b] = be[b], be[a]
			}
			mustReject("noncanonical-s-plus-l", 0, s.pub, msg, append(clone(sig[:32]), be...))
		}
		return
	}

	// secp256k1: independent reference
	refOK, _ := refVerify(pkb, msg, sig)
	c.Case(id+"/ref-own", true)
	c.Count("secp_ref_verified_own", 1)
	if !refOK {
		sv := new(big.Int).SetBytes(sig[32:])
		key := "sign-invalid-per-reference:secp256k1"
		if sv.Cmp(halfN) > 0 {
			key = "sign-high-s:secp256k1"
		}
		viol(c, key, w(nil), "Sign output is not a valid lower-S ECDSA signature according to the math/big reference")
	}
	// the public key itself must be d·G
	priv := s.priv.(secp256k1.PrivKeySecp256k1)
	d := new(big.Int).SetBytes(priv[:])
	if !bytes.Equal(compress(pmul(d, curveG)), pkb) {
		viol(c, "pubkey-mismatch:secp256k1", w(map[string]any{"priv": vf.Hex(priv[:])}), "PubKey() differs from d·G computed by the reference")
	}
	// high-S twin of the signature: mathematically valid ECDSA, documented as rejected
	hs := new(big.Int).Sub(curveN, new(big.Int).SetBytes(sig[32:]))
	high := append(clone(sig[:32]), hs.FillBytes(make([]byte, 32))...)
	if _, plain := refVerify(pkb, msg, high); !plain {
		panic("reference: high-S twin is not a valid plain ECDSA signature")
	}
	mustReject("high-s", 0, s.pub, msg, high)
	// signatures by the same private key that the code under test did not produce (random nonce)
	for j := 0; j < 2; j++ {
		k := new(big.Int).SetBytes(randBytes(r, 32))
		k.Mod(k, curveN)
		if k.Sign() == 0 {
			continue
		}
		fs := refSign(d, msg, k)
		if fs == nil {
			continue
		}
		ok, pv := verify(s.pub, msg, fs)
		c.Case(fmt.Sprintf("%s/foreign-nonce/%d", id, j), true)
		c.Count("secp_reference_signed_accepted", 1)
		if pv != nil || !ok {
			viol(c, "rejects-valid:secp256k1:reference-signed", w(map[string]any{"ref_sig": vf.Hex(fs), "panic": fmt.Sprint(pv)}),
				"a lower-S signature by the private key over the message (reference signer, random nonce) does not verify")
		}
		mustReject("refsig-high-s", j, s.pub, msg, append(clone(fs[:32]), new(big.Int).Sub(curveN, new(big.Int).SetBytes(fs[32:])).FillBytes(make([]byte, 32))...))
	}
	// differential on arbitrary triples: code == reference
	for j := 0; j < 6; j++ {
		sg := clone(sig)
		pk := clone(pkb)
		m := msg
		switch j {
		case 0:
			copy(sg[:32], curveN.FillBytes(make([]byte, 32))) // r = n
		case 1:
			copy(sg[32:], curveN.FillBytes(make([]byte, 32))) // s = n
		case 2:
			copy(sg[:32], make([]byte, 32)) // r = 0
		case 3:
			copy(sg[32:], make([]byte, 32)) // s = 0
		case 4:
			pk[0] ^= 1 // negated public key
		case 5:
			copy(sg[32:], halfN.FillBytes(make([]byte, 32))) // s = (n-1)/2, the largest low s
		}
		want, _ := refVerify(pk, m, sg)
		ok, pv := verify(pubFromBytes(typ, pk), m, sg)
		c.Case(fmt.Sprintf("%s/diff/%d", id, j), true)
		c.Count("secp_ref_differential", 1)
		if pv != nil {
			viol(c, "panic:secp256k1:edge-scalars", w(map[string]any{"alt_sig": vf.Hex(sg), "alt_pubkey": vf.Hex(pk), "panic": fmt.Sprint(pv)}), "VerifyBytes panicked: %v", pv)
		} else if ok != want {
			viol(c, "ref-mismatch:secp256k1", w(map[string]any{"alt_sig": vf.Hex(sg), "alt_pubkey": vf.Hex(pk), "want": want}), "VerifyBytes=%v, reference=%v", ok, want)
		}
	}
}

// ---------------------------------------------------------------- multisig model

type slot struct {
	b      []byte
	signer int // index of the member key that produced it, -1 = nobody
	msgOK  bool
	intact bool
	kind   string
}

func (s slot) validFor(p int) bool { return s.signer == p && s.msgOK && s.intact }

// intent is the multisignature the harness means to present.
type intent struct {
	baPresent bool
	extra     int
	elems     []byte
	slots     []slot
}

func uvarint(v uint64) []byte {
	var out []byte
	for v >= 0x80 {
		out = append(out, byte(v)|0x80)
		v >>= 7
	}
	return append(out, byte(v))
}

// encode writes the amino (proto3) wire form of multisig.Multisignature by hand:
// field 1 = CompactBitArray{1: ExtraBitsStored varint, 2: Elems bytes}, field 2 = repeated bytes.
func (in *intent) encode() []byte {
	var out []byte
	if in.baPresent {
		var body []byte
		if in.extra != 0 {
			body = append(body, 0x08)
			body = append(body, uvarint(uint64(in.extra))...)
		}
		if len(in.elems) > 0 {
			body = append(body, 0x12)
			body = append(body, uvarint(uint64(len(in.elems)))...)
			body = append(body, in.elems...)
		}
		out = append(out, 0x0a)
		out = append(out, uvarint(uint64(len(body)))...)
		out = append(out, body...)
	}
	for _, s := range in.slots {
		out = append(out, 0x12)
		out = append(out, uvarint(uint64(len(s.b)))...)
		out = append(out, s.b...)
	}
	return out
}

func baShape(present bool, extra int, elems []byte) (size int, wellFormed bool) {
	if !present {
		return 0, true
	}
	if extra == 0 {
		return len(elems) * 8, true
	}
	if extra >= 8 || len(elems) == 0 {
		return 0, false
	}
	return (len(elems)-1)*8 + extra, true
}

func baBit(elems []byte, i int) bool { return elems[i>>3]&(0x80>>uint(i&7)) != 0 }

// model: (want, asserted, reason). asserted=false ⇒ only "no panic" is checked.
func model(n, k int, in *intent) (want bool, asserted bool, reason string) {
	size, wf := baShape(in.baPresent, in.extra, in.elems)
	if !wf {
		return false, false, "malformed-bitarray"
	}
	if size != n {
		return false, true, "bitarray-size"
	}
	pop := 0
	for p := 0; p < size; p++ {
		if baBit(in.elems, p) {
			pop++
		}
	}
	if pop < k {
		return false, true, "below-threshold"
	}
	j := 0
	for p := 0; p < size; p++ {
		if !baBit(in.elems, p) {
			continue
		}
		if j >= len(in.slots) {
			return false, true, "fewer-sigs-than-marked"
		}
		if !in.slots[j].validFor(p) {
			return false, true, "invalid-sig:" + in.slots[j].kind
		}
		j++
	}
	if len(in.slots) > pop {
		return true, false, "surplus-sigs"
	}
	return true, true, "valid"
}

type keyset struct {
	s      []*signer
	pubs   []crypto.PubKey
	msg    []byte
	msg2   []byte
	sigs   [][]byte // sigs[i] = key i over msg
	sigs2  [][]byte // key i over msg2
	simple bool     // only ed25519/secp256k1 members
}

func newKeyset(r *rand.Rand, n int, nested bool) *keyset {
	ks := &keyset{msg: randBytes(r, r.IntN(80)), simple: true}
	ks.msg2 = append(clone(ks.msg), byte(r.UintN(256)))
	for i := 0; i < n; i++ {
		typ := []string{"ed25519", "secp256k1"}[r.IntN(2)]
		if nested && r.IntN(4) == 0 {
			typ = "multisig"
			ks.simple = false
		}
		s := newSigner(r, typ)
		ks.s = append(ks.s, s)
		ks.pubs = append(ks.pubs, s.pub)
		ks.sigs = append(ks.sigs, s.sign(ks.msg))
		ks.sigs2 = append(ks.sigs2, s.sign(ks.msg2))
	}
	return ks
}

func (ks *keyset) describe() []string {
	out := make([]string, len(ks.s))
	for i, s := range ks.s {
		out[i] = s.typ + ":" + vf.Hex(pubBytes(s.pub))
	}
	return out
}

func (ks *keyset) slot(r *rand.Rand, kind string, p int) slot {
	n := len(ks.s)
	q := p % n
	switch kind {
	case "V":
		return slot{b: ks.sigs[q], signer: q, msgOK: true, intact: true, kind: "own-valid"}
	case "W":
		o := (q + 1) % n
		return slot{b: ks.sigs[o], signer: o, msgOK: true, intact: true, kind: "other-members-sig"}
	case "M":
		return slot{b: ks.sigs2[q], signer: q, msgOK: false, intact: true, kind: "other-message"}
	case "C":
		return slot{b: flip(ks.sigs[q], r.IntN(len(ks.sigs[q])*8)), signer: q, msgOK: true, intact: false, kind: "corrupted"}
	case "E":
		return slot{b: []byte{}, signer: -1, kind: "empty"}
	case "X":
		return slot{b: randBytes(r, 64), signer: -1, kind: "random"}
	}
	panic(kind)
}

type msTester struct {
	c  *vf.Ctx
	ks *keyset
	k  int
	pk crypto.PubKey
	id string
}

func bitsToElems(bsz int, pat uint) (extra int, elems []byte) {
	elems = make([]byte, (bsz+7)/8)
	for p := 0; p < bsz; p++ {
		if pat>>uint(p)&1 == 1 {
			elems[p>>3] |= 0x80 >> uint(p&7)
		}
	}
	return bsz % 8, elems
}

func (t *msTester) witness(label string, in *intent, enc []byte, extra map[string]any) map[string]any {
	kinds := make([]string, len(in.slots))
	sigs := make([]string, len(in.slots))
	for i, s := range in.slots {
		kinds[i] = fmt.Sprintf("%s(signer=%d)", s.kind, s.signer)
		sigs[i] = vf.Hex(s.b)
	}
	w := map[string]any{"variant": label, "threshold": t.k, "keys": t.ks.describe(), "msg": vf.Hex(t.ks.msg), "bitarray_present": in.baPresent,
		"extra_bits_stored": in.extra, "elems": vf.Hex(in.elems), "slots": kinds, "sigs": sigs, "multisignature_bytes": vf.Hex(enc)}
	for k, v := range extra {
		w[k] = v
	}
	return w
}

func panicClass(n int, in *intent) string {
	size, wf := baShape(in.baPresent, in.extra, in.elems)
	if !wf {
		return "malformed-bitarray"
	}
	if size == n {
		pop := 0
		for p := 0; p < size; p++ {
			if baBit(in.elems, p) {
				pop++
			}
		}
		if len(in.slots) < pop {
			return "fewer-sigs-than-marked"
		}
	}
	return "other"
}

// run one multisignature against the real VerifyBytes and compare with the model.
func (t *msTester) check(label string, in *intent) {
	c := t.c
	n := len(t.ks.s)
	enc := in.encode()
	want, asserted, reason := model(n, t.k, in)
	c.Case(t.id+"/"+label+"/"+shortID(string(enc)), true)
	c.Count("ms_cases", 1)
	c.Count("ms_class_"+reason, 1)
	var got bool
	pv := vf.Try(func() { got = t.pk.VerifyBytes(t.ks.msg, enc) })
	if pv != nil {
		viol(c, "panic:multisig:"+panicClass(n, in), t.witness(label, in, enc, map[string]any{"panic": fmt.Sprint(pv), "model": reason}),
			"PubKeyMultisigThreshold.VerifyBytes panicked (%d-of-%d, %s, model: %s): %v", t.k, n, label, reason, pv)
		return
	}
	if !asserted {
		if got {
			c.Count("ms_unasserted_accepted", 1)
		} else {
			c.Count("ms_unasserted_rejected", 1)
		}
		return
	}
	if got != want {
		key := "multisig-rejects-valid"
		if got {
			key = "multisig-accepts:" + reason
		}
		viol(c, key, t.witness(label, in, enc, map[string]any{"model": reason, "want": want}), "%d-of-%d multisig VerifyBytes=%v, model says %v (%s; variant %s)", t.k, n, got, want, reason, label)
		return
	}
	if want {
		c.Count("ms_accepted_as_modelled", 1)
	} else {
		c.Count("ms_rejected_as_modelled", 1)
	}
}

// sanity: the hand encoder and amino agree on well-formed values (harness self-check).
func selfCheckEncoder(in *intent) {
	var ms multisig.Multisignature
	if err := amino.Unmarshal(in.encode(), &ms); err != nil {
		panic(fmt.Sprintf("hand-encoded multisignature rejected by amino: %v (%x)", err, in.encode()))
	}
	if in.baPresent && (in.extra != 0 || len(in.elems) > 0) {
		if ms.BitArray == nil || int(ms.BitArray.ExtraBitsStored) != in.extra || !bytes.Equal(ms.BitArray.Elems, in.elems) {
			panic(fmt.Sprintf("hand encoder / amino disagree on bit array: %x", in.encode()))
		}
	}
	if len(ms.Sigs) != len(in.slots) {
		panic(fmt.Sprintf("hand encoder / amino disagree on sig count: %x", in.encode()))
	}
	for i := range ms.Sigs {
		if !bytes.Equal(ms.Sigs[i], in.slots[i].b) {
			panic("hand encoder / amino disagree on sig bytes")
		}
	}
}

// ---------------------------------------------------------------- part B: all shapes for n ≤ 5

func shapes(c *vf.Ctx, r *rand.Rand, n, k, rep int) {
	ks := newKeyset(r, n, false)
	t := &msTester{c: c, ks: ks, k: k, pk: multisig.NewPubKeyMultisigThreshold(k, ks.pubs)}
	t.id = shortID(fmt.Sprintf("%v/%d/%x", ks.describe(), k, ks.msg))
	first := true
	for bsz := 0; bsz <= 8; bsz++ {
		for pat := uint(0); pat < 1<<uint(bsz); pat++ {
			extra, elems := bitsToElems(bsz, pat)
			var marked []int
			for p := 0; p < bsz; p++ {
				if pat>>uint(p)&1 == 1 {
					marked = append(marked, p)
				}
			}
			base := make([]slot, len(marked))
			for j, p := range marked {
				base[j] = ks.slot(r, "V", p)
			}
			emit := func(label string, slots []slot) {
				in := &intent{baPresent: bsz > 0, extra: extra, elems: elems, slots: slots}
				if first {
					selfCheckEncoder(in)
				}
				t.check(fmt.Sprintf("b%d/p%d/%s", bsz, pat, label), in)
			}
			cp := func() []slot { return append([]slot{}, base...) }
			emit("canonical", base)
			if bsz == 0 {
				t.check("b0/present-empty", &intent{baPresent: true, slots: base})
			}
			if bsz%8 != 0 { // unused bits of the last byte set: still the same bit array
				e2 := clone(elems)
				e2[len(e2)-1] |= byte(0xff) >> uint(bsz%8)
				t.check(fmt.Sprintf("b%d/p%d/trailing-bits", bsz, pat), &intent{baPresent: true, extra: extra, elems: e2, slots: base})
			}
			for j, p := range marked {
				for _, kind := range []string{"W", "M", "C", "E", "X"} {
					if kind == "W" && (n == 1 || p >= n) {
						continue
					}
					s := cp()
					s[j] = ks.slot(r, kind, p)
					emit(fmt.Sprintf("slot%d-%s", j, kind), s)
				}
			}
			for d := 1; d <= len(marked); d++ {
				emit(fmt.Sprintf("fewer-%d", d), base[:len(base)-d])
			}
			if len(base) >= 1 {
				emit("drop-first", base[1:])
				emit("surplus-dup-last", append(cp(), base[len(base)-1]))
			}
			emit("surplus-random", append(cp(), ks.slot(r, "X", 0)))
			for p := 0; p < n && p < bsz; p++ {
				if pat>>uint(p)&1 == 0 {
					emit("surplus-valid-for-unmarked", append(cp(), ks.slot(r, "V", p)))
					break
				}
			}
			if len(base) < n+1 {
				s := cp()
				for len(s) < n+1 {
					s = append(s, ks.slot(r, "X", 0))
				}
				emit("surplus-to-n+1", s)
			}
			for j := 0; j+1 < len(base); j++ {
				s := cp()
				s[j], s[j+1] = s[j+1], s[j]
				emit(fmt.Sprintf("swap-%d", j), s)
			}
			if len(base) >= 2 {
				s := cp()
				for j := range s {
					s[j] = base[0]
				}
				emit("all-duplicates-of-first", s)
			}
			if len(base) >= 3 {
				s := cp()
				for a, b := 0, len(s)-1; a < b; a, b = a+1, b-1 {
					s[a], s[b] = s[b], s[a]
				}
				emit("reversed", s)
			}
			if len(base) >= 1 && n >= 2 {
				s := cp()
				for j, p := range marked {
					s[j] = ks.slot(r, "V", p+1)
				}
				emit("sigs-for-shifted-positions", s)
			}
			first = false
		}
	}
	// structurally inconsistent bit arrays
	for _, extra := range []int{1, 2, 3, 4, 5, 6, 7, 8, 9, 10, 11, 12, 13, 14, 15, 16, 127, 128, 255} {
		for ne := 0; ne <= 3; ne++ {
			for v := 0; v < 3; v++ {
				elems := randBytes(r, ne)
				if v == 1 {
					elems = bytes.Repeat([]byte{0xff}, ne)
				}
				var slots []slot
				cnt := []int{k, n, 0}[v]
				for j := 0; j < cnt; j++ {
					slots = append(slots, ks.slot(r, "V", j))
				}
				t.check(fmt.Sprintf("raw-ba/x%d/e%d/v%d", extra, ne, v), &intent{baPresent: true, extra: extra, elems: elems, slots: slots})
			}
		}
	}
	if rep == 0 && n == 3 && k == 2 {
		c.Sample(map[string]any{"part": "multisig-shapes", "threshold": k, "keys": ks.describe(), "msg": vf.Hex(ks.msg), "bit_array_sizes": "0..8, every pattern", "variants": "canonical, slot W/M/C/E/X, fewer, drop-first, surplus, swap, duplicates, reversed, shifted, trailing-bits, raw bit arrays"})
	}
}

// ---------------------------------------------------------------- part C: builder API, random order, larger n, nested keys

func builderAPI(c *vf.Ctx, i int, r *rand.Rand) {
	n := []int{1, 2, 3, 4, 5, 5, 8, 9, 10}[r.IntN(9)]
	k := 1 + r.IntN(n)
	ks := newKeyset(r, n, true)
	pk := multisig.NewPubKeyMultisigThreshold(k, ks.pubs)
	ms := multisig.NewMultisig(n)
	state := make([]int, n) // 0 unmarked, 1 valid, 2 invalid
	var ops []string
	nops := r.IntN(2*n + 1)
	for o := 0; o < nops; o++ {
		p := r.IntN(n)
		good := r.IntN(5) != 0
		sig := ks.sigs[p]
		if !good {
			switch r.IntN(3) {
			case 0:
				sig = ks.sigs2[p]
			case 1:
				sig = ks.sigs[(p+1)%n]
				if n == 1 {
					sig = randBytes(r, 64)
				}
			default:
				sig = randBytes(r, 64)
			}
		}
		var pv any
		if r.IntN(2) == 0 {
			pv = vf.Try(func() { ms.AddSignature(sig, p) })
		} else {
			pv = vf.Try(func() {
				if err := ms.AddSignatureFromPubKey(sig, ks.pubs[p], ks.pubs); err != nil {
					panic(err)
				}
			})
		}
		if pv != nil {
			viol(c, "panic:multisig:AddSignature", map[string]any{"n": n, "ops": ops, "index": p, "panic": fmt.Sprint(pv)}, "AddSignature(index %d of %d) failed: %v", p, n, pv)
			return
		}
		ops = append(ops, fmt.Sprintf("%d:%v", p, good))
		if good {
			state[p] = 1
		} else {
			state[p] = 2
		}
	}
	marked, allValid := 0, true
	for _, s := range state {
		if s != 0 {
			marked++
		}
		if s == 2 {
			allValid = false
		}
	}
	want := marked >= k && allValid
	enc := ms.Marshal()
	got, pv := verify(pk, ks.msg, enc)
	c.Case(fmt.Sprintf("api/%v/%d/%x/%v", ks.describe(), k, ks.msg, ops), true)
	c.Count("api_cases", 1)
	if want {
		c.Count("api_expected_valid", 1)
	} else {
		c.Count("api_expected_invalid", 1)
	}
	if !ks.simple {
		c.Count("api_with_nested_multisig_member", 1)
	}
	w := map[string]any{"part": "builder-api", "threshold": k, "keys": ks.describe(), "msg": vf.Hex(ks.msg), "ops(index:valid)": ops, "multisignature_bytes": vf.Hex(enc), "want": want}
	if i == 0 {
		c.Sample(w)
	}
	if pv != nil {
		viol(c, "panic:multisig:builder-output", w, "VerifyBytes panicked on a builder-produced multisignature: %v", pv)
	} else if got != want {
		viol(c, fmt.Sprintf("multisig-builder-mismatch:got-%v", got), w, "%d-of-%d: VerifyBytes=%v, model=%v (marked=%d allValid=%v)", k, n, got, want, marked, allValid)
	}
}

// ---------------------------------------------------------------- part D: arbitrary bytes

func arbitrary(c *vf.Ctx, i int, r *rand.Rand) {
	typ := []string{"ed25519", "secp256k1", "multisig"}[i%3]
	var pk crypto.PubKey
	var ks *keyset
	if typ == "multisig" {
		ks = newKeyset(r, 1+r.IntN(5), false)
		pk = multisig.NewPubKeyMultisigThreshold(1+r.IntN(len(ks.s)), ks.pubs)
	} else {
		pk = newSigner(r, typ).pub
	}
	msg := randBytes(r, r.IntN(40))
	for j := 0; j < 40; j++ {
		var sig []byte
		kind := "random"
		switch {
		case j < 10:
			sig = randBytes(r, r.IntN(200))
		case j < 14:
			sig = randBytes(r, 64)
		case typ != "multisig":
			sig = randBytes(r, []int{0, 1, 63, 64, 65, 128}[r.IntN(6)])
			if len(sig) > 0 && r.IntN(2) == 0 {
				sig[0] = 0x0a // looks like the start of an amino struct
			}
		default:
			// amino-shaped garbage: plausible field tags with random contents
			kind = "amino-garbage"
			in := &intent{baPresent: r.IntN(8) != 0, extra: []int{0, r.IntN(8), r.IntN(256)}[r.IntN(3)], elems: randBytes(r, r.IntN(4))}
			for s := r.IntN(7); s > 0; s-- {
				in.slots = append(in.slots, slot{b: randBytes(r, []int{0, 1, 63, 64, 65}[r.IntN(5)]), signer: -1, kind: "random"})
			}
			sig = in.encode()
			switch r.IntN(6) {
			case 0:
				sig = sig[:r.IntN(len(sig)+1)]
			case 1:
				sig = append(sig, randBytes(r, 1+r.IntN(8))...)
			case 2:
				if len(sig) > 0 {
					sig[r.IntN(len(sig))] = byte(r.UintN(256))
				}
			}
		}
		ok, pv := verify(pk, msg, sig)
		c.Case(fmt.Sprintf("arb/%s/%x/%x/%x", typ, pubBytes(pk), msg, sig), true)
		c.Count("arbitrary_"+typ+"_"+kind, 1)
		w := map[string]any{"part": "arbitrary-bytes", "type": typ, "pubkey": vf.Hex(pubBytes(pk)), "msg": vf.Hex(msg), "sig": vf.Hex(sig)}
		if ks != nil {
			w["keys"] = ks.describe()
		}
		if pv != nil {
			key := "panic:" + typ + ":arbitrary-bytes"
			if typ == "multisig" { // classify by what the bytes decode to, so one root cause has one key
				var dec multisig.Multisignature
				if amino.Unmarshal(sig, &dec) != nil {
					key = "panic:multisig:undecodable"
				} else {
					in := &intent{baPresent: dec.BitArray != nil}
					if dec.BitArray != nil {
						in.extra, in.elems = int(dec.BitArray.ExtraBitsStored), dec.BitArray.Elems
					}
					in.slots = make([]slot, len(dec.Sigs))
					key = "panic:multisig:" + panicClass(len(ks.s), in)
				}
			}
			viol(c, key, w, "VerifyBytes panicked on arbitrary signature bytes (%s): %v", kind, pv)
		} else if ok {
			viol(c, "accepts-garbage:"+typ, w, "VerifyBytes accepted arbitrary bytes as a signature")
		} else {
			c.Count("arbitrary_rejected", 1)
		}
	}
}

// ---------------------------------------------------------------- part E: mutations of valid encodings

func mutated(c *vf.Ctx, i int, r *rand.Rand) {
	n := 1 + r.IntN(5)
	k := 1 + r.IntN(n)
	ks := newKeyset(r, n, false)
	pk := multisig.NewPubKeyMultisigThreshold(k, ks.pubs)
	// a valid multisignature with k..n signers
	m := k + r.IntN(n-k+1)
	perm := r.Perm(n)[:m]
	ms := multisig.NewMultisig(n)
	for _, p := range perm {
		ms.AddSignature(ks.sigs[p], p)
	}
	valid := ms.Marshal()
	if ok, pv := verify(pk, ks.msg, valid); pv != nil || !ok {
		viol(c, "multisig-rejects-valid", map[string]any{"threshold": k, "keys": ks.describe(), "msg": vf.Hex(ks.msg), "multisignature_bytes": vf.Hex(valid), "panic": fmt.Sprint(pv)}, "valid %d-of-%d multisignature with %d signers rejected", k, n, m)
		return
	}
	t := &msTester{c: c, ks: ks, k: k, pk: pk, id: shortID(fmt.Sprintf("mut/%x/%x", valid, ks.msg))}
	try := func(label string, enc []byte) {
		var dec multisig.Multisignature
		err := amino.Unmarshal(enc, &dec)
		c.Case(t.id+"/"+label, true)
		c.Count("mut_cases", 1)
		w := map[string]any{"part": "mutated-encoding", "mutation": label, "threshold": k, "keys": ks.describe(), "msg": vf.Hex(ks.msg), "valid_bytes": vf.Hex(valid), "multisignature_bytes": vf.Hex(enc)}
		got, pv := verify(pk, ks.msg, enc)
		if err != nil {
			c.Count("mut_undecodable", 1)
			if pv != nil {
				viol(c, "panic:multisig:undecodable", w, "VerifyBytes panicked on bytes amino rejects: %v", pv)
			} else if got {
				viol(c, "multisig-accepts:undecodable", w, "VerifyBytes accepted bytes that do not decode")
			}
			return
		}
		// model on the decoded value; a slot is valid for position p iff it is byte-identical to the known valid signature of key p
		in := &intent{baPresent: dec.BitArray != nil}
		if dec.BitArray != nil {
			in.extra, in.elems = int(dec.BitArray.ExtraBitsStored), dec.BitArray.Elems
		}
		for _, s := range dec.Sigs {
			sl := slot{b: s, signer: -1, kind: "mutated"}
			for p := range ks.sigs {
				if bytes.Equal(s, ks.sigs[p]) {
					sl = slot{b: s, signer: p, msgOK: true, intact: true, kind: "own-valid"}
				}
			}
			in.slots = append(in.slots, sl)
		}
		want, asserted, reason := model(n, k, in)
		c.Count("mut_class_"+reason, 1)
		if pv != nil {
			viol(c, "panic:multisig:"+panicClass(n, in), w, "VerifyBytes panicked on a mutated multisignature (%s, decoded shape: %s): %v", label, reason, pv)
			return
		}
		if asserted && got != want {
			key := "multisig-rejects-valid"
			if got {
				key = "multisig-accepts:" + reason
			}
			w["model"] = reason
			viol(c, key, w, "mutated multisignature (%s): VerifyBytes=%v, model=%v (%s)", label, got, want, reason)
		}
	}
	for pos := range valid {
		for _, mask := range []byte{0x01, 0x80, byte(1 + r.IntN(255))} {
			e := clone(valid)
			e[pos] ^= mask
			try(fmt.Sprintf("xor@%d:%02x", pos, mask), e)
		}
	}
	for l := 0; l < len(valid); l++ {
		try(fmt.Sprintf("truncate@%d", l), valid[:l])
	}
	for j := 0; j < 16; j++ {
		pos := r.IntN(len(valid) + 1)
		e := append(clone(valid[:pos]), byte(r.UintN(256)))
		e = append(e, valid[pos:]...)
		try(fmt.Sprintf("insert@%d:%02x", pos, e[pos]), e)
		if pos < len(valid) {
			try(fmt.Sprintf("delete@%d", pos), append(clone(valid[:pos]), valid[pos+1:]...))
		}
	}
	try("doubled", append(clone(valid), valid...))
	if i == 0 {
		c.Sample(map[string]any{"part": "mutated-encoding", "threshold": k, "keys": ks.describe(), "msg": vf.Hex(ks.msg), "valid_bytes": vf.Hex(valid)})
	}
}

// ---------------------------------------------------------------- run

func run(c *vf.Ctx) {
	workers := 14
	nA := c.N(600, 6000)
	c.Parallel(nA, workers, 1000, func(i int, r *rand.Rand) { singleKey(c, i, r) })
	c.Logf("single-key part done")

	type task struct{ n, k, rep int }
	var tasks []task
	reps := c.N(4, 12)
	for rep := 0; rep < reps; rep++ {
		for n := 1; n <= 5; n++ {
			for k := 1; k <= n; k++ {
				tasks = append(tasks, task{n, k, rep})
			}
		}
	}
	c.Parallel(len(tasks), workers, 200000, func(i int, r *rand.Rand) { shapes(c, r, tasks[i].n, tasks[i].k, tasks[i].rep) })
	c.Logf("multisig shapes done")

	nC := c.N(10000, 100000)
	c.Parallel(nC, workers, 300000, func(i int, r *rand.Rand) { builderAPI(c, i, r) })
	nD := c.N(4000, 60000)
	c.Parallel(nD, workers, 1000000, func(i int, r *rand.Rand) { arbitrary(c, i, r) })
	nE := c.N(150, 2500)
	c.Parallel(nE, workers, 2000000, func(i int, r *rand.Rand) { mutated(c, i, r) })

	c.Set("key_types", []string{"ed25519", "secp256k1", "multisig (members ed25519/secp256k1, nested multisig in the builder part)"})
	c.Set("multisig_shape_space", "n 1..5 × k 1..n × bit-array size 0..8 × every bit pattern × signature-list variants; enumerated completely per key set")
	c.Assume("ground truth for a signature slot is by construction (who signed which message, was it altered); a 1-bit alteration of a valid signature being valid again is treated as impossible")
	c.Assume("amino.Unmarshal is trusted to decode mutated multisignature bytes for the model in the mutation part; the shape part uses the harness's own encoder")
	c.Assume("secp256k1 built without the libsecp256k1 tag (pure-Go btcec/dcrec path)")
	c.Assume("result not asserted for surplus signatures with all marked positions valid, nor for structurally inconsistent bit arrays (no-panic only)")

	c.RequireCounter("roundtrip_ed25519", int64(nA/2))
	c.RequireCounter("roundtrip_secp256k1", int64(nA/2))
	c.RequireCounter("altered_rejected", int64(nA)*700)
	for _, k := range []string{"sig-bit", "pubkey-bit", "msg-bit", "high-s", "noncanonical-s-plus-l", "other-key", "sig-truncated"} {
		c.RequireCounter("altered_"+k, int64(nA/4))
	}
	c.RequireCounter("secp_reference_signed_accepted", int64(nA/2))
	c.RequireCounter("ms_cases", int64(len(tasks))*2000)
	for _, cls := range []string{"valid", "bitarray-size", "below-threshold", "fewer-sigs-than-marked", "invalid-sig:other-members-sig", "invalid-sig:other-message", "invalid-sig:corrupted",
		"invalid-sig:empty", "invalid-sig:random", "surplus-sigs", "malformed-bitarray"} {
		c.RequireCounter("ms_class_"+cls, 30)
	}
	c.RequireCounter("api_expected_valid", int64(nC/20))
	c.RequireCounter("api_expected_invalid", int64(nC/20))
	c.RequireCounter("api_with_nested_multisig_member", int64(nC/20))
	c.RequireCounter("arbitrary_multisig_amino-garbage", int64(nD/3)*20)
	c.RequireCounter("mut_cases", int64(nE)*200)
	c.RequireCounter("mut_undecodable", int64(nE)*10)
}
