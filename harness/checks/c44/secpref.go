package c44

// Independent secp256k1 ECDSA reference (math/big, affine coordinates). It
// shares no code with btcec/dcrec, which tm2/pkg/crypto/secp256k1 uses.

import (
	"crypto/sha256"
	"math/big"
)

func hexInt(s string) *big.Int {
	v, ok := new(big.Int).SetString(s, 16)
	if !ok {
		panic("bad hex " + s)
	}
	return v
}

var (
	curveP  = hexInt("FFFFFFFFFFFFFFFFFFFFFFFFFFFFFFFFFFFFFFFFFFFFFFFFFFFFFFFEFFFFFC2F")
	curveN  = hexInt("FFFFFFFFFFFFFFFFFFFFFFFFFFFFFFFEBAAEDCE6AF48A03BBFD25E8CD0364141")
	curveGx = hexInt("79BE667EF9DCBBAC55A06295CE870B07029BFCDB2DCE28D959F2815B16F81798")
	curveGy = hexInt("483ADA7726A3C4655DA4FBFC0E1108A8FD17B448A68554199C47D08FFB10D4B8")
	halfN   = new(big.Int).Rsh(curveN, 1)
)

type point struct{ x, y *big.Int } // x == nil: point at infinity

func (a point) inf() bool { return a.x == nil }

func padd(a, b point) point {
	if a.inf() {
		return b
	}
	if b.inf() {
		return a
	}
	var l *big.Int
	if a.x.Cmp(b.x) == 0 {
		if new(big.Int).Mod(new(big.Int).Add(a.y, b.y), curveP).Sign() == 0 {
			return point{}
		}
		// doubling: l = 3x^2 / 2y
		num := new(big.Int).Mul(a.x, a.x)
		num.Mul(num, big.NewInt(3))
		den := new(big.Int).Lsh(a.y, 1)
		den.ModInverse(den, curveP)
		l = num.Mul(num, den)
	} else {
		num := new(big.Int).Sub(b.y, a.y)
		den := new(big.Int).Sub(b.x, a.x)
		den.Mod(den, curveP)
		den.ModInverse(den, curveP)
		l = num.Mul(num, den)
	}
	l.Mod(l, curveP)
	x := new(big.Int).Mul(l, l)
	x.Sub(x, a.x).Sub(x, b.x).Mod(x, curveP)
	y := new(big.Int).Sub(a.x, x)
	y.Mul(y, l).Sub(y, a.y).Mod(y, curveP)
	return point{x, y}
}

func pmul(k *big.Int, a point) point {
	r := point{}
	for i := k.BitLen() - 1; i >= 0; i-- {
		r = padd(r, r)
		if k.Bit(i) == 1 {
			r = padd(r, a)
		}
	}
	return r
}

var curveG = point{curveGx, curveGy}

// decompress parses a 33-byte compressed public key; ok=false if it is not a curve point.
func decompress(pk []byte) (point, bool) {
	if len(pk) != 33 || (pk[0] != 2 && pk[0] != 3) {
		return point{}, false
	}
	x := new(big.Int).SetBytes(pk[1:])
	if x.Cmp(curveP) >= 0 {
		return point{}, false
	}
	rhs := new(big.Int).Exp(x, big.NewInt(3), curveP)
	rhs.Add(rhs, big.NewInt(7)).Mod(rhs, curveP)
	e := new(big.Int).Add(curveP, big.NewInt(1))
	e.Rsh(e, 2)
	y := new(big.Int).Exp(rhs, e, curveP)
	if new(big.Int).Exp(y, big.NewInt(2), curveP).Cmp(rhs) != 0 {
		return point{}, false
	}
	if y.Bit(0) != uint(pk[0]&1) {
		y.Sub(curveP, y)
	}
	return point{x, y}, true
}

func compress(a point) []byte {
	out := make([]byte, 33)
	out[0] = 2 + byte(a.y.Bit(0))
	a.x.FillBytes(out[1:])
	return out
}

func msgHash(msg []byte) *big.Int {
	h := sha256.Sum256(msg)
	return new(big.Int).SetBytes(h[:])
}

// refVerify: textbook ECDSA over SHA-256(msg) with the additional lower-S rule
// documented by PubKeySecp256k1.VerifyBytes; sig is R‖S, 64 bytes.
func refVerify(pk, msg, sig []byte) (valid bool, validIgnoringLowS bool) {
	if len(sig) != 64 {
		return false, false
	}
	P, ok := decompress(pk)
	if !ok {
		return false, false
	}
	r := new(big.Int).SetBytes(sig[:32])
	s := new(big.Int).SetBytes(sig[32:])
	if r.Sign() == 0 || s.Sign() == 0 || r.Cmp(curveN) >= 0 || s.Cmp(curveN) >= 0 {
		return false, false
	}
	w := new(big.Int).ModInverse(s, curveN)
	u1 := new(big.Int).Mul(msgHash(msg), w)
	u1.Mod(u1, curveN)
	u2 := new(big.Int).Mul(r, w)
	u2.Mod(u2, curveN)
	R := padd(pmul(u1, curveG), pmul(u2, P))
	if R.inf() {
		return false, false
	}
	if new(big.Int).Mod(R.x, curveN).Cmp(r) != 0 {
		return false, false
	}
	return s.Cmp(halfN) <= 0, true
}

// refSign signs with an explicit nonce k (so it produces signatures the code
// under test never generated itself); lower-S normalised; nil if k is unusable.
func refSign(d *big.Int, msg []byte, k *big.Int) []byte {
	R := pmul(k, curveG)
	if R.inf() {
		return nil
	}
	r := new(big.Int).Mod(R.x, curveN)
	if r.Sign() == 0 {
		return nil
	}
	s := new(big.Int).Mul(r, d)
	s.Add(s, msgHash(msg))
	s.Mul(s, new(big.Int).ModInverse(k, curveN)).Mod(s, curveN)
	if s.Sign() == 0 {
		return nil
	}
	if s.Cmp(halfN) > 0 {
		s.Sub(curveN, s)
	}
	out := make([]byte, 64)
	r.FillBytes(out[:32])
	s.FillBytes(out[32:])
	return out
}
