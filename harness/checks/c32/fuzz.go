package c32

import (
	"bytes"
	"crypto/sha256"
	"encoding/binary"
	"fmt"
	"math/rand/v2"

	"github.com/gnolang/gno/tm2/pkg/amino"
	"github.com/gnolang/gno/tm2/pkg/bft/types"

	"verifharness/internal/vf"
)

func mustBytes(b *types.Block) []byte { return amino.MustMarshal(b) }

// lenPrefixPositions walks a protobuf3-style encoding and returns the offsets
// of the length varints of length-delimited fields, recursing into payloads
// that themselves parse as messages.
func lenPrefixPositions(buf []byte, base int, depth int, out *[]int) bool {
	off := 0
	for off < len(buf) {
		key, n := binary.Uvarint(buf[off:])
		if n <= 0 {
			return false
		}
		off += n
		switch key & 7 {
		case 0:
			_, n := binary.Uvarint(buf[off:])
			if n <= 0 {
				return false
			}
			off += n
		case 1:
			if off+8 > len(buf) {
				return false
			}
			off += 8
		case 5:
			if off+4 > len(buf) {
				return false
			}
			off += 4
		case 2:
			l, n := binary.Uvarint(buf[off:])
			if n <= 0 || l > uint64(len(buf)-off-n) {
				return false
			}
			*out = append(*out, base+off)
			if depth < 6 && l > 0 {
				var sub []int
				if lenPrefixPositions(buf[off+n:off+n+int(l)], base+off+n, depth+1, &sub) {
					*out = append(*out, sub...)
				}
			}
			off += n + int(l)
		default:
			return false
		}
	}
	return true
}

func putUvarint(v uint64) []byte {
	var b [10]byte
	n := binary.PutUvarint(b[:], v)
	return b[:n]
}

// mutateBytes returns one mutated copy of src.
func mutateBytes(r *rand.Rand, src, other []byte, prefixes []int) ([]byte, string) {
	out := append([]byte{}, src...)
	switch k := r.IntN(10); k {
	case 0: // truncate
		return out[:r.IntN(len(out))], "truncate"
	case 1: // bit flips
		for i := 0; i < 1+r.IntN(3); i++ {
			out[r.IntN(len(out))] ^= 1 << r.UintN(8)
		}
		return out, "bitflip"
	case 2: // byte set to an extreme
		out[r.IntN(len(out))] = []byte{0, 0x7f, 0x80, 0xff, 1}[r.IntN(5)]
		return out, "byteset"
	case 3: // splice a region of another valid encoding
		if len(other) == 0 {
			other = src
		}
		a := r.IntN(len(out))
		b := r.IntN(len(other))
		l := 1 + r.IntN(64)
		if b+l > len(other) {
			l = len(other) - b
		}
		res := append(append(append([]byte{}, out[:a]...), other[b:b+l]...), out[min(len(out), a+l):]...)
		return res, "splice"
	case 4, 5: // inflate / deflate a length prefix
		if len(prefixes) == 0 {
			return out[:len(out)/2], "truncate"
		}
		p := prefixes[r.IntN(len(prefixes))]
		l, n := binary.Uvarint(out[p:])
		var nl uint64
		switch r.IntN(7) {
		case 0:
			nl = l + 1
		case 1:
			nl = l + uint64(1+r.IntN(200))
		case 2:
			nl = 1<<31 - 1
		case 3:
			nl = 1<<63 - 1
		case 4:
			nl = ^uint64(0)
		case 5:
			if l > 0 {
				nl = l - 1
			}
		default:
			nl = uint64(len(out)) - uint64(p) // exactly up to the end of the buffer
		}
		res := append(append(append([]byte{}, out[:p]...), putUvarint(nl)...), out[p+n:]...)
		return res, "length-prefix"
	case 6: // insert random bytes
		a := r.IntN(len(out) + 1)
		ins := make([]byte, 1+r.IntN(12))
		for i := range ins {
			ins[i] = byte(r.UintN(256))
		}
		return append(append(append([]byte{}, out[:a]...), ins...), out[a:]...), "insert"
	case 7: // delete a range
		a := r.IntN(len(out))
		l := 1 + r.IntN(16)
		if a+l > len(out) {
			l = len(out) - a
		}
		return append(append([]byte{}, out[:a]...), out[a+l:]...), "delete"
	case 8: // duplicate a range (repeated fields, repeated elements)
		a := r.IntN(len(out))
		l := 1 + r.IntN(120)
		if a+l > len(out) {
			l = len(out) - a
		}
		return append(append(append([]byte{}, out[:a+l]...), out[a:a+l]...), out[a+l:]...), "duplicate-range"
	default: // random bytes / random tail
		if r.IntN(2) == 0 {
			rb := make([]byte, r.IntN(200))
			for i := range rb {
				rb[i] = byte(r.UintN(256))
			}
			return rb, "random"
		}
		a := r.IntN(len(out))
		for i := a; i < len(out) && i < a+32; i++ {
			out[i] = byte(r.UintN(256))
		}
		return out, "random-window"
	}
}

// fuzz: robustness of validation on everything that decodes.
func (st *step) fuzz(prevBytes []byte) {
	c := st.c
	nBlock := c.N(300, 2500)
	nCommit := c.N(160, 1200)
	src := mustBytes(st.block)
	var prefixes []int
	lenPrefixPositions(src, 0, 0, &prefixes)
	if len(prefixes) == 0 {
		c.Count("fuzz_no_prefixes", 1)
	}
	// a second seed encoding: the valid block with unsigned precommit fields at extremes, so that byte mutants start from deeper states too
	for i := 0; i < nBlock; i++ {
		base := src
		m, kind := mutateBytes(st.r, base, prevBytes, prefixes)
		if st.r.IntN(4) == 0 { // stack a second mutation
			var k2 string
			var p2 []int
			lenPrefixPositions(m, 0, 0, &p2)
			if len(m) > 0 {
				m, k2 = mutateBytes(st.r, m, prevBytes, p2)
				kind += "+" + k2
			}
		}
		if bytes.Equal(m, src) {
			c.Count("fuzz_identity_skipped", 1)
			continue
		}
		st.checkBlockBytes(m, kind)
	}
	if st.genesis() {
		return
	}
	csrc := amino.MustMarshal(st.block.LastCommit)
	var cpref []int
	lenPrefixPositions(csrc, 0, 0, &cpref)
	for i := 0; i < nCommit; i++ {
		m, kind := mutateBytes(st.r, csrc, src, cpref)
		if bytes.Equal(m, csrc) {
			c.Count("fuzz_identity_skipped", 1)
			continue
		}
		st.checkCommitBytes(m, kind)
	}
}

func (st *step) checkBlockBytes(m []byte, kind string) {
	c := st.c
	hh := sha256.Sum256(m)
	key := fmt.Sprintf("chain%d/h%d/bytes/%x", st.sp.id, st.block.Height, hh[:10])
	w := map[string]any{"chain": st.sp.id, "chain_id": st.sp.chainID, "height": st.block.Height, "byte_mutation": kind, "block_amino_hex": vf.Hex(m), "seed": c.Seed}
	decode := func() (*types.Block, bool) {
		var blk types.Block
		var derr error
		if pv, _ := try(func() { derr = amino.Unmarshal(m, &blk) }); pv != nil {
			c.Count("fuzz_decode_panics", 1)
			c.Logf("NOTE amino.Unmarshal(Block) panicked (%s): %v  bytes=%x", kind, pv, m)
			return nil, false
		}
		if derr != nil {
			return nil, false
		}
		return &blk, true
	}
	blk, ok := decode()
	c.Case(key, ok)
	c.Count("fuzz_block_inputs", 1)
	if !ok {
		c.Count("fuzz_undecodable", 1)
		return
	}
	c.Count("fuzz_decoded_blocks", 1)
	c.Count("fuzz_decoded:"+kind, 1)
	var e1, e2 error
	if pv, site := try(func() { e1 = blk.ValidateBasic() }); pv != nil {
		c.Violation("panic@"+site, w, "Block.ValidateBasic panicked in %s on a block decoded from mutated bytes (%s): %v", site, kind, pv)
		return
	}
	if pv, site := try(func() { e2 = st.pre.ValidateBlock(blk) }); pv != nil {
		c.Violation("panic@"+site, w, "State.ValidateBlock panicked in %s on a block decoded from mutated bytes (%s): %v", site, kind, pv)
		return
	}
	if e1 == nil {
		c.Count("fuzz_passed_ValidateBasic", 1)
		// what the fast-sync reactor does with a received block that passed ValidateBasic
		if pv, site := try(func() {
			ps := blk.MakePartSet(types.BlockPartSizeBytes)
			id := types.BlockID{Hash: blk.Hash(), PartsHeader: ps.Header()}
			_ = st.pre.Validators.VerifyCommit(st.sp.chainID, id, blk.Height, blk.LastCommit)
			_ = st.pre.LastValidators.VerifyCommit(st.sp.chainID, st.pre.LastBlockID, blk.Height-1, blk.LastCommit)
		}); pv != nil {
			c.Violation("panic@"+site, w, "MakePartSet/Hash/VerifyCommit panicked in %s on a decoded block that passed ValidateBasic (%s): %v", site, kind, pv)
			return
		}
	}
	if e2 == nil {
		c.Count("fuzz_passed_ValidateBlock", 1)
		c.Count("fuzz_passed_ValidateBlock:"+kind, 1)
		if c.Counter("fuzz_passed_ValidateBlock") <= 6 {
			c.Logf("fuzz: mutated bytes (%s) decode to an ACCEPTED block: reencoded-equal=%v", kind, bytes.Equal(amino.MustMarshal(blk), mustBytes(st.block)))
		}
	}
	// adversarial fix-up: recompute the self-referential hashes so that validation goes deeper
	b2, _ := decode()
	if b2 == nil {
		return
	}
	if pv, site := try(func() {
		if b2.LastCommit != nil {
			b2.LastCommitHash = b2.LastCommit.Hash()
		}
		b2.DataHash = b2.Data.Hash()
		b2.NumTxs = int64(len(b2.Txs))
	}); pv != nil {
		c.Violation("panic@"+site, w, "Commit.Hash/Data.Hash panicked in %s on a decoded block (%s): %v", site, kind, pv)
		return
	}
	var e3 error
	if pv, site := try(func() { e3 = st.pre.ValidateBlock(b2) }); pv != nil {
		c.Violation("panic@"+site, w, "State.ValidateBlock panicked in %s on a decoded block with recomputed LastCommitHash/DataHash (%s): %v", site, kind, pv)
		return
	}
	if e3 == nil {
		c.Count("fuzz_fixed_passed_ValidateBlock", 1)
	}
}

func (st *step) checkCommitBytes(m []byte, kind string) {
	c := st.c
	hh := sha256.Sum256(m)
	key := fmt.Sprintf("chain%d/h%d/commitbytes/%x", st.sp.id, st.block.Height, hh[:10])
	w := map[string]any{"chain": st.sp.id, "chain_id": st.sp.chainID, "height": st.block.Height, "byte_mutation": kind, "commit_amino_hex": vf.Hex(m), "seed": c.Seed}
	var cm types.Commit
	var derr error
	if pv, _ := try(func() { derr = amino.Unmarshal(m, &cm) }); pv != nil {
		c.Count("fuzz_decode_panics", 1)
		c.Logf("NOTE amino.Unmarshal(Commit) panicked (%s): %v  bytes=%x", kind, pv, m)
		c.Case(key, false)
		return
	}
	c.Case(key, derr == nil)
	c.Count("fuzz_commit_inputs", 1)
	if derr != nil {
		return
	}
	c.Count("fuzz_decoded_commits", 1)
	var e1 error
	if pv, site := try(func() { e1 = cm.ValidateBasic() }); pv != nil {
		c.Violation("panic@"+site, w, "Commit.ValidateBasic panicked in %s on a decoded commit (%s): %v", site, kind, pv)
		return
	}
	if pv, site := try(func() {
		_ = st.pre.LastValidators.VerifyCommit(st.sp.chainID, st.pre.LastBlockID, st.block.Height-1, &cm)
	}); pv != nil {
		c.Violation("panic@"+site, w, "ValidatorSet.VerifyCommit panicked in %s on a decoded commit (%s): %v", site, kind, pv)
		return
	}
	if e1 == nil {
		c.Count("fuzz_commit_passed_ValidateBasic", 1)
	}
	// the decoded commit inside an otherwise valid block, hashes recomputed
	b := cloneBlock(st.block)
	var cm2 types.Commit
	if amino.Unmarshal(m, &cm2) != nil {
		return
	}
	b.LastCommit = &cm2
	var e2 error
	if pv, site := try(func() { b.LastCommitHash = b.LastCommit.Hash(); e2 = st.pre.ValidateBlock(b) }); pv != nil {
		c.Count("panics:fuzz-decoded-commit-in-valid-block", 1)
		c.Violation("panic@"+site, w, "State.ValidateBlock panicked in %s on a valid block carrying a commit decoded from mutated bytes (%s): %v", site, kind, pv)
		return
	}
	if e2 == nil {
		c.Count("fuzz_commit_block_accepted", 1)
	}
}
