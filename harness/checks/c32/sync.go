package c32

import (
	"fmt"
	"math/rand/v2"

	"github.com/gnolang/gno/tm2/pkg/bft/types"

	"verifharness/internal/vf"
)

// Fast-sync sequence (blockchain/reactor.go poolRoutine, "didProcessCh" case):
//
//	first, second := pool.PeekTwoBlocks()          // both passed Block.ValidateBasic in Receive
//	firstParts := first.MakePartSet(BlockPartSizeBytes)
//	firstID := BlockID{first.Hash(), firstParts.Header()}
//	err := state.Validators.VerifyCommit(chainID, firstID, first.Height, second.LastCommit)
//	if err != nil { redo both requests, drop peers } else {
//	    store.SaveBlock(first, firstParts, second.LastCommit)
//	    state, err = blockExec.ApplyBlock(state, firstID, first)   // err => panic
//	}
//
// The harness replays exactly these statements against a fresh node and a feed
// in which the serving peer tampered with one block; on rejection the honest
// blocks are fed instead (the reactor re-requests from another peer).

type tamper struct {
	name string
	// apply edits feed (deep copies) at position p (1 <= p < len(feed)-1); returns false if not applicable
	fn func(sp *chainSpec, r *rand.Rand, feed []*types.Block, p int, vals []*types.ValidatorSet) bool
}

func tampers() []tamper {
	refresh := func(b *types.Block) *types.Block { return cloneBlock(b) } // drop memoized hashes after editing
	return []tamper{
		{"tx-altered-rehashed", func(sp *chainSpec, r *rand.Rand, feed []*types.Block, p int, vals []*types.ValidatorSet) bool {
			b := feed[p]
			if len(b.Txs) == 0 {
				b.Txs = append(b.Txs, types.Tx("forged"))
				b.NumTxs++
				b.TotalTxs++
			} else {
				b.Txs[0] = flip(b.Txs[0], r.IntN(64))
			}
			b.DataHash = nil
			feed[p] = refresh(b)
			feed[p].DataHash = feed[p].Data.Hash()
			return true
		}},
		{"tx-altered-stale-datahash", func(sp *chainSpec, r *rand.Rand, feed []*types.Block, p int, vals []*types.ValidatorSet) bool {
			b := feed[p]
			if len(b.Txs) == 0 {
				return false
			}
			b.Txs[0] = flip(b.Txs[0], r.IntN(64))
			feed[p] = refresh(b)
			return true
		}},
		{"header-apphash", func(sp *chainSpec, r *rand.Rand, feed []*types.Block, p int, vals []*types.ValidatorSet) bool {
			feed[p].AppHash = flip(feed[p].AppHash, r.IntN(64))
			feed[p] = refresh(feed[p])
			return true
		}},
		{"header-time", func(sp *chainSpec, r *rand.Rand, feed []*types.Block, p int, vals []*types.ValidatorSet) bool {
			feed[p].Time = feed[p].Time.Add(1)
			feed[p] = refresh(feed[p])
			return true
		}},
		{"header-nextvalidators", func(sp *chainSpec, r *rand.Rand, feed []*types.Block, p int, vals []*types.ValidatorSet) bool {
			feed[p].NextValidatorsHash = randHash(r)
			feed[p] = refresh(feed[p])
			return true
		}},
		{"lastcommit-drop-precommit", func(sp *chainSpec, r *rand.Rand, feed []*types.Block, p int, vals []*types.ValidatorSet) bool {
			b := feed[p]
			i := firstSigner(b)
			if i < 0 {
				return false
			}
			b.LastCommit.Precommits[i] = nil
			b = refresh(b)
			b.LastCommitHash = b.LastCommit.Hash()
			feed[p] = b
			return true
		}},
		{"lastcommit-drop-precommit-stale-hash", func(sp *chainSpec, r *rand.Rand, feed []*types.Block, p int, vals []*types.ValidatorSet) bool {
			b := feed[p]
			i := firstSigner(b)
			if i < 0 {
				return false
			}
			b.LastCommit.Precommits[i] = nil
			feed[p] = refresh(b)
			return true
		}},
		{"second-lastcommit-sigflip", func(sp *chainSpec, r *rand.Rand, feed []*types.Block, p int, vals []*types.ValidatorSet) bool {
			b := feed[p+1]
			i := firstSigner(b)
			if i < 0 {
				return false
			}
			b.LastCommit.Precommits[i].Signature = flip(b.LastCommit.Precommits[i].Signature, r.IntN(512))
			b = refresh(b)
			b.LastCommitHash = b.LastCommit.Hash()
			feed[p+1] = b
			return true
		}},
		{"second-lastcommit-precommit-negative-parts-total", func(sp *chainSpec, r *rand.Rand, feed []*types.Block, p int, vals []*types.ValidatorSet) bool {
			// needs no key at all: the first non-nil precommit names a block id with PartsHeader.Total = -1
			b := feed[p+1]
			i := firstSigner(b)
			if i < 0 {
				return false
			}
			b.LastCommit.Precommits[i].BlockID.PartsHeader.Total = -1
			b.LastCommit.Precommits[i].Signature = []byte("no key needed")
			b = refresh(b)
			b.LastCommitHash = b.LastCommit.Hash()
			feed[p+1] = b
			return true
		}},
		{"second-lastcommit-subquorum", func(sp *chainSpec, r *rand.Rand, feed []*types.Block, p int, vals []*types.ValidatorSet) bool {
			b := feed[p+1]
			// drop signers (from the end) until the remaining power for the block is <= 2/3 of valset p
			vs := vals[p]
			total := totalPower(vs)
			var pw int64
			for i, pc := range b.LastCommit.Precommits {
				if pc != nil && pc.BlockID.Equals(b.LastCommit.BlockID) {
					pw += vs.Validators[i].VotingPower
				}
			}
			for i := len(b.LastCommit.Precommits) - 1; i >= 0 && moreThanTwoThirds(pw, total); i-- {
				if pc := b.LastCommit.Precommits[i]; pc != nil {
					if pc.BlockID.Equals(b.LastCommit.BlockID) {
						pw -= vs.Validators[i].VotingPower
					}
					b.LastCommit.Precommits[i] = nil
				}
			}
			if firstSigner(b) < 0 {
				return false
			}
			b = refresh(b)
			b.LastCommitHash = b.LastCommit.Hash()
			feed[p+1] = b
			return true
		}},
		{"forged-block-attacker-commit", func(sp *chainSpec, r *rand.Rand, feed []*types.Block, p int, vals []*types.ValidatorSet) bool {
			// a self-consistent forged block at p, and a commit for it in p+1 signed by keys outside the validator set
			b := feed[p]
			b.Txs = append(b.Txs, types.Tx("forged-by-attacker"))
			b.NumTxs++
			b.TotalTxs++
			b.DataHash = nil
			b = refresh(b)
			b.DataHash = b.Data.Hash()
			feed[p] = b
			id := blockIDOf(cloneBlock(b))
			s := feed[p+1]
			for i, pc := range s.LastCommit.Precommits {
				if pc == nil {
					continue
				}
				k := sp.outsider[i%len(sp.outsider)]
				s.LastCommit.Precommits[i] = signPrecommit(sp.chainID, k, types.PrecommitType, pc.Height, pc.Round, id, pc.Timestamp, pc.ValidatorAddress, i)
			}
			s.LastCommit.BlockID = id
			s.LastBlockID = id
			s = refresh(s)
			s.LastCommitHash = s.LastCommit.Hash()
			feed[p+1] = s
			return true
		}},
		{"replay-previous-block", func(sp *chainSpec, r *rand.Rand, feed []*types.Block, p int, vals []*types.ValidatorSet) bool {
			feed[p] = cloneBlock(feed[p-1])
			return true
		}},
		{"skip-a-block", func(sp *chainSpec, r *rand.Rand, feed []*types.Block, p int, vals []*types.ValidatorSet) bool {
			feed[p] = cloneBlock(feed[p+1])
			return true
		}},
	}
}

func runSync(c *vf.Ctx, sp *chainSpec, rng *rand.Rand, served []*types.Block, vals []*types.ValidatorSet) {
	if len(served) < 4 {
		return
	}
	honestHash := make([]string, len(served))
	for i, b := range served {
		honestHash[i] = fmt.Sprintf("%X", cloneBlock(b).Hash())
	}
	// honest pass: reference state digests
	digests, ok := syncOnce(c, sp, rng, served, vals, nil, -1, nil, honestHash)
	if !ok {
		return
	}
	c.Count("sync_honest_applied", 1)
	for _, t := range tampers() {
		p := 1 + rng.IntN(len(served)-2) // 1 .. len-2 : a block in the middle, with a successor
		syncOnce(c, sp, rng, served, vals, &t, p, digests, honestHash)
	}
}

// syncOnce replays the reactor sequence; returns the state digest after each applied block.
func syncOnce(c *vf.Ctx, sp *chainSpec, rng *rand.Rand, served []*types.Block, vals []*types.ValidatorSet, t *tamper, p int, ref []string, honestHash []string) ([]string, bool) {
	feed := make([]*types.Block, len(served))
	for i, b := range served {
		feed[i] = cloneBlock(b)
	}
	name := "honest"
	if t != nil {
		name = t.name
		if !t.fn(sp, rng, feed, p, vals) {
			c.Count("sync_tamper_not_applicable", 1)
			return nil, true
		}
	}
	key := fmt.Sprintf("chain%d/sync/%s/%d", sp.id, name, p)
	c.Case(key, t != nil)
	w := map[string]any{"chain": sp.id, "chain_id": sp.chainID, "tamper": name, "position": p, "blocks": len(served), "seed": c.Seed}
	tamperedHash := map[string]bool{}
	if t != nil {
		for i := range feed {
			h := fmt.Sprintf("%X", cloneBlock(feed[i]).Hash())
			isHonest := false
			for _, hh := range honestHash {
				if hh == h {
					isHonest = true // an honest block served at the wrong position (replay / skip)
				}
			}
			if !isHonest {
				tamperedHash[h] = true
			}
		}
	}
	n, err := sp.newNode()
	if err != nil {
		panic(err)
	}
	defer n.stop()
	state := n.state
	var digests []string
	rejected := 0
	honest := func(i int) { feed[i] = cloneBlock(served[i]) }
	received := make([]bool, len(feed))
	guard := 0
	for i := 0; i+1 < len(feed); {
		guard++
		if guard > 10*len(feed) {
			c.Violation("fastsync-livelock", w, "sync sequence did not progress")
			return nil, false
		}
		// Receive(): bcBlockResponseMessage.ValidateBasic == Block.ValidateBasic; a failing block is never pooled
		bad := false
		for _, j := range []int{i, i + 1} {
			if received[j] {
				continue
			}
			var verr error
			if pv, site := try(func() { verr = feed[j].ValidateBasic() }); pv != nil {
				c.Violation("panic@"+site, w, "Block.ValidateBasic panicked in %s on a served block (%s): %v", site, name, pv)
				return nil, false
			}
			if verr != nil {
				c.Count("sync_rejected_at_receive", 1)
				rejected++
				honest(j)
				bad = true
			} else {
				received[j] = true
			}
		}
		if bad {
			continue
		}
		first, second := feed[i], feed[i+1]
		var verr error
		var firstParts *types.PartSet
		var firstID types.BlockID
		if pv, site := try(func() {
			firstParts = first.MakePartSet(types.BlockPartSizeBytes)
			firstID = types.BlockID{Hash: first.Hash(), PartsHeader: firstParts.Header()}
			verr = state.Validators.VerifyCommit(sp.chainID, firstID, first.Height, second.LastCommit)
		}); pv != nil {
			c.Violation("panic@"+site, w, "fast-sync verify sequence panicked in %s (%s): %v", site, name, pv)
			return nil, false
		}
		if verr != nil {
			if t == nil {
				c.Violation("fastsync-honest-rejected", w, "honest block %d rejected by VerifyCommit: %v", first.Height, verr)
				return nil, false
			}
			c.Count("sync_rejected_at_verify", 1)
			rejected++
			honest(i)
			honest(i + 1)
			received[i], received[i+1] = false, false
			continue
		}
		n.bstore.SaveBlock(first, firstParts, second.LastCommit)
		var aerr error
		ns := state
		if pv, site := try(func() { ns, aerr = n.exec.ApplyBlock(state, firstID, first) }); pv != nil {
			c.Violation("panic@"+site, w, "ApplyBlock panicked in %s in the fast-sync sequence at height %d (%s): %v", site, first.Height, name, pv)
			return nil, false
		}
		if aerr != nil {
			// the reactor panics here ("Failed to process committed block"): a served block got past VerifyCommit but is invalid
			c.Violation("fastsync-verified-block-failed-apply:"+name, w, "block %d passed VerifyCommit but ApplyBlock failed (the reactor panics here): %v", first.Height, aerr)
			return nil, false
		}
		state = ns
		digests = append(digests, stateDigest(state))
		i++
	}
	// monitor: what reached the app
	begun := n.app.begunHashes()
	for k, h := range begun {
		if tamperedHash[h] {
			c.Violation("fastsync-applied-tampered-block:"+name, w, "tampered block %s was executed by the app at position %d", h, k)
			return nil, false
		}
		if k < len(honestHash) && h != honestHash[k] {
			c.Violation("fastsync-applied-unknown-block:"+name, w, "app executed block %s at position %d, honest chain has %s", h, k, honestHash[k])
			return nil, false
		}
	}
	if len(begun) != len(served)-1 {
		c.Violation("fastsync-incomplete:"+name, w, "applied %d blocks, want %d", len(begun), len(served)-1)
		return nil, false
	}
	if ref != nil {
		for k := range digests {
			if digests[k] != ref[k] {
				c.Violation("fastsync-state-diverged:"+name, w, "state after block %d differs from the honest sync: %s vs %s", k, digests[k], ref[k])
				return nil, false
			}
		}
	}
	if t != nil {
		if rejected == 0 {
			c.Violation("fastsync-tamper-not-rejected:"+name, w, "tampered feed (%s at %d) was never rejected", name, p)
			return nil, false
		}
		c.Count("sync_tampered_rejected", 1)
		c.Count("sync_tamper:"+name, 1)
	}
	return digests, true
}
