// Package c32: applied blocks are valid and block validation is robust.
//
// (a) Rule table. Real chains are built with the real state machinery
// (sm.MakeGenesisState, State.MakeBlock, BlockExecutor.ApplyBlock over a
// scripted ABCI app through appconn/proxy, memdb state DB and block store,
// validators with real ed25519 keys, commits made of really signed precommits,
// validator-set changes coming out of EndBlock). At every height the valid
// next block must be accepted; every single-field mutation of it (header
// fields, tx data, last-commit fields, signatures, signer subsets, signatures
// by the wrong set, duplicated validators, ...) must be rejected by
// State.ValidateBlock (which runs Block.ValidateBasic) and refused by
// ApplyBlock without touching the app or the state. The oracle for signer
// subsets is an independent power sum (3*p > 2*total); the oracle for block
// time is an independent weighted median.
// (b) Robustness. Blocks and commits decoded from mutated/random amino bytes
// are validated under recover: no panic on anything that decodes.
// (c) Fast-sync sequence. The blockchain reactor's verify-then-apply steps
// (VerifyCommit(first, second.LastCommit); SaveBlock; ApplyBlock) are
// replayed on a second node fed by a serving peer that tampers with blocks:
// a tampered block must never reach the app.
package c32

import (
	"bytes"
	"fmt"
	"math/rand/v2"

	"github.com/gnolang/gno/tm2/pkg/bft/types"

	"verifharness/internal/vf"
)

func init() {
	vf.Register(&vf.Check{
		ID:    "C32",
		Level: "exploration",
		Rule: "cases = (chain, height, mutation): seeded chains (3..6 initial validators of unequal or minimal equal power, validator add/remove/power updates from EndBlock, initial height 1 or >1, " +
			"commits with absent and stray precommits) x every height x every applicable single-field mutation of the valid next block (header fields, tx data, LastCommit fields, one corruption per signer, " +
			"all 2^n absent-signer subsets + sampled stray-vote assignments with the accept/reject verdict computed by an independent power sum, unsigned CommitSig fields); " +
			"plus (chain, height, byte-mutation) of the amino encodings of blocks and commits (truncate, bit flip, splice, length-prefix inflation, insert/delete, random) and (chain, tamper kind, position) for the fast-sync sequence. " +
			"non-trivial = the mutated object differs from the accepted valid block in the named field only (+ recomputed dependent hashes where stated) / the mutated bytes still decode; distinct by (chain, height, mutation name or byte hash)",
		Run: run,
	})
}

func run(c *vf.Ctx) {
	nChains := c.N(16, 96)
	heights := c.N(8, 13)
	c.Set("chains", nChains)
	c.Set("heights_per_chain", heights)
	c.Parallel(nChains, 8, 1000, func(i int, rng *rand.Rand) {
		runChain(c, i, rng, heights)
	})
	c.Assume("ed25519 signatures, SHA-256/merkle hashing and amino encoding are trusted primitives")
	c.Assume("the weighted-median definition is the one documented in tm2/pkg/bft/types/time (first time whose cumulative weight reaches floor(total/2)); the oracle re-implements it with weights taken by signer position")
	c.Assume("fast-sync part replays the reactor's verify-then-apply statements (blockchain/reactor.go poolRoutine) in the harness; the reactor's own goroutines, pool and peer handling are not executed")
	c.RequireCounter("valid_blocks_accepted", int64(nChains*heights))
	c.RequireCounter("blocks_applied", int64(nChains*heights))
	c.RequireCounter("mutations", int64(nChains*heights*60))
	c.RequireCounter("rejected_by_ValidateBlock_only", 100)
	c.RequireCounter("rejected_by_ValidateBasic", 100)
	c.RequireCounter("subset_accepted", 20)
	c.RequireCounter("subset_rejected", 20)
	c.RequireCounter("subset_exactly_two_thirds", 1)
	c.RequireCounter("valset_changes_applied", 3)
	c.RequireCounter("unsigned_field_cases", 200)
	c.RequireCounter("time_jump_cases", 3)
	c.RequireCounter("fuzz_decoded_blocks", 200)
	c.RequireCounter("fuzz_decoded_commits", 100)
	c.RequireCounter("sync_tampered_rejected", int64(nChains))
	c.RequireCounter("sync_honest_applied", int64(nChains))
	for _, m := range []string{"height+1", "chainid-append", "lastblockid-hash", "apphash-flip", "resultshash-flip", "valhash-flip", "nextvalhash-flip", "consensushash-flip",
		"time-1ns", "time+1ns", "time-nonmonotonic-median/fixhash", "proposer-random", "totaltxs+1", "numtxs+1", "datahash-flip", "commit-height+1-resigned/fixhash",
		"commit-round-one-precommit/fixhash", "commit-type-one-prevote/fixhash", "commit-sig-bitflip-needed", "commit-wrong-set-outsiders/fixhash", "commit-duplicate-validator",
		"commit-all-nil/fixhash", "commit-blockid-hash/fixhash", "commit-size-1/fixhash"} {
		c.RequireCounter("rejected:"+m, 1)
	}
}

func runChain(c *vf.Ctx, ci int, rng *rand.Rand, heights int) {
	sp := genSpec(ci, rng, heights)
	n, err := sp.newNode()
	if err != nil {
		panic(err)
	}
	defer n.stop()

	// model of the validator sets: membership and power in effect at each height
	model := map[string]int64{}
	for _, gv := range sp.genVals {
		model[gv.Address.String()] = gv.Power
	}
	modelAt := map[int64]map[string]int64{} // height -> set in effect
	cp := func(m map[string]int64) map[string]int64 {
		o := map[string]int64{}
		for k, v := range m {
			o[k] = v
		}
		return o
	}
	modelAt[sp.initialHeight] = cp(model)
	modelAt[sp.initialHeight+1] = cp(model)

	lastCommit := types.NewCommit(types.BlockID{}, nil)
	var prevLC *types.Commit
	var served []*types.Block
	var servedVals []*types.ValidatorSet
	var prevBytes []byte

	for k := 0; k < heights; k++ {
		pre := n.state
		h := pre.LastBlockHeight + 1
		txs := makeTxs(rng, h)
		proposer := pre.Validators.GetProposer().Address
		if rng.IntN(3) == 0 {
			proposer = pre.Validators.Validators[rng.IntN(pre.Validators.Size())].Address
		}
		block, parts := pre.MakeBlock(h, txs, lastCommit, proposer)
		id := types.BlockID{Hash: block.Hash(), PartsHeader: parts.Header()}
		st := &step{c: c, sp: sp, n: n, pre: pre, block: block, id: id, r: rng, prevLastCommit: prevLC}
		w := map[string]any{"chain": ci, "height": h, "seed": c.Seed}

		// the unmutated block (and a deep copy decoded from its own bytes) must be accepted
		ok := true
		for vi, b := range []*types.Block{block, cloneBlock(block)} {
			var e1, e2 error
			pv := vf.Try(func() { e1 = b.ValidateBasic(); e2 = pre.ValidateBlock(b) })
			c.Case(fmt.Sprintf("chain%d/h%d/valid/%d", ci, h, vi), false)
			if pv != nil || e1 != nil || e2 != nil {
				c.Violation("rejected-valid-block", w, "valid block at height %d rejected: basic=%v state=%v panic=%v", h, e1, e2, pv)
				ok = false
			}
		}
		if !ok {
			return
		}
		c.Count("valid_blocks_accepted", 1)
		// the block time the node computed must be the oracle's median (sanity of the oracle on the valid chain)
		if h > sp.initialHeight {
			if ref := refMedian(lastCommit, pre.LastValidators); !ref.Equal(block.Time) {
				c.Violation("median-oracle-disagrees-on-valid-block", w, "MakeBlock time %v, reference median %v", block.Time, ref)
			}
		}

		st.runRuleTable()
		st.fuzz(prevBytes)
		prevBytes = mustBytes(block)

		// apply the valid block
		bc0, cm0, _ := n.app.snapshot()
		ns, aerr := n.exec.ApplyBlock(pre, id, block)
		if aerr != nil {
			c.Violation("apply-valid-failed", w, "ApplyBlock on the valid block failed: %v", aerr)
			return
		}
		bc1, cm1, appHash := n.app.snapshot()
		switch {
		case ns.LastBlockHeight != h, !ns.LastBlockID.Equals(id), ns.LastBlockTotalTx != pre.LastBlockTotalTx+int64(len(txs)), !ns.LastBlockTime.Equal(block.Time),
			!sameValSet(ns.Validators, pre.NextValidators), !sameValSet(ns.LastValidators, pre.Validators), !bytes.Equal(ns.AppHash, appHash), bc1 != bc0+1, cm1 != cm0+1:
			c.Violation("state-not-advanced", w, "after ApplyBlock(h=%d): state %s; app begin %d->%d commit %d->%d apphash %X", h, stateDigest(ns), bc0, bc1, cm0, cm1, appHash)
			return
		}
		c.Count("blocks_applied", 1)
		// validator model: updates returned at h are in effect at h+2 (= ns.NextValidators)
		for _, u := range sp.updates[h] {
			if u.Power == 0 {
				delete(model, u.Address.String())
			} else {
				model[u.Address.String()] = u.Power
			}
		}
		if len(sp.updates[h]) > 0 {
			c.Count("valset_changes_applied", 1)
		}
		modelAt[h+2] = cp(model)
		if !matchesModel(ns.NextValidators, modelAt[h+2]) || !matchesModel(ns.Validators, modelAt[h+1]) {
			c.Violation("valset-model-mismatch", w, "validator sets after height %d differ from the update schedule: next=%v want %v", h, powers(ns.NextValidators), modelAt[h+2])
			return
		}
		n.state = ns

		// commit for h, signed by the validators in effect at h, with absent/stray votes but > 2/3 for the block
		vals := ns.LastValidators
		choices := make([]voteChoice, vals.Size())
		total := totalPower(vals)
		for _, i := range rng.Perm(vals.Size()) {
			if rng.IntN(100) < 40 {
				old := choices[i]
				choices[i] = voteChoice(1 + rng.IntN(3))
				if !moreThanTwoThirds(blockPower(vals, choices), total) {
					choices[i] = old
				}
			}
		}
		round := 0
		if rng.IntN(3) == 0 {
			round = 1 + rng.IntN(3)
		}
		seen := sp.makeCommit(h, round, id, vals, choices, voteTimes(rng, block.Time, vals.Size()))
		n.bstore.SaveBlock(block, parts, seen)
		served = append(served, block)
		servedVals = append(servedVals, pre.Validators.Copy())
		prevLC = lastCommit
		lastCommit = seen
		if k < 2 && ci < 5 {
			c.Sample(map[string]any{"chain": ci, "height": h, "validators": powers(pre.Validators), "last_commit_choices": fmt.Sprint(choices), "txs": len(txs), "mutation_examples": []string{"apphash-flip", "commit-sig-bitflip-needed", "subset/[0 1 0]"}})
		}
	}
	runSync(c, sp, rng, served, servedVals)
}

func matchesModel(vs *types.ValidatorSet, m map[string]int64) bool {
	if m == nil {
		return true
	}
	if vs.Size() != len(m) {
		return false
	}
	for _, v := range vs.Validators {
		if p, ok := m[v.Address.String()]; !ok || p != v.VotingPower {
			return false
		}
	}
	return true
}
