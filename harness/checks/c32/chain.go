package c32

import (
	"bytes"
	"crypto/sha256"
	"encoding/binary"
	"fmt"
	"math/rand/v2"
	"sort"
	"sync"
	"time"

	"github.com/gnolang/gno/tm2/pkg/amino"
	abci "github.com/gnolang/gno/tm2/pkg/bft/abci/types"
	"github.com/gnolang/gno/tm2/pkg/bft/appconn"
	"github.com/gnolang/gno/tm2/pkg/bft/mempool/mock"
	"github.com/gnolang/gno/tm2/pkg/bft/proxy"
	sm "github.com/gnolang/gno/tm2/pkg/bft/state"
	"github.com/gnolang/gno/tm2/pkg/bft/store"
	"github.com/gnolang/gno/tm2/pkg/bft/types"
	"github.com/gnolang/gno/tm2/pkg/crypto"
	"github.com/gnolang/gno/tm2/pkg/crypto/ed25519"
	dbm "github.com/gnolang/gno/tm2/pkg/db"
	"github.com/gnolang/gno/tm2/pkg/db/memdb"
	"github.com/gnolang/gno/tm2/pkg/log"
)

// scriptApp is a deterministic ABCI application: the app hash chains over
// every delivered tx, DeliverTx returns data derived from the tx (so the
// results hash differs per block) and EndBlock returns the validator updates
// scripted for that height. It records what the node asked it to execute.
type scriptApp struct {
	abci.BaseApplication
	mtx     sync.Mutex
	updates map[int64][]abci.ValidatorUpdate
	hash    []byte
	pending []byte

	// monitor
	begun      []string // hex hashes of every block handed to BeginBlock, in order
	beginCalls int
	commits    int
}

func newScriptApp(updates map[int64][]abci.ValidatorUpdate) *scriptApp {
	return &scriptApp{updates: updates, hash: nil}
}

func (a *scriptApp) BeginBlock(req abci.RequestBeginBlock) abci.ResponseBeginBlock {
	a.mtx.Lock()
	defer a.mtx.Unlock()
	a.beginCalls++
	a.begun = append(a.begun, fmt.Sprintf("%X", req.Hash))
	h := sha256.New()
	h.Write(a.hash)
	var hb [8]byte
	binary.BigEndian.PutUint64(hb[:], uint64(req.Header.GetHeight()))
	h.Write(hb[:])
	a.pending = h.Sum(nil)
	return abci.ResponseBeginBlock{}
}

func (a *scriptApp) DeliverTx(req abci.RequestDeliverTx) abci.ResponseDeliverTx {
	a.mtx.Lock()
	defer a.mtx.Unlock()
	h := sha256.Sum256(append(append([]byte{}, a.pending...), req.Tx...))
	a.pending = h[:]
	d := sha256.Sum256(req.Tx)
	return abci.ResponseDeliverTx{ResponseBase: abci.ResponseBase{Data: d[:8]}, GasUsed: int64(len(req.Tx))}
}

func (a *scriptApp) EndBlock(req abci.RequestEndBlock) abci.ResponseEndBlock {
	a.mtx.Lock()
	defer a.mtx.Unlock()
	return abci.ResponseEndBlock{ValidatorUpdates: a.updates[req.Height]}
}

func (a *scriptApp) Commit() abci.ResponseCommit {
	a.mtx.Lock()
	defer a.mtx.Unlock()
	a.hash = a.pending
	a.commits++
	return abci.ResponseCommit{ResponseBase: abci.ResponseBase{Data: append([]byte{}, a.hash...)}}
}

func (a *scriptApp) snapshot() (begin, commits int, hash []byte) {
	a.mtx.Lock()
	defer a.mtx.Unlock()
	return a.beginCalls, a.commits, append([]byte{}, a.hash...)
}

func (a *scriptApp) begunHashes() []string {
	a.mtx.Lock()
	defer a.mtx.Unlock()
	return append([]string{}, a.begun...)
}

// ---------------------------------------------------------------------------

// node is one executing node: app + state DB + executor + block store.
type node struct {
	app    *scriptApp
	conns  appconn.AppConns
	db     dbm.DB
	exec   *sm.BlockExecutor
	bstore *store.BlockStore
	state  sm.State
}

func (n *node) stop() { n.conns.Stop() }

// chainSpec is the seeded description of one chain.
type chainSpec struct {
	id            int
	chainID       string
	initialHeight int64
	genesisTime   time.Time
	genVals       []types.GenesisValidator
	updates       map[int64][]abci.ValidatorUpdate
	heights       int
	keys          map[string]ed25519.PrivKeyEd25519 // address string -> key (all keys ever used)
	pool          []ed25519.PrivKeyEd25519
	outsider      []ed25519.PrivKeyEd25519 // keys never in any validator set
}

func keyFromSeed(seed string) ed25519.PrivKeyEd25519 {
	return ed25519.GenPrivKeyFromSecret([]byte(seed))
}

// genSpec builds a chain description: 3..6 initial validators out of a pool of
// 9 keys, powers chosen so that exact-2/3 and just-above-2/3 subsets exist, and
// a validator-update schedule (add / remove / change power) over the heights.
func genSpec(id int, r *rand.Rand, heights int) *chainSpec {
	sp := &chainSpec{id: id, heights: heights, keys: map[string]ed25519.PrivKeyEd25519{}, updates: map[int64][]abci.ValidatorUpdate{}}
	sp.chainID = fmt.Sprintf("c32-chain-%d", id)
	sp.initialHeight = 1
	if id%3 == 2 {
		sp.initialHeight = int64(2 + r.IntN(50)) // hardfork-style chain
	}
	sp.genesisTime = time.Unix(1_700_000_000+int64(id)*1000, int64(r.IntN(1_000_000_000))).UTC()
	for i := 0; i < 9; i++ {
		k := keyFromSeed(fmt.Sprintf("c32/%d/val/%d", id, i))
		sp.pool = append(sp.pool, k)
		sp.keys[k.PubKey().Address().String()] = k
	}
	for i := 0; i < 4; i++ {
		sp.outsider = append(sp.outsider, keyFromSeed(fmt.Sprintf("c32/%d/outsider/%d", id, i)))
	}
	nv := 3 + r.IntN(4)
	powerStyle := id % 4
	cur := map[int]int64{}
	for i := 0; i < nv; i++ {
		var p int64
		switch powerStyle {
		case 0:
			p = 1 // equal minimal powers: 2 of 3 is exactly 2/3
		case 1:
			p = 10
		case 2:
			p = int64(1 + r.IntN(20))
		default:
			p = int64(1+r.IntN(5)) * 1000
			if i == 0 {
				p = 1 // one validator with negligible power
			}
		}
		cur[i] = p
		pk := sp.pool[i].PubKey()
		sp.genVals = append(sp.genVals, types.GenesisValidator{Address: pk.Address(), PubKey: pk, Power: p, Name: fmt.Sprintf("v%d", i)})
	}
	// validator updates returned by EndBlock(h) are in effect from h+2
	for k := 0; k < heights; k++ {
		h := sp.initialHeight + int64(k)
		if r.IntN(100) >= 45 {
			continue
		}
		var ups []abci.ValidatorUpdate
		nup := 1 + r.IntN(2)
		touched := map[int]bool{}
		for u := 0; u < nup; u++ {
			i := r.IntN(len(sp.pool))
			if touched[i] {
				continue
			}
			touched[i] = true
			pk := sp.pool[i].PubKey()
			_, in := cur[i]
			switch {
			case !in: // add
				p := int64(1 + r.IntN(20))
				if powerStyle == 0 {
					p = 1
				}
				cur[i] = p
				ups = append(ups, abci.ValidatorUpdate{Address: pk.Address(), PubKey: pk, Power: p})
			case len(cur) > 2 && r.IntN(2) == 0: // remove
				delete(cur, i)
				ups = append(ups, abci.ValidatorUpdate{Address: pk.Address(), PubKey: pk, Power: 0})
			default: // change power
				p := cur[i] + int64(1+r.IntN(7))
				cur[i] = p
				ups = append(ups, abci.ValidatorUpdate{Address: pk.Address(), PubKey: pk, Power: p})
			}
		}
		if len(ups) > 0 {
			sp.updates[h] = ups
		}
	}
	return sp
}

func (sp *chainSpec) newNode() (*node, error) {
	gen := &types.GenesisDoc{
		ChainID:       sp.chainID,
		GenesisTime:   sp.genesisTime,
		InitialHeight: sp.initialHeight,
		Validators:    append([]types.GenesisValidator{}, sp.genVals...),
	}
	st, err := sm.MakeGenesisState(gen)
	if err != nil {
		return nil, err
	}
	db := memdb.NewMemDB()
	sm.SaveState(db, st)
	app := newScriptApp(sp.updates)
	conns := appconn.NewAppConns(proxy.NewLocalClientCreator(app))
	if err := conns.Start(); err != nil {
		return nil, err
	}
	ex := sm.NewBlockExecutor(db, log.NewNoopLogger(), conns.Consensus(), mock.Mempool{})
	return &node{app: app, conns: conns, db: db, exec: ex, bstore: store.NewBlockStore(memdb.NewMemDB()), state: st}, nil
}

// ---------------------------------------------------------------------------
// commits

type voteChoice int

const (
	vcBlock  voteChoice = iota // precommit for the block
	vcAbsent                   // nil entry
	vcNil                      // real precommit for the nil block (stray)
	vcOther                    // real precommit for a different block id (stray)
)

func otherBlockID(id types.BlockID) types.BlockID {
	h := sha256.Sum256(append([]byte("other"), id.Hash...))
	p := sha256.Sum256(append([]byte("otherparts"), id.PartsHeader.Hash...))
	return types.BlockID{Hash: h[:], PartsHeader: types.PartSetHeader{Total: id.PartsHeader.Total + 1, Hash: p[:]}}
}

// signPrecommit builds a precommit signed with key (the key need not belong to the validator).
func signPrecommit(chainID string, key ed25519.PrivKeyEd25519, typ types.SignedMsgType, height int64, round int, id types.BlockID, ts time.Time, addr crypto.Address, idx int) *types.CommitSig {
	v := &types.Vote{Type: typ, Height: height, Round: round, BlockID: id, Timestamp: ts, ValidatorAddress: addr, ValidatorIndex: idx}
	sig, err := key.Sign(v.SignBytes(chainID))
	if err != nil {
		panic(err)
	}
	v.Signature = sig
	return v.CommitSig()
}

// makeCommit builds a commit for (height, round, id) by the validator set vals.
func (sp *chainSpec) makeCommit(height int64, round int, id types.BlockID, vals *types.ValidatorSet, choices []voteChoice, times []time.Time) *types.Commit {
	pcs := make([]*types.CommitSig, vals.Size())
	for i, val := range vals.Validators {
		ch := vcBlock
		if choices != nil {
			ch = choices[i]
		}
		key, ok := sp.keys[val.Address.String()]
		if !ok {
			panic("no key for validator " + val.Address.String())
		}
		switch ch {
		case vcAbsent:
			pcs[i] = nil
		case vcBlock:
			pcs[i] = signPrecommit(sp.chainID, key, types.PrecommitType, height, round, id, times[i], val.Address, i)
		case vcNil:
			pcs[i] = signPrecommit(sp.chainID, key, types.PrecommitType, height, round, types.BlockID{}, times[i], val.Address, i)
		case vcOther:
			pcs[i] = signPrecommit(sp.chainID, key, types.PrecommitType, height, round, otherBlockID(id), times[i], val.Address, i)
		}
	}
	return types.NewCommit(id, pcs)
}

// voteTimes returns per-validator precommit timestamps strictly after base.
func voteTimes(r *rand.Rand, base time.Time, n int) []time.Time {
	out := make([]time.Time, n)
	for i := range out {
		out[i] = base.Add(time.Second + time.Duration(r.IntN(2_000_000))*time.Microsecond)
	}
	return out
}

// power arithmetic of the oracle (independent of the code under test)
func totalPower(vals *types.ValidatorSet) int64 {
	var t int64
	for _, v := range vals.Validators {
		t += v.VotingPower
	}
	return t
}

// moreThanTwoThirds reports 3*p > 2*total.
func moreThanTwoThirds(p, total int64) bool { return 3*p > 2*total }

func blockPower(vals *types.ValidatorSet, choices []voteChoice) int64 {
	var p int64
	for i, v := range vals.Validators {
		if choices[i] == vcBlock {
			p += v.VotingPower
		}
	}
	return p
}

// refMedian is the oracle's weighted median of the precommit timestamps: the
// weights are the voting powers of the validators AT THE POSITION of each
// precommit in the commit (which is the validator whose key VerifyCommit checks
// the signature against). Definition (BFT time, tm2/pkg/bft/types/time): sort by
// time; the median is the first time whose cumulative weight reaches
// floor(total/2), total = sum of the weights of the present precommits.
func refMedian(commit *types.Commit, vals *types.ValidatorSet) time.Time {
	type wt struct {
		t time.Time
		w int64
	}
	var ws []wt
	var total int64
	for i, pc := range commit.Precommits {
		if pc == nil || i >= len(vals.Validators) {
			continue
		}
		ws = append(ws, wt{pc.Timestamp, vals.Validators[i].VotingPower})
		total += vals.Validators[i].VotingPower
	}
	sort.SliceStable(ws, func(i, j int) bool { return ws[i].t.Before(ws[j].t) })
	need := total / 2
	var cum int64
	for _, e := range ws {
		cum += e.w
		if cum >= need {
			return e.t
		}
	}
	return time.Time{}
}

// ---------------------------------------------------------------------------

// cloneBlock deep-copies a block through its amino encoding (drops all memoized hashes).
func cloneBlock(b *types.Block) *types.Block {
	bz := amino.MustMarshal(b)
	var nb types.Block
	if err := amino.Unmarshal(bz, &nb); err != nil {
		panic(fmt.Sprintf("clone: %v", err))
	}
	return &nb
}

func cloneCommit(cm *types.Commit) *types.Commit {
	bz := amino.MustMarshal(cm)
	var nc types.Commit
	if err := amino.Unmarshal(bz, &nc); err != nil {
		panic(fmt.Sprintf("clone commit: %v", err))
	}
	return &nc
}

func blockIDOf(b *types.Block) types.BlockID {
	ps := b.MakePartSet(types.BlockPartSizeBytes)
	return types.BlockID{Hash: b.Hash(), PartsHeader: ps.Header()}
}

func makeTxs(r *rand.Rand, height int64) []types.Tx {
	n := r.IntN(5)
	if r.IntN(6) == 0 {
		n = 0
	}
	txs := make([]types.Tx, 0, n)
	for i := 0; i < n; i++ {
		tx := make([]byte, 4+r.IntN(40))
		for j := range tx {
			tx[j] = byte(r.UintN(256))
		}
		binary.BigEndian.PutUint32(tx, uint32(height)<<8|uint32(i))
		txs = append(txs, tx)
	}
	return txs
}

// stateView captures the fields of a State the oracle compares.
func stateDigest(s sm.State) string {
	return fmt.Sprintf("h=%d id=%v tx=%d t=%d app=%X res=%X v=%X nv=%X lv=%X", s.LastBlockHeight, s.LastBlockID, s.LastBlockTotalTx, s.LastBlockTime.UnixNano(),
		s.AppHash, s.LastResultsHash, s.Validators.Hash(), s.NextValidators.Hash(), s.LastValidators.Hash())
}

func sameValSet(a, b *types.ValidatorSet) bool {
	if a.Size() != b.Size() {
		return false
	}
	for i := range a.Validators {
		x, y := a.Validators[i], b.Validators[i]
		if x.Address != y.Address || x.VotingPower != y.VotingPower || !bytes.Equal(x.PubKey.Bytes(), y.PubKey.Bytes()) {
			return false
		}
	}
	return true
}
