package c32

import (
	"fmt"
	"math/rand/v2"
	"time"

	sm "github.com/gnolang/gno/tm2/pkg/bft/state"
	"github.com/gnolang/gno/tm2/pkg/bft/types"
	"github.com/gnolang/gno/tm2/pkg/crypto"
	"github.com/gnolang/gno/tm2/pkg/crypto/ed25519"

	"verifharness/internal/vf"
)

// step is one height of a chain: the pre-state, the valid next block and how
// its LastCommit was produced.
type step struct {
	c     *vf.Ctx
	sp    *chainSpec
	n     *node
	pre   sm.State
	block *types.Block
	id    types.BlockID
	r     *rand.Rand

	prevLastCommit *types.Commit // LastCommit of the previous block (a valid commit for height-2), may be nil
}

func (st *step) genesis() bool { return st.block.Height == st.pre.InitialHeight }

func flip(b []byte, i int) []byte {
	out := append([]byte{}, b...)
	if len(out) == 0 {
		return []byte{1}
	}
	out[i%len(out)] ^= 1 << (uint(i) % 8)
	return out
}

func randHash(r *rand.Rand) []byte {
	h := make([]byte, 32)
	for i := range h {
		h[i] = byte(r.UintN(256))
	}
	return h
}

// mutation edits a fresh deep copy of the valid block; returns false when not applicable at this height.
type mutation struct {
	name string
	fn   func(st *step, b *types.Block) bool
}

func fixCommitHash(b *types.Block) { b.LastCommitHash = b.LastCommit.Hash() }

// fixCommitAndTime makes everything that depends on the (replaced) LastCommit
// consistent again, the way an adversarial proposer would: commit hash in the
// header and the block time = weighted median of the new commit.
func (st *step) fixCommitAndTime(b *types.Block) {
	fixCommitHash(b)
	b.Time = refMedian(b.LastCommit, st.pre.LastValidators)
}

func (st *step) keyOf(addr crypto.Address) ed25519.PrivKeyEd25519 {
	return st.sp.keys[addr.String()]
}

// resign re-signs every non-nil precommit of the block's LastCommit with the
// real key of the validator at that position, after edit changed the vote.
func (st *step) resign(b *types.Block, edit func(i int, pc *types.CommitSig)) {
	vals := st.pre.LastValidators
	for i, pc := range b.LastCommit.Precommits {
		if pc == nil {
			continue
		}
		edit(i, pc)
		v := types.Vote(*pc)
		v.Signature = nil
		sig, err := st.keyOf(vals.Validators[i].Address).Sign(v.SignBytes(st.sp.chainID))
		if err != nil {
			panic(err)
		}
		pc.Signature = sig
	}
}

func firstSigner(b *types.Block) int {
	for i, pc := range b.LastCommit.Precommits {
		if pc != nil {
			return i
		}
	}
	return -1
}

func headerMutations() []mutation {
	return []mutation{
		{"height+1", func(st *step, b *types.Block) bool { b.Height++; return true }},
		{"height-1", func(st *step, b *types.Block) bool { b.Height--; return true }},
		{"height=0", func(st *step, b *types.Block) bool { b.Height = 0; return true }},
		{"height-negative", func(st *step, b *types.Block) bool { b.Height = -b.Height; return true }},
		{"height+2", func(st *step, b *types.Block) bool { b.Height += 2; return true }},
		{"chainid-append", func(st *step, b *types.Block) bool { b.ChainID += "x"; return true }},
		{"chainid-other", func(st *step, b *types.Block) bool { b.ChainID = "c32-other-chain"; return true }},
		{"chainid-empty", func(st *step, b *types.Block) bool { b.ChainID = ""; return true }},
		{"chainid-case", func(st *step, b *types.Block) bool { b.ChainID = "C" + b.ChainID[1:]; return true }},
		{"version", func(st *step, b *types.Block) bool { b.Version += ".1"; return true }},
		{"version-empty", func(st *step, b *types.Block) bool { b.Version = ""; return b.Version != st.pre.BlockVersion }},
		{"appversion", func(st *step, b *types.Block) bool { b.AppVersion += "v2"; return true }},
		{"lastblockid-hash", func(st *step, b *types.Block) bool {
			if st.genesis() {
				b.LastBlockID.Hash = randHash(st.r)
			} else {
				b.LastBlockID.Hash = flip(b.LastBlockID.Hash, st.r.IntN(256))
			}
			return true
		}},
		{"lastblockid-parts-total", func(st *step, b *types.Block) bool { b.LastBlockID.PartsHeader.Total++; return true }},
		{"lastblockid-parts-hash", func(st *step, b *types.Block) bool {
			if st.genesis() {
				b.LastBlockID.PartsHeader.Hash = randHash(st.r)
			} else {
				b.LastBlockID.PartsHeader.Hash = flip(b.LastBlockID.PartsHeader.Hash, st.r.IntN(256))
			}
			return true
		}},
		{"lastblockid-zero", func(st *step, b *types.Block) bool {
			if st.genesis() {
				return false
			}
			b.LastBlockID = types.BlockID{}
			return true
		}},
		{"lastblockid-own-lastcommit-id", func(st *step, b *types.Block) bool {
			// previous-previous block id (a real, but stale, block id)
			if st.prevLastCommit == nil || st.prevLastCommit.BlockID.IsZero() {
				return false
			}
			b.LastBlockID = st.prevLastCommit.BlockID
			return true
		}},
		{"apphash-flip", func(st *step, b *types.Block) bool {
			if len(b.AppHash) == 0 {
				b.AppHash = randHash(st.r)
			} else {
				b.AppHash = flip(b.AppHash, st.r.IntN(256))
			}
			return true
		}},
		{"apphash-append", func(st *step, b *types.Block) bool {
			b.AppHash = append(append([]byte{}, b.AppHash...), 0)
			return true
		}},
		{"apphash-empty", func(st *step, b *types.Block) bool {
			if len(b.AppHash) == 0 {
				return false
			}
			b.AppHash = nil
			return true
		}},
		{"resultshash-flip", func(st *step, b *types.Block) bool {
			if len(b.LastResultsHash) == 0 {
				b.LastResultsHash = randHash(st.r)
			} else {
				b.LastResultsHash = flip(b.LastResultsHash, st.r.IntN(256))
			}
			return true
		}},
		{"resultshash-clear", func(st *step, b *types.Block) bool {
			if len(b.LastResultsHash) == 0 {
				return false
			}
			b.LastResultsHash = nil
			return true
		}},
		{"valhash-flip", func(st *step, b *types.Block) bool {
			b.ValidatorsHash = flip(b.ValidatorsHash, st.r.IntN(256))
			return true
		}},
		{"valhash-next", func(st *step, b *types.Block) bool {
			if string(st.pre.NextValidators.Hash()) == string(st.pre.Validators.Hash()) {
				return false
			}
			b.ValidatorsHash = st.pre.NextValidators.Hash()
			return true
		}},
		{"valhash-last", func(st *step, b *types.Block) bool {
			if st.pre.LastValidators.Size() == 0 || string(st.pre.LastValidators.Hash()) == string(st.pre.Validators.Hash()) {
				return false
			}
			b.ValidatorsHash = st.pre.LastValidators.Hash()
			return true
		}},
		{"nextvalhash-flip", func(st *step, b *types.Block) bool {
			b.NextValidatorsHash = flip(b.NextValidatorsHash, st.r.IntN(256))
			return true
		}},
		{"nextvalhash-cur", func(st *step, b *types.Block) bool {
			if string(st.pre.NextValidators.Hash()) == string(st.pre.Validators.Hash()) {
				return false
			}
			b.NextValidatorsHash = st.pre.Validators.Hash()
			return true
		}},
		{"consensushash-flip", func(st *step, b *types.Block) bool {
			b.ConsensusHash = flip(b.ConsensusHash, st.r.IntN(256))
			return true
		}},
		{"consensushash-clear", func(st *step, b *types.Block) bool { b.ConsensusHash = nil; return true }},
		{"time-1ns", func(st *step, b *types.Block) bool { b.Time = b.Time.Add(-1); return true }},
		{"time+1ns", func(st *step, b *types.Block) bool { b.Time = b.Time.Add(1); return true }},
		{"time+1h", func(st *step, b *types.Block) bool { b.Time = b.Time.Add(time.Hour); return true }},
		{"time=last", func(st *step, b *types.Block) bool {
			if st.genesis() {
				return false
			}
			b.Time = st.pre.LastBlockTime
			return true
		}},
		{"time<last", func(st *step, b *types.Block) bool {
			b.Time = st.pre.LastBlockTime.Add(-time.Duration(1 + st.r.IntN(1_000_000)))
			return true
		}},
		{"time-zero", func(st *step, b *types.Block) bool { b.Time = time.Time{}; return true }},
		{"proposer-random", func(st *step, b *types.Block) bool {
			b.ProposerAddress = st.sp.outsider[0].PubKey().Address()
			return true
		}},
		{"proposer-zero", func(st *step, b *types.Block) bool { b.ProposerAddress = crypto.Address{}; return true }},
		{"proposer-flip", func(st *step, b *types.Block) bool {
			a := b.ProposerAddress
			a[st.r.IntN(len(a))] ^= 0x10
			if st.pre.Validators.HasAddress(a) { // astronomically unlikely
				return false
			}
			b.ProposerAddress = a
			return true
		}},
		{"proposer-not-current", func(st *step, b *types.Block) bool {
			// a validator of the previous or of the next set that is NOT in the current set
			for _, set := range []*types.ValidatorSet{st.pre.LastValidators, st.pre.NextValidators} {
				for _, v := range set.Validators {
					if !inSet(st.pre.Validators, v.Address) {
						b.ProposerAddress = v.Address
						return true
					}
				}
			}
			return false
		}},
		{"totaltxs+1", func(st *step, b *types.Block) bool { b.TotalTxs++; return true }},
		{"totaltxs-1", func(st *step, b *types.Block) bool { b.TotalTxs--; return true }},
		{"numtxs+1", func(st *step, b *types.Block) bool { b.NumTxs++; return true }},
		{"numtxs-1", func(st *step, b *types.Block) bool { b.NumTxs--; return true }},
		{"numtxs+1-totaltxs+1", func(st *step, b *types.Block) bool { b.NumTxs++; b.TotalTxs++; return true }},
		{"datahash-flip", func(st *step, b *types.Block) bool { b.DataHash = flip(b.DataHash, st.r.IntN(256)); return true }},
		{"datahash-clear", func(st *step, b *types.Block) bool {
			if len(b.Txs) == 0 {
				return false // the hash of no txs is empty: nothing to clear
			}
			b.DataHash = nil
			return true
		}},
		{"txs-add", func(st *step, b *types.Block) bool { b.Txs = append(b.Txs, types.Tx("extra")); return true }},
		{"txs-add-fixcounts", func(st *step, b *types.Block) bool {
			b.Txs = append(b.Txs, types.Tx("extra"))
			b.NumTxs++
			b.TotalTxs++
			return true // DataHash stale
		}},
		{"txs-add-fixhash-num", func(st *step, b *types.Block) bool {
			b.Txs = append(b.Txs, types.Tx("extra"))
			b.NumTxs++
			b.DataHash = b.Data.Hash()
			return true // TotalTxs stale
		}},
		{"txs-drop", func(st *step, b *types.Block) bool {
			if len(b.Txs) == 0 {
				return false
			}
			b.Txs = b.Txs[:len(b.Txs)-1]
			return true
		}},
		{"txs-drop-fixhash-num", func(st *step, b *types.Block) bool {
			if len(b.Txs) == 0 {
				return false
			}
			b.Txs = b.Txs[:len(b.Txs)-1]
			b.NumTxs--
			b.DataHash = b.Data.Hash()
			return true // TotalTxs stale
		}},
		{"tx-flip", func(st *step, b *types.Block) bool {
			if len(b.Txs) == 0 {
				return false
			}
			i := st.r.IntN(len(b.Txs))
			b.Txs[i] = flip(b.Txs[i], st.r.IntN(256))
			return true
		}},
		{"txs-swap", func(st *step, b *types.Block) bool {
			if len(b.Txs) < 2 || string(b.Txs[0]) == string(b.Txs[1]) {
				return false
			}
			b.Txs[0], b.Txs[1] = b.Txs[1], b.Txs[0]
			return true
		}},
		{"lastcommithash-flip", func(st *step, b *types.Block) bool {
			if len(b.LastCommitHash) == 0 {
				b.LastCommitHash = randHash(st.r)
			} else {
				b.LastCommitHash = flip(b.LastCommitHash, st.r.IntN(256))
			}
			return true
		}},
		{"lastcommit-nil", func(st *step, b *types.Block) bool { b.LastCommit = nil; return true }},
	}
}

func inSet(vs *types.ValidatorSet, a crypto.Address) bool {
	for _, v := range vs.Validators {
		if v.Address == a {
			return true
		}
	}
	return false
}

// commitMutations edit block.LastCommit (non-genesis heights unless stated).
// Unless the name ends in "/raw" the header's LastCommitHash is recomputed, so
// that the commit rules themselves (not the hash comparison) must reject.
func commitMutations() []mutation {
	ng := func(f func(st *step, b *types.Block) bool) func(st *step, b *types.Block) bool {
		return func(st *step, b *types.Block) bool {
			if st.genesis() {
				return false
			}
			return f(st, b)
		}
	}
	ms := []mutation{
		{"commit-height+1-unsigned", ng(func(st *step, b *types.Block) bool {
			for _, pc := range b.LastCommit.Precommits {
				if pc != nil {
					pc.Height++
				}
			}
			return true
		})},
		{"commit-height+1-resigned", ng(func(st *step, b *types.Block) bool {
			st.resign(b, func(i int, pc *types.CommitSig) { pc.Height++ })
			return true
		})},
		{"commit-height-1-resigned", ng(func(st *step, b *types.Block) bool {
			st.resign(b, func(i int, pc *types.CommitSig) { pc.Height-- })
			return true
		})},
		{"commit-height-one-precommit", ng(func(st *step, b *types.Block) bool {
			n := 0
			for _, pc := range b.LastCommit.Precommits {
				if pc != nil {
					n++
				}
			}
			if n < 2 {
				return false
			}
			// change the LAST signer (the first one defines commit.Height())
			for i := len(b.LastCommit.Precommits) - 1; i >= 0; i-- {
				if pc := b.LastCommit.Precommits[i]; pc != nil {
					pc.Height++
					return true
				}
			}
			return false
		})},
		{"commit-height-first-precommit-resigned", ng(func(st *step, b *types.Block) bool {
			i := firstSigner(b)
			if i < 0 {
				return false
			}
			j := 0
			st.resign(b, func(k int, pc *types.CommitSig) {
				if k == i {
					pc.Height++
				}
				j++
			})
			return true
		})},
		{"commit-round-one-precommit", ng(func(st *step, b *types.Block) bool {
			n := 0
			for _, pc := range b.LastCommit.Precommits {
				if pc != nil {
					n++
				}
			}
			if n < 2 {
				return false
			}
			for i := len(b.LastCommit.Precommits) - 1; i >= 0; i-- {
				if pc := b.LastCommit.Precommits[i]; pc != nil {
					pc.Round++
					return true
				}
			}
			return false
		})},
		{"commit-round+1-unsigned", ng(func(st *step, b *types.Block) bool {
			for _, pc := range b.LastCommit.Precommits {
				if pc != nil {
					pc.Round++
				}
			}
			return true
		})},
		{"commit-round-one-precommit-resigned", ng(func(st *step, b *types.Block) bool {
			n := 0
			for _, pc := range b.LastCommit.Precommits {
				if pc != nil {
					n++
				}
			}
			if n < 2 {
				return false
			}
			last := -1
			for i, pc := range b.LastCommit.Precommits {
				if pc != nil {
					last = i
				}
			}
			st.resign(b, func(k int, pc *types.CommitSig) {
				if k == last {
					pc.Round += 3
				}
			})
			return true
		})},
		{"commit-type-one-prevote", ng(func(st *step, b *types.Block) bool {
			i := firstSigner(b)
			b.LastCommit.Precommits[i].Type = types.PrevoteType
			return true
		})},
		{"commit-type-all-prevote-resigned", ng(func(st *step, b *types.Block) bool {
			st.resign(b, func(i int, pc *types.CommitSig) { pc.Type = types.PrevoteType })
			return true
		})},
		{"commit-type-all-proposal-resigned", ng(func(st *step, b *types.Block) bool {
			st.resign(b, func(i int, pc *types.CommitSig) { pc.Type = types.ProposalType })
			return true
		})},
		{"commit-all-nil", ng(func(st *step, b *types.Block) bool {
			for i := range b.LastCommit.Precommits {
				b.LastCommit.Precommits[i] = nil
			}
			return true
		})},
		{"commit-size+1-nil", ng(func(st *step, b *types.Block) bool {
			b.LastCommit.Precommits = append(b.LastCommit.Precommits, nil)
			return true
		})},
		{"commit-size+1-dup", ng(func(st *step, b *types.Block) bool {
			i := firstSigner(b)
			cp := *b.LastCommit.Precommits[i]
			b.LastCommit.Precommits = append(b.LastCommit.Precommits, &cp)
			return true
		})},
		{"commit-size-1", ng(func(st *step, b *types.Block) bool {
			b.LastCommit.Precommits = b.LastCommit.Precommits[:len(b.LastCommit.Precommits)-1]
			return true
		})},
		{"commit-blockid-hash", ng(func(st *step, b *types.Block) bool {
			b.LastCommit.BlockID.Hash = flip(b.LastCommit.BlockID.Hash, st.r.IntN(256))
			return true
		})},
		{"commit-blockid-parts-total", ng(func(st *step, b *types.Block) bool { b.LastCommit.BlockID.PartsHeader.Total++; return true })},
		{"commit-blockid-parts-hash", ng(func(st *step, b *types.Block) bool {
			b.LastCommit.BlockID.PartsHeader.Hash = flip(b.LastCommit.BlockID.PartsHeader.Hash, st.r.IntN(256))
			return true
		})},
		{"commit-blockid-zero", ng(func(st *step, b *types.Block) bool { b.LastCommit.BlockID = types.BlockID{}; return true })},
		{"commit-other-block-resigned", ng(func(st *step, b *types.Block) bool {
			// a perfectly signed commit, but for a different block id (also in Commit.BlockID)
			o := otherBlockID(st.pre.LastBlockID)
			b.LastCommit.BlockID = o
			st.resign(b, func(i int, pc *types.CommitSig) { pc.BlockID = o })
			return true
		})},
		{"commit-other-block-and-lastblockid", ng(func(st *step, b *types.Block) bool {
			// the header's LastBlockID follows the forged commit too
			o := otherBlockID(st.pre.LastBlockID)
			b.LastCommit.BlockID = o
			b.LastBlockID = o
			st.resign(b, func(i int, pc *types.CommitSig) { pc.BlockID = o })
			return true
		})},
		{"commit-precommits-for-other-block", ng(func(st *step, b *types.Block) bool {
			// Commit.BlockID is right, every (really signed) precommit is for another block: tally 0
			o := otherBlockID(st.pre.LastBlockID)
			st.resign(b, func(i int, pc *types.CommitSig) { pc.BlockID = o })
			return true
		})},
		{"commit-precommits-for-nil-block", ng(func(st *step, b *types.Block) bool {
			st.resign(b, func(i int, pc *types.CommitSig) { pc.BlockID = types.BlockID{} })
			return true
		})},
		{"precommit-blockid-unsigned", ng(func(st *step, b *types.Block) bool {
			i := firstSigner(b)
			b.LastCommit.Precommits[i].BlockID.Hash = flip(b.LastCommit.Precommits[i].BlockID.Hash, st.r.IntN(256))
			return true
		})},
		{"precommit-timestamp-unsigned", ng(func(st *step, b *types.Block) bool {
			i := firstSigner(b)
			b.LastCommit.Precommits[i].Timestamp = b.LastCommit.Precommits[i].Timestamp.Add(1)
			return true
		})},
		{"commit-empty-nongenesis", ng(func(st *step, b *types.Block) bool {
			b.LastCommit = types.NewCommit(types.BlockID{}, nil)
			return true
		})},
		{"commit-zero-precommits", ng(func(st *step, b *types.Block) bool {
			b.LastCommit.Precommits = nil
			return true
		})},
		{"commit-of-previous-height", ng(func(st *step, b *types.Block) bool {
			if st.prevLastCommit == nil || len(st.prevLastCommit.Precommits) == 0 {
				return false
			}
			b.LastCommit = cloneCommit(st.prevLastCommit)
			return true
		})},
		{"commit-wrong-set-outsiders", ng(func(st *step, b *types.Block) bool {
			for i, pc := range b.LastCommit.Precommits {
				if pc == nil {
					continue
				}
				k := st.sp.outsider[i%len(st.sp.outsider)]
				b.LastCommit.Precommits[i] = signPrecommit(st.sp.chainID, k, types.PrecommitType, pc.Height, pc.Round, pc.BlockID, pc.Timestamp, k.PubKey().Address(), i)
			}
			return true
		})},
		{"commit-wrong-set-outsiders-keep-address", ng(func(st *step, b *types.Block) bool {
			for i, pc := range b.LastCommit.Precommits {
				if pc == nil {
					continue
				}
				k := st.sp.outsider[i%len(st.sp.outsider)]
				b.LastCommit.Precommits[i] = signPrecommit(st.sp.chainID, k, types.PrecommitType, pc.Height, pc.Round, pc.BlockID, pc.Timestamp, pc.ValidatorAddress, i)
			}
			return true
		})},
		{"commit-wrong-set-rotated-keys", ng(func(st *step, b *types.Block) bool {
			vals := st.pre.LastValidators
			if vals.Size() < 2 {
				return false
			}
			for i, pc := range b.LastCommit.Precommits {
				if pc == nil {
					continue
				}
				k := st.keyOf(vals.Validators[(i+1)%vals.Size()].Address)
				b.LastCommit.Precommits[i] = signPrecommit(st.sp.chainID, k, types.PrecommitType, pc.Height, pc.Round, pc.BlockID, pc.Timestamp, pc.ValidatorAddress, i)
			}
			return true
		})},
		{"commit-wrong-set-next-validators", ng(func(st *step, b *types.Block) bool {
			// signed by the validators of a LATER set (only when that set differs in membership and has the same size)
			later := st.pre.NextValidators
			if later.Size() != st.pre.LastValidators.Size() || sameValSet(later, st.pre.LastValidators) {
				return false
			}
			differs := false
			for i, pc := range b.LastCommit.Precommits {
				if pc == nil {
					continue
				}
				v := later.Validators[i]
				if v.Address != st.pre.LastValidators.Validators[i].Address {
					differs = true
				}
				b.LastCommit.Precommits[i] = signPrecommit(st.sp.chainID, st.keyOf(v.Address), types.PrecommitType, pc.Height, pc.Round, pc.BlockID, pc.Timestamp, v.Address, i)
			}
			return differs
		})},
		{"commit-wrong-chainid-resigned", ng(func(st *step, b *types.Block) bool {
			vals := st.pre.LastValidators
			for i, pc := range b.LastCommit.Precommits {
				if pc == nil {
					continue
				}
				v := types.Vote(*pc)
				sig, _ := st.keyOf(vals.Validators[i].Address).Sign(v.SignBytes(st.sp.chainID + "-fork"))
				pc.Signature = sig
			}
			return true
		})},
		{"time-nonmonotonic-median", ng(func(st *step, b *types.Block) bool {
			// a fully signed commit whose timestamps are all <= the last block time; block time = its median
			st.resign(b, func(i int, pc *types.CommitSig) {
				pc.Timestamp = st.pre.LastBlockTime.Add(-time.Duration(st.r.IntN(5_000_000)) * time.Microsecond)
			})
			b.Time = refMedian(b.LastCommit, st.pre.LastValidators)
			return true
		})},
		{"time-equal-last-median", ng(func(st *step, b *types.Block) bool {
			st.resign(b, func(i int, pc *types.CommitSig) { pc.Timestamp = st.pre.LastBlockTime })
			b.Time = st.pre.LastBlockTime
			return true
		})},
		{"commit-nonempty-at-genesis", func(st *step, b *types.Block) bool {
			if !st.genesis() {
				return false
			}
			id := types.BlockID{Hash: randHash(st.r), PartsHeader: types.PartSetHeader{Total: 1, Hash: randHash(st.r)}}
			ts := voteTimes(st.r, st.pre.LastBlockTime, st.pre.Validators.Size())
			b.LastCommit = st.sp.makeCommit(b.Height-1, 0, id, st.pre.Validators, nil, ts)
			return true
		}},
		{"commit-nonempty-at-genesis-with-lastblockid", func(st *step, b *types.Block) bool {
			if !st.genesis() || b.Height < 2 {
				return false
			}
			id := types.BlockID{Hash: randHash(st.r), PartsHeader: types.PartSetHeader{Total: 1, Hash: randHash(st.r)}}
			ts := voteTimes(st.r, st.pre.LastBlockTime, st.pre.Validators.Size())
			b.LastCommit = st.sp.makeCommit(b.Height-1, 0, id, st.pre.Validators, nil, ts)
			b.LastBlockID = id
			return true
		}},
	}
	return ms
}

// evalReject validates a mutated block: it must be rejected without panicking,
// and ApplyBlock on it must fail without touching the app or advancing the state.
func (st *step) evalReject(name string, b *types.Block) {
	c := st.c
	key := fmt.Sprintf("chain%d/h%d/%s", st.sp.id, st.block.Height, name)
	c.Case(key, true)
	c.Count("mutations", 1)
	w := map[string]any{"chain": st.sp.id, "chain_id": st.sp.chainID, "height": st.block.Height, "initial_height": st.pre.InitialHeight, "mutation": name, "seed": c.Seed,
		"validators": st.pre.Validators.Size(), "last_validators": st.pre.LastValidators.Size()}
	var err, bErr error
	if pv, site := try(func() { bErr = b.ValidateBasic() }); pv != nil {
		c.Violation("panic@"+site, w, "Block.ValidateBasic panicked in %s on mutation %s: %v", site, name, pv)
		return
	}
	if pv, site := try(func() { err = st.pre.ValidateBlock(b) }); pv != nil {
		c.Violation("panic@"+site, w, "State.ValidateBlock panicked in %s on mutation %s at height %d: %v", site, name, st.block.Height, pv)
		return
	}
	if err == nil {
		c.Violation("accepted:"+name, w, "State.ValidateBlock accepted a block with mutation %s at height %d (chain %d)", name, st.block.Height, st.sp.id)
		return
	}
	if bErr != nil {
		c.Count("rejected_by_ValidateBasic", 1)
	} else {
		c.Count("rejected_by_ValidateBlock_only", 1)
	}
	c.Count("rejected:"+name, 1)
	// ApplyBlock must refuse as well and leave app and state alone
	b2 := cloneBlock(b)
	bc0, cm0, _ := st.n.app.snapshot()
	before := stateDigest(st.pre)
	var ns sm.State
	var aerr error
	// NOTE: no Hash() call on the copy before ApplyBlock: Block.Hash() fills a nil DataHash/LastCommitHash in (fillHeader)
	bid := st.id
	if pv, site := try(func() { ns, aerr = st.n.exec.ApplyBlock(st.pre, bid, b2) }); pv != nil {
		c.Violation("panic@"+site, w, "ApplyBlock panicked in %s on mutation %s: %v", site, name, pv)
		return
	}
	bc1, cm1, _ := st.n.app.snapshot()
	if aerr == nil || bc1 != bc0 || cm1 != cm0 || stateDigest(ns) != before {
		c.Violation("applied:"+name, w, "ApplyBlock(err=%v) executed or advanced on an invalid block (mutation %s): BeginBlock calls %d->%d, commits %d->%d", aerr, name, bc0, bc1, cm0, cm1)
		return
	}
	c.Count("apply_refused", 1)
}

// runRuleTable applies every applicable single-field mutation to the valid block.
func (st *step) runRuleTable() {
	for _, group := range [][]mutation{headerMutations(), commitMutations()} {
		for _, m := range group {
			b := cloneBlock(st.block)
			if !m.fn(st, b) {
				st.c.Count("mutation_not_applicable", 1)
				continue
			}
			st.evalReject(m.name, b)
		}
	}
	// commit mutations: raw (stale LastCommitHash) and fixed-up variants
	for _, m := range commitMutations() {
		b := cloneBlock(st.block)
		if !m.fn(st, b) {
			continue
		}
		if b.LastCommit != nil {
			fixCommitHash(b)
		}
		st.evalReject(m.name+"/fixhash", b)
	}
	if !st.genesis() {
		st.perSigner()
		st.subsets()
		st.unsignedFields()
	}
}

// perSigner: signature corruptions and duplicated validators for every signer position.
func (st *step) perSigner() {
	vals := st.pre.LastValidators
	total := totalPower(vals)
	for i, pc0 := range st.block.LastCommit.Precommits {
		if pc0 == nil {
			continue
		}
		for _, kind := range []string{"sig-bitflip", "sig-truncate", "sig-empty", "sig-other-validator", "precommit-parts-total-negative", "precommit-parts-total-huge"} {
			b := cloneBlock(st.block)
			pc := b.LastCommit.Precommits[i]
			switch kind {
			case "sig-bitflip":
				pc.Signature = flip(pc.Signature, st.r.IntN(512))
			case "sig-truncate":
				pc.Signature = pc.Signature[:len(pc.Signature)-1]
			case "sig-empty":
				pc.Signature = nil
			case "precommit-parts-total-negative":
				// the precommit's own block id (stray votes may name any block) with an out-of-range parts total
				pc.BlockID.PartsHeader.Total = -1
			case "precommit-parts-total-huge":
				pc.BlockID.PartsHeader.Total = 1 << 40
			case "sig-other-validator":
				// the (valid) signature of another validator over the same vote content
				j := (i + 1) % vals.Size()
				if j == i {
					continue
				}
				v := types.Vote(*pc)
				sig, _ := st.keyOf(vals.Validators[j].Address).Sign(v.SignBytes(st.sp.chainID))
				pc.Signature = sig
			}
			fixCommitHash(b)
			// is the rest still a +2/3 commit? (reported in the key: a corrupt signature that is
			// not needed for the quorum is rejected by VerifyCommit too, it verifies every entry)
			var rest int64
			for k, p := range b.LastCommit.Precommits {
				if p != nil && k != i && p.BlockID.Equals(st.pre.LastBlockID) {
					rest += vals.Validators[k].VotingPower
				}
			}
			name := "commit-" + kind
			if moreThanTwoThirds(rest, total) {
				name += "-superfluous"
			} else {
				name += "-needed"
			}
			st.evalReject(name, b)
		}
		// duplicated validator: another position carries a copy of signer i's precommit
		for j := range st.block.LastCommit.Precommits {
			if j == i {
				continue
			}
			b := cloneBlock(st.block)
			cp := *b.LastCommit.Precommits[i]
			b.LastCommit.Precommits[j] = &cp
			fixCommitHash(b)
			st.evalReject("commit-duplicate-validator", b)
			b = cloneBlock(st.block)
			cp = *b.LastCommit.Precommits[i]
			cp.ValidatorIndex = j
			b.LastCommit.Precommits[j] = &cp
			fixCommitHash(b)
			st.evalReject("commit-duplicate-validator-reindexed", b)
		}
	}
}

// subsets: every assignment of {for-block, absent} to the previous validators
// (all 2^n for n <= 6) plus sampled assignments that also contain really signed
// stray precommits (nil block / other block). The oracle sums the voting power of
// the for-block signers: accepted iff 3*power > 2*total.
func (st *step) subsets() {
	c := st.c
	vals := st.pre.LastValidators
	n := vals.Size()
	total := totalPower(vals)
	h := st.block.Height - 1
	ts := voteTimes(st.r, st.pre.LastBlockTime, n)
	// pre-sign the three kinds once per validator
	pre := make([][4]*types.CommitSig, n)
	for i, v := range vals.Validators {
		k := st.keyOf(v.Address)
		pre[i][vcBlock] = signPrecommit(st.sp.chainID, k, types.PrecommitType, h, 0, st.pre.LastBlockID, ts[i], v.Address, i)
		pre[i][vcNil] = signPrecommit(st.sp.chainID, k, types.PrecommitType, h, 0, types.BlockID{}, ts[i], v.Address, i)
		pre[i][vcOther] = signPrecommit(st.sp.chainID, k, types.PrecommitType, h, 0, otherBlockID(st.pre.LastBlockID), ts[i], v.Address, i)
	}
	try := func(choices []voteChoice, class string) {
		pcs := make([]*types.CommitSig, n)
		for i, ch := range choices {
			if ch != vcAbsent {
				cp := *pre[i][ch]
				pcs[i] = &cp
			}
		}
		b := cloneBlock(st.block)
		b.LastCommit = types.NewCommit(st.pre.LastBlockID, pcs)
		st.fixCommitAndTime(b)
		p := blockPower(vals, choices)
		want := moreThanTwoThirds(p, total)
		key := fmt.Sprintf("chain%d/h%d/subset/%v", st.sp.id, st.block.Height, choices)
		boundary := 3*p == 2*total || moreThanTwoThirds(p, total) != moreThanTwoThirds(p-minPower(vals), total)
		c.Case(key, true)
		c.Count("subset_cases", 1)
		if boundary {
			c.Count("subset_boundary_cases", 1)
		}
		if 3*p == 2*total {
			c.Count("subset_exactly_two_thirds", 1)
		}
		w := map[string]any{"chain": st.sp.id, "height": st.block.Height, "choices(0=block,1=absent,2=nil,3=other)": fmt.Sprint(choices), "powers": powers(vals), "block_power": p, "total": total, "want_accept": want, "seed": c.Seed}
		var err error
		if pv, site := try(func() { err = st.pre.ValidateBlock(b) }); pv != nil {
			c.Violation("panic@"+site, w, "ValidateBlock panicked in %s on a commit subset (%s) %v: %v", site, class, choices, pv)
			return
		}
		switch {
		case want && err != nil:
			c.Violation("rejected-valid:subset-"+class, w, "commit with %d/%d voting power for the block (> 2/3) rejected: %v", p, total, err)
		case !want && err == nil:
			c.Violation("accepted:subset-"+class+"-not-more-than-two-thirds", w, "commit with only %d/%d voting power for the block (<= 2/3) accepted", p, total)
		case want:
			c.Count("subset_accepted", 1)
		default:
			c.Count("subset_rejected", 1)
		}
	}
	if n <= 6 {
		for mask := 0; mask < 1<<n; mask++ {
			ch := make([]voteChoice, n)
			for i := 0; i < n; i++ {
				if mask&(1<<i) == 0 {
					ch[i] = vcAbsent
				}
			}
			try(ch, "absent")
		}
	} else {
		for k := 0; k < 64; k++ {
			ch := make([]voteChoice, n)
			for i := range ch {
				if st.r.IntN(3) == 0 {
					ch[i] = vcAbsent
				}
			}
			try(ch, "absent")
		}
	}
	for k := 0; k < 40; k++ {
		ch := make([]voteChoice, n)
		for i := range ch {
			ch[i] = voteChoice(st.r.IntN(4))
		}
		try(ch, "stray")
	}
}

func minPower(vals *types.ValidatorSet) int64 {
	m := int64(1) << 62
	for _, v := range vals.Validators {
		if v.VotingPower < m {
			m = v.VotingPower
		}
	}
	return m
}

func powers(vals *types.ValidatorSet) []int64 {
	out := make([]int64, vals.Size())
	for i, v := range vals.Validators {
		out[i] = v.VotingPower
	}
	return out
}

// unsignedFields: CommitSig.ValidatorIndex and CommitSig.ValidatorAddress are
// not covered by the vote signature and VerifyCommit does not read them (it
// checks precommit i against validator i). The property does not list them as
// fields that must be rejected; what it does require is (1) no panic on any
// decodable block and (2) that an ACCEPTED block's time is the median time of
// its last commit. Both are checked here.
func (st *step) unsignedFields() {
	c := st.c
	vals := st.pre.LastValidators
	n := vals.Size()
	type um struct {
		name string
		fn   func(pc *types.CommitSig, i int) bool
	}
	ums := []um{
		{"validator-index=-1", func(pc *types.CommitSig, i int) bool { pc.ValidatorIndex = -1; return true }},
		{"validator-index=size", func(pc *types.CommitSig, i int) bool { pc.ValidatorIndex = n; return true }},
		{"validator-index=huge", func(pc *types.CommitSig, i int) bool { pc.ValidatorIndex = 1 << 40; return true }},
		{"validator-index=other", func(pc *types.CommitSig, i int) bool {
			if n < 2 {
				return false
			}
			pc.ValidatorIndex = (i + 1 + st.r.IntN(n-1)) % n
			return true
		}},
		{"validator-address=zero", func(pc *types.CommitSig, i int) bool { pc.ValidatorAddress = crypto.Address{}; return true }},
		{"validator-address=other", func(pc *types.CommitSig, i int) bool {
			pc.ValidatorAddress = st.sp.outsider[1].PubKey().Address()
			return true
		}},
	}
	for _, m := range ums {
		for i, pc0 := range st.block.LastCommit.Precommits {
			if pc0 == nil {
				continue
			}
			b := cloneBlock(st.block)
			if !m.fn(b.LastCommit.Precommits[i], i) {
				continue
			}
			fixCommitHash(b)
			key := fmt.Sprintf("chain%d/h%d/unsigned/%s/%d", st.sp.id, st.block.Height, m.name, i)
			c.Case(key, true)
			c.Count("unsigned_field_cases", 1)
			w := map[string]any{"chain": st.sp.id, "chain_id": st.sp.chainID, "height": st.block.Height, "mutation": "precommit[" + fmt.Sprint(i) + "]." + m.name, "last_validators": n, "powers": powers(vals), "seed": c.Seed,
				"repro": "take the valid block for this height, set LastCommit.Precommits[i].ValidatorIndex/Address as named (the vote signature does not cover the field), recompute Header.LastCommitHash, call State.ValidateBlock"}
			var err error
			if pv, site := try(func() { err = st.pre.ValidateBlock(b) }); pv != nil {
				c.Count("panics:precommit-"+m.name, 1)
				c.Violation("panic@"+site, w, "State.ValidateBlock panicked in %s on a decodable block whose LastCommit.Precommits[%d] has %s (all signatures valid): %v", site, i, m.name, pv)
				continue
			}
			if err != nil {
				c.Count("unsigned_field_rejected", 1)
				continue
			}
			c.Count("unsigned_field_accepted", 1)
			// accepted: the block time must be the reference median (weights by signer position)
			if ref := refMedian(b.LastCommit, vals); !b.Time.Equal(ref) {
				c.Violation("accepted:time-not-median:precommit-"+m.name, w, "block accepted with time %v but the weighted median of its last commit is %v", b.Time, ref)
			}
		}
	}
	st.lowPowerTimeJump()
	// the adversarial proposer variant: choose ValidatorIndex values so that the weights
	// used for the median differ from the signers' real powers, then set the block time to
	// whatever the code under test computes. If accepted while different from the
	// reference median, the accepted block's time is not the median time of its commit.
	if n >= 2 {
		for trial := 0; trial < 4; trial++ {
			b := cloneBlock(st.block)
			heavy := 0
			for i, v := range vals.Validators {
				if v.VotingPower > vals.Validators[heavy].VotingPower {
					heavy = i
				}
			}
			// point every precommit's index at the heaviest or the lightest validator alternately
			light := 0
			for i, v := range vals.Validators {
				if v.VotingPower < vals.Validators[light].VotingPower {
					light = i
				}
			}
			for i, pc := range b.LastCommit.Precommits {
				if pc == nil {
					continue
				}
				switch trial {
				case 0:
					pc.ValidatorIndex = heavy
				case 1:
					pc.ValidatorIndex = light
				case 2:
					pc.ValidatorIndex = (i + 1) % n
				default:
					pc.ValidatorIndex = st.r.IntN(n)
				}
			}
			fixCommitHash(b)
			var codeMedian time.Time
			if pv, _ := try(func() { codeMedian = sm.MedianTime(b.LastCommit, vals) }); pv != nil {
				continue
			}
			ref := refMedian(b.LastCommit, vals)
			if codeMedian.Equal(ref) {
				c.Count("index_spoof_same_median", 1)
				continue
			}
			b.Time = codeMedian
			key := fmt.Sprintf("chain%d/h%d/index-spoof/%d", st.sp.id, st.block.Height, trial)
			c.Case(key, true)
			c.Count("index_spoof_cases", 1)
			w := map[string]any{"chain": st.sp.id, "chain_id": st.sp.chainID, "height": st.block.Height, "trial": trial, "powers": powers(vals), "block_time": b.Time.UnixNano(), "reference_median": ref.UnixNano(), "seed": c.Seed,
				"repro": "valid block; rewrite LastCommit.Precommits[*].ValidatorIndex (unsigned field) to point at validators with other voting power, recompute LastCommitHash, set Header.Time to state.MedianTime(commit, LastValidators); State.ValidateBlock returns nil although Time differs from the power-weighted median of the signers' timestamps"}
			var err error
			if pv, site := try(func() { err = st.pre.ValidateBlock(b) }); pv != nil {
				c.Violation("panic@"+site, w, "ValidateBlock panicked in %s (index spoof): %v", site, pv)
				continue
			}
			if err == nil && b.Time.After(st.pre.LastBlockTime) {
				c.Violation("accepted:time-not-median:validator-index-spoof", w, "block accepted with time %v; the voting-power weighted median of its last commit is %v (weights taken from the unsigned CommitSig.ValidatorIndex)", b.Time, ref)
			} else {
				c.Count("index_spoof_rejected", 1)
			}
		}
	}
}

// lowPowerTimeJump: the sharpest consequence of the unsigned ValidatorIndex. A
// validator with < 1/3 (here: the least) voting power precommits with a
// timestamp one year ahead. With the voters' real powers the weighted median
// stays at an honest timestamp. The proposer then rewrites the ValidatorIndex
// fields so that ITS timestamp is weighted with the heaviest validator's power
// and everybody else's with its own small power, and sets the block time to
// the far-future timestamp. The block must not be accepted.
func (st *step) lowPowerTimeJump() {
	c := st.c
	vals := st.pre.LastValidators
	n := vals.Size()
	if n < 3 {
		return
	}
	light, heavy := 0, 0
	for i, v := range vals.Validators {
		if v.VotingPower < vals.Validators[light].VotingPower {
			light = i
		}
		if v.VotingPower > vals.Validators[heavy].VotingPower {
			heavy = i
		}
	}
	total := totalPower(vals)
	if 3*vals.Validators[light].VotingPower >= total || light == heavy {
		c.Count("time_jump_not_applicable", 1)
		return
	}
	future := st.pre.LastBlockTime.Add(365 * 24 * time.Hour)
	ts := voteTimes(st.r, st.pre.LastBlockTime, n)
	ts[light] = future
	b := cloneBlock(st.block)
	b.LastCommit = st.sp.makeCommit(st.block.Height-1, 0, st.pre.LastBlockID, vals, nil, ts)
	ref := refMedian(b.LastCommit, vals)
	if !ref.Before(future) {
		c.Violation("oracle:time-jump-reference", nil, "reference median is the byzantine timestamp although it has < 1/3 power")
		return
	}
	for i, pc := range b.LastCommit.Precommits {
		if i == light {
			pc.ValidatorIndex = heavy
		} else {
			pc.ValidatorIndex = light
		}
	}
	fixCommitHash(b)
	b.Time = future
	key := fmt.Sprintf("chain%d/h%d/low-power-time-jump", st.sp.id, st.block.Height)
	c.Case(key, true)
	c.Count("time_jump_cases", 1)
	w := map[string]any{"chain": st.sp.id, "chain_id": st.sp.chainID, "height": st.block.Height, "powers": powers(vals), "byzantine_validator": light, "byzantine_power": vals.Validators[light].VotingPower, "total_power": total,
		"block_time": b.Time.UTC().String(), "reference_median": ref.UTC().String(), "last_block_time": st.pre.LastBlockTime.UTC().String(), "seed": c.Seed,
		"repro": "all validators precommit the previous block; validator `byzantine_validator` (< 1/3 power) timestamps its precommit +1 year; as proposer it sets Precommits[own].ValidatorIndex = index of the heaviest validator and every other Precommits[i].ValidatorIndex = its own index (field not signed, not checked by VerifyCommit), recomputes LastCommitHash and sets Header.Time = its timestamp; State.ValidateBlock returns nil"}
	var err error
	if pv, site := try(func() { err = st.pre.ValidateBlock(b) }); pv != nil {
		c.Violation("panic@"+site, w, "ValidateBlock panicked in %s (low-power time jump): %v", site, pv)
		return
	}
	if err == nil {
		c.Violation("accepted:time-not-median:low-power-validator-sets-block-time", w, "block accepted with time %v (one year ahead), chosen by a validator holding %d of %d voting power; the power-weighted median of the commit is %v",
			b.Time.UTC(), vals.Validators[light].VotingPower, total, ref.UTC())
		return
	}
	c.Count("time_jump_rejected", 1)
}
