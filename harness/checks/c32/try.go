package c32

import (
	"runtime"
	"strings"
)

// try runs f; on panic it returns the panic value and the innermost
// non-runtime function on the panicking stack ("state.MedianTime"), so that
// violation keys name the site of the panic.
func try(f func()) (pv any, site string) {
	defer func() {
		if r := recover(); r != nil {
			pv = r
			site = "unknown"
			pcs := make([]uintptr, 64)
			n := runtime.Callers(2, pcs)
			frames := runtime.CallersFrames(pcs[:n])
			for {
				fr, more := frames.Next()
				fn := fr.Function
				if fn != "" && !strings.HasPrefix(fn, "runtime.") && !strings.Contains(fn, "checks/c32.try") {
					if i := strings.LastIndex(fn, "/"); i >= 0 {
						fn = fn[i+1:]
					}
					site = fn
					return
				}
				if !more {
					return
				}
			}
		}
	}()
	f()
	return nil, ""
}
