// Package c43: MConnection delivers each channel's messages exactly once,
// unmodified and in send order, whatever the transport does to the byte
// stream; malformed packets close the connection and never produce a partial
// message.
//
// Oracles:
//   - per (direction, channel) the list of messages whose Send/TrySend returned
//     true (single sender per channel) must equal the list handed to onReceive,
//     element by element (=> exactly once, unmodified, in order); with two
//     senders on a channel the per-sender subsequences must be preserved;
//   - wire oracle: the bytes a side wrote are parsed back into packets with
//     amino; per channel the concatenation of PacketMsg payloads up to each EOF
//     packet must again be the sent list, every payload <= the configured
//     packet payload size; ping/pong packets are counted;
//   - raw-packet oracle: a scripted peer writes hand-built packets; deliveries
//     are replayed against the script (delivery only at a packet with EOF != 0,
//     mandatory at EOF == 1, content = concatenation since the last delivery),
//     anything else - in particular a delivery of the bytes of an unfinished
//     message - is a violation; for malformed input onError must fire;
//   - the Go race detector (engine built with -race).
package c43

import (
	"bytes"
	"errors"
	"fmt"
	"io"
	"math/rand/v2"
	"net"
	"runtime"
	"strings"
	"sync"
	"sync/atomic"
	"time"

	"github.com/gnolang/gno/tm2/pkg/amino"
	"github.com/gnolang/gno/tm2/pkg/log"
	"github.com/gnolang/gno/tm2/pkg/p2p/conn"

	"verifharness/internal/vf"
)

func init() {
	vf.Register(&vf.Check{
		ID:    "C43",
		Level: "exploration",
		Rule: "cases: (1) pairs of MConnections over net.Pipe wrapped by a seeded chunker (write chunks 1..4096 bytes, partial reads, yields/short sleeps), packet payload size P in {1,7,64,333,1024}, 2..4 channels with different priorities, queue and buffer capacities, " +
			"both directions at once, per channel 20..60 messages of sizes {0,1,P-1,P,P+1,2P-1,2P,2P+1,kP,random,RecvMessageCapacity exactly, one large}, Send vs TrySend, flush throttle 1..10 ms, optional finite send/recv rate, ping interval 60..90 ms on part of the runs, FlushStop runs; " +
			"(2) raw-packet scripts against one MConnection: unknown channel, oversized packet (P+k), capacity overflow, unfinished message then close, EOF flag values other than 0/1, every truncation length of a packet, unknown packet type, huge length prefix, random bytes, valid traffic before the fault, interleaved channels. " +
			"non-trivial = a message spanning >= 2 packets or of boundary size was transferred (pairs) / the script contains a malformed or unfinished packet (raw); distinct by (scenario, config, sizes)",
		Run: run,
	})
}

const watchdog = 90 * time.Second

var gaveUp atomic.Bool

func waitCh(c *vf.Ctx, what string, ch <-chan struct{}) bool {
	d := watchdog
	if gaveUp.Load() {
		d = 3 * time.Second
	}
	select {
	case <-ch:
		return true
	case <-time.After(d):
		if !gaveUp.Swap(true) {
			c.Inconclusive("watchdog fired waiting for " + what)
		}
		return false
	}
}

// ---------------------------------------------------------------- transport

// chunkConn wraps one end of a net.Pipe: writes are split into random chunks
// (net.Pipe hands each chunk over synchronously), reads return random partial
// amounts, and every byte written is logged for the wire oracle.
type chunkConn struct {
	net.Conn
	wmu, rmu sync.Mutex
	wr, rr   *rand.Rand
	maxChunk int
	slow     int // 1 in `slow` chunks yields or sleeps briefly; 0 = never
	logMu    sync.Mutex
	wire     []byte
}

func (c *chunkConn) Write(p []byte) (int, error) {
	c.wmu.Lock()
	defer c.wmu.Unlock()
	total := 0
	for len(p) > 0 {
		k := 1 + c.wr.IntN(c.maxChunk)
		if c.wr.IntN(4) == 0 {
			k = 1 + c.wr.IntN(8)
		}
		if k > len(p) {
			k = len(p)
		}
		// logged BEFORE the hand-over: everything the peer can have received is in the log when it is inspected
		// (a failed last write leaves at most a few undelivered bytes at the tail of the log)
		c.logMu.Lock()
		c.wire = append(c.wire, p[:k]...)
		c.logMu.Unlock()
		n, err := c.Conn.Write(p[:k])
		total += n
		if err != nil {
			return total, err
		}
		p = p[k:]
		if c.slow > 0 && c.wr.IntN(c.slow) == 0 {
			if c.wr.IntN(2) == 0 {
				runtime.Gosched()
			} else {
				time.Sleep(time.Duration(20+c.wr.IntN(200)) * time.Microsecond)
			}
		}
	}
	return total, nil
}

func (c *chunkConn) Read(p []byte) (int, error) {
	c.rmu.Lock()
	k := len(p)
	if k > 1 {
		k = 1 + c.rr.IntN(k)
	}
	c.rmu.Unlock()
	return c.Conn.Read(p[:k])
}

func (c *chunkConn) wireCopy() []byte {
	c.logMu.Lock()
	defer c.logMu.Unlock()
	return append([]byte{}, c.wire...)
}

func newPipe(r *rand.Rand, maxChunk, slow int) (*chunkConn, *chunkConn) {
	a, b := net.Pipe()
	mk := func(c net.Conn) *chunkConn {
		return &chunkConn{Conn: c, wr: rand.New(rand.NewPCG(r.Uint64(), 1)), rr: rand.New(rand.NewPCG(r.Uint64(), 2)), maxChunk: maxChunk, slow: slow}
	}
	return mk(a), mk(b)
}

// ---------------------------------------------------------------- one side

type side struct {
	name string
	m    *conn.MConnection
	cc   *chunkConn

	mu            sync.Mutex
	recv          map[byte][][]byte
	nrecv         int
	errs          []error
	stopping      bool
	want          int
	sentinel      []byte
	sentinels     int
	wantSentinels int
	gotAll        chan struct{}
	errCh         chan struct{}
	allOnce       sync.Once
	errOnce       sync.Once
}

func newSide(name string, cc *chunkConn, descs []*conn.ChannelDescriptor, cfg conn.MConnConfig) *side {
	s := &side{name: name, cc: cc, recv: map[byte][][]byte{}, gotAll: make(chan struct{}), errCh: make(chan struct{}), want: -1}
	s.m = conn.NewMConnectionWithConfig(cc, descs, s.onReceive, s.onError, cfg)
	s.m.SetLogger(log.NewNoopLogger())
	return s
}

func (s *side) onReceive(ch byte, msg []byte) {
	cp := append([]byte{}, msg...) // documented: the slice may change on the next packet
	s.mu.Lock()
	if s.sentinel != nil && bytes.Equal(cp, s.sentinel) {
		s.sentinels++
	} else {
		s.recv[ch] = append(s.recv[ch], cp)
		s.nrecv++
	}
	done := (s.want >= 0 && s.nrecv >= s.want) || (s.wantSentinels > 0 && s.sentinels >= s.wantSentinels)
	s.mu.Unlock()
	if done {
		s.allOnce.Do(func() { close(s.gotAll) })
	}
}

func (s *side) onError(err error) {
	s.mu.Lock()
	s.errs = append(s.errs, err)
	s.mu.Unlock()
	s.errOnce.Do(func() { close(s.errCh) })
}

func (s *side) expect(n int) {
	s.mu.Lock()
	s.want = n
	done := s.nrecv >= n
	s.mu.Unlock()
	if done {
		s.allOnce.Do(func() { close(s.gotAll) })
	}
}

func (s *side) expectSentinels(n int) {
	s.mu.Lock()
	s.wantSentinels = n
	s.mu.Unlock()
}

func (s *side) snapshot() (map[byte][][]byte, []error) {
	s.mu.Lock()
	defer s.mu.Unlock()
	out := map[byte][][]byte{}
	for k, v := range s.recv {
		out[k] = append([][]byte{}, v...)
	}
	return out, append([]error{}, s.errs...)
}

// ---------------------------------------------------------------- message plans

func msgBytes(dir int, ch byte, seq int, n int) []byte {
	b := make([]byte, n)
	x := uint32(dir*1000003+int(ch)*7919+seq*104729) + 12345
	for i := range b {
		x = x*1664525 + 1013904223
		b[i] = byte(x >> 24)
	}
	return b
}

func planSizes(r *rand.Rand, p int, count int, capacity int) []int {
	base := []int{0, 1, p - 1, p, p + 1, 2*p - 1, 2 * p, 2*p + 1, 3 * p, 5*p + 1, 10 * p}
	var out []int
	for i := 0; i < count; i++ {
		var n int
		switch {
		case i < len(base):
			n = base[i]
		case r.IntN(5) == 0:
			n = base[r.IntN(len(base))]
		case r.IntN(12) == 0:
			n = 20*p + r.IntN(40*p+1)
		default:
			n = r.IntN(6*p + 2)
		}
		if n < 0 {
			n = 0
		}
		if n > capacity {
			n = capacity
		}
		out = append(out, n)
	}
	// exactly the receive capacity, and one below
	out[len(out)-1] = capacity
	out[len(out)/2] = capacity - 1
	r.Shuffle(len(out), func(i, j int) { out[i], out[j] = out[j], out[i] })
	return out
}

type chanPlan struct {
	id      byte
	trySend bool
	senders int // 1 or 2
	msgs    [][]byte
}

func run(c *vf.Ctx) {
	c.Assume("amino packet encoding is a trusted primitive (the wire oracle decodes with it); net.Pipe is the byte transport")
	c.Assume("PacketMsg.EOF is documented as '1 means message ends here': other values are treated as 'message continues' by the implementation; the raw-packet oracle only forbids deliveries that are not a whole run of packets ending at a packet with EOF != 0")
	c.Assume("pong timeouts are wall-clock behaviour: a paced ping run that ends with a 'pong timeout' error is discarded and counted (pong_timeouts_under_load_discarded_runs); at least 4 ping runs must complete")
	pairs(c)
	flushStop(c)
	rawScripts(c)

	c.RequireCounter("pair_connections", int64(c.N(36, 300)))
	c.RequireCounter("messages_delivered", int64(c.N(5000, 40000)))
	c.RequireCounter("multi_packet_messages", 1000)
	c.RequireCounter("boundary_size_messages", 500)
	c.RequireCounter("exact_capacity_messages", 40)
	c.RequireCounter("trysend_rejections", 10)
	c.RequireCounter("ping_runs", 4)
	c.RequireCounter("wire_ping_packets", 3)
	c.RequireCounter("wire_pong_packets", 3)
	c.RequireCounter("wire_packets_parsed", 10000)
	c.RequireCounter("flushstop_runs", 10)
	c.RequireCounter("raw_scripts", int64(c.N(240, 1000)))
	c.RequireCounter("raw_onerror_before_close", 50)
	for _, k := range []string{"unknown-channel", "oversized-packet", "capacity-overflow", "unfinished-then-close", "truncated-packet", "unknown-packet-type", "huge-length-prefix", "random-bytes", "eof-flag-other", "valid-then-fault", "interleaved-channels"} {
		c.RequireCounter("raw:"+k, 3)
	}
}

// ---------------------------------------------------------------- (1) pairs

func pairs(c *vf.Ctx) {
	n := c.N(40, 320)
	c.Parallel(n, 8, 1000, func(i int, r *rand.Rand) { runPair(c, i, r, false) })
	// ping/pong runs: sparse paced traffic on an otherwise idle connection, so that pings interleave with
	// message packets and a pong is never queued behind a long backlog (its timeout is wall-clock)
	c.Parallel(c.N(12, 48), 4, 3000, func(i int, r *rand.Rand) { runPair(c, 100000+i, r, true) })
}

func runPair(c *vf.Ctx, i int, r *rand.Rand, pings bool) {
	{
		P := []int{1, 7, 64, 333, 1024}[i%5]
		cfg := conn.DefaultMConnConfig()
		cfg.MaxPacketMsgPayloadSize = P
		cfg.FlushThrottle = time.Duration(1+r.IntN(10)) * time.Millisecond
		cfg.SendRate, cfg.RecvRate = 0, 0
		if i%7 == 3 {
			cfg.SendRate, cfg.RecvRate = 4_000_000, 4_000_000
		}
		cfg.PingInterval, cfg.PongTimeout = 20*time.Second, 15*time.Second
		if pings {
			cfg.PingInterval = time.Duration(120+r.IntN(80)) * time.Millisecond
			cfg.PongTimeout = cfg.PingInterval - 2*time.Millisecond
		}
		capacity := 40*P + 17
		if pings {
			capacity = 4*P + 17 // light traffic: nothing may queue up in front of a ping/pong for long
		}
		nch := 2 + r.IntN(3)
		ids := []byte{0x01, 0x20, 0x7f, 0xff}
		var descs []*conn.ChannelDescriptor
		for k := 0; k < nch; k++ {
			descs = append(descs, &conn.ChannelDescriptor{ID: ids[k], Priority: []int{1, 5, 10, 2}[k], SendQueueCapacity: []int{1, 4, 2, 16}[r.IntN(4)],
				RecvBufferCapacity: []int{1, 64, 4096}[r.IntN(3)], RecvMessageCapacity: capacity})
		}
		count := 20 + r.IntN(c.N(25, 40))
		if P == 1 {
			count = 14 + r.IntN(8)
		}
		if pings {
			count = 12 + r.IntN(6)
		}
		slow := []int{0, 16, 64}[r.IntN(3)]
		if pings {
			slow = 64
		}
		maxChunk := []int{3, 64, 1500, 4096}[r.IntN(4)]
		if P >= 64 && maxChunk < 64 {
			maxChunk = 64 // megabytes through 3-byte chunks take tens of seconds under the race detector
		}
		if pings {
			maxChunk, slow = 4096, 0 // a slow transport delays pongs beyond any reasonable timeout
		}
		ca, cb := newPipe(r, maxChunk, slow)
		sides := []*side{newSide("a", ca, descs, cfg), newSide("b", cb, descs, cfg)}
		tag := fmt.Sprintf("pair/%d/%d", c.Seed, i)
		w := map[string]any{"case": tag, "payload_size": P, "channels": nch, "flush_throttle_ms": cfg.FlushThrottle.Milliseconds(), "ping_interval_ms": cfg.PingInterval.Milliseconds(), "capacity": capacity, "seed": c.Seed}
		// plans: plans[d] = what side d sends
		plans := make([][]*chanPlan, 2)
		for d := 0; d < 2; d++ {
			for k := 0; k < nch; k++ {
				pl := &chanPlan{id: ids[k], trySend: r.IntN(2) == 0, senders: 1}
				if k == 1 && r.IntN(3) == 0 {
					pl.senders = 2
				}
				for seq, sz := range planSizes(r, P, count, capacity) {
					pl.msgs = append(pl.msgs, msgBytes(d, ids[k], seq, sz))
				}
				plans[d] = append(plans[d], pl)
			}
		}
		for d := 0; d < 2; d++ {
			if err := sides[d].m.Start(); err != nil {
				panic(err)
			}
		}
		// completion is logical: after its planned messages every channel carries one sentinel message; the channel
		// queue is FIFO, so once the sentinels of all channels arrived nothing sent before them is still in flight
		sentinel := []byte("\xffSENTNL\xff")
		for d := 0; d < 2; d++ {
			sides[d].sentinel = sentinel
			sides[d].expectSentinels(nch)
		}
		// senders
		var wg sync.WaitGroup
		var sendFail atomic.Value
		var tryRejects, sendTimeouts atomic.Int64
		for d := 0; d < 2; d++ {
			for _, pl := range plans[d] {
				var chWg sync.WaitGroup
				chWg.Add(pl.senders)
				wg.Add(1)
				go func(d int, pl *chanPlan) { // the sentinel follows the last planned message of the channel
					defer wg.Done()
					chWg.Wait()
					if !sides[d].m.Send(pl.id, sentinel) {
						sendFail.Store(fmt.Sprintf("Send(sentinel) on channel %X returned false", pl.id))
					}
				}(d, pl)
				for sIdx := 0; sIdx < pl.senders; sIdx++ {
					wg.Add(1)
					go func(d int, pl *chanPlan, sIdx int) {
						defer wg.Done()
						defer chWg.Done()
						m := sides[d].m
						for seq := sIdx; seq < len(pl.msgs); seq += pl.senders {
							msg := pl.msgs[seq]
							if pings {
								time.Sleep(time.Duration(5+seq%7) * time.Millisecond)
							}
							if pl.trySend {
								for !m.TrySend(pl.id, msg) {
									tryRejects.Add(1)
									if !m.IsRunning() {
										sendFail.Store(fmt.Sprintf("TrySend on channel %X: connection stopped", pl.id))
										return
									}
									time.Sleep(200 * time.Microsecond)
								}
							} else {
								// documented: Send blocks until queued "or until the request times out" (10 s): false = not queued, retry
								for !m.Send(pl.id, msg) {
									sendTimeouts.Add(1)
									if !m.IsRunning() {
										sendFail.Store(fmt.Sprintf("Send on channel %X: connection stopped", pl.id))
										return
									}
								}
							}
						}
					}(d, pl, sIdx)
				}
			}
		}
		// completion: both sides received everything, or an error
		finished := make(chan struct{})
		go func() {
			for _, s := range sides {
				select {
				case <-s.gotAll:
				case <-s.errCh:
				}
			}
			close(finished)
		}()
		ok := waitCh(c, "pair "+tag, finished)
		if ok && pings {
			// coverage aid (not an oracle): keep the idle connection open until both sides have pinged once
			for k := 0; k < 200 && !(hasPing(sides[0].cc) && hasPing(sides[1].cc)); k++ {
				time.Sleep(10 * time.Millisecond)
			}
		}
		for _, s := range sides {
			s.mu.Lock()
			s.stopping = true
			s.mu.Unlock()
		}
		// give pings a chance to appear in the ping runs (logical bound: at most 3 intervals)
		recvs := make([]map[byte][][]byte, 2)
		errsBefore := make([][]error, 2)
		for d, s := range sides {
			recvs[d], errsBefore[d] = s.snapshot()
		}
		sides[0].m.Stop()
		sides[1].m.Stop()
		wg.Wait()
		if !ok {
			return
		}
		c.Case(tag, true)
		c.Count("trysend_rejections", int(tryRejects.Load()))
		c.Count("send_timeouts_retried", int(sendTimeouts.Load()))
		// errors before completion?
		for d := range sides {
			for _, e := range errsBefore[d] {
				if strings.Contains(e.Error(), "pong timeout") {
					// wall-clock behaviour of the protocol (the pong did not make it within PongTimeout on this loaded box):
					// the run is discarded; the coverage requirement below asks for enough completed ping runs
					c.Count("pong_timeouts_under_load_discarded_runs", 1)
					return
				}
			}
		}
		for d := range sides {
			for _, e := range errsBefore[d] {
				c.Violation("unexpected-error:pair", w, "side %s reported an error during an honest exchange: %v", sides[d].name, e)
				return
			}
		}
		if v := sendFail.Load(); v != nil {
			c.Violation("send-failed:pair", w, "%v", v)
			return
		}
		// per-channel sequences: what d sent must be what 1-d received
		for d := 0; d < 2; d++ {
			got := recvs[1-d]
			for _, pl := range plans[d] {
				if !compareChannel(c, w, fmt.Sprintf("%s->%s", sides[d].name, sides[1-d].name), pl, got[pl.id], P) {
					return
				}
			}
			for ch := range got {
				known := false
				for _, pl := range plans[d] {
					known = known || pl.id == ch
				}
				if !known {
					c.Violation("delivery-on-unknown-channel", w, "messages delivered on channel %X that nobody sent on", ch)
					return
				}
			}
		}
		// wire oracle
		for d := 0; d < 2; d++ {
			if !wireOracle(c, w, sides[d], plans[d], P) {
				return
			}
		}
		c.Count("pair_connections", 1)
		if i < 3 {
			c.Sample(map[string]any{"scenario": "pair", "payload_size": P, "channels": nch, "messages_per_channel": count, "trysend": plans[0][0].trySend, "first_sizes": sizesOf(plans[0][0].msgs, 12)})
		}
		if pings {
			c.Count("ping_runs", 1)
		}
	}
}

var pingBytes = amino.MustMarshalAnySized(conn.PacketPing{})

// hasPing: a ping packet is a fixed byte string; used only to decide how long to linger.
func hasPing(cc *chunkConn) bool { return bytes.Contains(cc.wireCopy(), pingBytes) }

func sizesOf(m [][]byte, n int) []int {
	var out []int
	for i := 0; i < len(m) && i < n; i++ {
		out = append(out, len(m[i]))
	}
	return out
}

func compareChannel(c *vf.Ctx, w map[string]any, dir string, pl *chanPlan, got [][]byte, P int) bool {
	w2 := map[string]any{}
	for k, v := range w {
		w2[k] = v
	}
	w2["direction"] = dir
	w2["channel"] = pl.id
	w2["trysend"] = pl.trySend
	w2["senders"] = pl.senders
	w2["sizes"] = sizesOf(pl.msgs, 80)
	// alignment: an EMPTY message that is missing gets its own key (known failure class) and the comparison goes on
	lostEmpty := 0
	if pl.senders == 1 {
		j := 0
		for i := 0; i < len(pl.msgs); i++ {
			switch {
			case j < len(got) && bytes.Equal(got[j], pl.msgs[i]):
				j++
			case len(pl.msgs[i]) == 0:
				lostEmpty++
			case j >= len(got):
				c.Violation("message-lost", w2, "%s channel %X: %d messages sent, only %d delivered (first missing: #%d, %d bytes)", dir, pl.id, len(pl.msgs), len(got), i, len(pl.msgs[i]))
				return false
			default:
				c.Violation("message-mismatch", w2, "%s channel %X: delivery #%d has %d bytes, message #%d sent has %d bytes, equal=false (%s)", dir, pl.id, j, len(got[j]), i, len(pl.msgs[i]), classify(got[j], pl.msgs, i))
				return false
			}
		}
		if j < len(got) {
			c.Violation("message-extra", w2, "%s channel %X: %d messages delivered, only %d sent (extra delivery of %d bytes)", dir, pl.id, len(got), len(pl.msgs), len(got[j]))
			return false
		}
	} else {
		// two senders: sender s sent msgs[s], msgs[s+2], ... in that order; the merge order is free.
		// got must be an interleaving of the two subsequences; missing EMPTY messages are tolerated here and
		// reported under their own key. Exact search over (position in A, position in B, position in got).
		var seq [2][][]byte
		for k, m := range pl.msgs {
			seq[k%2] = append(seq[k%2], m)
		}
		A, B := seq[0], seq[1]
		type st struct{ i, j, k int }
		best := map[st]int{{0, 0, 0}: 0} // minimal number of skipped empties to reach the state
		queue := []st{{0, 0, 0}}
		final := -1
		deepest := 0
		for len(queue) > 0 {
			cur := queue[0]
			queue = queue[1:]
			cost := best[cur]
			if cur.k > deepest {
				deepest = cur.k
			}
			if cur.i == len(A) && cur.j == len(B) && cur.k == len(got) {
				if final < 0 || cost < final {
					final = cost
				}
				continue
			}
			push := func(n st, c int) {
				if old, ok := best[n]; !ok || c < old {
					best[n] = c
					queue = append(queue, n)
				}
			}
			if cur.i < len(A) {
				if cur.k < len(got) && bytes.Equal(got[cur.k], A[cur.i]) {
					push(st{cur.i + 1, cur.j, cur.k + 1}, cost)
				}
				if len(A[cur.i]) == 0 {
					push(st{cur.i + 1, cur.j, cur.k}, cost+1)
				}
			}
			if cur.j < len(B) {
				if cur.k < len(got) && bytes.Equal(got[cur.k], B[cur.j]) {
					push(st{cur.i, cur.j + 1, cur.k + 1}, cost)
				}
				if len(B[cur.j]) == 0 {
					push(st{cur.i, cur.j + 1, cur.k}, cost+1)
				}
			}
		}
		if final < 0 {
			w2["deliveries"] = len(got)
			w2["first_unexplained_delivery"] = deepest
			c.Violation("message-mismatch:two-senders", w2, "%s channel %X: the %d deliveries are not an order-preserving merge of the two senders' sequences (%d messages); first delivery that cannot be explained: #%d", dir, pl.id, len(got), len(pl.msgs), deepest)
			return false
		}
		lostEmpty = final
	}
	if lostEmpty > 0 {
		c.Count("empty_messages_lost", lostEmpty)
		w2["empty_messages_lost"] = lostEmpty
		w2["repro"] = "two channels with pending traffic; Send/TrySend(ch, []byte{}) returns true; Channel.isSendPending pops the empty message into ch.sending, and when another channel wins that scheduling round the next call sees len(ch.sending)==0 again and overwrites it with the next queued message"
		c.Violation("empty-message-lost", w2, "%s channel %X: %d zero-length message(s) accepted by Send/TrySend were never delivered (all other messages arrived intact and in order)", dir, pl.id, lostEmpty)
	}
	for _, m := range pl.msgs {
		c.Count("messages_delivered", 1)
		if len(m) > P {
			c.Count("multi_packet_messages", 1)
		}
		if P > 1 && (len(m)%P == 0 || len(m)%P == 1 || len(m)%P == P-1) {
			c.Count("boundary_size_messages", 1)
		}
		if len(m) == 40*P+17 || len(m) == 4*P+17 {
			c.Count("exact_capacity_messages", 1)
		}
	}
	return true
}

func classify(got []byte, msgs [][]byte, i int) string {
	for j, m := range msgs {
		if bytes.Equal(got, m) {
			return fmt.Sprintf("it equals message #%d: reordered or duplicated", j)
		}
	}
	if bytes.HasPrefix(msgs[i], got) {
		return "it is a strict prefix of the expected message: partial delivery"
	}
	if i+1 < len(msgs) && bytes.HasPrefix(got, msgs[i]) {
		return "it starts with the expected message and continues: messages merged"
	}
	return "content differs"
}

// wireOracle parses everything side s wrote back into packets.
func wireOracle(c *vf.Ctx, w map[string]any, s *side, plan []*chanPlan, P int) bool {
	wire := s.cc.wireCopy()
	rd := bytes.NewReader(wire)
	acc := map[byte][]byte{}
	msgs := map[byte][][]byte{}
	for rd.Len() > 0 {
		var pkt conn.Packet
		_, err := amino.UnmarshalSizedReader(rd, &pkt, int64(P)+1024)
		if err != nil {
			if errors.Is(err, io.EOF) || errors.Is(err, io.ErrUnexpectedEOF) {
				break // connection stopped in the middle of a packet
			}
			c.Violation("wire:undecodable-packet", w, "side %s wrote bytes that do not parse as a packet: %v", s.name, err)
			return false
		}
		c.Count("wire_packets_parsed", 1)
		switch p := pkt.(type) {
		case conn.PacketPing:
			c.Count("wire_ping_packets", 1)
		case conn.PacketPong:
			c.Count("wire_pong_packets", 1)
		case conn.PacketMsg:
			if len(p.Bytes) > P {
				c.Violation("wire:payload-exceeds-max", w, "side %s sent a packet with %d payload bytes, MaxPacketMsgPayloadSize is %d", s.name, len(p.Bytes), P)
				return false
			}
			if p.EOF != 0 && p.EOF != 1 {
				c.Violation("wire:eof-flag", w, "side %s sent EOF flag %d", s.name, p.EOF)
				return false
			}
			acc[p.ChannelID] = append(acc[p.ChannelID], p.Bytes...)
			if p.EOF == 1 {
				msgs[p.ChannelID] = append(msgs[p.ChannelID], acc[p.ChannelID])
				acc[p.ChannelID] = nil
			}
		}
	}
	for _, pl := range plan {
		if pl.senders != 1 {
			continue
		}
		got := msgs[pl.id]
		j := 0
		for i := range pl.msgs {
			switch {
			case j < len(got) && bytes.Equal(got[j], pl.msgs[i]):
				j++
			case len(pl.msgs[i]) == 0:
				c.Count("empty_messages_never_written_to_the_wire", 1) // reported by the delivery oracle as empty-message-lost
			case j >= len(got):
				c.Violation("wire:message-missing", w, "side %s channel %X: %d messages accepted by Send, %d complete messages on the wire (first missing #%d, %d bytes)", s.name, pl.id, len(pl.msgs), len(got), i, len(pl.msgs[i]))
				return false
			default:
				c.Violation("wire:message-mismatch", w, "side %s channel %X: message #%d on the wire differs from what was sent (%d vs %d bytes)", s.name, pl.id, i, len(got[j]), len(pl.msgs[i]))
				return false
			}
		}
	}
	return true
}

// ---------------------------------------------------------------- FlushStop

// flushStop: every Send that returned true must reach the peer when the sender calls FlushStop right away.
func flushStop(c *vf.Ctx) {
	n := c.N(16, 80)
	c.Parallel(n, 8, 5000, func(i int, r *rand.Rand) {
		P := []int{7, 64, 1024}[i%3]
		cfg := conn.DefaultMConnConfig()
		cfg.MaxPacketMsgPayloadSize = P
		cfg.FlushThrottle = time.Duration(1+r.IntN(20)) * time.Millisecond
		cfg.SendRate, cfg.RecvRate = 0, 0
		cfg.PingInterval, cfg.PongTimeout = 20*time.Second, 15*time.Second
		descs := []*conn.ChannelDescriptor{{ID: 1, Priority: 1, SendQueueCapacity: 8, RecvMessageCapacity: 100 * P}, {ID: 2, Priority: 3, SendQueueCapacity: 8, RecvMessageCapacity: 100 * P}}
		ca, cb := newPipe(r, 64+r.IntN(2000), 32)
		a, b := newSide("a", ca, descs, cfg), newSide("b", cb, descs, cfg)
		a.m.Start()
		b.m.Start()
		tag := fmt.Sprintf("flushstop/%d/%d", c.Seed, i)
		w := map[string]any{"case": tag, "payload_size": P, "seed": c.Seed}
		sent := map[byte][][]byte{}
		total := 0
		for k := 0; k < 3+r.IntN(6); k++ {
			ch := byte(1 + r.IntN(2))
			msg := msgBytes(0, ch, k, []int{0, 1, P, P + 1, 3 * P, 10*P + 5}[r.IntN(6)])
			if a.m.Send(ch, msg) {
				sent[ch] = append(sent[ch], msg)
				total++
			}
		}
		b.expect(total)
		a.m.FlushStop() // documented: all successful Send calls get flushed before the connection is closed
		finished := make(chan struct{})
		go func() {
			select {
			case <-b.gotAll:
			case <-b.errCh:
				// the peer's close is seen as an error; deliveries happen before it on the same goroutine
			}
			close(finished)
		}()
		ok := waitCh(c, tag, finished)
		got, _ := b.snapshot()
		b.m.Stop()
		if !ok {
			return
		}
		c.Case(tag, true)
		for ch, msgs := range sent {
			pl := &chanPlan{id: ch, senders: 1, msgs: msgs}
			if !compareChannel(c, w, "a->b (FlushStop)", pl, got[ch], P) {
				return
			}
		}
		c.Count("flushstop_runs", 1)
	})
}

// ---------------------------------------------------------------- (2) raw packet scripts

type rawStep struct {
	pkt    *conn.PacketMsg // a packet to encode, or
	bytes  []byte          // literal bytes
	marker string
}

type rawScript struct {
	kind        string
	steps       []rawStep
	mustError   bool // onError must fire before the harness closes its end
	closeAfter  bool // harness closes its end after the script (then onError fires with EOF)
	description string
}

func enc(p conn.PacketMsg) []byte { return amino.MustMarshalAnySized(p) }

func rawScripts(c *vf.Ctx) {
	const P = 64
	const capacity = 5*P + 3
	descs := func() []*conn.ChannelDescriptor {
		return []*conn.ChannelDescriptor{{ID: 1, Priority: 1, RecvMessageCapacity: capacity, RecvBufferCapacity: 16}, {ID: 2, Priority: 2, RecvMessageCapacity: capacity, RecvBufferCapacity: 16}}
	}
	maxPacket := len(amino.MustMarshalAnySized(conn.PacketMsg{ChannelID: 1, EOF: 1, Bytes: make([]byte, P)})) + 10 // documented formula (maxPacketMsgSize)
	var scripts []rawScript
	add := func(s rawScript) { scripts = append(scripts, s) }
	pay := func(n int, seed int) []byte { return msgBytes(9, 1, seed, n) }
	full := func(ch byte, eof byte, n, seed int) rawStep {
		return rawStep{pkt: &conn.PacketMsg{ChannelID: ch, EOF: eof, Bytes: pay(n, seed)}}
	}
	reps := c.N(3, 12)
	for t := 0; t < reps; t++ {
		// unknown channel, alone and after valid traffic / in the middle of a message of a known channel
		add(rawScript{kind: "unknown-channel", mustError: true, steps: []rawStep{full(0x55, 1, 10, t)}})
		add(rawScript{kind: "unknown-channel", mustError: true, steps: []rawStep{full(1, 0, P, t), full(0x55, 1, 10, t), full(1, 1, 3, t+1)}})
		add(rawScript{kind: "unknown-channel", mustError: true, steps: []rawStep{full(1, 1, 5, t), full(0, 0, 1, t)}})
		// oversized packet: payload P+k. Packets whose encoding exceeds the documented maximum must be refused;
		// the few bytes of slack below it are documented ("leave room for changes in amino") and such a packet is a whole message
		for _, k := range []int{1, 5, 9, 10, 11, 12, 13, 14, 20, 100, 5000} {
			p := conn.PacketMsg{ChannelID: 1, EOF: 1, Bytes: pay(P+k, t)}
			add(rawScript{kind: "oversized-packet", mustError: len(enc(p))-sizePrefixLen(enc(p)) > maxPacket, closeAfter: true, steps: []rawStep{{pkt: &p}}})
		}
		// more bytes than RecvMessageCapacity over several packets
		add(rawScript{kind: "capacity-overflow", mustError: true, steps: []rawStep{full(1, 0, P, 1), full(1, 0, P, 2), full(1, 0, P, 3), full(1, 0, P, 4), full(1, 0, P, 5), full(1, 1, 4, 6)}})
		add(rawScript{kind: "capacity-overflow", mustError: true, steps: []rawStep{full(2, 1, 7, 0), full(1, 0, P, 1), full(1, 0, P, 2), full(1, 0, P, 3), full(1, 0, P, 4), full(1, 0, P, 5), full(1, 0, 4, 6), full(1, 1, 0, 7)}})
		// exactly the capacity: legal
		add(rawScript{kind: "capacity-exact", closeAfter: true, steps: []rawStep{full(1, 0, P, 1), full(1, 0, P, 2), full(1, 0, P, 3), full(1, 0, P, 4), full(1, 0, P, 5), full(1, 1, 3, 6)}})
		// unfinished message, then the peer goes away
		add(rawScript{kind: "unfinished-then-close", closeAfter: true, steps: []rawStep{full(1, 0, P, t)}})
		add(rawScript{kind: "unfinished-then-close", closeAfter: true, steps: []rawStep{full(1, 1, 9, t), full(1, 0, P, t), full(1, 0, 13, t+1)}})
		add(rawScript{kind: "unfinished-then-close", closeAfter: true, steps: []rawStep{full(1, 0, 1, t), full(2, 0, 2, t)}})
		// EOF flag values other than 0 and 1
		for _, e := range []byte{2, 3, 0x7f, 0x80, 0xff} {
			add(rawScript{kind: "eof-flag-other", closeAfter: true, steps: []rawStep{full(1, e, 11, t), full(1, 1, 5, t+1)}})
			add(rawScript{kind: "eof-flag-other", closeAfter: true, steps: []rawStep{full(1, 0, 11, t), full(1, e, 5, t+1)}})
		}
		// interleaved channels: legal
		add(rawScript{kind: "interleaved-channels", closeAfter: true, steps: []rawStep{full(1, 0, P, 1), full(2, 0, P, 2), full(1, 0, P, 3), full(2, 1, 1, 4), full(1, 1, 0, 5), full(2, 1, 3, 6)}})
		// valid traffic, then a fault
		add(rawScript{kind: "valid-then-fault", mustError: true, steps: []rawStep{full(1, 1, 10, 1), full(2, 0, P, 2), full(2, 1, 1, 3), full(1, 0, P, 4), {bytes: []byte{0xff, 0xff, 0xff, 0xff, 0xff, 0xff, 0xff, 0xff, 0xff, 0x01}}}})
		add(rawScript{kind: "valid-then-fault", mustError: true, steps: []rawStep{full(1, 0, P, 4), {bytes: bytes.Repeat([]byte{0x0a}, 40)}}})
		// unknown packet type / not a packet
		add(rawScript{kind: "unknown-packet-type", mustError: true, steps: []rawStep{full(1, 0, 5, t), {bytes: amino.MustMarshalSized(struct{ A string }{"/p2p.Nope"})}}})
		add(rawScript{kind: "unknown-packet-type", mustError: true, steps: []rawStep{{bytes: mustAnySized("/p2p.Bogus", []byte{1, 2, 3})}}})
		add(rawScript{kind: "huge-length-prefix", mustError: true, steps: []rawStep{full(1, 0, 5, t), {bytes: []byte{0xff, 0xff, 0xff, 0xff, 0x0f}}}})
		add(rawScript{kind: "huge-length-prefix", mustError: true, steps: []rawStep{{bytes: []byte{0x80, 0x80, 0x80, 0x80, 0x80, 0x80, 0x80, 0x80, 0x80, 0x80, 0x01}}}})
	}
	// every truncation length of a two-packet message, then close
	whole := append(enc(conn.PacketMsg{ChannelID: 1, EOF: 0, Bytes: pay(P, 1)}), enc(conn.PacketMsg{ChannelID: 1, EOF: 1, Bytes: pay(9, 2)})...)
	for cut := 0; cut < len(whole); cut++ {
		if c.Quick() && cut%2 == 1 && cut < len(whole)-12 {
			continue
		}
		add(rawScript{kind: "truncated-packet", closeAfter: true, steps: []rawStep{{bytes: whole[:cut], marker: fmt.Sprintf("cut=%d", cut)}}})
	}
	// random bytes
	rr := c.Rng(9000)
	for t := 0; t < c.N(80, 600); t++ {
		b := make([]byte, 1+rr.IntN(120))
		for i := range b {
			b[i] = byte(rr.UintN(256))
		}
		if t%3 == 0 { // start like a packet
			copy(b, whole[:min(len(b), 6+rr.IntN(8))])
		}
		add(rawScript{kind: "random-bytes", closeAfter: true, steps: []rawStep{full(2, 0, 7, t), {bytes: b}}})
	}
	c.Set("raw_script_count", len(scripts))
	c.Parallel(len(scripts), 8, 20000, func(i int, r *rand.Rand) {
		runRaw(c, i, scripts[i], descs(), P, capacity, r)
	})
}

func sizePrefixLen(b []byte) int {
	for i, x := range b {
		if x < 0x80 {
			return i + 1
		}
	}
	return len(b)
}

func mustAnySized(typeURL string, value []byte) []byte {
	// google.protobuf.Any: field 1 = type_url, field 2 = value; length-prefixed
	var body []byte
	body = append(body, 0x0a, byte(len(typeURL)))
	body = append(body, typeURL...)
	body = append(body, 0x12, byte(len(value)))
	body = append(body, value...)
	return append([]byte{byte(len(body))}, body...)
}

func runRaw(c *vf.Ctx, idx int, sc rawScript, descs []*conn.ChannelDescriptor, P, capacity int, r *rand.Rand) {
	cfg := conn.DefaultMConnConfig()
	cfg.MaxPacketMsgPayloadSize = P
	cfg.FlushThrottle = 2 * time.Millisecond
	cfg.SendRate, cfg.RecvRate = 0, 0
	cfg.PingInterval, cfg.PongTimeout = 20*time.Second, 15*time.Second
	victimEnd, ours := newPipe(r, 1+r.IntN(40), 16)
	v := newSide("victim", victimEnd, descs, cfg)
	v.m.Start()
	tag := fmt.Sprintf("raw/%d/%d/%s", c.Seed, idx, sc.kind)
	w := map[string]any{"case": tag, "kind": sc.kind, "payload_size": P, "capacity": capacity, "seed": c.Seed}
	// drain whatever the victim sends
	go io.Copy(io.Discard, ours.Conn)
	var script []string
	var stream []byte
	for _, st := range sc.steps {
		if st.pkt != nil {
			stream = append(stream, enc(*st.pkt)...)
			script = append(script, fmt.Sprintf("Msg{ch=%X eof=%d len=%d}", st.pkt.ChannelID, st.pkt.EOF, len(st.pkt.Bytes)))
		} else {
			stream = append(stream, st.bytes...)
			script = append(script, fmt.Sprintf("raw[%d]%s", len(st.bytes), st.marker))
		}
	}
	w["script"] = script
	w["stream_hex"] = vf.Hex(stream)
	wrote := make(chan struct{})
	go func() { ours.Write(stream); close(wrote) }() // fails with ErrClosedPipe once the victim closed
	errorBeforeClose := false
	if sc.mustError {
		if !waitCh(c, tag+" (onError)", v.errCh) {
			ours.Close()
			v.m.Stop()
			return
		}
		errorBeforeClose = true
	} else {
		// wait until everything was handed over (or the victim gave up), then close our end
		fin := make(chan struct{})
		go func() {
			select {
			case <-wrote:
			case <-v.errCh:
			}
			close(fin)
		}()
		if !waitCh(c, tag+" (write)", fin) {
			ours.Close()
			v.m.Stop()
			return
		}
		select {
		case <-v.errCh:
			errorBeforeClose = true
		default:
		}
	}
	ours.Close()
	if !waitCh(c, tag+" (onError after close)", v.errCh) {
		v.m.Stop()
		return
	}
	<-wrote
	v.m.Stop()
	got, errs := v.snapshot()
	c.Case(tag, true)
	c.Count("raw_scripts", 1)
	c.Count("raw:"+sc.kind, 1)
	if errorBeforeClose {
		c.Count("raw_onerror_before_close", 1)
	}
	w["errors"] = fmt.Sprint(errs)
	if len(errs) != 1 {
		c.Violation("raw:onerror-count", w, "onError called %d times (%v)", len(errs), errs)
		return
	}
	if strings.Contains(errs[0].Error(), "recovered from panic") {
		c.Count("raw_recovered_panics", 1)
	}
	// replay the script against the deliveries
	type chState struct {
		acc  []byte
		next int
	}
	st := map[byte]*chState{1: {}, 2: {}}
	for _, step := range sc.steps {
		if step.pkt == nil {
			break // after raw bytes nothing more can be attributed
		}
		p := step.pkt
		s, known := st[p.ChannelID]
		if !known {
			break
		}
		s.acc = append(s.acc, p.Bytes...)
		deliveries := got[p.ChannelID]
		switch {
		case p.EOF == 1:
			if len(s.acc) > capacity {
				break
			}
			if s.next >= len(deliveries) {
				// legal only if the connection failed before this packet was processed
				if sc.mustError || sc.kind == "oversized-packet" {
					goto check
				}
				c.Violation("raw:complete-message-not-delivered", w, "script %v: the message completed by packet %v was not delivered", script, fmtPkt(p))
				return
			}
			if !bytes.Equal(deliveries[s.next], s.acc) {
				c.Violation("raw:partial-or-wrong-delivery", w, "script %v: delivery #%d on channel %X has %d bytes, the message assembled from the packets has %d", script, s.next, p.ChannelID, len(deliveries[s.next]), len(s.acc))
				return
			}
			s.next++
			s.acc = nil
		case p.EOF != 0:
			// documented as "not the end"; tolerate either reading, but only at this boundary
			if s.next < len(deliveries) && bytes.Equal(deliveries[s.next], s.acc) {
				s.next++
				s.acc = nil
				c.Count("raw_eof_other_treated_as_end", 1)
			} else {
				c.Count("raw_eof_other_treated_as_continuation", 1)
			}
		}
	}
check:
	for ch, s := range st {
		if len(got[ch]) > s.next {
			extra := got[ch][s.next]
			c.Violation("raw:partial-or-wrong-delivery", w, "script %v: channel %X got %d deliveries, only %d are complete messages of the script; extra delivery of %d bytes (unfinished message bytes: %d)", script, ch, len(got[ch]), s.next, len(extra), len(s.acc))
			return
		}
	}
	if sc.mustError && !errorBeforeClose {
		c.Violation("raw:no-error:"+sc.kind, w, "script %v did not make the connection fail", script)
	}
}

func fmtPkt(p *conn.PacketMsg) string {
	return fmt.Sprintf("Msg{ch=%X eof=%d len=%d}", p.ChannelID, p.EOF, len(p.Bytes))
}
