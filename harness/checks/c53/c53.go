// Package c53: genesis application is deterministic and representation-independent.
//
// Oracle: one generated genesis applied (a) in memory (GnoGenesisState), (b)
// streamed from disk through LoadStreamingGenesisDoc (cold cache), (c) streamed
// again (cache hit), (d) decoded from the JSON file in one piece, (e) in memory
// a second time — must give identical InitChain tx responses (consensus fields +
// gas) and the identical first commit hash, and identical committed contents.
package c53

import (
	"strings"
	"fmt"
	abci "github.com/gnolang/gno/tm2/pkg/bft/abci/types"
	"math/rand/v2"
	"os"
	"path/filepath"
	"time"

	"github.com/gnolang/gno/gno.land/pkg/gnoland"
	"github.com/gnolang/gno/gno.land/pkg/sdk/vm"
	"github.com/gnolang/gno/tm2/pkg/amino"
	bft "github.com/gnolang/gno/tm2/pkg/bft/types"
	"github.com/gnolang/gno/tm2/pkg/log"
	"github.com/gnolang/gno/tm2/pkg/std"

	"verifharness/internal/audit"
	"verifharness/internal/chainsim"
	"verifharness/internal/hist"
	"verifharness/internal/vf"
)

func init() {
	vf.Register(&vf.Check{
		ID:    "C53",
		Level: "exploration",
		Rule: "case = (generated genesis, application mode) with modes in-memory / streamed cold / streamed cached / whole-file JSON decode / in-memory again; genesis = random balances (duplicates, vesting), " +
			"realm and package deployments, succeeding and failing genesis txs with and without metadata, multi-message txs; non-trivial = the genesis holds >= 1 succeeding and >= 1 failing tx; distinct by (genesis seed, mode)",
		Run: run,
	})
}

func genGenesis(ch *chainsim.Chain, rng *rand.Rand, big int) gnoland.GnoGenesisState {
	st := hist.Genesis(ch)
	// extra balances: new addresses, duplicates of existing entries, vesting accounts
	n := 3 + rng.IntN(12)
	for i := 0; i < n; i++ {
		a := ch.Acc(fmt.Sprintf("g%d", rng.IntN(8)))
		b := gnoland.Balance{Address: a.Addr, Amount: std.Coins{{Denom: "ugnot", Amount: int64(1 + rng.IntN(1_000_000_000))}}}
		if rng.IntN(4) == 0 {
			t0 := ch.Time.Unix()
			b.Vesting = &std.VestingSchedule{OriginalVesting: std.Coins{{Denom: "ugnot", Amount: 1 + b.Amount[0].Amount/2}}, StartTime: t0 + int64(rng.IntN(100)), EndTime: t0 + 1000 + int64(rng.IntN(1000))}
			if rng.IntN(2) == 0 {
				b.Vesting.Type = std.VestingDelayed
			}
		}
		st.Balances = append(st.Balances, b)
	}
	dep := ch.Acc("alice")
	fee := chainsim.Fee(400_000_000, 1_000_000)
	add := func(msgs []std.Msg, meta *gnoland.GnoTxMetadata) {
		st.Txs = append(st.Txs, gnoland.TxWithMetadata{Tx: std.Tx{Msgs: msgs, Fee: fee, Signatures: []std.Signature{{}}}, Metadata: meta})
	}
	m := 4 + rng.IntN(10)
	bigAt := -1
	if big >= 0 {
		bigAt = 1 + rng.IntN(m-2) // never first or last: txs follow it
	}
	for i := 0; i < m; i++ {
		var meta *gnoland.GnoTxMetadata
		if i == bigAt {
			// one element of the genesis whose serialised form is around / above 64 KiB, 1 MiB or 2 MiB
			size := []int{1_050_000, 2_100_000, 1_200_000, 66_000, 1_048_000, 65_000}[big%6]
			p := fmt.Sprintf("gno.land/r/verif/big%d", i)
			body := fmt.Sprintf("package big%d\n\nvar X = %d\n\n/*\n%s\n*/\n", i, rng.IntN(99), strings.Repeat("0123456789abcdef0123456789abcdef0123456789abcdef0123456789abcde\n", size/64))
			add([]std.Msg{vm.NewMsgAddPackage(dep.Addr, p, chainsim.Files(p, map[string]string{"a.gno": body}))}, nil)
			continue
		}
		if rng.IntN(2) == 0 {
			meta = &gnoland.GnoTxMetadata{Timestamp: ch.Time.Unix() - int64(rng.IntN(100000))}
		}
		switch rng.IntN(6) {
		case 0:
			add([]std.Msg{vm.NewMsgCall(dep.Addr, nil, hist.StorePath, "Push", []string{fmt.Sprintf("t%d", i)})}, meta)
		case 1:
			add([]std.Msg{vm.NewMsgCall(dep.Addr, nil, hist.StorePath, "Fail", []string{"genesis"})}, meta) // fails
		case 2:
			p := fmt.Sprintf("gno.land/r/verif/g%d", i)
			add([]std.Msg{vm.NewMsgAddPackage(dep.Addr, p, chainsim.Files(p, map[string]string{"a.gno": fmt.Sprintf("package g%d\n\nvar X = %d\n\nfunc Inc(cur realm) int { X++; return X }\n", i, rng.IntN(99))}))}, meta)
		case 3:
			add([]std.Msg{vm.NewMsgCall(dep.Addr, nil, hist.PeerPath, "Relay", []string{"gen"}), vm.NewMsgCall(dep.Addr, nil, hist.StorePath, "BigGrow", []string{fmt.Sprint(rng.IntN(20))})}, meta)
		case 4:
			add([]std.Msg{vm.NewMsgCall(dep.Addr, nil, hist.StorePath, "NoSuchFunction", nil)}, meta) // fails
		default:
			add([]std.Msg{vm.NewMsgRun(dep.Addr, nil, []*std.MemFile{{Name: "main.gno", Body: "package main\n\nimport \"gno.land/r/verif/store\"\n\nfunc main(cur realm) {\n\tprintln(store.SetArr(cross(cur), 1, 7))\n}\n"}})}, meta)
		}
	}
	return st
}

type outcome struct {
	init string
	hash string
	main *audit.KV
	base *audit.KV
	err  string
}

func apply(appState any, seedTime time.Time) outcome {
	ch, err := chainsim.New(chainsim.Options{})
	if err != nil {
		panic(err)
	}
	defer ch.Close()
	ch.Time = seedTime
	var r abci.ResponseInitChain
	var o outcome
	if pv := vf.Try(func() { r = ch.InitChain(appState) }); pv != nil {
		// a panic during InitChain is this mode's outcome (the node would not start)
		o.err = fmt.Sprint("panic: ", pv)
		return o
	}
	if r.Error != nil {
		o.err = r.Error.Error()
		return o
	}
	o.init = chainsim.InitKey(r)
	bt := ch.RunBlock()
	o.hash = fmt.Sprintf("%x", bt.AppHash)
	st, _, err := audit.Snapshot(ch.DB, 0)
	if err != nil {
		panic(err)
	}
	o.main, o.base = st.Main, st.Base
	return o
}

func run(c *vf.Ctx) {
	n := c.N(2, 16)
	c.Parallel(n, 4, 1500, func(i int, rng *rand.Rand) {
		seed := uint64(c.Seed)*100 + uint64(i)
		proto, _ := chainsim.New(chainsim.Options{})
		t0 := proto.Time
		bigIdx := -1
		if i%2 == 0 {
			bigIdx = int(c.Seed) % 3 // the first genesis of a run always carries an element above 1 MiB
			if i > 0 {
				bigIdx = i/2 + int(c.Seed)
			}
		}
		st := genGenesis(proto, rng, bigIdx)
		proto.Close()
		ok, fail := 0, 0
		ref := apply(st, t0)
		if ref.err != "" {
			c.Violation("reference-initchain-error", map[string]any{"seed": seed}, "in-memory InitChain failed: %s", ref.err)
			return
		}
		// count outcomes of genesis txs from the reference responses
		for _, line := range splitLines(ref.init) {
			_ = line
		}
		refCh, _ := chainsim.New(chainsim.Options{})
		refCh.Time = t0
		rr := refCh.InitChain(st)
		for _, tr := range rr.TxResponses {
			if tr.Error == nil {
				ok++
			} else {
				fail++
			}
		}
		refCh.Close()
		c.Count("genesis_txs_ok", ok)
		c.Count("genesis_txs_failed", fail)
		c.Count("genesis_balances", len(st.Balances))
		// write the genesis document
		dir := filepath.Join(c.WorkDir, fmt.Sprintf("g%d", i))
		os.MkdirAll(dir, 0o755)
		doc := &bft.GenesisDoc{GenesisTime: t0, ChainID: chainsim.ChainID, AppState: st}
		file := filepath.Join(dir, "genesis.json")
		if err := doc.SaveAs(file); err != nil {
			panic(err)
		}
		modes := []struct {
			name string
			get  func() (any, error)
		}{
			{"streamed-cold", func() (any, error) {
				d, err := gnoland.LoadStreamingGenesisDoc(file, filepath.Join(dir, "cache"), log.NewNoopLogger())
				if err != nil {
					return nil, err
				}
				return d.AppState, nil
			}},
			{"streamed-cached", func() (any, error) {
				d, err := gnoland.LoadStreamingGenesisDoc(file, filepath.Join(dir, "cache"), log.NewNoopLogger())
				if err != nil {
					return nil, err
				}
				return d.AppState, nil
			}},
			{"json-whole-file", func() (any, error) {
				bz, err := os.ReadFile(file)
				if err != nil {
					return nil, err
				}
				var d bft.GenesisDoc
				if err := amino.UnmarshalJSON(bz, &d); err != nil {
					return nil, err
				}
				return d.AppState, nil
			}},
			{"in-memory-again", func() (any, error) { return st, nil }},
		}
		if i == 0 {
			c.Sample(map[string]any{"genesis_seed": seed, "balances": len(st.Balances), "txs": len(st.Txs), "ok": ok, "failed": fail, "modes": []string{"in-memory", "streamed-cold", "streamed-cached", "json-whole-file", "in-memory-again"}})
		}
		for _, m := range modes {
			c.Case(fmt.Sprintf("%d/%s", seed, m.name), ok > 0 && fail > 0)
			w := map[string]any{"genesis_seed": seed, "mode": m.name, "genesis_file_kept": false}
			as, err := m.get()
			if err != nil {
				c.Violation("load-error:"+m.name, w, "mode %s: cannot load the genesis: %v", m.name, err)
				continue
			}
			got := apply(as, t0)
			switch {
			case got.err != "":
				c.Violation("initchain-error:"+m.name, w, "mode %s: InitChain error %s (in-memory succeeded)", m.name, got.err)
			case got.init != ref.init:
				c.Violation("genesis-results-differ:"+m.name, w, "mode %s: genesis tx responses differ from the in-memory application", m.name)
			case got.hash != ref.hash:
				d := audit.DiffKV(ref.main, got.main)
				d2 := audit.DiffKV(ref.base, got.base)
				c.Violation("first-commit-hash-differs:"+m.name, w, "mode %s: first commit hash %s vs in-memory %s; main keys differing %v, base keys differing %d", m.name, got.hash, ref.hash, head(d.All(), 5), len(d2.All()))
			}
			c.Count("mode:"+m.name, 1)
		}
	})
	c.Assume("validators list is empty and InitialHeight is 1 in all generated genesis documents; hardfork replay fields (PastChainIDs, SignerInfo, GasReplayMode) are not generated")
	c.RequireCounter("genesis_txs_ok", 3)
	c.RequireCounter("genesis_txs_failed", 1)
	c.RequireCounter("mode:streamed-cold", 1)
	c.RequireCounter("mode:streamed-cached", 1)
}

func splitLines(s string) []string { return nil }

func head(a []string, n int) []string {
	if len(a) > n {
		return a[:n]
	}
	return a
}
