// Package c28: queries never interfere with consensus and see one committed version.
//
// The production app executes a block stream while goroutines issue queries and
// simulations on a separate "query connection" (serialised among themselves by
// their own mutex, never with the consensus calls — the topology
// proxy.NewLocalClientCreator builds). Monitors:
//
//	(1) app hashes and tx results equal those of a quiet reference run;
//	(2) every query answer is consistent with ONE committed height: a probe realm
//	    writes (h, 7h+3, ...) in one tx per block and two accounts keep a constant
//	    sum of a realm coin, all read back by a single qeval; the observed height S
//	    satisfies  committed-before-request ≤ S ≤ commit-started-before-response;
//	(3) (engine built with -race) the race detector stays silent.
package c28

import (
	"fmt"
	"math/rand/v2"
	"os"
	"path/filepath"
	"strconv"
	"strings"
	"sync"
	"sync/atomic"
	"time"

	abci "github.com/gnolang/gno/tm2/pkg/bft/abci/types"
	dbm "github.com/gnolang/gno/tm2/pkg/db"
	"github.com/gnolang/gno/tm2/pkg/db/memdb"
	_ "github.com/gnolang/gno/tm2/pkg/db/pebbledb"
	"github.com/gnolang/gno/tm2/pkg/sdk"
	"github.com/gnolang/gno/tm2/pkg/std"
	storetypes "github.com/gnolang/gno/tm2/pkg/store/types"

	"verifharness/internal/chainsim"
	"verifharness/internal/hist"
	"verifharness/internal/vf"
)

func init() {
	vf.Register(&vf.Check{
		ID:    "C28",
		Level: "exploration",
		Rule: "case = one query/simulation answered while the block stream runs (kinds: probe pair qeval, render-like heavy qeval, qfile, qfuncs, .store with height, auth account, bank balances, .app/simulate of a state-writing call) plus one case per block for the hash/result comparison; " +
			"non-trivial = the query overlapped a consensus call (BeginBlock..Commit in progress at request or response time); distinct by (run, kind, request sequence number)",
		Run: run,
	})
}

const probePath = "gno.land/r/verif/probe"
const probeSrc = `package probe

import (
	"chain/banker"
	"strconv"
)

var (
	H    int
	F    int
	List []int
	M    = map[string]int{}
)

const denom = "/gno.land/r/verif/peer:cns"

// Tick writes several objects that must all carry the same height.
func Tick(cur realm, h int) int {
	H = h
	List = append(List, h)
	if len(List) > 40 {
		List = List[len(List)-40:]
	}
	M["h"] = h
	M["g"] = 2 * h
	F = 7*h + 3
	return F
}

func Pair(a, b, z string) string {
	bk := banker.NewReadonlyBanker()
	last := 0
	if len(List) > 0 {
		last = List[len(List)-1]
	}
	return strconv.Itoa(H) + "," + strconv.Itoa(F) + "," + strconv.Itoa(last) + "," + strconv.Itoa(M["h"]) + "," + strconv.Itoa(M["g"]) + "," +
		strconv.Itoa(int(bk.GetCoin(address(a), denom))) + "," + strconv.Itoa(int(bk.GetCoin(address(b), denom))) + "," + strconv.Itoa(int(bk.GetCoin(address(z), denom)))
}

// Slow reads H first, computes for a while, and only then touches the slice, the map and F:
// objects that are loaded from the store when first used.
func Slow(n int) string {
	h0 := H
	x := 0
	for i := 0; i < n; i++ {
		x += i & 3
	}
	last := 0
	if len(List) > 0 {
		last = List[len(List)-1]
	}
	return strconv.Itoa(h0) + "," + strconv.Itoa(F) + "," + strconv.Itoa(last) + "," + strconv.Itoa(M["h"]) + "," + strconv.Itoa(x)
}

// Heavy burns query gas while reading state at both ends.
func Heavy(n int) string {
	h0 := H
	x := 0
	for i := 0; i < n; i++ {
		x += i & 3
	}
	return strconv.Itoa(h0) + "," + strconv.Itoa(F) + "," + strconv.Itoa(x)
}
`

const tokTotal = 100000

// probeDenom is issued only by the setup tx of this check: no generated tx mints, burns or sends it,
// so alice+bob hold tokTotal of it at every height and zed holds one unit per tick.
const probeDenom = "/gno.land/r/verif/peer:cns"

type obs struct {
	kind    string
	lo, hi  int64 // committed before request, commit-started before response
	overlap bool
	resp    abci.ResponseQuery
}

func buildBlocks(c *vf.Ctx, rng *rand.Rand, n int) [][]hist.TxSpec {
	h := hist.GenP(rng, uint64(c.Seed), n, 3, hist.Profile{})
	for i := range h.Blocks {
		height := i + 3 // genesis block 1, setup block 2
		tick := hist.TxSpec{Signer: "dave", Gas: 60_000_000, Fee: 1_000_000, Label: "tick", Msgs: []hist.MsgSpec{{Kind: "call", Pkg: probePath, Func: "Tick", Args: []string{strconv.Itoa(height)}},
			// the same tx moves one coin in the (versioned) bank store: zed's balance counts the ticks
			{Kind: "send", To: "zed", Amount: 1, Denom: probeDenom}}}
		from, to := "alice", "bob"
		if i%2 == 1 {
			from, to = "bob", "alice"
		}
		mv := hist.TxSpec{Signer: from, Gas: 20_000_000, Fee: 1_000_000, Label: "move", Msgs: []hist.MsgSpec{{Kind: "send", To: to, Amount: int64(1 + rng.IntN(300)), Denom: probeDenom}}}
		// keep generated txs of alice/bob/dave out (their sequences are used by the fixed txs)
		var keep []hist.TxSpec
		for _, t := range h.Blocks[i] {
			if t.Signer == "carol" {
				keep = append(keep, t)
			}
		}
		h.Blocks[i] = append([]hist.TxSpec{tick, mv}, keep...)
	}
	return h.Blocks
}

type runner struct {
	ch          *chainsim.Chain
	committed   atomic.Int64
	commitStart atomic.Int64
	inConsensus atomic.Bool
}

// snapDB lets the harness act at the moment the store takes the point-in-time view that queries
// will read (rootmulti refreshQuerySnapshot, inside Commit): before is called first, then the
// backend's own NewSnapshot.
type snapDB struct {
	dbm.DB
	before atomic.Pointer[func()]
}

func (d *snapDB) NewSnapshot() (dbm.Snapshot, error) {
	if f := d.before.Load(); f != nil {
		(*f)()
	}
	return d.DB.NewSnapshot()
}

// wrapDB, when set, wraps the database a new runner is built on.
var wrapDB func(dbm.DB) dbm.DB

func newRunner(c *vf.Ctx, backend, tag string, prune ...storetypes.PruneStrategy) *runner {
	var db dbm.DB
	if backend != "memdb" {
		dir := filepath.Join(c.WorkDir, tag)
		os.MkdirAll(dir, 0o755)
		var err error
		db, err = dbm.NewDB("app", dbm.BackendType(backend), dir)
		if err != nil {
			panic(err)
		}
	}
	if wrapDB != nil {
		if db == nil {
			db = memdb.NewMemDB()
		}
		db = wrapDB(db)
	}
	opts := chainsim.Options{DB: db}
	if len(prune) > 0 {
		opts.Prune = prune[0]
	}
	ch, err := chainsim.New(opts)
	if err != nil {
		panic(err)
	}
	st := hist.Genesis(ch)
	st.Txs = append(st.Txs, chainsim.GenesisAddPkgTx(ch.Acc("alice"), probePath, map[string]string{"probe.gno": probeSrc}))
	r := ch.InitChain(st)
	if r.Error != nil {
		panic(r.Error)
	}
	for i, tr := range r.TxResponses {
		if tr.Error != nil {
			panic(fmt.Sprintf("genesis tx %d: %s", i, tr.Log))
		}
	}
	ch.RunBlock()
	// setup block: mint the constant-sum coin to alice
	a := ch.Acc("alice")
	tr := ch.OneTx([]std.Msg{
		chainsim.MsgCall(a, hist.PeerPath, "Mint", a.Addr.String(), "cns", strconv.Itoa(tokTotal)),
		chainsim.MsgCall(a, hist.PeerPath, "Mint", ch.Acc("dave").Addr.String(), "cns", "5000"),
	}, chainsim.Fee(120_000_000, 1_000_000), a)
	if !tr.OK {
		panic("mint failed: " + tr.ErrString)
	}
	rn := &runner{ch: ch}
	rn.committed.Store(ch.Height)
	rn.commitStart.Store(ch.Height)
	return rn
}

func (rn *runner) play(blocks [][]hist.TxSpec) {
	ch := rn.ch
	for _, blk := range blocks {
		rn.inConsensus.Store(true)
		ch.BeginBlock()
		for _, t := range blk {
			tr := hist.PlayTx(ch, t)
			if chainsim.AntePassed(tr) {
				ch.Acc(t.Signer).Seq++
			}
		}
		rn.commitStart.Store(ch.Height)
		ch.EndBlockCommit()
		rn.committed.Store(ch.Height)
		rn.inConsensus.Store(false)
	}
}

func run(c *vf.Ctx) {
	nBlocks := c.N(25, 400)
	backends := []string{"memdb", "pebbledb"}
	rng := c.Rng(1)
	blocks := buildBlocks(c, rng, nBlocks)
	c.Sample(map[string]any{"first_block": blocks[0], "query_kinds": []string{"pair", "heavy", "qfile", "qfuncs", "store", "account", "balances", "simulate"}})
	for bi, backend := range backends {
		// quiet reference
		ref := newRunner(c, backend, fmt.Sprintf("ref-%d", bi))
		ref.play(blocks)
		refTrace := chainsim.TraceKey(ref.ch.Trace)
		ref.ch.Close()
		// noisy run
		rn := newRunner(c, backend, fmt.Sprintf("noisy-%d", bi))
		alice, bob := rn.ch.Acc("alice").Addr.String(), rn.ch.Acc("bob").Addr.String()
		zed := rn.ch.Acc("zed").Addr.String()
		var queryMtx sync.Mutex // the query connection's own mutex
		var wg sync.WaitGroup
		stop := atomic.Bool{}
		var mu sync.Mutex
		var all []obs
		simTx := func() []byte {
			// a state-writing call signed with a stale-proof key: simulate does not verify... use carol's current sequence
			ca := *rn.ch.Acc("erin") // never funded: simulate fails in ante but must not disturb anything
			tx := rn.ch.SignTx([]std.Msg{chainsim.MsgCall(&ca, hist.StorePath, "Push", "sim")}, chainsim.Fee(50_000_000, 1_000_000), &ca)
			return chainsim.TxBytes(tx)
		}()
		nq := c.N(4, 12)
		for g := 0; g < nq; g++ {
			wg.Add(1)
			go func(g int) {
				defer wg.Done()
				r := c.Rng(uint64(1000 + bi*100 + g))
				for !stop.Load() {
					var req abci.RequestQuery
					kind := ""
					switch r.IntN(9) {
					case 0, 1, 2:
						kind, req = "pair", abci.RequestQuery{Path: "vm/qeval", Data: []byte(probePath + ".Pair(\"" + alice + "\",\"" + bob + "\",\"" + zed + "\")")}
					case 3:
						kind, req = "heavy", abci.RequestQuery{Path: "vm/qeval", Data: []byte(probePath + ".Heavy(" + strconv.Itoa(1000+r.IntN(60000)) + ")")}
					case 4:
						kind, req = "qfile", abci.RequestQuery{Path: "vm/qfile", Data: []byte(hist.StorePath)}
					case 5:
						kind, req = "qfuncs", abci.RequestQuery{Path: "vm/qfuncs", Data: []byte(hist.StorePath)} // (qfuncs panics on realms with a package-level closure variable, e.g. the peer realm: observed, outside this property)
					case 6:
						kind, req = "account", abci.RequestQuery{Path: "auth/accounts/" + alice}
					case 7:
						kind, req = "balances", abci.RequestQuery{Path: "bank/balances/" + bob}
					default:
						kind, req = "simulate", abci.RequestQuery{Path: ".app/simulate", Data: simTx}
					}
					queryMtx.Lock()
					lo := rn.committed.Load()
					ov := rn.inConsensus.Load()
					var resp abci.ResponseQuery
					if pv := vf.Try(func() { resp = rn.ch.App.Query(req) }); pv != nil {
						c.Count("query_panics_recovered:"+kind, 1)
						resp.Error = abci.StringError(fmt.Sprint("panic: ", pv))
					}
					hi := rn.commitStart.Load()
					ov = ov || rn.inConsensus.Load()
					queryMtx.Unlock()
					mu.Lock()
					all = append(all, obs{kind: kind, lo: lo, hi: hi, overlap: ov, resp: resp})
					mu.Unlock()
				}
			}(g)
		}
		rn.play(blocks)
		stop.Store(true)
		wg.Wait()
		noisyTrace := chainsim.TraceKey(rn.ch.Trace)
		rn.ch.Close()
		for i := range blocks {
			c.Case(fmt.Sprintf("%s/block/%d", backend, i), true)
		}
		if noisyTrace != refTrace {
			c.Violation("block-results-differ-under-queries:"+backend, map[string]any{"backend": backend, "blocks": len(blocks)}, "backend %s: app hashes / tx results with concurrent queries differ from the quiet run: %s", backend, firstDiff(refTrace, noisyTrace))
		}
		c.Count("blocks_compared", len(blocks))
		// ---- injected schedule: a whole block commits between the moment a query has chosen
		// its height and the moment it pins the committed state it reads (hook in tm2/pkg/sdk)
		{
			gr := newRunner(c, backend, fmt.Sprintf("gap-%d", bi))
			ga, gb, gz := gr.ch.Acc("alice").Addr.String(), gr.ch.Acc("bob").Addr.String(), gr.ch.Acc("zed").Addr.String()
			next := 0
			for next < len(blocks) && next < 3 {
				gr.play(blocks[next : next+1])
				next++
			}
			for next < len(blocks) && next < c.N(15, 60) {
				fired := false
				hook := func() {
					if fired {
						return
					}
					fired = true
					gr.play(blocks[next : next+1])
					next++
				}
				sdk.VerifQueryGap.Store(&hook)
				lo := gr.committed.Load()
				var resp abci.ResponseQuery
				req := abci.RequestQuery{Path: "vm/qeval", Data: []byte(probePath + ".Pair(\"" + ga + "\",\"" + gb + "\",\"" + gz + "\")")}
				pv := vf.Try(func() { resp = gr.ch.App.Query(req) })
				sdk.VerifQueryGap.Store(nil)
				hi := gr.commitStart.Load()
				c.Case(fmt.Sprintf("%s/gap/%d", backend, next), true)
				w := map[string]any{"backend": backend, "kind": "pair", "injected": "one block committed between height choice and state pinning", "committed_before_request": lo, "commit_started_before_response": hi, "data": clip(string(resp.Data))}
				if !fired {
					c.Inconclusive("query-gap hook not reached (build without the verif tag?)")
					break
				}
				c.Count("gap_queries", 1)
				if pv != nil || resp.Error != nil {
					c.Violation("query-error-under-load:pair-gap", w, "backend %s: pair query failed when a block committed inside it: %v %v", backend, pv, resp.Error)
					continue
				}
				checkPair(c, backend, obs{kind: "pair", lo: lo, hi: hi, overlap: true, resp: resp}, w, "")
			}
			// ---- the same injected schedule on a node that prunes every old version, with a CheckTx (mempool
			// admission: uncommitted sequence bump and fee debit in the check state) right after the commit:
			// the answer is an error or committed state, never the pending check state
			if backend == "memdb" {
				pr := newRunner(c, backend, fmt.Sprintf("gap-prune-%d", bi), storetypes.PruneEverythingStrategy)
				nx := 0
				for nx < len(blocks) && nx < 3 {
					pr.play(blocks[nx : nx+1])
					nx++
				}
				carol := pr.ch.Acc("carol")
				for nx < len(blocks) && nx < c.N(12, 40) {
					fired := false
					var seqCommitted uint64
					hook := func() {
						if fired {
							return
						}
						fired = true
						pr.play(blocks[nx : nx+1])
						nx++
						pr.ch.SyncAccount(carol)
						seqCommitted = carol.Seq
						tx := pr.ch.SignTx([]std.Msg{chainsim.MsgCall(carol, hist.StorePath, "Push", "pending")}, chainsim.Fee(60_000_000, 1_000_000), carol)
						pr.ch.App.CheckTx(abci.RequestCheckTx{Tx: chainsim.TxBytes(tx)})
					}
					sdk.VerifQueryGap.Store(&hook)
					var resp abci.ResponseQuery
					pv := vf.Try(func() { resp = pr.ch.App.Query(abci.RequestQuery{Path: "auth/accounts/" + carol.Addr.String()}) })
					sdk.VerifQueryGap.Store(nil)
					c.Case(fmt.Sprintf("%s/gap-pruned/%d", backend, nx), true)
					if !fired {
						break
					}
					c.Count("gap_queries_on_pruning_node", 1)
					w := map[string]any{"backend": backend, "kind": "account", "injected": "block committed (older version pruned) + CheckTx of a tx of the queried account between height choice and state pinning", "committed_sequence": seqCommitted, "data": clip(string(resp.Data))}
					if pv != nil {
						c.Violation("query-panics:account-gap-pruned", w, "account query panicked: %v", pv)
						continue
					}
					if resp.Error != nil {
						c.Count("gap_queries_on_pruning_node_refused", 1) // an error is not a mixed or uncommitted answer
						continue
					}
					if got, ok := seqOf(resp.Data); ok && got > seqCommitted {
						c.Violation("query-sees-uncommitted-state:check-state", w, "backend %s: the account query answered sequence %d while the committed sequence is %d: it read the mempool check state (a pending CheckTx), not a committed height", backend, got, seqCommitted)
					}
				}
				pr.ch.Close()
			}
			// ---- injected schedule: a long query pins its state at the very moment Commit renews the
			// point-in-time view for queries (between the block's writes and the new view), and two more
			// blocks commit before it touches most of its objects: all of them must still be one version
			refreshPhase(c, backend, bi, blocks)
			// ---- explicit past heights (no concurrency at all): the answer must be the state of that height
			for back := int64(1); back <= 3; back++ {
				hq := gr.committed.Load() - back
				if hq < 4 {
					break
				}
				var resp abci.ResponseQuery
				req := abci.RequestQuery{Path: "vm/qeval", Height: hq, Data: []byte(probePath + ".Pair(\"" + ga + "\",\"" + gb + "\",\"" + gz + "\")")}
				pv := vf.Try(func() { resp = gr.ch.App.Query(req) })
				c.Case(fmt.Sprintf("%s/past-height/%d", backend, back), true)
				w := map[string]any{"backend": backend, "kind": "pair", "requested_height": hq, "latest": gr.committed.Load(), "data": clip(string(resp.Data))}
				if pv != nil || resp.Error != nil {
					c.Count("past_height_query_refused", 1) // pruned or unsupported: an error is a single-height answer
					continue
				}
				c.Count("past_height_queries_answered", 1)
				checkPair(c, backend, obs{kind: "pair", lo: hq, hi: hq, overlap: false, resp: resp}, w, ":explicit-past-height")
			}
			gr.ch.Close()
		}
		// ---- single-version consistency of answers
		for i, o := range all {
			c.Case(fmt.Sprintf("%s/%s/%d", backend, o.kind, i), o.overlap)
			c.Count("queries:"+o.kind, 1)
			if o.overlap {
				c.Count("queries_overlapping_consensus", 1)
			}
			w := map[string]any{"backend": backend, "kind": o.kind, "committed_before_request": o.lo, "commit_started_before_response": o.hi, "data": clip(string(o.resp.Data))}
			if o.kind == "simulate" {
				continue
			}
			if o.resp.Error != nil {
				c.Violation("query-error-under-load:"+o.kind, w, "backend %s: %s query failed while blocks were executing: %s", backend, o.kind, clip(o.resp.Error.Error()))
				continue
			}
			switch o.kind {
			case "pair":
				checkPair(c, backend, o, w, "")
			case "heavy":
				f := ints(string(o.resp.Data))
				if len(f) >= 2 && f[1] != 7*f[0]+3 && !(f[0] == 0 && f[1] == 0) {
					c.Violation("query-mixes-versions:heavy", w, "backend %s: Heavy() read H=%d at its start and F=%d at its end (F should be 7H+3)", backend, f[0], f[1])
				}
			}
		}
	}
	c.Assume("queries are serialised among themselves by one mutex, as the read-only ABCI connection does; they run concurrently with consensus calls")
	c.Assume("the observed-height window uses the harness's own atomics: committed (set after Commit returns) and commit-started (set just before EndBlock/Commit)")
	c.RequireCounter("queries:pair", 20)
	c.RequireCounter("queries_overlapping_consensus", 20)
	c.RequireCounter("pair_answers_checked", 20)
}

func refreshPhase(c *vf.Ctx, backend string, bi int, blocks [][]hist.TxSpec) {
	var sd *snapDB
	wrapDB = func(d dbm.DB) dbm.DB { sd = &snapDB{DB: d}; return sd }
	rr := newRunner(c, backend, fmt.Sprintf("refresh-%d", bi))
	wrapDB = nil
	defer rr.ch.Close()
	nx := 0
	for nx < len(blocks) && nx < 3 {
		rr.play(blocks[nx : nx+1])
		nx++
	}
	slow := func(n int) (abci.ResponseQuery, any) {
		var resp abci.ResponseQuery
		pv := vf.Try(func() {
			resp = rr.ch.App.Query(abci.RequestQuery{Path: "vm/qeval", Data: []byte(probePath + ".Slow(" + strconv.Itoa(n) + ")")})
		})
		return resp, pv
	}
	// size the loop so that the query outlasts several blocks (detection power only, never a verdict)
	t0 := time.Now()
	slow(20000)
	perIter := time.Since(t0) / 20000
	t0 = time.Now()
	rr.play(blocks[nx : nx+1])
	nx++
	perBlock := time.Since(t0)
	n := 20000
	if perIter > 0 {
		n = int(6 * perBlock / perIter)
	}
	n = min(max(n, 20000), 400000)
	for round := 0; round < c.N(6, 20) && nx+2 < len(blocks); round++ {
		type ans struct {
			resp abci.ResponseQuery
			pv   any
		}
		done := make(chan ans, 1)
		reached := make(chan struct{}, 1)
		started := false
		var atPin int64
		before := func() {
			if started {
				return
			}
			started = true
			atPin = rr.committed.Load()
			hook := func() {
				select {
				case reached <- struct{}{}:
				default:
				}
			}
			sdk.VerifQueryGap.Store(&hook)
			go func() {
				resp, pv := slow(n)
				done <- ans{resp, pv}
			}()
			// the query pins its state right after the hook point; give it a moment to get there
			select {
			case <-reached:
				time.Sleep(20 * time.Millisecond)
			case <-time.After(3 * time.Second):
			}
			sdk.VerifQueryGap.Store(nil)
		}
		sd.before.Store(&before)
		rr.play(blocks[nx : nx+1]) // the query is started inside this block's Commit
		sd.before.Store(nil)
		nx++
		if !started {
			c.Inconclusive("the store did not ask the database for a point-in-time view during Commit: refresh phase not exercised")
			return
		}
		rr.play(blocks[nx : nx+2]) // two more blocks while the query computes
		nx += 2
		spanned := len(done) == 0
		a := <-done
		c.Case(fmt.Sprintf("%s/refresh/%d", backend, round), spanned)
		c.Count("refresh_queries", 1)
		if spanned {
			c.Count("refresh_queries_still_running_after_two_more_blocks", 1)
		}
		w := map[string]any{"backend": backend, "kind": "slow", "injected": "query started inside Commit, when the store renews its point-in-time view; two blocks committed before it finished", "committed_when_started": atPin, "committed_when_finished": rr.committed.Load(), "loop": n, "data": clip(string(a.resp.Data))}
		if a.pv != nil || a.resp.Error != nil {
			c.Count("refresh_queries_refused", 1) // an error is not a mixed answer
			continue
		}
		f := ints(string(a.resp.Data))
		if len(f) != 5 {
			c.Violation("slow-unparseable", w, "cannot parse probe answer %q", clip(string(a.resp.Data)))
			continue
		}
		c.Count("refresh_answers_checked", 1)
		if h := f[0]; h != 0 && (f[1] != 7*h+3 || f[2] != h || f[3] != h) {
			c.Violation("query-mixes-versions:pinned-during-view-renewal", w, "backend %s: a query that started while Commit renewed the query view read H=%d first and later F=%d last=%d M[h]=%d: not one committed version", backend, h, f[1], f[2], f[3])
		}
		if h := int64(f[0]); h != 0 && (h < atPin || h > atPin+1) {
			c.Violation("query-sees-wrong-height:pinned-during-view-renewal", w, "backend %s: the answer carries height %d; %d was committed when the query started inside the Commit of %d", backend, h, atPin, atPin+1)
		}
	}
	c.RequireCounter("refresh_answers_checked", 2)
}

func checkPair(c *vf.Ctx, backend string, o obs, w map[string]any, variant string) {
	f := ints(string(o.resp.Data))
	if len(f) != 8 {
		c.Violation("pair-unparseable"+variant, w, "cannot parse probe answer %q", clip(string(o.resp.Data)))
		return
	}
	c.Count("pair_answers_checked", 1)
	h := f[0]
	if h == 0 { // before the first Tick
		if f[1] != 0 || f[2] != 0 || f[3] != 0 || f[4] != 0 {
			c.Violation("query-mixes-versions:pair"+variant, w, "backend %s: probe answer %v mixes heights", backend, f)
		}
	} else if f[1] != 7*h+3 || f[2] != h || f[3] != h || f[4] != 2*h {
		c.Violation("query-mixes-versions:pair"+variant, w, "backend %s: probe answer H=%d F=%d last=%d M[h]=%d M[g]=%d is not one committed version", backend, h, f[1], f[2], f[3], f[4])
	}
	if f[5]+f[6] != tokTotal {
		c.Violation("query-mixes-versions:balances"+variant, w, "backend %s: the two balances read in one query sum to %d, not %d", backend, f[5]+f[6], tokTotal)
	}
	// cross-store: the tick tx also moved one coin to zed in the versioned bank store, so
	// at the height the realm objects carry, zed holds exactly (height - 2) coins
	if want := max(h-2, 0); f[7] != want {
		c.Violation("query-mixes-versions:objects-vs-bank"+variant, w, "backend %s: realm objects carry height %d but zed's balance is %d (the tick tx of every block moves one coin; %d expected): object store and bank store read at different heights", backend, h, f[7], want)
	}
	if h != 0 && (int64(h) < o.lo || int64(h) > o.hi) {
		c.Violation("query-sees-wrong-height"+variant, w, "backend %s: answer carries height %d but %d was committed before the request and commit of %d had started before the response (uncommitted or stale state)", backend, h, o.lo, o.hi)
	}
	if h == 0 && o.lo >= 3 {
		c.Violation("query-sees-wrong-height"+variant, w, "backend %s: answer predates the first tick although height %d was committed before the request", backend, o.lo)
	}
}

func ints(s string) []int {
	// data looks like ("1,2,3" string)
	i, j := strings.IndexByte(s, '"'), strings.LastIndexByte(s, '"')
	if i < 0 || j <= i {
		return nil
	}
	var out []int
	for _, p := range strings.Split(s[i+1:j], ",") {
		n, err := strconv.Atoi(p)
		if err != nil {
			return nil
		}
		out = append(out, n)
	}
	return out
}

func firstDiff(a, b string) string {
	la, lb := strings.Split(a, "\n"), strings.Split(b, "\n")
	for i := 0; i < len(la) && i < len(lb); i++ {
		if la[i] != lb[i] {
			return fmt.Sprintf("line %d: ref %s | got %s", i, clip(la[i]), clip(lb[i]))
		}
	}
	return "different length"
}

func clip(s string) string {
	if len(s) > 200 {
		return s[:200] + "…"
	}
	return s
}

// seqOf extracts "sequence" from an account query answer (JSON).
func seqOf(data []byte) (uint64, bool) {
	s := string(data)
	i := strings.Index(s, "\"sequence\"")
	if i < 0 {
		return 0, false
	}
	s = s[i+len("\"sequence\""):]
	s = strings.TrimLeft(s, ": \"")
	j := 0
	for j < len(s) && s[j] >= '0' && s[j] <= '9' {
		j++
	}
	n, err := strconv.ParseUint(s[:j], 10, 64)
	return n, err == nil
}
