// Package c41: block store and state store return exactly what was saved.
//
// Block store oracle: a map height -> the amino bytes of everything handed to
// SaveBlock (block, every part, derived meta, the block's LastCommit, the seen
// commit), captured before the call. After EVERY save every height saved so
// far is re-loaded through every API (LoadBlock, LoadBlockPart for every index,
// LoadBlockMeta, LoadBlockCommit, LoadSeenCommit) and through a store re-opened
// on the same DB, and compared byte for byte; absent heights load as nil;
// Height() equals the last saved height, never decreases, and rejected saves
// (non-contiguous, incomplete part set, nil block: documented panics) leave
// everything unchanged.
//
// State store oracle: a chain model written here - V[h] / P[h], the validator
// set (with proposer priorities) and consensus params in effect at height h,
// derived from a change schedule with the documented delays (validator updates
// returned at block b take effect at b+2, parameter updates at b+1) - generates
// the State values a node would save; only the states whose records the load
// API reads are saved (windows around k x valSetCheckpointInterval, the change
// heights, the checkpoint record, the genesis state). LoadValidators(h) and
// LoadConsensusParams(h) are compared with V[h] / P[h] for every h in the windows.
package c41

import (
	"bytes"
	"fmt"
	"math/rand/v2"
	"sort"
	"time"

	"github.com/gnolang/gno/tm2/pkg/amino"
	abci "github.com/gnolang/gno/tm2/pkg/bft/abci/types"
	sm "github.com/gnolang/gno/tm2/pkg/bft/state"
	"github.com/gnolang/gno/tm2/pkg/bft/store"
	"github.com/gnolang/gno/tm2/pkg/bft/types"
	"github.com/gnolang/gno/tm2/pkg/crypto/ed25519"
	dbm "github.com/gnolang/gno/tm2/pkg/db"
	"github.com/gnolang/gno/tm2/pkg/db/memdb"

	"verifharness/internal/vf"
)

// checkpointInterval mirrors state/store.go valSetCheckpointInterval (unexported);
// the check verifies the mirror against observable behaviour.
const checkpointInterval = 100000

// viol reports a violation and counts it per key (vf keeps at most 3 replays per key / 25 per run).
func viol(c *vf.Ctx, key string, w any, format string, a ...any) {
	c.Count("violations:"+key, 1)
	c.Violation(key, w, format, a...)
}

func init() {
	vf.Register(&vf.Check{
		ID:    "C41",
		Level: "exploration",
		Rule: "block store: cases = (chain, saved height, re-loaded height, API): chains of 4..40 random blocks (0..12 txs, part sizes 32..65536 so 1..200+ parts, first height 1 or >1), " +
			"after every save every earlier height is re-loaded by all 5 APIs and through a re-opened store; plus rejected saves. " +
			"state store: cases = (schedule, height, API): schedules of validator-set and consensus-param changes at heights placed around k*100000 (k=1..3), around the initial height (1 or right at the boundary) " +
			"and early in the chain; every height of the windows is loaded. non-trivial = re-load after a LATER save / part index > 0 / a height whose record is a reference (no full set stored) or lies at a checkpoint or change height; distinct by (chain hash, heights, API)",
		Run: run,
	})
}

// ---------------------------------------------------------------- block store

type savedBlock struct {
	height     int64
	blockBytes []byte   // amino sized
	hash       []byte   // block hash
	parts      [][]byte // amino of each part
	meta       []byte
	lastCommit []byte // amino of block.LastCommit -> LoadBlockCommit(height-1)
	seenCommit []byte // -> LoadSeenCommit(height)
}

func randBytes(r *rand.Rand, n int) []byte {
	b := make([]byte, n)
	for i := range b {
		b[i] = byte(r.UintN(256))
	}
	return b
}

func randBlockID(r *rand.Rand) types.BlockID {
	return types.BlockID{Hash: randBytes(r, 32), PartsHeader: types.PartSetHeader{Total: 1 + r.IntN(5), Hash: randBytes(r, 32)}}
}

func randCommit(r *rand.Rand, height int64, tag byte) *types.Commit {
	if height <= 0 {
		return types.NewCommit(types.BlockID{}, nil)
	}
	n := 1 + r.IntN(5)
	bid := randBlockID(r)
	pcs := make([]*types.CommitSig, n)
	for i := range pcs {
		if n > 1 && r.IntN(4) == 0 {
			continue // absent precommit (nil element)
		}
		sig := randBytes(r, 64)
		sig[0] = tag // seen commits and block commits for one height always differ
		pcs[i] = (&types.Vote{
			Type: types.PrecommitType, Height: height, Round: r.IntN(4), BlockID: bid,
			Timestamp:        time.Unix(1600000000+r.Int64N(1e8), r.Int64N(1e9)).UTC(),
			ValidatorAddress: ed25519.GenPrivKeyFromSecret([]byte{byte(i)}).PubKey().Address(),
			ValidatorIndex:   i, Signature: sig,
		}).CommitSig()
	}
	if pcs[0] == nil {
		sig := randBytes(r, 64)
		sig[0] = tag
		pcs[0] = (&types.Vote{Type: types.PrecommitType, Height: height, BlockID: bid, Timestamp: time.Unix(1600000000, 0).UTC(),
			ValidatorAddress: ed25519.GenPrivKeyFromSecret([]byte{0}).PubKey().Address(), Signature: sig}).CommitSig()
	}
	return types.NewCommit(bid, pcs)
}

func makeBlock(r *rand.Rand, h int64, first bool, partSize int) (*types.Block, *types.PartSet, *types.Commit) {
	ntx := r.IntN(13)
	txs := make([]types.Tx, ntx)
	for i := range txs {
		txs[i] = randBytes(r, 1+r.IntN(300))
	}
	lc := randCommit(r, h-1, 0xB1)
	if first {
		lc = types.NewCommit(types.BlockID{}, nil)
	}
	b := types.MakeBlock(h, txs, lc)
	b.ChainID = "c41-chain"
	b.Time = time.Unix(1700000000+h%1000000, r.Int64N(1e9)).UTC()
	b.LastBlockID = randBlockID(r)
	b.AppHash = randBytes(r, 20)
	b.ValidatorsHash = randBytes(r, 32)
	b.ProposerAddress = ed25519.GenPrivKeyFromSecret([]byte{byte(r.IntN(4))}).PubKey().Address()
	ps := b.MakePartSet(partSize)
	seen := randCommit(r, h, 0x5E)
	return b, ps, seen
}

type bsRun struct {
	c      *vf.Ctx
	key    string
	db     dbm.DB
	bs     *store.BlockStore
	saved  []*savedBlock
	byH    map[int64]*savedBlock
	height int64 // model height
	w      func(extra ...any) map[string]any
}

func record(b *types.Block, ps *types.PartSet, seen *types.Commit) *savedBlock {
	sb := &savedBlock{height: b.Height}
	sb.blockBytes = amino.MustMarshalSized(b)
	sb.hash = append([]byte{}, b.Hash()...)
	for i := 0; i < ps.Total(); i++ {
		sb.parts = append(sb.parts, amino.MustMarshal(ps.GetPart(i)))
	}
	sb.meta = amino.MustMarshal(&types.BlockMeta{BlockID: types.BlockID{Hash: b.Hash(), PartsHeader: ps.Header()}, Header: b.Header})
	sb.lastCommit = amino.MustMarshal(b.LastCommit)
	sb.seenCommit = amino.MustMarshal(seen)
	return sb
}

// verifyAll re-loads every saved height through every API of bs.
func (br *bsRun) verifyAll(bs *store.BlockStore, reopened bool, after int64) {
	c := br.c
	tag := ""
	if reopened {
		tag = "reopened:"
	}
	if got := bs.Height(); got != br.height {
		viol(c, tag+"height-mismatch", br.w("after_save", after, "got", got, "want", br.height), "Height() = %d after saving up to %d", got, br.height)
	}
	for _, sb := range br.saved {
		h := sb.height
		later := after > h
		fail := func(api string, format string, a ...any) {
			viol(c, tag+"load-mismatch:"+api, br.w("api", api, "height", h, "after_save", after), "%s(%d) after saving %d: %s", api, h, after, fmt.Sprintf(format, a...))
		}
		var blk *types.Block
		var meta *types.BlockMeta
		var bc, sc *types.Commit
		pv := vf.Try(func() {
			blk = bs.LoadBlock(h)
			meta = bs.LoadBlockMeta(h)
			bc = bs.LoadBlockCommit(h - 1)
			sc = bs.LoadSeenCommit(h)
		})
		if pv != nil {
			viol(c, tag+"load-panic", br.w("height", h, "after_save", after), "loading height %d panicked: %v", h, pv)
			continue
		}
		c.Case(fmt.Sprintf("%s/%s%d/%d/LoadBlock", br.key, tag, after, h), later)
		if blk == nil {
			fail("LoadBlock", "nil")
		} else if !bytes.Equal(amino.MustMarshalSized(blk), sb.blockBytes) {
			fail("LoadBlock", "block bytes differ from the saved block")
		} else if !bytes.Equal(blk.Hash(), sb.hash) {
			fail("LoadBlock", "hash differs")
		}
		c.Case(fmt.Sprintf("%s/%s%d/%d/LoadBlockMeta", br.key, tag, after, h), later)
		if meta == nil {
			fail("LoadBlockMeta", "nil")
		} else if !bytes.Equal(amino.MustMarshal(meta), sb.meta) {
			fail("LoadBlockMeta", "meta differs (block id / header)")
		}
		c.Case(fmt.Sprintf("%s/%s%d/%d/LoadBlockCommit", br.key, tag, after, h), later)
		if len(sb.lastCommit) == 0 {
			// the first block of a chain carries the empty commit, which encodes to zero bytes:
			// it is indistinguishable from "no commit stored" (LoadBlockCommit documents nil for that)
			if bc != nil {
				fail("LoadBlockCommit", "LoadBlockCommit(%d) is non-nil although block %d carried the empty commit", h-1, h)
			}
			c.Count("bs_empty_first_commit", 1)
		} else if bc == nil {
			fail("LoadBlockCommit", "LoadBlockCommit(%d) is nil although block %d carried its commit", h-1, h)
		} else if !bytes.Equal(amino.MustMarshal(bc), sb.lastCommit) {
			fail("LoadBlockCommit", "LoadBlockCommit(%d) differs from block %d's LastCommit", h-1, h)
		}
		c.Case(fmt.Sprintf("%s/%s%d/%d/LoadSeenCommit", br.key, tag, after, h), later)
		if sc == nil {
			fail("LoadSeenCommit", "nil")
		} else if !bytes.Equal(amino.MustMarshal(sc), sb.seenCommit) {
			fail("LoadSeenCommit", "seen commit differs from the one saved with block %d", h)
		}
		for i, pb := range sb.parts {
			var part *types.Part
			if pv := vf.Try(func() { part = bs.LoadBlockPart(h, i) }); pv != nil {
				viol(c, tag+"load-panic", br.w("height", h, "part", i), "LoadBlockPart(%d,%d) panicked: %v", h, i, pv)
				continue
			}
			c.Case(fmt.Sprintf("%s/%s%d/%d/LoadBlockPart/%d", br.key, tag, after, h, i), later || i > 0)
			if part == nil {
				fail("LoadBlockPart", "part %d nil", i)
			} else if !bytes.Equal(amino.MustMarshal(part), pb) {
				fail("LoadBlockPart", "part %d differs", i)
			}
		}
		c.Count("bs_heights_reloaded", 1)
		c.Count("bs_parts_reloaded", len(sb.parts))
		// one past the last part
		var extra *types.Part
		vf.Try(func() { extra = bs.LoadBlockPart(h, len(sb.parts)) })
		if extra != nil {
			fail("LoadBlockPart", "part index %d (== total) exists", len(sb.parts))
		}
	}
	// absent heights
	first := br.saved[0].height
	for _, h := range []int64{br.height + 1, br.height + 2, first - 2, 0} {
		if h >= first && h <= br.height || h < 0 {
			continue
		}
		var blk *types.Block
		var meta *types.BlockMeta
		var sc *types.Commit
		var p0 *types.Part
		pv := vf.Try(func() {
			blk, meta, sc, p0 = bs.LoadBlock(h), bs.LoadBlockMeta(h), bs.LoadSeenCommit(h), bs.LoadBlockPart(h, 0)
		})
		c.Case(fmt.Sprintf("%s/%s%d/absent/%d", br.key, tag, after, h), false)
		if pv != nil || blk != nil || meta != nil || sc != nil || p0 != nil {
			viol(c, tag+"absent-height-loads", br.w("height", h, "after_save", after), "height %d was never saved but loads (panic=%v block=%v meta=%v seen=%v part=%v)", h, pv, blk != nil, meta != nil, sc != nil, p0 != nil)
		}
		c.Count("bs_absent_loads", 1)
	}
	// the commit FOR the top block only arrives with the next block
	var top *types.Commit
	vf.Try(func() { top = bs.LoadBlockCommit(br.height) })
	if top != nil {
		viol(c, tag+"absent-height-loads", br.w("height", br.height), "LoadBlockCommit(%d) exists before block %d was saved", br.height, br.height+1)
	}
}

func (br *bsRun) rejected(r *rand.Rand, partSize int) {
	c := br.c
	H := br.height
	try := func(kind string, f func()) {
		pv := vf.Try(f)
		c.Case(fmt.Sprintf("%s/reject/%s/%d", br.key, kind, H), true)
		if pv == nil {
			viol(c, "bad-save-accepted:"+kind, br.w("kind", kind, "store_height", H), "SaveBlock accepted a %s save at store height %d", kind, H)
		}
		c.Count("bs_rejected_saves", 1)
		if got := br.bs.Height(); got != H {
			viol(c, "height-changed-by-rejected-save:"+kind, br.w("kind", kind, "got", got, "want", H), "Height() = %d after a rejected %s save (was %d)", got, kind, H)
		}
	}
	for _, h := range []int64{H, H - 1, H + 2, H + 100} {
		if h < 1 {
			continue
		}
		b, ps, seen := makeBlock(r, h, false, partSize)
		try(fmt.Sprintf("non-contiguous(%+d)", h-H), func() { br.bs.SaveBlock(b, ps, seen) })
	}
	b, ps, seen := makeBlock(r, H+1, false, partSize)
	try("incomplete-partset", func() { br.bs.SaveBlock(b, types.NewPartSetFromHeader(ps.Header()), seen) })
	try("nil-block", func() { br.bs.SaveBlock(nil, ps, seen) })
}

func blockChain(c *vf.Ctx, i int, r *rand.Rand) {
	partSizes := []int{32, 64, 100, 256, 1024, 4096, 65536}
	partSize := partSizes[i%len(partSizes)]
	starts := []int64{1, 1, 2, 50, 100000, 1 + r.Int64N(1<<40)}
	start := starts[i%len(starts)]
	n := 4 + r.IntN(c.N(14, 37))
	db := memdb.NewMemDB()
	br := &bsRun{c: c, db: db, bs: store.NewBlockStore(db), byH: map[int64]*savedBlock{}}
	br.key = fmt.Sprintf("bs%d/%d/%d/%d", i, start, n, partSize)
	br.w = func(extra ...any) map[string]any {
		m := map[string]any{"chain": br.key, "first_height": start, "blocks": n, "part_size": partSize, "seed_stream": 1000 + i}
		for k := 0; k+1 < len(extra); k += 2 {
			m[fmt.Sprint(extra[k])] = extra[k+1]
		}
		return m
	}
	if h := br.bs.Height(); h != 0 {
		viol(c, "height-mismatch", br.w(), "empty store has height %d", h)
	}
	prevHeight := int64(0)
	for k := 0; k < n; k++ {
		h := start + int64(k)
		b, ps, seen := makeBlock(r, h, k == 0, partSize)
		sb := record(b, ps, seen)
		if pv := vf.Try(func() { br.bs.SaveBlock(b, ps, seen) }); pv != nil {
			viol(c, "save-panic", br.w("height", h), "SaveBlock(%d) panicked: %v", h, pv)
			return
		}
		// inputs not modified
		if !bytes.Equal(amino.MustMarshalSized(b), sb.blockBytes) || !bytes.Equal(amino.MustMarshal(seen), sb.seenCommit) {
			viol(c, "save-mutates-input", br.w("height", h), "SaveBlock modified the block or the seen commit it was given")
		}
		br.saved = append(br.saved, sb)
		br.byH[h] = sb
		br.height = h
		c.Count("bs_blocks_saved", 1)
		c.Count("bs_parts_saved", len(sb.parts))
		if len(sb.parts) > 1 {
			c.Count("bs_multipart_blocks", 1)
		}
		if got := br.bs.Height(); got < prevHeight {
			viol(c, "height-decreased", br.w("got", got, "prev", prevHeight), "Height() went from %d to %d", prevHeight, got)
		}
		prevHeight = br.bs.Height()
		br.verifyAll(br.bs, false, h)
		if k%3 == 2 || k == n-1 {
			br.verifyAll(store.NewBlockStore(db), true, h)
			c.Count("bs_reopens", 1)
		}
		if k%4 == 1 {
			br.rejected(r, partSize)
			br.verifyAll(br.bs, false, h)
		}
	}
	if i < 2 {
		c.Sample(map[string]any{"part": "blockstore", "first_height": start, "blocks": n, "part_size": partSize, "parts_of_last_block": len(br.saved[len(br.saved)-1].parts)})
	}
}

// ---------------------------------------------------------------- state store

type valChange struct {
	at      int64 // height at which the new set is in effect (returned by EndBlock of at-2)
	changes []*types.Validator
}

type parChange struct {
	at     int64 // in effect at this height (returned by EndBlock of at-1)
	params abci.ConsensusParams
}

type schedule struct {
	initial   int64
	genesis   []*types.Validator
	genParams abci.ConsensusParams
	vals      []valChange
	pars      []parChange
	query     []int64        // heights to load
	noCkpt    map[int64]bool // checkpoint records deliberately not saved (chains older than the checkpoint feature)
	name      string
}

func valKey(i int) ed25519.PrivKeyEd25519 {
	return ed25519.GenPrivKeyFromSecret([]byte(fmt.Sprintf("c41-val-%d", i)))
}

func mkParams(r *rand.Rand) abci.ConsensusParams {
	return abci.ConsensusParams{
		Block:     &abci.BlockParams{MaxTxBytes: 1 + r.Int64N(1e6), MaxDataBytes: 1 + r.Int64N(1e7), MaxBlockBytes: 1 + r.Int64N(1e7), MaxGas: r.Int64N(1e9) - 1, TimeIotaMS: 1 + r.Int64N(1000)},
		Validator: &abci.ValidatorParams{PubKeyTypeURLs: []string{"/tm.PubKeyEd25519", fmt.Sprintf("/x.k%d", r.IntN(1000))}},
	}
}

// chainModel holds V[h], P[h] for the heights of interest.
type chainModel struct {
	s        *schedule
	V        map[int64]*types.ValidatorSet
	P        map[int64]abci.ConsensusParams
	lastValC map[int64]int64 // last validator change height <= h
	lastParC map[int64]int64
}

func lastLE(sorted []int64, h int64, dflt int64) int64 {
	k := sort.Search(len(sorted), func(i int) bool { return sorted[i] > h })
	if k == 0 {
		return dflt
	}
	return sorted[k-1]
}

// build evolves the validator set height by height exactly as the state
// transition does: V[h] = V[h-1] (+ change set in effect at h), then one
// proposer-priority step.
func build(s *schedule, need map[int64]bool, maxH int64) *chainModel {
	m := &chainModel{s: s, V: map[int64]*types.ValidatorSet{}, P: map[int64]abci.ConsensusParams{}, lastValC: map[int64]int64{}, lastParC: map[int64]int64{}}
	cur := types.NewValidatorSet(copyVals(s.genesis))
	vc := map[int64][]*types.Validator{}
	var vcH, pcH []int64
	for _, c := range s.vals {
		vc[c.at] = c.changes
		vcH = append(vcH, c.at)
	}
	pc := map[int64]abci.ConsensusParams{}
	for _, c := range s.pars {
		pc[c.at] = c.params
		pcH = append(pcH, c.at)
	}
	curP := s.genParams
	for h := s.initial; h <= maxH; h++ {
		if h > s.initial {
			if ch, ok := vc[h]; ok {
				if err := cur.UpdateWithChangeSet(copyVals(ch)); err != nil {
					panic(fmt.Sprintf("model: bad change set at %d: %v", h, err))
				}
			}
			cur.IncrementProposerPriority(1)
		}
		if p, ok := pc[h]; ok {
			curP = p
		}
		if need[h] {
			// ValidatorSet.Copy shares the Proposer pointer with the live set: detach it
			snap := cur.Copy()
			if cur.Proposer != nil {
				snap.Proposer = cur.Proposer.Copy()
			}
			m.V[h] = snap
			m.P[h] = curP
			m.lastValC[h] = lastLE(vcH, h, s.initial)
			m.lastParC[h] = lastLE(pcH, h, s.initial)
		}
	}
	return m
}

func copyVals(v []*types.Validator) []*types.Validator {
	o := make([]*types.Validator, len(v))
	for i, x := range v {
		o[i] = x.Copy()
	}
	return o
}

// stateAt builds the State a node holds after block k (LastBlockHeight = k).
func (m *chainModel) stateAt(k int64) sm.State {
	s := m.s
	last := types.NewValidatorSet(nil)
	if k >= s.initial {
		last = m.V[k].Copy()
	}
	return sm.State{
		SoftwareVersion: "c41", BlockVersion: "v1", AppVersion: "app",
		ChainID:                          "c41-chain",
		InitialHeight:                    s.initial,
		LastBlockHeight:                  k,
		LastBlockTotalTx:                 k * 3,
		LastBlockID:                      types.BlockID{Hash: []byte(fmt.Sprintf("blockhash-%020d", k)), PartsHeader: types.PartSetHeader{Total: 1, Hash: []byte("parts")}},
		LastBlockTime:                    time.Unix(1700000000+k, 0).UTC(),
		NextValidators:                   m.V[k+2].Copy(),
		Validators:                       m.V[k+1].Copy(),
		LastValidators:                   last,
		LastHeightValidatorsChanged:      m.lastValC[k+2],
		ConsensusParams:                  m.P[k+1],
		LastHeightConsensusParamsChanged: m.lastParC[k+1],
		LastResultsHash:                  []byte("results"),
		AppHash:                          []byte(fmt.Sprintf("apphash-%d", k)),
	}
}

func members(vs *types.ValidatorSet) string {
	var sb bytes.Buffer
	for _, v := range vs.Validators {
		fmt.Fprintf(&sb, "%s:%d ", v.Address.String()[:10], v.VotingPower)
	}
	return sb.String()
}

func prios(vs *types.ValidatorSet) string {
	var sb bytes.Buffer
	for _, v := range vs.Validators {
		fmt.Fprintf(&sb, "%d ", v.ProposerPriority)
	}
	if vs.Proposer != nil {
		fmt.Fprintf(&sb, "proposer=%s", vs.Proposer.Address.String()[:10])
	}
	return sb.String()
}

func genSchedule(c *vf.Ctx, i int, r *rand.Rand) *schedule {
	s := &schedule{noCkpt: map[int64]bool{}}
	K := int64(1+i%3) * checkpointInterval
	nv := 1 + r.IntN(5)
	for v := 0; v < nv; v++ {
		s.genesis = append(s.genesis, types.NewValidator(valKey(v).PubKey(), 1+r.Int64N(100)))
	}
	s.genParams = mkParams(r)
	W := int64(7)
	layout := i % 8
	if i%24 == 23 {
		layout = 8
	}
	var dropJoinAt int64
	switch layout {
	case 8: // the strongest validator leaves and a power-1 validator joins shortly before the boundary.
		// Candidates are searched (with the trusted ValidatorSet arithmetic only) for one where the priority
		// spread stays above 2x the new total power, i.e. the per-height rescaling is active on the heights
		// right after the change - there "n single priority steps" and "one n-fold step" can differ.
		s.initial = K - 9
		s.name = "power-drop"
		s.genesis, dropJoinAt = powerDropCandidate(r, s.initial)
		nv = len(s.genesis)
	case 0, 1, 2: // chain from height 1, window around K
		s.initial = 1
		s.name = "initial=1,window@K"
	case 3: // hardfork chain starting right at the boundary
		s.initial = K + int64(r.IntN(7)) - 3
		s.name = "initial@K"
	case 4: // chain starting shortly before the boundary
		s.initial = K - 2 - int64(r.IntN(12))
		s.name = "initial<K"
	case 5: // early part of a chain only (no checkpoint involved)
		s.initial = []int64{1, 2, 50, 12345}[r.IntN(4)]
		K = s.initial + 10
		s.name = "early"
	case 6: // old chain: the checkpoint record was never written
		s.initial = 1
		s.noCkpt[K] = true
		s.name = "no-checkpoint-record"
	default: // two boundaries in one chain
		s.initial = 1
		s.name = "two-boundaries"
	}
	lo, hi := K-W, K+W
	if lo < s.initial {
		lo = s.initial
	}
	// candidate heights for changes: inside the window (incl. exactly K, K+-1, K+-2) and early in the chain
	pick := func(minAt int64, forbid int64) []int64 {
		set := map[int64]bool{}
		k := r.IntN(5)
		for j := 0; j < k; j++ {
			var h int64
			switch r.IntN(6) {
			case 0:
				h = K + int64(r.IntN(5)) - 2
			case 1:
				h = s.initial + int64(r.IntN(8))
			case 2:
				h = K
			default:
				h = lo + r.Int64N(hi-lo+1)
			}
			if h >= minAt && !(s.noCkpt[K] && h == forbid) {
				set[h] = true
			}
		}
		var out []int64
		for h := range set {
			out = append(out, h)
		}
		sort.Slice(out, func(a, b int) bool { return out[a] < out[b] })
		return out
	}
	// validator changes: keep a model membership to generate valid change sets
	power := map[int]int64{}
	for v, g := range s.genesis {
		power[v] = g.VotingPower
	}
	nextNew := nv
	changeHeights := pick(s.initial+2, K)
	if layout == 8 {
		changeHeights = []int64{dropJoinAt}
	}
	for _, at := range changeHeights { // old-chain layout: the record of K (a reference target) is dropped, so no change there
		var ch []*types.Validator
		used := map[int]bool{}
		if layout == 8 {
			ch = append(ch, types.NewValidator(valKey(0).PubKey(), 0), types.NewValidator(valKey(nextNew).PubKey(), 1))
			s.vals = append(s.vals, valChange{at: at, changes: ch})
			c.Count("ss_power_drop_schedules", 1)
			continue
		}
		for j := 1 + r.IntN(2); j > 0; j-- {
			switch op := r.IntN(3); {
			case op == 0 || len(power) <= 1: // add
				ch = append(ch, types.NewValidator(valKey(nextNew).PubKey(), 1+r.Int64N(100)))
				power[nextNew] = 1
				used[nextNew] = true
				nextNew++
			case op == 1: // change power of an existing one
				for _, v := range sortedKeys(power) {
					if !used[v] && r.IntN(2) == 0 {
						ch = append(ch, types.NewValidator(valKey(v).PubKey(), 1+r.Int64N(100)))
						used[v] = true
						break
					}
				}
			default: // remove
				for _, v := range sortedKeys(power) {
					if !used[v] && len(power) > 1 && r.IntN(2) == 0 {
						ch = append(ch, types.NewValidator(valKey(v).PubKey(), 0))
						delete(power, v)
						used[v] = true
						break
					}
				}
			}
		}
		if len(ch) > 0 {
			s.vals = append(s.vals, valChange{at: at, changes: ch})
		}
	}
	for _, at := range pick(s.initial+1, K-1) {
		s.pars = append(s.pars, parChange{at: at, params: mkParams(r)})
	}
	// query heights
	q := map[int64]bool{}
	for h := lo; h <= hi; h++ {
		q[h] = true
	}
	for h := s.initial; h <= s.initial+5; h++ {
		q[h] = true
	}
	for _, c := range s.vals {
		for d := int64(-1); d <= 2; d++ {
			if c.at+d >= s.initial {
				q[c.at+d] = true
			}
		}
	}
	for _, c := range s.pars {
		for d := int64(-1); d <= 2; d++ {
			if c.at+d >= s.initial {
				q[c.at+d] = true
			}
		}
	}
	if layout == 7 {
		K2 := K + checkpointInterval
		for h := K2 - 3; h <= K2+3; h++ {
			q[h] = true
		}
	}
	if layout <= 2 && r.IntN(2) == 0 {
		// a height far from any stored record below the boundary (long priority catch-up)
		q[K-W-1-r.Int64N(1000)] = true
	}
	for h := range q {
		s.query = append(s.query, h)
	}
	sort.Slice(s.query, func(a, b int) bool { return s.query[a] < s.query[b] })
	return s
}

// powerDropCandidate returns genesis validators and the height at which "validator 0 leaves,
// a power-1 validator joins" takes effect, preferring a candidate for which stepping the set
// once per height differs from one multi-step.
func powerDropCandidate(r *rand.Rand, initial int64) ([]*types.Validator, int64) {
	var gen []*types.Validator
	at := initial + 2
	for try := 0; try < 400; try++ {
		n := 3 + r.IntN(2)
		gen = gen[:0]
		for v := 0; v < n; v++ {
			gen = append(gen, types.NewValidator(valKey(v).PubKey(), 1+r.Int64N(100)))
		}
		at = initial + 2 + int64(r.IntN(4))
		vs := types.NewValidatorSet(copyVals(gen))
		for h := initial + 1; h < at; h++ {
			vs.IncrementProposerPriority(1)
		}
		if vs.UpdateWithChangeSet([]*types.Validator{types.NewValidator(valKey(0).PubKey(), 0), types.NewValidator(valKey(n).PubKey(), 1)}) != nil {
			continue
		}
		vs.IncrementProposerPriority(1)
		for m := 2; m <= 4; m++ {
			a := vs.CopyIncrementProposerPriority(m)
			b := vs.Copy()
			for j := 0; j < m; j++ {
				b.IncrementProposerPriority(1)
			}
			if prios(a) != prios(b) {
				return copyVals(gen), at
			}
		}
	}
	return copyVals(gen), at
}

func sortedKeys(m map[int]int64) []int {
	out := make([]int, 0, len(m))
	for k := range m {
		out = append(out, k)
	}
	sort.Ints(out)
	return out
}

func run(c *vf.Ctx) {
	c.Logf("block store")
	c.Parallel(c.N(60, 480), 12, 1000, func(i int, r *rand.Rand) { blockChain(c, i, r) })
	c.Logf("state store")
	c.Parallel(c.N(96, 960), 12, 50000, func(i int, r *rand.Rand) { stateChain(c, i, r) })
	c.Assume("validator-set arithmetic (NewValidatorSet, UpdateWithChangeSet, IncrementProposerPriority) is trusted for building the model (covered by C37)")
	c.Assume("states are saved sparsely: only those whose records LoadValidators/LoadConsensusParams read for the queried heights (each SaveState writes keys independent of other heights)")
	c.Assume("memdb is the backing DB; durability of the DB itself is out of scope")
	for _, k := range []string{"bs_blocks_saved", "bs_multipart_blocks", "bs_reopens", "bs_rejected_saves", "bs_absent_loads"} {
		c.RequireCounter(k, 10)
	}
	c.RequireCounter("bs_heights_reloaded", 2000)
	c.RequireCounter("ss_validators_loaded", 500)
	c.RequireCounter("ss_params_loaded", 500)
	c.RequireCounter("ss_val_reference_records", 100)
	c.RequireCounter("ss_val_via_checkpoint", 50)
	c.RequireCounter("ss_val_via_change_height", 50)
	c.RequireCounter("ss_val_full_records", 50)
	c.RequireCounter("ss_par_reference_records", 100)
	c.RequireCounter("ss_changes_at_or_next_to_checkpoint", 5)
	c.RequireCounter("ss_absent_height_errors", 20)
}
