package c41

import (
	"bytes"
	"fmt"
	"math/rand/v2"
	"sort"

	"github.com/gnolang/gno/tm2/pkg/amino"
	abci "github.com/gnolang/gno/tm2/pkg/bft/abci/types"
	sm "github.com/gnolang/gno/tm2/pkg/bft/state"
	"github.com/gnolang/gno/tm2/pkg/bft/types"
	"github.com/gnolang/gno/tm2/pkg/db/memdb"

	"verifharness/internal/vf"
)

func (s *schedule) describe() map[string]any {
	var vc, pc []string
	for _, c := range s.vals {
		var ch []string
		for _, v := range c.changes {
			ch = append(ch, fmt.Sprintf("%s=%d", v.Address.String()[:10], v.VotingPower))
		}
		vc = append(vc, fmt.Sprintf("@%d%v", c.at, ch))
	}
	for _, c := range s.pars {
		pc = append(pc, fmt.Sprintf("@%d", c.at))
	}
	var gen []string
	for _, v := range s.genesis {
		gen = append(gen, fmt.Sprintf("%s=%d", v.Address.String()[:10], v.VotingPower))
	}
	return map[string]any{"layout": s.name, "initial_height": s.initial, "genesis_validators": gen, "validator_changes_effective_at": vc, "param_changes_effective_at": pc}
}

func stateChain(c *vf.Ctx, i int, r *rand.Rand) {
	s := genSchedule(c, i, r)
	I := s.initial
	saveK := map[int64]bool{}
	add := func(k int64) {
		if k >= I-1 {
			saveK[k] = true
		}
	}
	add(I - 1)
	for _, q := range s.query {
		add(q - 2)
		add(q - 1)
		if cp := q - q%checkpointInterval; cp > I {
			add(cp - 2)
		}
	}
	for _, x := range s.vals {
		add(x.at - 2)
	}
	for _, x := range s.pars {
		add(x.at - 1)
	}
	for K := range s.noCkpt {
		delete(saveK, K-2)
	}
	need := map[int64]bool{}
	maxH := int64(0)
	var ks []int64
	for k := range saveK {
		ks = append(ks, k)
		for d := int64(0); d <= 2; d++ {
			need[k+d] = true
		}
		if k+2 > maxH {
			maxH = k + 2
		}
	}
	sort.Slice(ks, func(a, b int) bool { return ks[a] < ks[b] })
	for _, q := range s.query {
		need[q] = true
		if q > maxH {
			maxH = q
		}
	}
	m := build(s, need, maxH)
	key := fmt.Sprintf("ss%d/%s/%d/%v/%v", i, s.name, I, len(s.vals), len(s.pars))
	w := func(extra ...any) map[string]any {
		d := s.describe()
		d["seed_stream"] = 50000 + i
		d["states_saved_last_block_height"] = clip64(ks, 80)
		for k := 0; k+1 < len(extra); k += 2 {
			d[fmt.Sprint(extra[k])] = extra[k+1]
		}
		return d
	}
	db := memdb.NewMemDB()
	for _, k := range ks {
		st := m.stateAt(k)
		want := st.Bytes()
		if pv := vf.Try(func() { sm.SaveState(db, st) }); pv != nil {
			viol(c, "savestate-panic", w("last_block_height", k), "SaveState(LastBlockHeight=%d) panicked: %v", k, pv)
			return
		}
		var got sm.State
		if pv := vf.Try(func() { got = sm.LoadState(db) }); pv != nil {
			viol(c, "loadstate-panic", w("last_block_height", k), "LoadState panicked: %v", pv)
			return
		}
		c.Case(fmt.Sprintf("%s/LoadState/%d", key, k), true)
		if !bytes.Equal(got.Bytes(), want) {
			viol(c, "loadstate-mismatch", w("last_block_height", k), "LoadState after SaveState(LastBlockHeight=%d) differs from the saved state", k)
		}
		c.Count("ss_states_saved", 1)
	}
	valPresent := func(h int64) bool { return saveK[h-2] || (h == I && saveK[I-1]) }
	parPresent := func(h int64) bool { return saveK[h-1] }
	nearCkpt := false
	for _, x := range s.vals {
		if d := x.at % checkpointInterval; d <= 2 || d >= checkpointInterval-2 {
			nearCkpt = true
		}
	}
	if nearCkpt {
		c.Count("ss_changes_at_or_next_to_checkpoint", 1)
	}
	// queries, plus some heights that have no record
	qs := append([]int64{}, s.query...)
	qs = append(qs, s.query[len(s.query)-1]+3, s.query[len(s.query)-1]+50, I-1, 0)
	for _, h := range qs {
		// ---- validators
		var vs *types.ValidatorSet
		var err error
		pv := vf.Try(func() { vs, err = sm.LoadValidators(db, h) })
		if !valPresent(h) {
			c.Case(fmt.Sprintf("%s/LoadValidators-absent/%d", key, h), false)
			if pv != nil {
				viol(c, "validators-absent-panic", w("height", h), "LoadValidators(%d) (no record) panicked: %v", h, pv)
			} else if _, ok := err.(sm.NoValSetForHeightError); !ok {
				viol(c, "validators-absent-loads", w("height", h), "LoadValidators(%d): no record was saved for this height, got err=%v set=%v", h, err, vs != nil)
			}
			c.Count("ss_absent_height_errors", 1)
		} else {
			lc := m.lastValC[h]
			cp := h - h%checkpointInterval
			full := h == lc || h%checkpointInterval == 0
			nt := !full || h%checkpointInterval == 0 || h == lc
			c.Case(fmt.Sprintf("%s/LoadValidators/%d", key, h), nt)
			c.Count("ss_validators_loaded", 1)
			switch {
			case full:
				c.Count("ss_val_full_records", 1)
			case cp > lc && valPresent(cp):
				c.Count("ss_val_reference_records", 1)
				c.Count("ss_val_via_checkpoint", 1)
			case cp > lc:
				c.Count("ss_val_reference_records", 1)
				c.Count("ss_val_via_fallback_no_checkpoint_record", 1)
			default:
				c.Count("ss_val_reference_records", 1)
				c.Count("ss_val_via_change_height", 1)
			}
			want := m.V[h]
			ww := func() map[string]any {
				d := w("height", h, "last_change_height", lc, "checkpoint", cp, "record_is_full_set", full, "want_members", members(want), "want_priorities", prios(want))
				if vs != nil {
					d["got_members"], d["got_priorities"] = members(vs), prios(vs)
				}
				return d
			}
			switch {
			case pv != nil:
				viol(c, "validators-load-panic", ww(), "LoadValidators(%d) panicked: %v", h, pv)
			case err != nil || vs == nil:
				viol(c, "validators-load-error", ww(), "LoadValidators(%d): %v", h, err)
			case members(vs) != members(want):
				viol(c, "validators-mismatch", ww(), "LoadValidators(%d) = {%s}, in effect at that height: {%s}", h, members(vs), members(want))
			case !bytes.Equal(amino.MustMarshal(vs), amino.MustMarshal(want)):
				viol(c, "validators-priority-mismatch", ww(), "LoadValidators(%d): members equal but proposer priorities / proposer differ: got {%s}, in effect {%s}", h, prios(vs), prios(want))
			}
		}
		// ---- consensus params
		var ps abci.ConsensusParams
		pv = vf.Try(func() { ps, err = sm.LoadConsensusParams(db, h) })
		if !parPresent(h) {
			c.Case(fmt.Sprintf("%s/LoadConsensusParams-absent/%d", key, h), false)
			if pv != nil {
				viol(c, "params-absent-panic", w("height", h), "LoadConsensusParams(%d) (no record) panicked: %v", h, pv)
			} else if _, ok := err.(sm.NoConsensusParamsForHeightError); !ok {
				viol(c, "params-absent-loads", w("height", h), "LoadConsensusParams(%d): no record saved, got err=%v", h, err)
			}
			c.Count("ss_absent_height_errors", 1)
			continue
		}
		lc := m.lastParC[h]
		c.Case(fmt.Sprintf("%s/LoadConsensusParams/%d", key, h), true)
		c.Count("ss_params_loaded", 1)
		if h == lc {
			c.Count("ss_par_full_records", 1)
		} else {
			c.Count("ss_par_reference_records", 1)
		}
		want := m.P[h]
		ww := func() map[string]any {
			return w("height", h, "last_change_height", lc, "want", fmt.Sprintf("%+v %+v", *want.Block, *want.Validator), "got", fmt.Sprintf("%+v", ps))
		}
		switch {
		case pv != nil:
			viol(c, "params-load-panic", ww(), "LoadConsensusParams(%d) panicked: %v", h, pv)
		case err != nil:
			viol(c, "params-load-error", ww(), "LoadConsensusParams(%d): %v", h, err)
		case !bytes.Equal(amino.MustMarshal(ps), amino.MustMarshal(want)):
			viol(c, "params-mismatch", ww(), "LoadConsensusParams(%d) differs from the params in effect at that height (last change %d)", h, lc)
		}
	}
	if i < 3 {
		d := s.describe()
		d["part"] = "statestore"
		d["queried_heights"] = clip64(s.query, 40)
		c.Sample(d)
	}
}

func clip64(v []int64, n int) []int64 {
	if len(v) > n {
		return v[:n]
	}
	return v
}
