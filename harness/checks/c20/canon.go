package c20

import (
	"encoding/hex"
	"fmt"
	"math"
	"reflect"
	"strconv"
	"strings"
	"time"
	"unicode/utf8"

	"github.com/gnolang/gno/tm2/pkg/amino"

	"verifharness/internal/vf"
)

// canon renders a value in a canonical textual form that identifies values up
// to amino's documented normalisations (binary_decode.go / reflect.go
// defaultValue, the repo's own parity tests):
//
//   - nil and empty slices / byte slices are the same value;
//   - a nil pointer to a non-struct equals a pointer to the zero value (the
//     decoders allocate it); a nil *time.Time equals 1970-01-01 ("empty time");
//     a nil pointer to a struct is distinct from a pointer to an empty struct
//     (presence on the wire), except as an element of an amino:"nil_elements"
//     list where an element that encodes to nothing decodes as nil;
//   - times are instants (location dropped), compared as (seconds, nanos);
//   - a value inside an interface is identified by its registered type and
//     content, not by pointer-vs-value form;
//   - a type with MarshalAmino is its repr value;
//   - only amino-visible fields (exported, not json:"-") take part.
//
// It is written against reflect and amino.TypeInfo only; it never calls an
// encoder or decoder.
type canoner struct {
	r   *registry
	sb  strings.Builder
	err error // first MarshalAmino failure (value invalid for its own repr)
	// reprUnstable is set when some MarshalAmino repr does not parse back to
	// the same repr with the type's own UnmarshalAmino: the decoders are then
	// entitled to reject or to return a different value.
	reprUnstable bool
	nodes        int
	// strict disables the normalisations: nil vs empty slices, nil vs
	// zero-pointer, pointer-vs-value form inside interfaces and the time
	// location are all distinguished (used to compare the two decoders'
	// outputs with each other, as the repo's AssertCodecParity does with
	// reflect.DeepEqual).
	strict bool
	// badUTF8 is set when a string that is not valid UTF-8 was rendered.
	badUTF8 bool
}

// hasInvalidUTF8 reports whether the value contains a string that is not valid UTF-8.
func (r *registry) hasInvalidUTF8(rv reflect.Value) bool {
	c := &canoner{r: r, strict: true}
	vf.Try(func() { c.val(rv, amino.FieldOptions{}, false) })
	return c.badUTF8
}

// strictCanon is canon without normalisations; errors are rendered inline.
func (r *registry) strictCanon(rv reflect.Value) string {
	c := &canoner{r: r, strict: true}
	if pv := vf.Try(func() { c.val(rv, amino.FieldOptions{}, false) }); pv != nil {
		return fmt.Sprintf("!panic(%v)", pv)
	}
	return c.sb.String()
}

func (r *registry) canon(rv reflect.Value) (s string, reprUnstable bool, err error) {
	c := &canoner{r: r}
	if pv := vf.Try(func() { c.val(rv, amino.FieldOptions{}, false) }); pv != nil {
		return "", false, fmt.Errorf("panic while computing repr: %v", pv)
	}
	return c.sb.String(), c.reprUnstable, c.err
}

func (c *canoner) info(rt reflect.Type) *amino.TypeInfo {
	info, err := c.r.cdc.GetTypeInfo(rt)
	if err != nil {
		panic(err)
	}
	return info
}

// emptyStruct reports whether a struct value encodes to zero bytes (model of
// the elision rules: every field is a default value and not write_empty).
func (c *canoner) aminoEmpty(rv reflect.Value) bool {
	rt := rv.Type()
	if rt == timeType {
		t := rv.Interface().(time.Time)
		return t.Unix() == 0 && t.Nanosecond() == 0
	}
	if rt == durationType {
		return rv.Int() == 0
	}
	info := c.info(rt)
	if info.IsAminoMarshaler {
		rrv, err := c.repr(rv)
		if err != nil {
			return false
		}
		return c.aminoEmpty(rrv)
	}
	switch rt.Kind() {
	case reflect.Struct:
		for _, f := range info.Fields {
			if f.WriteEmpty {
				return false
			}
			fv := rv.Field(f.Index)
			if fv.Kind() == reflect.Pointer {
				if !fv.IsNil() {
					return false
				}
				continue
			}
			if !c.aminoEmpty(fv) {
				return false
			}
		}
		return true
	case reflect.Slice:
		return rv.Len() == 0
	case reflect.Array:
		return rv.Len() == 0
	case reflect.Interface:
		return rv.IsNil()
	case reflect.String:
		return rv.Len() == 0
	case reflect.Bool:
		return !rv.Bool()
	case reflect.Int, reflect.Int8, reflect.Int16, reflect.Int32, reflect.Int64:
		return rv.Int() == 0
	case reflect.Uint, reflect.Uint8, reflect.Uint16, reflect.Uint32, reflect.Uint64:
		return rv.Uint() == 0
	case reflect.Float32, reflect.Float64:
		return math.Float64bits(rv.Float()) == 0
	}
	return false
}

func (c *canoner) repr(rv reflect.Value) (reflect.Value, error) {
	var m reflect.Value
	if rv.CanAddr() {
		m = rv.Addr().MethodByName("MarshalAmino")
	} else {
		m = rv.MethodByName("MarshalAmino")
	}
	outs := m.Call(nil)
	if !outs[1].IsNil() {
		return reflect.Value{}, outs[1].Interface().(error)
	}
	rrv := outs[0]
	// stability of the repr under the type's own UnmarshalAmino
	nv := reflect.New(rv.Type())
	uerr := nv.MethodByName("UnmarshalAmino").Call([]reflect.Value{rrv})[0]
	if !uerr.IsNil() {
		c.reprUnstable = true
	} else {
		outs2 := nv.MethodByName("MarshalAmino").Call(nil)
		if !outs2[1].IsNil() || !reflect.DeepEqual(outs2[0].Interface(), rrv.Interface()) {
			c.reprUnstable = true
		}
	}
	return rrv, nil
}

func (c *canoner) val(rv reflect.Value, fopts amino.FieldOptions, nilElemCtx bool) {
	c.nodes++
	rt := rv.Type()
	w := &c.sb
	if rt.Kind() == reflect.Pointer {
		et := rt.Elem()
		if rv.IsNil() {
			switch {
			case c.strict:
				w.WriteString("nil")
			case et == timeType:
				w.WriteString("T(0,0)")
			case et.Kind() == reflect.Struct:
				w.WriteString("nil")
			default:
				c.val(reflect.Zero(et), fopts, false)
			}
			return
		}
		if et.Kind() == reflect.Struct && et != timeType {
			if !c.strict && nilElemCtx && c.aminoEmpty(rv.Elem()) {
				w.WriteString("nil")
				return
			}
			w.WriteString("&")
		} else if c.strict {
			w.WriteString("&")
		}
		c.val(rv.Elem(), fopts, false)
		return
	}
	if rt == timeType {
		t := rv.Interface().(time.Time)
		fmt.Fprintf(w, "T(%d,%d)", t.Unix(), t.Nanosecond())
		if c.strict {
			w.WriteString("@" + t.Location().String())
		}
		return
	}
	if rt == durationType {
		fmt.Fprintf(w, "D(%d)", rv.Int())
		return
	}
	info := c.info(rt)
	if info.IsAminoMarshaler {
		rrv, err := c.repr(rv)
		if err != nil {
			if c.err == nil {
				c.err = fmt.Errorf("%v.MarshalAmino: %w", rt, err)
			}
			w.WriteString("!err")
			return
		}
		w.WriteString("R:")
		c.val(rrv, fopts, false)
		return
	}
	switch rt.Kind() {
	case reflect.Interface:
		if rv.IsNil() {
			w.WriteString("nil")
			return
		}
		crv := rv.Elem()
		if crv.Kind() == reflect.Pointer {
			if c.strict {
				w.WriteString("*")
			}
			if crv.IsNil() {
				w.WriteString("!nilptr-in-iface")
				if c.err == nil {
					c.err = fmt.Errorf("nil pointer inside interface")
				}
				return
			}
			crv = crv.Elem()
		}
		t := c.r.byType[crv.Type()]
		if t == nil {
			// amino's own well-known types (time.Time, time.Duration, …) are
			// registered inside the codec; anything else cannot be encoded.
			ci := c.info(crv.Type())
			if !ci.Registered && c.err == nil && !c.strict {
				c.err = fmt.Errorf("unregistered concrete type %v in interface", crv.Type())
			}
			w.WriteString("Any<" + crv.Type().String() + ">(")
			c.val(crv, amino.FieldOptions{}, false)
			w.WriteString(")")
			return
		}
		w.WriteString("Any<" + t.info.TypeURL + ">(")
		c.val(crv, amino.FieldOptions{}, false)
		w.WriteString(")")
	case reflect.Struct:
		w.WriteString("{")
		for i, f := range info.Fields {
			if i > 0 {
				w.WriteString(",")
			}
			w.WriteString(f.Name + ":")
			c.val(rv.Field(f.Index), f.FieldOptions, false)
		}
		w.WriteString("}")
	case reflect.Slice, reflect.Array:
		if rt.Elem().Kind() == reflect.Uint8 {
			n := rv.Len()
			b := make([]byte, n)
			reflect.Copy(reflect.ValueOf(b), rv)
			if c.strict && rt.Kind() == reflect.Slice && rv.IsNil() {
				w.WriteString("nilbytes")
				return
			}
			w.WriteString("x" + hex.EncodeToString(b))
			return
		}
		if c.strict && rt.Kind() == reflect.Slice && rv.IsNil() {
			w.WriteString("nilslice")
			return
		}
		w.WriteString("[")
		for i := 0; i < rv.Len(); i++ {
			if i > 0 {
				w.WriteString(",")
			}
			c.val(rv.Index(i), fopts, fopts.NilElements)
		}
		w.WriteString("]")
	case reflect.String:
		if !utf8.ValidString(rv.String()) {
			c.badUTF8 = true
		}
		w.WriteString(strconv.Quote(rv.String()))
	case reflect.Bool:
		w.WriteString(strconv.FormatBool(rv.Bool()))
	case reflect.Int, reflect.Int8, reflect.Int16, reflect.Int32, reflect.Int64:
		w.WriteString(strconv.FormatInt(rv.Int(), 10))
	case reflect.Uint, reflect.Uint8, reflect.Uint16, reflect.Uint32, reflect.Uint64:
		w.WriteString(strconv.FormatUint(rv.Uint(), 10) + "u")
	case reflect.Float32, reflect.Float64:
		w.WriteString("f" + strconv.FormatUint(math.Float64bits(rv.Float()), 16))
	default:
		panic(fmt.Sprintf("canon: unsupported kind %v", rt.Kind()))
	}
}

// firstDiff returns a short description of where two canonical forms differ.
func firstDiff(a, b string) string {
	n := min(len(a), len(b))
	i := 0
	for i < n && a[i] == b[i] {
		i++
	}
	lo := max(0, i-60)
	return fmt.Sprintf("at %d: …%s ≠ …%s", i, clip(a[lo:], 160), clip(b[lo:], 160))
}

func clip(s string, n int) string {
	if len(s) <= n {
		return s
	}
	return s[:n] + "…"
}
