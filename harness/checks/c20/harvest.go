package c20

import (
	"bytes"
	"fmt"
	"math/rand/v2"
	"reflect"
	"sort"
	"strings"

	"github.com/gnolang/gno/gnovm/pkg/gnolang"
	"github.com/gnolang/gno/tm2/pkg/amino"
	abci "github.com/gnolang/gno/tm2/pkg/bft/abci/types"
	"github.com/gnolang/gno/tm2/pkg/sdk/auth"
	"github.com/gnolang/gno/tm2/pkg/std"

	"verifharness/internal/audit"
	"verifharness/internal/chainsim"
	"verifharness/internal/hist"
	"verifharness/internal/vf"
)

// harvested is one real encoding taken from a chain run.
type harvested struct {
	key   string // where it came from (store key or "tx:<h>/<i>")
	T     *regType
	inner []byte // bare encoding of a T
	any   []byte // the Any envelope as stored (nil when stored bare)
}

type txMon struct {
	txs  [][]byte
	resp []abci.ResponseDeliverTx
}

func (m *txMon) OnGenesis(c *chainsim.Chain) {}
func (m *txMon) OnBlock(c *chainsim.Chain, bt *chainsim.BlockTrace, specs []hist.TxSpec) {
	for _, t := range bt.Txs {
		m.txs = append(m.txs, t.TxBytes)
		m.resp = append(m.resp, t.Res)
	}
}

// splitAny parses a google.protobuf.Any envelope (independent of amino).
func splitAny(bz []byte) (typeURL string, value []byte, ok bool) {
	fs, good := parseFields(bz)
	if !good || len(fs) == 0 || len(fs) > 2 || fs[0].num != 1 || fs[0].typ != 2 {
		return "", nil, false
	}
	typeURL = string(fs[0].payload)
	if len(fs) == 2 {
		if fs[1].num != 2 || fs[1].typ != 2 {
			return "", nil, false
		}
		value = fs[1].payload
	}
	return typeURL, value, true
}

// harvest plays a small seeded history on the real gno.land application and
// returns every amino record of the committed state (GnoVM objects, types,
// realms, accounts, sessions, mem packages) plus the transactions and their
// DeliverTx responses.
func harvest(c *vf.Ctx, r *registry, seed uint64, blocks int) ([]harvested, map[string]int, error) {
	byURL := map[string]*regType{}
	for _, T := range r.types {
		byURL[T.info.TypeURL] = T
	}
	rng := rand.New(rand.NewPCG(seed, 0xc20))
	h := hist.GenP(rng, seed, blocks, 5, hist.Profile{FailBoost: true})
	mon := &txMon{}
	ch, err := hist.Play(h, hist.PlayOpts{Monitors: []hist.Monitor{mon}})
	if ch != nil {
		defer ch.Close()
	}
	if err != nil {
		return nil, nil, err
	}
	st, _, err := audit.Snapshot(ch.DB, 0)
	if err != nil {
		return nil, nil, err
	}
	classes := map[string]int{}
	var out []harvested
	addAny := func(key string, anyBz []byte, class string) {
		url, val, ok := splitAny(anyBz)
		T := byURL[url]
		if !ok || T == nil {
			classes["unparsed:"+class]++
			return
		}
		classes[class]++
		out = append(out, harvested{key: key, T: T, inner: val, any: anyBz})
	}
	for _, k := range st.Base.Keys {
		v := st.Base.M[k]
		switch {
		case strings.HasPrefix(k, "oid:") && strings.HasSuffix(k, "#realm"):
			classes["realm"]++
			out = append(out, harvested{key: k, T: r.byType[reflect.TypeFor[gnolang.Realm]()], inner: v})
		case strings.HasPrefix(k, "oid:"):
			if len(v) > gnolang.HashSize {
				addAny(k, v[gnolang.HashSize:], "object")
			}
		case strings.HasPrefix(k, "tid:"):
			addAny(k, v, "type")
		}
	}
	for _, k := range st.Main.Keys {
		v := st.Main.M[k]
		switch {
		case strings.HasPrefix(k, auth.AddressStoreKeyPrefix):
			addAny(fmt.Sprintf("main:%x", k), v, "account")
		case strings.HasPrefix(k, "pkg:"):
			classes["mempackage"]++
			out = append(out, harvested{key: k, T: r.byType[reflect.TypeFor[std.MemPackage]()], inner: v})
		}
	}
	txT := r.byType[reflect.TypeFor[std.Tx]()]
	respT := r.byType[reflect.TypeFor[abci.ResponseDeliverTx]()]
	for i, tx := range mon.txs {
		classes["tx"]++
		out = append(out, harvested{key: fmt.Sprintf("tx:%d", i), T: txT, inner: tx})
		if bz, err := amino.Marshal(mon.resp[i]); err == nil {
			classes["deliver-response"]++
			out = append(out, harvested{key: fmt.Sprintf("resp:%d", i), T: respT, inner: bz})
		}
	}
	sort.SliceStable(out, func(i, j int) bool { return out[i].key < out[j].key })
	return out, classes, nil
}

// checkHarvested: a real encoding must be accepted by both decoders with equal
// values, and both encoders must reproduce exactly the stored bytes.
func (t *tester) checkHarvested(hv harvested) {
	T := hv.T
	t.st(T, func(s *typeStats) { s.Harvested++ })
	if len(hv.inner) > maxInput*8 {
		t.skip("harvest-too-long")
		return
	}
	dr := t.decReflect(T, hv.inner)
	wit := map[string]any{"origin": "harvest:" + hv.key, "hex": clip(vf.Hex(hv.inner), 6000)}
	if !dr.ok() {
		t.violation("harvest-decode-reject:reflect", T, wit, "the reflection decoder rejects a stored encoding (%s): err=%v panic=%v", hv.key, dr.err, dr.panic)
		return
	}
	if T.hasGen {
		dg := t.decGen(T, hv.inner)
		if !dg.ok() {
			t.violation("harvest-decode-reject:gen", T, wit, "the generated decoder rejects a stored encoding (%s): err=%v panic=%v", hv.key, dg.err, dg.panic)
			return
		}
		if a, b := t.r.strictCanon(dr.pv.Elem()), t.r.strictCanon(dg.pv.Elem()); a != b {
			wit["diff"] = firstDiff(a, b)
			t.violation("decode-value-mismatch", T, wit, "decoders return different values for a stored encoding (%s): %s", hv.key, firstDiff(a, b))
			return
		}
	}
	// full value oracle on the real value (encoder parity, size, Any, sized, JSON)
	bz := t.checkValue(T, dr.pv, "harvest:"+hv.key, nil, false)
	if bz != nil || len(hv.inner) == 0 {
		if !bytes.Equal(bz, hv.inner) && !(len(bz) == 0 && len(hv.inner) == 0) {
			wit["reencoded_hex"] = clip(vf.Hex(bz), 6000)
			t.violation("harvest-reencode-differs", T, wit, "re-encoding a stored value does not reproduce the stored bytes (%s)", hv.key)
			return
		}
	}
	if hv.any != nil {
		// the stored envelope against the envelope model and both Any decoders
		if want := anyModel(T.info.TypeURL, hv.inner); !bytes.Equal(want, hv.any) {
			wit["any_hex"] = clip(vf.Hex(hv.any), 6000)
			t.violation("harvest-any-envelope", T, wit, "stored Any envelope differs from the envelope model (%s)", hv.key)
			return
		}
		if len(hv.any) <= maxInput {
			t.checkAnyBytes(hv.any, "harvest-any:"+hv.key, T)
		}
	}
}
