package c20

import (
	"encoding/binary"
	"math/rand/v2"
)

// wire-level view of an encoding: a sequence of (key, payload) fields as in
// proto3. Used only to build hostile inputs; it is not an oracle.
type wfield struct {
	num     uint64
	typ     byte
	key     []byte // key varint bytes
	lenpfx  []byte // length prefix (typ 2 only)
	payload []byte // value bytes (varint bytes, 4/8 fixed bytes, or the length-delimited body)
}

func (f wfield) bytes() []byte {
	out := append([]byte(nil), f.key...)
	out = append(out, f.lenpfx...)
	return append(out, f.payload...)
}

func parseFields(bz []byte) ([]wfield, bool) {
	var out []wfield
	for len(bz) > 0 {
		k, n := binary.Uvarint(bz)
		if n <= 0 {
			return out, false
		}
		f := wfield{num: k >> 3, typ: byte(k & 7), key: bz[:n]}
		bz = bz[n:]
		switch f.typ {
		case 0:
			_, m := binary.Uvarint(bz)
			if m <= 0 {
				return out, false
			}
			f.payload = bz[:m]
			bz = bz[m:]
		case 1:
			if len(bz) < 8 {
				return out, false
			}
			f.payload = bz[:8]
			bz = bz[8:]
		case 5:
			if len(bz) < 4 {
				return out, false
			}
			f.payload = bz[:4]
			bz = bz[4:]
		case 2:
			l, m := binary.Uvarint(bz)
			if m <= 0 || l > uint64(len(bz)-m) {
				return out, false
			}
			f.lenpfx = bz[:m]
			f.payload = bz[m : m+int(l)]
			bz = bz[m+int(l):]
		default:
			return out, false
		}
		out = append(out, f)
	}
	return out, true
}

func joinFields(fs []wfield) []byte {
	var out []byte
	for _, f := range fs {
		out = append(out, f.bytes()...)
	}
	return out
}

func mkKey(num uint64, typ byte) []byte { return binary.AppendUvarint(nil, num<<3|uint64(typ)) }

func mkField(num uint64, typ byte, payload []byte) wfield {
	f := wfield{num: num, typ: typ, key: mkKey(num, typ), payload: payload}
	if typ == 2 {
		f.lenpfx = binary.AppendUvarint(nil, uint64(len(payload)))
	}
	return f
}

// overlong re-encodes a varint non-minimally (same value, extra 0x80 … 0x00).
func overlong(v []byte, extra int) []byte {
	if len(v) == 0 {
		return v
	}
	out := append([]byte(nil), v...)
	out[len(out)-1] |= 0x80
	for i := 0; i < extra-1; i++ {
		out = append(out, 0x80)
	}
	return append(out, 0x00)
}

var hugeLens = []uint64{1 << 7, 1 << 14, 1 << 21, 1<<31 - 1, 1 << 31, 1 << 32, 1<<63 - 1, 1 << 63, 1<<64 - 1}

// mutator produces hostile byte strings from valid encodings.
type mutator struct {
	rng   *rand.Rand
	other func() []byte // another valid encoding (same or other type) for splicing
}

const nMutOps = 21

// mutate applies one mutation (op chosen at random, possibly inside a nested
// length-delimited field with the enclosing length prefixes repaired) and
// returns the result plus the op name.
func (m *mutator) mutate(bz []byte, depth int) ([]byte, string) {
	rng := m.rng
	fs, ok := parseFields(bz)
	// descend into a nested message with probability 1/2 when possible
	if ok && depth < 4 && len(fs) > 0 && rng.IntN(2) == 0 {
		var idx []int
		for i, f := range fs {
			if f.typ == 2 && len(f.payload) > 1 {
				idx = append(idx, i)
			}
		}
		if len(idx) > 0 {
			i := idx[rng.IntN(len(idx))]
			inner, op := m.mutate(fs[i].payload, depth+1)
			nf := mkField(fs[i].num, 2, inner)
			cp := append([]wfield(nil), fs...)
			cp[i] = nf
			return joinFields(cp), "nested/" + op
		}
	}
	op := rng.IntN(nMutOps)
	if !ok || len(fs) == 0 {
		// not field-structured (packed list, string…): byte-level ops only
		op = rng.IntN(4)
	}
	switch op {
	case 0: // truncate
		if len(bz) == 0 {
			return []byte{0}, "truncate"
		}
		return append([]byte(nil), bz[:rng.IntN(len(bz))]...), "truncate"
	case 1: // bit flips
		out := append([]byte(nil), bz...)
		if len(out) == 0 {
			return []byte{byte(rng.IntN(256))}, "bitflip"
		}
		for k := 1 + rng.IntN(3); k > 0; k-- {
			out[rng.IntN(len(out))] ^= 1 << uint(rng.IntN(8))
		}
		return out, "bitflip"
	case 2: // splice prefix of this with suffix of another encoding
		o := m.other()
		a, b := 0, 0
		if len(bz) > 0 {
			a = rng.IntN(len(bz) + 1)
		}
		if len(o) > 0 {
			b = rng.IntN(len(o) + 1)
		}
		return append(append([]byte(nil), bz[:a]...), o[b:]...), "splice"
	case 3: // append trailing bytes
		tail := [][]byte{{0x00}, {0x80}, {0xff, 0xff, 0xff, 0xff, 0xff, 0xff, 0xff, 0xff, 0xff, 0x01}, {0x08, 0x00}, {0x0a, 0x00}}[rng.IntN(5)]
		return append(append([]byte(nil), bz...), tail...), "trailing"
	case 4: // duplicate a field (adjacent or elsewhere)
		i := rng.IntN(len(fs))
		j := rng.IntN(len(fs) + 1)
		cp := append([]wfield(nil), fs[:j]...)
		cp = append(cp, fs[i])
		cp = append(cp, fs[j:]...)
		return joinFields(cp), "dup-field"
	case 5: // swap two fields (out-of-order field numbers)
		if len(fs) < 2 {
			return joinFields(append(append([]wfield(nil), fs...), fs[0])), "dup-field"
		}
		i, j := rng.IntN(len(fs)), rng.IntN(len(fs))
		cp := append([]wfield(nil), fs...)
		cp[i], cp[j] = cp[j], cp[i]
		return joinFields(cp), "swap-fields"
	case 6: // delete a field
		i := rng.IntN(len(fs))
		cp := append(append([]wfield(nil), fs[:i]...), fs[i+1:]...)
		return joinFields(cp), "delete-field"
	case 7: // renumber a field
		i := rng.IntN(len(fs))
		cp := append([]wfield(nil), fs...)
		maxNum := uint64(0)
		for _, f := range fs {
			maxNum = max(maxNum, f.num)
		}
		nn := []uint64{0, 1, fs[i].num + 1, fs[i].num - 1, maxNum + 1, maxNum + 7, 1<<29 - 1, 1 << 29, 1 << 40}[rng.IntN(9)]
		cp[i].key = mkKey(nn, fs[i].typ)
		return joinFields(cp), "renumber"
	case 8: // change the wire type of a key, keeping the payload bytes
		i := rng.IntN(len(fs))
		cp := append([]wfield(nil), fs...)
		nt := byte(rng.IntN(8))
		cp[i].key = mkKey(fs[i].num, nt)
		return joinFields(cp), "wiretype"
	case 9: // inflate / deflate a length prefix without touching the payload
		var idx []int
		for i, f := range fs {
			if f.typ == 2 {
				idx = append(idx, i)
			}
		}
		if len(idx) == 0 {
			return append(append([]byte(nil), bz...), 0x0a, 0xff, 0xff, 0xff, 0xff, 0x0f), "len-inflate"
		}
		i := idx[rng.IntN(len(idx))]
		cp := append([]wfield(nil), fs...)
		l := uint64(len(fs[i].payload))
		var nl uint64
		switch rng.IntN(5) {
		case 0:
			nl = l + 1
		case 1:
			if l > 0 {
				nl = l - 1
			}
		case 2:
			nl = l * 2
		case 3:
			nl = 0
		default:
			nl = hugeLens[rng.IntN(len(hugeLens))]
		}
		cp[i].lenpfx = binary.AppendUvarint(nil, nl)
		return joinFields(cp), "len-prefix"
	case 10: // insert an unknown field number with each wire type
		maxNum := uint64(0)
		for _, f := range fs {
			maxNum = max(maxNum, f.num)
		}
		num := maxNum + 1 + uint64(rng.IntN(3))
		var nf wfield
		switch rng.IntN(4) {
		case 0:
			nf = mkField(num, 0, []byte{0x01})
		case 1:
			nf = mkField(num, 1, []byte{1, 2, 3, 4, 5, 6, 7, 8})
		case 2:
			nf = mkField(num, 2, []byte("zz"))
		default:
			nf = mkField(num, 5, []byte{1, 2, 3, 4})
		}
		j := rng.IntN(len(fs) + 1)
		if rng.IntN(2) == 0 {
			j = len(fs)
		}
		cp := append([]wfield(nil), fs[:j]...)
		cp = append(cp, nf)
		cp = append(cp, fs[j:]...)
		return joinFields(cp), "unknown-field"
	case 11: // overlong varint for a key, a length prefix or a varint value
		i := rng.IntN(len(fs))
		cp := append([]wfield(nil), fs...)
		ex := 1 + rng.IntN(9)
		switch rng.IntN(3) {
		case 0:
			cp[i].key = overlong(fs[i].key, ex)
		case 1:
			if fs[i].typ == 2 {
				cp[i].lenpfx = overlong(fs[i].lenpfx, ex)
			} else if fs[i].typ == 0 {
				cp[i].payload = overlong(fs[i].payload, ex)
			}
		default:
			if fs[i].typ == 0 {
				cp[i].payload = overlong(fs[i].payload, ex)
			} else {
				cp[i].key = overlong(fs[i].key, ex)
			}
		}
		return joinFields(cp), "overlong-varint"
	case 12: // replace a varint value with a boundary value
		var idx []int
		for i, f := range fs {
			if f.typ == 0 {
				idx = append(idx, i)
			}
		}
		if len(idx) == 0 {
			return append(append([]byte(nil), bz...), 0x08, 0xff, 0xff, 0xff, 0xff, 0xff, 0xff, 0xff, 0xff, 0xff, 0x01), "varint-boundary"
		}
		i := idx[rng.IntN(len(idx))]
		cp := append([]wfield(nil), fs...)
		v := []uint64{0, 1, 2, 127, 128, 255, 256, 1<<15 - 1, 1 << 15, 1 << 16, 1<<31 - 1, 1 << 31, 1<<32 - 1, 1 << 32, 1<<63 - 1, 1 << 63, 1<<64 - 1, 1<<64 - 2}[rng.IntN(18)]
		cp[i].payload = binary.AppendUvarint(nil, v)
		if rng.IntN(8) == 0 { // 11-byte varint: overflow
			cp[i].payload = []byte{0xff, 0xff, 0xff, 0xff, 0xff, 0xff, 0xff, 0xff, 0xff, 0xff, 0x01}
		}
		return joinFields(cp), "varint-boundary"
	case 13: // empty a length-delimited field (present with zero length)
		var idx []int
		for i, f := range fs {
			if f.typ == 2 {
				idx = append(idx, i)
			}
		}
		if len(idx) == 0 {
			return []byte{}, "empty"
		}
		i := idx[rng.IntN(len(idx))]
		cp := append([]wfield(nil), fs...)
		cp[i] = mkField(fs[i].num, 2, nil)
		return joinFields(cp), "empty-field"
	case 14: // replace a length-delimited payload with another encoding (type confusion)
		var idx []int
		for i, f := range fs {
			if f.typ == 2 {
				idx = append(idx, i)
			}
		}
		if len(idx) == 0 {
			return m.other(), "replace"
		}
		i := idx[rng.IntN(len(idx))]
		cp := append([]wfield(nil), fs...)
		cp[i] = mkField(fs[i].num, 2, m.other())
		return joinFields(cp), "replace-payload"
	case 15: // add an explicit zero-valued field that encoders elide (field numbers 1..max+1 not present)
		present := map[uint64]bool{}
		maxNum := uint64(0)
		for _, f := range fs {
			present[f.num] = true
			maxNum = max(maxNum, f.num)
		}
		var missing []uint64
		for n := uint64(1); n <= maxNum+2 && n < 40; n++ {
			if !present[n] {
				missing = append(missing, n)
			}
		}
		if len(missing) == 0 {
			return append(append([]byte(nil), bz...), 0x00), "trailing"
		}
		n := missing[rng.IntN(len(missing))]
		var nf wfield
		switch rng.IntN(4) {
		case 0:
			nf = mkField(n, 0, []byte{0x00})
		case 1:
			nf = mkField(n, 2, nil)
		case 2:
			nf = mkField(n, 1, make([]byte, 8))
		default:
			nf = mkField(n, 5, make([]byte, 4))
		}
		// insert in field-number order
		j := 0
		for j < len(fs) && fs[j].num < n {
			j++
		}
		cp := append([]wfield(nil), fs[:j]...)
		cp = append(cp, nf)
		cp = append(cp, fs[j:]...)
		return joinFields(cp), "explicit-zero-field"
	case 16: // repeat a whole field many times (repeated-field growth)
		i := rng.IntN(len(fs))
		k := 2 + rng.IntN(30)
		cp := append([]wfield(nil), fs[:i]...)
		for x := 0; x < k; x++ {
			cp = append(cp, fs[i])
		}
		cp = append(cp, fs[i+1:]...)
		return joinFields(cp), "repeat-field"
	case 17: // wrap: the whole encoding as field 1 of itself (nesting)
		return mkField(1, 2, bz).bytes(), "wrap"
	case 18: // change a fixed-width payload / random bytes inside one payload
		i := rng.IntN(len(fs))
		cp := append([]wfield(nil), fs...)
		if len(fs[i].payload) > 0 {
			p := append([]byte(nil), fs[i].payload...)
			p[rng.IntN(len(p))] = byte(rng.IntN(256))
			cp[i].payload = p
		}
		return joinFields(cp), "payload-byte"
	case 19: // a length-delimited entry for an absent (skipped / reserved / unknown) field number whose
		// length prefix claims exactly the rest of the enclosing message, or overshoots it by a few bytes
		present := map[uint64]bool{}
		maxNum := uint64(0)
		for _, f := range fs {
			present[f.num] = true
			maxNum = max(maxNum, f.num)
		}
		var missing []uint64
		for n := uint64(1); n <= maxNum+2 && n < 40; n++ {
			if !present[n] {
				missing = append(missing, n)
			}
		}
		if len(missing) == 0 {
			return append(append([]byte(nil), bz...), 0x0a, 0x01), "skipped-field-overshoot"
		}
		n := missing[rng.IntN(len(missing))]
		j := 0
		for j < len(fs) && fs[j].num < n {
			j++
		}
		if rng.IntN(2) == 0 {
			// as the last entry of the message: nothing follows the payload
			fs = fs[:j]
		}
		rest := joinFields(fs[j:])
		payload := append(m.rng2(rng.IntN(5)), rest...)
		nf := wfield{num: n, typ: 2, key: mkKey(n, 2), lenpfx: binary.AppendUvarint(nil, uint64(len(payload)+rng.IntN(3))), payload: payload}
		cp := append([]wfield(nil), fs[:j]...)
		cp = append(cp, nf)
		return joinFields(cp), "skipped-field-overshoot"
	default: // two mutations in sequence
		a, op1 := m.mutate(bz, 4)
		b, op2 := m.mutate(a, 4)
		return b, op1 + "+" + op2
	}
}

func (m *mutator) rng2(n int) []byte {
	out := make([]byte, n)
	for i := range out {
		out[i] = byte(m.rng.IntN(256))
	}
	return out
}

// randomBytes returns a short random string, biased towards plausible keys.
func randomBytes(rng *rand.Rand) []byte {
	n := rng.IntN(12)
	b := make([]byte, n)
	for i := range b {
		switch rng.IntN(4) {
		case 0:
			b[i] = []byte{0x0a, 0x08, 0x12, 0x10, 0x1a, 0x22, 0x00, 0x01, 0x02, 0x7f, 0x80, 0xff}[rng.IntN(12)]
		default:
			b[i] = byte(rng.IntN(256))
		}
	}
	return b
}

// ---------------------------------------------------------------------------
// controlled re-tests used to attribute a decoder disagreement to a cause

// normalizeVarints re-encodes every key, length prefix and varint value of a
// well-formed field sequence minimally, recursing into length-delimited
// payloads that are themselves well-formed field sequences.
func normalizeVarints(bz []byte, depth int) ([]byte, bool) {
	fs, ok := parseFields(bz)
	if !ok {
		return bz, false
	}
	changed := false
	var out []byte
	for _, f := range fs {
		key := mkKey(f.num, f.typ)
		if len(key) != len(f.key) {
			changed = true
		}
		out = append(out, key...)
		switch f.typ {
		case 0:
			v, _ := binary.Uvarint(f.payload)
			p := binary.AppendUvarint(nil, v)
			if len(p) != len(f.payload) {
				changed = true
			}
			out = append(out, p...)
		case 2:
			p := f.payload
			if depth < 12 && len(p) > 0 {
				if np, ch := normalizeVarints(p, depth+1); ch {
					p, changed = np, true
				}
			}
			lp := binary.AppendUvarint(nil, uint64(len(p)))
			if len(lp) != len(f.lenpfx) {
				changed = true
			}
			out = append(out, lp...)
			out = append(out, p...)
		default:
			out = append(out, f.payload...)
		}
	}
	return out, changed
}

// dropZeroLengthFields removes every explicitly present zero-length
// length-delimited field, recursively.
func dropZeroLengthFields(bz []byte, depth int) ([]byte, bool) {
	fs, ok := parseFields(bz)
	if !ok {
		return bz, false
	}
	changed := false
	var out []byte
	for _, f := range fs {
		if f.typ == 2 && len(f.payload) == 0 {
			changed = true
			continue
		}
		if f.typ == 2 && depth < 12 {
			if np, ch := dropZeroLengthFields(f.payload, depth+1); ch {
				out = append(out, mkField(f.num, 2, np).bytes()...)
				changed = true
				continue
			}
		}
		out = append(out, f.bytes()...)
	}
	return out, changed
}

// completeDanglingKeys appends an explicit zero length after a length-delimited
// field key that is the last byte(s) of its scope (input truncated right after
// the key), recursively, repairing the enclosing length prefixes.
func completeDanglingKeys(bz []byte, depth int) ([]byte, bool) {
	// find the longest well-formed prefix
	var fs []wfield
	rest := bz
	for len(rest) > 0 {
		one, ok := parseOne(rest)
		if !ok {
			break
		}
		fs = append(fs, one)
		rest = rest[len(one.bytes()):]
	}
	changed := false
	var out []byte
	for _, f := range fs {
		if f.typ == 2 && depth < 12 && len(f.payload) > 0 {
			if np, ch := completeDanglingKeys(f.payload, depth+1); ch {
				out = append(out, mkField(f.num, 2, np).bytes()...)
				changed = true
				continue
			}
		}
		out = append(out, f.bytes()...)
	}
	if len(rest) > 0 {
		k, n := binary.Uvarint(rest)
		if n > 0 && n == len(rest) && k&7 == 2 && k>>3 != 0 {
			out = append(out, rest...)
			out = append(out, 0x00)
			return out, true
		}
		out = append(out, rest...)
	}
	return out, changed
}

func parseOne(bz []byte) (wfield, bool) {
	k, n := binary.Uvarint(bz)
	if n <= 0 {
		return wfield{}, false
	}
	f := wfield{num: k >> 3, typ: byte(k & 7), key: bz[:n]}
	bz = bz[n:]
	switch f.typ {
	case 0:
		_, m := binary.Uvarint(bz)
		if m <= 0 {
			return f, false
		}
		f.payload = bz[:m]
	case 1:
		if len(bz) < 8 {
			return f, false
		}
		f.payload = bz[:8]
	case 5:
		if len(bz) < 4 {
			return f, false
		}
		f.payload = bz[:4]
	case 2:
		l, m := binary.Uvarint(bz)
		if m <= 0 || l > uint64(len(bz)-m) {
			return f, false
		}
		f.lenpfx = bz[:m]
		f.payload = bz[m : m+int(l)]
	default:
		return f, false
	}
	return f, true
}
