package c20

import (
	"reflect"
	"sort"
	"strings"
	"sync"

	"github.com/gnolang/gno/gno.land/pkg/gnoland"
	"github.com/gnolang/gno/gno.land/pkg/sdk/vm"
	"github.com/gnolang/gno/gnovm/pkg/gnolang"
	"github.com/gnolang/gno/gnovm/stdlibs/chain"
	"github.com/gnolang/gno/tm2/pkg/amino"
	aminotests "github.com/gnolang/gno/tm2/pkg/amino/tests"
	abci "github.com/gnolang/gno/tm2/pkg/bft/abci/types"
	"github.com/gnolang/gno/tm2/pkg/bft/blockchain"
	"github.com/gnolang/gno/tm2/pkg/bft/consensus"
	cstypes "github.com/gnolang/gno/tm2/pkg/bft/consensus/types"
	"github.com/gnolang/gno/tm2/pkg/bft/mempool"
	"github.com/gnolang/gno/tm2/pkg/bft/privval/signer/remote"
	bft "github.com/gnolang/gno/tm2/pkg/bft/types"
	"github.com/gnolang/gno/tm2/pkg/bitarray"
	"github.com/gnolang/gno/tm2/pkg/crypto/ed25519"
	"github.com/gnolang/gno/tm2/pkg/crypto/hd"
	"github.com/gnolang/gno/tm2/pkg/crypto/keys"
	"github.com/gnolang/gno/tm2/pkg/crypto/merkle"
	"github.com/gnolang/gno/tm2/pkg/crypto/mock"
	"github.com/gnolang/gno/tm2/pkg/crypto/multisig"
	"github.com/gnolang/gno/tm2/pkg/crypto/secp256k1"
	"github.com/gnolang/gno/tm2/pkg/p2p/conn"
	"github.com/gnolang/gno/tm2/pkg/p2p/discovery"
	"github.com/gnolang/gno/tm2/pkg/sdk"
	"github.com/gnolang/gno/tm2/pkg/sdk/auth"
	"github.com/gnolang/gno/tm2/pkg/sdk/bank"
	"github.com/gnolang/gno/tm2/pkg/sdk/params"
	"github.com/gnolang/gno/tm2/pkg/sdk/testutils"
	"github.com/gnolang/gno/tm2/pkg/std"
)

// pkgEntry is one amino.Package of the tree (every non-test
// amino.RegisterPackage(amino.NewPackage(...)) call site, plus the amino
// fixture package tm2/pkg/amino/tests which carries its own pb3_gen.go).
type pkgEntry struct {
	short string // label used in keys and evidence: "std", "bft", "gnolang", …
	pkg   *amino.Package
	aux   bool // not a production package (amino's own fixture types)
}

var allPackages = []pkgEntry{
	{"std", std.Package, false},
	{"gnoland", gnoland.Package, false},
	{"vm", vm.Package, false},
	{"gnolang", gnolang.Package, false},
	{"chain", chain.Package, false},
	{"bft", bft.Package, false},
	{"abci", abci.Package, false},
	{"cstypes", cstypes.Package, false},
	{"consensus", consensus.Package, false},
	{"blockchain", blockchain.Package, false},
	{"mempool", mempool.Package, false},
	{"remote", remote.Package, false},
	{"bitarray", bitarray.Package, false},
	{"merkle", merkle.Package, false},
	{"ed25519", ed25519.Package, false},
	{"secp256k1", secp256k1.Package, false},
	{"multisig", multisig.Package, false},
	{"mock", mock.Package, false},
	{"hd", hd.Package, false},
	{"keys", keys.Package, false},
	{"conn", conn.Package, false},
	{"discovery", discovery.Package, false},
	{"sdk", sdk.Package, false},
	{"auth", auth.Package, false},
	{"bank", bank.Package, false},
	{"params", params.Package, false},
	{"testutils", testutils.Package, false},
	{"aminotests", aminotests.Package, true},
}

// regType is one registered concrete type.
type regType struct {
	pkg     string // pkgEntry.short
	aux     bool
	name    string // "<pkg>.<GoTypeName>"
	rt      reflect.Type
	info    *amino.TypeInfo
	ptrPref bool
	hasGen  bool // native genproto2 fast path (MarshalBinary2/SizeBinary2/UnmarshalBinary2)
}

type registry struct {
	cdc    *amino.Codec
	types  []*regType
	byType map[reflect.Type]*regType
	// implementations of an interface type among the registered types, in
	// registry order (computed lazily, see impls()).
	implCache map[reflect.Type][]*regType
	mu        sync.Mutex
}

func buildRegistry() *registry {
	cdc := amino.NewCodec()
	for _, p := range allPackages {
		cdc.RegisterPackage(p.pkg)
	}
	cdc.Seal()
	r := &registry{cdc: cdc, byType: map[reflect.Type]*regType{}, implCache: map[reflect.Type][]*regType{}}
	for _, p := range allPackages {
		for _, t := range p.pkg.Types {
			info, err := cdc.GetTypeInfo(t.Type)
			if err != nil {
				panic(err)
			}
			if _, dup := r.byType[t.Type]; dup {
				continue
			}
			rt := &regType{
				pkg: p.short, aux: p.aux, name: p.short + "." + t.Type.Name(), rt: t.Type, info: info,
				ptrPref: info.PointerPreferred, hasGen: amino.HasNativeGenproto2(t.Type),
			}
			if rt.hasGen {
				// the dispatch in amino.Marshal additionally requires the interface
				if _, ok := reflect.New(t.Type).Interface().(amino.PBMessager2); !ok {
					rt.hasGen = false
				}
			}
			r.types = append(r.types, rt)
			r.byType[t.Type] = rt
		}
	}
	return r
}

// impls lists the registered concrete types usable as a value of interface
// type it, in their preferred (decoded) form.
func (r *registry) impls(it reflect.Type) []*regType {
	r.mu.Lock()
	defer r.mu.Unlock()
	return r.implsLocked(it)
}

func (r *registry) implsLocked(it reflect.Type) []*regType {
	if l, ok := r.implCache[it]; ok {
		return l
	}
	var out []*regType
	for _, t := range r.types {
		if r.ifaceForm(t, it) != nil {
			out = append(out, t)
		}
	}
	r.implCache[it] = out
	return out
}

// ifaceForm returns the Go type (T or *T) under which t is stored in an
// interface of type it so that a decode returns the same dynamic type, or nil
// when neither form implements it.
func (r *registry) ifaceForm(t *regType, it reflect.Type) reflect.Type {
	if t.ptrPref {
		if reflect.PointerTo(t.rt).Implements(it) {
			return reflect.PointerTo(t.rt)
		}
		return nil
	}
	if t.rt.Implements(it) {
		return t.rt
	}
	return nil
}

func sortedKeys[M ~map[string]V, V any](m M) []string {
	ks := make([]string, 0, len(m))
	for k := range m {
		ks = append(ks, k)
	}
	sort.Strings(ks)
	return ks
}

func shortTypeName(rt reflect.Type) string {
	s := rt.String()
	s = strings.ReplaceAll(s, "github.com/gnolang/gno/", "")
	return s
}

// implsFor is impls restricted to production types unless the interface
// itself belongs to amino's fixture package.
func (r *registry) implsFor(it reflect.Type) []*regType {
	r.mu.Lock()
	defer r.mu.Unlock()
	key := reflect.PointerTo(it) // distinct cache slot
	if l, ok := r.implCache[key]; ok {
		return l
	}
	all := r.implsLocked(it)
	if strings.Contains(it.PkgPath(), "amino/tests") {
		r.implCache[key] = all
		return all
	}
	var out []*regType
	for _, t := range all {
		if !t.aux {
			out = append(out, t)
		}
	}
	r.implCache[key] = out
	return out
}

// encodeOnlyImpls lists registered types T (not pointer-preferred) whose *T
// implements it while T does not: a *T inside such an interface is encodable,
// but no decoder can assign the decoded T back (e.g. *gnolang.NameExpr in a
// gnolang.Expr field, *bft.Header in an abci.Header field).
func (r *registry) encodeOnlyImpls(it reflect.Type) []*regType {
	r.mu.Lock()
	defer r.mu.Unlock()
	key := reflect.PointerTo(reflect.PointerTo(it))
	if l, ok := r.implCache[key]; ok {
		return l
	}
	var out []*regType
	aux := strings.Contains(it.PkgPath(), "amino/tests")
	for _, t := range r.types {
		if t.aux && !aux {
			continue
		}
		if !t.ptrPref && !t.rt.Implements(it) && reflect.PointerTo(t.rt).Implements(it) {
			out = append(out, t)
		}
	}
	r.implCache[key] = out
	return out
}
