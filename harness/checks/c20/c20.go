// Package c20: amino encoding is consistent, round-trips and rejects bad
// input safely.
//
// Differential twin: the reflection codec (Codec.MarshalReflect /
// UnmarshalReflect, binary_encode.go / binary_decode.go) against the genproto2
// generated fast path (MarshalBinary2 / SizeBinary2 / UnmarshalBinary2 in the
// pb3_gen.go files), over every type registered by every amino.Package of
// tm2, gnovm and gno.land (plus amino's own fixture package). The independent
// parts of the oracle are (a) a canonical form of Go values written against
// reflect + amino.TypeInfo that encodes amino's documented normalisations and
// never calls a codec, (b) a model of the google.protobuf.Any envelope and of
// the uvarint length prefix, (c) a proto3 wire-level parser used to build
// hostile inputs and to take real encodings apart.
package c20

import (
	"encoding/binary"
	"encoding/hex"
	"encoding/json"
	"fmt"
	"math/rand/v2"
	"reflect"
	"runtime"
	"sort"
	"strings"
	"sync"
	"time"

	"verifharness/internal/vf"
)

func init() {
	vf.Register(&vf.Check{
		ID:    "C20",
		Level: "exploration",
		Rule: "value cases = (registered type T, reflection-generated random value v of T; seeded, depth- and size-bounded; interface fields filled only with registered implementations in their decoded form) " +
			"plus every amino record (GnoVM objects, types, realms, accounts, mem packages, txs, DeliverTx responses) harvested from a seeded run of the real gno.land app; " +
			"byte cases = (T, byte string) where the string is a structure-aware mutation of a valid encoding of T (20 operators: truncate, bit flip, splice, trailing bytes, duplicate/swap/delete/renumber field, wire-type change, " +
			"length-prefix inflate/deflate, unknown field, overlong varint, varint boundary, empty field, payload replacement, explicit zero field, repeated field, wrap, payload byte, pairs; applied at any nesting level with enclosing lengths repaired), " +
			"a valid encoding of another type, or a short random string; the same for Any envelopes. " +
			"non-trivial value = canonical form differs from the zero value of T; non-trivial byte string = accepted, or longer than 2 bytes; distinct by (T, canonical value) resp. (T, bytes)",
		Run:    run,
		Replay: replay,
	})
}

// replay re-executes one recorded witness: a byte-string case (witness has
// "hex" or "any_hex" and a "mut:"/"harvest-any:" origin) is given to the
// decoders of the recorded type again; any other witness (a generated value
// is identified by its generator stream, not stored literally) re-runs the
// whole check at the recorded seed and tier.
func replay(c *vf.Ctx, witness json.RawMessage) {
	var w struct {
		Type   string `json:"type"`
		Origin string `json:"origin"`
		Hex    string `json:"hex"`
		AnyHex string `json:"any_hex"`
	}
	_ = json.Unmarshal(witness, &w)
	r := buildRegistry()
	t := newTester(c, r)
	t.zero = map[string]string{}
	var T *regType
	for _, x := range r.types {
		if x.name == w.Type {
			T = x
		}
	}
	isBytes := strings.HasPrefix(w.Origin, "mut") || strings.HasPrefix(w.Origin, "harvest-any")
	if T == nil || !isBytes || (w.Hex == "" && w.AnyHex == "" && !strings.HasPrefix(w.Origin, "mut")) {
		run(c)
		return
	}
	if w.AnyHex != "" {
		bz, err := hex.DecodeString(w.AnyHex)
		if err != nil {
			panic(err)
		}
		t.checkAnyBytes(bz, w.Origin, T)
		return
	}
	bz, err := hex.DecodeString(w.Hex)
	if err != nil {
		panic(err)
	}
	t.checkBytes(T, bz, w.Origin)
}

// types that get a larger share of the budget
var special = map[string]int{
	"std.Tx": 6, "std.MemPackage": 3, "std.BaseAccount": 3, "std.BaseSessionAccount": 3, "std.ContinuousVestingAccount": 3, "std.DelayedVestingAccount": 3,
	"vm.MsgCall": 3, "vm.MsgRun": 3, "vm.MsgAddPackage": 3, "bank.MsgSend": 3, "auth.MsgCreateSession": 3,
	"gnoland.GnoAccount": 4, "gnoland.GnoSessionAccount": 4, "gnoland.GnoGenesisState": 2,
	"bft.Block": 4, "bft.Header": 4, "bft.Commit": 4, "bft.Vote": 4, "bft.Proposal": 4, "bft.Part": 3, "bft.ValidatorSet": 3, "bft.DuplicateVoteEvidence": 3, "bft.CommitSig": 3,
	"abci.ResponseDeliverTx": 3, "abci.ResponseEndBlock": 3, "abci.ResponseInitChain": 2, "abci.ResponseQuery": 2,
	"gnolang.TypedValue": 6, "gnolang.StructValue": 4, "gnolang.ArrayValue": 4, "gnolang.MapValue": 4, "gnolang.FuncValue": 4, "gnolang.Block": 4, "gnolang.PackageValue": 4,
	"gnolang.HeapItemValue": 4, "gnolang.BoundMethodValue": 3, "gnolang.SliceValue": 3, "gnolang.PointerValue": 3, "gnolang.RefValue": 3,
	"gnolang.DeclaredType": 4, "gnolang.StructType": 4, "gnolang.FuncType": 4, "gnolang.InterfaceType": 4, "gnolang.MapType": 3,
}

// fixture types of tm2/pkg/amino/tests whose own UnmarshalAmino is written to
// panic on reprs it does not expect (panic("wanted a but is …"), repr[0] on an
// empty list): test scaffolding, not codec behaviour; they take part in the
// value phase only.
var fixtureOwnPanics = map[string]bool{
	"aminotests.AminoMarshalerStruct2": true, "aminotests.AminoMarshalerStruct6": true, "aminotests.AminoMarshalerStruct7": true,
}

func weight(T *regType) int {
	if w, ok := special[T.name]; ok {
		return w
	}
	switch T.pkg {
	case "gnolang":
		return 2
	case "aminotests":
		return 1
	}
	return 1
}

func run(c *vf.Ctx) {
	r := buildRegistry()
	t := newTester(c, r)
	workers := min(runtime.GOMAXPROCS(0), 16)
	perTypeVals := c.N(40, 2500)
	perTypeMut := c.N(110, 9000)
	corpusCap := c.N(24, 96)

	// canonical form of each type's zero value (for the non-triviality rule)
	zeroCanon := map[string]string{}
	for _, T := range r.types {
		s, _, _ := r.canon(reflect.New(T.rt).Elem())
		zeroCanon[T.name] = s
	}
	t.zero = zeroCanon

	// harvest runs concurrently with the random-value phase
	var hv []harvested
	var hclasses map[string]int
	var herr error
	var hwg sync.WaitGroup
	hwg.Add(1)
	go func() {
		defer hwg.Done()
		if p := vf.Try(func() { hv, hclasses, herr = harvest(c, r, uint64(c.Seed), c.N(5, 14)) }); p != nil {
			herr = fmt.Errorf("panic: %v", p)
		}
	}()

	// ---- phase 1: random values ------------------------------------------------
	c.Logf("phase 1: %d registered types, %d values per unit weight", len(r.types), perTypeVals)
	c.Parallel(len(r.types), workers, 1000, func(i int, rng *rand.Rand) {
		T := r.types[i]
		n := perTypeVals * weight(T)
		for k := 0; k < n; k++ {
			g := &gen{r: r, rng: rng, budget: 40 + rng.IntN(80), inject: true}
			depth := 1 + rng.IntN(5)
			var pv reflect.Value
			switch k {
			case 0:
				pv = reflect.New(T.rt) // the zero value
			default:
				pv = g.top(T, depth)
			}
			bz := t.checkValue(T, pv, fmt.Sprintf("gen:%s#%d", T.name, k), g.injected, g.noUTF8, g.encodeOnly)
			if bz != nil {
				t.addCorpus(T, bz, corpusCap)
			}
		}
	})
	c.Logf("phase 1 done: %d violations so far", c.Violations())

	// ---- phase 2: harvested real encodings -----------------------------------
	hwg.Wait()
	if herr != nil {
		c.Inconclusive("harvest chain run failed: " + herr.Error())
	} else {
		c.Logf("phase 2: %d harvested records %v", len(hv), hclasses)
		// cap the number of records per (type) evaluated in quick; all in thorough
		capPer := c.N(1500, 1<<30)
		seen := map[string]int{}
		var sel []harvested
		for _, h := range hv {
			if seen[h.T.name] < capPer {
				seen[h.T.name]++
				sel = append(sel, h)
			}
		}
		c.Parallel(len(sel), workers, 500000, func(i int, _ *rand.Rand) {
			t.checkHarvested(sel[i])
		})
		// the first real encodings of each type join the mutation corpus (deterministic order)
		added := map[string]int{}
		for _, h := range sel {
			if added[h.T.name] < corpusCap/2 && len(h.inner) > 0 && len(h.inner) <= maxInput/2 {
				added[h.T.name]++
				t.mu.Lock()
				t.corpus[h.T.name] = append(t.corpus[h.T.name], h.inner)
				t.mu.Unlock()
			}
		}
		c.Set("harvest_record_classes", hclasses)
		c.Count("harvested_records", len(hv))
		c.Count("harvested_records_evaluated", len(sel))
	}

	// ---- phase 3: hostile byte strings -----------------------------------------
	// a fixed global pool for splicing / type confusion
	var pool [][]byte
	for _, name := range sortedTypeNames(t.corpus) {
		for i, e := range t.corpus[name] {
			if i < 3 {
				pool = append(pool, e)
			}
		}
	}
	if len(pool) == 0 {
		pool = [][]byte{{0x0a, 0x00}}
	}
	opCount := map[string]int{}
	var opMu sync.Mutex
	c.Logf("phase 3: mutations (%d per unit weight), pool %d", perTypeMut, len(pool))
	c.Parallel(len(r.types), workers, 2000000, func(i int, rng *rand.Rand) {
		T := r.types[i]
		if fixtureOwnPanics[T.name] {
			return
		}
		corp := t.corpus[T.name]
		local := map[string]int{}
		m := &mutator{rng: rng, other: func() []byte {
			if len(corp) > 0 && rng.IntN(2) == 0 {
				return corp[rng.IntN(len(corp))]
			}
			return pool[rng.IntN(len(pool))]
		}}
		// enumerated: entries for the type's reserved (skipped) field numbers, well-formed,
		// truncated and with a length prefix overshooting the rest of the message by 0..10 bytes
		if T.info.Type.Kind() == reflect.Struct && len(T.info.StructInfo.Reserved) > 0 {
			bases := [][]byte{nil}
			for i := 0; i < len(corp) && i < 4; i++ {
				bases = append(bases, corp[i])
			}
			for _, base := range bases {
				fs, ok := parseFields(base)
				if !ok {
					continue
				}
				for _, rn := range T.info.StructInfo.Reserved {
					j := 0
					for j < len(fs) && fs[j].num < uint64(rn) {
						j++
					}
					for _, keepRest := range []bool{false, true} {
						for plen := 0; plen < 4; plen++ {
							for over := 0; over <= 10; over++ {
								payload := m.rng2(plen)
								tail := []wfield(nil)
								if keepRest {
									tail = fs[j:]
									payload = append(payload, joinFields(tail)...)
								}
								nf := wfield{num: uint64(rn), typ: 2, key: mkKey(uint64(rn), 2), lenpfx: binary.AppendUvarint(nil, uint64(len(payload)+over)), payload: payload}
								bz := joinFields(append(append([]wfield(nil), fs[:j]...), nf))
								t.checkBytes(T, bz, fmt.Sprintf("reserved-field-entry:over=%d", over))
								local["reserved-field-entry"]++
							}
						}
					}
				}
			}
		}
		n := perTypeMut * weight(T)
		for k := 0; k < n; k++ {
			var bz []byte
			op := ""
			switch {
			case k%16 == 15 || len(corp) == 0 && k%2 == 0:
				bz, op = randomBytes(rng), "random"
			case k%16 == 14:
				bz, op = pool[rng.IntN(len(pool))], "other-type-encoding"
			case len(corp) == 0:
				bz, op = m.mutate(pool[rng.IntN(len(pool))], 0)
			default:
				bz, op = m.mutate(corp[rng.IntN(len(corp))], 0)
			}
			cls := op
			if j := strings.IndexAny(cls, "+"); j >= 0 {
				cls = "pair"
			}
			cls = strings.TrimPrefix(cls, "nested/")
			for strings.HasPrefix(cls, "nested/") {
				cls = strings.TrimPrefix(cls, "nested/")
			}
			if strings.HasPrefix(op, "nested/") {
				local["nested"]++
			}
			local[cls]++
			if k%8 == 7 {
				// the same hostile bytes inside an Any envelope addressed to T
				t.checkAnyBytes(anyModel(T.info.TypeURL, bz), "mut:"+op, T)
				if k%16 == 7 && len(corp) > 0 {
					// and a mutated envelope (type URL, field structure)
					env, eop := m.mutate(anyModel(T.info.TypeURL, corp[rng.IntN(len(corp))]), 4)
					t.checkAnyBytes(env, "mut-envelope:"+eop, T)
				}
				continue
			}
			t.checkBytes(T, bz, "mut:"+op)
		}
		opMu.Lock()
		for k, v := range local {
			opCount[k] += v
		}
		opMu.Unlock()
	})

	// ---- phase 4: allocation probe (sequential) ------------------------------
	t.allocProbe(r, pool, c.N(1500, 20000))

	// ---- evidence ---------------------------------------------------------------
	pp := t.perPackage()
	c.Set("packages", pp)
	c.Set("types", t.perType())
	c.Set("skipped_values_by_reason", t.skipSummary())
	c.Set("mutation_operator_counts", opCount)
	var accepted, rejected, values, nTypes, nGen, nCovered, noValue int
	var uncovered []string
	for _, T := range r.types {
		nTypes++
		if T.hasGen {
			nGen++
		}
		s := t.stats[T.name]
		if s == nil {
			uncovered = append(uncovered, T.name)
			continue
		}
		if s.Values == 0 {
			noValue++
			uncovered = append(uncovered, T.name+"(no value passed)")
		} else {
			nCovered++
		}
		accepted += s.BytesAccepted
		rejected += s.BytesRejected
		values += s.Values
	}
	sort.Strings(uncovered)
	c.Set("types_without_passing_value", uncovered)
	c.Count("registered_types", nTypes)
	c.Count("types_with_generated_fast_path", nGen)
	c.Count("types_with_values", nCovered)
	c.Count("values_passed_full_oracle", values)
	c.Count("byte_strings_accepted_by_both", accepted)
	c.Count("byte_strings_rejected_by_both", rejected)
	c.Count("mutation_operators_used", len(opCount))
	if len(t.viol) > 0 {
		c.Set("violations_by_key", t.viol)
		c.Set("first_witnesses_by_class", t.firstW)
	}
	c.Assume("the canonical form (canon.go) is the definition of value equality up to amino's documented normalisations; it never calls an encoder or decoder")
	c.Assume("MarshalAmino/UnmarshalAmino of a type define its repr; a value whose own repr does not parse back is outside the round-trip claim (counted as repr_unstable)")
	c.Assume("the harvested chain state is produced by the real app with the generated encoders; both decoders and both encoders are re-run on it")

	// minimum coverage
	c.Require("types_with_values", int64(nCovered), int64(nTypes*9/10))
	c.Require("byte_strings_rejected_by_both", int64(rejected), int64(c.N(20000, 500000)))
	c.Require("byte_strings_accepted_by_both", int64(accepted), int64(c.N(3000, 80000)))
	c.Require("mutation_operators_used", int64(len(opCount)), 20)
	if herr == nil {
		c.Require("harvested_records", int64(len(hv)), 1500)
	}
	for _, s := range t.samples() {
		c.Sample(s)
	}
}

// allocProbe measures heap allocation of single decodes of length-inflated
// inputs, sequentially (runtime.MemStats is process-wide). An input of at most
// maxInput bytes making a decoder allocate more than 64 MiB is reported.
func (t *tester) allocProbe(r *registry, pool [][]byte, n int) {
	rng := t.c.Rng(77)
	const limit = 64 << 20
	var ms runtime.MemStats
	probes := 0
	for k := 0; k < n; k++ {
		T := r.types[rng.IntN(len(r.types))]
		corp := t.corpus[T.name]
		if len(corp) == 0 {
			continue
		}
		base := corp[rng.IntN(len(corp))]
		fs, ok := parseFields(base)
		if !ok || len(fs) == 0 {
			continue
		}
		// inflate one length prefix / varint, at top level or one level down
		m := &mutator{rng: rng, other: func() []byte { return pool[rng.IntN(len(pool))] }}
		var bz []byte
		for tries := 0; tries < 8; tries++ {
			b, op := m.mutate(base, 0)
			if strings.Contains(op, "len-") || strings.Contains(op, "varint") || strings.Contains(op, "repeat") {
				bz = b
				break
			}
		}
		if bz == nil || len(bz) > maxInput {
			continue
		}
		probes++
		for _, which := range []string{"reflect", "gen"} {
			if which == "gen" && !T.hasGen {
				continue
			}
			runtime.ReadMemStats(&ms)
			before := ms.TotalAlloc
			start := time.Now()
			if which == "reflect" {
				t.decReflect(T, bz)
			} else {
				t.decGen(T, bz)
			}
			el := time.Since(start)
			runtime.ReadMemStats(&ms)
			if d := ms.TotalAlloc - before; d > limit {
				t.violation("alloc-blowup:decode-"+which, T, map[string]any{"hex": vf.Hex(bz), "allocated_bytes": d, "input_len": len(bz)}, "decoding %d bytes allocated %d bytes", len(bz), d)
			}
			if el > 20*time.Second {
				t.c.Inconclusive(fmt.Sprintf("decode-%s of %s took %v on a %d-byte input (watchdog)", which, T.name, el, len(bz)))
			}
		}
	}
	t.c.Count("alloc_probes", probes)
}

func (t *tester) samples() []any {
	var out []any
	names := []string{"std.Tx", "gnolang.TypedValue", "bft.Vote", "gnoland.GnoAccount", "bft.Commit"}
	for _, n := range names {
		if corp := t.corpus[n]; len(corp) > 0 {
			e := corp[len(corp)/2]
			out = append(out, map[string]any{"type": n, "valid_encoding_hex": clip(vf.Hex(e), 400), "len": len(e)})
		}
	}
	return out
}
