package c20

import (
	"fmt"
	"math"
	"math/big"
	"math/rand/v2"
	"net"
	"reflect"
	"sort"
	"strings"
	"time"

	"github.com/gnolang/gno/gno.land/pkg/gnoland"
	"github.com/gnolang/gno/gnovm/pkg/gnolang"
	"github.com/gnolang/gno/tm2/pkg/amino"
	"github.com/gnolang/gno/tm2/pkg/crypto"
	p2ptypes "github.com/gnolang/gno/tm2/pkg/p2p/types"
	"github.com/gnolang/gno/tm2/pkg/sdk/params"
	"github.com/gnolang/gno/tm2/pkg/std"
)

// gen is a reflection-driven random value generator over amino's view of a
// type (exported, non-skipped fields; field options; registered interface
// implementations). Values are produced in the form the decoders return
// (preferred pointer form inside interfaces) so that a round trip can be
// compared; deliberate deviations (empty-but-non-nil slices, invalid values
// the encoders refuse) are injected with small probability and handled by the
// canonical form / skip counters.
type gen struct {
	r      *registry
	rng    *rand.Rand
	budget int  // remaining composite nodes
	inject bool // allow values the encoders are expected to refuse
	// notes collected while generating (why a value may be refused)
	injected []string
	noUTF8   bool // an invalid UTF-8 string was generated (JSON cannot round-trip it)
	// empty > 0: the subtree being generated consists of amino default values
	// only (zero scalars, "", nil lists, 1970 times): everything is elided on
	// the wire, which is where the decoders' defaults matter.
	empty int
	// encodeOnly: an interface was filled with a *T whose decoded form T is not
	// assignable to the interface (both decoders must refuse the encoding).
	encodeOnly bool
}

var (
	timeType     = reflect.TypeFor[time.Time]()
	durationType = reflect.TypeFor[time.Duration]()
	coinType     = reflect.TypeFor[std.Coin]()
	coinsType    = reflect.TypeFor[std.Coins]()
	balanceType  = reflect.TypeFor[gnoland.Balance]()
	paramType    = reflect.TypeFor[params.Param]()
	netAddrType  = reflect.TypeFor[p2ptypes.NetAddress]()
	bigintType   = reflect.TypeFor[gnolang.BigintValue]()
	bigdecType   = reflect.TypeFor[gnolang.BigdecValue]()
	mapListType  = reflect.TypeFor[gnolang.MapList]()
	addressType  = reflect.TypeFor[crypto.Address]()
	objectIDType = reflect.TypeFor[gnolang.ObjectID]()
)

func (g *gen) p(num, den int) bool { return g.rng.IntN(den) < num }

// top generates a pointer to a fresh value of t.
func (g *gen) top(t *regType, depth int) reflect.Value {
	pv := reflect.New(t.rt)
	g.fill(pv.Elem(), amino.FieldOptions{}, depth)
	return pv
}

var denoms = []string{"ugnot", "foo", "atom", "/gno.land/r/demo/x:tok", "a-b_c.d", "zzz9"}

func (g *gen) coins() std.Coins {
	n := g.rng.IntN(4)
	if n == 0 {
		if g.p(1, 2) {
			return nil
		}
		return std.Coins{}
	}
	pick := g.rng.Perm(len(denoms))[:n]
	ds := make([]string, n)
	for i, j := range pick {
		ds[i] = denoms[j]
	}
	sort.Strings(ds)
	out := make(std.Coins, n)
	for i, d := range ds {
		out[i] = std.Coin{Denom: d, Amount: g.posInt64()}
	}
	return out
}

func (g *gen) posInt64() int64 {
	switch g.rng.IntN(4) {
	case 0:
		return 1 + g.rng.Int64N(100)
	case 1:
		return math.MaxInt64
	case 2:
		return 1 + g.rng.Int64N(1<<40)
	default:
		return 1 + g.rng.Int64N(math.MaxInt64)
	}
}

func (g *gen) custom(rv reflect.Value, depth int) bool {
	switch rv.Type() {
	case timeType:
		rv.Set(reflect.ValueOf(g.time()))
	case durationType:
		rv.Set(reflect.ValueOf(g.duration()))
	case coinType:
		if g.p(1, 6) {
			return false // generic (usually invalid) value
		}
		if g.p(1, 8) {
			rv.Set(reflect.ValueOf(std.Coin{}))
		} else {
			rv.Set(reflect.ValueOf(std.Coin{Denom: denoms[g.rng.IntN(len(denoms))], Amount: g.posInt64()}))
		}
	case coinsType:
		if g.p(1, 8) {
			return false
		}
		rv.Set(reflect.ValueOf(g.coins()))
	case balanceType:
		if g.p(1, 8) {
			return false
		}
		b := gnoland.Balance{Amount: g.coins()}
		for i := range b.Address {
			b.Address[i] = byte(g.rng.IntN(256))
		}
		if g.p(1, 3) {
			vs := &std.VestingSchedule{OriginalVesting: g.coins(), StartTime: g.rng.Int64N(1 << 40), EndTime: g.rng.Int64N(1 << 41)}
			if g.p(1, 2) {
				vs.Type = std.VestingDelayed
			}
			b.Vesting = vs
		}
		rv.Set(reflect.ValueOf(b))
	case paramType:
		if g.p(1, 10) {
			return false
		}
		key := "k" + g.ident()
		var v any
		switch g.rng.IntN(6) {
		case 0:
			v = g.ident()
		case 1:
			v = g.int64v()
		case 2:
			v = g.rng.Uint64()
		case 3:
			v = g.p(1, 2)
		case 4:
			v = g.bytesN(1 + g.rng.IntN(8))
		default:
			ss := make([]string, 1+g.rng.IntN(3))
			for i := range ss {
				ss[i] = g.ident()
			}
			v = ss
		}
		rv.Set(reflect.ValueOf(params.NewParam(key, v)))
	case netAddrType:
		if g.p(1, 10) {
			return false
		}
		na := p2ptypes.NetAddress{Port: uint16(g.rng.IntN(65536))}
		if g.p(1, 2) {
			na.IP = net.IPv4(byte(1+g.rng.IntN(254)), byte(g.rng.IntN(256)), byte(g.rng.IntN(256)), byte(1+g.rng.IntN(254)))
		} else {
			ip := make(net.IP, 16)
			for i := range ip {
				ip[i] = byte(g.rng.IntN(256))
			}
			ip[0] = 0x20
			na.IP = ip
		}
		if g.p(3, 4) {
			var a crypto.Address
			for i := range a {
				a[i] = byte(g.rng.IntN(256))
			}
			na.ID = a.ID()
		}
		rv.Set(reflect.ValueOf(na))
	case bigintType:
		if g.p(1, 12) {
			return false // nil V
		}
		rv.Set(reflect.ValueOf(gnolang.BigintValue{V: g.bigInt()}))
	case bigdecType:
		switch g.rng.IntN(8) {
		case 0:
			return false // both nil: marshals as "0"
		case 1:
			f := new(big.Float).SetPrec(gnolang.BigdecFloatPrec).SetInt(g.bigInt())
			f.SetMantExp(f, g.rng.IntN(4000)-2000)
			rv.Set(reflect.ValueOf(gnolang.BigdecValue{F: f}))
		default:
			d := g.bigInt()
			d.Abs(d)
			if d.Sign() == 0 {
				d.SetInt64(1)
			}
			rv.Set(reflect.ValueOf(gnolang.BigdecValue{V: new(big.Rat).SetFrac(g.bigInt(), d)}))
		}
	case objectIDType:
		if g.p(1, 12) {
			return false // generic: NewTime may exceed what the repr parses back
		}
		var oid gnolang.ObjectID
		if g.p(4, 5) {
			copy(oid.PkgID.Hashlet[:], g.bytesN(20))
		}
		switch g.rng.IntN(4) {
		case 0:
		case 1:
			oid.NewTime = uint64(g.rng.IntN(1000))
		case 2:
			oid.NewTime = math.MaxInt64
		default:
			oid.NewTime = uint64(g.rng.Int64())
		}
		rv.Set(reflect.ValueOf(oid))
	case mapListType:
		// built through the repr: a list of non-nil items
		n := 0
		if depth > 0 {
			n = g.rng.IntN(4)
		}
		var ml gnolang.MapList
		img := gnolang.MapListImage{}
		for i := 0; i < n; i++ {
			it := &gnolang.MapListItem{}
			g.fill(reflect.ValueOf(&it.Key).Elem(), amino.FieldOptions{}, depth-1)
			g.fill(reflect.ValueOf(&it.Value).Elem(), amino.FieldOptions{}, depth-1)
			img.List = append(img.List, it)
		}
		_ = ml.UnmarshalAmino(img)
		rv.Set(reflect.ValueOf(ml))
	default:
		return false
	}
	return true
}

func (g *gen) bigInt() *big.Int {
	var v *big.Int
	switch g.rng.IntN(5) {
	case 0:
		v = big.NewInt(0)
	case 1:
		v = big.NewInt(g.rng.Int64N(1000))
	case 2:
		v = new(big.Int).SetUint64(g.rng.Uint64())
	default:
		v = new(big.Int).SetBytes(g.bytesN(1 + g.rng.IntN(40)))
	}
	if g.p(1, 2) {
		v.Neg(v)
	}
	return v
}

func (g *gen) time() time.Time {
	if g.inject && g.p(1, 40) {
		g.injected = append(g.injected, "invalid-time")
		return time.Unix(253402300800+g.rng.Int64N(1<<30), 0).UTC() // year >= 10000: refused by amino
	}
	switch g.rng.IntN(7) {
	case 0:
		return time.Unix(0, 0).UTC() // amino's "empty" time
	case 1:
		return time.Time{} // Go zero (year 1): a legal, non-empty amino time
	case 2:
		return time.Unix(0, g.rng.Int64N(1e9)).UTC()
	case 3:
		return time.Unix(g.rng.Int64N(1<<32), 0).UTC()
	case 4:
		return time.Unix(-g.rng.Int64N(62135596800), g.rng.Int64N(1e9)).UTC()
	case 5:
		// a non-UTC location: decoders return UTC (documented normalisation)
		return time.Unix(g.rng.Int64N(1<<33), g.rng.Int64N(1e9)).In(time.FixedZone("x", 3600*(g.rng.IntN(24)-12)))
	default:
		return time.Unix(g.rng.Int64N(253402300800), g.rng.Int64N(1e9)).UTC()
	}
}

func (g *gen) duration() time.Duration {
	switch g.rng.IntN(6) {
	case 0:
		return 0
	case 1:
		return time.Duration(g.rng.Int64N(20) - 10)
	case 2:
		return time.Duration(g.rng.Int64N(2e10) - 1e10)
	case 3:
		return math.MaxInt64
	case 4:
		return math.MinInt64 + 1
	default:
		return time.Duration(g.rng.Int64())
	}
}

func (g *gen) ident() string {
	const al = "abcdefghijklmnopqrstuvwxyz0123456789_"
	n := 1 + g.rng.IntN(10)
	b := make([]byte, n)
	for i := range b {
		b[i] = al[g.rng.IntN(len(al))]
	}
	return string(b)
}

func (g *gen) bytesN(n int) []byte {
	b := make([]byte, n)
	for i := range b {
		b[i] = byte(g.rng.IntN(256))
	}
	return b
}

func (g *gen) str() string {
	switch g.rng.IntN(12) {
	case 0, 1:
		return ""
	case 2:
		return "\x00"
	case 3:
		// crosses the 1-byte length-prefix boundary (127/128)
		return strings.Repeat("x", 120+g.rng.IntN(20))
	case 4:
		rs := []rune{'λ', '世', ' ', 'é', '😀', 'a', ' '}
		n := 1 + g.rng.IntN(8)
		out := make([]rune, n)
		for i := range out {
			out[i] = rs[g.rng.IntN(len(rs))]
		}
		return string(out)
	case 5:
		if g.p(1, 4) {
			g.noUTF8 = true
			return string([]byte{0xff, 0xfe, byte(g.rng.IntN(256))})
		}
		return "gno.land/r/demo/" + g.ident()
	case 6:
		return `q"\` + "\n\t" + g.ident()
	default:
		return g.ident()
	}
}

func (g *gen) int64v() int64 {
	switch g.rng.IntN(10) {
	case 0, 1:
		return 0
	case 2:
		return 1
	case 3:
		return -1
	case 4:
		return math.MaxInt64
	case 5:
		return math.MinInt64
	case 6:
		return g.rng.Int64N(256) - 128
	case 7:
		return int64(int32(g.rng.Uint32()))
	case 8:
		return int64(1)<<uint(g.rng.IntN(63)) + g.rng.Int64N(3) - 1
	default:
		return int64(g.rng.Uint64())
	}
}

func (g *gen) uint64v() uint64 {
	switch g.rng.IntN(8) {
	case 0, 1:
		return 0
	case 2:
		return 1
	case 3:
		return math.MaxUint64
	case 4:
		return uint64(g.rng.IntN(300))
	case 5:
		return uint64(1)<<uint(g.rng.IntN(64)) - uint64(g.rng.IntN(2))
	default:
		return g.rng.Uint64()
	}
}

// fill sets rv (addressable) to a random value of its type.
func (g *gen) fill(rv reflect.Value, fopts amino.FieldOptions, depth int) {
	rt := rv.Type()
	if g.empty > 0 {
		switch {
		case rt == timeType:
			rv.Set(reflect.ValueOf(time.Unix(0, 0).UTC()))
			return
		case rt.Kind() == reflect.Struct && rt != timeType:
			// descend: nested structs made of defaults
		case rt.Kind() == reflect.Pointer && rt.Elem().Kind() == reflect.Struct && rt.Elem() != timeType && depth > 0 && g.p(1, 3):
			// a present-but-empty struct pointer
		default:
			return // Go zero
		}
	}
	if rt.Kind() == reflect.Struct && rt != timeType && g.empty == 0 && g.p(1, 9) {
		g.empty++
		defer func() { g.empty-- }()
	}
	if g.custom(rv, depth) {
		return
	}
	switch rt.Kind() {
	case reflect.Pointer:
		et := rt.Elem()
		composite := et.Kind() == reflect.Struct && et != timeType
		if composite && (depth <= 0 || g.budget <= 0 || g.p(1, 4)) {
			return // nil
		}
		if !composite && g.p(1, 4) {
			return // nil pointer to a scalar: decodes as pointer to zero
		}
		nv := reflect.New(et)
		g.fill(nv.Elem(), fopts, depth-1)
		rv.Set(nv)
	case reflect.Interface:
		if depth <= 0 || g.budget <= 0 || g.p(1, 5) {
			return
		}
		im := g.r.implsFor(rt)
		if eo := g.r.encodeOnlyImpls(rt); len(eo) > 0 && (len(im) == 0 && g.p(1, 2) || g.p(1, 8)) {
			t := eo[g.rng.IntN(len(eo))]
			g.budget--
			g.encodeOnly = true
			nv := reflect.New(t.rt)
			g.fill(nv.Elem(), amino.FieldOptions{}, depth-1)
			rv.Set(nv)
			return
		}
		if len(im) == 0 {
			return
		}
		t := im[g.rng.IntN(len(im))]
		g.budget--
		form := g.r.ifaceForm(t, rt)
		nv := reflect.New(t.rt)
		g.fill(nv.Elem(), amino.FieldOptions{}, depth-1)
		if form.Kind() == reflect.Pointer {
			rv.Set(nv)
		} else {
			rv.Set(nv.Elem())
		}
	case reflect.Struct:
		g.budget--
		info, err := g.r.cdc.GetTypeInfo(rt)
		if err != nil {
			panic(err)
		}
		for _, f := range info.Fields {
			g.fill(rv.Field(f.Index), f.FieldOptions, depth-1)
		}
	case reflect.Slice:
		if rt.Elem().Kind() == reflect.Uint8 {
			switch g.rng.IntN(8) {
			case 0, 1:
				// nil
			case 2:
				rv.Set(reflect.MakeSlice(rt, 0, 0)) // empty, non-nil: decodes as nil
			case 3:
				rv.SetBytes(g.bytesN(120 + g.rng.IntN(20)))
			default:
				rv.SetBytes(g.bytesN(1 + g.rng.IntN(24)))
			}
			return
		}
		n := 0
		if depth > 0 && g.budget > 0 {
			switch g.rng.IntN(8) {
			case 0, 1:
			case 2:
				rv.Set(reflect.MakeSlice(rt, 0, 0))
				return
			case 3:
				n = 4 + g.rng.IntN(6)
			default:
				n = 1 + g.rng.IntN(3)
			}
		}
		if n == 0 {
			return
		}
		sl := reflect.MakeSlice(rt, n, n)
		for i := 0; i < n; i++ {
			g.fillElem(sl.Index(i), fopts, depth-1)
		}
		rv.Set(sl)
	case reflect.Array:
		if rt.Elem().Kind() == reflect.Uint8 {
			if g.p(1, 5) {
				return // all zero
			}
			for i := 0; i < rt.Len(); i++ {
				rv.Index(i).SetUint(uint64(g.rng.IntN(256)))
			}
			return
		}
		for i := 0; i < rt.Len(); i++ {
			g.fillElem(rv.Index(i), fopts, depth-1)
		}
	case reflect.String:
		rv.SetString(g.str())
	case reflect.Bool:
		rv.SetBool(g.p(1, 2))
	case reflect.Int64:
		rv.SetInt(g.int64v())
	case reflect.Int:
		v := g.int64v()
		if fopts.BinFixed32 {
			v = int64(int32(v))
		}
		rv.SetInt(v)
	case reflect.Int32:
		rv.SetInt(int64(int32(g.int64v())))
	case reflect.Int16:
		rv.SetInt(int64(int16(g.int64v())))
	case reflect.Int8:
		rv.SetInt(int64(int8(g.int64v())))
	case reflect.Uint64:
		rv.SetUint(g.uint64v())
	case reflect.Uint:
		v := g.uint64v()
		if fopts.BinFixed32 {
			v = uint64(uint32(v))
		}
		rv.SetUint(v)
	case reflect.Uint32:
		rv.SetUint(uint64(uint32(g.uint64v())))
	case reflect.Uint16:
		rv.SetUint(uint64(uint16(g.uint64v())))
	case reflect.Uint8:
		rv.SetUint(uint64(uint8(g.uint64v())))
	case reflect.Float64:
		rv.SetFloat(g.float())
	case reflect.Float32:
		rv.SetFloat(float64(float32(g.float())))
	default:
		panic(fmt.Sprintf("c20 gen: unsupported kind %v (%v)", rt.Kind(), rt))
	}
}

func (g *gen) float() float64 {
	switch g.rng.IntN(5) {
	case 0:
		return 0
	case 1:
		return float64(g.rng.Int64N(1000)) / 100
	case 2:
		return -float64(g.rng.Int64N(1000)) / 100
	case 3:
		return math.Copysign(0, -1)
	default:
		return float64(g.rng.Int64())
	}
}

// fillElem fills a list element. Pointer-to-struct elements are non-nil
// (amino refuses nil struct pointers in lists) unless the field carries
// amino:"nil_elements"; a refused nil is injected rarely.
func (g *gen) fillElem(ev reflect.Value, fopts amino.FieldOptions, depth int) {
	et := ev.Type()
	if et.Kind() == reflect.Pointer {
		dt := et.Elem()
		isStruct := dt.Kind() == reflect.Struct && dt != timeType
		if isStruct {
			if fopts.NilElements {
				if g.p(1, 3) {
					return
				}
			} else if g.inject && g.p(1, 30) {
				g.injected = append(g.injected, "nil-struct-pointer-in-list")
				return
			}
			nv := reflect.New(dt)
			g.fill(nv.Elem(), fopts, depth)
			ev.Set(nv)
			return
		}
		if g.p(1, 5) {
			return // nil scalar pointer in a list
		}
		nv := reflect.New(dt)
		g.fill(nv.Elem(), fopts, depth)
		ev.Set(nv)
		return
	}
	g.fill(ev, fopts, depth)
}
