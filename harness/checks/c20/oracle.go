package c20

import (
	"bytes"
	"encoding/binary"
	"fmt"
	"reflect"
	"sort"
	"strings"
	"sync"

	"github.com/gnolang/gno/tm2/pkg/amino"

	"verifharness/internal/vf"
)

// typeStats are the measured per-type counters reported in the evidence.
type typeStats struct {
	Values        int `json:"values"`                    // values that passed the full value oracle
	ValuesSkipped int `json:"values_skipped,omitempty"`  // values both encoders (or the type's own repr) refused
	ReprUnstable  int `json:"repr_unstable,omitempty"`   // values whose MarshalAmino repr does not parse back (decode equality not asserted)
	JSONValues    int `json:"json_values,omitempty"`     // JSON round trips compared
	Bytes         int `json:"byte_strings"`              // byte strings given to the decoder(s)
	BytesAccepted int `json:"bytes_accepted,omitempty"`  // accepted (by both decoders where two exist)
	BytesRejected int `json:"bytes_rejected,omitempty"`  // rejected (by both decoders where two exist)
	Harvested     int `json:"harvested_values,omitempty"` // real values of this type decoded from a chain state
}

type tester struct {
	c   *vf.Ctx
	r   *registry
	cdc *amino.Codec

	mu     sync.Mutex
	stats  map[string]*typeStats
	skips  map[string]int // reason → count
	corpus map[string][][]byte
	viol   map[string]int
	zero   map[string]string // canonical form of each type's zero value
	firstW map[string][]any  // first witnesses per violation class (vf stops writing replay files after 300 keys)
}

func newTester(c *vf.Ctx, r *registry) *tester {
	return &tester{c: c, r: r, cdc: r.cdc, stats: map[string]*typeStats{}, skips: map[string]int{}, corpus: map[string][][]byte{}, viol: map[string]int{}, firstW: map[string][]any{}}
}

func (t *tester) st(T *regType, f func(s *typeStats)) {
	t.mu.Lock()
	s := t.stats[T.name]
	if s == nil {
		s = &typeStats{}
		t.stats[T.name] = s
	}
	f(s)
	t.mu.Unlock()
}

func (t *tester) skip(reason string) {
	t.mu.Lock()
	t.skips[reason]++
	t.mu.Unlock()
}

func (t *tester) addCorpus(T *regType, bz []byte, limit int) {
	if len(bz) == 0 || len(bz) > maxInput {
		return
	}
	t.mu.Lock()
	if len(t.corpus[T.name]) < limit {
		t.corpus[T.name] = append(t.corpus[T.name], append([]byte(nil), bz...))
	}
	t.mu.Unlock()
}

// violation reports with a key "<class>:<type>"; the witness always carries
// the type, the origin of the case and the bytes involved.
func (t *tester) violation(class string, T *regType, w map[string]any, format string, args ...any) {
	if strings.HasPrefix(class, "panic:") {
		// the panic message (digits and hex blobs normalised) is part of the key
		for _, k := range []string{"panic", "p1", "p2"} {
			if ps, ok := w[k].(string); ok && ps != "" && ps != "<nil>" {
				class += "/" + slug(ps)
				break
			}
		}
	}
	key := class + ":" + T.name
	t.mu.Lock()
	t.viol[key]++
	t.mu.Unlock()
	if w == nil {
		w = map[string]any{}
	}
	w["type"] = T.name
	w["go_type"] = T.rt.String()
	t.mu.Lock()
	if len(t.firstW[class]) < 2 {
		cp := map[string]any{"message": clip(fmt.Sprintf(format, args...), 600)}
		for k, v := range w {
			if sv, ok := v.(string); ok {
				v = clip(sv, 1600)
			}
			cp[k] = v
		}
		t.firstW[class] = append(t.firstW[class], cp)
	}
	t.mu.Unlock()
	if o, ok := w["origin"].(string); ok {
		// class × input-origin table for triage (mut:<operator>, gen, harvest)
		oc := o
		if i := strings.IndexAny(oc, "#"); i >= 0 {
			oc = oc[:i]
		}
		if strings.HasPrefix(oc, "gen:") {
			oc = "gen"
		} else if strings.HasPrefix(oc, "harvest") {
			oc = "harvest"
		}
		t.c.Count("violation_class_by_origin:"+class+"|"+oc, 1)
	}
	if strings.HasPrefix(class, "panic:") {
		for _, k := range []string{"panic", "p1", "p2"} {
			if ps, ok := w[k].(string); ok && ps != "" && ps != "<nil>" {
				t.c.Count("panic_text:"+normDigits(clip(ps, 90)), 1)
			}
		}
	}
	t.c.Violation(key, w, format, args...)
}

const maxInput = 8 << 10 // byte strings longer than this are not fed to the decoders

// slug turns a panic message into a short stable key component.
func slug(s string) string {
	s = normDigits(clip(s, 60))
	var b strings.Builder
	for _, r := range s {
		switch {
		case r >= 'a' && r <= 'z', r >= 'A' && r <= 'Z', r >= '0' && r <= '9':
			b.WriteRune(r)
		default:
			if b.Len() > 0 && !strings.HasSuffix(b.String(), "-") {
				b.WriteByte('-')
			}
		}
	}
	return strings.Trim(clip(b.String(), 48), "-…")
}

func normDigits(s string) string {
	var b strings.Builder
	prev := false
	for _, r := range s {
		if r >= '0' && r <= '9' {
			if !prev {
				b.WriteByte('N')
			}
			prev = true
			continue
		}
		prev = false
		b.WriteRune(r)
	}
	return b.String()
}

func errStr(err error) string {
	if err == nil {
		return ""
	}
	return clip(err.Error(), 300)
}

// ---------------------------------------------------------------------------
// encoders / decoders under test, each wrapped so that a panic is observed.

type encRes struct {
	bz    []byte
	err   error
	panic any
}

func (t *tester) encReflect(ptr any) (r encRes) {
	r.panic = vf.Try(func() { r.bz, r.err = t.cdc.MarshalReflect(ptr) })
	return
}

// encGen runs the generated encoder the way Codec.MarshalBinary2 does, but
// with slack in the buffer so that an under- or over-estimated SizeBinary2 is
// measured instead of causing an out-of-range write; it also returns the
// predicted size.
func (t *tester) encGen(ptr any) (r encRes, size int, sizeErr error) {
	pbm := ptr.(amino.PBMarshaler2)
	r.panic = vf.Try(func() {
		size, sizeErr = pbm.SizeBinary2(t.cdc)
		if sizeErr != nil {
			r.err = sizeErr
			return
		}
		const slack = 64
		buf := make([]byte, size+slack)
		var off int
		off, r.err = pbm.MarshalBinary2(t.cdc, buf, len(buf))
		if r.err == nil {
			r.bz = buf[off:]
			if len(r.bz) == 0 {
				r.bz = nil
			}
		}
	})
	return
}

type decRes struct {
	pv    reflect.Value // pointer to the decoded value
	err   error
	panic any
}

func (d decRes) ok() bool { return d.panic == nil && d.err == nil }

func (t *tester) decReflect(T *regType, bz []byte) (d decRes) {
	d.pv = reflect.New(T.rt)
	d.panic = vf.Try(func() { d.err = t.cdc.UnmarshalReflect(bz, d.pv.Interface()) })
	return
}

func (t *tester) decGen(T *regType, bz []byte) (d decRes) {
	d.pv = reflect.New(T.rt)
	d.panic = vf.Try(func() { d.err = d.pv.Interface().(amino.PBMessager2).UnmarshalBinary2(t.cdc, bz, 0) })
	return
}

// anyModel builds the google.protobuf.Any envelope for a value whose bare
// encoding is inner (amino.go / binary_encode.go: field 1 type URL, field 2
// value, the value omitted when empty or a single 0x00).
func anyModel(typeURL string, inner []byte) []byte {
	var b []byte
	b = append(b, 1<<3|2)
	b = binary.AppendUvarint(b, uint64(len(typeURL)))
	b = append(b, typeURL...)
	if len(inner) > 1 || (len(inner) == 1 && inner[0] != 0) {
		b = append(b, 2<<3|2)
		b = binary.AppendUvarint(b, uint64(len(inner)))
		b = append(b, inner...)
	}
	return b
}

// anyWrap has no generated fast path: MarshalReflect/UnmarshalReflect of it
// exercise the reflection codec's interface (Any) encoding.
type anyWrap struct {
	V any
}

func sized(bz []byte) []byte {
	return append(binary.AppendUvarint(nil, uint64(len(bz))), bz...)
}

// ---------------------------------------------------------------------------
// (1) value oracle

// checkValue runs the value oracle on *pv (a pointer to a T). It returns the
// reference encoding when the value is encodable and consistent.
func (t *tester) checkValue(T *regType, pv reflect.Value, origin string, injected []string, noUTF8 bool, encodeOnly ...bool) []byte {
	ptr := pv.Interface()
	cOrig, unstable, cerr := t.r.canon(pv.Elem())
	if !noUTF8 && t.r.hasInvalidUTF8(pv.Elem()) {
		noUTF8 = true
	}
	wit := func(extra map[string]any) map[string]any {
		w := map[string]any{"origin": origin, "value_canon": clip(cOrig, 3000)}
		for k, v := range extra {
			w[k] = v
		}
		return w
	}
	if cerr != nil {
		// the type's own MarshalAmino refuses (or panics on) this value: not a
		// value of the type as far as the codec is concerned.
		t.skip("value-refused-by-own-repr:" + T.name)
		t.st(T, func(s *typeStats) { s.ValuesSkipped++ })
		return nil
	}
	t.c.Case("v|"+T.name+"|"+cOrig, cOrig != t.zero[T.name])

	er := t.encReflect(ptr)
	if er.panic != nil {
		t.violation("panic:encode-reflect", T, wit(map[string]any{"panic": fmt.Sprint(er.panic), "injected": injected}), "MarshalReflect panicked: %v", er.panic)
		return nil
	}
	var eg encRes
	if T.hasGen {
		var size int
		eg, size, _ = t.encGen(ptr)
		if eg.panic != nil {
			t.violation("panic:encode-gen", T, wit(map[string]any{"panic": fmt.Sprint(eg.panic), "reflect_hex": vf.Hex(er.bz)}), "SizeBinary2/MarshalBinary2 panicked: %v", eg.panic)
			return nil
		}
		if (er.err == nil) != (eg.err == nil) {
			t.violation("encode-accept-mismatch", T, wit(map[string]any{"reflect_err": errStr(er.err), "gen_err": errStr(eg.err), "injected": injected}),
				"encoders disagree on whether the value is encodable: reflect err=%v, generated err=%v", er.err, eg.err)
			return nil
		}
		if er.err == nil {
			if !bytes.Equal(er.bz, eg.bz) {
				t.violation("encode-mismatch", T, wit(map[string]any{"reflect_hex": vf.Hex(er.bz), "gen_hex": vf.Hex(eg.bz)}),
					"MarshalReflect and MarshalBinary2 bytes differ (%d vs %d bytes)", len(er.bz), len(eg.bz))
				return nil
			}
			if size != len(eg.bz) {
				t.violation("size-mismatch", T, wit(map[string]any{"size": size, "len": len(eg.bz), "hex": vf.Hex(eg.bz)}),
					"SizeBinary2 = %d but MarshalBinary2 wrote %d bytes", size, len(eg.bz))
				return nil
			}
		}
	}
	if er.err != nil {
		reason := "encoders-refuse:" + classifyErr(er.err)
		t.skip(reason)
		t.st(T, func(s *typeStats) { s.ValuesSkipped++ })
		return nil
	}
	bz := er.bz

	// production dispatch (Codec.Marshal / Codec.MarshalBinary2) gives the same bytes
	var bzD []byte
	var errD error
	if p := vf.Try(func() { bzD, errD = t.cdc.Marshal(ptr) }); p != nil || errD != nil || !bytes.Equal(bzD, bz) {
		t.violation("dispatch-mismatch", T, wit(map[string]any{"reflect_hex": vf.Hex(bz), "marshal_hex": vf.Hex(bzD), "err": errStr(errD), "panic": fmt.Sprint(p)}),
			"Codec.Marshal differs from MarshalReflect (err=%v panic=%v)", errD, p)
		return nil
	}

	if !T.aux {
		// the process-global codec (amino.Marshal, what production code calls)
		var bzG []byte
		var errG error
		if p := vf.Try(func() { bzG, errG = amino.Marshal(ptr) }); p != nil || errG != nil || !bytes.Equal(bzG, bz) {
			t.violation("dispatch-mismatch", T, wit(map[string]any{"reflect_hex": vf.Hex(bz), "marshal_hex": vf.Hex(bzG), "err": errStr(errG), "panic": fmt.Sprint(p), "codec": "global"}),
				"amino.Marshal (global codec) differs from MarshalReflect (err=%v panic=%v)", errG, p)
			return nil
		}
	}

	// decode own encoding with both decoders
	dr := t.decReflect(T, bz)
	if dr.panic != nil {
		t.violation("panic:decode-reflect", T, wit(map[string]any{"hex": vf.Hex(bz), "panic": fmt.Sprint(dr.panic)}), "UnmarshalReflect panicked on a valid encoding: %v", dr.panic)
		return nil
	}
	dg := dr
	if T.hasGen {
		dg = t.decGen(T, bz)
		if dg.panic != nil {
			t.violation("panic:decode-gen", T, wit(map[string]any{"hex": vf.Hex(bz), "panic": fmt.Sprint(dg.panic)}), "UnmarshalBinary2 panicked on a valid encoding: %v", dg.panic)
			return nil
		}
		if (dr.err == nil) != (dg.err == nil) {
			t.violation("decode-accept-mismatch", T, wit(map[string]any{"hex": vf.Hex(bz), "reflect_err": errStr(dr.err), "gen_err": errStr(dg.err), "input": "own-encoding"}),
				"decoders disagree on an encoder output: reflect err=%v, generated err=%v", dr.err, dg.err)
			return nil
		}
	}
	if len(encodeOnly) > 0 && encodeOnly[0] {
		// a *T sits in an interface that the decoded T cannot be assigned to:
		// encoders agreed above; the decoders must both refuse.
		if dr.err == nil {
			t.violation("decode-accepts-unassignable-interface-value", T, wit(map[string]any{"hex": vf.Hex(bz)}), "decoders accept an encoding whose interface value cannot be assigned")
			return nil
		}
		t.skip("encode-only-interface-value")
		t.c.Count("encode_only_values_encoder_parity_checked", 1)
		return nil
	}
	if unstable {
		// the repr does not survive the type's own UnmarshalAmino: equality is
		// not required, agreement was checked above.
		t.st(T, func(s *typeStats) { s.ReprUnstable++ })
		t.skip("repr-unstable:" + T.name)
		if dr.err == nil && T.hasGen {
			if a, b := t.r.strictCanon(dr.pv.Elem()), t.r.strictCanon(dg.pv.Elem()); a != b {
				t.violation("decode-value-mismatch"+timeCause(a, b), T, wit(map[string]any{"hex": vf.Hex(bz), "diff": firstDiff(a, b)}), "decoders return different values: %s", firstDiff(a, b))
			}
		}
		return nil
	}
	if dr.err != nil {
		t.violation("decode-reject-own-encoding", T, wit(map[string]any{"hex": vf.Hex(bz), "reflect_err": errStr(dr.err), "gen_err": errStr(dg.err)}),
			"the decoders reject the encoders' output: %v", dr.err)
		return nil
	}
	if T.hasGen {
		if a, b := t.r.strictCanon(dr.pv.Elem()), t.r.strictCanon(dg.pv.Elem()); a != b {
			t.violation("decode-value-mismatch"+timeCause(a, b), T, wit(map[string]any{"hex": vf.Hex(bz), "diff": firstDiff(a, b)}), "decoders return different values: %s", firstDiff(a, b))
			return nil
		}
	}
	cDec, _, derr := t.r.canon(dr.pv.Elem())
	if derr != nil || cDec != cOrig {
		t.violation("roundtrip-mismatch"+timeCause(cOrig, cDec), T, wit(map[string]any{"hex": vf.Hex(bz), "decoded_canon": clip(cDec, 3000), "diff": firstDiff(cOrig, cDec)}),
			"decode(encode(v)) != v: %s", firstDiff(cOrig, cDec))
		return nil
	}
	// re-encoding the decoded value: the same bytes, or (where the decoders'
	// documented defaults make the bytes differ: a nil pointer to a scalar
	// decodes as a pointer to zero, which is then written explicitly) at least
	// the same value again.
	if e2 := t.encReflect(dr.pv.Interface()); e2.panic != nil || e2.err != nil {
		t.violation("reencode-unstable", T, wit(map[string]any{"hex": vf.Hex(bz), "err": errStr(e2.err), "panic": fmt.Sprint(e2.panic)}),
			"re-encoding the decoded value fails (err=%v panic=%v)", e2.err, e2.panic)
		return nil
	} else if !bytes.Equal(e2.bz, bz) {
		d3 := t.decReflect(T, e2.bz)
		c3 := ""
		if d3.ok() {
			c3, _, _ = t.r.canon(d3.pv.Elem())
		}
		if !d3.ok() || c3 != cOrig {
			t.violation("reencode-unstable"+timeCause(cOrig, c3), T, wit(map[string]any{"hex": vf.Hex(bz), "reencoded_hex": vf.Hex(e2.bz), "err": errStr(d3.err)}),
				"re-encoding the decoded value gives bytes that decode to a different value (err=%v): %s", d3.err, firstDiff(cOrig, c3))
			return nil
		}
		t.c.Count("byte_unstable_but_value_stable", 1)
	}

	if !t.checkAnySized(T, pv, dr.pv, bz, wit) {
		return nil
	}
	if !noUTF8 {
		if !t.checkJSON(T, pv, cOrig, wit) {
			return nil
		}
	} else {
		// JSON text cannot carry a string that is not valid UTF-8 (encoding/json
		// substitutes U+FFFD): outside the round-trip claim, counted.
		t.skip("json-skipped-invalid-utf8-string")
	}
	t.st(T, func(s *typeStats) { s.Values++ })
	return bz
}

// timeCause attributes a value difference to "amino's empty time 1970 came
// back as Go's zero time 0001" when that substitution alone explains it.
func timeCause(want, got string) string {
	if strings.ReplaceAll(got, "T(-62135596800,0)", "T(0,0)") == strings.ReplaceAll(want, "T(-62135596800,0)", "T(0,0)") {
		return "/empty-time-becomes-0001"
	}
	return ""
}

func classifyErr(err error) string {
	s := err.Error()
	switch {
	case strings.Contains(s, "nil struct pointers in lists"):
		return "nil-struct-pointer-in-list"
	case strings.Contains(s, "seconds have to be"), strings.Contains(s, "nanoseconds have to be"):
		return "invalid-time"
	case strings.Contains(s, "duration"):
		return "invalid-duration"
	case strings.Contains(s, "unregistered concrete type"):
		return "unregistered-concrete"
	case strings.Contains(s, "float"):
		return "float-without-unsafe"
	}
	return "other:" + clip(s, 60)
}

// checkAnySized: MarshalAny / UnmarshalAny (type-URL prefixed) and the
// length-prefixed variants.
func (t *tester) checkAnySized(T *regType, pv, decoded reflect.Value, bz []byte, wit func(map[string]any) map[string]any) bool {
	ptr := pv.Interface()
	want := anyModel(T.info.TypeURL, bz)
	var got []byte
	var err error
	if p := vf.Try(func() { got, err = t.cdc.MarshalAny(ptr) }); p != nil || err != nil || !bytes.Equal(got, want) {
		t.violation("any-encode-mismatch", T, wit(map[string]any{"want_hex": vf.Hex(want), "got_hex": vf.Hex(got), "err": errStr(err), "panic": fmt.Sprint(p)}),
			"MarshalAny differs from the Any envelope of the bare encoding (err=%v panic=%v)", err, p)
		return false
	}
	// reflection codec's Any encoding through an interface field
	form := t.r.ifaceForm(T, reflect.TypeFor[any]())
	var held any
	if form.Kind() == reflect.Pointer {
		held = ptr
	} else {
		held = pv.Elem().Interface()
	}
	var wbz []byte
	if p := vf.Try(func() { wbz, err = t.cdc.MarshalReflect(&anyWrap{V: held}) }); p != nil || err != nil {
		t.violation("any-encode-mismatch", T, wit(map[string]any{"err": errStr(err), "panic": fmt.Sprint(p), "path": "reflect-interface-field"}), "reflect encoding of an interface field failed: err=%v panic=%v", err, p)
		return false
	}
	wantW := append(binary.AppendUvarint([]byte{1<<3 | 2}, uint64(len(want))), want...)
	if !bytes.Equal(wbz, wantW) {
		t.violation("any-encode-mismatch", T, wit(map[string]any{"want_hex": vf.Hex(wantW), "got_hex": vf.Hex(wbz), "path": "reflect-interface-field"}), "reflect Any encoding of an interface field differs from the envelope model")
		return false
	}
	// UnmarshalAny (fast path when T has one) and the reflect interface decoder
	var i1 any
	if p := vf.Try(func() { err = t.cdc.UnmarshalAny(want, &i1) }); p != nil || err != nil {
		t.violation("any-decode-reject-own", T, wit(map[string]any{"any_hex": vf.Hex(want), "err": errStr(err), "panic": fmt.Sprint(p)}), "UnmarshalAny rejects MarshalAny output: err=%v panic=%v", err, p)
		return false
	}
	var w2 anyWrap
	if p := vf.Try(func() { err = t.cdc.UnmarshalReflect(wantW, &w2) }); p != nil || err != nil {
		t.violation("any-decode-reject-own", T, wit(map[string]any{"any_hex": vf.Hex(want), "err": errStr(err), "panic": fmt.Sprint(p), "path": "reflect-interface-field"}), "reflect interface decoder rejects its own Any encoding: err=%v panic=%v", err, p)
		return false
	}
	var i3 any
	if p := vf.Try(func() { err = t.cdc.UnmarshalAny2(T.info.TypeURL, bz, &i3) }); p != nil || err != nil {
		t.violation("any-decode-reject-own", T, wit(map[string]any{"hex": vf.Hex(bz), "err": errStr(err), "panic": fmt.Sprint(p), "path": "UnmarshalAny2"}), "UnmarshalAny2 rejects the bare encoding: err=%v panic=%v", err, p)
		return false
	}
	wantDyn := form
	// compared under the normalisations: an Any without a value field yields the
	// Go zero value of the concrete type, which differs from a bare decode of
	// empty bytes only in pointer defaults
	ref, _, _ := t.r.canon(decoded.Elem())
	for name, iv := range map[string]any{"UnmarshalAny": i1, "reflect-interface-field": w2.V, "UnmarshalAny2": i3} {
		if iv == nil || reflect.TypeOf(iv) != wantDyn {
			t.violation("any-decode-mismatch", T, wit(map[string]any{"any_hex": vf.Hex(want), "path": name, "got_type": fmt.Sprint(reflect.TypeOf(iv)), "want_type": wantDyn.String()}), "%s returned dynamic type %v, want %v", name, reflect.TypeOf(iv), wantDyn)
			return false
		}
		cv := reflect.ValueOf(iv)
		if cv.Kind() == reflect.Pointer {
			cv = cv.Elem()
		}
		if got, _, _ := t.r.canon(cv); got != ref {
			t.violation("any-decode-mismatch"+timeCause(ref, got), T, wit(map[string]any{"any_hex": vf.Hex(want), "path": name, "diff": firstDiff(ref, got)}), "%s value differs from the bare decode: %s", name, firstDiff(ref, got))
			return false
		}
	}
	// length-prefixed variants
	var sz []byte
	if p := vf.Try(func() { sz, err = t.cdc.MarshalSized(ptr) }); p != nil || err != nil || !bytes.Equal(sz, sized(bz)) {
		t.violation("sized-encode-mismatch", T, wit(map[string]any{"want_hex": vf.Hex(sized(bz)), "got_hex": vf.Hex(sz), "err": errStr(err)}), "MarshalSized != uvarint(len)+Marshal (err=%v panic=%v)", err, p)
		return false
	}
	ds := reflect.New(T.rt)
	if p := vf.Try(func() { err = t.cdc.UnmarshalSized(sz, ds.Interface()) }); p != nil || err != nil || t.r.strictCanon(ds.Elem()) != t.r.strictCanon(decoded.Elem()) {
		t.violation("sized-decode-mismatch", T, wit(map[string]any{"hex": vf.Hex(sz), "err": errStr(err), "panic": fmt.Sprint(p)}), "UnmarshalSized(MarshalSized(v)) differs from the bare decode (err=%v panic=%v)", err, p)
		return false
	}
	ds2 := reflect.New(T.rt)
	var n int64
	if p := vf.Try(func() { n, err = t.cdc.UnmarshalSizedReader(bytes.NewReader(sz), ds2.Interface(), int64(len(sz))+8) }); p != nil || err != nil || n != int64(len(sz)) || t.r.strictCanon(ds2.Elem()) != t.r.strictCanon(decoded.Elem()) {
		if len(bz) > 0 { // the reader variant refuses an empty message differently; only non-empty asserted
			t.violation("sized-decode-mismatch", T, wit(map[string]any{"hex": vf.Hex(sz), "err": errStr(err), "panic": fmt.Sprint(p), "n": n, "path": "UnmarshalSizedReader"}), "UnmarshalSizedReader differs from the bare decode (n=%d err=%v panic=%v)", n, err, p)
			return false
		}
	}
	var asz []byte
	if p := vf.Try(func() { asz, err = t.cdc.MarshalAnySized(ptr) }); p != nil || err != nil || !bytes.Equal(asz, sized(want)) {
		t.violation("sized-encode-mismatch", T, wit(map[string]any{"want_hex": vf.Hex(sized(want)), "got_hex": vf.Hex(asz), "err": errStr(err), "path": "MarshalAnySized"}), "MarshalAnySized != uvarint(len)+MarshalAny (err=%v panic=%v)", err, p)
		return false
	}
	var i4 any
	if p := vf.Try(func() { err = t.cdc.UnmarshalAnySized(asz, &i4) }); p != nil || err != nil || i4 == nil || reflect.TypeOf(i4) != wantDyn {
		t.violation("sized-decode-mismatch", T, wit(map[string]any{"hex": vf.Hex(asz), "err": errStr(err), "panic": fmt.Sprint(p), "path": "UnmarshalAnySized"}), "UnmarshalAnySized(MarshalAnySized(v)) failed (err=%v panic=%v)", err, p)
		return false
	}
	return true
}

// checkJSON: JSON encode → decode equals the value under the same
// normalisations.
func (t *tester) checkJSON(T *regType, pv reflect.Value, cOrig string, wit func(map[string]any) map[string]any) bool {
	var js []byte
	var err error
	if p := vf.Try(func() { js, err = t.cdc.JSONMarshal(pv.Interface()) }); p != nil {
		t.violation("panic:json-encode", T, wit(map[string]any{"panic": fmt.Sprint(p)}), "JSONMarshal panicked: %v", p)
		return false
	}
	if err != nil {
		t.skip("json-encode-refused:" + T.name + ":" + clip(err.Error(), 60))
		return true
	}
	dv := reflect.New(T.rt)
	if p := vf.Try(func() { err = t.cdc.JSONUnmarshal(js, dv.Interface()) }); p != nil {
		t.violation("panic:json-decode", T, wit(map[string]any{"json": clip(string(js), 3000), "panic": fmt.Sprint(p)}), "JSONUnmarshal panicked on JSONMarshal output: %v", p)
		return false
	}
	if err != nil {
		t.violation("json-decode-reject-own", T, wit(map[string]any{"json": clip(string(js), 3000), "err": errStr(err)}), "JSONUnmarshal rejects JSONMarshal output: %v", err)
		return false
	}
	cj, _, cerr := t.r.canon(dv.Elem())
	if cerr != nil || cj != cOrig {
		t.violation("json-roundtrip-mismatch", T, wit(map[string]any{"json": clip(string(js), 3000), "diff": firstDiff(cOrig, cj)}), "JSON decode(encode(v)) != v: %s", firstDiff(cOrig, cj))
		return false
	}
	t.st(T, func(s *typeStats) { s.JSONValues++ })
	return true
}

// ---------------------------------------------------------------------------
// (2) byte-string oracle

// checkBytes feeds one byte string to the decoder(s) of T.
func (t *tester) checkBytes(T *regType, bz []byte, origin string) {
	if len(bz) > maxInput {
		return
	}
	wit := func(extra map[string]any) map[string]any {
		w := map[string]any{"origin": origin, "hex": vf.Hex(bz)}
		for k, v := range extra {
			w[k] = v
		}
		return w
	}
	t.st(T, func(s *typeStats) { s.Bytes++ })
	dr := t.decReflect(T, bz)
	if dr.panic != nil {
		t.violation("panic:decode-reflect", T, wit(map[string]any{"panic": fmt.Sprint(dr.panic)}), "UnmarshalReflect panicked: %v", dr.panic)
	}
	dg := dr
	if T.hasGen {
		dg = t.decGen(T, bz)
		if dg.panic != nil {
			t.violation("panic:decode-gen", T, wit(map[string]any{"panic": fmt.Sprint(dg.panic)}), "UnmarshalBinary2 panicked: %v", dg.panic)
		}
	}
	if dr.panic != nil || dg.panic != nil {
		t.c.Case("b|"+T.name+"|"+string(bz), true)
		return
	}
	if dr.ok() != dg.ok() {
		side := "reflect-accepts"
		if dg.ok() {
			side = "gen-accepts"
		}
		t.c.Case("b|"+T.name+"|"+string(bz), true)
		cause := t.acceptCause(bz, func(b []byte) bool { return t.decReflect(T, b).ok() == t.decGen(T, b).ok() })
		t.violation("decode-accept-mismatch/"+cause, T, wit(map[string]any{"reflect_err": errStr(dr.err), "gen_err": errStr(dg.err), "side": side, "cause": cause}),
			"decoders disagree (%s, cause: %s): reflect err=%v, generated err=%v", side, cause, dr.err, dg.err)
		return
	}
	// non-trivial: accepted, or rejected after at least one well-formed field key
	t.c.Case("b|"+T.name+"|"+string(bz), dr.ok() || len(bz) > 2)
	if !dr.ok() {
		t.st(T, func(s *typeStats) { s.BytesRejected++ })
		return
	}
	t.st(T, func(s *typeStats) { s.BytesAccepted++ })
	sr := t.r.strictCanon(dr.pv.Elem())
	if T.hasGen {
		if sg := t.r.strictCanon(dg.pv.Elem()); sr != sg {
			cause := timeCause(sr, sg)
			if cause == "" {
				// controlled re-test: with all varints re-encoded minimally, do the decoders agree?
				if nb, ch := normalizeVarints(bz, 0); ch {
					a, b := t.decReflect(T, nb), t.decGen(T, nb)
					if a.ok() == b.ok() && (!a.ok() || t.r.strictCanon(a.pv.Elem()) == t.r.strictCanon(b.pv.Elem())) {
						cause = "/nonminimal-varint"
					}
				}
			}
			t.violation("decode-value-mismatch"+cause, T, wit(map[string]any{"diff": firstDiff(sr, sg)}), "both decoders accept but return different values: %s", firstDiff(sr, sg))
			return
		}
	}
	// re-encode the accepted value and decode again
	c1, unstable, cerr := t.r.canon(dr.pv.Elem())
	if cerr != nil {
		t.violation("accepted-value-not-encodable", T, wit(map[string]any{"err": errStr(cerr)}), "the decoders accept bytes whose value the type's own MarshalAmino refuses: %v", cerr)
		return
	}
	e := t.encReflect(dr.pv.Interface())
	if e.panic != nil {
		t.violation("panic:encode-reflect", T, wit(map[string]any{"panic": fmt.Sprint(e.panic), "input": "accepted-bytes", "value_canon": clip(c1, 2000)}), "MarshalReflect panicked on a decoded value: %v", e.panic)
		return
	}
	if T.hasGen {
		eg, size, _ := t.encGen(dg.pv.Interface())
		if eg.panic != nil {
			t.violation("panic:encode-gen", T, wit(map[string]any{"panic": fmt.Sprint(eg.panic), "input": "accepted-bytes", "value_canon": clip(c1, 2000)}), "MarshalBinary2 panicked on a decoded value: %v", eg.panic)
			return
		}
		if (e.err == nil) != (eg.err == nil) {
			t.violation("encode-accept-mismatch", T, wit(map[string]any{"reflect_err": errStr(e.err), "gen_err": errStr(eg.err), "input": "accepted-bytes", "value_canon": clip(c1, 2000)}), "encoders disagree on a decoded value: reflect err=%v generated err=%v", e.err, eg.err)
			return
		}
		if e.err == nil && !bytes.Equal(e.bz, eg.bz) {
			t.violation("encode-mismatch", T, wit(map[string]any{"reflect_hex": vf.Hex(e.bz), "gen_hex": vf.Hex(eg.bz), "input": "accepted-bytes", "value_canon": clip(c1, 2000)}), "encoders differ on a decoded value")
			return
		}
		if e.err == nil && size != len(eg.bz) {
			t.violation("size-mismatch", T, wit(map[string]any{"size": size, "len": len(eg.bz), "input": "accepted-bytes", "value_canon": clip(c1, 2000)}), "SizeBinary2 = %d, wrote %d", size, len(eg.bz))
			return
		}
	}
	if e.err != nil {
		t.violation("reencode-refused", T, wit(map[string]any{"err": errStr(e.err), "value_canon": clip(c1, 2000)}), "the decoders accept bytes whose value the encoders refuse: %v", e.err)
		return
	}
	d2 := t.decReflect(T, e.bz)
	if !d2.ok() {
		if unstable {
			t.skip("repr-unstable:" + T.name)
			return
		}
		t.violation("reencode-unstable", T, wit(map[string]any{"reencoded_hex": vf.Hex(e.bz), "err": errStr(d2.err), "panic": fmt.Sprint(d2.panic), "value_canon": clip(c1, 2000)}), "re-encoded accepted value is rejected: err=%v panic=%v", d2.err, d2.panic)
		return
	}
	c2, _, _ := t.r.canon(d2.pv.Elem())
	if c2 != c1 && !unstable {
		t.violation("reencode-unstable"+timeCause(c1, c2), T, wit(map[string]any{"reencoded_hex": vf.Hex(e.bz), "diff": firstDiff(c1, c2)}), "decode(encode(accepted value)) differs: %s", firstDiff(c1, c2))
	}
}

// acceptCause attributes an accept/reject disagreement to a cause by a
// controlled re-test: the input is repaired in one specific respect and given to
// both decoders again (agree reports whether they now take the same decision).
//   - nonminimal-varint: all varints re-encoded minimally;
//   - zero-length-field: explicitly present zero-length fields removed (or the
//     input is empty);
//   - dangling-bytes-key: an explicit zero length appended after a
//     length-delimited key that ends its scope.
// Anything else is "other".
func (t *tester) acceptCause(bz []byte, agree func([]byte) bool) string {
	if nb, ch := normalizeVarints(bz, 0); ch && agree(nb) {
		return "nonminimal-varint"
	}
	if len(bz) == 0 {
		return "zero-length-field"
	}
	if nb, ch := dropZeroLengthFields(bz, 0); ch && agree(nb) {
		return "zero-length-field"
	}
	if nb, ch := completeDanglingKeys(bz, 0); ch && agree(nb) {
		return "dangling-bytes-key"
	}
	return "other"
}

// checkAnyBytes feeds a byte string to UnmarshalAny (generated path where the
// addressed type has one) and to the reflection interface decoder.
func (t *tester) checkAnyBytes(bz []byte, origin string, T *regType) {
	if len(bz) > maxInput {
		return
	}
	var i1 any
	var e1, e2 error
	p1 := vf.Try(func() { e1 = t.cdc.UnmarshalAny(bz, &i1) })
	var w anyWrap
	wbz := append(binary.AppendUvarint([]byte{1<<3 | 2}, uint64(len(bz))), bz...)
	p2 := vf.Try(func() { e2 = t.cdc.UnmarshalReflect(wbz, &w) })
	wit := map[string]any{"origin": origin, "any_hex": vf.Hex(bz), "UnmarshalAny_err": errStr(e1), "reflect_err": errStr(e2), "p1": fmt.Sprint(p1), "p2": fmt.Sprint(p2)}
	t.c.Case("a|"+string(bz), len(bz) > 2)
	t.st(T, func(s *typeStats) { s.Bytes++ })
	if p1 != nil {
		t.violation("panic:decode-any", T, wit, "UnmarshalAny panicked: %v", p1)
		return
	}
	if p2 != nil {
		t.violation("panic:decode-any-reflect", T, wit, "reflect interface decoder panicked: %v", p2)
		return
	}
	if len(bz) == 0 {
		return // an empty Any is a nil interface for the field decoder and is left to the caller by UnmarshalAny
	}
	if (e1 == nil) != (e2 == nil) {
		cause := t.acceptCause(bz, func(b []byte) bool {
			var x any
			var y anyWrap
			var ea, eb error
			pa := vf.Try(func() { ea = t.cdc.UnmarshalAny(b, &x) })
			pb := vf.Try(func() { eb = t.cdc.UnmarshalReflect(append(binary.AppendUvarint([]byte{1<<3 | 2}, uint64(len(b))), b...), &y) })
			return (pa == nil && ea == nil) == (pb == nil && eb == nil)
		})
		wit["cause"] = cause
		t.violation("any-decode-accept-mismatch/"+cause, T, wit, "UnmarshalAny err=%v but reflect interface decoder err=%v (cause: %s)", e1, e2, cause)
		return
	}
	if e1 != nil {
		t.st(T, func(s *typeStats) { s.BytesRejected++ })
		return
	}
	t.st(T, func(s *typeStats) { s.BytesAccepted++ })
	a := t.r.strictCanon(reflect.ValueOf(&i1).Elem())
	b := t.r.strictCanon(reflect.ValueOf(&w.V).Elem())
	if a != b {
		wit["diff"] = firstDiff(a, b)
		cause := timeCause(a, b)
		if cause == "" {
			if nb, ch := normalizeVarints(bz, 0); ch {
				var x any
				var y anyWrap
				var ea, eb error
				pa := vf.Try(func() { ea = t.cdc.UnmarshalAny(nb, &x) })
				pb := vf.Try(func() { eb = t.cdc.UnmarshalReflect(append(binary.AppendUvarint([]byte{1<<3 | 2}, uint64(len(nb))), nb...), &y) })
				if pa == nil && pb == nil && (ea == nil) == (eb == nil) && (ea != nil || t.r.strictCanon(reflect.ValueOf(&x).Elem()) == t.r.strictCanon(reflect.ValueOf(&y.V).Elem())) {
					cause = "/nonminimal-varint"
				}
			}
		}
		t.violation("any-decode-value-mismatch"+cause, T, wit, "UnmarshalAny and reflect interface decoder return different values: %s", firstDiff(a, b))
	}
}

func (t *tester) perPackage() map[string]any {
	t.mu.Lock()
	defer t.mu.Unlock()
	out := map[string]any{}
	for _, p := range allPackages {
		var nT, nGen, nCov, vals, bs, harv int
		for _, T := range t.r.types {
			if T.pkg != p.short {
				continue
			}
			nT++
			if T.hasGen {
				nGen++
			}
			if s := t.stats[T.name]; s != nil {
				if s.Values > 0 || s.Bytes > 0 {
					nCov++
				}
				vals += s.Values
				bs += s.Bytes
				harv += s.Harvested
			}
		}
		out[p.short] = map[string]any{"go_package": p.pkg.GoPkgPath, "registered_types": nT, "types_covered": nCov, "types_with_generated_fast_path": nGen,
			"values": vals, "byte_strings": bs, "harvested_values": harv, "fixture_package": p.aux}
	}
	return out
}

func (t *tester) perType() map[string]*typeStats {
	t.mu.Lock()
	defer t.mu.Unlock()
	out := map[string]*typeStats{}
	for k, v := range t.stats {
		c := *v
		out[k] = &c
	}
	return out
}

func (t *tester) skipSummary() map[string]int {
	t.mu.Lock()
	defer t.mu.Unlock()
	// group by reason class (text before the first ':' pair beyond the class) to keep evidence compact
	out := map[string]int{}
	for k, v := range t.skips {
		out[k] += v
	}
	if len(out) > 120 {
		agg := map[string]int{}
		for k, v := range out {
			cls := k
			if i := strings.IndexByte(k, ':'); i > 0 {
				cls = k[:i]
			}
			agg[cls] += v
		}
		return agg
	}
	return out
}

func sortedTypeNames(m map[string][][]byte) []string {
	ks := make([]string, 0, len(m))
	for k := range m {
		ks = append(ks, k)
	}
	sort.Strings(ks)
	return ks
}
