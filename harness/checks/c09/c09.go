// Package c09: realm storage usage and deposits are accounted exactly.
package c09

import (
	"fmt"
	"math/rand/v2"
	"strings"

	gno "github.com/gnolang/gno/gnovm/pkg/gnolang"
	"github.com/gnolang/gno/gnovm/stdlibs/chain"

	"verifharness/internal/audit"
	"verifharness/internal/chainsim"
	"verifharness/internal/hist"
	"verifharness/internal/monitors"
	"verifharness/internal/vf"
)

func init() {
	vf.Register(&vf.Check{
		ID:    "C09",
		Level: "exploration",
		Rule: "case = committed state after one block of a generated history that grows and shrinks realm state (own-realm and cross-realm writes, realm-local chain params, deployments, failing txs, deposit limits); " +
			"per realm: recorded Storage = Σ bytes of its oid: records + its params byte meter; balance(deposit address) >= recorded Deposit; per block Σ event byte deltas = Storage change and Σ (locked − refunded) = Deposit change; " +
			"locked amount = bytes × storage price; a succeeded message never locks more than its MaxDeposit; non-trivial = some realm's Storage changed in the block; distinct by (history seed, height)",
		Run: run,
	})
}

const storagePrice = 100 // ugnot per byte: vm default params (storage_price "100ugnot"), never changed by these workloads

type mon struct {
	c    *vf.Ctx
	seed uint64
	prev map[string]*monitors.RealmAcct
	h    *hist.History
}

func (m *mon) OnGenesis(ch *chainsim.Chain) { m.check(ch, nil, nil) }
func (m *mon) OnBlock(ch *chainsim.Chain, bt *chainsim.BlockTrace, specs []hist.TxSpec) {
	m.check(ch, bt, specs)
}

func (m *mon) check(ch *chainsim.Chain, bt *chainsim.BlockTrace, specs []hist.TxSpec) {
	st, v, err := audit.Snapshot(ch.DB, 0)
	if err != nil {
		panic(err)
	}
	w := map[string]any{"history_seed": m.seed, "height": st.Height, "block_txs": specs, "history": m.h}
	accts, issues := monitors.ReadRealmAccounts(st.Base, st.Main)
	for _, is := range issues {
		m.c.Violation("realm-record-undecodable", w, "%s", is)
	}
	changedRealms := 0
	byteDelta := map[string]int64{}
	depDelta := map[string]int64{}
	if bt != nil {
		for i, t := range bt.Txs {
			if !t.OK {
				if strings.Contains(t.ErrString+t.Log, "not enough deposit") {
					m.c.Count("txs_failed_for_deposit_limit", 1)
				}
				continue
			}
			if i < len(specs) && (specs[i].Label == "release" || specs[i].Label == "release-all") {
				m.c.Count("scripted_releases_of_foreign_owned_objects", 1)
			}
			var locked int64
			for _, ev := range t.Res.Events {
				switch e := ev.(type) {
				case chain.StorageDepositEvent:
					m.c.Count("deposit_lock_events", 1)
					byteDelta[e.PkgPath] += e.BytesDelta
					depDelta[e.PkgPath] += e.FeeDelta.Amount
					locked += e.FeeDelta.Amount
					if e.BytesDelta <= 0 || e.FeeDelta.Amount != e.BytesDelta*storagePrice || e.FeeDelta.Denom != "ugnot" {
						m.c.Violation("lock-amount-ne-bytes-times-price", w, "history %d height %d tx %d: lock event for %s: %d bytes, fee %d%s, price %d",
							m.seed, st.Height, i, e.PkgPath, e.BytesDelta, e.FeeDelta.Amount, e.FeeDelta.Denom, storagePrice)
					}
				case chain.StorageUnlockEvent:
					m.c.Count("deposit_unlock_events", 1)
					byteDelta[e.PkgPath] += e.BytesDelta
					depDelta[e.PkgPath] -= e.FeeRefund.Amount
					if e.BytesDelta >= 0 || e.FeeRefund.Amount < 0 {
						m.c.Violation("unlock-event-malformed", w, "history %d height %d tx %d: unlock event for %s: %d bytes, refund %d", m.seed, st.Height, i, e.PkgPath, e.BytesDelta, e.FeeRefund.Amount)
					}
				}
			}
			var maxDep int64
			for _, ms := range specs[i].Msgs {
				maxDep += ms.MaxDep
			}
			if maxDep > 0 && len(specs[i].Msgs) == 1 {
				m.c.Count("succeeded_txs_with_deposit_limit", 1)
				if locked > maxDep {
					m.c.Violation("locked-more-than-max-deposit", w, "history %d height %d tx %d succeeded and locked %d ugnot with MaxDeposit %d", m.seed, st.Height, i, locked, maxDep)
				}
			}
		}
	}
	for _, path := range monitors.SortedPaths(accts) {
		a := accts[path]
		if !gno.IsRealmPath(path) {
			m.c.Count("non_realm_package_records_skipped", 1) // stdlibs and /p/ packages are not realms: no storage accounting
			continue
		}
		m.c.Count("realm_records_checked", 1)
		if a.ParamsBytes > 0 {
			m.c.Count("realm_records_with_params_bytes", 1)
		}
		if a.Storage != a.ObjectBytes+a.ParamsBytes {
			m.c.Violation("storage-ne-bytes-on-disk", w, "history %d height %d realm %s: recorded Storage %d, objects on disk %d bytes in %d records + params meter %d",
				m.seed, st.Height, path, a.Storage, a.ObjectBytes, a.Objects, a.ParamsBytes)
		}
		depAddr := gno.DeriveStorageDepositCryptoAddr(path)
		bal := v.Bankk.GetCoins(v.Ctx, depAddr).AmountOf("ugnot")
		if bal < int64(a.Deposit) {
			m.c.Violation("deposit-not-backed", w, "history %d height %d realm %s: recorded Deposit %d but its storage-deposit address holds %d ugnot", m.seed, st.Height, path, a.Deposit, bal)
		}
		if a.Storage == 0 && a.Deposit != 0 {
			m.c.Violation("deposit-left-after-full-release", w, "realm %s: Storage 0 but Deposit %d", path, a.Deposit)
		}
		if m.prev != nil && bt != nil {
			var ps, pd uint64
			if p := m.prev[path]; p != nil {
				ps, pd = p.Storage, p.Deposit
			}
			ds, dd := int64(a.Storage)-int64(ps), int64(a.Deposit)-int64(pd)
			if ds != 0 {
				changedRealms++
				m.c.Count("realm_storage_changes", 1)
				if ds < 0 {
					m.c.Count("realm_storage_shrinks", 1)
				}
			}
			if ds != byteDelta[path] {
				m.c.Violation("storage-change-ne-event-bytes", w, "history %d height %d realm %s: Storage changed by %d but the block's deposit events account for %d bytes", m.seed, st.Height, path, ds, byteDelta[path])
			}
			if dd != depDelta[path] {
				m.c.Violation("deposit-change-ne-event-amounts", w, "history %d height %d realm %s: Deposit changed by %d but the block's events lock−refund %d", m.seed, st.Height, path, dd, depDelta[path])
			}
		}
	}
	m.c.Case(fmt.Sprintf("%d/%d", m.seed, st.Height), changedRealms > 0 || bt == nil)
	m.prev = accts
}

func run(c *vf.Ctx) {
	n := c.N(3, 24)
	blocks := c.N(14, 50)
	c.Parallel(n, 6, 900, func(i int, rng *rand.Rand) {
		seed := uint64(c.Seed)*1000 + uint64(i)
		h := hist.GenP(rng, seed, blocks, 5, hist.Profile{FailBoost: i%2 == 1})
		for bi := range h.Blocks { // extra growth/shrink and params churn, some with deposit limits
			u := hist.Users[rng.IntN(len(hist.Users))]
			switch rng.IntN(4) {
			case 0:
				h.Blocks[bi] = append(h.Blocks[bi], hist.TxSpec{Signer: u, Gas: 80_000_000, Fee: 1_000_000, Label: "grow-limited",
					Msgs: []hist.MsgSpec{{Kind: "call", Pkg: hist.StorePath, Func: "BigGrow", Args: []string{fmt.Sprint(1 + rng.IntN(25))}, MaxDep: int64(50_000 + rng.IntN(200_000))}}})
			case 3:
				// one message grows two realms by about the same amount; the limit is drawn around the
				// cost of one and of both (it applies to the message as a whole)
				n := 1 + rng.IntN(20)
				h.Blocks[bi] = append(h.Blocks[bi], hist.TxSpec{Signer: u, Gas: 120_000_000, Fee: 1_000_000, Label: "grow-both-limited",
					Msgs: []hist.MsgSpec{{Kind: "call", Pkg: hist.PeerPath, Func: "GrowBoth", Args: []string{fmt.Sprint(n)}, MaxDep: int64(n) * int64(2000+rng.IntN(14000))}}})
				if rng.IntN(3) == 0 {
					h.Blocks[bi] = append(h.Blocks[bi], hist.TxSpec{Signer: u, Gas: 80_000_000, Fee: 1_000_000, Label: "shrink-pad",
						Msgs: []hist.MsgSpec{{Kind: "call", Pkg: hist.PeerPath, Func: "ShrinkPad", Args: []string{fmt.Sprint(1 + rng.IntN(30))}}}})
				}
			case 1:
				h.Blocks[bi] = append(h.Blocks[bi], hist.TxSpec{Signer: u, Gas: 80_000_000, Fee: 1_000_000, Label: "shrink",
					Msgs: []hist.MsgSpec{{Kind: "call", Pkg: hist.StorePath, Func: "BigShrink", Args: []string{fmt.Sprint(1 + rng.IntN(30))}}}})
			case 2:
				h.Blocks[bi] = append(h.Blocks[bi], hist.TxSpec{Signer: u, Gas: 80_000_000, Fee: 1_000_000, Label: "cfg",
					Msgs: []hist.MsgSpec{{Kind: "call", Pkg: hist.CfgPath, Func: "SetS", Args: []string{"alpha", fmt.Sprint(rng.IntN(300))}}}})
			}
		}
		// a scripted round in every history: the peer realm takes references to objects owned by the
		// store realm, then drops them in transactions that touch nothing of the store realm (the bytes
		// freed belong to a realm other than the one being finalized)
		if len(h.Blocks) > 6 {
			call := func(label, fn string, args ...string) hist.TxSpec {
				return hist.TxSpec{Signer: hist.Users[(i+len(label))%len(hist.Users)], Gas: 80_000_000, Fee: 1_000_000, Label: label,
					Msgs: []hist.MsgSpec{{Kind: "call", Pkg: hist.PeerPath, Func: fn, Args: args}}}
			}
			h.Blocks[3] = append(h.Blocks[3], call("hold", "Hold", "a"), call("hold", "Hold", "b"), call("hold", "Hold", "c"))
			h.Blocks[4] = append(h.Blocks[4], call("release", "Release"))
			h.Blocks[5] = append(h.Blocks[5], call("release", "Release"), call("hold", "Hold", "d"))
			h.Blocks[6] = append(h.Blocks[6], call("release-all", "ReleaseAll"))
		}
		m := &mon{c: c, seed: seed, h: h}
		ch, err := hist.Play(h, hist.PlayOpts{Monitors: []hist.Monitor{m}, RestartAt: map[int]bool{blocks / 2: true}})
		if ch != nil {
			defer ch.Close()
		}
		if err != nil {
			panic(err)
		}
		if i == 0 {
			c.Sample(map[string]any{"history_seed": seed, "first_blocks": h.Blocks[:3]})
		}
	})
	c.Assume("storage price is the vm default (100ugnot per byte) for the whole run; price-change histories are not generated (needs the sys/params governance realm), so 'price in effect when the message started' is only checked for a constant price")
	c.Assume("the clause 'freeing all of a realm's storage refunds all of its deposit' is asserted as Storage==0 ⇒ Deposit==0; no workload drives a realm to zero bytes (its package object always remains)")
	c.RequireCounter("realm_storage_changes", 20)
	c.RequireCounter("realm_storage_shrinks", 2)
	c.RequireCounter("deposit_lock_events", 10)
	c.RequireCounter("deposit_unlock_events", 2)
	c.RequireCounter("realm_records_with_params_bytes", 1)
	c.RequireCounter("scripted_releases_of_foreign_owned_objects", int64(n))
	c.RequireCounter("txs_failed_for_deposit_limit", 1)
}
