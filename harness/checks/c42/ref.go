package c42

import (
	"bytes"
	"crypto/sha256"
	"encoding/binary"
	"errors"
	"io"
	"math/rand/v2"

	"golang.org/x/crypto/chacha20poly1305"
	"golang.org/x/crypto/curve25519"
	"golang.org/x/crypto/hkdf"

	"github.com/gnolang/gno/tm2/pkg/amino"
	"github.com/gnolang/gno/tm2/pkg/crypto/ed25519"
)

// refPeer is the harness' own implementation of the station-to-station
// protocol spoken by SecretConnection (X25519 ephemeral exchange, HKDF-SHA256
// -> two ChaCha20-Poly1305 keys + 32-byte challenge, Ed25519 signature over
// the challenge sent inside the first sealed frame; frames = 4-byte LE length
// + 1024 bytes payload, sealed with a 96-bit nonce whose last 8 bytes are a
// little-endian counter). It is written from the protocol description, shares
// no code with the implementation under test (only the primitives from
// x/crypto and amino for the two message encodings) and serves both as
// interoperability oracle and as the active attacker.
const (
	frameData   = 1024
	framePlain  = 4 + frameData
	frameSealed = framePlain + 16
)

type refPeer struct {
	priv    ed25519.PrivKeyEd25519
	ephPriv [32]byte
	ephPub  [32]byte

	sendKey, recvKey [32]byte
	challenge        [32]byte
	sendCtr, recvCtr uint64
	lastPadding      []byte // bytes after the payload in the last opened frame
}

type refAuthSig struct {
	Key ed25519.PubKeyEd25519
	Sig []byte
}

func newRefPeer(priv ed25519.PrivKeyEd25519, r *rand.Rand) *refPeer {
	p := &refPeer{priv: priv}
	for i := range p.ephPriv {
		p.ephPriv[i] = byte(r.UintN(256))
	}
	pub, err := curve25519.X25519(p.ephPriv[:], curve25519.Basepoint)
	if err != nil {
		panic(err)
	}
	copy(p.ephPub[:], pub)
	return p
}

func (p *refPeer) pub() ed25519.PubKeyEd25519 { return p.priv.PubKey().(ed25519.PubKeyEd25519) }

func ephMsg(pub [32]byte) []byte { return amino.MustMarshalSized(&pub) }

func parseEphMsg(b []byte) ([32]byte, error) {
	var k [32]byte
	_, err := amino.UnmarshalSizedReader(bytes.NewReader(b), &k, 1024)
	return k, err
}

// derive computes the session keys and the challenge from the remote ephemeral key.
func (p *refPeer) derive(remEph [32]byte) error {
	dh, err := curve25519.X25519(p.ephPriv[:], remEph[:])
	if err != nil {
		return err
	}
	kdf := hkdf.New(sha256.New, dh, nil, []byte("TENDERMINT_SECRET_CONNECTION_KEY_AND_CHALLENGE_GEN"))
	var out [96]byte
	if _, err := io.ReadFull(kdf, out[:]); err != nil {
		return err
	}
	// the side with the lexicographically smaller ephemeral key receives with the first key
	if bytes.Compare(p.ephPub[:], remEph[:]) < 0 {
		copy(p.recvKey[:], out[0:32])
		copy(p.sendKey[:], out[32:64])
	} else {
		copy(p.sendKey[:], out[0:32])
		copy(p.recvKey[:], out[32:64])
	}
	copy(p.challenge[:], out[64:96])
	return nil
}

func nonce(ctr uint64) []byte {
	var n [12]byte
	binary.LittleEndian.PutUint64(n[4:], ctr)
	return n[:]
}

// seal builds one sealed frame carrying data (len(data) <= 1024) with an explicit length field value.
func (p *refPeer) sealLen(data []byte, lenField uint32) []byte {
	var frame [framePlain]byte
	binary.LittleEndian.PutUint32(frame[:4], lenField)
	copy(frame[4:], data)
	aead, _ := chacha20poly1305.New(p.sendKey[:])
	out := aead.Seal(nil, nonce(p.sendCtr), frame[:], nil)
	p.sendCtr++
	return out
}

func (p *refPeer) seal(data []byte) []byte { return p.sealLen(data, uint32(len(data))) }

// open decrypts one sealed frame with the next expected receive nonce.
func (p *refPeer) open(sealed []byte) ([]byte, error) {
	if len(sealed) != frameSealed {
		return nil, errors.New("ref: frame size")
	}
	aead, _ := chacha20poly1305.New(p.recvKey[:])
	frame, err := aead.Open(nil, nonce(p.recvCtr), sealed, nil)
	if err != nil {
		return nil, err
	}
	p.recvCtr++
	l := binary.LittleEndian.Uint32(frame[:4])
	if l > frameData {
		return nil, errors.New("ref: length field")
	}
	p.lastPadding = frame[4+l:]
	return frame[4 : 4+l], nil
}

// authPlain returns the plaintext of the authentication message (amino, length-prefixed).
func authPlain(key ed25519.PubKeyEd25519, sig []byte) []byte {
	return amino.MustMarshalSized(refAuthSig{Key: key, Sig: sig})
}

func parseAuth(plain []byte) (refAuthSig, error) {
	var m refAuthSig
	_, err := amino.UnmarshalSizedReader(bytes.NewReader(plain), &m, 1024*1024)
	return m, err
}

func (p *refPeer) signChallenge() []byte {
	sig, err := p.priv.Sign(p.challenge[:])
	if err != nil {
		panic(err)
	}
	return sig
}
