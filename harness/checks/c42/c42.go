// Package c42: secret connections are authenticated and tamper-evident, and
// carry byte streams unchanged for every chunking.
//
// Oracles (all independent of the implementation under test):
//   - stream model: the concatenation of everything written must equal the
//     concatenation of everything read, for random write/read chunkings;
//   - a reference implementation of the protocol written in this package
//     (refPeer) talks to the real SecretConnection in both roles: it must
//     interoperate (so frame format, key schedule and nonce sequence are
//     checked from outside) and it is the active attacker for the handshake;
//   - tamper model: for a delivered byte stream D != written stream W the
//     reader must obtain exactly the plaintext of the frames before the first
//     differing frame, then an error - never anything else;
//   - identity: RemotePubKey() must be the long-term key of whoever holds the
//     session keys of the other end (peer in honest runs, the attacker in a
//     two-handshake man-in-the-middle, which the transport's expected-id
//     comparison then rejects).
package c42

import (
	"bytes"
	"encoding/binary"
	"fmt"
	"io"
	"math/rand/v2"
	"strings"
	"sync/atomic"
	"time"

	"golang.org/x/crypto/curve25519"

	"github.com/gnolang/gno/tm2/pkg/crypto/ed25519"
	"github.com/gnolang/gno/tm2/pkg/p2p/conn"

	"verifharness/internal/vf"
)

func init() {
	vf.Register(&vf.Check{
		ID:    "C42",
		Level: "fault_enumeration",
		Rule: "cases: (1) honest real<->real connections with seeded streams of boundary lengths (0,1,1023..1025,2047..2049,k*1024+-1, up to 200 KB) in both directions at once, random write chunkings (0-length, 1, 1023..1025, large) and read-buffer sizes; " +
			"(2) real<->reference-implementation interop in both key orders; (3) handshake fault enumeration: every bit position class / every truncation length of the attacker's handshake transcript, forged/foreign/reflected signatures and keys, low-order ephemeral points; " +
			"(4) two-handshake man-in-the-middle and ephemeral-key substitution between two real parties; (5) data-phase fault enumeration: flip (every byte offset of a frame), swap, replay, duplicate, drop, truncate (every cut length class), byte insert/delete at arbitrary offsets, " +
			"frames from the other direction / another session / the handshake, at first/middle/last frame; (6) concurrent writers. non-trivial = the delivered byte stream differs from the written one (faults) or the stream spans >= 2 frames or uses a boundary length (honest); distinct by (scenario, operation, position, sizes)",
		Run: run,
	})
}

const watchdog = 120 * time.Second

func key(tag string) ed25519.PrivKeyEd25519 {
	return ed25519.GenPrivKeyFromSecret([]byte("c42/" + tag))
}

func pubOf(k ed25519.PrivKeyEd25519) ed25519.PubKeyEd25519 { return k.PubKey().(ed25519.PubKeyEd25519) }

type hs struct {
	sc  *conn.SecretConnection
	err error
	pv  any
}

// handshake runs MakeSecretConnection on an endpoint; on failure the endpoint is closed (as the transport does).
func handshake(e *endpoint, k ed25519.PrivKeyEd25519) <-chan hs {
	ch := make(chan hs, 1)
	go func() {
		var r hs
		r.pv = vf.Try(func() { r.sc, r.err = conn.MakeSecretConnection(e, k) })
		if r.err != nil || r.pv != nil {
			e.Close()
		}
		ch <- r
	}()
	return ch
}

var gaveUp atomic.Bool // set when the watchdog fired once: later waits only get a short grace period

func await[T any](c *vf.Ctx, what string, ch <-chan T) (T, bool) {
	d := watchdog
	if gaveUp.Load() {
		d = 2 * time.Second
	}
	select {
	case v := <-ch:
		return v, true
	case <-time.After(d):
		var z T
		if !gaveUp.Swap(true) {
			c.Inconclusive("watchdog fired waiting for " + what)
		}
		return z, false
	}
}

// frameSizes is the framing model: every Write of n bytes produces ceil(n/1024) frames.
func frameSizes(writeSizes []int) []int {
	var out []int
	for _, n := range writeSizes {
		for n > 0 {
			k := min(n, frameData)
			out = append(out, k)
			n -= k
		}
	}
	return out
}

var boundaryLens = []int{0, 1, 2, 1023, 1024, 1025, 2047, 2048, 2049, 3071, 3072, 3073, 4096, 5000, 10240, 10241}

func randLen(r *rand.Rand, big bool) int {
	switch r.IntN(4) {
	case 0:
		return boundaryLens[r.IntN(len(boundaryLens))]
	case 1:
		return r.IntN(3000)
	case 2:
		k := 1 + r.IntN(12)
		return k*1024 + r.IntN(3) - 1
	default:
		if big {
			return 20000 + r.IntN(200000)
		}
		return r.IntN(20000)
	}
}

func randChunk(r *rand.Rand) int {
	switch r.IntN(8) {
	case 0:
		return 0
	case 1:
		return 1
	case 2:
		return 1022 + r.IntN(5) // 1022..1026
	case 3:
		return 2046 + r.IntN(5)
	case 4:
		return 1 + r.IntN(64)
	case 5:
		return 4096 + r.IntN(9000)
	case 6:
		return 100000
	default:
		return 1 + r.IntN(3000)
	}
}

func randStream(r *rand.Rand, n int, canary []byte) []byte {
	s := make([]byte, n)
	for i := range s {
		s[i] = byte(r.UintN(256))
	}
	// plant the canary at a few places, including across frame payload boundaries
	for _, off := range []int{0, frameData - len(canary)/2, n - len(canary), r.IntN(max(1, n))} {
		if off >= 0 && off+len(canary) <= n {
			copy(s[off:], canary)
		}
	}
	return s
}

// writeChunked writes s with the given chunk plan; returns the sizes written.
func writeChunked(w io.Writer, s []byte, r *rand.Rand) (sizes []int, err error) {
	for off := 0; off < len(s) || len(sizes) == 0; {
		n := randChunk(r)
		if off+n > len(s) {
			n = len(s) - off
		}
		got, e := w.Write(s[off : off+n])
		sizes = append(sizes, n)
		if e != nil || got != n {
			return sizes, fmt.Errorf("Write(%d bytes) = %d, %v", n, got, e)
		}
		off += n
		if len(s) == 0 {
			break
		}
	}
	return sizes, nil
}

// readUntil reads with random buffer sizes until want bytes arrived (want >= 0) or an error occurs.
func readUntil(rd io.Reader, want int, r *rand.Rand) (got []byte, err error, zeroReads int) {
	for want < 0 || len(got) < want {
		var n int
		switch r.IntN(6) {
		case 0:
			n = 1
		case 1:
			n = 1022 + r.IntN(5)
		case 2:
			n = 1 + r.IntN(100)
		case 3:
			n = 4096
		case 4:
			n = 0
		default:
			n = 1 + r.IntN(3000)
		}
		buf := make([]byte, n)
		k, e := rd.Read(buf)
		got = append(got, buf[:k]...)
		if e != nil {
			return got, e, zeroReads
		}
		if k == 0 {
			zeroReads++
			if zeroReads > 1_000_000 {
				return got, fmt.Errorf("reader spins on zero-length reads"), zeroReads
			}
		}
	}
	return got, nil, zeroReads
}

func run(c *vf.Ctx) {
	c.Assume("confidentiality and integrity of the primitives (X25519, HKDF-SHA256, ChaCha20-Poly1305, Ed25519) are assumed; the check covers their composition: key schedule, nonce discipline, framing, authentication of the handshake")
	c.Assume("a tail truncation exactly at a frame boundary is indistinguishable from the peer closing the connection: the reader obtains a strict prefix followed by EOF")
	honest(c)
	interop(c)
	paddingLeak(c)
	handshakeFaults(c)
	mitm(c)
	dataFaults(c)
	concurrentWriters(c)
	writeFaults(c)

	c.RequireCounter("write_fault_cases", int64(c.N(60, 600)))
	c.RequireCounter("honest_connections", int64(c.N(150, 1500)))
	c.RequireCounter("honest_multi_frame_streams", 50)
	c.RequireCounter("interop_connections", 20)
	c.RequireCounter("handshake_faults_rejected", int64(c.N(600, 2500)))
	c.RequireCounter("handshake_control_accepted", 5)
	c.RequireCounter("mitm_two_handshakes", 10)
	c.RequireCounter("mitm_eph_substitution_failed_both", 10)
	c.RequireCounter("data_faults", int64(c.N(1200, 2500)))
	c.RequireCounter("data_fault_decrypt_errors", 500)
	for _, op := range []string{"flip", "swap", "replay-later", "duplicate", "drop", "truncate", "delete-bytes", "insert-bytes", "other-direction", "other-session", "handshake-frame", "zero-frame"} {
		c.RequireCounter("data_fault:"+op, 10)
	}
	c.RequireCounter("canary_wire_bytes_scanned", 1_000_000)
	c.RequireCounter("concurrent_records", 1000)
	c.RequireCounter("padding_trials", 30)
	for _, k := range []string{"flip", "truncate", "sig-bitflip", "sig-by-other-key", "claimed-key-of-someone-else", "sig-over-other-challenge", "relayed-signature-from-other-session", "reflection", "low-order-eph-1", "eph-substituted-after-key-agreement"} {
		c.RequireCounter("handshake_fault:"+k, 1)
	}
}

// ---------------------------------------------------------------- (1) honest

type pair struct {
	a, b     *endpoint
	ab, ba   *half
	ka, kb   ed25519.PrivKeyEd25519
	sa, sb   *conn.SecretConnection
	hsAB     int // handshake bytes on the a->b half
	hsBA     int
	hsWrites int
}

// connect performs an honest handshake between two real parties.
func connect(c *vf.Ctx, tag string) (*pair, bool) {
	p := &pair{ka: key(tag + "/a"), kb: key(tag + "/b")}
	p.a, p.b, p.ab, p.ba = newDuplex()
	ca, cb := handshake(p.a, p.ka), handshake(p.b, p.kb)
	ra, ok1 := await(c, "handshake a", ca)
	rb, ok2 := await(c, "handshake b", cb)
	if !ok1 || !ok2 {
		p.a.Close()
		p.b.Close()
		return nil, false
	}
	w := map[string]any{"case": tag, "seed": c.Seed}
	if ra.pv != nil || rb.pv != nil {
		c.Violation("panic:handshake", w, "MakeSecretConnection panicked: %v / %v", ra.pv, rb.pv)
		return nil, false
	}
	if ra.err != nil || rb.err != nil {
		c.Violation("honest-handshake-failed", w, "honest handshake failed: a=%v b=%v", ra.err, rb.err)
		return nil, false
	}
	p.sa, p.sb = ra.sc, rb.sc
	if !p.sa.RemotePubKey().Equals(pubOf(p.kb)) || !p.sb.RemotePubKey().Equals(pubOf(p.ka)) {
		c.Violation("wrong-remote-pubkey:honest", w, "after an honest handshake RemotePubKey() is not the peer's key: a sees %X (want %X), b sees %X (want %X)",
			p.sa.RemotePubKey(), pubOf(p.kb), p.sb.RemotePubKey(), pubOf(p.ka))
		return nil, false
	}
	p.hsAB, p.hsBA = p.ab.wireLen(), p.ba.wireLen()
	return p, true
}

func (p *pair) close() { p.a.Close(); p.b.Close() }

func honest(c *vf.Ctx) {
	n := c.N(160, 1600)
	c.Parallel(n, 8, 10_000, func(i int, r *rand.Rand) {
		tag := fmt.Sprintf("honest/%d/%d", c.Seed, i)
		p, ok := connect(c, tag)
		if !ok {
			return
		}
		defer p.close()
		canary := []byte(fmt.Sprintf("CANARY-%016x-%016x-plaintext", r.Uint64(), r.Uint64()))
		big := i%10 == 0
		sAB := randStream(r, randLen(r, big), canary)
		sBA := randStream(r, randLen(r, big), canary)
		if i < len(boundaryLens) {
			sAB = randStream(r, boundaryLens[i], canary)
		}
		type wres struct {
			sizes []int
			err   error
		}
		type rres struct {
			got []byte
			err error
		}
		rw1, rw2 := rand.New(rand.NewPCG(r.Uint64(), 1)), rand.New(rand.NewPCG(r.Uint64(), 2))
		rr1, rr2 := rand.New(rand.NewPCG(r.Uint64(), 3)), rand.New(rand.NewPCG(r.Uint64(), 4))
		w1, w2 := make(chan wres, 1), make(chan wres, 1)
		r1, r2 := make(chan rres, 1), make(chan rres, 1)
		go func() { s, e := writeChunked(p.sa, sAB, rw1); w1 <- wres{s, e} }()
		go func() { s, e := writeChunked(p.sb, sBA, rw2); w2 <- wres{s, e} }()
		go func() { g, e, _ := readUntil(p.sb, len(sAB), rr1); r1 <- rres{g, e} }()
		go func() { g, e, _ := readUntil(p.sa, len(sBA), rr2); r2 <- rres{g, e} }()
		wa, o1 := await(c, "writer a", w1)
		wb, o2 := await(c, "writer b", w2)
		// everything is in the (unbounded) pipe now: end of stream, so a reader that lost bytes gets EOF instead of blocking
		p.ab.closeWrite()
		p.ba.closeWrite()
		ga, o3 := await(c, "reader b", r1)
		gb, o4 := await(c, "reader a", r2)
		if !(o1 && o2 && o3 && o4) {
			return
		}
		nFramesAB, nFramesBA := len(frameSizes(wa.sizes)), len(frameSizes(wb.sizes))
		c.Case(fmt.Sprintf("honest/%d/%d/%v/%v", len(sAB), len(sBA), wa.sizes, wb.sizes), nFramesAB+nFramesBA >= 2 || i < len(boundaryLens))
		c.Count("honest_connections", 1)
		if nFramesAB >= 2 || nFramesBA >= 2 {
			c.Count("honest_multi_frame_streams", 1)
		}
		w := map[string]any{"case": tag, "len_ab": len(sAB), "len_ba": len(sBA), "writes_ab": wa.sizes, "writes_ba": wb.sizes, "seed": c.Seed}
		if wa.err != nil || wb.err != nil {
			c.Violation("write-failed:honest", w, "Write failed on an honest connection: %v / %v", wa.err, wb.err)
			return
		}
		if ga.err != nil || gb.err != nil {
			c.Violation("read-failed:honest", w, "Read failed on an honest connection: %v / %v", ga.err, gb.err)
			return
		}
		if !bytes.Equal(ga.got, sAB) || !bytes.Equal(gb.got, sBA) {
			c.Violation("stream-mismatch:honest", w, "bytes read differ from bytes written (a->b equal=%v, b->a equal=%v)", bytes.Equal(ga.got, sAB), bytes.Equal(gb.got, sBA))
			return
		}
		// wire: frames of 1044 bytes, count per the framing model, canary absent
		wireAB, writesAB := p.ab.wireCopy()
		wireBA, writesBA := p.ba.wireCopy()
		if (len(wireAB)-p.hsAB) != nFramesAB*frameSealed || (len(wireBA)-p.hsBA) != nFramesBA*frameSealed {
			c.Violation("frame-accounting", w, "data bytes on the wire %d/%d, framing model (CONTRACT: writes <= 1024 bytes are one frame) expects %d/%d frames of %d bytes",
				len(wireAB)-p.hsAB, len(wireBA)-p.hsBA, nFramesAB, nFramesBA, frameSealed)
			return
		}
		_ = writesAB
		_ = writesBA
		c.Count("frames_on_wire", nFramesAB+nFramesBA)
		c.Count("canary_wire_bytes_scanned", len(wireAB)+len(wireBA))
		if bytes.Contains(wireAB, canary) || bytes.Contains(wireBA, canary) || bytes.Contains(wireAB, canary[:12]) || bytes.Contains(wireBA, canary[:12]) {
			w["offset_in_a_to_b_wire"] = bytes.Index(wireAB, canary[:12])
			w["offset_in_b_to_a_wire"] = bytes.Index(wireBA, canary[:12])
			w["handshake_bytes"] = []int{p.hsAB, p.hsBA}
			c.Violation("plaintext-on-wire", w, "the application's plaintext canary appears in the bytes written to the underlying connection")
			return
		}
		if i < 3 {
			c.Sample(map[string]any{"scenario": "honest", "len_ab": len(sAB), "len_ba": len(sBA), "writes_ab": firstN(wa.sizes, 12), "frames_ab": nFramesAB})
		}
	})
}

func firstN(a []int, n int) []int {
	if len(a) > n {
		return a[:n]
	}
	return a
}

// ---------------------------------------------------------------- (2) interop with the reference implementation

// refHandshake drives the reference peer against a real party on endpoint e
// (the real party writes to `out`, reads from `in`). Returns the real party's result.
func refHandshake(c *vf.Ctx, ref *refPeer, e *endpoint, k ed25519.PrivKeyEd25519, out, in *half, w map[string]any) (hs, bool) {
	ch := handshake(e, k)
	if !out.waitWrites(1) {
		c.Violation("interop:no-eph-message", w, "real party closed before sending its ephemeral key")
		return hs{}, false
	}
	wire, writes := out.wireCopy()
	remEph, err := parseEphMsg(wire[:writes[0]])
	if err != nil {
		c.Violation("interop:eph-message-format", w, "reference peer cannot parse the ephemeral key message %x: %v", wire[:writes[0]], err)
		return hs{}, false
	}
	if err := ref.derive(remEph); err != nil {
		c.Violation("interop:derive", w, "reference key derivation failed: %v", err)
		return hs{}, false
	}
	in.inject(ephMsg(ref.ephPub))
	if !out.waitWrites(2) {
		c.Violation("interop:no-auth-frame", w, "real party did not send its authentication frame")
		return hs{}, false
	}
	wire, writes = out.wireCopy()
	plain, err := ref.open(wire[writes[0] : writes[0]+writes[1]])
	if err != nil {
		c.Violation("interop:auth-frame-undecryptable", w, "reference peer cannot open the real party's authentication frame (key schedule / nonce / frame format differ from the protocol): %v", err)
		return hs{}, false
	}
	auth, err := parseAuth(plain)
	if err != nil {
		c.Violation("interop:auth-message-format", w, "reference peer cannot parse the authentication message: %v", err)
		return hs{}, false
	}
	if !auth.Key.Equals(pubOf(k)) || !auth.Key.VerifyBytes(ref.challenge[:], auth.Sig) {
		c.Violation("interop:auth-invalid", w, "the real party's authentication message does not carry its key with a valid signature over the reference challenge")
		return hs{}, false
	}
	in.inject(ref.seal(authPlain(ref.pub(), ref.signChallenge())))
	r, ok := await(c, "interop handshake", ch)
	return r, ok
}

func interop(c *vf.Ctx) {
	n := c.N(40, 300)
	c.Parallel(n, 8, 20_000, func(i int, r *rand.Rand) {
		tag := fmt.Sprintf("interop/%d/%d", c.Seed, i)
		w := map[string]any{"case": tag, "seed": c.Seed}
		ka, km := key(tag+"/a"), key(tag+"/ref")
		a, b, ab, ba := newDuplex()
		_ = b
		ref := newRefPeer(km, r)
		res, ok := refHandshake(c, ref, a, ka, ab, ba, w)
		if !ok {
			a.Close()
			return
		}
		defer a.Close()
		c.Case(tag, true)
		if res.pv != nil || res.err != nil {
			c.Violation("interop:handshake-failed", w, "real party rejected a correct handshake by the reference implementation: err=%v panic=%v", res.err, res.pv)
			return
		}
		if !res.sc.RemotePubKey().Equals(ref.pub()) {
			c.Violation("wrong-remote-pubkey:interop", w, "RemotePubKey() %X is not the reference peer's key %X", res.sc.RemotePubKey(), ref.pub())
			return
		}
		// real -> ref: decrypt every raw write with the reference key schedule and nonce counter
		s := randStream(r, randLen(r, false), []byte("interop-canary-0123456789abcdef"))
		hsLen := ab.wireLen()
		sizes, err := writeChunked(res.sc, s, r)
		if err != nil {
			c.Violation("write-failed:interop", w, "%v", err)
			return
		}
		wire, _ := ab.wireCopy()
		data := wire[hsLen:]
		var got []byte
		model := frameSizes(sizes)
		for k := 0; len(data) >= frameSealed; k++ {
			pl, err := ref.open(data[:frameSealed])
			if err != nil {
				c.Violation("interop:data-frame-undecryptable", w, "reference peer cannot open data frame %d (nonce sequence or key differs): %v", k, err)
				return
			}
			if k < len(model) && len(pl) != model[k] {
				c.Violation("interop:frame-length", w, "frame %d carries %d bytes, framing model says %d", k, len(pl), model[k])
				return
			}
			got = append(got, pl...)
			data = data[frameSealed:]
			if len(ref.lastPadding) > 0 {
				c.Count("interop_frames_with_padding", 1)
				if !bytes.Equal(ref.lastPadding, make([]byte, len(ref.lastPadding))) {
					c.Count("interop_frames_with_nonzero_padding", 1)
				}
			}
		}
		if len(data) != 0 || !bytes.Equal(got, s) {
			c.Violation("interop:stream-mismatch", w, "plaintext recovered by the reference peer differs from what the application wrote (%d vs %d bytes, %d trailing wire bytes)", len(got), len(s), len(data))
			return
		}
		// ref -> real: frames of arbitrary payload sizes, including empty frames
		s2 := randStream(r, randLen(r, false), []byte("interop-canary-fedcba9876543210"))
		for off := 0; off < len(s2); {
			k := []int{1024, 1, 0, 1 + r.IntN(1024), 1023}[r.IntN(5)]
			if off+k > len(s2) {
				k = len(s2) - off
			}
			ba.inject(ref.seal(s2[off : off+k]))
			off += k
		}
		ba.closeWrite()
		done := make(chan struct{})
		var got2 []byte
		var rerr error
		go func() { got2, rerr, _ = readUntil(res.sc, -1, r); close(done) }()
		if _, ok := await(c, "interop reader", done); !ok {
			return
		}
		if !bytes.Equal(got2, s2) || rerr != io.EOF {
			c.Violation("interop:read-mismatch", w, "real party read %d bytes (want %d, equal=%v), final error %v (want EOF)", len(got2), len(s2), bytes.Equal(got2, s2), rerr)
			return
		}
		c.Count("interop_connections", 1)
	})
	// an authenticated peer sending a frame whose length field exceeds the payload size: error, no panic
	for i := 0; i < 8; i++ {
		tag := fmt.Sprintf("interop-badlen/%d/%d", c.Seed, i)
		w := map[string]any{"case": tag, "seed": c.Seed}
		r := c.Rng(uint64(29_000 + i))
		a, _, ab, ba := newDuplex()
		ref := newRefPeer(key(tag+"/ref"), r)
		res, ok := refHandshake(c, ref, a, key(tag+"/a"), ab, ba, w)
		if !ok || res.err != nil {
			a.Close()
			continue
		}
		lf := []uint32{1025, 1028, 2048, 0x7fffffff, 0xffffffff, 1 << 16, 4096, 1029}[i]
		ba.inject(ref.sealLen([]byte("x"), lf))
		ba.closeWrite()
		var n int
		var err error
		pv := vf.Try(func() { n, err = res.sc.Read(make([]byte, 4096)) })
		c.Case(tag, true)
		if pv != nil {
			c.Violation("panic:read-oversized-length-field", w, "Read panicked on an authentic frame with length field %d: %v", lf, pv)
		} else if err == nil {
			c.Violation("accepted:oversized-length-field", w, "Read returned %d bytes, nil error for a frame with length field %d", n, lf)
		} else {
			c.Count("oversized_length_field_rejected", 1)
		}
		a.Close()
	}
}

// ---------------------------------------------------------------- (3) handshake fault enumeration

type hsFault struct {
	name string
	// build returns the byte stream the attacker sends to the victim, given the reference peer (keys already derived)
	// and the victim's own transcript (eph message, auth frame - the latter only for reflection)
	build       func(ref *refPeer, victimEph []byte, victimAuthFrame func() []byte, r *rand.Rand) []byte
	needAuth    bool // needs the victim's auth frame (reflection)
	mustSucceed bool
	maySucceed  bool
}

var lowOrder = [][32]byte{
	{},
	{1},
	{0xe0, 0xeb, 0x7a, 0x7c, 0x3b, 0x41, 0xb8, 0xae, 0x16, 0x56, 0xe3, 0xfa, 0xf1, 0x9f, 0xc4, 0x6a, 0xda, 0x09, 0x8d, 0xeb, 0x9c, 0x32, 0xb1, 0xfd, 0x86, 0x62, 0x05, 0x16, 0x5f, 0x49, 0xb8, 0x00},
	{0x5f, 0x9c, 0x95, 0xbc, 0xa3, 0x50, 0x8c, 0x24, 0xb1, 0xd0, 0xb1, 0x55, 0x9c, 0x83, 0xef, 0x5b, 0x04, 0x44, 0x5c, 0xc4, 0x58, 0x1c, 0x8e, 0x86, 0xd8, 0x22, 0x4e, 0xdd, 0xd0, 0x9f, 0x11, 0x57},
	{0xec, 0xff, 0xff, 0xff, 0xff, 0xff, 0xff, 0xff, 0xff, 0xff, 0xff, 0xff, 0xff, 0xff, 0xff, 0xff, 0xff, 0xff, 0xff, 0xff, 0xff, 0xff, 0xff, 0xff, 0xff, 0xff, 0xff, 0xff, 0xff, 0xff, 0xff, 0x7f},
	{0xed, 0xff, 0xff, 0xff, 0xff, 0xff, 0xff, 0xff, 0xff, 0xff, 0xff, 0xff, 0xff, 0xff, 0xff, 0xff, 0xff, 0xff, 0xff, 0xff, 0xff, 0xff, 0xff, 0xff, 0xff, 0xff, 0xff, 0xff, 0xff, 0xff, 0xff, 0x7f},
	{0xee, 0xff, 0xff, 0xff, 0xff, 0xff, 0xff, 0xff, 0xff, 0xff, 0xff, 0xff, 0xff, 0xff, 0xff, 0xff, 0xff, 0xff, 0xff, 0xff, 0xff, 0xff, 0xff, 0xff, 0xff, 0xff, 0xff, 0xff, 0xff, 0xff, 0xff, 0x7f},
}

func goodTranscript(ref *refPeer) []byte {
	return append(ephMsg(ref.ephPub), ref.seal(authPlain(ref.pub(), ref.signChallenge()))...)
}

// runHsFault: real victim vs scripted attacker. Returns the victim's result.
func runHsFault(c *vf.Ctx, tag string, f hsFault, r *rand.Rand) {
	w := map[string]any{"case": tag, "fault": f.name, "seed": c.Seed}
	kv, km := key(tag+"/victim"), key(tag+"/attacker")
	a, _, ab, ba := newDuplex()
	defer a.Close()
	ref := newRefPeer(km, r)
	ch := handshake(a, kv)
	if !ab.waitWrites(1) {
		c.Violation("hsfault:no-eph", w, "victim sent nothing")
		return
	}
	wire, writes := ab.wireCopy()
	victimEph := wire[:writes[0]]
	remEph, err := parseEphMsg(victimEph)
	if err != nil {
		c.Violation("interop:eph-message-format", w, "cannot parse victim eph message: %v", err)
		return
	}
	ref.derive(remEph)
	authFrame := func() []byte {
		// the victim sends its auth frame only after it received an ephemeral key; for reflection the
		// attacker first echoes the victim's own ephemeral key
		ab.waitWrites(2)
		wi, wr := ab.wireCopy()
		if len(wr) < 2 {
			return nil
		}
		return wi[wr[0] : wr[0]+wr[1]]
	}
	var stream []byte
	if f.needAuth {
		ba.inject(victimEph) // echo the victim's own ephemeral key
		af := authFrame()
		stream = f.build(ref, victimEph, func() []byte { return af }, r)
	} else {
		stream = f.build(ref, victimEph, nil, r)
	}
	ba.inject(stream)
	ba.closeWrite()
	res, ok := await(c, "handshake under fault "+f.name, ch)
	if !ok {
		return
	}
	c.Case(tag, !f.mustSucceed)
	if res.pv != nil {
		c.Violation("panic:handshake:"+faultKind(f.name), w, "MakeSecretConnection panicked under handshake fault %s: %v", f.name, res.pv)
		return
	}
	switch {
	case f.mustSucceed:
		if res.err != nil || !res.sc.RemotePubKey().Equals(ref.pub()) {
			c.Violation("hsfault:control-rejected", w, "control handshake (%s) failed: %v", f.name, res.err)
			return
		}
		c.Count("handshake_control_accepted", 1)
	case res.err == nil && f.maySucceed:
		c.Count("handshake_fault_tolerated:"+f.name, 1)
		// the session must still be the attacker's own (its key), nothing else
		if !res.sc.RemotePubKey().Equals(ref.pub()) {
			c.Violation("wrong-remote-pubkey:"+faultKind(f.name), w, "handshake under %s succeeded with RemotePubKey %X which is not the key of the party holding the session keys (%X)", f.name, res.sc.RemotePubKey(), ref.pub())
		}
	case res.err == nil && strings.HasPrefix(f.name, "small-order-pubkey"):
		c.Count("handshake_accepted:"+faultKind(f.name), 1)
		rk := res.sc.RemotePubKey()
		w["claimed_pubkey_hex"] = fmt.Sprintf("%X", rk[:])
		w["repro"] = "attacker (no private key): normal X25519 ephemeral exchange, then authSigMessage{Key: small-order Edwards point (e.g. 0100..00), Sig: 0100..00 || 00..00}; MakeSecretConnection returns nil error and RemotePubKey() is that point"
		c.Violation("handshake-accepted:small-order-pubkey", w, "handshake succeeded although the peer proved possession of no key: claimed long-term key %X is a small-order point and the constant signature verifies (%s)", rk[:], f.name)
	case res.err == nil:
		c.Violation("handshake-accepted:"+faultKind(f.name), w, "handshake succeeded under fault %s; victim believes the remote key is %X", f.name, res.sc.RemotePubKey())
	default:
		c.Count("handshake_faults_rejected", 1)
		c.Count("handshake_fault:"+faultKind(f.name), 1)
	}
}

// faultKind strips the position / repetition suffix of a fault name.
func faultKind(name string) string {
	for i, ch := range name {
		if ch == '@' || ch == '#' {
			return name[:i]
		}
	}
	return name
}

func handshakeFaults(c *vf.Ctx) {
	var faults []hsFault
	add := func(f hsFault) { faults = append(faults, f) }
	for k := 0; k < 8; k++ {
		add(hsFault{name: fmt.Sprintf("control-%d", k), mustSucceed: true, build: func(ref *refPeer, _ []byte, _ func() []byte, _ *rand.Rand) []byte { return goodTranscript(ref) }})
	}
	ephLen := len(ephMsg([32]byte{}))
	total := ephLen + frameSealed
	// bit flips: every byte of the transcript in thorough, every byte of the eph message + tag + a stride over the frame in quick
	for off := 0; off < total; off++ {
		if c.Quick() && off >= ephLen+8 && off < total-20 && off%3 != 0 {
			continue
		}
		off := off
		// X25519 ignores the most significant bit of the 32nd key byte: flipping it does not change the key agreement
		// (documented: "every 32-byte string is accepted as a Curve25519 public key")
		msb := off == ephLen-1
		add(hsFault{name: fmt.Sprintf("flip@%d", off), maySucceed: msb, build: func(ref *refPeer, _ []byte, _ func() []byte, r *rand.Rand) []byte {
			t := goodTranscript(ref)
			bit := uint(r.UintN(8))
			if msb {
				bit = 7
			}
			t[off] ^= 1 << bit
			return t
		}})
	}
	// truncation at every length (quick: stride)
	for cut := 0; cut < total; cut++ {
		if c.Quick() && cut > ephLen+4 && cut < total-4 && cut%5 != 0 {
			continue
		}
		cut := cut
		add(hsFault{name: fmt.Sprintf("truncate@%d", cut), build: func(ref *refPeer, _ []byte, _ func() []byte, _ *rand.Rand) []byte { return goodTranscript(ref)[:cut] }})
	}
	reps := c.N(6, 40)
	sem := func(name string, mk func(ref *refPeer, r *rand.Rand) (ed25519.PubKeyEd25519, []byte)) {
		for k := 0; k < reps; k++ {
			add(hsFault{name: fmt.Sprintf("%s#%d", name, k), build: func(ref *refPeer, _ []byte, _ func() []byte, r *rand.Rand) []byte {
				k, sig := mk(ref, r)
				return append(ephMsg(ref.ephPub), ref.seal(authPlain(k, sig))...)
			}})
		}
	}
	other := key("hsfault/some-other-validator")
	sem("sig-bitflip", func(ref *refPeer, r *rand.Rand) (ed25519.PubKeyEd25519, []byte) {
		s := ref.signChallenge()
		s[r.IntN(len(s))] ^= 1 << r.UintN(8)
		return ref.pub(), s
	})
	sem("sig-by-other-key", func(ref *refPeer, r *rand.Rand) (ed25519.PubKeyEd25519, []byte) {
		s, _ := other.Sign(ref.challenge[:])
		return ref.pub(), s
	})
	sem("claimed-key-of-someone-else", func(ref *refPeer, r *rand.Rand) (ed25519.PubKeyEd25519, []byte) {
		// the classic substitution: claim the honest peer's long-term key, sign with the attacker's
		return pubOf(other), ref.signChallenge()
	})
	sem("sig-over-other-challenge", func(ref *refPeer, r *rand.Rand) (ed25519.PubKeyEd25519, []byte) {
		var ch [32]byte
		copy(ch[:], ref.challenge[:])
		ch[0] ^= 1
		s, _ := ref.priv.Sign(ch[:])
		return ref.pub(), s
	})
	sem("sig-over-eph-keys", func(ref *refPeer, r *rand.Rand) (ed25519.PubKeyEd25519, []byte) {
		s, _ := ref.priv.Sign(ref.ephPub[:])
		return ref.pub(), s
	})
	sem("sig-empty", func(ref *refPeer, r *rand.Rand) (ed25519.PubKeyEd25519, []byte) { return ref.pub(), nil })
	sem("sig-63-bytes", func(ref *refPeer, r *rand.Rand) (ed25519.PubKeyEd25519, []byte) {
		return ref.pub(), ref.signChallenge()[:63]
	})
	sem("sig-65-bytes", func(ref *refPeer, r *rand.Rand) (ed25519.PubKeyEd25519, []byte) {
		return ref.pub(), append(ref.signChallenge(), 0)
	})
	sem("sig-zero", func(ref *refPeer, r *rand.Rand) (ed25519.PubKeyEd25519, []byte) { return ref.pub(), make([]byte, 64) })
	// Claimed long-term keys of small order: no private key exists for them, so a signature check that
	// passes proves nothing about the peer. With A of order d, R = identity and S = 0 the Ed25519 equation
	// [S]B = R + [k]A holds whenever k = H(R,A,challenge) is a multiple of d (always for the identity point).
	sem("small-order-pubkey/identity", func(ref *refPeer, r *rand.Rand) (ed25519.PubKeyEd25519, []byte) {
		var k ed25519.PubKeyEd25519
		k[0] = 1
		sig := make([]byte, 64)
		sig[0] = 1
		return k, sig
	})
	sem("small-order-pubkey/order2", func(ref *refPeer, r *rand.Rand) (ed25519.PubKeyEd25519, []byte) {
		var k ed25519.PubKeyEd25519
		for i := range k {
			k[i] = 0xff
		}
		k[0], k[31] = 0xec, 0x7f
		sig := make([]byte, 64)
		sig[0] = 1
		return k, sig
	})
	sem("small-order-pubkey/order4-zero-key-zero-sig", func(ref *refPeer, r *rand.Rand) (ed25519.PubKeyEd25519, []byte) {
		return ed25519.PubKeyEd25519{}, make([]byte, 64) // R = A = (.,0): holds when k = 3 mod 4
	})
	// relayed credentials: the signature another honest party produced for ITS session (different challenge)
	sem("relayed-signature-from-other-session", func(ref *refPeer, r *rand.Rand) (ed25519.PubKeyEd25519, []byte) {
		o := newRefPeer(other, r)
		var e [32]byte
		for i := range e {
			e[i] = byte(r.UintN(256))
		}
		pub, _ := newRefPeerPub(e)
		o.derive(pub)
		return pubOf(other), o.signChallenge()
	})
	for i := range lowOrder {
		p := lowOrder[i]
		add(hsFault{name: fmt.Sprintf("low-order-eph-%d", i), build: func(ref *refPeer, _ []byte, _ func() []byte, _ *rand.Rand) []byte {
			return append(ephMsg(p), ref.seal(authPlain(ref.pub(), ref.signChallenge()))...)
		}})
	}
	add(hsFault{name: "auth-frame-sealed-with-wrong-nonce", build: func(ref *refPeer, _ []byte, _ func() []byte, _ *rand.Rand) []byte {
		ref.sendCtr = 1
		return append(ephMsg(ref.ephPub), ref.seal(authPlain(ref.pub(), ref.signChallenge()))...)
	}})
	add(hsFault{name: "auth-frame-sealed-with-recv-key", build: func(ref *refPeer, _ []byte, _ func() []byte, _ *rand.Rand) []byte {
		ref.sendKey, ref.recvKey = ref.recvKey, ref.sendKey
		return append(ephMsg(ref.ephPub), ref.seal(authPlain(ref.pub(), ref.signChallenge()))...)
	}})
	add(hsFault{name: "auth-message-garbage", build: func(ref *refPeer, _ []byte, _ func() []byte, r *rand.Rand) []byte {
		g := make([]byte, 200)
		for i := range g {
			g[i] = byte(r.UintN(256))
		}
		return append(ephMsg(ref.ephPub), ref.seal(g)...)
	}})
	add(hsFault{name: "eph-substituted-after-key-agreement", build: func(ref *refPeer, _ []byte, _ func() []byte, r *rand.Rand) []byte {
		// the attacker announces a different ephemeral key than the one it used for the keys
		var e [32]byte
		for i := range e {
			e[i] = byte(r.UintN(256))
		}
		pub, _ := newRefPeerPub(e)
		return append(ephMsg(pub), ref.seal(authPlain(ref.pub(), ref.signChallenge()))...)
	}})
	// reflection: echo the victim's own ephemeral key and its own authentication frame
	for k := 0; k < reps; k++ {
		add(hsFault{name: fmt.Sprintf("reflection#%d", k), needAuth: true, build: func(ref *refPeer, victimEph []byte, af func() []byte, _ *rand.Rand) []byte { return af() }})
	}
	add(hsFault{name: "reflection", needAuth: true, build: func(ref *refPeer, victimEph []byte, af func() []byte, _ *rand.Rand) []byte { return af() }})
	c.Set("handshake_fault_kinds", len(faults))
	c.Parallel(len(faults), 8, 30_000, func(i int, r *rand.Rand) {
		runHsFault(c, fmt.Sprintf("hsfault/%d/%s", c.Seed, faults[i].name), faults[i], r)
	})
}

func newRefPeerPub(priv [32]byte) ([32]byte, error) {
	var out [32]byte
	pub, err := curve25519.X25519(priv[:], curve25519.Basepoint)
	if err != nil {
		return out, err
	}
	copy(out[:], pub)
	return out, nil
}

// ---------------------------------------------------------------- (4) man in the middle between two real parties

func mitm(c *vf.Ctx) {
	n := c.N(12, 60)
	// (a) two handshakes: alice <-> mallory(real conn, own key) and mallory <-> bob, plaintext relayed (and altered)
	c.Parallel(n, 8, 40_000, func(i int, r *rand.Rand) {
		tag := fmt.Sprintf("mitm2hs/%d/%d", c.Seed, i)
		w := map[string]any{"case": tag, "seed": c.Seed}
		ka, kb, km := key(tag+"/alice"), key(tag+"/bob"), key(tag+"/mallory")
		a, m1, am, _ := newDuplex()
		m2, b, mb, _ := newDuplex()
		defer func() { a.Close(); m1.Close(); m2.Close(); b.Close() }()
		ca, cm1, cm2, cb := handshake(a, ka), handshake(m1, km), handshake(m2, km), handshake(b, kb)
		ra, o1 := await(c, "mitm alice", ca)
		rm1, o2 := await(c, "mitm mallory1", cm1)
		rm2, o3 := await(c, "mitm mallory2", cm2)
		rb, o4 := await(c, "mitm bob", cb)
		if !(o1 && o2 && o3 && o4) {
			return
		}
		c.Case(tag, true)
		if ra.err != nil || rb.err != nil || rm1.err != nil || rm2.err != nil {
			c.Violation("honest-handshake-failed", w, "handshakes failed: %v %v %v %v", ra.err, rm1.err, rm2.err, rb.err)
			return
		}
		// what each victim learns is the attacker's key, never the intended peer's
		if ra.sc.RemotePubKey().Equals(pubOf(kb)) || rb.sc.RemotePubKey().Equals(pubOf(ka)) {
			c.Violation("mitm-undetectable", w, "with a man in the middle performing two handshakes a victim's RemotePubKey() equals the intended peer's key")
			return
		}
		if !ra.sc.RemotePubKey().Equals(pubOf(km)) || !rb.sc.RemotePubKey().Equals(pubOf(km)) {
			c.Violation("wrong-remote-pubkey:mitm", w, "victims do not see the key of the party they actually share session keys with")
			return
		}
		// the transport's dial check (p2p/transport.go processConn): id derived from RemotePubKey vs the dialed id
		expected := pubOf(kb).Address().ID()
		if ra.sc.RemotePubKey().Address().ID().String() == expected.String() {
			c.Violation("mitm-undetectable", w, "expected-id check passes with a man in the middle")
			return
		}
		// relay with alteration: alice's message arrives altered only because mallory re-encrypted it under her own sessions
		msg := randStream(r, 100+r.IntN(3000), []byte("mitm"))
		ra.sc.Write(msg) // the pipe is unbounded: returns at once
		am.closeWrite()  // end of stream: a reader that lost bytes gets EOF instead of blocking
		got, err, _ := readUntil(rm1.sc, len(msg), r)
		if err != nil || !bytes.Equal(got, msg) {
			c.Violation("stream-mismatch:honest", w, "relay leg 1 broken: %v", err)
			return
		}
		got[0] ^= 0xff
		rm2.sc.Write(got)
		mb.closeWrite()
		got2, err, _ := readUntil(rb.sc, len(msg), r)
		if err != nil || !bytes.Equal(got2, got) {
			c.Violation("stream-mismatch:honest", w, "relay leg 2 broken: %v", err)
			return
		}
		c.Count("mitm_two_handshakes", 1)
		c.Count("mitm_detected_by_expected_id_check", 1)
	})
	// (b) ephemeral-key substitution on the wire between two real parties; everything else relayed untouched
	c.Parallel(n, 8, 41_000, func(i int, r *rand.Rand) {
		tag := fmt.Sprintf("mitm-eph/%d/%d", c.Seed, i)
		variant := []string{"a->b", "both", "low-order->b", "b->a"}[i%4]
		w := map[string]any{"case": tag, "seed": c.Seed, "variant": variant}
		ka, kb := key(tag+"/alice"), key(tag+"/bob")
		a, b, ab, ba := newDuplex()
		defer func() { a.Close(); b.Close() }()
		mal := newRefPeer(key(tag+"/mallory"), r)
		sub := ephMsg(mal.ephPub)
		if variant == "low-order->b" {
			sub = ephMsg(lowOrder[1+i%6])
		}
		first := func(idx int, p []byte) []byte {
			if idx == 0 {
				return append([]byte{}, sub...)
			}
			return p
		}
		if variant != "b->a" {
			ab.filter = first
		}
		if variant == "both" || variant == "b->a" {
			ba.filter = first
		}
		ca, cb := handshake(a, ka), handshake(b, kb)
		ra, o1 := await(c, "eph-sub alice", ca)
		rb, o2 := await(c, "eph-sub bob", cb)
		if !(o1 && o2) {
			return
		}
		c.Case(tag, true)
		if ra.pv != nil || rb.pv != nil {
			c.Violation("panic:handshake:eph-substitution", w, "MakeSecretConnection panicked: %v / %v", ra.pv, rb.pv)
			return
		}
		if ra.err == nil || rb.err == nil {
			c.Violation("handshake-accepted:eph-substitution", w, "handshake with a substituted ephemeral key (%s) succeeded: alice err=%v bob err=%v", variant, ra.err, rb.err)
			return
		}
		c.Count("mitm_eph_substitution_failed_both", 1)
	})
}

// paddingLeak: the bytes after the payload of a short frame must not disclose what the node wrote on
// ANOTHER connection (the frame buffers come from a process-wide pool). Sequence: connection X
// (real<->real) writes a frame full of a marker; then, on the same goroutine, connection Y's real side
// writes ONE byte to the reference peer, which decrypts the frame and inspects the 1023 padding bytes.
func paddingLeak(c *vf.Ctx) {
	r := c.Rng(70_000)
	for i := 0; i < c.N(40, 200); i++ {
		tag := fmt.Sprintf("padding/%d/%d", c.Seed, i)
		w := map[string]any{"case": tag, "seed": c.Seed}
		a, _, ab, ba := newDuplex()
		ref := newRefPeer(key(tag+"/ref"), r)
		res, ok := refHandshake(c, ref, a, key(tag+"/a"), ab, ba, w)
		if !ok || res.err != nil {
			a.Close()
			continue
		}
		q, ok := connect(c, tag+"/x")
		if !ok {
			a.Close()
			continue
		}
		marker := []byte(fmt.Sprintf("PLAINTEXT-OF-CONNECTION-X-%016x|", r.Uint64()))
		blob := bytes.Repeat(marker, frameData/len(marker))
		hsLen := ab.wireLen()
		q.sa.Write(blob)          // connection X: alice -> bob
		res.sc.Write([]byte{'y'}) // connection Y: one byte to the reference peer
		wire, _ := ab.wireCopy()
		c.Case(tag, true)
		if _, err := ref.open(wire[hsLen : hsLen+frameSealed]); err == nil {
			c.Count("padding_trials", 1)
			if !bytes.Equal(ref.lastPadding, make([]byte, len(ref.lastPadding))) {
				c.Count("padding_nonzero", 1)
			}
			if off := bytes.Index(ref.lastPadding, marker); off >= 0 {
				w["padding_offset"] = off
				w["repro"] = "connection X (two real SecretConnections in this process) writes 1024 bytes of a marker; immediately afterwards connection Y's real side writes one byte to a peer; the peer decrypts that frame: the 1023 bytes after the payload contain X's marker (Write takes the frame buffer from the shared buffer pool and does not clear it)"
				c.Violation("frame-padding-leaks-other-connection-plaintext", w, "the padding of a frame sent on connection Y contains plaintext written on connection X (offset %d of the padding)", off)
			}
		}
		q.close()
		a.Close()
	}
}

// ---------------------------------------------------------------- transport write errors
//
// A transport write of a sealed frame fails after part of it reached the wire (deadline
// expiring mid-frame); the application writes again on the same connection. A passive
// observer of everything handed to the transport must not be able to relate two frames:
// c_i XOR c_j == p_i XOR p_j means both were encrypted under one (key, nonce).
func writeFaults(c *vf.Ctx) {
	r := c.Rng(90_000)
	for i := 0; i < c.N(60, 600); i++ {
		tag := fmt.Sprintf("write-fault/%d/%d", c.Seed, i)
		p, ok := connect(c, tag)
		if !ok {
			continue
		}
		c.Case(tag, true)
		c.Count("write_fault_cases", 1)
		p.ab.mu.Lock()
		base := len(p.ab.attempts)
		p.ab.failAt = len(p.ab.writes) + r.IntN(3)
		p.ab.failKeep = []int{0, 1, 600, frameSealed - 1}[r.IntN(4)]
		p.ab.mu.Unlock()
		var plain [][]byte
		nw := 3 + r.IntN(4)
		failed := 0
		for k := 0; k < nw; k++ {
			data := make([]byte, 1+r.IntN(frameData)) // one frame per Write call
			for j := range data {
				data[j] = byte(r.IntN(256))
			}
			var frame [framePlain]byte
			binary.LittleEndian.PutUint32(frame[:4], uint32(len(data)))
			copy(frame[4:], data)
			plain = append(plain, frame[:])
			var err error
			if pv := vf.Try(func() { _, err = p.sa.Write(data) }); pv != nil {
				c.Violation("panic:Write-after-transport-error", map[string]any{"case": tag}, "Write panicked: %v", pv)
				break
			}
			if err != nil {
				failed++
			}
		}
		p.ab.mu.Lock()
		att := append([][]byte{}, p.ab.attempts[base:]...)
		p.ab.mu.Unlock()
		c.Count("write_fault_frames_observed", len(att))
		if failed > 0 {
			c.Count("write_fault_errors_returned", 1)
		}
		if len(att) != len(plain) {
			// a Write that produced no transport write (refused after the error) is fine; align by count
			plain = plain[:min(len(plain), len(att))]
			att = att[:len(plain)]
		}
		for a := 0; a < len(att); a++ {
			for b := a + 1; b < len(att); b++ {
				if len(att[a]) != frameSealed || len(att[b]) != frameSealed {
					continue
				}
				same := true
				for x := 0; x < framePlain; x++ {
					if att[a][x]^att[b][x] != plain[a][x]^plain[b][x] {
						same = false
						break
					}
				}
				c.Count("write_fault_frame_pairs_compared", 1)
				if same {
					c.Violation("keystream-reused-after-transport-write-error", map[string]any{"case": tag, "seed": c.Seed, "frames": []int{a, b}, "failed_write_index": p.ab.failAt, "bytes_on_wire_of_failed_write": p.ab.failKeep},
						"frames %d and %d handed to the transport after the handshake satisfy c1 XOR c2 == p1 XOR p2 over all %d plaintext bytes: both were sealed with the same key and nonce (the transport write of frame index %d had failed after %d bytes)", a, b, framePlain, p.ab.failAt-p.hsWritesAB(), p.ab.failKeep)
				}
			}
		}
		p.close()
	}
}

func (p *pair) hsWritesAB() int { return 0 }
