package c42

import (
	"errors"
	"io"
	"sync"
)

// half is one direction of an in-memory connection. Writes never block
// (unbounded buffer) and are logged verbatim (the "wire"); delivery to the
// reader is either immediate or held until the adversary releases a
// (possibly transformed) byte stream.
type half struct {
	mu   sync.Mutex
	cond *sync.Cond

	wire   []byte // everything written, in order
	writes []int  // size of every raw Write call

	avail []byte // delivered to the reader but not yet read
	held  bool   // true: written bytes are NOT delivered automatically
	hold0 int    // wire offset from which bytes are held
	eof   bool   // reader sees io.EOF once avail is drained
	dead  bool   // the reading endpoint closed itself

	// filter, if set, transforms each raw write before delivery (non-held mode); idx is the write index
	filter func(idx int, p []byte) []byte

	// failAt >= 0: the raw write with this index fails like a transport whose deadline expires
	// mid-write: failKeep bytes reach the wire, the call returns an error. attempts logs the full
	// buffer of every write call (also the failed one).
	failAt   int
	failKeep int
	attempts [][]byte
}

type timeoutErr struct{}

func (timeoutErr) Error() string   { return "i/o timeout (injected)" }
func (timeoutErr) Timeout() bool   { return true }
func (timeoutErr) Temporary() bool { return true }

func newHalf() *half {
	h := &half{failAt: -1}
	h.cond = sync.NewCond(&h.mu)
	return h
}

func (h *half) write(p []byte) (int, error) {
	h.mu.Lock()
	defer h.mu.Unlock()
	if h.eof {
		return 0, io.ErrClosedPipe
	}
	idx := len(h.writes)
	h.attempts = append(h.attempts, append([]byte{}, p...))
	if idx == h.failAt {
		k := min(h.failKeep, len(p))
		h.wire = append(h.wire, p[:k]...)
		h.writes = append(h.writes, k)
		if !h.held {
			h.avail = append(h.avail, p[:k]...)
		}
		h.cond.Broadcast()
		return k, timeoutErr{}
	}
	h.wire = append(h.wire, p...)
	h.writes = append(h.writes, len(p))
	if !h.held {
		q := p
		if h.filter != nil {
			q = h.filter(idx, append([]byte{}, p...))
		}
		h.avail = append(h.avail, q...)
	}
	h.cond.Broadcast()
	return len(p), nil
}

func (h *half) read(p []byte) (int, error) {
	h.mu.Lock()
	defer h.mu.Unlock()
	for len(h.avail) == 0 && !h.eof && !h.dead {
		h.cond.Wait()
	}
	if h.dead {
		return 0, io.ErrClosedPipe
	}
	if len(h.avail) == 0 {
		return 0, io.EOF
	}
	n := copy(p, h.avail)
	h.avail = h.avail[n:]
	return n, nil
}

// closeWrite: no more bytes will come; the reader drains and then gets EOF.
func (h *half) closeWrite() {
	h.mu.Lock()
	h.eof = true
	h.cond.Broadcast()
	h.mu.Unlock()
}

func (h *half) kill() {
	h.mu.Lock()
	h.dead = true
	h.cond.Broadcast()
	h.mu.Unlock()
}

// hold stops automatic delivery from the current wire offset on.
func (h *half) hold() {
	h.mu.Lock()
	h.held = true
	h.hold0 = len(h.wire)
	h.mu.Unlock()
}

// heldBytes returns a copy of what was written since hold().
func (h *half) heldBytes() []byte {
	h.mu.Lock()
	defer h.mu.Unlock()
	return append([]byte{}, h.wire[h.hold0:]...)
}

// inject delivers arbitrary bytes to the reader.
func (h *half) inject(p []byte) {
	h.mu.Lock()
	h.avail = append(h.avail, p...)
	h.cond.Broadcast()
	h.mu.Unlock()
}

func (h *half) wireCopy() ([]byte, []int) {
	h.mu.Lock()
	defer h.mu.Unlock()
	return append([]byte{}, h.wire...), append([]int{}, h.writes...)
}

func (h *half) wireLen() int {
	h.mu.Lock()
	defer h.mu.Unlock()
	return len(h.wire)
}

// waitWrites blocks until at least n raw writes happened (or the half is closed).
func (h *half) waitWrites(n int) bool {
	h.mu.Lock()
	defer h.mu.Unlock()
	for len(h.writes) < n && !h.eof && !h.dead {
		h.cond.Wait()
	}
	return len(h.writes) >= n
}

// endpoint is one side of the duplex connection: io.ReadWriteCloser.
type endpoint struct {
	r, w   *half
	closed bool
	mu     sync.Mutex
}

func (e *endpoint) Read(p []byte) (int, error)  { return e.r.read(p) }
func (e *endpoint) Write(p []byte) (int, error) { return e.w.write(p) }
func (e *endpoint) Close() error {
	e.mu.Lock()
	defer e.mu.Unlock()
	if e.closed {
		return errors.New("already closed")
	}
	e.closed = true
	e.w.closeWrite()
	e.r.kill()
	return nil
}

// newDuplex returns the two endpoints and the two halves (ab: written by a, read by b).
func newDuplex() (a, b *endpoint, ab, ba *half) {
	ab, ba = newHalf(), newHalf()
	return &endpoint{r: ba, w: ab}, &endpoint{r: ab, w: ba}, ab, ba
}
