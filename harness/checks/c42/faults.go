package c42

import (
	"bytes"
	"encoding/binary"
	"errors"
	"fmt"
	"io"
	"math/rand/v2"
	"strings"
	"sync"

	"verifharness/internal/vf"
)

// ---------------------------------------------------------------- (5) data-phase fault enumeration

type dataOp struct {
	kind string
	name string
	// apply returns the byte stream delivered to the reader. frames: the sealed data frames a wrote, in order.
	apply func(frames [][]byte, env *faultEnv) []byte
}

type faultEnv struct {
	r            *rand.Rand
	otherDir     [][]byte // frames written by b towards a in the same session
	otherSession [][]byte // frames written by a (same long-term keys) in another session
	hsFrame      []byte   // a's sealed authentication frame of this session
}

func join(frames [][]byte) []byte { return bytes.Join(frames, nil) }

func cp(frames [][]byte) [][]byte {
	out := make([][]byte, len(frames))
	for i, f := range frames {
		out[i] = append([]byte{}, f...)
	}
	return out
}

func positions(n int) []int { return []int{0, n / 2, n - 1} }

func buildDataOps(c *vf.Ctx) []dataOp {
	var ops []dataOp
	add := func(kind, name string, f func(frames [][]byte, env *faultEnv) []byte) {
		ops = append(ops, dataOp{kind, name, f})
	}
	// flip: every byte offset of the middle frame; first/last frame at a stride
	for j := 0; j < frameSealed; j++ {
		j := j
		add("flip", fmt.Sprintf("flip/mid/%d", j), func(fr [][]byte, env *faultEnv) []byte {
			f := cp(fr)
			f[len(f)/2][j] ^= 1 << env.r.UintN(8)
			return join(f)
		})
		if j%c.N(29, 3) == 0 {
			for _, where := range []string{"first", "last"} {
				where := where
				add("flip", fmt.Sprintf("flip/%s/%d", where, j), func(fr [][]byte, env *faultEnv) []byte {
					f := cp(fr)
					k := 0
					if where == "last" {
						k = len(f) - 1
					}
					f[k][j] ^= 1 << env.r.UintN(8)
					return join(f)
				})
			}
		}
	}
	rep := c.N(12, 60)
	for t := 0; t < rep; t++ {
		t := t
		pos := func(n int) int { return positions(n)[t%3] }
		add("swap", fmt.Sprintf("swap/%d", t), func(fr [][]byte, env *faultEnv) []byte {
			f := cp(fr)
			k := pos(len(f) - 1)
			d := 1 + env.r.IntN(min(3, len(f)-1-k))
			f[k], f[k+d] = f[k+d], f[k]
			return join(f)
		})
		add("replay-later", fmt.Sprintf("replay-later/%d", t), func(fr [][]byte, env *faultEnv) []byte {
			f := cp(fr)
			k := pos(len(f))
			at := k + 1 + env.r.IntN(len(f)-k) // insert a copy after frame at-1 (at in k+1..len)
			out := append([][]byte{}, f[:at]...)
			out = append(out, append([]byte{}, f[k]...))
			out = append(out, f[at:]...)
			return join(out)
		})
		add("duplicate", fmt.Sprintf("duplicate/%d", t), func(fr [][]byte, env *faultEnv) []byte {
			f := cp(fr)
			k := pos(len(f))
			out := append([][]byte{}, f[:k+1]...)
			out = append(out, append([]byte{}, f[k]...))
			out = append(out, f[k+1:]...)
			return join(out)
		})
		add("drop", fmt.Sprintf("drop/%d", t), func(fr [][]byte, env *faultEnv) []byte {
			f := cp(fr)
			k := pos(len(f))
			return join(append(f[:k], f[k+1:]...))
		})
		add("truncate", fmt.Sprintf("truncate/%d", t), func(fr [][]byte, env *faultEnv) []byte {
			w := join(fr)
			k := pos(len(fr))
			cut := []int{0, 1, 4, 5, frameSealed / 2, frameSealed - 17, frameSealed - 16, frameSealed - 1}[env.r.IntN(8)]
			return w[:k*frameSealed+cut]
		})
		add("delete-bytes", fmt.Sprintf("delete-bytes/%d", t), func(fr [][]byte, env *faultEnv) []byte {
			w := join(fr)
			off := env.r.IntN(len(w))
			l := 1 + env.r.IntN(min(40, len(w)-off))
			if t%4 == 0 {
				l = min(frameSealed, len(w)-off) // a whole frame's worth at an arbitrary offset
			}
			return append(append([]byte{}, w[:off]...), w[off+l:]...)
		})
		add("insert-bytes", fmt.Sprintf("insert-bytes/%d", t), func(fr [][]byte, env *faultEnv) []byte {
			w := join(fr)
			off := env.r.IntN(len(w) + 1)
			ins := make([]byte, 1+env.r.IntN(40))
			if t%4 == 0 {
				ins = make([]byte, frameSealed)
			}
			for i := range ins {
				ins[i] = byte(env.r.UintN(256))
			}
			return append(append(append([]byte{}, w[:off]...), ins...), w[off:]...)
		})
		add("other-direction", fmt.Sprintf("other-direction/%d", t), func(fr [][]byte, env *faultEnv) []byte {
			f := cp(fr)
			k := pos(len(f))
			// same frame index of the opposite direction: same nonce value, other key
			f[k] = append([]byte{}, env.otherDir[min(k, len(env.otherDir)-1)]...)
			return join(f)
		})
		add("other-session", fmt.Sprintf("other-session/%d", t), func(fr [][]byte, env *faultEnv) []byte {
			f := cp(fr)
			k := pos(len(f))
			f[k] = append([]byte{}, env.otherSession[min(k, len(env.otherSession)-1)]...)
			return join(f)
		})
		add("handshake-frame", fmt.Sprintf("handshake-frame/%d", t), func(fr [][]byte, env *faultEnv) []byte {
			f := cp(fr)
			k := pos(len(f))
			if t%2 == 0 { // replace
				f[k] = append([]byte{}, env.hsFrame...)
				return join(f)
			}
			out := append([][]byte{}, f[:k]...) // insert before k
			out = append(out, append([]byte{}, env.hsFrame...))
			out = append(out, f[k:]...)
			return join(out)
		})
		add("zero-frame", fmt.Sprintf("zero-frame/%d", t), func(fr [][]byte, env *faultEnv) []byte {
			f := cp(fr)
			k := pos(len(f))
			z := make([]byte, frameSealed)
			if t%2 == 1 {
				for i := range z {
					z[i] = byte(env.r.UintN(256))
				}
			}
			f[k] = z
			return join(f)
		})
		add("tag-swap", fmt.Sprintf("tag-swap/%d", t), func(fr [][]byte, env *faultEnv) []byte {
			// ciphertext of frame k with the tag of frame k+1
			f := cp(fr)
			k := pos(len(f) - 1)
			copy(f[k][framePlain:], fr[k+1][framePlain:])
			return join(f)
		})
		add("splice-halves", fmt.Sprintf("splice-halves/%d", t), func(fr [][]byte, env *faultEnv) []byte {
			// first half of frame k, second half of frame k+1
			f := cp(fr)
			k := pos(len(f) - 1)
			h := 1 + env.r.IntN(frameSealed-1)
			copy(f[k][h:], fr[k+1][h:])
			return join(f)
		})
	}
	return ops
}

func splitFrames(w []byte) [][]byte {
	var out [][]byte
	for len(w) >= frameSealed {
		out = append(out, w[:frameSealed])
		w = w[frameSealed:]
	}
	return out
}

// planWrites returns write sizes producing at least 5 frames, with boundary-sized writes.
func planWrites(r *rand.Rand) []int {
	var sizes []int
	frames := 0
	for frames < 5 || len(sizes) < 4 {
		n := []int{1, 17, 500, 1023, 1024, 1025, 2048, 2049, 3000}[r.IntN(9)]
		sizes = append(sizes, n)
		frames += (n + frameData - 1) / frameData
	}
	return sizes
}

func writePlan(w io.Writer, s []byte, sizes []int) error {
	off := 0
	for _, n := range sizes {
		if k, err := w.Write(s[off : off+n]); err != nil || k != n {
			return fmt.Errorf("Write(%d)=%d,%v", n, k, err)
		}
		off += n
	}
	return nil
}

func sum(a []int) int {
	t := 0
	for _, v := range a {
		t += v
	}
	return t
}

func dataFaults(c *vf.Ctx) {
	ops := buildDataOps(c)
	c.Set("data_fault_operations", len(ops))
	c.Parallel(len(ops), 8, 50_000, func(i int, r *rand.Rand) {
		op := ops[i]
		tag := fmt.Sprintf("datafault/%d/%s", c.Seed, op.name)
		w := map[string]any{"case": tag, "op": op.name, "seed": c.Seed}
		p, ok := connect(c, "datafault-keys") // same long-term keys in every session (needed for other-session frames)
		if !ok {
			return
		}
		defer p.close()
		env := &faultEnv{r: r}
		hsWire, _ := p.ab.wireCopy()
		env.hsFrame = append([]byte{}, hsWire[p.hsAB-frameSealed:p.hsAB]...)
		if op.kind == "other-session" {
			q, ok := connect(c, "datafault-keys")
			if !ok {
				return
			}
			q.ab.hold()
			junk := make([]byte, 8*frameData)
			q.sa.Write(junk)
			env.otherSession = splitFrames(q.ab.heldBytes())
			q.close()
		}
		p.ab.hold()
		p.ba.hold()
		sizes := planWrites(r)
		s := randStream(r, sum(sizes), []byte("data-fault-canary-xyz"))
		if err := writePlan(p.sa, s, sizes); err != nil {
			c.Violation("write-failed:honest", w, "%v", err)
			return
		}
		back := make([]byte, 8*frameData)
		p.sb.Write(back)
		env.otherDir = splitFrames(p.ba.heldBytes())
		written := p.ab.heldBytes()
		frames := splitFrames(written)
		model := frameSizes(sizes)
		if len(frames) != len(model) || len(written) != len(frames)*frameSealed {
			c.Inconclusive(fmt.Sprintf("framing model mismatch: %d wire bytes, model %d frames", len(written), len(model)))
			return
		}
		delivered := op.apply(frames, env)
		// first difference between what was written and what is delivered
		d := 0
		for d < len(delivered) && d < len(written) && delivered[d] == written[d] {
			d++
		}
		if d == len(delivered) && d == len(written) {
			c.Count("data_fault_noop", 1)
			return
		}
		k := d / frameSealed // first frame that is altered, missing or displaced
		wantLen := sum(model[:k])
		p.ab.inject(delivered)
		p.ab.closeWrite()
		type rr struct {
			got []byte
			err error
		}
		ch := make(chan rr, 1)
		go func() { g, e, _ := readUntil(p.sb, -1, r); ch <- rr{g, e} }()
		res, ok := await(c, "reader under data fault", ch)
		if !ok {
			return
		}
		c.Case(tag, true)
		c.Count("data_faults", 1)
		c.Count("data_fault:"+op.kind, 1)
		w["first_altered_frame"] = k
		w["frames"] = len(frames)
		w["write_sizes"] = sizes
		w["read_bytes"] = len(res.got)
		w["want_bytes"] = wantLen
		w["error"] = fmt.Sprint(res.err)
		switch {
		case !bytes.HasPrefix(s, res.got):
			c.Violation("altered-plaintext-delivered:"+op.kind, w, "under %s the reader obtained %d bytes that are NOT a prefix of the %d bytes written (first altered frame %d)", op.name, len(res.got), len(s), k)
		case len(res.got) > wantLen:
			c.Violation("plaintext-past-tampered-frame:"+op.kind, w, "under %s the reader obtained %d bytes although only %d bytes precede the first altered frame %d", op.name, len(res.got), wantLen, k)
		case res.err == nil:
			c.Violation("no-error:"+op.kind, w, "under %s the reader got no error", op.name)
		case len(res.got) < wantLen:
			c.Violation("intact-frames-lost:"+op.kind, w, "under %s the reader obtained only %d of the %d bytes carried by the intact frames before frame %d (err %v)", op.name, len(res.got), wantLen, k, res.err)
		default:
			switch {
			case errors.Is(res.err, io.EOF), errors.Is(res.err, io.ErrUnexpectedEOF):
				c.Count("data_fault_eof_errors", 1)
			case strings.Contains(res.err.Error(), "decrypt"):
				c.Count("data_fault_decrypt_errors", 1)
			default:
				c.Count("data_fault_other_errors", 1)
			}
		}
		if i%400 == 0 {
			c.Sample(map[string]any{"scenario": "data-fault", "op": op.name, "write_sizes": sizes, "first_altered_frame": k, "read_bytes": len(res.got), "error": fmt.Sprint(res.err)})
		}
	})
}

// ---------------------------------------------------------------- (6) concurrent writers (documented: writes <= 1024 bytes are atomic)

func recPayload(writer, seq, n int) []byte {
	b := make([]byte, n)
	x := uint32(writer*7919 + seq*104729 + 1)
	for i := range b {
		x = x*1664525 + 1013904223
		b[i] = byte(x >> 24)
	}
	return b
}

func concurrentWriters(c *vf.Ctx) {
	n := c.N(6, 30)
	c.Parallel(n, 6, 60_000, func(i int, r *rand.Rand) {
		tag := fmt.Sprintf("concurrent/%d/%d", c.Seed, i)
		w := map[string]any{"case": tag, "seed": c.Seed}
		p, ok := connect(c, tag)
		if !ok {
			return
		}
		defer p.close()
		const writers = 3
		perWriter := c.N(120, 400)
		type dir struct {
			w io.Writer
			r io.Reader
		}
		dirs := []dir{{p.sa, p.sb}, {p.sb, p.sa}}
		done := make(chan string, 2*(writers+1))
		halves := []*half{p.ab, p.ba}
		for di, d := range dirs {
			var wg sync.WaitGroup
			wg.Add(writers)
			hv := halves[di]
			go func() { wg.Wait(); hv.closeWrite() }() // end of stream once all writers of this direction are done
			d := d
			di := di
			seeds := make([]uint64, writers)
			for k := range seeds {
				seeds[k] = r.Uint64()
			}
			for wr := 0; wr < writers; wr++ {
				wr := wr
				go func() {
					defer wg.Done()
					rr := rand.New(rand.NewPCG(seeds[wr], uint64(wr)))
					for seq := 0; seq < perWriter; seq++ {
						n := []int{0, 1, 100, 1017, 1016, 500}[rr.IntN(6)] // header 7 bytes: total <= 1024
						rec := make([]byte, 7+n)
						rec[0] = byte(wr)
						binary.BigEndian.PutUint32(rec[1:], uint32(seq))
						binary.BigEndian.PutUint16(rec[5:], uint16(n))
						copy(rec[7:], recPayload(wr+10*di, seq, n))
						if k, err := d.w.Write(rec); err != nil || k != len(rec) {
							done <- fmt.Sprintf("write: %d,%v", k, err)
							return
						}
					}
					done <- ""
				}()
			}
			go func() {
				next := make([]int, writers)
				hdr := make([]byte, 7)
				for rec := 0; rec < writers*perWriter; rec++ {
					if _, err := io.ReadFull(d.r, hdr); err != nil {
						done <- fmt.Sprintf("read header of record %d: %v", rec, err)
						return
					}
					wr, seq, n := int(hdr[0]), int(binary.BigEndian.Uint32(hdr[1:])), int(binary.BigEndian.Uint16(hdr[5:]))
					if wr >= writers || n > 1017 || seq != next[wr] {
						done <- fmt.Sprintf("record %d: header writer=%d seq=%d len=%d, expected seq %v (records of concurrent writers interleaved or reordered)", rec, wr, seq, n, next)
						return
					}
					body := make([]byte, n)
					if _, err := io.ReadFull(d.r, body); err != nil {
						done <- fmt.Sprintf("read body: %v", err)
						return
					}
					if !bytes.Equal(body, recPayload(wr+10*di, seq, n)) {
						done <- fmt.Sprintf("record writer=%d seq=%d: payload corrupted", wr, seq)
						return
					}
					next[wr]++
				}
				done <- ""
			}()
		}
		for k := 0; k < 2*(writers+1); k++ {
			msg, ok := await(c, "concurrent writers", done)
			if !ok {
				return
			}
			if msg != "" {
				c.Violation("concurrent-writers", w, "with %d concurrent writers of records <= 1024 bytes per direction: %s", writers, msg)
				return
			}
		}
		c.Case(tag, true)
		c.Count("concurrent_records", 2*writers*perWriter)
	})
}
