package c34

// Syscall-level crash enumeration: the real signer (privval.PrivValidator over the
// real files) runs in a child process under strace; the k-th file-system call that
// renames, unlinks or syncs (any thread) kills the process on entry, or fails with
// EIO. The child is then started again on the same directory and asked for (a) a
// lower height/round/step than the highest one it had released a signature for and
// (b) conflicting data at exactly that height/round/step. Both must be refused.
// Whatever sequence of system calls the implementation uses to persist its state is
// enumerated as it is, not as this harness imagines it.

import (
	"bufio"
	"encoding/json"
	"fmt"
	"math/rand/v2"
	"os"
	"os/exec"
	"path/filepath"
	"strings"

	"github.com/gnolang/gno/tm2/pkg/bft/privval"
	"github.com/gnolang/gno/tm2/pkg/bft/privval/signer/local"

	"verifharness/internal/vf"
)

func init() {
	vf.Register(&vf.Check{ID: "C34CHILD", Rule: "child worker of C34 (not a property check)", Run: sysChild})
}

// sysChild signs the requests of $C34_REQS in order on the files under $C34_DIR and
// appends one line per request to $C34_OUT ("signed <i>" only after the call returned).
func sysChild(c *vf.Ctx) {
	dir, out := os.Getenv("C34_DIR"), os.Getenv("C34_OUT")
	var reqs []req
	if err := json.Unmarshal([]byte(os.Getenv("C34_REQS")), &reqs); err != nil {
		panic(err)
	}
	sg, err := local.LoadOrMakeLocalSigner(filepath.Join(dir, "key.json"))
	if err != nil {
		fmt.Println("C34CHILD load-key-error", err)
		os.Exit(7)
	}
	pv, err := privval.NewPrivValidator(sg, filepath.Join(dir, "state.json"))
	if err != nil {
		// a state file that cannot be loaded stops the validator: it signs nothing
		f, _ := os.OpenFile(out, os.O_APPEND|os.O_CREATE|os.O_WRONLY, 0o600)
		fmt.Fprintf(f, "loadfail %v\n", err)
		f.Sync()
		f.Close()
		os.Exit(0)
	}
	addr := sg.PubKey().Address()
	f, err := os.OpenFile(out, os.O_APPEND|os.O_CREATE|os.O_WRONLY, 0o600)
	if err != nil {
		panic(err)
	}
	for i, q := range reqs {
		vote, prop := q.build(addr)
		var serr error
		pvv := vf.Try(func() {
			if vote != nil {
				serr = pv.SignVote(chainIDs[q.Chain], vote)
			} else {
				serr = pv.SignProposal(chainIDs[q.Chain], prop)
			}
		})
		switch {
		case pvv != nil:
			fmt.Fprintf(f, "panic %d %v\n", i, pvv)
		case serr != nil:
			fmt.Fprintf(f, "refused %d %s\n", i, strings.ReplaceAll(serr.Error(), "\n", " "))
		default:
			fmt.Fprintf(f, "signed %d\n", i)
		}
	}
	f.Close()
	os.Exit(0)
}

func readLines(p string) []string {
	fh, err := os.Open(p)
	if err != nil {
		return nil
	}
	defer fh.Close()
	var out []string
	sc := bufio.NewScanner(fh)
	for sc.Scan() {
		out = append(out, sc.Text())
	}
	return out
}

const sysCalls = "rename,renameat,renameat2,unlink,unlinkat,fsync,fdatasync"

func runSysChild(dir, out string, reqs []req, inject string) (exit int, log string) {
	b, _ := json.Marshal(reqs)
	args := []string{os.Args[0], "C34CHILD", "quick"}
	name := os.Args[0]
	if inject != "" {
		name = "strace"
		args = append([]string{"strace", "-f", "-qq", "-o", "/dev/null", "-e", "trace=" + sysCalls, "-e", "inject=" + sysCalls + ":" + inject}, args...)
	}
	cmd := exec.Command(name, args[1:]...)
	cmd.Env = append(os.Environ(), "C34_DIR="+dir, "C34_OUT="+out, "C34_REQS="+string(b), "VERIF_RACE_LOG=", "GOMAXPROCS=1", "VERIF_OUT="+filepath.Join(dir, "childout"))
	ob, err := cmd.CombinedOutput()
	if ee, ok := err.(*exec.ExitError); ok {
		return ee.ExitCode(), string(ob)
	} else if err != nil {
		return -2, err.Error() + string(ob)
	}
	return 0, string(ob)
}

func syscallCrashes(c *vf.Ctx) {
	if _, err := exec.LookPath("strace"); err != nil {
		c.Inconclusive("strace not found: the syscall-level crash enumeration did not run")
		return
	}
	nSeq := c.N(3, 24)
	c.Parallel(nSeq, 6, 5000, func(si int, r *rand.Rand) {
		// an increasing sequence of requests: every one is signed and persisted
		var seq []req
		h := int64(5 + r.IntN(5))
		for len(seq) < 3+r.IntN(3) {
			kind := []string{"proposal", "prevote", "precommit"}[r.IntN(3)]
			seq = append(seq, req{Kind: kind, H: h, R: r.IntN(2), Block: 1 + r.IntN(3), POL: -1, TS: 1_700_000_000_000_000_000 + int64(len(seq))})
			h += int64(1 + r.IntN(3))
		}
		base := filepath.Join(c.WorkDir, fmt.Sprintf("sys%d", si))
		for _, mode := range []string{"signal=SIGKILL", "error=EIO"} {
			for k := 1; k <= 60; k++ {
				dir := filepath.Join(base, fmt.Sprintf("%s-%d", mode[:5], k))
				os.MkdirAll(dir, 0o700)
				out1, out := filepath.Join(dir, "out1.log"), filepath.Join(dir, "out2.log")
				// a first, undisturbed request creates key and state files
				if ex, lg := runSysChild(dir, out1, seq[:1], ""); ex != 0 {
					c.Violation("syscrash-setup-failed", map[string]any{"log": lg}, "undisturbed first run exited %d: %s", ex, lg)
					return
				}
				ex, lg := runSysChild(dir, out, seq[1:], fmt.Sprintf("%s:when=%d", mode, k))
				lines := readLines(out)
				// highest request whose signature was released (the call returned nil): seq[0] by the first run
				released, refusedAny := 0, false
				for _, l := range lines {
					var i int
					if n, _ := fmt.Sscanf(l, "signed %d", &i); n == 1 && 1+i > released {
						released = 1 + i
					}
					if strings.HasPrefix(l, "refused") || strings.HasPrefix(l, "panic") {
						refusedAny = true
					}
				}
				killed := ex != 0
				if !killed && !refusedAny {
					// fewer than k matching calls: the whole sequence ran; the enumeration of this mode is complete
					c.Count("syscrash_points_enumerated:"+mode, k-1)
					os.RemoveAll(dir)
					break
				}
				c.Case(fmt.Sprintf("syscrash/%d/%s/%d", si, mode, k), true)
				c.Count("syscrash_cases", 1)
				st, _ := os.ReadFile(filepath.Join(dir, "state.json")) // may be missing: that is an observation, not a harness error
				c.Distinct(fmt.Sprintf("syscrash-state/%x", hashBytes(st)))
				w := map[string]any{"sequence": fmt.Sprint(seq), "fault": fmt.Sprintf("%s at the %d-th of {%s} (per thread)", mode, k, sysCalls), "child_output": lines, "strace_child_exit": ex, "state_file_after": string(st), "dir_listing": listDir(dir), "child_stderr": clipS(lg, 400)}
				top := seq[released]
				// probes after the restart
				lower := top
				lower.H--
				lower.TS += 1000
				conflict := top
				conflict.Block = top.Block%3 + 1
				conflict.TS += 1000
				pout := filepath.Join(dir, "probe.log")
				pex, plg := runSysChild(dir, pout, []req{lower, conflict}, "")
				pl := readLines(pout)
				w["probe_output"] = pl
				if pex != 0 {
					c.Violation("syscrash-restart-died", w, "after %s at matching call %d the restarted signer process exited %d: %s", mode, k, pex, clipS(plg, 300))
					os.RemoveAll(dir)
					continue
				}
				for _, l := range pl {
					if strings.HasPrefix(l, "signed 0") {
						c.Violation("syscrash:lower-hrs-signed-after-restart", w, "sequence %d, %s at the %d-th matching call: the restarted validator signed %s although it had released a signature for %s", si, mode, k, lower, top)
					}
					if strings.HasPrefix(l, "signed 1") {
						c.Violation("syscrash:conflicting-data-signed-after-restart", w, "sequence %d, %s at the %d-th matching call: the restarted validator signed conflicting data %s at the height/round/step of the released %s", si, mode, k, conflict, top)
					}
				}
				if len(pl) > 0 && strings.HasPrefix(pl[0], "loadfail") {
					c.Count("syscrash_restart_refuses_to_load", 1) // safe: it signs nothing
				}
				c.Count("syscrash_probes", 1)
				os.RemoveAll(dir)
			}
		}
	})
	c.RequireCounter("syscrash_cases", int64(nSeq*4))
	c.RequireCounter("syscrash_probes", int64(nSeq*3))
}

func hashBytes(b []byte) uint64 {
	var h uint64 = 1469598103934665603
	for _, x := range b {
		h = (h ^ uint64(x)) * 1099511628211
	}
	return h
}

func listDir(d string) []string {
	es, _ := os.ReadDir(d)
	var out []string
	for _, e := range es {
		out = append(out, e.Name())
	}
	return out
}

func clipS(s string, n int) string {
	if len(s) > n {
		return s[:n]
	}
	return s
}
