// Package c34: the private validator never double-signs, even across crashes.
//
// Oracle: an append-only log kept by the harness (it survives the simulated
// crashes) of every request and its outcome. Over the RETURNED signatures
// (err == nil) it keeps, per (height, round, step), the first returned
// (sign-bytes, signature) and the highest HRS returned so far, and requires:
//
//   - a success for an HRS that already has a returned signature returns
//     byte-identical sign-bytes (so: the ORIGINAL timestamp) and the identical
//     signature; if the request differed from the original in anything but the
//     timestamp that is a double-sign;
//   - a first success for an HRS is never lower than the highest HRS returned;
//   - the returned signature verifies for the returned message.
//
// Whether two requests "differ only by timestamp" is decided on the request
// fields by the harness, not by parsing sign-bytes.
//
// Crash = the in-memory PrivValidator and signer are discarded and re-created
// from the key file and the state file. Crash points per request:
//
//	after-sign     the signer produced the signature, crash before FileState.Update (signer wrapper panics)
//	waf-temp-part  inside WriteFileAtomic: temp file partly written, state file still old
//	waf-temp-full  inside WriteFileAtomic: temp file complete (O_SYNC write done), not yet renamed
//	waf-renamed    rename done (state file new), crash before SignVote/SignProposal returns (signature never delivered)
//	after-return   signature delivered, then crash
//	save-io-error  (a fault, not a crash) the state directory is unavailable during the request, so persisting fails
//
// A direct monitor of the mechanism accompanies the oracle: at the moment a
// signature is returned, the state file on disk must already hold that
// height/round/step and sign-bytes (otherwise a crash right after the return
// forgets the signature). Once that monitor has fired in a run, later oracle
// violations of the same run carry the suffix "-after-unpersisted-return" so
// that the root cause and its consequences have their own keys.
//
// The three WriteFileAtomic points are produced from outside as exactly the
// on-disk states that function can leave (old file / old file + temp file /
// new file): the request runs to completion, the harness snapshots the state
// file before and after, then rewrites the directory to the crash state and
// discards the result.
package c34

import (
	"bytes"
	"encoding/json"
	"fmt"
	"math/rand/v2"
	"os"
	"path/filepath"
	"strings"
	"sync/atomic"
	"time"

	"github.com/gnolang/gno/tm2/pkg/bft/privval"
	"github.com/gnolang/gno/tm2/pkg/bft/privval/signer/local"
	"github.com/gnolang/gno/tm2/pkg/bft/types"
	"github.com/gnolang/gno/tm2/pkg/crypto"

	"verifharness/internal/vf"
)

func init() {
	vf.Register(&vf.Check{
		ID:    "C34",
		Level: "fault_enumeration",
		Rule: "cases = (request sequence, crash plan): sequences of 5..10 sign requests (prevote/precommit/proposal; advancing, exact repeat, timestamp-only, conflicting block/POL round/chain id, regressing height/round/step, a few invalid rounds) " +
			"generated from the seed; for every sequence the fault plans enumerated are: no fault, EVERY (request index, fault) pair for the 5 crash points and the save-I/O-error fault, and random multi-fault plans; " +
			"non-trivial = the crash hits a request whose signature was being persisted (signer invoked / state file changed) or a same-HRS request follows a crash; distinct by (sequence, plan)",
		Run: run,
	})
}

const (
	cpNone = iota
	cpAfterSign
	cpTempPartial
	cpTempFull
	cpRenamed
	cpAfterReturn
	cpSaveError // not a crash: persisting fails with an I/O error (state directory unavailable during the request)
	nCP
)

var cpNames = []string{"none", "after-sign", "waf-temp-part", "waf-temp-full", "waf-renamed", "after-return", "save-io-error"}

var chainIDs = []string{"c34-chain", "c34-other-chain"}

type req struct {
	Kind  string // prevote | precommit | proposal
	H     int64
	R     int
	Block int // 0 = nil block id
	POL   int // proposals
	Chain int
	TS    int64 // unix nanos
	Class string
}

func (q req) step() int {
	switch q.Kind {
	case "proposal":
		return 1
	case "prevote":
		return 2
	}
	return 3
}

type hrs struct {
	H int64
	R int
	S int
}

func (a hrs) less(b hrs) bool {
	if a.H != b.H {
		return a.H < b.H
	}
	if a.R != b.R {
		return a.R < b.R
	}
	return a.S < b.S
}

func (q req) hrs() hrs { return hrs{q.H, q.R, q.step()} }

func (q req) String() string {
	return fmt.Sprintf("%s(%d/%d b%d pol%d c%d t%d)[%s]", q.Kind, q.H, q.R, q.Block, q.POL, q.Chain, q.TS%100000, q.Class)
}

// sameButTime: the two requests are the same message up to the timestamp.
func sameButTime(a, b req) bool {
	a.TS, b.TS, a.Class, b.Class = 0, 0, "", ""
	if a.Kind != "proposal" {
		a.POL, b.POL = 0, 0
	}
	return a == b
}

func blockID(i int) types.BlockID {
	if i == 0 {
		return types.BlockID{}
	}
	return types.BlockID{
		Hash:        bytes.Repeat([]byte{byte(i)}, 32),
		PartsHeader: types.PartSetHeader{Total: i, Hash: bytes.Repeat([]byte{byte(0x80 + i)}, 32)},
	}
}

type signable interface {
	SignBytes(chainID string) []byte
}

func (q req) build(addr crypto.Address) (vote *types.Vote, prop *types.Proposal) {
	ts := time.Unix(0, q.TS).UTC()
	if q.Kind == "proposal" {
		return nil, &types.Proposal{Type: types.ProposalType, Height: q.H, Round: q.R, POLRound: q.POL, BlockID: blockID(q.Block), Timestamp: ts}
	}
	t := types.PrevoteType
	if q.Kind == "precommit" {
		t = types.PrecommitType
	}
	return &types.Vote{Type: t, Height: q.H, Round: q.R, BlockID: blockID(q.Block), Timestamp: ts, ValidatorAddress: addr, ValidatorIndex: 0}, nil
}

// ---- sequence generator ----

func genSeq(r *rand.Rand, n int) []req {
	var seq []req
	cur := hrs{H: 1 + r.Int64N(3), R: 0, S: 0}
	if r.IntN(6) == 0 {
		cur.H = 1 + r.Int64N(1<<40)
	}
	ts := int64(1700000000)*1e9 + r.Int64N(1e9)
	kinds := []string{"", "proposal", "prevote", "precommit"}
	fresh := func(h hrs, class string) req {
		ts += 1 + r.Int64N(5e9)
		q := req{Kind: kinds[h.S], H: h.H, R: h.R, Block: r.IntN(3), TS: ts, Class: class}
		if q.Kind == "proposal" {
			q.POL = r.IntN(3) - 1
			q.Block = 1 + r.IntN(2)
		}
		return q
	}
	for len(seq) < n {
		k := r.IntN(100)
		var prev *req
		if len(seq) > 0 {
			j := len(seq) - 1
			if r.IntN(4) == 0 {
				j = r.IntN(len(seq))
			}
			prev = &seq[j]
		}
		switch {
		case prev == nil || k < 38: // advance
			switch a := r.IntN(10); {
			case cur.S == 0:
				cur.S = 1 + r.IntN(3)
			case a < 5 && cur.S < 3:
				cur.S++
			case a < 7:
				cur.R += 1 + r.IntN(2)
				cur.S = 1 + r.IntN(3)
			default:
				cur.H += 1 + int64(r.IntN(2))
				cur.R = 0
				cur.S = 1 + r.IntN(3)
			}
			seq = append(seq, fresh(cur, "advance"))
		case k < 52: // exact repeat
			q := *prev
			q.Class = "repeat"
			seq = append(seq, q)
		case k < 68: // timestamp-only change
			q := *prev
			ts += 1 + r.Int64N(5e9)
			q.TS = ts
			if r.IntN(4) == 0 {
				q.TS = prev.TS - 1 - r.Int64N(1e9) // earlier timestamp
			}
			q.Class = "timestamp-only"
			seq = append(seq, q)
		case k < 84: // conflicting: same HRS, different content
			q := *prev
			switch c := r.IntN(4); {
			case c == 0:
				q.Chain = 1 - q.Chain
			case c == 1 && q.Kind == "proposal":
				q.POL = q.POL + 1
			default:
				q.Block = (q.Block + 1 + r.IntN(2)) % 3
				if q.Kind == "proposal" && q.Block == 0 {
					q.Block = 3
				}
			}
			if r.IntN(2) == 0 {
				ts += 1 + r.Int64N(5e9)
				q.TS = ts
			}
			q.Class = "conflicting"
			seq = append(seq, q)
		case k < 97: // regressing relative to the cursor
			h := cur
			switch r.IntN(4) {
			case 0:
				if h.H > 1 {
					h.H--
				}
				h.R = r.IntN(3)
				h.S = 1 + r.IntN(3)
			case 1:
				if h.R > 0 {
					h.R--
				} else if h.S > 1 {
					h.S--
				}
			case 2:
				if h.S > 1 {
					h.S = 1 + r.IntN(h.S-1)
				} else if h.R > 0 {
					h.R--
					h.S = 3
				}
			default: // an HRS of an earlier request, new content
				h = prev.hrs()
			}
			if h.S == 0 {
				h.S = 1
			}
			seq = append(seq, fresh(h, "regressing"))
		default: // invalid round (negative) at a new height: signing succeeds, persisting is refused
			h := hrs{H: cur.H + 1, R: -1, S: 2 + r.IntN(2)}
			seq = append(seq, fresh(h, "invalid-round"))
		}
	}
	return seq
}

// ---- the validator under test, with a crash-injecting signer wrapper ----

type crashSentinel struct{}

type wrapSigner struct {
	types.Signer
	arm      bool // crash after the next signature is produced
	produced int  // signatures produced by this incarnation
	total    *int // signatures produced over the whole run (all incarnations)
}

func (w *wrapSigner) Sign(b []byte) ([]byte, error) {
	sig, err := w.Signer.Sign(b)
	if err == nil {
		w.produced++
		*w.total++
		if w.arm {
			w.arm = false
			panic(crashSentinel{})
		}
	}
	return sig, err
}

type entry struct {
	Idx     int    `json:"i"`
	Req     string `json:"req"`
	CP      string `json:"crash_point,omitempty"`
	Outcome string `json:"outcome"`
}

type firstSig struct {
	rq        req
	signBytes []byte
	sig       []byte
	idx       int
}

type runState struct {
	c          *vf.Ctx
	seq        []req
	plan       []int
	dir        string
	keyPath    string
	statePath  string
	pv         *privval.PrivValidator
	ws         *wrapSigner
	sigTotal   int
	log        []entry
	signed     map[hrs]*firstSig
	maxHRS     *hrs
	maxIdx     int
	afterCrash bool
	tainted    bool         // a signature was returned that is not in the state file, after a failed save
	failedSave map[hrs]bool // HRS for which the signer produced a signature but the call returned an error (save refused / I/O error)
}

func (rs *runState) witness(extra ...any) map[string]any {
	var sq, pl []string
	for _, q := range rs.seq {
		sq = append(sq, q.String())
	}
	for _, p := range rs.plan {
		pl = append(pl, cpNames[p])
	}
	m := map[string]any{"sequence": sq, "crash_plan": pl, "log": rs.log}
	for k := 0; k+1 < len(extra); k += 2 {
		m[fmt.Sprint(extra[k])] = extra[k+1]
	}
	return m
}

func (rs *runState) load() error {
	sg, err := local.LoadOrMakeLocalSigner(rs.keyPath)
	if err != nil {
		return err
	}
	rs.ws = &wrapSigner{Signer: sg, total: &rs.sigTotal}
	pv, err := privval.NewPrivValidator(rs.ws, rs.statePath)
	if err != nil {
		return err
	}
	rs.pv = pv
	return nil
}

func readFile(p string) []byte {
	b, err := os.ReadFile(p)
	if err != nil {
		panic(err)
	}
	return b
}

var tempSeq atomic.Int64

// judge applies the oracle to one returned success.
// viol reports a violation and counts it per key (the replay cap hides later keys otherwise).
func (rs *runState) viol(key string, w map[string]any, format string, a ...any) {
	rs.c.Count("violations:"+key, 1)
	rs.c.Violation(key, w, format, a...)
}

func (rs *runState) key(k string) string {
	if rs.tainted {
		if j := strings.IndexByte(k, ':'); j >= 0 {
			k = k[:j]
		}
		return k + "-after-unpersisted-return"
	}
	return k
}

// persisted checks the mechanism: the state file holds the HRS and sign-bytes
// of the signature that is being returned.
func (rs *runState) persisted(i int, q req, sb []byte) {
	var f struct {
		Height    string `json:"height"`
		Round     string `json:"round"`
		Step      int    `json:"step"`
		SignBytes []byte `json:"signbytes"`
	}
	raw := readFile(rs.statePath)
	if err := json.Unmarshal(raw, &f); err != nil {
		panic(fmt.Sprintf("state file is not JSON: %v", err))
	}
	if f.Height == fmt.Sprint(q.H) && f.Round == fmt.Sprint(q.R) && f.Step == q.step() && bytes.Equal(f.SignBytes, sb) {
		rs.c.Count("returned_signature_found_in_state_file", 1)
		return
	}
	if rs.failedSave[q.hrs()] {
		// known mechanism: FileState.Update changed the in-memory state, save() failed, the error was
		// returned - and this later request for the same HRS is answered from the in-memory state.
		rs.tainted = true
		rs.viol("returned-signature-not-persisted:after-failed-save", rs.witness("index", i, "state_file", string(raw)),
			"request %d %s returned a signature, but the state file holds height=%s round=%s step=%d: an earlier save for this HRS failed (error returned) and left the in-memory state updated, so the signature returned now was never persisted", i, q, f.Height, f.Round, f.Step)
		return
	}
	rs.viol("returned-signature-not-persisted", rs.witness("index", i, "state_file", string(raw)),
		"request %d %s returned a signature, but the state file holds height=%s round=%s step=%d", i, q, f.Height, f.Round, f.Step)
}

func (rs *runState) judge(i int, q req, msg signable, sig []byte) {
	c := rs.c
	sb := msg.SignBytes(chainIDs[q.Chain])
	h := q.hrs()
	rs.persisted(i, q, sb)
	if !rs.ws.PubKey().VerifyBytes(sb, sig) {
		rs.viol(rs.key("returned-signature-invalid:"+q.Class), rs.witness("index", i), "request %d %s: the returned signature does not verify for the returned message", i, q)
	}
	if f := rs.signed[h]; f != nil {
		same := bytes.Equal(sb, f.signBytes) && bytes.Equal(sig, f.sig)
		switch {
		case !sameButTime(q, f.rq):
			// any success here is a second, different message at this HRS
			rs.viol(rs.key("double-sign:"+q.Class), rs.witness("index", i, "first_index", f.idx), "request %d %s succeeded although request %d %s was already signed at the same height/round/step with different content", i, q, f.idx, f.rq)
		case !same && bytes.Equal(sig, f.sig):
			rs.viol(rs.key("timestamp-resign-not-original-timestamp"), rs.witness("index", i, "first_index", f.idx), "request %d %s (timestamp-only change of %d): original signature returned with sign-bytes that differ from the original (timestamp not restored)", i, q, f.idx)
		case !same:
			rs.viol(rs.key("timestamp-resign-new-signature"), rs.witness("index", i, "first_index", f.idx), "request %d %s (same message up to timestamp as %d): a different signature was returned", i, q, f.idx)
		default:
			if q.TS != f.rq.TS {
				c.Count("ok_timestamp_only_returned_original", 1)
			} else {
				c.Count("ok_repeat_returned_original", 1)
			}
			if rs.afterCrash {
				c.Count("ok_resign_after_crash_returned_original", 1)
			}
		}
		return
	}
	if rs.maxHRS != nil && h.less(*rs.maxHRS) {
		rs.viol(rs.key("regression-signed:"+q.Class), rs.witness("index", i, "highest_index", rs.maxIdx), "request %d %s succeeded below the highest HRS already signed (%v by request %d)", i, q, *rs.maxHRS, rs.maxIdx)
		return
	}
	rs.signed[h] = &firstSig{rq: q, signBytes: sb, sig: append([]byte{}, sig...), idx: i}
	if rs.maxHRS == nil || rs.maxHRS.less(h) {
		hh := h
		rs.maxHRS, rs.maxIdx = &hh, i
	}
	c.Count("ok_first_signature_for_hrs", 1)
}

// execute runs one (sequence, plan).
func (rs *runState) execute() {
	c := rs.c
	if err := rs.load(); err != nil {
		panic(err)
	}
	addr := rs.ws.PubKey().Address()
	nontrivial := false
	for i, q := range rs.seq {
		cp := rs.plan[i]
		old := readFile(rs.statePath)
		vote, prop := q.build(addr)
		producedBefore := rs.sigTotal
		rs.ws.arm = cp == cpAfterSign
		var err error
		if cp == cpSaveError {
			if e := os.Rename(rs.dir, rs.dir+".off"); e != nil {
				panic(e)
			}
		}
		pv := vf.Try(func() {
			if vote != nil {
				err = rs.pv.SignVote(chainIDs[q.Chain], vote)
			} else {
				err = rs.pv.SignProposal(chainIDs[q.Chain], prop)
			}
		})
		rs.ws.arm = false
		if cp == cpSaveError {
			if e := os.Rename(rs.dir+".off", rs.dir); e != nil {
				panic(e)
			}
		}
		signerInvoked := rs.sigTotal > producedBefore
		cur := readFile(rs.statePath)
		saved := !bytes.Equal(old, cur)
		e := entry{Idx: i, Req: q.String()}
		if cp != cpNone {
			e.CP = cpNames[cp]
		}
		crashed := false
		deliver := false
		switch {
		case pv != nil:
			crashed = true
			if _, ok := pv.(crashSentinel); ok {
				e.Outcome = "crashed after signing, before the state update"
				c.Count("crash_after-sign_signature_lost", 1)
				nontrivial = true
				if saved {
					rs.viol("state-persisted-before-signing", rs.witness("index", i), "state file changed although the crash happened inside the signer")
				}
			} else {
				e.Outcome = fmt.Sprintf("panic: %v", pv)
				c.Count("panic_in_sign_"+q.Class, 1)
			}
		case cp == cpSaveError:
			deliver = true
			if signerInvoked && err != nil {
				c.Count("fault_save-io-error_save_failed", 1)
				nontrivial = true
			} else {
				c.Count("fault_save-io-error_degenerate_no_save", 1)
			}
		case cp == cpNone || cp == cpAfterSign: // after-sign with no signer call degenerates to no crash
			deliver = true
			if cp == cpAfterSign {
				c.Count("crash_after-sign_degenerate_no_signer_call", 1)
			}
		case cp == cpTempPartial || cp == cpTempFull:
			crashed = true
			// state file still old, temp file next to it
			if err := os.WriteFile(rs.statePath, old, 0o600); err != nil {
				panic(err)
			}
			content := cur
			if cp == cpTempPartial {
				content = cur[:len(cur)/2]
			}
			tmp := filepath.Join(rs.dir, fmt.Sprintf("write-file-atomic-%019d", tempSeq.Add(1)))
			if err := os.WriteFile(tmp, content, 0o600); err != nil {
				panic(err)
			}
			e.Outcome = "crashed inside WriteFileAtomic before rename (result discarded)"
		case cp == cpRenamed:
			crashed = true
			e.Outcome = "crashed after rename, before return (result discarded)"
		case cp == cpAfterReturn:
			crashed = true
			deliver = true
		}
		if cp >= cpTempPartial && cp <= cpAfterReturn && pv == nil {
			if saved {
				c.Count("crash_"+cpNames[cp]+"_save_in_flight", 1)
				nontrivial = true
			} else {
				c.Count("crash_"+cpNames[cp]+"_degenerate_no_save", 1)
			}
		}
		if deliver {
			switch {
			case err != nil:
				if signerInvoked {
					rs.failedSave[q.hrs()] = true
					c.Count("signature_produced_but_error_returned", 1)
				}
				e.Outcome = "error: " + err.Error()
				c.Count("rejected_"+q.Class, 1)
				c.Count("rejected:"+errClass(err), 1)
			default:
				var sig []byte
				var msg signable
				if vote != nil {
					sig, msg = vote.Signature, vote
				} else {
					sig, msg = prop.Signature, prop
				}
				e.Outcome = "signed"
				if !signerInvoked {
					e.Outcome = "signed (stored signature reused)"
				}
				c.Count("signed_"+q.Class, 1)
				rs.log = append(rs.log, e)
				rs.judge(i, q, msg, sig)
				e.Outcome = ""
			}
			if cp == cpAfterReturn {
				e2 := entry{Idx: i, Req: q.String(), CP: cpNames[cp], Outcome: "crashed after return"}
				rs.log = append(rs.log, e2)
			}
		}
		if e.Outcome != "" {
			rs.log = append(rs.log, e)
		}
		rs.afterCrash = false
		if crashed {
			c.Count("crashes", 1)
			if err := rs.load(); err != nil {
				// not a double-sign, but the validator cannot restart: nothing more can be observed
				c.Count("reload_failed", 1)
				c.Inconclusive(fmt.Sprintf("reload after crash failed (%v); witness %v", err, rs.witness("index", i)))
				break
			}
			rs.afterCrash = true
			if i+1 < len(rs.seq) && rs.seq[i+1].hrs() == q.hrs() {
				nontrivial = true
			}
		}
	}
	var key strings.Builder
	for i, q := range rs.seq {
		fmt.Fprintf(&key, "%s@%d;", q.String(), rs.plan[i])
	}
	c.Case(key.String(), nontrivial)
	c.Count("signatures_produced_by_signer", rs.sigTotal)
}

func errClass(err error) string {
	s := err.Error()
	for _, k := range []string{"height regression", "round regression", "step regression", "same HRS with conflicting data", "no SignBytes set", "invalid sign state round"} {
		if strings.Contains(s, k) {
			return k
		}
	}
	return "other"
}

type runner struct {
	c      *vf.Ctx
	dirSeq atomic.Int64
}

func (rn *runner) runPlan(seqDir string, seq []req, plan []int) {
	dir := filepath.Join(seqDir, fmt.Sprintf("run-%d", rn.dirSeq.Add(1)))
	if err := os.MkdirAll(dir, 0o700); err != nil {
		panic(err)
	}
	defer os.RemoveAll(dir)
	rs := &runState{c: rn.c, seq: seq, plan: plan, dir: dir,
		keyPath:   filepath.Join(seqDir, "priv_validator_key.json"),
		statePath: filepath.Join(dir, "priv_validator_state.json"),
		signed:    map[hrs]*firstSig{}, failedSave: map[hrs]bool{}}
	rs.execute()
}

func (rn *runner) sequence(i int, r *rand.Rand) {
	c := rn.c
	n := 5 + r.IntN(6)
	seq := genSeq(r, n)
	seqDir := filepath.Join(c.WorkDir, fmt.Sprintf("seq-%d", i))
	if err := os.MkdirAll(seqDir, 0o700); err != nil {
		panic(err)
	}
	defer os.RemoveAll(seqDir)
	for _, q := range seq {
		c.Count("requests_"+q.Class, 1)
		c.Count("requests_kind_"+q.Kind, 1)
	}
	// no crash
	rn.runPlan(seqDir, seq, make([]int, n))
	// every (index, crash point)
	for k := 0; k < n; k++ {
		for cp := 1; cp < nCP; cp++ {
			plan := make([]int, n)
			plan[k] = cp
			rn.runPlan(seqDir, seq, plan)
			c.Count("plans_single_crash", 1)
		}
	}
	// random multi-crash plans
	for m := 0; m < c.N(6, 20); m++ {
		plan := make([]int, n)
		for k := range plan {
			if r.IntN(2) == 0 {
				plan[k] = 1 + r.IntN(nCP-1)
			}
		}
		rn.runPlan(seqDir, seq, plan)
		c.Count("plans_multi_crash", 1)
	}
	c.Count("sequences", 1)
	if i < 3 {
		var sq []string
		for _, q := range seq {
			sq = append(sq, q.String())
		}
		c.Sample(map[string]any{"sequence": sq, "plans": 1 + n*(nCP-1) + c.N(6, 20)})
	}
}

func run(c *vf.Ctx) {
	rn := &runner{c: c}
	c.Parallel(c.N(100, 1200), 12, 1000, rn.sequence)
	c.SetExhaustive(false)
	c.Set("crash_points", cpNames[1:])
	c.Assume("crash = process death: the page cache survives, so after os.Rename the new state file is what a restarted process reads (power-loss durability of the rename - no directory fsync in WriteFileAtomic - is not modelled)")
	c.Assume("the WriteFileAtomic crash points are reproduced as the on-disk states that function can leave (old file; old file + partial/complete temp file; new file), not by interrupting it")
	c.Assume("a signature produced by the signer but never returned to the caller (crash before return) is not a signature 'returned' in the sense of the property")
	for _, k := range []string{"requests_advance", "requests_repeat", "requests_timestamp-only", "requests_conflicting", "requests_regressing",
		"requests_kind_prevote", "requests_kind_precommit", "requests_kind_proposal"} {
		c.RequireCounter(k, 50)
	}
	for cp := cpTempPartial; cp <= cpAfterReturn; cp++ {
		c.RequireCounter("crash_"+cpNames[cp]+"_save_in_flight", 100)
	}
	c.RequireCounter("fault_save-io-error_save_failed", 50)
	c.RequireCounter("returned_signature_found_in_state_file", 1000)
	c.RequireCounter("crash_after-sign_signature_lost", 100)
	c.RequireCounter("ok_first_signature_for_hrs", 1000)
	c.RequireCounter("ok_timestamp_only_returned_original", 100)
	c.RequireCounter("ok_repeat_returned_original", 100)
	c.RequireCounter("ok_resign_after_crash_returned_original", 50)
	c.RequireCounter("rejected:same HRS with conflicting data", 100)
	c.RequireCounter("rejected:height regression", 20)
	c.RequireCounter("rejected:round regression", 20)
	c.RequireCounter("rejected:step regression", 20)
	if n := c.Counter("reload_failed"); n > 0 {
		c.Logf("reload failed %d times", n)
	}
	syscallCrashes(c)
	c.Assume("syscall-level phase: the signer runs in a child process under strace -f; the k-th rename/unlink/fsync-family call (counted per thread by strace) kills the process on entry or fails with EIO; k runs until the undisturbed sequence completes")
}
