package c12

import (
	"fmt"
	"strings"
)

// MutPath is a /p/ package with package-level state of every mutable shape and
// exported functions / methods that write it.
const MutPath = "gno.land/p/verif/mut"
const MutSrc = `package mut

var Counter int
var Items []int
var M = map[string]int{"k": 1}

type T struct{ N int }

var Obj = &T{}

func Inc() int             { Counter++; return Counter }
func Append(x int) int     { Items = append(Items, x); return len(Items) }
func SetM(k string, v int) { M[k] = v }
func DelM(k string)        { delete(M, k) }
func (t *T) Bump() int     { t.N++; return t.N }
func (t *T) Set(n int)     { t.N = n }
func BumpObj() int         { Obj.N++; return Obj.N }
func State() string {
	return sitoa(Counter) + "/" + sitoa(len(Items)) + "/" + sitoa(len(M)) + "/" + sitoa(M["k"]) + "/" + sitoa(Obj.N)
}

func sitoa(n int) string {
	if n == 0 {
		return "0"
	}
	s := ""
	neg := n < 0
	if neg {
		n = -n
	}
	for n > 0 {
		s = string(rune('0'+n%10)) + s
		n /= 10
	}
	if neg {
		s = "-" + s
	}
	return s
}
`

// MutInitialState is mut.State() right after its own init.
const MutInitialState = "0/0/1/1/0"

// MutLibPath is a /p/ package whose state lives in an internal sub-package (the flags of such a
// package id differ from a plain /p/ package); the public package hands out the only way in.
const MutLibPath = "gno.land/p/verif/mutlib"
const MutLibStatePath = "gno.land/p/verif/mutlib/internal/state"
const MutLibStateSrc = `package state

type T struct{ N int }

var Obj = &T{}
var Owner = "deployer"

func (t *T) Bump() int { t.N++; return t.N }
func SetOwner(s string) { Owner = s }
`
const MutLibSrc = `package mutlib

import "gno.land/p/verif/mutlib/internal/state"

func Bump() int          { return state.Obj.Bump() }
func Get() int           { return state.Obj.N }
func Obj() *state.T      { return state.Obj }
func SetOwner(s string)  { state.SetOwner(s) }
func Owner() string      { return state.Owner }
`

// MutUserPath is a realm that tries to write mut's state in every way the
// language lets it express.
const MutUserPath = "gno.land/r/verif/mutuser"
const MutUserSrc = `package mutuser

import (
	"gno.land/p/verif/mut"
	"gno.land/p/verif/mutlib"
)

var Calls int
var Seen string

func Poke(cur realm, which int) int {
	Calls++
	switch which {
	case 0:
		return mut.Inc()
	case 1:
		return mut.Append(3)
	case 2:
		mut.SetM("z", 9)
		return 1
	case 3:
		return mut.Obj.Bump()
	case 4:
		return mut.BumpObj()
	case 5:
		mut.Obj.N = 77
		return 77
	case 6:
		mut.M["k"] = 5
		return 5
	case 7:
		mut.Obj.Set(4)
		return 4
	case 8:
		mut.DelM("k")
		return 0
	case 9:
		p := &mut.Obj.N
		*p = 11
		return 11
	case 10:
		o := mut.Obj
		o.N++
		return o.N
	case 11:
		return mutlib.Bump()
	case 12:
		return mutlib.Obj().Bump()
	case 13:
		mutlib.SetOwner("mallory")
		return len(mutlib.Owner())
	}
	return -1
}

// Read stores what this realm sees of the /p/ state.
func Read(cur realm) string {
	Seen = mut.State()
	return Seen
}
`

// NPokes is the number of Poke variants.
const NPokes = 14

// RunStmts are statements a MsgRun script executes against the /p/ state.
var RunStmts = []string{
	"println(mut.Inc())",
	"println(mut.Append(1))",
	"mut.SetM(\"q\", 1)",
	"println(mut.Obj.Bump())",
	"mut.Obj.N = 5",
	"mut.M[\"k\"] = 4",
	"println(mut.BumpObj())",
	"mut.Obj.Set(9)",
	"mut.DelM(\"k\")",
	"o := mut.Obj; o.N++",
}

// RunScript is a MsgRun body whose main executes stmt.
func RunScript(stmt string) string {
	return "package main\n\nimport \"gno.land/p/verif/mut\"\n\nfunc main(cur realm) {\n\t" + stmt + "\n}\n"
}

// InitStmts are statements executed from the init stage of another package.
var InitStmts = []string{
	"mut.Obj.Bump()",
	"mut.Inc()",
	"mut.BumpObj()",
	"mut.SetM(\"i\", 1)",
	"mut.Append(1)",
	"mut.Obj.Set(6)",
	"mut.DelM(\"k\")",
}

// RunInitScript is a MsgRun body that writes the /p/ state from its init()
// and reports what main and another realm then observe.
func RunInitScript(stmt string) string {
	return "package main\n\nimport (\n\t\"gno.land/p/verif/mut\"\n\t\"gno.land/r/verif/mutuser\"\n)\n\nfunc init() {\n\t" + stmt + "\n}\n\nfunc main(cur realm) {\n\tprintln(\"OBS \" + mut.State() + \" \" + mutuser.Read(cross(cur)))\n}\n"
}

// ForeignInitRealm is a realm whose init stage (init func or var initializer) writes the /p/ state.
func ForeignInitRealm(name, stmt string, viaVar bool) string {
	if viaVar {
		return "package " + name + "\n\nimport \"gno.land/p/verif/mut\"\n\nvar Obs = func() string {\n\t" + stmt + "\n\treturn mut.State()\n}()\n"
	}
	return "package " + name + "\n\nimport \"gno.land/p/verif/mut\"\n\nvar Obs string\n\nfunc init() {\n\t" + stmt + "\n\tObs = mut.State()\n}\n"
}

// DirectAssignRealm does not compile: direct assignment to a /p/ package variable.
func DirectAssignRealm(name string) string {
	return "package " + name + "\n\nimport \"gno.land/p/verif/mut\"\n\nfunc Do(cur realm) {\n\tmut.Items = append(mut.Items, 1)\n}\n"
}

// RegistrySrc is a namespace registry with the interface the VM keeper calls
// (IsAuthorizedAddressForNamespace) and the semantics of r/sys/names:
// disabled = everything passes; personal-address namespace; registered names.
func RegistrySrc(pkgName, adminAddr string) string {
	return `package ` + pkgName + `

var (
	admin   = address("` + adminAddr + `")
	enabled = false
	owners  = map[string]address{}
	Checks  int
)

func IsAuthorizedAddressForNamespace(addr address, namespace string) bool {
	if !enabled {
		return true
	}
	if namespace == "" || !addr.IsValid() {
		return false
	}
	if addr.String() == namespace {
		return true
	}
	o, ok := owners[namespace]
	return ok && o == addr
}

func assertAdmin(cur realm) {
	if cur.Previous().Address() != admin {
		panic("caller is not admin")
	}
}

func Enable(cur realm)                          { assertAdmin(cur); enabled = true }
func Register(cur realm, ns string, a address)  { assertAdmin(cur); owners[ns] = a }
func Unregister(cur realm, ns string)           { assertAdmin(cur); delete(owners, ns) }
func IsEnabled() bool                           { return enabled }
`
}

// bodyRealm is the production file of a generated realm.
func bodyRealm(name, marker string) string {
	return fmt.Sprintf("package %s\n\nvar N int\n\nfunc Marker() string { return %q }\n\nfunc Bump(cur realm) int {\n\tN++\n\treturn N\n}\n", name, marker)
}

// bodyPure is the production file of a generated /p/ package: it has state and
// a method that writes it, so every deployed /p/ package is also a target.
func bodyPure(name, marker string) string {
	return fmt.Sprintf("package %s\n\ntype Box struct{ N int }\n\nvar C = &Box{}\n\nfunc (b *Box) Inc() int {\n\tb.N++\n\treturn b.N\n}\n\nfunc Marker() string {\n\tif C.N != 0 {\n\t\treturn \"MUTATED\"\n\t}\n\treturn %q\n}\n", name, marker)
}

func gnomodToml(path string, private bool, spoof string) string {
	var b strings.Builder
	fmt.Fprintf(&b, "module = %q\ngno = \"0.9\"\n", path)
	if private {
		b.WriteString("private = true\n")
	}
	if spoof != "" {
		fmt.Fprintf(&b, "\n[addpkg]\n  creator = %q\n  height = 1\n", spoof)
	}
	return b.String()
}
