// Package c12: published package code is immutable and namespace-protected.
//
// Generated histories of add-package messages over a small path alphabet
// (frequent collisions: same path same/different content, other creator),
// private packages and their redeploys, test-only file sets, hostile path
// strings, a namespace registry, interleaved with calls, /p/ write attempts
// and node restarts run on the real gno.land application. A reference model
// `path -> {files, private, creator, height}` decides for every message
// whether it may be accepted. After every committed block:
//   - vm/qfile of every deployed path returns exactly the deployed file list
//     and bodies (gnomod.toml with the keeper's metadata: learned at first
//     sight, validated, then required to be stable), forever (also over restarts);
//   - vm/qfile of every path that was never accepted is unavailable;
//   - the `pkg:` keys of the main store are exactly {genesis keys} ∪ {prod blob,
//     #allbutprod sibling iff test files} of the model, their decoded contents
//     equal the model, and they change only for paths with an accepted deployment
//     in that block;
//   - Marker() of every package evaluates to the deployed marker;
//   - the state of the /p/ target package is its post-init state (query and raw objects).
package c12

import (
	"encoding/hex"
	"fmt"
	"math/rand/v2"
	"sort"
	"strings"
	"time"

	"github.com/gnolang/gno/gno.land/pkg/sdk/vm"
	gno "github.com/gnolang/gno/gnovm/pkg/gnolang"
	"github.com/gnolang/gno/tm2/pkg/amino"
	"github.com/gnolang/gno/tm2/pkg/std"

	"verifharness/checks/c12/exload"
	"verifharness/internal/audit"
	"verifharness/internal/chainsim"
	"verifharness/internal/vf"
)

func init() {
	vf.Register(&vf.Check{
		ID:    "C12",
		Level: "exploration",
		Rule: "case = one add-package message (or one write attempt on /p/ package state) inside a generated history; histories mix fresh deployments, collisions (same/different content, same/other creator), " +
			"private->private / private->public / public->private redeploys, private on /p/, test-only and filetest-only file sets, spoofed gnomod metadata, two add-packages in one tx, add-package followed by a failing message, " +
			"a dictionary of invalid path strings (wrong domain, _test suffix, /e/../run, non r|p letter, case, //, ./.., trailing slash, unicode look-alikes, very long, empty segments, stdlib-looking, '#', control bytes, punctuation), " +
			"each dictionary entry swept once per chain, imports of a '<path>#allbutprod' storage key, namespace-registry operations, realm calls, restarts; oracle = reference model of accepted deployments + file/blob/marker equality after every block, never-accepted strings serve nothing; " +
			"non-trivial = the message is not a plain first deployment on a valid free path (collision, redeploy, invalid path, namespace decision with the registry enabled, test-only, multi-message, /p/ write); distinct by (history seed, op index)",
		Run: run,
	})
}

// ---------------------------------------------------------------------------------
// operations

// Op is one generated transaction.
type Op struct {
	Kind    string `json:"kind"` // add | add2 | call | poke | runp | runinit | foreigninit | directassign | importsibling | pcall | reg
	Signer  string `json:"signer"`
	Path    string `json:"path,omitempty"`
	Class   string `json:"class,omitempty"` // valid | invalid-path class
	Private bool   `json:"private,omitempty"`
	Files   string `json:"files,omitempty"` // prod | tests | readme | xtest | testonly | filetestonly
	Spoof   bool   `json:"spoof,omitempty"`
	Marker  string `json:"marker,omitempty"`
	Second  *Op    `json:"second,omitempty"`   // add2: second add-package message
	FailMsg bool   `json:"fail_msg,omitempty"` // add2: a failing call as second message
	Arg     int    `json:"arg,omitempty"`      // poke variant / statement index
	ViaVar  bool   `json:"via_var,omitempty"`  // foreigninit through a var initializer
	RegFn   string `json:"reg_fn,omitempty"`   // Enable | Register | Unregister
	Ns      string `json:"ns,omitempty"`
	Owner   string `json:"owner,omitempty"` // account name
	Restart bool   `json:"restart_before,omitempty"`
	// outcome (filled at play time, for witnesses)
	OK     bool   `json:"ok"`
	Height int64  `json:"height"`
	Err    string `json:"err,omitempty"`
	Pred   string `json:"predicted,omitempty"`
}

type dep struct {
	Files     map[string]string
	Private   bool
	Creator   string
	Height    int64
	Marker    string
	Letter    string
	Redeploys int
	learned   bool
}

type model struct {
	pkgs       map[string]*dep
	attempted  map[string]bool // every path string ever sent
	regEnabled bool
	owners     map[string]string // namespace -> address
}

type scenario struct {
	name     string
	registry string // "" | custom | custom-altpath | real
	blocks   int
	maxTxs   int
	pool     int
	restarts int
}

var creators = []string{"alice", "bob", "carol", "dave"}

const adminName = "admin"
const altRegistryPath = "gno.land/r/verif/registry"
const defaultRegistryPath = "gno.land/r/sys/names"

type runner struct {
	c                          *vf.Ctx
	sc                         scenario
	seed                       uint64
	rng                        *rand.Rand
	ch                         *chainsim.Chain
	m                          *model
	pool                       []string
	ops                        []*Op
	baseline                   map[string]string // genesis pkg: keys -> hex hash
	prevPkg                    map[string]string
	tmpl                       map[bool]string // learned gnomod template per private flag
	mutOID                     string
	mutObjs                    *audit.KV
	nMarker                    int
	nForeign                   int
	broken                     bool
	regPath                    string
	sampled                    int
	tDeliver, tCommit, tVerify time.Duration
	tSec                       [5]time.Duration
	fresh                      map[string]bool // paths attempted since the last verification
	fullSweep                  bool            // query every never-accepted path (after restarts, at the end)
}

func run(c *vf.Ctx) {
	var scen []scenario
	if c.Quick() {
		scen = []scenario{
			{name: "open", blocks: 20, maxTxs: 6, pool: 12, restarts: 0},
			{name: "open-private", blocks: 20, maxTxs: 6, pool: 8, restarts: 1},
			{name: "registry", registry: "custom", blocks: 22, maxTxs: 6, pool: 14, restarts: 1},
			{name: "registry-altpath", registry: "custom-altpath", blocks: 18, maxTxs: 6, pool: 10, restarts: 0},
		}
	} else {
		for i := 0; i < 4; i++ {
			scen = append(scen, scenario{name: "open", blocks: 110, maxTxs: 7, pool: 30 + 8*i, restarts: 3})
		}
		for i := 0; i < 3; i++ {
			scen = append(scen, scenario{name: "open-private", blocks: 100, maxTxs: 7, pool: 14, restarts: 3})
		}
		scen = append(scen,
			scenario{name: "registry", registry: "custom", blocks: 110, maxTxs: 7, pool: 40, restarts: 3},
			scenario{name: "registry", registry: "custom", blocks: 110, maxTxs: 7, pool: 24, restarts: 2},
			scenario{name: "registry-altpath", registry: "custom-altpath", blocks: 90, maxTxs: 7, pool: 30, restarts: 2},
			scenario{name: "real-names", registry: "real", blocks: 60, maxTxs: 6, pool: 16, restarts: 1},
			scenario{name: "real-names", registry: "real", blocks: 60, maxTxs: 6, pool: 10, restarts: 1},
		)
	}
	c.Parallel(len(scen), 6, 1200, func(i int, rng *rand.Rand) {
		r := &runner{c: c, sc: scen[i], seed: uint64(c.Seed)*100 + uint64(i), rng: rng, tmpl: map[bool]string{}}
		r.play()
	})
	c.Assume("the reference model of path validity is written from the grammar documented in gnovm/pkg/gnolang/mempackage.go and tm2/pkg/std/memfile.go (chain domain gno.land, letters r|p, name segments, 256-byte limit, package identifier of >= 2 characters)")
	c.Assume("the namespace registry of the generated histories is a purpose-built realm with the interface and semantics of r/sys/names (disabled / personal-address / registered name); the real r/sys/names with GovDAO-registered names runs in the thorough tier only")
	c.Assume("state is observed at block granularity (queries and an independent read-only view of the committed DB)")
	c.RequireCounter("add_accepted", 20)
	c.RequireCounter("add_rejected:exists-public", 5)
	c.RequireCounter("add_rejected:invalid-path", 10)
	c.RequireCounter("add_rejected:no-prod-files", 1)
	c.RequireCounter("add_rejected:public-over-private", 1)
	c.RequireCounter("add_rejected:unauthorised-namespace", 2)
	c.RequireCounter("private_redeploy_accepted", 2)
	c.RequireCounter("private_redeploy_dropping_test_files", 1)
	c.RequireCounter("authorised_deploy_with_registry_enabled", 1)
	c.RequireCounter("p_write_attempts_rejected", 8)
	c.RequireCounter("restarts", 1)
	c.RequireCounter("qfile_bodies_compared", 200)
	c.RequireCounter("pkg_blobs_decoded", 100)
	c.RequireCounter("multi_message_txs_rolled_back", 1)
	c.Require("distinct invalid-path classes rejected", int64(len(classCounters(c))), int64(len(allClasses)))
	c.RequireCounter("dictionary_sweep_ops", 80)
}

func classCounters(c *vf.Ctx) []string {
	var out []string
	for _, cl := range allClasses {
		if c.Counter("invalid_path_class:"+cl) > 0 {
			out = append(out, cl)
		}
	}
	return out
}

var allClasses = []string{"wrong-domain", "test-suffix", "run-path", "non-rp-letter", "upper-case", "double-slash", "dot-segment", "trailing-slash", "leading-slash",
	"unicode", "very-long", "empty-segment", "stdlib-looking", "hash", "control-or-space", "punctuation", "version-suffix", "package-name"}

// ---------------------------------------------------------------------------------
// chain set-up

func (r *runner) addr(name string) string { return r.ch.Acc(name).Addr.String() }

func (r *runner) start() {
	t0 := time.Now()
	ch, err := chainsim.New(chainsim.Options{})
	if err != nil {
		panic(err)
	}
	r.c.Logf("%s: app constructed in %v", r.sc.name, time.Since(t0))
	r.ch = ch
	st := ch.DefaultGenState(append(append([]string{}, creators...), adminName)...)
	deployer := ch.Acc(adminName)
	r.regPath = ""
	switch r.sc.registry {
	case "custom":
		r.regPath = defaultRegistryPath
		st.Txs = append(st.Txs, chainsim.GenesisAddPkgTx(deployer, r.regPath, map[string]string{"names.gno": RegistrySrc("names", deployer.Addr.String())}))
	case "custom-altpath":
		r.regPath = altRegistryPath
		st.VM.Params.SysNamesPkgPath = altRegistryPath
		st.Txs = append(st.Txs, chainsim.GenesisAddPkgTx(deployer, r.regPath, map[string]string{"registry.gno": RegistrySrc("registry", deployer.Addr.String())}))
	case "real":
		r.regPath = defaultRegistryPath
		pkgs, err := exload.Load(vf.RepoRoot()+"/examples", "gno.land/r/sys/names", "gno.land/r/gov/dao/v3/init")
		if err != nil {
			panic(err)
		}
		for _, p := range pkgs {
			if p.Path == "gno.land/r/sys/names" {
				// the integration tests patch the hard-coded admin the same way (patchpkg)
				for n, b := range p.Files {
					p.Files[n] = strings.ReplaceAll(b, "g1rp7cmetn27eqlpjpc4vuusf8kaj746tysc0qgh", deployer.Addr.String())
				}
			}
			tx := chainsim.GenesisAddPkgTx(deployer, p.Path, nil)
			tx.Tx.Msgs[0] = vm.NewMsgAddPackage(deployer.Addr, p.Path, p.MemFiles())
			st.Txs = append(st.Txs, tx)
		}
	}
	st.Txs = append(st.Txs,
		chainsim.GenesisAddPkgTx(deployer, MutPath, map[string]string{"mut.gno": MutSrc}),
		chainsim.GenesisAddPkgTx(deployer, MutLibStatePath, map[string]string{"state.gno": MutLibStateSrc}),
		chainsim.GenesisAddPkgTx(deployer, MutLibPath, map[string]string{"mutlib.gno": MutLibSrc}),
		chainsim.GenesisAddPkgTx(deployer, MutUserPath, map[string]string{"mutuser.gno": MutUserSrc}),
	)
	t0 = time.Now()
	resp := ch.InitChain(st)
	r.c.Logf("%s: InitChain %v (%d genesis txs)", r.sc.name, time.Since(t0), len(st.Txs))
	if resp.Error != nil {
		panic("initchain: " + resp.Error.Error())
	}
	for i, tr := range resp.TxResponses {
		if tr.Error != nil {
			panic(fmt.Sprintf("genesis tx %d failed: %s\n%s", i, tr.Error.Error(), clip(tr.Log, 1500)))
		}
	}
	ch.RunBlock()
	r.m = &model{pkgs: map[string]*dep{}, attempted: map[string]bool{}, owners: map[string]string{}}
	pid := gno.PkgIDFromPkgPath(MutPath)
	r.mutOID = "oid:" + hex.EncodeToString(pid.Hashlet[:]) + ":"
	if r.sc.registry == "real" {
		r.realNamesPreamble()
	}
}

var fee = chainsim.Fee(200_000_000, 1_000_000)

func (r *runner) mustTx(label string, signer string, msgs ...std.Msg) {
	tr := r.ch.OneTx(msgs, fee, r.ch.Acc(signer))
	if !tr.OK {
		panic(fmt.Sprintf("%s: preamble tx %q failed: %s %s", r.sc.name, label, tr.ErrString, clip(tr.Log, 1200)))
	}
}

// realNamesPreamble drives the repository's own r/sys/names the way
// gno.land/pkg/integration/testdata/addpkg_namespace.txtar does: GovDAO members,
// a register-user proposal (create, vote, execute), then Enable by the admin.
func (r *runner) realNamesPreamble() {
	admin := r.ch.Acc(adminName)
	r.mustTx("init govdao", adminName, chainsim.MsgRun(admin, "package main\n\nimport dao \"gno.land/r/gov/dao/v3/init\"\n\nfunc main(cur realm) {\n\tdao.InitWithUsers(cross(cur), \""+admin.Addr.String()+"\")\n}\n"))
	for i, reg := range []struct{ name, owner string }{{"verifteam1", "carol"}, {"verifteam2", "dave"}} {
		r.mustTx("propose "+reg.name, adminName, chainsim.MsgRun(admin, "package main\n\nimport (\n\t\"gno.land/r/gov/dao\"\n\t\"gno.land/r/sys/users\"\n)\n\nfunc main(cur realm) {\n\treq := users.ProposeRegisterUser(cross(cur), \""+reg.name+"\", address(\""+r.addr(reg.owner)+"\"))\n\tdao.MustCreateProposal(cross(cur), req)\n}\n"))
		r.mustTx("vote", adminName, chainsim.MsgCall(admin, "gno.land/r/gov/dao", "MustVoteOnProposalSimple", fmt.Sprint(i), "YES"))
		r.mustTx("execute", adminName, chainsim.MsgCall(admin, "gno.land/r/gov/dao", "ExecuteProposal", fmt.Sprint(i)))
		r.m.owners[reg.name] = r.addr(reg.owner)
	}
	r.mustTx("enable", adminName, chainsim.MsgCall(admin, r.regPath, "Enable"))
	r.m.regEnabled = true
	r.c.Count("real_names_registry_chains", 1)
}

// ---------------------------------------------------------------------------------
// generation

func pick[T any](r *rand.Rand, xs []T) T { return xs[r.IntN(len(xs))] }

func (r *runner) namespaces() []string {
	ns := []string{"verif", "ver-if"}
	for _, cr := range creators {
		ns = append(ns, r.addr(cr))
	}
	if r.sc.registry == "real" {
		ns = append(ns, "verifteam1", "verifteam2")
	} else {
		ns = append(ns, "team1", "team2")
	}
	return ns
}

var repos = []string{"aa", "bb", "cc/dd", "aa/v2", "internal/ee", "aa_test/ff", "x1_y-z/gg", "bb/v10"}

func (r *runner) buildPool() {
	seen := map[string]bool{}
	nss := r.namespaces()
	for len(r.pool) < r.sc.pool {
		letter := "r"
		if r.rng.IntN(3) == 0 {
			letter = "p"
		}
		p := chainDomain + "/" + letter + "/" + pick(r.rng, nss) + "/" + pick(r.rng, repos)
		if len(r.pool) == 3 {
			// boundary: a valid path of exactly 256 bytes
			pre := chainDomain + "/r/verif/"
			p = pre + strings.Repeat("l", 256-len(pre))
		}
		if seen[p] {
			continue
		}
		if !parsePath(p).Valid {
			panic("pool path not valid in the model: " + p)
		}
		seen[p] = true
		r.pool = append(r.pool, p)
	}
}

func (r *runner) authorised(creatorAddr, ns string) bool {
	if !r.m.regEnabled {
		return true
	}
	return ns == creatorAddr || r.m.owners[ns] == creatorAddr
}

func (r *runner) sortedPaths(filter func(string, *dep) bool) []string {
	var out []string
	for p, d := range r.m.pkgs {
		if filter == nil || filter(p, d) {
			out = append(out, p)
		}
	}
	sort.Strings(out)
	return out
}

func (r *runner) genAdd() *Op {
	rng := r.rng
	op := &Op{Kind: "add", Signer: pick(rng, creators), Class: "valid"}
	r.nMarker++
	op.Marker = fmt.Sprintf("m%d-%d", r.seed, r.nMarker)
	privBias := 30
	if r.sc.name == "open-private" {
		privBias = 60
	}
	privates := r.sortedPaths(func(_ string, d *dep) bool { return d.Private })
	publics := r.sortedPaths(func(_ string, d *dep) bool { return !d.Private })
	switch k := rng.IntN(100); {
	case k < 20: // hostile path string
		base := pick(rng, r.pool)
		info := parsePath(base)
		segs := strings.Split(base, "/")
		repo := segs[len(segs)-1]
		if len(repo) > 20 || !validPkgIdent(repo) {
			repo = "aa"
		}
		dict := invalidPaths(info.Letter, info.Namespace, repo, r.addr(op.Signer))
		ip := pick(rng, dict)
		if parsePath(ip.Path).Valid {
			panic("dictionary entry is valid in the model: " + ip.Path)
		}
		op.Path, op.Class = ip.Path, ip.Class
	case k < 42 && len(privates) > 0: // redeploy over a private package
		op.Path = pick(rng, privates)
		op.Private = rng.IntN(100) < 72
		if rng.IntN(2) == 0 {
			op.Signer = r.nameOf(r.m.pkgs[op.Path].Creator)
		}
	case k < 60 && len(publics) > 0: // collision with a public package
		op.Path = pick(rng, publics)
		op.Private = rng.IntN(4) == 0
		if rng.IntN(2) == 0 {
			op.Signer = r.nameOf(r.m.pkgs[op.Path].Creator)
		}
	default:
		op.Path = pick(rng, r.pool)
		op.Private = rng.IntN(100) < privBias
		if r.m.regEnabled && rng.IntN(100) < 60 {
			// steer towards an authorised (creator, namespace) pair: the signer's personal-address namespace or a name it owns
			nss := []string{r.addr(op.Signer)}
			var owned []string
			for ns, a := range r.m.owners {
				if a == r.addr(op.Signer) {
					owned = append(owned, ns)
				}
			}
			sort.Strings(owned)
			nss = append(nss, owned...)
			letter := "r"
			if rng.IntN(3) == 0 {
				letter = "p"
			}
			op.Path = chainDomain + "/" + letter + "/" + pick(rng, nss) + "/" + pick(rng, repos)
		}
	}
	if info := parsePath(op.Path); info.Valid && info.Letter == "p" && op.Private && rng.IntN(8) != 0 {
		op.Private = false // keep "private on /p/" rare
	}
	switch k := rng.IntN(100); {
	case k < 38:
		op.Files = "prod"
	case k < 74:
		op.Files = "tests"
	case k < 84:
		op.Files = "readme"
	case k < 90:
		op.Files = "xtest"
	case k < 96:
		op.Files = "testonly"
	default:
		op.Files = "filetestonly"
	}
	op.Spoof = rng.IntN(6) == 0
	return op
}

func (r *runner) nameOf(addr string) string {
	for _, n := range append(append([]string{}, creators...), adminName) {
		if r.addr(n) == addr {
			return n
		}
	}
	return creators[0]
}

func (r *runner) genOp() *Op {
	rng := r.rng
	realms := r.sortedPaths(func(_ string, d *dep) bool { return d.Letter == "r" })
	pures := r.sortedPaths(func(_ string, d *dep) bool { return d.Letter == "p" })
	privates := r.sortedPaths(func(_ string, d *dep) bool { return d.Private })
	k := rng.IntN(100)
	if r.regPath != "" && r.sc.registry != "real" && !r.m.regEnabled && len(r.ops) > 16 {
		k = 0 // the registry is enabled after a prefix of the history ran without enforcement
	}
	if r.regPath != "" && r.sc.registry != "real" && k < 10 {
		op := &Op{Kind: "reg", Signer: adminName}
		if rng.IntN(6) == 0 {
			op.Signer = pick(rng, creators) // not the admin: must fail
		}
		switch {
		case !r.m.regEnabled && len(r.ops) > 12:
			op.Signer = adminName
			op.RegFn = "Enable"
		case rng.IntN(4) == 0 && len(r.m.owners) > 0:
			op.RegFn = "Unregister"
			var nss []string
			for ns := range r.m.owners {
				nss = append(nss, ns)
			}
			sort.Strings(nss)
			op.Ns = pick(rng, nss)
		default:
			op.RegFn = "Register"
			op.Ns = pick(rng, []string{"team1", "team2", "verif", "ver-if"})
			op.Owner = pick(rng, creators)
		}
		return op
	}
	switch {
	case k < 58:
		return r.genAdd()
	case k < 65: // two messages in one transaction
		a := r.genAdd()
		a.Kind = "add2"
		switch v := rng.IntN(3); {
		case v == 0 && len(privates) > 0: // private redeploy, then a failing message: everything rolls back
			a.Path, a.Class, a.Private, a.Files = pick(rng, privates), "valid", true, "prod"
			a.FailMsg = true
		case v == 1: // the same path twice, private: the second replaces the first inside the tx
			b := r.genAdd()
			a.Private, b.Private = true, true
			a.Files, b.Files = "tests", "prod"
			b.Path, b.Class, b.Signer = a.Path, a.Class, a.Signer
			a.Second = b
		default: // the same path twice
			b := r.genAdd()
			b.Path, b.Class, b.Signer, b.Private = a.Path, a.Class, a.Signer, a.Private
			a.Second = b
		}
		return a
	case k < 77 && len(realms) > 0:
		return &Op{Kind: "call", Signer: pick(rng, creators), Path: pick(rng, realms)}
	case k < 84:
		return &Op{Kind: "poke", Signer: pick(rng, creators), Arg: rng.IntN(NPokes)}
	case k < 90:
		return &Op{Kind: "runp", Signer: pick(rng, creators), Arg: rng.IntN(len(RunStmts))}
	case k < 93 && len(pures) > 0:
		return &Op{Kind: "pcall", Signer: pick(rng, creators), Path: pick(rng, pures)}
	case k < 94:
		return &Op{Kind: "directassign", Signer: pick(rng, creators)}
	case k < 95:
		if withTests := r.sortedPaths(func(_ string, d *dep) bool { return hasTestFiles(d.Files) }); len(withTests) > 0 {
			return &Op{Kind: "importsibling", Signer: pick(rng, creators), Ns: pick(rng, withTests) + "#allbutprod"}
		}
		return &Op{Kind: "directassign", Signer: pick(rng, creators)}
	case k < 97:
		return &Op{Kind: "runinit", Signer: pick(rng, creators), Arg: rng.IntN(len(InitStmts))}
	case k < 99:
		return &Op{Kind: "foreigninit", Signer: pick(rng, creators), Arg: rng.IntN(len(InitStmts)), ViaVar: rng.IntN(2) == 0}
	}
	return r.genAdd()
}

// ---------------------------------------------------------------------------------
// building messages and predicting outcomes

func pkgNameFor(path string) string {
	if info := parsePath(path); info.Valid {
		return info.PkgName
	}
	segs := strings.Split(path, "/")
	last := segs[len(segs)-1]
	if validPkgIdent(last) && !isVersionSuffix(last) {
		return last
	}
	return "aa"
}

func buildFiles(op *Op, spoofAddr string) map[string]string {
	name := pkgNameFor(op.Path)
	letter := "r"
	if info := parsePath(op.Path); info.Valid {
		letter = info.Letter
	} else if strings.Contains(op.Path, "/p/") {
		letter = "p"
	}
	body := bodyRealm(name, op.Marker)
	if letter == "p" {
		body = bodyPure(name, op.Marker)
	}
	spoof := ""
	if op.Spoof {
		spoof = spoofAddr
	}
	f := map[string]string{"gnomod.toml": gnomodToml(op.Path, op.Private, spoof)}
	test := fmt.Sprintf("package %s\n\nvar testOnly = %q\n", name, op.Marker)
	filetest := fmt.Sprintf("package main\n\nfunc main() {\n\tprintln(%q)\n}\n\n// Output:\n// %s\n", op.Marker, op.Marker)
	switch op.Files {
	case "prod":
		f[name+".gno"] = body
	case "tests":
		f[name+".gno"] = body
		f[name+"_test.gno"] = test
		f["z0_filetest.gno"] = filetest
	case "readme":
		f[name+".gno"] = body
		f["README.md"] = "# " + op.Marker + "\n"
		f["extra_"+name+".gno"] = fmt.Sprintf("package %s\n\nconst Extra = %q\n", name, op.Marker)
	case "xtest":
		f[name+".gno"] = body
		f[name+"_test.gno"] = fmt.Sprintf("package %s_test\n\nvar xTestOnly = %q\n", name, op.Marker)
	case "testonly":
		f[name+"_test.gno"] = test
	case "filetestonly":
		f["z0_filetest.gno"] = filetest
	}
	return f
}

func hasTestFiles(files map[string]string) bool {
	for n := range files {
		if strings.HasSuffix(n, "_test.gno") || strings.HasSuffix(n, "_filetest.gno") {
			return true
		}
	}
	return false
}

// predictAdd decides, from the model only, whether an add-package may be accepted.
func (r *runner) predictAdd(m map[string]*dep, op *Op) (bool, string) {
	info := parsePath(op.Path)
	if !info.Valid {
		return false, "invalid-path"
	}
	if op.Files == "testonly" || op.Files == "filetestonly" {
		return false, "no-prod-files"
	}
	if ex := m[op.Path]; ex != nil {
		if !ex.Private {
			return false, "exists-public"
		}
		if !op.Private {
			return false, "public-over-private"
		}
	}
	if op.Private && info.Letter == "p" {
		return false, "private-on-p"
	}
	if !r.authorised(r.addr(op.Signer), info.Namespace) {
		return false, "unauthorised-namespace"
	}
	return true, ""
}

func (r *runner) applyAdd(m map[string]*dep, op *Op, files map[string]string, height int64) {
	info := parsePath(op.Path)
	d := &dep{Files: map[string]string{}, Private: op.Private, Creator: r.addr(op.Signer), Height: height, Marker: op.Marker, Letter: info.Letter}
	for n, b := range files {
		d.Files[n] = b
	}
	if ex := m[op.Path]; ex != nil {
		d.Redeploys = ex.Redeploys + 1
	}
	m[op.Path] = d
}

func spoofAddr() string { return chainsim.NewAccount("spoofed-creator").Addr.String() }

// ---------------------------------------------------------------------------------
// playing

func (r *runner) witness(extra map[string]any) map[string]any {
	w := map[string]any{"scenario": r.sc.name, "registry": r.sc.registry, "history_seed": r.seed, "ops": r.ops, "accounts": r.accountMap()}
	for k, v := range extra {
		w[k] = v
	}
	return w
}

func (r *runner) accountMap() map[string]string {
	out := map[string]string{}
	for _, n := range append(append([]string{}, creators...), adminName) {
		out[n] = r.addr(n)
	}
	return out
}

func (r *runner) play() {
	c := r.c
	r.start()
	defer r.ch.Close()
	c.Logf("%s seed %d: chain started", r.sc.name, r.seed)
	r.buildPool()
	r.verify(nil) // genesis baseline
	c.Logf("%s seed %d: baseline taken", r.sc.name, r.seed)
	restartAt := map[int]bool{}
	for i := 1; i <= r.sc.restarts; i++ {
		restartAt[i*r.sc.blocks/(r.sc.restarts+1)] = true
	}
	r.sweep()
	for b := 0; b < r.sc.blocks && !r.broken; b++ {
		if restartAt[b] {
			if err := r.ch.Restart(); err != nil {
				panic(err)
			}
			c.Count("restarts", 1)
			c.Logf("%s seed %d: restarted before block %d", r.sc.name, r.seed, b)
			r.fullSweep = true
			r.verify(nil) // everything must still be served after a cold start
			r.fullSweep = false
			c.Logf("%s seed %d: verified after restart", r.sc.name, r.seed)
		}
		n := 1 + r.rng.IntN(r.sc.maxTxs)
		t0 := time.Now()
		r.ch.BeginBlock()
		accepted := map[string]bool{}
		for i := 0; i < n && !r.broken; i++ {
			op := r.genOp()
			op.Restart = restartAt[b] && i == 0
			r.ops = append(r.ops, op)
			r.playOp(op, accepted)
		}
		t1 := time.Now()
		r.ch.EndBlockCommit()
		t2 := time.Now()
		if !r.broken {
			r.fullSweep = b == r.sc.blocks-1
			r.verify(accepted)
		}
		r.tDeliver += t1.Sub(t0)
		r.tCommit += t2.Sub(t1)
		r.tVerify += time.Since(t2)
	}
	c.Logf("%s seed %d: deliver %v commit %v verify %v (qfile %v, undeployed %v, pkg-keys %v, markers %v, p-state %v)", r.sc.name, r.seed, r.tDeliver, r.tCommit, r.tVerify, r.tSec[0], r.tSec[1], r.tSec[2], r.tSec[3], r.tSec[4])
	c.Logf("%s seed %d: %d ops, %d packages deployed, height %d", r.sc.name, r.seed, len(r.ops), len(r.m.pkgs), r.ch.Height)
}

// sweep sends every entry of the invalid-path dictionary (built around one valid
// base path per chain) once, while no namespace registry is enforcing, so that a
// path accepted by mistake cannot be masked by a namespace rejection.
func (r *runner) sweep() {
	bases := [][3]string{{"r", "verif", "aa"}, {"p", r.addr("bob"), "bb"}, {"r", "team1", "cc"}, {"p", "ver-if", "dd"}}
	b := bases[int(r.seed)%len(bases)]
	dict := invalidPaths(b[0], b[1], b[2], r.addr("alice"))
	for i := 0; i < len(dict) && !r.broken; {
		r.ch.BeginBlock()
		accepted := map[string]bool{}
		for n := 0; n < 30 && i < len(dict) && !r.broken; n, i = n+1, i+1 {
			if parsePath(dict[i].Path).Valid {
				panic("dictionary entry is valid in the model: " + dict[i].Path)
			}
			r.nMarker++
			op := &Op{Kind: "add", Signer: "alice", Class: dict[i].Class, Path: dict[i].Path, Files: "prod", Marker: fmt.Sprintf("m%d-%d", r.seed, r.nMarker)}
			r.ops = append(r.ops, op)
			r.playOp(op, accepted)
			r.c.Count("dictionary_sweep_ops", 1)
		}
		r.ch.EndBlockCommit()
		if !r.broken {
			r.verify(accepted)
		}
	}
}

func (r *runner) deliver(signer string, msgs ...std.Msg) *chainsim.TxResult {
	a := r.ch.Acc(signer)
	tr := r.ch.DeliverSigned(msgs, fee, a)
	if chainsim.AntePassed(tr) {
		a.Seq++
	} else {
		// rejected before execution (ValidateBasic of the message: empty path, call into an internal package, ...)
		r.c.Count("txs_rejected_before_execution", 1)
	}
	return tr
}

func (r *runner) playOp(op *Op, accepted map[string]bool) {
	c := r.c
	op.Height = r.ch.Height
	idx := len(r.ops) - 1
	caseKey := fmt.Sprintf("%d/%d", r.seed, idx)
	signer := r.ch.Acc(op.Signer)
	finish := func(tr *chainsim.TxResult) {
		op.OK, op.Err = tr.OK, clip(errLine(tr), 220)
		if r.sampled < 2 && (op.Kind == "add" || op.Kind == "add2") && idx > 3 {
			r.sampled++
			c.Sample(map[string]any{"scenario": r.sc.name, "op": op})
		}
	}
	switch op.Kind {
	case "add", "add2":
		ops := []*Op{op}
		if op.Second != nil {
			ops = append(ops, op.Second)
		}
		// predict on a scratch copy of the model (messages of one tx are sequential)
		scratch := map[string]*dep{}
		for p, d := range r.m.pkgs {
			scratch[p] = d
		}
		var msgs []std.Msg
		var fileSets []map[string]string
		okAll, reason := true, ""
		for _, o := range ops {
			r.attempt(o.Path)
			files := buildFiles(o, spoofAddr())
			fileSets = append(fileSets, files)
			msgs = append(msgs, chainsim.MsgAddPkg(signer, o.Path, files))
			if okAll {
				ok, why := r.predictAdd(scratch, o)
				if ok {
					r.applyAdd(scratch, o, files, r.ch.Height)
				} else {
					okAll, reason = false, why
				}
			}
		}
		if op.FailMsg {
			msgs = append(msgs, chainsim.MsgCall(signer, MutUserPath, "Poke", "0"))
			if okAll {
				okAll, reason = false, "later-message-fails"
			}
		}
		op.Pred = "accept"
		if !okAll {
			op.Pred = "reject:" + reason
		}
		var tr *chainsim.TxResult
		if pv := vf.Try(func() { tr = r.deliver(op.Signer, msgs...) }); pv != nil {
			panic(fmt.Sprintf("delivering %+v: %v", op, pv))
		}
		finish(tr)
		ex := r.m.pkgs[op.Path]
		nontrivial := ex != nil || op.Class != "valid" || r.m.regEnabled || op.Files == "testonly" || op.Files == "filetestonly" || op.Kind == "add2" || (op.Private && strings.Contains(op.Path, "/p/"))
		c.Case(caseKey, nontrivial)
		switch {
		case tr.OK && !okAll:
			key := "deploy-accepted:" + reason
			if reason == "invalid-path" {
				key += ":" + op.Class
			}
			c.Violation(key, r.witness(map[string]any{"op_index": idx}), "%s seed %d op %d: add-package %q by %s (private=%v files=%s) was ACCEPTED although the model rejects it (%s); existing=%s",
				r.sc.name, r.seed, idx, op.Path, op.Signer, op.Private, op.Files, reason, describe(ex))
			r.broken = true
		case !tr.OK && okAll:
			c.Inconclusive(fmt.Sprintf("%s seed %d op %d: add-package %q (%+v) was rejected although the model accepts it: %s", r.sc.name, r.seed, idx, op.Path, *op, clip(errLine(tr), 300)))
			r.broken = true
		case tr.OK:
			for i, o := range ops {
				old := r.m.pkgs[o.Path]
				r.applyAdd(r.m.pkgs, o, fileSets[i], r.ch.Height)
				accepted[o.Path] = true
				c.Count("add_accepted", 1)
				if old != nil || (i == 1) {
					c.Count("private_redeploy_accepted", 1)
					prev := old
					if prev != nil && hasTestFiles(prev.Files) && !hasTestFiles(fileSets[i]) {
						c.Count("private_redeploy_dropping_test_files", 1)
					}
					if prev != nil && prev.Creator != r.addr(o.Signer) {
						c.Count("private_redeploy_by_other_creator", 1)
					}
				}
				if r.m.regEnabled {
					c.Count("authorised_deploy_with_registry_enabled", 1)
				}
				if o.Private {
					c.Count("private_deployed", 1)
				}
				if hasTestFiles(fileSets[i]) {
					c.Count("deployed_with_test_files", 1)
					// the storage key of the test-file sibling blob is not a package path: nothing may be served under it
					r.attempt(o.Path + "#allbutprod")
				}
				if o.Spoof {
					c.Count("deployed_with_spoofed_metadata", 1)
				}
			}
		default:
			c.Count("add_rejected:"+reason, 1)
			if reason == "invalid-path" {
				c.Count("invalid_path_class:"+op.Class, 1)
			}
			if reason == "exists-public" && ex != nil {
				if ex.Creator == r.addr(op.Signer) {
					c.Count("collision_same_creator", 1)
				} else {
					c.Count("collision_other_creator", 1)
				}
			}
			if len(msgs) > 1 {
				c.Count("multi_message_txs_rolled_back", 1)
			}
		}
	case "call":
		tr := r.deliver(op.Signer, chainsim.MsgCall(signer, op.Path, "Bump"))
		finish(tr)
		c.Count("realm_calls", 1)
		if tr.OK {
			c.Count("realm_calls_ok", 1)
		}
	case "reg":
		var args []string
		switch op.RegFn {
		case "Register":
			args = []string{op.Ns, r.addr(op.Owner)}
		case "Unregister":
			args = []string{op.Ns}
		}
		tr := r.deliver(op.Signer, chainsim.MsgCall(signer, r.regPath, op.RegFn, args...))
		finish(tr)
		want := op.Signer == adminName
		if tr.OK != want {
			c.Inconclusive(fmt.Sprintf("%s seed %d: registry op %+v ok=%v (harness expectation %v): %s", r.sc.name, r.seed, *op, tr.OK, want, clip(errLine(tr), 200)))
			r.broken = true
			return
		}
		if tr.OK {
			switch op.RegFn {
			case "Enable":
				r.m.regEnabled = true
			case "Register":
				r.m.owners[op.Ns] = r.addr(op.Owner)
			case "Unregister":
				delete(r.m.owners, op.Ns)
			}
			c.Count("registry_ops", 1)
		}
	case "poke", "runp", "pcall", "directassign":
		var msg std.Msg
		what := op.Kind
		switch op.Kind {
		case "poke":
			msg = chainsim.MsgCall(signer, MutUserPath, "Poke", fmt.Sprint(op.Arg))
			what = fmt.Sprintf("realm call mutuser.Poke(%d)", op.Arg)
		case "runp":
			msg = chainsim.MsgRun(signer, RunScript(RunStmts[op.Arg]))
			what = "MsgRun main: " + RunStmts[op.Arg]
		case "pcall":
			msg = chainsim.MsgRun(signer, "package main\n\nimport tgt \""+op.Path+"\"\n\nfunc main(cur realm) {\n\tprintln(tgt.C.Inc())\n}\n")
			what = "MsgRun main: " + op.Path + ".C.Inc()"
		case "directassign":
			r.nForeign++
			name := fmt.Sprintf("dassign%d", r.nForeign)
			op.Path = chainDomain + "/r/" + r.addr(op.Signer) + "/" + name
			r.attempt(op.Path)
			msg = chainsim.MsgAddPkg(signer, op.Path, map[string]string{name + ".gno": DirectAssignRealm(name)})
			what = "add-package with a direct assignment to a /p/ package variable"
		}
		tr := r.deliver(op.Signer, msg)
		finish(tr)
		c.Case(caseKey, true)
		if tr.OK {
			c.Violation("p-write-succeeded:"+op.Kind, r.witness(map[string]any{"op_index": idx}), "%s seed %d op %d: %s succeeded (data %q): a post-init write to /p/ package state must fail", r.sc.name, r.seed, idx, what, clip(string(tr.Res.Data), 120))
			r.broken = true
		} else {
			c.Count("p_write_attempts_rejected", 1)
			c.Count("p_write_rejected:"+op.Kind, 1)
		}
	case "importsibling":
		// the storage key of a test-file sibling blob ("<path>#allbutprod") is not an importable package
		r.nForeign++
		name := fmt.Sprintf("isib%d", r.nForeign)
		op.Path = chainDomain + "/r/" + r.addr(op.Signer) + "/" + name
		r.attempt(op.Path)
		src := "package " + name + "\n\nimport _ \"" + op.Ns + "\"\n\nfunc Marker() string { return \"x\" }\n"
		tr := r.deliver(op.Signer, chainsim.MsgAddPkg(signer, op.Path, map[string]string{name + ".gno": src}))
		finish(tr)
		c.Case(caseKey, true)
		if tr.OK {
			c.Violation("sibling-blob-importable", r.witness(map[string]any{"op_index": idx, "source": src}), "%s seed %d op %d: a realm importing %q (the storage key of a test-file blob) was deployed", r.sc.name, r.seed, idx, op.Ns)
			r.broken = true
		} else {
			c.Count("add_rejected:import-of-sibling-key", 1)
		}
	case "runinit":
		tr := r.deliver(op.Signer, chainsim.MsgRun(signer, RunInitScript(InitStmts[op.Arg])))
		finish(tr)
		c.Case(caseKey, true)
		if tr.OK {
			obs := string(tr.Res.Data)
			c.Violation("p-state-mutable-in-foreign-init:run-init", r.witness(map[string]any{"op_index": idx, "script": RunInitScript(InitStmts[op.Arg])}),
				"%s seed %d op %d: MsgRun whose init() executes `%s` succeeded; main and realm mutuser then observed /p/ state %q (committed post-init state is %s): /p/ state was written after initialization from another package's init stage",
				r.sc.name, r.seed, idx, InitStmts[op.Arg], strings.TrimSpace(obs), MutInitialState)
		} else {
			c.Count("p_write_attempts_rejected", 1)
			c.Count("p_write_rejected:runinit", 1)
		}
	case "foreigninit":
		r.nForeign++
		name := fmt.Sprintf("finit%d", r.nForeign)
		op.Path = chainDomain + "/r/" + r.addr(op.Signer) + "/" + name
		r.attempt(op.Path)
		files := map[string]string{"gnomod.toml": gnomodToml(op.Path, false, ""), name + ".gno": ForeignInitRealm(name, InitStmts[op.Arg], op.ViaVar)}
		tr := r.deliver(op.Signer, chainsim.MsgAddPkg(signer, op.Path, files))
		finish(tr)
		c.Case(caseKey, true)
		if tr.OK {
			how := "addpkg-init"
			if op.ViaVar {
				how = "addpkg-var"
			}
			c.Violation("p-state-mutable-in-foreign-init:"+how, r.witness(map[string]any{"op_index": idx, "source": files[name+".gno"]}),
				"%s seed %d op %d: add-package of %s whose init stage executes `%s` succeeded: /p/ state was written after initialization from another package's init stage",
				r.sc.name, r.seed, idx, op.Path, InitStmts[op.Arg])
			// keep the model consistent with the chain: the package exists now
			o := &Op{Path: op.Path, Signer: op.Signer, Marker: ""}
			r.applyAdd(r.m.pkgs, o, files, r.ch.Height)
			r.m.pkgs[op.Path].Marker = "-"
			accepted[op.Path] = true
		} else {
			c.Count("p_write_attempts_rejected", 1)
			c.Count("p_write_rejected:foreigninit", 1)
		}
	default:
		panic("unknown op kind " + op.Kind)
	}
}

func (r *runner) attempt(path string) {
	r.m.attempted[path] = true
	if r.fresh == nil {
		r.fresh = map[string]bool{}
	}
	r.fresh[path] = true
}

func describe(d *dep) string {
	if d == nil {
		return "none"
	}
	return fmt.Sprintf("{private=%v creator=%s height=%d marker=%s redeploys=%d}", d.Private, d.Creator, d.Height, d.Marker, d.Redeploys)
}

func errLine(tr *chainsim.TxResult) string {
	if tr.OK {
		return ""
	}
	s := tr.ErrString
	if i := strings.Index(tr.Log, " - "); i >= 0 {
		t := tr.Log[i+3:]
		if j := strings.Index(t, "\n"); j >= 0 {
			t = t[:j]
		}
		s += " | " + t
	} else if i := strings.Index(tr.Log, "recovered: "); i >= 0 {
		t := tr.Log[i:]
		if j := strings.Index(t, "\n"); j >= 0 {
			t = t[:j]
		}
		s += " | " + t
	}
	return s
}

func clip(s string, n int) string {
	if len(s) > n {
		return s[:n] + "…"
	}
	return s
}

// ---------------------------------------------------------------------------------
// verification after every block

func ctxOf(d *dep) string {
	switch {
	case d.Private && d.Redeploys > 0:
		return "private-redeployed"
	case d.Private:
		return "private"
	}
	return "public"
}

func (r *runner) verify(accepted map[string]bool) {
	c := r.c
	ch := r.ch
	w := func(extra map[string]any) map[string]any { return r.witness(extra) }
	paths := r.sortedPaths(nil)
	tS := time.Now()
	lap := func(i int) {
		r.tSec[i] += time.Since(tS)
		tS = time.Now()
	}
	// ---- (1) vm/qfile: file lists and bodies
	for _, p := range paths {
		d := r.m.pkgs[p]
		var names []string
		for n := range d.Files {
			names = append(names, n)
		}
		sort.Strings(names)
		got, err := ch.Query("vm/qfile", p)
		c.Count("qfile_lists_compared", 1)
		if err != nil || got != strings.Join(names, "\n") {
			c.Violation("qfile-list-differs:"+ctxOf(d), w(map[string]any{"path": p, "want": names, "got": got, "err": fmt.Sprint(err)}),
				"%s seed %d height %d: vm/qfile %s lists %q (err %v), deployed files are %q (%s)", r.sc.name, r.seed, ch.Height, p, got, err, names, describe(d))
			r.broken = true
			continue
		}
		for _, n := range names {
			body, err := ch.Query("vm/qfile", p+"/"+n)
			c.Count("qfile_bodies_compared", 1)
			if n == "gnomod.toml" {
				r.checkToml(p, d, body, err)
				continue
			}
			if err != nil || body != d.Files[n] {
				c.Violation("qfile-body-differs:"+ctxOf(d), w(map[string]any{"path": p, "file": n, "want": d.Files[n], "got": body, "err": fmt.Sprint(err)}),
					"%s seed %d height %d: vm/qfile %s/%s returns %q (err %v), deployed body is %q", r.sc.name, r.seed, ch.Height, p, n, clip(body, 120), err, clip(d.Files[n], 120))
				r.broken = true
			}
		}
	}
	lap(0)
	// ---- (2) paths that were never accepted serve nothing
	// (every such path is queried after the block that attempted it, after every restart and at the end of the history)
	var att []string
	for p := range r.m.attempted {
		if r.m.pkgs[p] == nil && (r.fullSweep || r.fresh[p]) {
			att = append(att, p)
		}
	}
	r.fresh = map[string]bool{}
	sort.Strings(att)
	for _, p := range att {
		if _, isStdlib := r.baseline["pkg:_/"+p]; isStdlib {
			continue // a dictionary string that names a real standard library (served from its genesis blob, which check (3) pins)
		}
		// vm/qfile reads its argument as dir[/file] (std.SplitFilepath: trailing slashes are trimmed, a last element
		// with a dot is a file name): a hostile string may therefore legitimately address a deployed package
		if dir, file := splitQuery(p); dir != p {
			if d := r.m.pkgs[dir]; d != nil {
				if _, has := d.Files[file]; file == "" || has {
					continue
				}
			}
		}
		var got string
		var err error
		if pv := vf.Try(func() { got, err = ch.Query("vm/qfile", p) }); pv != nil {
			key := "query-panics:qfile"
			if strings.HasSuffix(p, "#allbutprod") && r.m.pkgs[strings.TrimSuffix(p, "#allbutprod")] != nil {
				key = "query-panics:qfile-allbutprod-suffix"
			}
			c.Violation(key, w(map[string]any{"query": "vm/qfile", "data": p, "panic": fmt.Sprint(pv)}), "%s seed %d height %d: the ABCI query vm/qfile %q panics (%v) instead of answering that nothing is deployed there", r.sc.name, r.seed, ch.Height, p, pv)
			continue
		}
		c.Count("undeployed_paths_queried", 1)
		if err == nil {
			c.Violation("qfile-serves-undeployed-path", w(map[string]any{"path": p, "got": got}), "%s seed %d height %d: vm/qfile %q serves %q although no deployment to it was ever accepted", r.sc.name, r.seed, ch.Height, p, got)
			r.broken = true
		}
	}
	lap(1)
	// ---- (3) pkg: keys of the main store (independent read-only view)
	v, err := audit.Open(ch.DB, 0)
	if err != nil {
		panic(err)
	}
	cur := map[string]string{}
	raw := map[string][]byte{}
	it := v.Main().Iterator(nil, []byte("pkg:"), []byte("pkg;"))
	for ; it.Valid(); it.Next() {
		k := string(it.Key())
		if audit.KeyClass(k) != "pkg" {
			panic("non-pkg key in pkg range: " + k)
		}
		val := append([]byte(nil), it.Value()...)
		cur[k] = fingerprint(val)
		if !strings.HasPrefix(k, "pkg:_/") {
			raw[k] = val
		}
	}
	it.Close()
	if r.baseline == nil {
		r.baseline = cur
		r.prevPkg = cur
		r.mutObjs = v.BasePrefix(r.mutOID)
		if len(r.mutObjs.Keys) == 0 {
			panic("no objects of " + MutPath + " under " + r.mutOID)
		}
		c.Count("genesis_pkg_keys", len(cur))
		r.checkMutState(v)
		return
	}
	want := map[string]string{} // key -> path
	for _, p := range paths {
		want["pkg:"+p] = p
		if hasTestFiles(r.m.pkgs[p].Files) {
			want["pkg:"+p+"#allbutprod"] = p
		}
	}
	var keys []string
	for k := range cur {
		keys = append(keys, k)
	}
	sort.Strings(keys)
	for _, k := range keys {
		if bh, ok := r.baseline[k]; ok {
			if bh != cur[k] {
				c.Violation("genesis-pkg-key-changed", w(map[string]any{"key": k}), "%s seed %d height %d: package blob %q deployed at genesis changed", r.sc.name, r.seed, ch.Height, k)
				r.broken = true
			}
			continue
		}
		p, ok := want[k]
		if !ok {
			key := "pkg-key-unexpected"
			if strings.HasSuffix(k, "#allbutprod") && r.m.pkgs[strings.TrimSuffix(strings.TrimPrefix(k, "pkg:"), "#allbutprod")] != nil {
				key = "stale-allbutprod-sibling"
			}
			c.Violation(key, w(map[string]any{"key": k}), "%s seed %d height %d: main store holds package key %q which no accepted deployment of the model accounts for", r.sc.name, r.seed, ch.Height, k)
			r.broken = true
			continue
		}
		// decode and compare with the model
		var mp *std.MemPackage
		if err := amino.Unmarshal(raw[k], &mp); err != nil || mp == nil {
			c.Violation("pkg-blob-undecodable", w(map[string]any{"key": k}), "%s seed %d height %d: %q does not decode: %v", r.sc.name, r.seed, ch.Height, k, err)
			r.broken = true
			continue
		}
		c.Count("pkg_blobs_decoded", 1)
		d := r.m.pkgs[p]
		exp := map[string]string{}
		sibling := strings.HasSuffix(k, "#allbutprod")
		for n, b := range d.Files {
			isTest := strings.HasSuffix(n, "_test.gno") || strings.HasSuffix(n, "_filetest.gno")
			if isTest == sibling {
				exp[n] = b
			}
		}
		gotF := map[string]string{}
		for _, f := range mp.Files {
			gotF[f.Name] = f.Body
		}
		if !d.learned { // the served gnomod.toml could not be learned (an earlier clause already failed): compare the rest
			delete(exp, "gnomod.toml")
			delete(gotF, "gnomod.toml")
		}
		if mp.Path != p || !sameFiles(exp, gotF) {
			c.Violation("pkg-blob-differs:"+ctxOf(d), w(map[string]any{"key": k, "want_files": fileNames(exp), "got_files": fileNames(gotF)}),
				"%s seed %d height %d: stored blob %q holds path %q files %v, the model has %v (%s)", r.sc.name, r.seed, ch.Height, k, mp.Path, fileNames(gotF), fileNames(exp), describe(d))
			r.broken = true
		}
	}
	var wk []string
	for k := range want {
		wk = append(wk, k)
	}
	sort.Strings(wk)
	for _, k := range wk {
		if _, ok := cur[k]; !ok {
			c.Violation("pkg-key-missing", w(map[string]any{"key": k}), "%s seed %d height %d: main store lacks %q of deployed package %s", r.sc.name, r.seed, ch.Height, k, describe(r.m.pkgs[want[k]]))
			r.broken = true
		}
	}
	// changes between consecutive blocks only for paths with an accepted deployment
	if accepted != nil {
		for _, k := range diffKeys(r.prevPkg, cur) {
			p := strings.TrimSuffix(strings.TrimPrefix(k, "pkg:"), "#allbutprod")
			c.Count("pkg_keys_changed", 1)
			if !accepted[p] {
				c.Violation("pkg-key-changed-without-accepted-deployment", w(map[string]any{"key": k}), "%s seed %d height %d: package key %q changed in a block with no accepted deployment to %q", r.sc.name, r.seed, ch.Height, k, p)
				r.broken = true
			}
		}
	} else if len(diffKeys(r.prevPkg, cur)) > 0 {
		c.Violation("pkg-key-changed-by-restart", w(map[string]any{"keys": diffKeys(r.prevPkg, cur)}), "%s seed %d height %d: package keys changed across a restart", r.sc.name, r.seed, ch.Height)
		r.broken = true
	}
	r.prevPkg = cur
	lap(2)
	// ---- (4) executable code: Marker() of every package
	for _, p := range paths {
		d := r.m.pkgs[p]
		if d.Marker == "-" {
			continue
		}
		got, err := ch.Eval(p, "Marker()")
		c.Count("markers_evaluated", 1)
		wantM := fmt.Sprintf("(%q string)", d.Marker)
		if err != nil || got != wantM {
			key := "code-marker-differs:" + ctxOf(d)
			if strings.Contains(got, "MUTATED") {
				key = "p-state-changed:generated-pure-package"
			}
			c.Violation(key, w(map[string]any{"path": p, "want": wantM, "got": got, "err": fmt.Sprint(err)}), "%s seed %d height %d: %s.Marker() evaluates to %q (err %v), deployed code returns %s (%s)", r.sc.name, r.seed, ch.Height, p, got, err, wantM, describe(d))
			r.broken = true
		}
	}
	lap(3)
	// ---- (5) /p/ target state
	r.checkMutState(v)
	lap(4)
}

func (r *runner) checkMutState(v *audit.View) {
	c := r.c
	got, err := r.ch.Eval(MutPath, "State()")
	want := fmt.Sprintf("(%q string)", MutInitialState)
	c.Count("p_state_checks", 1)
	if err != nil || got != want {
		c.Violation("p-state-changed:query", r.witness(map[string]any{"got": got}), "%s seed %d height %d: %s.State() is %q (err %v) after generated write attempts, post-init state is %s", r.sc.name, r.seed, r.ch.Height, MutPath, got, err, want)
		r.broken = true
	}
	now := v.BasePrefix(r.mutOID)
	if d := audit.DiffKV(r.mutObjs, now); !d.Empty() {
		c.Violation("p-state-changed:stored-objects", r.witness(map[string]any{"keys": d.All()}), "%s seed %d height %d: stored objects of %s changed after initialization: %v", r.sc.name, r.seed, r.ch.Height, MutPath, d.All())
		r.broken = true
	}
}

// checkToml validates the metadata the keeper wrote into gnomod.toml at first
// sight and requires byte stability afterwards.
func (r *runner) checkToml(p string, d *dep, body string, qerr error) {
	c := r.c
	w := r.witness(map[string]any{"path": p, "gnomod": body})
	if qerr != nil {
		c.Violation("qfile-body-differs:"+ctxOf(d), w, "%s seed %d: vm/qfile %s/gnomod.toml failed: %v", r.sc.name, r.seed, p, qerr)
		r.broken = true
		return
	}
	if d.learned {
		if body != d.Files["gnomod.toml"] {
			c.Violation("gnomod-metadata-unstable", w, "%s seed %d height %d: gnomod.toml of %s changed after deployment: %q, was %q", r.sc.name, r.seed, r.ch.Height, p, body, d.Files["gnomod.toml"])
			r.broken = true
		}
		return
	}
	bad := func(what string) {
		c.Violation("gnomod-metadata-wrong:"+what, w, "%s seed %d height %d: gnomod.toml of %s (creator %s, height %d, private %v) served as %q: %s", r.sc.name, r.seed, r.ch.Height, p, d.Creator, d.Height, d.Private, body, what)
		r.broken = true
	}
	lines := map[string]bool{}
	for _, l := range strings.Split(body, "\n") {
		lines[strings.TrimSpace(l)] = true
	}
	switch {
	case !lines[fmt.Sprintf("module = %q", p)]:
		bad("module")
	case !lines[fmt.Sprintf("creator = %q", d.Creator)]:
		bad("creator")
	case !lines[fmt.Sprintf("height = %d", d.Height)]:
		bad("height")
	case lines["private = true"] != d.Private:
		bad("private-flag")
	case strings.Contains(body, spoofAddr()):
		bad("spoofed-creator-survived")
	case strings.Count(body, "creator =") != 1 || strings.Count(body, "height =") != 1:
		bad("duplicate-metadata")
	}
	// exact form: the first deployment of each kind defines the template
	t := strings.ReplaceAll(body, fmt.Sprintf("%q", p), "\x01")
	t = strings.ReplaceAll(t, fmt.Sprintf("%q", d.Creator), "\x02")
	t = strings.ReplaceAll(t, fmt.Sprintf("height = %d", d.Height), "height = \x03")
	if prev, ok := r.tmpl[d.Private]; !ok {
		r.tmpl[d.Private] = t
		c.Count("gnomod_templates_learned", 1)
	} else if prev != t {
		bad("form-differs-from-first-deployment")
	}
	c.Count("gnomod_metadata_validated", 1)
	d.Files["gnomod.toml"] = body
	d.learned = true
}

// splitQuery mirrors how vm/qfile reads its argument.
func splitQuery(p string) (dir, file string) {
	i := strings.LastIndex(p, "/")
	if i < 0 {
		return p, ""
	}
	dir, file = p[:i+1], p[i+1:]
	if strings.Contains(file, ".") || file == "LICENSE" || file == "README" || file == "" {
		return strings.TrimRight(dir, "/"), file
	}
	return p, ""
}

func fingerprint(b []byte) string {
	// FNV-1a 64 + length is enough to notice a change of a stored blob
	h := uint64(14695981039346656037)
	for _, x := range b {
		h ^= uint64(x)
		h *= 1099511628211
	}
	return fmt.Sprintf("%016x/%d", h, len(b))
}

func sameFiles(a, b map[string]string) bool {
	if len(a) != len(b) {
		return false
	}
	for n, x := range a {
		if y, ok := b[n]; !ok || x != y {
			return false
		}
	}
	return true
}

func fileNames(m map[string]string) []string {
	var out []string
	for n := range m {
		out = append(out, n)
	}
	sort.Strings(out)
	return out
}

func diffKeys(a, b map[string]string) []string {
	var out []string
	for k, v := range b {
		if av, ok := a[k]; !ok || av != v {
			out = append(out, k)
		}
	}
	for k := range a {
		if _, ok := b[k]; !ok {
			out = append(out, k)
		}
	}
	sort.Strings(out)
	return out
}
