package c12

import (
	"strings"
)

// ---- independent model of the documented package-path rules -------------------
//
// Written from the grammar comments in gnovm/pkg/gnolang/mempackage.go and
// tm2/pkg/std/memfile.go and the keeper's extra rules, without using the
// repository's regular expressions:
//
//	path   = domain "/" letter "/" name { "/" name }          (≤ 256 bytes, no '#')
//	domain = the chain domain ("gno.land")
//	letter = "r" | "p"                                       (deployable kinds)
//	name   = [a-z][a-z0-9]* { ("_"|"-") [a-z0-9]+ }
//	the path does not end in "_test" or "_filetest";
//	the package name is the last element (the one before a trailing version
//	suffix vN), and must be a package identifier [a-z][a-z0-9_]+ ; no two
//	consecutive version suffixes at the end.

const chainDomain = "gno.land"

func isLower(c byte) bool { return c >= 'a' && c <= 'z' }
func isDigit(c byte) bool { return c >= '0' && c <= '9' }

func validName(s string) bool {
	if len(s) == 0 || !isLower(s[0]) {
		return false
	}
	prevSep := false
	for i := 1; i < len(s); i++ {
		c := s[i]
		switch {
		case isLower(c) || isDigit(c):
			prevSep = false
		case c == '_' || c == '-':
			if prevSep {
				return false
			}
			prevSep = true
		default:
			return false
		}
	}
	return !prevSep
}

func validPkgIdent(s string) bool {
	if len(s) < 2 || !isLower(s[0]) {
		return false
	}
	for i := 1; i < len(s); i++ {
		c := s[i]
		if !(isLower(c) || isDigit(c) || c == '_') {
			return false
		}
	}
	return true
}

func isVersionSuffix(s string) bool {
	if len(s) < 2 || s[0] != 'v' {
		return false
	}
	d := s[1:]
	if d == "0" {
		return true
	}
	if d[0] == '0' {
		return false
	}
	for i := 0; i < len(d); i++ {
		if !isDigit(d[i]) {
			return false
		}
	}
	return true
}

// pathInfo is the model's reading of a package path.
type pathInfo struct {
	Valid     bool
	Why       string // why invalid
	Letter    string
	Namespace string
	PkgName   string
}

func parsePath(p string) pathInfo {
	bad := func(w string) pathInfo { return pathInfo{Why: w} }
	if p == "" {
		return bad("empty")
	}
	if len(p) > 256 {
		return bad("too-long")
	}
	if strings.Contains(p, "#") {
		return bad("hash")
	}
	segs := strings.Split(p, "/")
	if segs[0] != chainDomain {
		return bad("domain")
	}
	if len(segs) < 3 {
		return bad("too-few-segments")
	}
	if segs[1] != "r" && segs[1] != "p" {
		return bad("letter")
	}
	for _, s := range segs[2:] {
		if !validName(s) {
			return bad("segment")
		}
	}
	if strings.HasSuffix(p, "_test") || strings.HasSuffix(p, "_filetest") {
		return bad("test-suffix")
	}
	last := segs[len(segs)-1]
	name := last
	if isVersionSuffix(last) {
		prev := segs[len(segs)-2]
		if isVersionSuffix(prev) {
			return bad("consecutive-version-suffixes")
		}
		name = prev
	}
	if !validPkgIdent(name) {
		return bad("package-name")
	}
	return pathInfo{Valid: true, Letter: segs[1], Namespace: segs[2], PkgName: name}
}

// invalidPath is one hostile path string with the class it was built for.
type invalidPath struct {
	Class string
	Path  string
}

// invalidPaths builds the dictionary of invalid path strings around a valid
// base path "gno.land/<l>/<ns>/<repo>" for a creator address.
func invalidPaths(letter, ns, repo, creatorAddr string) []invalidPath {
	base := chainDomain + "/" + letter + "/" + ns + "/" + repo
	long := chainDomain + "/" + letter + "/" + ns + "/" + strings.Repeat("a", 257-len(chainDomain+"/"+letter+"/"+ns+"/"))
	out := []invalidPath{
		{"wrong-domain", "example.com/" + letter + "/" + ns + "/" + repo},
		{"wrong-domain", "gno.land.evil.com/" + letter + "/" + ns + "/" + repo},
		{"wrong-domain", "gno.landx/" + letter + "/" + ns + "/" + repo},
		{"wrong-domain", "xgno.land/" + letter + "/" + ns + "/" + repo},
		{"wrong-domain", "gno.lan/" + letter + "/" + ns + "/" + repo},
		{"wrong-domain", "sub.gno.land/" + letter + "/" + ns + "/" + repo},
		{"wrong-domain", "gnoland/" + letter + "/" + ns + "/" + repo},
		{"test-suffix", base + "_test"},
		{"test-suffix", base + "_filetest"},
		{"test-suffix", chainDomain + "/" + letter + "/" + ns + "_test"},
		{"run-path", chainDomain + "/e/" + creatorAddr + "/run"},
		{"run-path", chainDomain + "/e/" + ns + "/" + repo},
		{"non-rp-letter", chainDomain + "/x/" + ns + "/" + repo},
		{"non-rp-letter", chainDomain + "/rr/" + ns + "/" + repo},
		{"non-rp-letter", chainDomain + "/a/" + ns + "/" + repo},
		{"non-rp-letter", chainDomain + "/1/" + ns + "/" + repo},
		{"non-rp-letter", chainDomain + "/" + ns + "/" + repo},
		{"upper-case", chainDomain + "/" + strings.ToUpper(letter) + "/" + ns + "/" + repo},
		{"upper-case", chainDomain + "/" + letter + "/" + strings.ToUpper(ns[:1]) + ns[1:] + "/" + repo},
		{"upper-case", chainDomain + "/" + letter + "/" + ns + "/" + strings.ToUpper(repo)},
		{"upper-case", "GNO.LAND/" + letter + "/" + ns + "/" + repo},
		{"upper-case", "Gno.land/" + letter + "/" + ns + "/" + repo},
		{"double-slash", chainDomain + "/" + letter + "/" + ns + "//" + repo},
		{"double-slash", chainDomain + "/" + letter + "//" + ns + "/" + repo},
		{"double-slash", chainDomain + "//" + letter + "/" + ns + "/" + repo},
		{"dot-segment", chainDomain + "/" + letter + "/" + ns + "/./" + repo},
		{"dot-segment", chainDomain + "/" + letter + "/" + ns + "/../" + ns + "/" + repo},
		{"dot-segment", base + "/.."},
		{"dot-segment", base + "/."},
		{"dot-segment", chainDomain + "/" + letter + "/../" + letter + "/" + ns + "/" + repo},
		{"dot-segment", chainDomain + "/" + letter + "/" + ns + "/" + repo + ".gno"},
		{"trailing-slash", base + "/"},
		{"trailing-slash", base + "//"},
		{"leading-slash", "/" + base},
		{"unicode", chainDomain + "/" + letter + "/" + ns + "/" + repo[:1] + "\u0430" + repo[1:]}, // Cyrillic а inside
		{"unicode", "gn\u043e.land/" + letter + "/" + ns + "/" + repo},                            // Cyrillic о in the domain
		{"unicode", chainDomain + "\uff0f" + letter + "/" + ns + "/" + repo},                      // fullwidth slash
		{"unicode", chainDomain + "/" + letter + "/" + ns + "/" + repo + "\u200b"},                // zero-width space
		{"unicode", chainDomain + "/" + letter + "/" + ns + "/" + "\uff41\uff41"},                 // fullwidth letters
		{"unicode", chainDomain + "/" + letter + "/" + ns + "/" + repo + "\u00e9"},
		{"very-long", long},
		{"very-long", base + strings.Repeat("/"+repo, 80)},
		{"very-long", chainDomain + "/" + letter + "/" + strings.Repeat("n", 5000) + "/" + repo},
		{"empty-segment", chainDomain + "/" + letter + "/"},
		{"empty-segment", chainDomain + "/" + letter},
		{"empty-segment", chainDomain + "/"},
		{"empty-segment", chainDomain},
		{"empty-segment", chainDomain + "/" + letter + "//"},
		{"stdlib-looking", "strings"},
		{"stdlib-looking", "math/rand"},
		{"stdlib-looking", "chain/params"},
		{"stdlib-looking", ns + "/" + repo},
		{"stdlib-looking", repo},
		{"stdlib-looking", "sys/params"},
		{"hash", base + "#allbutprod"},
		{"hash", base + "#x"},
		{"hash", chainDomain + "/" + letter + "/" + ns + "#" + repo},
		{"control-or-space", base + " "},
		{"control-or-space", " " + base},
		{"control-or-space", base + "\n"},
		{"control-or-space", base + "\x00"},
		{"control-or-space", chainDomain + "/" + letter + "/" + ns + "/" + repo[:1] + "\x00" + repo[1:]},
		{"control-or-space", base + "\t"},
		{"punctuation", base + ":x"},
		{"punctuation", chainDomain + "/" + letter + "/" + ns + "!/" + repo},
		{"punctuation", base + ".b"},
		{"punctuation", chainDomain + "/" + letter + "/" + ns + "/-" + repo},
		{"punctuation", base + "-"},
		{"punctuation", base + "_"},
		{"punctuation", chainDomain + "/" + letter + "/" + ns + "/" + repo + "--" + repo},
		{"punctuation", chainDomain + "/" + letter + "/" + ns + "/" + repo + "__" + repo},
		{"punctuation", chainDomain + "/" + letter + "/" + ns + "/" + repo + "_-" + repo},
		{"punctuation", chainDomain + "/" + letter + "/" + ns + "/1" + repo},
		{"punctuation", chainDomain + "/" + letter + "/~" + ns + "/" + repo},
		{"punctuation", chainDomain + "/" + letter + "/" + ns + "/" + repo + "@v1"},
		{"punctuation", chainDomain + "/" + letter + "/" + ns + "/" + repo + "?x=1"},
		{"punctuation", chainDomain + "/" + letter + "/" + ns + "\\" + repo},
		{"version-suffix", base + "/v2/v3"},
		{"version-suffix", chainDomain + "/" + letter + "/v2"},
		{"package-name", chainDomain + "/" + letter + "/" + ns + "/" + repo + "-x"}, // valid path grammar, but no package identifier can match it
		{"package-name", chainDomain + "/" + letter + "/" + ns + "/a"},              // one-letter package name
	}
	return out
}
