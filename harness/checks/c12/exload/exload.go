// Package exload reads packages of /repo/examples (production files only) with
// their transitive production imports, dependency-sorted, so that checks can
// deploy the repository's real system realms at genesis.
package exload

import (
	"fmt"
	"go/parser"
	"go/token"
	"os"
	"path/filepath"
	"sort"
	"strconv"
	"strings"

	gno "github.com/gnolang/gno/gnovm/pkg/gnolang"
	"github.com/gnolang/gno/tm2/pkg/std"
)

// Dir resolves the on-disk directory of an examples package (also looks in quarantined/).
func Dir(examplesRoot, pkgPath string) string {
	p := filepath.Join(examplesRoot, pkgPath)
	if _, err := os.Stat(filepath.Join(p, "gnomod.toml")); err == nil {
		return p
	}
	return filepath.Join(examplesRoot, "quarantined", pkgPath)
}

// Pkg is one package read from disk: production .gno files plus gnomod.toml.
type Pkg struct {
	Path    string
	Name    string
	Files   map[string]string
	Imports []string // non-stdlib production imports
}

func read(examplesRoot, pkgPath string) (*Pkg, error) {
	dir := Dir(examplesRoot, pkgPath)
	ents, err := os.ReadDir(dir)
	if err != nil {
		return nil, fmt.Errorf("%s: %w", pkgPath, err)
	}
	p := &Pkg{Path: pkgPath, Files: map[string]string{}}
	seen := map[string]bool{}
	for _, e := range ents {
		n := e.Name()
		if e.IsDir() {
			continue
		}
		if n != "gnomod.toml" && !strings.HasSuffix(n, ".gno") {
			continue
		}
		if strings.HasSuffix(n, "_test.gno") || strings.HasSuffix(n, "_filetest.gno") {
			continue
		}
		b, err := os.ReadFile(filepath.Join(dir, n))
		if err != nil {
			return nil, err
		}
		p.Files[n] = string(b)
		if !strings.HasSuffix(n, ".gno") {
			continue
		}
		f, err := parser.ParseFile(token.NewFileSet(), n, b, parser.ImportsOnly)
		if err != nil {
			return nil, fmt.Errorf("%s/%s: %w", pkgPath, n, err)
		}
		if p.Name == "" {
			p.Name = f.Name.Name
		}
		for _, im := range f.Imports {
			ip, _ := strconv.Unquote(im.Path.Value)
			if gno.IsStdlib(ip) || seen[ip] {
				continue
			}
			seen[ip] = true
			p.Imports = append(p.Imports, ip)
		}
	}
	sort.Strings(p.Imports)
	if p.Name == "" {
		return nil, fmt.Errorf("%s: no production .gno files in %s", pkgPath, dir)
	}
	return p, nil
}

// Load returns the given packages and all their transitive production imports
// in dependency order (imports first). Deterministic.
func Load(examplesRoot string, roots ...string) ([]*Pkg, error) {
	var out []*Pkg
	state := map[string]int{} // 1 visiting, 2 done
	var visit func(string) error
	visit = func(path string) error {
		switch state[path] {
		case 2:
			return nil
		case 1:
			return fmt.Errorf("import cycle through %s", path)
		}
		state[path] = 1
		p, err := read(examplesRoot, path)
		if err != nil {
			return err
		}
		for _, ip := range p.Imports {
			if err := visit(ip); err != nil {
				return err
			}
		}
		state[path] = 2
		out = append(out, p)
		return nil
	}
	for _, r := range roots {
		if err := visit(r); err != nil {
			return nil, err
		}
	}
	return out, nil
}

// MemFiles returns the name-sorted file list of p (gnomod.toml generated when absent).
func (p *Pkg) MemFiles() []*std.MemFile {
	var fs []*std.MemFile
	if _, ok := p.Files["gnomod.toml"]; !ok {
		fs = append(fs, &std.MemFile{Name: "gnomod.toml", Body: gno.GenGnoModLatest(p.Path)})
	}
	for n, b := range p.Files {
		fs = append(fs, &std.MemFile{Name: n, Body: b})
	}
	sort.Slice(fs, func(i, j int) bool { return fs[i].Name < fs[j].Name })
	return fs
}
