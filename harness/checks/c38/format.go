package c38

import (
	"crypto/sha256"
	"encoding/binary"
	"hash/crc32"
)

var castagnoli = crc32.MakeTable(crc32.Castagnoli)

// predictLine is the documented line format, re-implemented independently:
// base64-std-nopad( big-endian crc32c(sized) || sized ) "\n".
func predictLine(sized []byte) []byte {
	raw := make([]byte, 4+len(sized))
	binary.BigEndian.PutUint32(raw, crc32.Checksum(sized, castagnoli))
	copy(raw[4:], sized)
	out := make([]byte, b64.EncodedLen(len(raw))+1)
	b64.Encode(out, raw)
	out[len(out)-1] = '\n'
	return out
}

func hash8(b []byte) []byte {
	h := sha256.Sum256(b)
	return h[:8]
}
