// Package c38: the consensus write-ahead log preserves what was written.
//
// Oracle: an in-harness list of the elements written (messages with their
// exact amino bytes, height markers) and, independently of the group code, the
// predicted byte content of every rotated file. Monitors:
//
//	A  codec round trip      WALWriter -> WALReader over every message kind, sizes up to maxSize (exact boundary)
//	B  truncation            every truncation length of the file set: reader yields a prefix, then EOF / corruption error
//	C  corruption            every single-byte substitution in a line is reported (exclusions derived from the format, see below)
//	D  rotation + search     real baseWAL with tiny head size limits: files == prediction, read-back == written,
//	                         SearchForHeight(h) is positioned at the first element after marker h
//
// Exclusions in C (shown from wal.go): (1) meta lines "#{json}" carry no CRC
// ("TODO: CRC not used (yet)" at WALWriter.WriteMeta) - their content bytes are
// outside any checked region; they are still executed and classified; (2) the
// base64 alphabet is StdEncoding.WithPadding(NoPadding) and not .Strict(), so
// the unused low bits of the last character of a line do not reach the decoded
// bytes - a substitution changing only those bits yields the identical message;
// (3) the newline that terminates the last line: readline() returns io.EOF for
// an unterminated line, i.e. it is indistinguishable from a truncation.
package c38

import (
	"bytes"
	"encoding/base64"
	"encoding/binary"
	"errors"
	"fmt"
	"io"
	"math/rand/v2"
	"os"
	"path/filepath"
	"reflect"
	"sort"
	"strings"
	"sync"
	"sync/atomic"
	"syscall"
	"time"

	"github.com/gnolang/gno/tm2/pkg/amino"
	auto "github.com/gnolang/gno/tm2/pkg/autofile"
	walm "github.com/gnolang/gno/tm2/pkg/bft/wal"
	"github.com/gnolang/gno/tm2/pkg/log"

	"verifharness/internal/vf"
)

// viol reports a violation and counts it per key (vf keeps at most 3 replays per key / 25 per run).
func viol(c *vf.Ctx, key string, w any, format string, a ...any) {
	c.Count("violations:"+key, 1)
	c.Violation(key, w, format, a...)
}

func init() {
	vf.Register(&vf.Check{
		ID:    "C38",
		Level: "fault_enumeration",
		Rule: "cases = (log, fault): a log is a generated sequence of WAL elements (4 message kinds mirroring the consensus kinds + height markers, payloads 0..maxSize, maxSize in {64..1MiB}) " +
			"written through WALWriter or the real baseWAL with head size limits 1..8192 (rotation layouts); faults = every truncation length of the file set " +
			"(exhaustive in memory for every log <= 64 KiB, on-disk file sets at every line boundary +-1 and a stride; strided above 64 KiB), every single-byte substitution of a line " +
			"(all 255 values for lines <= 160 bytes, 8 bit flips + structural bytes for longer ones), every (marker, search mode) for SearchForHeight; " +
			"non-trivial = the fault hits inside a line (not on a boundary) / the substitution is in a CRC-protected region / the marker is at a file start or end or the height spans files; distinct by (log hash, fault)",
		Run: run,
	})
}

// ---- message kinds (the WAL treats Msg as an opaque registered amino type; the
// consensus kinds msgInfo/timeoutInfo/newRoundStepInfo are unexported, these
// mirror their shapes) ----

type TimeoutMsg struct {
	Duration time.Duration
	Height   int64
	Round    int
	Step     uint8
}

type RoundStepMsg struct {
	Height int64
	Round  int
	Step   uint8
}

type PeerMsg struct {
	Kind    string
	Payload []byte
	PeerID  string
}

type EmptyMsg struct{}

func (TimeoutMsg) AssertWALMessage()   {}
func (RoundStepMsg) AssertWALMessage() {}
func (PeerMsg) AssertWALMessage()      {}
func (EmptyMsg) AssertWALMessage()     {}

var _ = amino.RegisterPackage(amino.NewPackage(
	"verifharness/checks/c38",
	"vfwal",
	amino.GetCallersDirname(),
).WithTypes(
	TimeoutMsg{},
	RoundStepMsg{},
	PeerMsg{},
	EmptyMsg{},
))

var b64 = base64.StdEncoding.WithPadding(base64.NoPadding)

// elem is one written WAL element in the model.
type elem struct {
	meta   bool
	height int64           // meta
	twm    []byte          // amino sized bytes of the TimedWALMessage (messages written with explicit time)
	msg    []byte          // amino bytes of the Msg alone (for messages written through baseWAL, whose time is set inside)
	kind   string          // message kind
	line   []byte          // predicted line bytes incl. '\n' (nil when the time is not known)
	val    walm.WALMessage // value handed to the writer
	t      time.Time       // time handed to the writer (explicit-time elements)
}

func (e *elem) String() string {
	if e.meta {
		return fmt.Sprintf("#%d", e.height)
	}
	return fmt.Sprintf("%s/%d", e.kind, len(e.msg))
}

func metaLine(h int64) []byte { return []byte(fmt.Sprintf("#{\"h\":\"%d\"}\n", h)) }

func msgBytes(m walm.WALMessage) []byte {
	// encode through the interface so the registered type prefix is included
	return amino.MustMarshalAny(m)
}

// sameElem compares what the reader returned with a model element.
func sameElem(e *elem, twm *walm.TimedWALMessage, meta *walm.MetaMessage, exactTime bool) bool {
	if e.meta {
		return meta != nil && twm == nil && meta.Height == e.height
	}
	if twm == nil || meta != nil || twm.Msg == nil {
		return false
	}
	// decoded value == written value (field-wise; cheaper than re-encoding and equivalent for these kinds)
	if exactTime && !twm.Time.Equal(e.t) {
		return false
	}
	return reflect.DeepEqual(twm.Msg, e.val)
}

func descr(twm *walm.TimedWALMessage, meta *walm.MetaMessage) string {
	if meta != nil {
		return fmt.Sprintf("#%d", meta.Height)
	}
	if twm != nil {
		return fmt.Sprintf("%T/%d@%s", twm.Msg, len(msgBytes(twm.Msg)), twm.Time.UTC().Format(time.RFC3339Nano))
	}
	return "nil"
}

// ---- generators ----

func randTime(r *rand.Rand) time.Time {
	switch r.IntN(6) {
	case 0:
		return time.Unix(0, 0).UTC()
	case 1:
		return time.Unix(1, 1).UTC()
	case 2:
		return time.Unix(253402300799, 999999999).UTC() // 9999-12-31T23:59:59.999999999Z, max amino/proto time
	default:
		return time.Unix(1500000000+r.Int64N(500000000), r.Int64N(1000000000)).UTC()
	}
}

func randMsg(r *rand.Rand, maxPayload int) (walm.WALMessage, string) {
	switch r.IntN(8) {
	case 0:
		return TimeoutMsg{Duration: time.Duration(r.Int64N(1 << 40)), Height: r.Int64N(1 << 40), Round: r.IntN(100), Step: uint8(r.IntN(9))}, "timeout"
	case 1:
		return RoundStepMsg{Height: r.Int64N(1 << 20), Round: r.IntN(10), Step: uint8(r.IntN(9))}, "roundstep"
	case 2:
		return EmptyMsg{}, "empty"
	default:
		n := 0
		if maxPayload > 0 {
			switch r.IntN(4) {
			case 0:
				n = r.IntN(min(maxPayload, 16) + 1)
			case 1:
				n = r.IntN(min(maxPayload, 200) + 1)
			default:
				n = r.IntN(maxPayload + 1)
			}
		}
		return peerMsg(r, n), "peer"
	}
}

func fill(r *rand.Rand, p []byte) {
	i := 0
	for ; i+8 <= len(p); i += 8 {
		binary.LittleEndian.PutUint64(p[i:], r.Uint64())
	}
	for ; i < len(p); i++ {
		p[i] = byte(r.UintN(256))
	}
}

func peerMsg(r *rand.Rand, n int) PeerMsg {
	var p []byte // nil when empty: amino decodes an absent bytes field as nil
	if n > 0 {
		p = make([]byte, n)
	}
	fill(r, p)
	kinds := []string{"vote", "proposal", "blockpart", ""}
	return PeerMsg{Kind: kinds[r.IntN(len(kinds))], Payload: p, PeerID: fmt.Sprintf("g1peer%04d", r.IntN(10000))}
}

func mkElem(t time.Time, m walm.WALMessage, kind string) *elem {
	twm := amino.MustMarshalSized(walm.TimedWALMessage{Time: t, Msg: m})
	return &elem{twm: twm, msg: msgBytes(m), kind: kind, val: m, t: t}
}

// sizedPeerMsg builds a PeerMsg whose TimedWALMessage sized encoding is exactly
// target bytes (searching the payload length), or nil if unreachable.
func sizedPeerMsg(r *rand.Rand, t time.Time, target int) *elem {
	if target < 40 {
		return nil
	}
	n := target - 40
	for tries := 0; tries < 64 && n >= 0; tries++ {
		m := PeerMsg{Kind: "blockpart", PeerID: "g1peer"}
		if n > 0 {
			m.Payload = make([]byte, n)
		}
		fill(r, m.Payload)
		e := mkElem(t, m, "peer")
		d := len(e.twm) - target
		if d == 0 {
			return e
		}
		n -= d
	}
	return nil
}

// ---- reading helpers ----

type readOut struct {
	twm      *walm.TimedWALMessage
	meta     *walm.MetaMessage
	err      error
	falseEOF bool // ReadMessage returned io.EOF although more lines follow
}

// readAll reads until the input is exhausted, continuing past non-EOF errors
// when cont is set. io.EOF is taken as the end only when a second call returns
// io.EOF again (a parse error of a meta line can surface as io.EOF mid-log).
func readAll(rd io.Reader, maxSize int64, cont bool) (outs []readOut, final error, pv any) {
	dec := walm.NewWALReader(rd, maxSize)
	pv = vf.Try(func() {
		for {
			twm, meta, err := dec.ReadMessage()
			if err != nil {
				if errors.Is(err, io.EOF) {
					if !cont {
						final = err
						return
					}
					twm2, meta2, err2 := dec.ReadMessage()
					if err2 != nil && errors.Is(err2, io.EOF) {
						final = err
						return
					}
					outs = append(outs, readOut{err: err, falseEOF: true})
					if err2 != nil {
						outs = append(outs, readOut{err: err2})
					} else {
						outs = append(outs, readOut{twm: twm2, meta: meta2})
					}
					continue
				}
				outs = append(outs, readOut{err: err})
				if !cont {
					final = err
					return
				}
				continue
			}
			outs = append(outs, readOut{twm: twm, meta: meta})
		}
	})
	return
}

type runner struct {
	c      *vf.Ctx
	dirSeq atomic.Int64
	// first-example latches for the unprotected meta-line outcomes
	exAltered, exEOF, exSwallow atomic.Bool
}

func (rn *runner) newDir(tag string) string {
	d := filepath.Join(rn.c.WorkDir, fmt.Sprintf("%s-%d", tag, rn.dirSeq.Add(1)))
	if err := os.MkdirAll(d, 0o700); err != nil {
		panic(err)
	}
	return d
}

func seqStr(es []*elem) string {
	var sb strings.Builder
	for i, e := range es {
		if i > 0 {
			sb.WriteByte(' ')
		}
		sb.WriteString(e.String())
		if sb.Len() > 600 {
			sb.WriteString(" ...")
			break
		}
	}
	return sb.String()
}

// ---- phase A: codec round trip with sizes up to the max ----

func (rn *runner) phaseCodec(i int, r *rand.Rand) {
	c := rn.c
	maxSizes := []int64{64, 100, 256, 1000, 4096, 65536, 1 << 20}
	if c.Quick() {
		maxSizes = []int64{64, 100, 256, 1000, 4096, 16384, 64, 256, 1000, 65536}
		if i%25 == 24 {
			maxSizes = []int64{1 << 20} // consensus' maxMsgSize
		}
	}
	maxSize := maxSizes[i%len(maxSizes)]
	if !c.Quick() && i%11 == 10 {
		maxSize = 4 << 20
	}
	var buf bytes.Buffer
	enc := walm.NewWALWriter(&buf, maxSize)
	var es []*elem
	n := 3 + r.IntN(12)
	if maxSize >= 65536 {
		n = 2 + r.IntN(4)
	}
	h := int64(r.IntN(3))
	for j := 0; j < n; j++ {
		before := buf.Len()
		switch k := r.IntN(10); {
		case k == 0:
			h += 1 + int64(r.IntN(3))*int64(r.IntN(1000))
			if err := enc.WriteMeta(walm.MetaMessage{Height: h}); err != nil {
				panic(err)
			}
			es = append(es, &elem{meta: true, height: h})
			c.Count("codec_meta_written", 1)
		case k <= 3:
			// boundary sizes: exactly max, max-1 (accepted), max+1.. (rejected, nothing written)
			delta := []int{0, -1, 1, 2, 17}[r.IntN(5)]
			e := sizedPeerMsg(r, randTime(r), int(maxSize)+delta)
			if e == nil {
				continue
			}
			err := enc.Write(walm.TimedWALMessage{Time: mustTime(e), Msg: e.val})
			w := map[string]any{"maxSize": maxSize, "sized_len": len(e.twm)}
			if delta > 0 {
				c.Case(fmt.Sprintf("codec-big/%d/%d", maxSize, delta), true)
				if err == nil {
					viol(c, "write-accepts-oversize", w, "WALWriter(maxSize=%d).Write accepted a %d-byte message", maxSize, len(e.twm))
				} else if buf.Len() != before {
					viol(c, "rejected-write-left-bytes", w, "rejected Write appended %d bytes", buf.Len()-before)
				}
				c.Count("codec_oversize_rejected", 1)
				continue
			}
			c.Case(fmt.Sprintf("codec-max/%d/%d", maxSize, delta), true)
			if err != nil {
				viol(c, "write-rejects-max-size", w, "WALWriter(maxSize=%d).Write rejected a %d-byte message: %v", maxSize, len(e.twm), err)
				continue
			}
			if delta == 0 {
				c.Count("codec_exact_max_written", 1)
			}
			es = append(es, e)
		default:
			m, kind := randMsg(r, int(maxSize)-80)
			t := randTime(r)
			e := mkElem(t, m, kind)
			err := enc.Write(walm.TimedWALMessage{Time: t, Msg: m})
			if int64(len(e.twm)) > maxSize {
				if err == nil {
					viol(c, "write-accepts-oversize", map[string]any{"maxSize": maxSize, "sized_len": len(e.twm)}, "oversize message accepted")
				}
				c.Count("codec_oversize_rejected", 1)
				continue
			}
			if err != nil {
				viol(c, "write-rejects-valid", map[string]any{"maxSize": maxSize, "sized_len": len(e.twm)}, "valid message rejected: %v", err)
				continue
			}
			c.Count("codec_msg_"+kind, 1)
			es = append(es, e)
		}
		if k := len(es); k > 0 && !es[k-1].meta && es[k-1].line == nil {
			// independent prediction of the line: base64(crc32c || sized bytes) "\n"
			es[k-1].line = predictLine(es[k-1].twm)
		}
	}
	// the file content must be exactly the predicted lines
	var want bytes.Buffer
	for _, e := range es {
		if e.meta {
			want.Write(metaLine(e.height))
		} else {
			want.Write(e.line)
		}
	}
	if !bytes.Equal(want.Bytes(), buf.Bytes()) {
		viol(c, "encoding-differs-from-format", map[string]any{"maxSize": maxSize, "seq": seqStr(es)}, "written bytes differ from base64(crc32c||sized amino)+newline prediction")
	}
	outs, _, pv := readAll(bytes.NewReader(buf.Bytes()), maxSize, true)
	rn.compareFull("codec", outs, pv, es, true, map[string]any{"maxSize": maxSize, "seq": seqStr(es)})
	c.Case(fmt.Sprintf("codec/%d/%x", maxSize, vf.Hex(hash8(buf.Bytes()))), len(es) > 0)
	if i < 2 {
		c.Sample(map[string]any{"phase": "codec", "maxSize": maxSize, "elements": seqStr(es), "bytes": buf.Len()})
	}
}

func mustTime(e *elem) time.Time {
	var twm walm.TimedWALMessage
	if err := amino.UnmarshalSized(e.twm, &twm); err != nil {
		panic(err)
	}
	return twm.Time
}

func (rn *runner) compareFull(phase string, outs []readOut, pv any, es []*elem, exactTime bool, w map[string]any) bool {
	c := rn.c
	if pv != nil {
		viol(c, "panic:"+phase, w, "reader panicked: %v", pv)
		return false
	}
	if len(outs) != len(es) {
		w["got_n"], w["want_n"] = len(outs), len(es)
		viol(c, "readback-count:"+phase, w, "read %d elements, wrote %d", len(outs), len(es))
		return false
	}
	for k, o := range outs {
		if o.err != nil {
			w["index"] = k
			viol(c, "readback-error:"+phase, w, "element %d (%s): %v", k, es[k], o.err)
			return false
		}
		if !sameElem(es[k], o.twm, o.meta, exactTime) {
			w["index"] = k
			viol(c, "readback-differs:"+phase, w, "element %d: wrote %s, read %s", k, es[k], descr(o.twm, o.meta))
			return false
		}
	}
	c.Count("elements_read_back_equal", len(es))
	return true
}

// ---- a generated log with predicted file layout ----

type genLog struct {
	es      []*elem
	files   [][]byte // predicted content of file index 0..n-1 (last = head)
	fileOf  []int    // file index of element i
	limit   int64
	maxSize int64
}

func (g *genLog) total() int {
	n := 0
	for _, f := range g.files {
		n += len(f)
	}
	return n
}

func (g *genLog) concat() []byte {
	var b bytes.Buffer
	for _, f := range g.files {
		b.Write(f)
	}
	return b.Bytes()
}

// layout predicts the rotation: the group rotates right after a write that
// makes the head size >= limit (group.go Write).
func (g *genLog) layout() {
	g.files = [][]byte{nil}
	g.fileOf = make([]int, len(g.es))
	for i, e := range g.es {
		cur := len(g.files) - 1
		line := e.line
		if e.meta {
			line = metaLine(e.height)
		}
		g.files[cur] = append(g.files[cur], line...)
		g.fileOf[i] = cur
		if g.limit > 0 && int64(len(g.files[cur])) >= g.limit {
			g.files = append(g.files, nil)
		}
	}
}

// genElems makes a log with explicit times (lines fully predictable).
func genElems(r *rand.Rand, n int, maxPayload int, metaEvery int, startMeta bool) []*elem {
	var es []*elem
	h := int64(0)
	if startMeta {
		es = append(es, &elem{meta: true, height: 0})
	}
	for len(es) < n {
		if metaEvery > 0 && r.IntN(metaEvery) == 0 {
			h += 1
			if r.IntN(8) == 0 {
				h += int64(r.IntN(40)) // gaps
			}
			es = append(es, &elem{meta: true, height: h})
			continue
		}
		m, kind := randMsg(r, maxPayload)
		e := mkElem(randTime(r), m, kind)
		e.line = predictLine(e.twm)
		es = append(es, e)
	}
	return es
}

// ---- phase B: truncation ----

func (rn *runner) checkPrefix(phase string, outs []readOut, final error, pv any, es []*elem, complete int, L int, w func() map[string]any) {
	c := rn.c
	if pv != nil {
		viol(c, "panic:"+phase, w(), "reader panicked at truncation %d: %v", L, pv)
		return
	}
	n := 0
	for k, o := range outs {
		if o.err != nil {
			// must be the last thing and a corruption error
			if k != len(outs)-1 {
				viol(c, "truncation-error-not-last:"+phase, w(), "error before the end of a truncated log at %d: %v", L, o.err)
				return
			}
			if !walm.IsDataCorruptionError(o.err) {
				viol(c, "truncation-unexpected-error:"+phase, w(), "truncation %d: error is neither io.EOF nor DataCorruptionError: %v", L, o.err)
				return
			}
			c.Count("truncation_end_corruption_error", 1)
			break
		}
		if k >= len(es) || !sameElem(es[k], o.twm, o.meta, true) {
			ww := w()
			ww["index"] = k
			viol(c, "truncation-altered-message:"+phase, ww, "truncation %d: element %d read as %s, written %v", L, k, descr(o.twm, o.meta), at(es, k))
			return
		}
		n++
	}
	if final != nil && errors.Is(final, io.EOF) {
		c.Count("truncation_end_eof", 1)
		if n != complete {
			ww := w()
			ww["got_n"], ww["complete_lines"] = n, complete
			viol(c, "truncation-prefix-short:"+phase, ww, "truncation %d: %d complete lines precede the cut but the reader returned %d elements before EOF", L, complete, n)
		}
	} else if n > complete {
		viol(c, "truncation-prefix-long:"+phase, w(), "truncation %d: more elements than complete lines", L)
	}
}

// parallelFor runs f(0..n-1) on w goroutines (panics propagate to the caller).
func parallelFor(n, w int, f func(j int)) {
	var wg sync.WaitGroup
	var next atomic.Int64
	var pmu sync.Mutex
	var perr any
	for g := 0; g < w; g++ {
		wg.Add(1)
		go func() {
			defer wg.Done()
			defer func() {
				if r := recover(); r != nil {
					pmu.Lock()
					perr = r
					pmu.Unlock()
				}
			}()
			for {
				j := int(next.Add(1)) - 1
				if j >= n {
					return
				}
				f(j)
			}
		}()
	}
	wg.Wait()
	if perr != nil {
		panic(perr)
	}
}

func at(es []*elem, k int) any {
	if k < len(es) {
		return es[k].String()
	}
	return "<nothing>"
}

func (rn *runner) phaseTruncate(i int, r *rand.Rand) {
	c := rn.c
	// sizes: small logs with many short lines, mid logs, one near 64 KiB
	var target, maxPayload int
	switch i % 6 {
	case 0:
		target, maxPayload = 600, 40
	case 1:
		target, maxPayload = 3000, 300
	case 2:
		target, maxPayload = 9000, 1500
	case 3:
		target, maxPayload = c.N(16000, 20000), 6000
	case 4:
		target, maxPayload = 2000, 100
	default:
		target, maxPayload = c.N(24000, 60000), c.N(8000, 20000)
	}
	big := !c.Quick() && i%6 == 5 && i%12 == 11
	if big {
		target, maxPayload = 400000, 120000
	}
	limits := []int64{0, 1, 64, 200, 500, 1000, 4096}
	g := &genLog{limit: limits[r.IntN(len(limits))], maxSize: 1 << 20}
	for {
		g.es = append(g.es, genElems(r, 4, maxPayload, 5, len(g.es) == 0)...)
		g.layout()
		if g.total() >= target {
			break
		}
	}
	data := g.concat()
	total := len(data)
	if total > 65536 && !big {
		// keep the exhaustive class within the stated bound
		for g.total() > 65536 {
			g.es = g.es[:len(g.es)-1]
			g.layout()
		}
		data = g.concat()
		total = len(data)
	}
	logKey := vf.Hex(hash8(data))
	// line end offsets
	ends := make([]int, 0, len(g.es))
	for p, b := range data {
		if b == '\n' {
			ends = append(ends, p+1)
		}
	}
	if len(ends) != len(g.es) {
		panic("model: line count")
	}
	stride := 1
	if total > 65536 {
		stride = 97
		c.Count("truncation_logs_strided", 1)
	} else {
		c.Count("truncation_logs_exhaustive", 1)
	}
	boundary := map[int]bool{}
	for _, e := range ends {
		for d := -1; d <= 1; d++ {
			boundary[e+d] = true
		}
	}
	w := func(L int) func() map[string]any {
		return func() map[string]any {
			return map[string]any{"log": logKey, "total": total, "truncate_at": L, "head_limit": g.limit, "elements": seqStr(g.es), "files": len(g.files)}
		}
	}
	// in-memory, every L (split over goroutines: one 64 KiB log is ~2 GB of decoding)
	var Ls []int
	for L := 0; L <= total; L++ {
		if stride > 1 && L%stride != 0 && !boundary[L] {
			continue
		}
		Ls = append(Ls, L)
	}
	parallelFor(len(Ls), 6, func(j int) {
		L := Ls[j]
		complete := sort.SearchInts(ends, L+1) // number of ends <= L
		outs, final, pv := readAll(bytes.NewReader(data[:L]), g.maxSize, false)
		rn.checkPrefix("mem", outs, final, pv, g.es, complete, L, w(L))
		mid := complete < len(ends) && L > 0 && (complete == 0 || ends[complete-1] != L)
		c.Case(fmt.Sprintf("trunc/%s/%d", logKey, L), mid)
	})
	c.Count("truncation_points_mem", len(Ls))
	// on disk through the real group reader: boundaries +-1, file boundaries, stride
	diskStride := total/c.N(40, 400) + 1
	dir := rn.newDir("trunc")
	for L := 0; L <= total; L++ {
		if !(boundary[L] && (len(ends) < 60 || L%3 == 0)) && L%diskStride != 0 && L != total {
			continue
		}
		os.RemoveAll(dir)
		os.MkdirAll(dir, 0o700)
		head := filepath.Join(dir, "wal")
		writeFileSet(head, g.files, L)
		grp, err := auto.OpenGroup(head)
		if err != nil {
			panic(err)
		}
		gr, err := grp.NewReader(grp.MinIndex(), 0)
		if err != nil {
			panic(err)
		}
		complete := sort.SearchInts(ends, L+1)
		outs, final, pv := readAll(gr, g.maxSize, false)
		rn.checkPrefix("group", outs, final, pv, g.es, complete, L, w(L))
		gr.Close()
		grp.Close()
		c.Count("truncation_points_disk", 1)
		c.Case(fmt.Sprintf("trunc-disk/%s/%d", logKey, L), len(g.files) > 1)
	}
	os.RemoveAll(dir)
	if i < 2 {
		c.Sample(map[string]any{"phase": "truncation", "log": logKey, "bytes": total, "files": len(g.files), "head_limit": g.limit, "elements": seqStr(g.es)})
	}
}

// writeFileSet materialises the predicted file set truncated at total length L
// (files wholly after the cut do not exist; the last surviving file is the head).
func writeFileSet(head string, files [][]byte, L int) {
	var kept [][]byte
	rem := L
	for _, f := range files {
		if rem <= 0 && len(kept) > 0 {
			break
		}
		if len(f) <= rem {
			kept = append(kept, f)
			rem -= len(f)
			continue
		}
		kept = append(kept, f[:rem])
		rem = 0
		break
	}
	if len(kept) == 0 {
		kept = [][]byte{nil}
	}
	for k, f := range kept {
		p := head
		if k < len(kept)-1 {
			p = fmt.Sprintf("%s.%03d", head, k)
		}
		if err := os.WriteFile(p, f, 0o600); err != nil {
			panic(err)
		}
	}
}

// ---- phase C: single-byte corruption ----

func isB64(b byte) bool {
	return b >= 'A' && b <= 'Z' || b >= 'a' && b <= 'z' || b >= '0' && b <= '9' || b == '+' || b == '/'
}

func b64val(b byte) int {
	switch {
	case b >= 'A' && b <= 'Z':
		return int(b - 'A')
	case b >= 'a' && b <= 'z':
		return int(b-'a') + 26
	case b >= '0' && b <= '9':
		return int(b-'0') + 52
	case b == '+':
		return 62
	}
	return 63
}

func (rn *runner) phaseCorrupt(i int, r *rand.Rand) {
	c := rn.c
	maxPayload := []int{30, 60, 100, 400, 3000}[i%5]
	es := genElems(r, 5+r.IntN(4), maxPayload, 3, i%2 == 0)
	g := &genLog{es: es, maxSize: 1 << 20}
	g.layout()
	data := g.files[0]
	logKey := vf.Hex(hash8(data))
	starts := []int{0}
	for p, b := range data {
		if b == '\n' && p+1 < len(data) {
			starts = append(starts, p+1)
		}
	}
	lineOf := func(p int) int { return sort.SearchInts(starts, p+1) - 1 }
	mut := make([]byte, len(data))
	for p := 0; p < len(data); p++ {
		k := lineOf(p)
		lineLen := len(data) - starts[k]
		if k+1 < len(starts) {
			lineLen = starts[k+1] - starts[k]
		}
		var vals []byte
		if lineLen <= 160 {
			for v := 0; v < 256; v++ {
				if byte(v) != data[p] {
					vals = append(vals, byte(v))
				}
			}
		} else {
			set := map[byte]bool{}
			for b := 0; b < 8; b++ {
				set[data[p]^(1<<b)] = true
			}
			for _, v := range []byte{'\n', '#', '\r', 'A', '/', 0, 0xff, byte(r.UintN(256))} {
				if v != data[p] {
					set[v] = true
				}
			}
			for v := range set {
				vals = append(vals, v)
			}
			sort.Slice(vals, func(a, b int) bool { return vals[a] < vals[b] })
			// positions: all within the first/last 24 bytes of the line, every 7th otherwise
			off := p - starts[k]
			if off > 24 && off < lineLen-24 && off%7 != 0 {
				continue
			}
		}
		for _, v := range vals {
			copy(mut, data)
			mut[p] = v
			rn.oneCorruption(logKey, es, data, mut, starts, p, k, v)
		}
	}
	if i < 1 {
		c.Sample(map[string]any{"phase": "corruption", "log": logKey, "bytes": len(data), "elements": seqStr(es)})
	}
}

func (rn *runner) oneCorruption(logKey string, es []*elem, data, mut []byte, starts []int, p, k int, v byte) {
	c := rn.c
	last := k == len(es)-1
	end := len(data) // exclusive end of line k incl. newline
	if !last {
		end = starts[k+1]
	}
	atNewline := p == end-1
	e := es[k]
	w := func() map[string]any {
		return map[string]any{"log": logKey, "pos": p, "line": k, "line_kind": e.String(), "old": data[p], "new": v, "offset_in_line": p - starts[k],
			"line_text": truncateStr(string(data[starts[k]:end]), 300), "elements": seqStr(es)}
	}
	outs, _, pv := readAll(bytes.NewReader(mut), 1<<20, true)
	if pv != nil {
		viol(c, "panic:corruption", w(), "reader panicked on a corrupted log: %v", pv)
		return
	}
	// classify
	affected := map[int]bool{k: true}
	class := ""
	mustErr := true
	identical := false
	switch {
	case atNewline && last:
		class = "last-delimiter"
		mustErr = false // io.EOF (unterminated line), element k dropped
	case atNewline:
		affected[k+1] = true
		class = "delimiter"
		if e.meta {
			class = "meta-delimiter"
			mustErr = false
		}
	case e.meta:
		class = "meta-content"
		mustErr = false
	case v == '\n':
		class = "split"
	case isB64(v) && p == end-2 && trailingBitsOnly(data[starts[k]:end-1], data[p], v):
		class = "b64-trailing-bits"
		mustErr = false
		identical = true
		delete(affected, k)
	case isB64(v):
		class = "b64-symbol"
	default:
		class = "non-alphabet"
	}
	c.Count("corruption_"+class, 1)
	protected := class == "b64-symbol" || class == "non-alphabet" || class == "split" || class == "delimiter"
	c.Case(fmt.Sprintf("corrupt/%s/%d/%d", logKey, p, v), protected)
	// expected survivors
	var want []*elem
	for j, x := range es {
		if !affected[j] {
			want = append(want, x)
		}
	}
	nErr, nFalseEOF := 0, 0
	var got []readOut
	for _, o := range outs {
		if o.err != nil {
			nErr++
			switch {
			case o.falseEOF:
				nFalseEOF++
			case walm.IsDataCorruptionError(o.err):
				c.Count("corruption_reported_as_DataCorruptionError", 1)
			default:
				c.Count("corruption_reported_as_plain_error", 1)
			}
			continue
		}
		got = append(got, o)
	}
	if e.meta {
		// Unprotected region (meta line content and its delimiter). Whatever the
		// outcome for line k (and the line merged into it), every untouched element
		// must still be read intact and in order, and no data message may be
		// fabricated: got == want[:k] + (0..2 meta messages) + want[k:].
		extra := len(got) - len(want)
		if extra < 0 || extra > 2 {
			ww := w()
			ww["got_n"], ww["want_n"] = len(got), len(want)
			viol(c, "meta-corruption-survivors-count:"+class, ww, "after corrupting an unprotected meta line (%s) %d elements were read, %d are untouched", class, len(got), len(want))
			return
		}
		for j := 0; j < extra; j++ {
			ins := got[k+j]
			if ins.meta == nil {
				viol(c, "meta-corruption-yields-message", w(), "corrupted meta line decoded as a data message %s", descr(ins.twm, ins.meta))
				return
			}
			if ins.meta.Height == e.height {
				c.Count("meta_unprotected_same_height", 1)
			} else {
				c.Count("meta_unprotected_silently_altered_height", 1)
				if rn.exAltered.CompareAndSwap(false, true) {
					ww := w()
					ww["read_height"] = ins.meta.Height
					c.Set("meta_unprotected_example_altered_height", ww)
				}
			}
		}
		got = append(append([]readOut{}, got[:k]...), got[k+extra:]...)
		if nFalseEOF > 0 {
			c.Count("meta_unprotected_reported_as_EOF_mid_log", 1)
			if rn.exEOF.CompareAndSwap(false, true) {
				c.Set("meta_unprotected_example_eof_mid_log", w())
			}
		}
		if nErr-nFalseEOF > 0 {
			c.Count("meta_unprotected_reported_error", 1)
		}
		if atNewline && !last && nErr == 0 {
			c.Count("meta_unprotected_delimiter_swallowed_next_line", 1)
			if !es[k+1].meta {
				c.Count("meta_unprotected_delimiter_swallowed_data_line", 1)
				if rn.exSwallow.CompareAndSwap(false, true) {
					c.Set("meta_unprotected_example_swallowed_data_line", w())
				}
			}
		}
		if nErr == 0 && extra == 0 && !(atNewline && last) {
			c.Count("meta_unprotected_vanished_silently", 1)
		}
	} else if identical {
		if nErr != 0 {
			// stricter than required; fine, but then element k must be absent
			c.Count("b64_trailing_bits_reported", 1)
			want = nil
			for j, x := range es {
				if j != k {
					want = append(want, x)
				}
			}
		}
	} else {
		if nFalseEOF > 0 {
			viol(c, "corruption-reported-as-eof:"+class, w(), "corruption (%s) of a CRC-protected line surfaced as io.EOF in the middle of the log", class)
			return
		}
		if mustErr && nErr == 0 {
			ww := w()
			ww["read"] = len(got)
			viol(c, "corruption-not-reported:"+class, ww, "single-byte corruption (%s) at byte %d of line %d (%s) produced no error", class, p-starts[k], k, e)
			return
		}
	}
	if class == "last-delimiter" && nErr > 0 {
		c.Count("last_delimiter_reported", 1)
	}
	if len(got) != len(want) {
		ww := w()
		ww["got_n"], ww["want_n"] = len(got), len(want)
		viol(c, "corruption-survivors-count:"+class, ww, "after corruption (%s) %d elements were read, expected the %d untouched ones", class, len(got), len(want))
		return
	}
	for j := range got {
		if !sameElem(want[j], got[j].twm, got[j].meta, true) {
			ww := w()
			ww["index"] = j
			viol(c, "corruption-altered-message:"+class, ww, "after corruption (%s) element %d read as %s, written %s", class, j, descr(got[j].twm, got[j].meta), want[j])
			return
		}
	}
}

func truncateStr(s string, n int) string {
	if len(s) <= n {
		return s
	}
	return s[:n] + "..."
}

// trailingBitsOnly: the substituted last character differs from the original
// only in bits that a non-strict, unpadded base64 decoder discards.
func trailingBitsOnly(line []byte, old, new byte) bool {
	var unused uint
	switch len(line) % 4 {
	case 2:
		unused = 4
	case 3:
		unused = 2
	default:
		return false
	}
	return b64val(old)>>unused == b64val(new)>>unused
}

// ---- phase D: rotation layouts and SearchForHeight through the real baseWAL ----

func (rn *runner) phaseSearch(i int, r *rand.Rand) {
	c := rn.c
	limits := []int64{1, 1, 40, 90, 150, 300, 700, 2000, 8192, 0, 1, 60}
	limit := limits[i%len(limits)]
	maxSize := int64(1 << 20)
	dir := rn.newDir("wal")
	defer os.RemoveAll(dir)
	walFile := filepath.Join(dir, "cs.wal", "wal")
	opts := []func(*auto.Group){}
	if limit > 0 {
		opts = append(opts, auto.GroupHeadSizeLimit(limit))
	}
	wal, err := walm.NewWAL(walFile, maxSize, opts...)
	if err != nil {
		panic(err)
	}
	wal.SetLogger(log.NewNoopLogger())
	if err := wal.Start(); err != nil {
		panic(err)
	}
	defer func() {
		wal.Stop()
		wal.Wait()
	}()
	// OnStart wrote #0 into the empty group.
	es := []*elem{{meta: true, height: 0}}
	// baseWAL.Write stamps the wall-clock time, whose varint length changes the line length by a
	// few bytes: to keep the rotation layout a function of the seed, the real Write/WriteSync are
	// used where the layout cannot depend on line lengths (no rotation, or rotation after every
	// line); otherwise messages go through a WALWriter on the WAL's own group with explicit times
	// (exactly what baseWAL.Write does) and the real WriteMetaSync / FlushAndSync.
	useAPI := limit <= 1
	enc := walm.NewWALWriter(wal.Group(), maxSize)
	writeMsg := func(m walm.WALMessage, kind string) {
		var err error
		switch {
		case useAPI && r.IntN(3) == 0:
			err = wal.WriteSync(m)
			c.Count("wal_writesync", 1)
		case useAPI:
			err = wal.Write(m)
			c.Count("wal_write", 1)
		default:
			err = enc.Write(walm.TimedWALMessage{Time: randTime(r), Msg: m})
			c.Count("wal_group_writer", 1)
		}
		if err != nil {
			panic(err)
		}
		es = append(es, &elem{msg: msgBytes(m), kind: kind, val: m})
	}
	nH := 3 + r.IntN(c.N(8, 20))
	perH := []int{0, 1, 2, 3, 6}[r.IntN(5)]
	maxPayload := []int{0, 20, 120, 600}[r.IntN(4)]
	h := int64(0)
	if r.IntN(4) == 0 {
		h = int64(r.IntN(1000)) // chain starting above 1
	}
	for a := 0; a < nH; a++ {
		nm := perH
		if perH > 0 {
			nm = r.IntN(2*perH + 1)
		}
		for b := 0; b < nm; b++ {
			m, kind := randMsg(r, maxPayload)
			writeMsg(m, kind)
		}
		h++
		if r.IntN(10) == 0 {
			h += int64(r.IntN(30))
		}
		if err := wal.WriteMetaSync(walm.MetaMessage{Height: h}); err != nil {
			panic(err)
		}
		c.Count("wal_writemetasync", 1)
		es = append(es, &elem{meta: true, height: h})
	}
	// trailing messages of the unfinished height
	for b := r.IntN(3); b > 0; b-- {
		m, kind := randMsg(r, maxPayload)
		writeMsg(m, kind)
	}
	if err := wal.FlushAndSync(); err != nil {
		panic(err)
	}
	grp := wal.Group()
	// actual layout from the directory: read every file, split lines
	minIdx, maxIdx := grp.MinIndex(), grp.MaxIndex()
	var fileLines []int // number of lines per file index
	var all []byte
	for idx := minIdx; idx <= maxIdx; idx++ {
		p := walFile
		if idx < maxIdx {
			p = fmt.Sprintf("%s.%03d", walFile, idx)
		}
		b, err := os.ReadFile(p)
		if err != nil && !(idx == maxIdx && os.IsNotExist(err)) {
			panic(err)
		}
		fileLines = append(fileLines, bytes.Count(b, []byte{'\n'}))
		if len(b) > 0 && b[len(b)-1] != '\n' {
			viol(c, "file-ends-mid-line", map[string]any{"file": p, "limit": limit}, "rotated file %s does not end with a newline", p)
		}
		if limit > 0 && idx < maxIdx {
			// rotation rule: a rotated file reached the limit with its last line only
			lastNL := bytes.LastIndexByte(b[:len(b)-1], '\n')
			if int64(len(b)) < limit || int64(lastNL+1) >= limit {
				viol(c, "rotation-rule", map[string]any{"file": p, "size": len(b), "limit": limit}, "file %s (size %d) violates rotate-when-head>=limit (%d)", p, len(b), limit)
			}
		}
		all = append(all, b...)
	}
	nLines := 0
	for _, n := range fileLines {
		nLines += n
	}
	w := map[string]any{"head_limit": limit, "elements": seqStr(es), "files": len(fileLines), "lines_per_file": fmt.Sprint(clip(fileLines, 60))}
	layoutKey := fmt.Sprintf("%d/%v/%s", limit, fileLines, seqStr(es))
	if nLines != len(es) {
		viol(c, "files-line-count", w, "files hold %d lines, wrote %d elements", nLines, len(es))
		return
	}
	// fileOf / position in file
	fileOf := make([]int, len(es))
	firstInFile := make([]bool, len(es))
	lastInFile := make([]bool, len(es))
	k := 0
	for f, n := range fileLines {
		for j := 0; j < n; j++ {
			fileOf[k] = f
			firstInFile[k] = j == 0
			lastInFile[k] = j == n-1
			k++
		}
	}
	// read back the whole group
	gr, err := grp.NewReader(minIdx, 0)
	if err != nil {
		panic(err)
	}
	outs, _, pv := readAll(gr, maxSize, true)
	gr.Close()
	if !rn.compareFull("group", outs, pv, es, false, w) {
		return
	}
	c.Count("layouts", 1)
	c.Count("layout_files", len(fileLines))
	// search every marker in every mode
	modes := []*walm.WALSearchOptions{nil, {Mode: walm.WALSearchModeBackwards}, {Mode: walm.WALSearchModeBinary}, {IgnoreDataCorruptionErrors: true}}
	modeNames := []string{"default", "backwards", "binary", "default+ignorecorrupt"}
	present := map[int64]int{}
	for idx, e := range es {
		if e.meta {
			present[e.height] = idx
		}
	}
	for idx, e := range es {
		if !e.meta {
			continue
		}
		// classify the layout around this marker
		spans := false
		for j := idx + 1; j < len(es) && !es[j].meta; j++ {
			if fileOf[j] != fileOf[idx] {
				spans = true
			}
		}
		nextOtherFile := idx+1 < len(es) && fileOf[idx+1] != fileOf[idx]
		switch {
		case lastInFile[idx] && firstInFile[idx] && nextOtherFile:
			c.Count("marker_alone_in_file", 1)
		case lastInFile[idx] && nextOtherFile:
			c.Count("marker_at_file_end", 1)
		case firstInFile[idx]:
			c.Count("marker_at_file_start", 1)
		default:
			c.Count("marker_mid_file", 1)
		}
		if spans {
			c.Count("height_spans_files", 1)
		}
		for mi, opt := range modes {
			rn.searchOne(wal, es, idx, opt, modeNames[mi], maxSize, layoutKey, nextOtherFile, spans, firstInFile[idx], w)
		}
	}
	// absent heights
	var absent []int64
	absent = append(absent, h+1, h+1000)
	for q := int64(0); q <= h && len(absent) < 12; q++ {
		if _, ok := present[q]; !ok {
			absent = append(absent, q)
		}
	}
	for _, q := range absent {
		for mi, opt := range modes {
			var rd io.ReadCloser
			var found bool
			var err error
			pv := vf.Try(func() { rd, found, err = wal.SearchForHeight(q, opt) })
			c.Case(fmt.Sprintf("search-absent/%s/%d/%s", layoutKey, q, modeNames[mi]), len(fileLines) > 1)
			ww := cloneMap(w)
			ww["height"], ww["mode"] = q, modeNames[mi]
			if pv != nil {
				viol(c, "search-panic-absent", ww, "SearchForHeight(%d) for an absent height panicked: %v", q, pv)
				continue
			}
			if found {
				viol(c, "search-found-absent", ww, "SearchForHeight(%d) reports found for a height that was never written", q)
			}
			if err != nil {
				c.Count("search_absent_error", 1)
			}
			if rd != nil {
				rd.Close()
			}
			c.Count("search_absent", 1)
		}
	}
	if i < 3 {
		c.Sample(map[string]any{"phase": "search", "head_limit": limit, "lines_per_file": fmt.Sprint(clip(fileLines, 40)), "elements": seqStr(es)})
	}
	// ---- restart of a long-lived log: the same files under rotation indices around 1000 (indices only
	// grow over a node's life; old files are pruned), then the WAL is opened again on the directory
	if len(fileLines) >= 2 && i%2 == 0 {
		wal.Stop()
		wal.Wait()
		shift := []int{996, 998, 999, 1000, 99_995}[r.IntN(5)] - minIdx
		for idx := maxIdx - 1; idx >= minIdx; idx-- { // rotated files only; the head keeps its name
			if err := os.Rename(fmt.Sprintf("%s.%03d", walFile, idx), fmt.Sprintf("%s.%03d", walFile, idx+shift)); err != nil {
				panic(err)
			}
		}
		wal2, err := walm.NewWAL(walFile, maxSize, opts...)
		if err != nil {
			panic(err)
		}
		wal2.SetLogger(log.NewNoopLogger())
		ww := cloneMap(w)
		ww["reopened_with_first_rotated_index"] = minIdx + shift
		ww["last_rotated_index"] = maxIdx - 1 + shift
		if err := wal2.Start(); err != nil {
			viol(c, "reopen-failed", ww, "opening the WAL again on its own directory (rotated files %d..%d) failed: %v", minIdx+shift, maxIdx-1+shift, err)
			return
		}
		defer func() {
			wal2.Stop()
			wal2.Wait()
		}()
		c.Count("layouts_reopened_high_index", 1)
		g2 := wal2.Group()
		if g2.MinIndex() != minIdx+shift || g2.MaxIndex() != maxIdx+shift {
			viol(c, "reopen-index-range", ww, "after reopening, the group reports indices %d..%d; the directory holds rotated files %d..%d plus the head", g2.MinIndex(), g2.MaxIndex(), minIdx+shift, maxIdx-1+shift)
			return
		}
		gr2, err := g2.NewReader(g2.MinIndex(), 0)
		if err != nil {
			viol(c, "reopen-reader", ww, "NewReader after reopen: %v", err)
			return
		}
		outs2, _, pv2 := readAll(gr2, maxSize, true)
		gr2.Close()
		if !rn.compareFull("group-after-reopen", outs2, pv2, es, false, ww) {
			return
		}
		for idx, e := range es {
			if !e.meta {
				continue
			}
			spans := false
			for j := idx + 1; j < len(es) && !es[j].meta; j++ {
				if fileOf[j] != fileOf[idx] {
					spans = true
				}
			}
			nextOtherFile := idx+1 < len(es) && fileOf[idx+1] != fileOf[idx]
			for mi, opt := range modes {
				rn.searchOne(wal2, es, idx, opt, modeNames[mi]+"/reopened", maxSize, layoutKey+fmt.Sprint("/shift", shift), nextOtherFile, spans, firstInFile[idx], ww)
			}
		}
	}
}

func clip(v []int, n int) []int {
	if len(v) > n {
		return v[:n]
	}
	return v
}

func cloneMap(m map[string]any) map[string]any {
	o := make(map[string]any, len(m)+4)
	for k, v := range m {
		o[k] = v
	}
	return o
}

func (rn *runner) searchOne(wal walm.WAL, es []*elem, idx int, opt *walm.WALSearchOptions, mode string, maxSize int64, layoutKey string, nextOtherFile, spans, first bool, w map[string]any) {
	c := rn.c
	h := es[idx].height
	ww := cloneMap(w)
	ww["height"], ww["mode"], ww["marker_index"] = h, mode, idx
	ww["marker_last_in_file"] = nextOtherFile
	c.Case(fmt.Sprintf("search/%s/%d/%s", layoutKey, h, mode), nextOtherFile || spans || first)
	var rd io.ReadCloser
	var found bool
	var err error
	if pv := vf.Try(func() { rd, found, err = wal.SearchForHeight(h, opt) }); pv != nil {
		viol(c, "search-panic", ww, "SearchForHeight(%d,%s) panicked: %v", h, mode, pv)
		return
	}
	if err != nil {
		viol(c, "search-error", ww, "SearchForHeight(%d,%s): %v", h, mode, err)
		return
	}
	if !found || rd == nil {
		viol(c, "search-not-found", ww, "SearchForHeight(%d,%s) did not find a written marker", h, mode)
		return
	}
	defer rd.Close()
	c.Count("search_found", 1)
	// as consensus/replay.go does: wrap the returned reader in a WALReader
	outs, _, pv := readAll(rd, maxSize, true)
	if pv != nil {
		viol(c, "search-read-panic", ww, "reading after SearchForHeight(%d) panicked: %v", h, pv)
		return
	}
	rest := es[idx+1:]
	// (1) the position: the first element read is the one written right after the marker
	if len(rest) > 0 {
		if len(outs) == 0 {
			key := "search-eof-instead-of-next"
			if nextOtherFile {
				key = "search-eof-when-marker-ends-file"
			}
			ww["expected_next"] = rest[0].String()
			viol(c, key, ww, "SearchForHeight(%d,%s): reader is at EOF, but %s was written right after the marker (in the next file: %v)", h, mode, rest[0], nextOtherFile)
			return
		}
		if outs[0].err != nil || !sameElem(rest[0], outs[0].twm, outs[0].meta, false) {
			ww["expected_next"] = rest[0].String()
			ww["got"] = descr(outs[0].twm, outs[0].meta)
			viol(c, "search-wrong-position", ww, "SearchForHeight(%d,%s): first element read is %s (err %v), written after the marker: %s", h, mode, descr(outs[0].twm, outs[0].meta), outs[0].err, rest[0])
			return
		}
	} else if len(outs) != 0 {
		viol(c, "search-wrong-position", ww, "SearchForHeight(%d,%s): marker is the last element but the reader yields %s", h, mode, descr(outs[0].twm, outs[0].meta))
		return
	}
	c.Count("search_position_ok", 1)
	// (2) everything the reader yields is the written continuation, in order
	for j, o := range outs {
		if o.err != nil || j >= len(rest) || !sameElem(rest[j], o.twm, o.meta, false) {
			ww["index_after_marker"] = j
			viol(c, "search-continuation-differs", ww, "SearchForHeight(%d,%s): element %d after the marker read as %s (err %v), written %v", h, mode, j, descr(o.twm, o.meta), o.err, at(rest, j))
			return
		}
	}
	// (3) the messages of height h+1 (up to the next marker) must all be readable from the returned reader
	need := 0
	for need < len(rest) && !rest[need].meta {
		need++
	}
	if len(outs) < need {
		ww["messages_of_height"], ww["readable"] = need, len(outs)
		viol(c, "search-reader-stops-at-file-end", ww, "SearchForHeight(%d,%s): %d messages follow the marker before the next marker, the returned reader yields only %d and then EOF (it does not continue into the next file)", h, mode, need, len(outs))
		return
	}
	c.Count("search_height_fully_readable", 1)
}

func cpuSeconds() float64 {
	var ru syscall.Rusage
	syscall.Getrusage(syscall.RUSAGE_SELF, &ru)
	return float64(ru.Utime.Sec+ru.Stime.Sec) + float64(ru.Utime.Usec+ru.Stime.Usec)/1e6
}

func run(c *vf.Ctx) {
	rn := &runner{c: c}
	workers := 12
	defer func() { c.Logf("done (cpu %.1fs)", cpuSeconds()) }()
	c.Logf("phase A codec")
	c.Parallel(c.N(100, 1400), workers, 1000, rn.phaseCodec)
	c.Logf("phase B truncation (cpu %.1fs)", cpuSeconds())
	c.Parallel(c.N(10, 48), workers, 100000, rn.phaseTruncate)
	c.Logf("phase C corruption (cpu %.1fs)", cpuSeconds())
	c.Parallel(c.N(10, 100), workers, 200000, rn.phaseCorrupt)
	c.Logf("phase D rotation + search (cpu %.1fs)", cpuSeconds())
	c.Parallel(c.N(60, 400), workers, 300000, rn.phaseSearch)

	c.Assume("message kinds: the consensus kinds (msgInfo, timeoutInfo, newRoundStepInfo) are unexported; four harness kinds with the same shapes are registered with amino - the WAL treats Msg as an opaque registered type")
	c.Assume("meta lines carry no checksum (wal.go WriteMeta: 'TODO: CRC not used (yet)'): corruptions of their content bytes are executed and classified but not required to be reported")
	c.Assume("a substitution that changes only the discarded low bits of the last base64 character decodes to the identical bytes (non-strict unpadded base64) and is expected to return the identical message")
	c.Assume("CRC-32C misses a random multi-byte change with probability 2^-32 (split/merge classes); single-symbol changes are bursts <= 6 bits and always detected")
	for _, k := range []string{"codec_exact_max_written", "codec_oversize_rejected", "codec_meta_written", "codec_msg_peer", "codec_msg_timeout", "codec_msg_roundstep", "codec_msg_empty"} {
		c.RequireCounter(k, 1)
	}
	c.RequireCounter("truncation_logs_exhaustive", 4)
	c.RequireCounter("truncation_points_mem", 50000)
	c.RequireCounter("truncation_points_disk", 200)
	c.RequireCounter("corruption_b64-symbol", 10000)
	c.RequireCounter("corruption_non-alphabet", 10000)
	c.RequireCounter("corruption_split", 100)
	c.RequireCounter("corruption_delimiter", 100)
	c.RequireCounter("corruption_b64-trailing-bits", 1)
	c.RequireCounter("corruption_meta-content", 100)
	c.RequireCounter("layouts", 20)
	c.RequireCounter("wal_write", 20)
	c.RequireCounter("wal_writesync", 10)
	c.RequireCounter("wal_writemetasync", 50)
	c.RequireCounter("wal_group_writer", 100)
	c.RequireCounter("search_found", 200)
	c.RequireCounter("marker_at_file_start", 5)
	c.RequireCounter("marker_mid_file", 5)
	c.Require("marker_at_file_end+alone", c.Counter("marker_at_file_end")+c.Counter("marker_alone_in_file"), 5)
	c.RequireCounter("height_spans_files", 5)
	c.RequireCounter("search_absent", 50)
}
