// Package c24: B+ tree hashes depend only on the operation history.
//
// Oracle: differential twins plus an independent hash. One logical history
// (sets, removes, saves, rollbacks) is executed under a base configuration and
// under a matrix of variants (reopen after every k-th save, node cache
// 0/1/64/10^4, fast index off/on/toggled across restarts, pruning schedules,
// on-disk DB, rollback replaced by crash-restart, excursions to older
// versions, export -> import into an empty DB followed by a continuation of the
// history). Every variant must produce the base's root hash for every version
// and at sampled working states, and the contents of every retained version
// must equal the ordered-map model. The base's hashes are themselves checked
// against a root hash recomputed bottom-up by the harness' own SHA-256
// mini-merkle from the node contents (verif hook), so "all twins agree on a
// wrong hash" is not a pass.
package c24

import (
	"bytes"
	"errors"
	"fmt"
	"math/rand/v2"
	"path/filepath"
	"runtime/debug"
	"strings"
	"sync"

	"github.com/gnolang/gno/tm2/pkg/bptree"
	dbm "github.com/gnolang/gno/tm2/pkg/db"
	"github.com/gnolang/gno/tm2/pkg/db/goleveldb"
	"github.com/gnolang/gno/tm2/pkg/db/memdb"

	"verifharness/checks/c23/bpgen"
	"verifharness/internal/vf"
)

func init() {
	vf.Register(&vf.Check{
		ID:    "C24",
		Level: "exploration",
		Rule: "case = (generated logical history of 200-2000 ops over 10-60 versions [some deep, ~3000 ops], configuration variant); variants per history: " +
			"cache 0 / 1 / 64, fast index on, fast index toggled at every restart, reopen after every k-th save (k in 1,2,3,5), pruning schedule " +
			"(keep-recent 1 / 3, sparse random prefix prunes), on-disk goleveldb with real close/reopen, a random combination (incl. rollback-by-crash-restart and " +
			"load-older-version excursions), and export->import of sampled versions into an empty DB followed by 3 more versions of the history; " +
			"non-trivial = variant differs from the base configuration and the history has >= 3 versions and >= 1 node split; distinct by (history hash, variant)",
		Run: run,
	})
}

const (
	fastOff = iota
	fastOn
	fastToggle
)

const (
	pruneNone = iota
	pruneKeep1
	pruneKeep3
	pruneSparse
)

type variant struct {
	name          string
	cache         int
	fast          int
	reopenEvery   int
	prune         int
	backend       string
	crashRollback bool // Rollback replaced by abandoning the handle and reopening
	failedSaves   bool // some saves first fail (injected batch write error) after extra junk edits, are rolled back and redone
	excursions    bool // after some saves: LoadVersion(older) then Load()
}

func (v variant) String() string {
	return fmt.Sprintf("%s{cache=%d fast=%d reopenEvery=%d prune=%d db=%s crashRollback=%v excursions=%v}",
		v.name, v.cache, v.fast, v.reopenEvery, v.prune, v.backend, v.crashRollback, v.excursions)
}

var baseVariant = variant{name: "base", cache: 10000, backend: "memdb"}

// baseline: what every variant must reproduce.
type baseline struct {
	h       *bpgen.History
	hashes  [][]byte         // index = version (0 unused)
	working map[int][]byte   // op index -> WorkingHash after that op
	snaps   []bpgen.Snapshot // index = version: model contents
	saveAt  []int            // index = version: op index of its save
	splits  int
	exports map[int64][]*bptree.ExportNode
	maxH    int
}

type runner struct {
	c   *vf.Ctx
	id  int
	b   *baseline
	v   variant
	rng *rand.Rand
	dir string

	db   dbm.DB
	tree *bptree.MutableTree
	fast bool
	ret  []int64
	bad  bool
	st   *stats
}

type stats struct {
	mu                                                                     sync.Mutex
	hashCmp, workCmp, contentVersions, contentItems, reopens, prunes       int64
	imports, importCont, excursions, crashRollbacks, emptyImports, toggles int64
	variants                                                               map[string]int
	walks                                                                  int64
	failedSaves                                                            int64
}

func (s *stats) add(f func()) { s.mu.Lock(); f(); s.mu.Unlock() }

func (r *runner) violation(key, format string, args ...any) {
	r.bad = true
	d := fmt.Sprintf(format, args...)
	r.c.Violation(key, map[string]any{
		"history_case": r.id, "params": r.b.h.Params.String(), "variant": r.v.String(), "detail": d,
		"replay": "deterministic: re-run C24 at this seed and tier; history index selects the rng stream",
	}, "history %d (%s) variant %s: %s", r.id, r.b.h.Params, r.v, d)
}

func (r *runner) openDB() {
	if r.v.backend == "goleveldb" {
		db, err := goleveldb.NewGoLevelDB("t", r.dir)
		if err != nil {
			panic(err)
		}
		r.db = db
		return
	}
	r.db = memdb.NewMemDB()
}

// failDB makes the next batch write fail once when armed (an I/O error at commit time).
type failDB struct {
	dbm.DB
	armed *bool
}

type failBatch struct {
	dbm.Batch
	armed *bool
}

var errInjected = fmt.Errorf("injected batch write error")

func (b failBatch) Write() error {
	if *b.armed {
		*b.armed = false
		return errInjected
	}
	return b.Batch.Write()
}

func (b failBatch) WriteSync() error {
	if *b.armed {
		*b.armed = false
		return errInjected
	}
	return b.Batch.WriteSync()
}

func (d failDB) NewBatch() dbm.Batch { return failBatch{d.DB.NewBatch(), d.armed} }
func (d failDB) NewBatchWithSize(n int) dbm.Batch {
	return failBatch{d.DB.NewBatchWithSize(n), d.armed}
}

func (r *runner) open() {
	if r.v.failedSaves {
		if _, ok := r.db.(failDB); !ok {
			r.db = failDB{r.db, new(bool)}
		}
	}
	var opts []bptree.Option
	if r.fast {
		opts = append(opts, bptree.FastIndexOption(true))
	}
	r.tree = bptree.NewMutableTreeWithDB(r.db, r.v.cache, bptree.NewNopLogger(), opts...)
}

func (r *runner) reopen(latest int64) bool {
	r.tree.Close()
	if r.v.backend == "goleveldb" {
		if err := r.db.Close(); err != nil {
			panic(err)
		}
		r.openDB()
	}
	if r.v.fast == fastToggle {
		r.fast = !r.fast
		r.st.add(func() { r.st.toggles++ })
	}
	r.open()
	got, err := r.tree.Load()
	if err != nil || got != latest {
		r.violation("reopen:load-failed", "Load after reopen returned (%d, %v), latest saved version is %d", got, err, latest)
		return false
	}
	r.st.add(func() { r.st.reopens++ })
	return true
}

// dims names how the variant differs from the base (violation key suffix).
func (v variant) dims() string {
	var d []string
	if v.name == "import" {
		d = append(d, "import")
	}
	if v.cache != baseVariant.cache {
		d = append(d, fmt.Sprintf("cache%d", v.cache))
	}
	switch v.fast {
	case fastOn:
		d = append(d, "fast")
	case fastToggle:
		d = append(d, "fasttoggle")
	}
	if v.reopenEvery > 0 {
		d = append(d, "reopen")
	}
	if v.prune != pruneNone {
		d = append(d, "prune")
	}
	if v.backend != "memdb" {
		d = append(d, v.backend)
	}
	if v.crashRollback {
		d = append(d, "crashrollback")
	}
	if v.excursions {
		d = append(d, "excursions")
	}
	if v.failedSaves {
		d = append(d, "failedsaves")
	}
	if len(d) == 0 {
		return "base"
	}
	return strings.Join(d, "+")
}

// contents compares a retained version (and its hash) with the model.
func (r *runner) contents(ver int64, sampleGets int) {
	imm, err := r.tree.GetImmutable(ver)
	if err != nil {
		r.violation("contents:version-unreadable:"+r.v.dims(), "GetImmutable(%d): %v", ver, err)
		return
	}
	defer imm.Close()
	if !bytes.Equal(imm.Hash(), r.b.hashes[ver]) {
		r.violation("root-hash-differs:"+r.v.dims(), "version %d read back with hash %x, base configuration has %x", ver, imm.Hash(), r.b.hashes[ver])
		return
	}
	snap := r.b.snaps[ver]
	i := 0
	ok := true
	_, err = imm.Iterate(func(k, v []byte) bool {
		if i >= len(snap) || !bytes.Equal(k, snap[i].K) || v == nil || !bytes.Equal(v, snap[i].V) {
			ok = false
			return true
		}
		i++
		return false
	})
	if err != nil || !ok || i != len(snap) {
		r.violation("contents-differ:"+r.v.dims(), "version %d: iteration diverges from the model at item %d of %d (err=%v)", ver, i, len(snap), err)
		return
	}
	for j := 0; j < sampleGets && len(snap) > 0; j++ {
		kv := snap[r.rng.IntN(len(snap))]
		got, err := imm.Get(kv.K)
		if err != nil || got == nil || !bytes.Equal(got, kv.V) {
			r.violation("contents-differ:get:"+r.v.dims(), "version %d: Get(%x)=%x err=%v, model %x", ver, kv.K, got, err, kv.V)
			return
		}
		absent := append(append([]byte{}, kv.K...), 0x00)
		if _, found := snap.Search(absent); !found {
			if got, _ := imm.Get(absent); got != nil {
				r.violation("contents-differ:get:"+r.v.dims(), "version %d: Get(%x)=%x for an absent key", ver, absent, got)
				return
			}
		}
	}
	r.st.add(func() { r.st.contentVersions++; r.st.contentItems += int64(len(snap)) })
}

// replay executes ops[from:to) on r.tree (already positioned), comparing with the baseline.
func (r *runner) replay(from, to int, latest int64) int64 {
	b := r.b
	sinceReopen := 0
	for i := from; i < to && !r.bad; i++ {
		op := b.h.Ops[i]
		switch op.Kind {
		case bpgen.OpSet:
			if _, err := r.tree.Set(append([]byte{}, op.Key...), append([]byte{}, op.Val...)); err != nil {
				r.violation("replay:set-error:"+r.v.dims(), "op %d %s: %v", i, op, err)
			}
		case bpgen.OpRemove:
			if _, _, err := r.tree.Remove(append([]byte{}, op.Key...)); err != nil {
				r.violation("replay:remove-error:"+r.v.dims(), "op %d %s: %v", i, op, err)
			}
		case bpgen.OpRollback:
			if r.v.crashRollback && latest > 0 {
				if !r.reopen(latest) {
					return latest
				}
				r.st.add(func() { r.st.crashRollbacks++ })
			} else {
				r.tree.Rollback()
			}
		case bpgen.OpSave:
			if fd, ok := r.db.(failDB); ok && r.rng.IntN(3) == 0 {
				// detour: junk edits on top of the pending ones, a save that fails at the batch write,
				// rollback, the version's own edits again (the logical history is unchanged)
				for k := 1 + r.rng.IntN(3); k > 0; k-- {
					j := r.rng.IntN(i + 1)
					if o := b.h.Ops[j]; o.Kind == bpgen.OpSet || o.Kind == bpgen.OpRemove {
						r.tree.Set(append([]byte{}, o.Key...), []byte{0xde, 0xad, byte(r.rng.IntN(256))})
					}
				}
				*fd.armed = true
				if _, _, err := r.tree.SaveVersion(); err == nil {
					*fd.armed = false
					r.violation("replay:injected-save-error-not-reported:"+r.v.dims(), "op %d: SaveVersion returned nil although the batch write failed", i)
					return latest
				}
				*fd.armed = false
				r.tree.Rollback()
				start := 0
				for j := i - 1; j >= 0; j-- {
					if k := b.h.Ops[j].Kind; k == bpgen.OpSave || k == bpgen.OpRollback || k == bpgen.OpLoadVersion || k == bpgen.OpReopen {
						start = j + 1
						break
					}
				}
				for j := start; j < i; j++ {
					switch o := b.h.Ops[j]; o.Kind {
					case bpgen.OpSet:
						r.tree.Set(append([]byte{}, o.Key...), append([]byte{}, o.Val...))
					case bpgen.OpRemove:
						r.tree.Remove(append([]byte{}, o.Key...))
					}
				}
				r.st.add(func() { r.st.failedSaves++ })
			}
			hash, ver, err := r.tree.SaveVersion()
			if err != nil {
				r.violation("replay:save-error:"+r.v.dims(), "op %d save: %v", i, err)
				return latest
			}
			latest++
			if ver != latest {
				r.violation("replay:version:"+r.v.dims(), "op %d save returned version %d, want %d", i, ver, latest)
				return latest
			}
			r.st.add(func() { r.st.hashCmp++ })
			if !bytes.Equal(hash, b.hashes[ver]) {
				r.violation("root-hash-differs:"+r.v.dims(), "version %d (op %d): SaveVersion hash %x, base configuration produced %x", ver, i, hash, b.hashes[ver])
				return latest
			}
			if !bytes.Equal(r.tree.Hash(), hash) {
				r.violation("root-hash-differs:Hash():"+r.v.dims(), "version %d: Hash() after save %x != SaveVersion hash %x", ver, r.tree.Hash(), hash)
				return latest
			}
			r.ret = append(r.ret, ver)
			sinceReopen++
			if r.v.reopenEvery > 0 && sinceReopen >= r.v.reopenEvery {
				sinceReopen = 0
				if !r.reopen(latest) {
					return latest
				}
				if !bytes.Equal(r.tree.Hash(), hash) || !bytes.Equal(r.tree.WorkingHash(), hash) {
					r.violation("root-hash-differs:after-reopen:"+r.v.dims(), "version %d: after reopen Hash()=%x WorkingHash()=%x, saved %x", ver, r.tree.Hash(), r.tree.WorkingHash(), hash)
					return latest
				}
				if r.rng.IntN(3) == 0 {
					r.contents(ver, 8)
				}
			}
			r.pruneAfterSave(latest)
			if r.v.excursions && len(r.ret) >= 2 && r.rng.IntN(3) == 0 && !r.bad {
				old := r.ret[r.rng.IntN(len(r.ret)-1)]
				if _, err := r.tree.LoadVersion(old); err != nil {
					r.violation("excursion:load-error:"+r.v.dims(), "LoadVersion(%d): %v", old, err)
					return latest
				}
				if !bytes.Equal(r.tree.Hash(), b.hashes[old]) || !bytes.Equal(r.tree.WorkingHash(), b.hashes[old]) {
					r.violation("root-hash-differs:loaded-old:"+r.v.dims(), "LoadVersion(%d): Hash()=%x WorkingHash()=%x, base %x", old, r.tree.Hash(), r.tree.WorkingHash(), b.hashes[old])
					return latest
				}
				if _, err := r.tree.Load(); err != nil {
					r.violation("excursion:load-error:"+r.v.dims(), "Load back to latest: %v", err)
					return latest
				}
				r.st.add(func() { r.st.excursions++ })
			}
		}
		if want, ok := b.working[i]; ok && !r.bad {
			r.st.add(func() { r.st.workCmp++ })
			if got := r.tree.WorkingHash(); !bytes.Equal(got, want) {
				r.violation("working-hash-differs:"+r.v.dims(), "after op %d %s: WorkingHash %x, base configuration %x", i, op, got, want)
			}
		}
	}
	return latest
}

func (r *runner) pruneAfterSave(latest int64) {
	to := int64(0)
	switch r.v.prune {
	case pruneKeep1:
		to = latest - 1
	case pruneKeep3:
		to = latest - 3
	case pruneSparse:
		if latest%4 == 0 && len(r.ret) >= 2 {
			to = r.ret[r.rng.IntN(len(r.ret)-1)]
		}
	}
	if to < 1 || len(r.ret) == 0 || to < r.ret[0] {
		return
	}
	if err := r.tree.DeleteVersionsTo(to); err != nil {
		r.violation("prune:error:"+r.v.dims(), "DeleteVersionsTo(%d) with retained %v: %v", to, r.ret, err)
		return
	}
	keep := r.ret[:0:0]
	for _, v := range r.ret {
		if v > to {
			keep = append(keep, v)
		}
	}
	r.ret = keep
	r.st.add(func() { r.st.prunes++ })
	// the survivors right after a prune: oldest in full, hash of the rest at the end
	if len(r.ret) > 0 && r.rng.IntN(4) == 0 {
		r.contents(r.ret[0], 4)
	}
}

func (r *runner) runVariant() {
	r.fast = r.v.fast == fastOn
	r.openDB()
	r.open()
	defer func() {
		r.tree.Close()
		r.db.Close()
	}()
	if _, err := r.tree.Load(); err != nil {
		r.violation("replay:load-error", "Load on an empty DB: %v", err)
		return
	}
	latest := r.replay(0, len(r.b.h.Ops), 0)
	if r.bad {
		return
	}
	for _, v := range r.ret {
		if r.bad {
			return
		}
		r.contents(v, 24)
	}
	// the clean working tree reads (fast-index path when enabled)
	snap := r.b.snaps[latest]
	for j := 0; j < 32 && len(snap) > 0; j++ {
		kv := snap[r.rng.IntN(len(snap))]
		got, err := r.tree.Get(kv.K)
		if err != nil || got == nil || !bytes.Equal(got, kv.V) {
			r.violation("contents-differ:working-get:"+r.v.dims(), "latest %d: working Get(%x)=%x err=%v, model %x", latest, kv.K, got, err, kv.V)
			return
		}
	}
	if av := r.tree.AvailableVersions(); len(av) != len(r.ret) {
		r.violation("prune:available-versions:"+r.v.dims(), "AvailableVersions()=%v, expected %v", av, r.ret)
	}
}

// importVersion imports the exported stream of version ver into an empty DB,
// compares, then continues the history for a few versions.
func (r *runner) importVersion(ver int64) {
	b := r.b
	r.fast = r.v.fast == fastOn
	r.openDB()
	r.open()
	defer func() {
		r.tree.Close()
		r.db.Close()
	}()
	nodes := b.exports[ver]
	imp, err := r.tree.Import(ver)
	if err != nil {
		r.violation("import:error", "Import(%d) into an empty DB: %v", ver, err)
		return
	}
	for i, n := range nodes {
		// hand the importer its own copy: the stream is shared between variants
		cn := &bptree.ExportNode{Key: append([]byte(nil), n.Key...), Value: append([]byte{}, n.Value...), Height: n.Height, NumKeys: n.NumKeys}
		if n.Value == nil {
			cn.Value = nil
		}
		for _, sk := range n.SeparatorKeys {
			cn.SeparatorKeys = append(cn.SeparatorKeys, append([]byte(nil), sk...))
		}
		if err := imp.Add(cn); err != nil {
			imp.Close()
			r.violation("import:add-rejected", "version %d: Add of exported node %d/%d rejected: %v", ver, i, len(nodes), err)
			return
		}
	}
	if err := imp.Commit(); err != nil {
		imp.Close()
		r.violation("import:commit-error", "version %d: Commit: %v", ver, err)
		return
	}
	imp.Close()
	if len(nodes) == 0 {
		r.st.add(func() { r.st.emptyImports++ })
	}
	r.st.add(func() { r.st.imports++; r.st.hashCmp++ })
	if got := r.tree.Hash(); !bytes.Equal(got, b.hashes[ver]) {
		r.violation("root-hash-differs:import", "version %d: imported tree has hash %x, exported version had %x", ver, got, b.hashes[ver])
		return
	}
	if r.tree.Version() != ver {
		r.violation("import:version", "imported tree reports version %d, want %d", r.tree.Version(), ver)
		return
	}
	if r.v.reopenEvery > 0 {
		if !r.reopen(ver) {
			return
		}
	}
	r.ret = []int64{ver}
	r.contents(ver, 48)
	if r.bad {
		return
	}
	// continue the history on top of the imported tree
	from := b.saveAt[ver] + 1
	toVer := min(int(ver)+3, len(b.hashes)-1)
	if toVer <= int(ver) {
		return
	}
	to := b.saveAt[toVer] + 1
	latest := r.replay(from, to, ver)
	if r.bad {
		return
	}
	r.st.add(func() { r.st.importCont += latest - ver })
	r.contents(latest, 16)
}

// buildBaseline runs the history under the base configuration and the model.
func buildBaseline(c *vf.Ctx, id int, h *bpgen.History, rng *rand.Rand, st *stats) *baseline {
	b := &baseline{h: h, working: map[int][]byte{}, exports: map[int64][]*bptree.ExportNode{}}
	b.hashes = [][]byte{nil}
	b.snaps = []bpgen.Snapshot{nil}
	b.saveAt = []int{-1}
	fail := func(key, format string, args ...any) *baseline {
		d := fmt.Sprintf(format, args...)
		c.Violation(key, map[string]any{"history_case": id, "params": h.Params.String(), "detail": d}, "history %d (%s) base configuration: %s", id, h.Params, d)
		return nil
	}
	db := memdb.NewMemDB()
	tree := bptree.NewMutableTreeWithDB(db, baseVariant.cache, bptree.NewNopLogger())
	defer tree.Close()
	if _, err := tree.Load(); err != nil {
		return fail("base:load-error", "Load: %v", err)
	}
	var m bpgen.Model
	var lastSnap bpgen.Snapshot
	leaves := 0
	for i, op := range h.Ops {
		switch op.Kind {
		case bpgen.OpSet:
			if _, err := tree.Set(append([]byte{}, op.Key...), append([]byte{}, op.Val...)); err != nil {
				return fail("base:set-error", "op %d %s: %v", i, op, err)
			}
			m.Set(op.Key, op.Val)
		case bpgen.OpRemove:
			if _, _, err := tree.Remove(append([]byte{}, op.Key...)); err != nil {
				return fail("base:remove-error", "op %d %s: %v", i, op, err)
			}
			m.Remove(op.Key)
		case bpgen.OpRollback:
			tree.Rollback()
			m.Load(lastSnap)
		case bpgen.OpSave:
			before := append([]byte(nil), tree.WorkingHash()...)
			hash, ver, err := tree.SaveVersion()
			if err != nil || int(ver) != len(b.hashes) {
				return fail("base:save-error", "op %d save: version %d err %v", i, ver, err)
			}
			if !bytes.Equal(before, hash) {
				return fail("base:working-hash-differs-from-saved", "op %d: WorkingHash just before the save %x, SaveVersion hash %x", i, before, hash)
			}
			lastSnap = m.Snapshot()
			b.hashes = append(b.hashes, append([]byte(nil), hash...))
			b.snaps = append(b.snaps, lastSnap)
			b.saveAt = append(b.saveAt, i)
			// independent hash: recompute from node contents
			imm, err := tree.GetImmutable(ver)
			if err != nil {
				return fail("base:version-unreadable", "GetImmutable(%d): %v", ver, err)
			}
			view, err := imm.VerifView()
			imm.Close()
			if err != nil {
				return fail("base:walk-error", "version %d: %v", ver, err)
			}
			problems := 0
			res := bpgen.Walk(view, bpgen.Lookup(lastSnap), true, len(lastSnap), func(sig, detail string) {
				problems++
				fail("base:"+sig, "version %d: %s", ver, detail)
			})
			if problems > 0 {
				return nil
			}
			st.add(func() { st.walks++ })
			if !bytes.Equal(res.RootHash[:], hash) {
				return fail("base:root-hash-not-recomputable", "version %d: SaveVersion hash %x, hash recomputed from node contents and model values %x", ver, hash, res.RootHash)
			}
			if res.Leaves > leaves {
				b.splits += res.Leaves - leaves
			}
			leaves = res.Leaves
			b.maxH = max(b.maxH, res.Height)
		}
		if i%41 == 7 {
			b.working[i] = append([]byte(nil), tree.WorkingHash()...)
			if i%4 == 0 { // the uncommitted working hash must be recomputable from the node contents too
				view, err := tree.VerifWorkingView()
				if err != nil {
					return fail("base:walk-error", "working tree after op %d: %v", i, err)
				}
				problems := 0
				res := bpgen.Walk(view, bpgen.Lookup(&m), false, m.Len(), func(sig, detail string) {
					problems++
					fail("base:working:"+sig, "after op %d: %s", i, detail)
				})
				if problems > 0 {
					return nil
				}
				st.add(func() { st.walks++ })
				if !bytes.Equal(res.RootHash[:], b.working[i]) {
					return fail("base:working-hash-not-recomputable", "after op %d: WorkingHash %x, hash recomputed from node contents and model values %x", i, b.working[i], res.RootHash)
				}
			}
		}
	}
	// export a sample of versions (all when few)
	nv := len(b.hashes) - 1
	pick := map[int64]bool{int64(nv): true, 1: true}
	for len(pick) < min(nv, 7) {
		pick[int64(1+rng.IntN(nv))] = true
	}
	for ver := range pick {
		imm, err := tree.GetImmutable(ver)
		if err != nil {
			return fail("base:version-unreadable", "GetImmutable(%d): %v", ver, err)
		}
		exp, err := imm.VerifExport()
		if err != nil {
			imm.Close()
			if errors.Is(err, bptree.ErrNotInitializedTree) && len(b.snaps[ver]) == 0 {
				b.exports[ver] = nil // documented: an empty tree has no export stream; import commits an empty tree
				continue
			}
			return fail("export:error", "Export of version %d: %v", ver, err)
		}
		var nodes []*bptree.ExportNode
		for {
			n, err := exp.Next()
			if errors.Is(err, bptree.ErrExportDone) {
				break
			}
			if err != nil {
				exp.Close()
				imm.Close()
				return fail("export:error", "Export of version %d: Next: %v", ver, err)
			}
			nodes = append(nodes, n)
		}
		exp.Close()
		imm.Close()
		// the exported leaf entries are the model contents, in order
		j := 0
		for _, n := range nodes {
			if n.Height == 0 {
				if j >= len(b.snaps[ver]) || !bytes.Equal(n.Key, b.snaps[ver][j].K) || !bytes.Equal(n.Value, b.snaps[ver][j].V) {
					return fail("export:contents-differ", "version %d: exported entry %d = (%x,%x) differs from the model", ver, j, n.Key, n.Value)
				}
				j++
			}
		}
		if j != len(b.snaps[ver]) {
			return fail("export:contents-differ", "version %d: exported %d entries, model has %d", ver, j, len(b.snaps[ver]))
		}
		b.exports[ver] = nodes
	}
	return b
}

func histKey(h *bpgen.History) string {
	hh := uint64(1469598103934665603)
	mix := func(b []byte) {
		for _, x := range b {
			hh ^= uint64(x)
			hh *= 1099511628211
		}
		hh ^= 0xff
		hh *= 1099511628211
	}
	for _, o := range h.Ops {
		mix([]byte{byte(o.Kind)})
		mix(o.Key)
		mix(o.Val)
	}
	return fmt.Sprintf("%016x", hh)
}

func run(c *vf.Ctx) {
	defer debug.SetGCPercent(debug.SetGCPercent(400))
	n := c.N(36, 700)
	st := &stats{variants: map[string]int{}}
	var h3, totalVersions, totalSplits int64
	var mu sync.Mutex

	c.Parallel(n, 14, 5000, func(i int, rng *rand.Rand) {
		p := bpgen.GenParams{Mode: bpgen.KeyMode(i % int(bpgen.NumModes)), AllowEmpty: true, Rollbacks: true, BigValues: i%4 == 0}
		p.NOps = 200 + rng.IntN(1801)
		p.NVersions = 10 + rng.IntN(51)
		if i%8 == 5 {
			p.Deep = true
			p.NOps = 2200 + rng.IntN(900)
			p.NVersions = 10 + rng.IntN(25)
		}
		h := bpgen.GenHistory(rng, p)
		b := buildBaseline(c, i, h, rng, st)
		if b == nil {
			c.Case(fmt.Sprintf("%s|base-failed", histKey(h)), false)
			return
		}
		hk := histKey(h)
		nv := len(b.hashes) - 1
		mu.Lock()
		totalVersions += int64(nv)
		totalSplits += int64(b.splits)
		if b.maxH >= 3 {
			h3++
		}
		mu.Unlock()

		ks := []int{1, 2, 3, 5}
		variants := []variant{
			{name: "cache0", cache: 0, backend: "memdb"},
			{name: "cache1", cache: 1, backend: "memdb"},
			{name: "cache64", cache: 64, backend: "memdb"},
			{name: "fast", cache: 10000, fast: fastOn, backend: "memdb"},
			{name: "fasttoggle", cache: 10000, fast: fastToggle, reopenEvery: 1 + i%2, backend: "memdb"},
			{name: "reopen", cache: 10000, reopenEvery: ks[i%4], backend: "memdb"},
			{name: "prune", cache: 10000, prune: 1 + i%3, backend: "memdb"},
			{name: "failedsaves", cache: []int{16, 64, 10000}[i%3], backend: "memdb", failedSaves: true},
			{name: "failedsaves-fast", cache: 10000, fast: fastOn, prune: i % 3, backend: "memdb", failedSaves: true},
			{name: "combo", cache: []int{0, 1, 64, 10000}[rng.IntN(4)], fast: rng.IntN(3), reopenEvery: rng.IntN(4), prune: rng.IntN(4),
				backend: "memdb", crashRollback: rng.IntN(2) == 0, excursions: true},
			{name: "combo2", cache: []int{0, 1, 64}[rng.IntN(3)], fast: fastOn, reopenEvery: 1 + rng.IntN(3), prune: 1 + rng.IntN(3),
				backend: "memdb", crashRollback: true, excursions: rng.IntN(2) == 0},
		}
		if i%2 == 1 && len(h.Ops) <= 1300 {
			variants = append(variants, variant{name: "disk", cache: 64, fast: rng.IntN(2), reopenEvery: 1 + rng.IntN(3), prune: rng.IntN(3), backend: "goleveldb"})
		}
		for vi, v := range variants {
			if v.fast == fastToggle && v.reopenEvery == 0 {
				v.reopenEvery = 2
			}
			r := &runner{c: c, id: i, b: b, v: v, rng: rng, st: st, dir: filepath.Join(c.WorkDir, fmt.Sprintf("h%d-v%d", i, vi))}
			if pv := vf.Try(r.runVariant); pv != nil {
				r.violation("panic:"+v.dims(), "panic: %v", pv)
			}
			c.Case(hk+"|"+v.String(), !r.bad && nv >= 3 && b.splits >= 1)
			st.add(func() { st.variants[v.name]++ })
		}
		// export -> import -> continue
		for ver, nodes := range b.exports {
			_ = nodes
			v := variant{name: "import", cache: []int{0, 64, 10000}[rng.IntN(3)], fast: rng.IntN(2), reopenEvery: rng.IntN(2), backend: "memdb"}
			r := &runner{c: c, id: i, b: b, v: v, rng: rng, st: st}
			if pv := vf.Try(func() { r.importVersion(ver) }); pv != nil {
				r.violation("panic:import", "panic importing version %d: %v", ver, pv)
			}
			c.Case(fmt.Sprintf("%s|import v%d|%s", hk, ver, v), !r.bad && nv >= 3 && b.splits >= 1)
			st.add(func() { st.variants[v.name]++ })
		}
		if i < 5 {
			c.Sample(map[string]any{"history_case": i, "params": p.String(), "ops": len(h.Ops), "versions": nv, "max_height": b.maxH,
				"leaf_count_growth": b.splits, "root_hash_v1": fmt.Sprintf("%x", b.hashes[1]), "root_hash_last": fmt.Sprintf("%x", b.hashes[nv]),
				"variants": len(variants), "exported_versions": len(b.exports)})
		}
	})

	c.Count("version_hash_comparisons", int(st.hashCmp))
	c.Count("working_hash_comparisons", int(st.workCmp))
	c.Count("retained_versions_content_checked", int(st.contentVersions))
	c.Count("content_items_compared", int(st.contentItems))
	c.Count("reopens", int(st.reopens))
	c.Count("fast_index_toggles", int(st.toggles))
	c.Count("prunes", int(st.prunes))
	c.Count("imports", int(st.imports))
	c.Count("empty_tree_imports", int(st.emptyImports))
	c.Count("versions_continued_after_import", int(st.importCont))
	c.Count("old_version_excursions", int(st.excursions))
	c.Count("crash_restart_rollbacks", int(st.crashRollbacks))
	c.Count("independent_root_hash_recomputations", int(st.walks))
	c.Count("failed_saves_injected", int(st.failedSaves))
	c.RequireCounter("failed_saves_injected", 20)
	c.Count("base_versions", int(totalVersions))
	c.Count("base_leaf_count_growth", int(totalSplits))
	c.Count("histories_reaching_height_3", int(h3))
	for k, v := range st.variants {
		c.Count("variant_"+k, v)
	}
	c.Assume("differential oracle: the base configuration (memdb, cache 10^4, no fast index, never reopened, nothing pruned) is the reference twin; its hashes are additionally recomputed by the harness' own SHA-256 mini-merkle from node contents and model values")
	c.Assume("hash equality is byte equality of the 32-byte root hash returned by SaveVersion / Hash / WorkingHash")

	c.RequireCounter("version_hash_comparisons", 2000)
	c.RequireCounter("working_hash_comparisons", 1000)
	c.RequireCounter("reopens", 100)
	c.RequireCounter("fast_index_toggles", 20)
	c.RequireCounter("prunes", 100)
	c.RequireCounter("imports", 20)
	c.RequireCounter("versions_continued_after_import", 20)
	c.RequireCounter("old_version_excursions", 10)
	c.RequireCounter("crash_restart_rollbacks", 1)
	c.RequireCounter("histories_reaching_height_3", 1)
	c.RequireCounter("variant_disk", 1)
	for _, v := range []string{"cache0", "cache1", "cache64", "fast", "fasttoggle", "reopen", "prune", "combo", "import"} {
		c.RequireCounter("variant_"+v, 1)
	}
}
