// Package c10: gas metering is sound and consistent.
//
// Four monitors on the real app:
//  (i)   every tx: success ⇒ GasUsed ≤ GasWanted; GasUsed > GasWanted ⇒ the tx failed with an out-of-gas error;
//        an out-of-gas tx has paid its fee and left nothing else (delegated to the C02 twin, re-asserted here on the signer's balance);
//  (ii)  the same tx on the same state uses the same gas: every block is executed on a warm chain and on a twin
//        that was restarted (cold object/type/node caches) right before that block;
//  (iii) block gas: with S = Σ min(GasUsed, GasWanted) over the block's earlier txs that passed ante (a lower bound of
//        what the block meter holds), a tx that succeeds satisfies S + GasUsed ≤ MaxGas, and once S ≥ MaxGas every later
//        tx of the block is rejected without being executed (GasUsed 0, no effects);
//  (iv)  hostile programs (unbounded loops, deep recursion, allocation bombs, string doubling, big-constant folding,
//        native string/hash calls on growing inputs, map growth, storage-heavy loops) always end in success, out-of-gas
//        or an allocation-limit/Gno error within their gas limit, and for successful runs more work costs more gas.
package c10

import (
	"fmt"
	"math/rand/v2"
	"strings"
	"time"

	"github.com/gnolang/gno/tm2/pkg/std"

	"verifharness/internal/audit"
	"verifharness/internal/chainsim"
	"verifharness/internal/monitors"
	"verifharness/internal/hist"
	"verifharness/internal/vf"
)

func init() {
	vf.Register(&vf.Check{
		ID:    "C10",
		Level: "exploration",
		Rule: "cases = (a) every tx of generated histories incl. a low-block-gas scenario, each executed warm and cold; (b) hostile MsgRun programs = family × size; (c) engineered txs that write (coins, realm state) and then run out of gas, one per block: committed state before/after may differ by the fee only; " +
			"non-trivial = the tx ran out of gas, hit the block gas limit, or is a hostile program; distinct by (history seed, block, index) or (family, size)",
		Run: run,
	})
}

func isOOG(t *chainsim.TxResult) bool {
	return strings.Contains(t.ErrString, "OutOfGas") || strings.Contains(strings.ToLower(t.ErrString+t.Log), "out of gas")
}

func start(maxGas int64) *chainsim.Chain {
	ch, err := chainsim.New(chainsim.Options{MaxGas: maxGas})
	if err != nil {
		panic(err)
	}
	r := ch.InitChain(hist.Genesis(ch))
	if r.Error != nil {
		panic(r.Error)
	}
	ch.RunBlock()
	return ch
}

func run(c *vf.Ctx) {
	type sc struct {
		maxGas, gasCap int64
		burn           bool
	}
	// the third scenario lands the block gas meter EXACTLY on the limit: the first tx of every
	// block wants the whole block (GasWanted == MaxGas) and runs out of gas
	scs := []sc{{0, 0, false}, {80_000_000, 60_000_000, true}, {40_000_000, -40_000_000, true}}
	nPer := c.N(1, 6)
	var jobs []func(rng *rand.Rand)
	for si, s := range scs {
		for i := 0; i < nPer; i++ {
			s, seed := s, uint64(c.Seed)*100+uint64(si*10+i)
			jobs = append(jobs, func(rng *rand.Rand) { histories(c, s.maxGas, s.gasCap, s.burn, seed, rng) })
		}
	}
	jobs = append(jobs, func(rng *rand.Rand) { hostile(c, rng) })
	jobs = append(jobs, func(rng *rand.Rand) { oogEffects(c, rng) })
	c.Parallel(len(jobs), 6, 2500, func(i int, rng *rand.Rand) { jobs[i](rng) })
	c.Assume("clause (i) is read as: a successful tx never reports more gas than it asked for, and a tx that reports more has failed with out-of-gas (the gas meter records the charge that crossed the limit, so an out-of-gas tx reports slightly more than GasWanted)")
	c.Assume("block-gas bookkeeping is checked through a lower bound of the block meter (ante-rejected txs also consume block gas that is not reported)")
	c.RequireCounter("txs_observed", 60)
	c.RequireCounter("out_of_gas_txs", 2)
	c.RequireCounter("block_gas_limit_failures", 1)
	c.RequireCounter("txs_rejected_after_exhaustion", 3)
	c.RequireCounter("warm_cold_gas_compared", 40)
	c.RequireCounter("hostile_programs_run", 20)
	c.RequireCounter("hostile_outcome:out-of-gas", 5)
}

func histories(c *vf.Ctx, maxGas, gasCap int64, burn bool, seed uint64, rng *rand.Rand) {
	blocks := c.N(8, 30)
	h := hist.GenP(rng, seed, blocks, 5, hist.Profile{FailBoost: true})
	hog := gasCap < 0
	if hog {
		gasCap = -gasCap
	}
	for bi := range h.Blocks {
		if hog && len(h.Blocks[bi]) > 0 {
			h.Blocks[bi] = append([]hist.TxSpec{{Signer: hist.Users[rng.IntN(len(hist.Users))], Gas: maxGas, Fee: 1_000_000, Label: "hog",
				Msgs: []hist.MsgSpec{{Kind: "call", Pkg: hist.StorePath, Func: "Burn", Args: []string{"900000"}}}}}, h.Blocks[bi]...)
		}
		for ti := range h.Blocks[bi] {
			if gasCap > 0 && h.Blocks[bi][ti].Gas > gasCap {
				h.Blocks[bi][ti].Gas = gasCap
			}
		}
		if burn {
			for k := 1 + rng.IntN(3); k > 0; k-- {
				h.Blocks[bi] = append(h.Blocks[bi], hist.TxSpec{Signer: hist.Users[rng.IntN(len(hist.Users))], Gas: gasCap, Fee: 1_000_000, Label: "burn",
					Msgs: []hist.MsgSpec{{Kind: "call", Pkg: hist.StorePath, Func: "Burn", Args: []string{fmt.Sprint(20000 + rng.IntN(30000))}}}})
			}
		}
	}
	limit := maxGas
	if limit == 0 {
		limit = 3_000_000_000
	}
	warm, cold := start(maxGas), start(maxGas)
	defer warm.Close()
	defer cold.Close()
	for bi, blk := range h.Blocks {
		if err := cold.Restart(); err != nil {
			panic(err)
		}
		warm.BeginBlock()
		cold.BeginBlock()
		var lower int64
		exhausted := false
		for ti, t := range blk {
			tw := hist.PlayTx(warm, t)
			tc := hist.PlayTx(cold, t)
			if chainsim.AntePassed(tw) {
				warm.Acc(t.Signer).Seq++
			}
			if chainsim.AntePassed(tc) {
				cold.Acc(t.Signer).Seq++
			}
			w := map[string]any{"history_seed": seed, "max_gas": maxGas, "block": bi, "index": ti, "tx": t, "gas_used": tw.Res.GasUsed, "gas_wanted": tw.Res.GasWanted, "error": clip(tw.ErrString)}
			c.Count("txs_observed", 1)
			nt := false
			// (i)
			if tw.OK && tw.Res.GasUsed > tw.Res.GasWanted {
				c.Violation("success-with-gas-above-wanted", w, "history %d block %d tx %d succeeded with GasUsed %d > GasWanted %d", seed, bi, ti, tw.Res.GasUsed, tw.Res.GasWanted)
			}
			if tw.Res.GasWanted > 0 && tw.Res.GasUsed > tw.Res.GasWanted && !isOOG(tw) {
				c.Violation("gas-above-wanted-without-oog", w, "history %d block %d tx %d: GasUsed %d > GasWanted %d but the error is not out-of-gas: %s", seed, bi, ti, tw.Res.GasUsed, tw.Res.GasWanted, clip(tw.ErrString))
			}
			if isOOG(tw) {
				c.Count("out_of_gas_txs", 1)
				nt = true
			}
			// (ii)
			c.Count("warm_cold_gas_compared", 1)
			if tw.ResultKey() != tc.ResultKey() {
				c.Violation("gas-or-result-depends-on-cache-warmth", w, "history %d block %d tx %d (%s): warm chain GasUsed %d ok=%v, twin restarted before the block GasUsed %d ok=%v", seed, bi, ti, t.Label, tw.Res.GasUsed, tw.OK, tc.Res.GasUsed, tc.OK)
			}
			// (iii)
			blockFail := strings.Contains(tw.ErrString+tw.Log, "block gas meter") || strings.Contains(tw.ErrString+tw.Log, "no block gas left")
			if blockFail {
				c.Count("block_gas_limit_failures", 1)
				nt = true
			}
			if exhausted {
				if tw.OK || tw.Res.GasUsed != 0 {
					c.Violation("tx-processed-after-block-gas-exhausted", w, "history %d block %d tx %d: earlier txs of the block already used >= %d gas (limit %d) but this tx was processed (ok=%v GasUsed=%d)", seed, bi, ti, lower, limit, tw.OK, tw.Res.GasUsed)
				}
				c.Count("txs_rejected_after_exhaustion", 1)
			} else if tw.OK && lower+tw.Res.GasUsed > limit {
				c.Violation("block-gas-limit-exceeded-by-successful-tx", w, "history %d block %d tx %d succeeded with GasUsed %d although the block had already used >= %d of %d", seed, bi, ti, tw.Res.GasUsed, lower, limit)
			}
			if chainsim.AntePassed(tw) {
				g := tw.Res.GasUsed
				if g > tw.Res.GasWanted {
					g = tw.Res.GasWanted
				}
				lower += g
			}
			if lower >= limit {
				exhausted = true
			}
			c.Case(fmt.Sprintf("%d/%d/%d", seed, bi, ti), nt)
		}
		warm.EndBlockCommit()
		cold.EndBlockCommit()
	}
}

type family struct {
	name  string
	sizes []int
	body  func(n int) string // statements inside main
	pre   string             // package-level declarations
	// monotone: successful runs at a larger size must use strictly more gas
	monotone bool
}

func families() []family {
	return []family{
		{name: "unbounded-loop", sizes: []int{0}, body: func(int) string { return "x := 0\n\tfor {\n\t\tx++\n\t}\n\tprintln(x)" }},
		{name: "counted-loop", sizes: []int{100, 1000, 10000, 100000, 10000000}, monotone: true, body: func(n int) string {
			return fmt.Sprintf("x := 0\n\tfor i := 0; i < %d; i++ {\n\t\tx += i\n\t}\n\tprintln(x)", n)
		}},
		{name: "deep-recursion", sizes: []int{10, 100, 1000, 100000, 100000000}, monotone: true, pre: "func rec(n int) int {\n\tif n == 0 {\n\t\treturn 0\n\t}\n\treturn 1 + rec(n-1)\n}\n",
			body: func(n int) string { return fmt.Sprintf("println(rec(%d))", n) }},
		{name: "alloc-bomb", sizes: []int{1000, 100000, 10000000, 2000000000}, monotone: true, body: func(n int) string {
			return fmt.Sprintf("b := make([]byte, %d)\n\tb[0] = 1\n\tprintln(len(b))", n)
		}},
		{name: "alloc-loop", sizes: []int{10, 1000, 100000, 100000000}, monotone: true, body: func(n int) string {
			return fmt.Sprintf("var keep [][]int\n\tfor i := 0; i < %d; i++ {\n\t\tkeep = append(keep, make([]int, 1024))\n\t}\n\tprintln(len(keep))", n)
		}},
		{name: "string-doubling", sizes: []int{5, 10, 20, 40, 64}, monotone: true, body: func(n int) string {
			return fmt.Sprintf("s := \"ab\"\n\tfor i := 0; i < %d; i++ {\n\t\ts += s\n\t}\n\tprintln(len(s))", n)
		}},
		{name: "big-constant", sizes: []int{10, 100, 1000, 5000}, body: func(n int) string {
			return fmt.Sprintf("const c = 1 << %d\n\tprintln(c >> %d)", n, n)
		}},
		{name: "strings-repeat-native", sizes: []int{10, 1000, 100000, 1000000000}, monotone: true, pre: "import \"strings\"\n", body: func(n int) string {
			return fmt.Sprintf("println(len(strings.Repeat(\"x\", %d)))", n)
		}},
		{name: "sha256-native", sizes: []int{10, 1000, 100000, 4000000}, monotone: true, pre: "import (\n\t\"crypto/sha256\"\n\t\"strings\"\n)\n", body: func(n int) string {
			return fmt.Sprintf("h := sha256.Sum256([]byte(strings.Repeat(\"x\", %d)))\n\tprintln(h[0])", n)
		}},
		{name: "map-growth", sizes: []int{10, 1000, 100000, 50000000}, monotone: true, body: func(n int) string {
			return fmt.Sprintf("m := map[int]int{}\n\tfor i := 0; i < %d; i++ {\n\t\tm[i] = i\n\t}\n\tprintln(len(m))", n)
		}},
		{name: "storage-heavy", sizes: []int{1, 10, 100, 5000}, monotone: true, pre: "import \"gno.land/r/verif/store\"\n", body: func(n int) string {
			return fmt.Sprintf("for i := 0; i < %d; i++ {\n\t\tstore.BigGrow(cross(cur), 10)\n\t}\n\tprintln(len(store.Dump()))", n)
		}},
		{name: "nested-closures", sizes: []int{10, 1000, 100000, 10000000}, monotone: true, body: func(n int) string {
			return fmt.Sprintf("f := func() int { return 0 }\n\tfor i := 0; i < %d; i++ {\n\t\tg := f\n\t\tf = func() int { return g() + 1 }\n\t}\n\tprintln(f())", n)
		}},
	}
}

func program(f family, n int) string {
	pre := f.pre
	imp := ""
	if strings.HasPrefix(pre, "import") {
		// imports must come first
		i := strings.Index(pre, "\n)\n")
		if strings.HasPrefix(pre, "import (") && i >= 0 {
			imp, pre = pre[:i+3], pre[i+3:]
		} else {
			j := strings.IndexByte(pre, '\n')
			imp, pre = pre[:j+1], pre[j+1:]
		}
	}
	return "package main\n\n" + imp + "\n" + pre + "\nfunc main(cur realm) {\n\t" + f.body(n) + "\n}\n"
}

func hostile(c *vf.Ctx, rng *rand.Rand) {
	ch := start(0)
	defer ch.Close()
	u := ch.Acc("alice")
	const gasLimit = 120_000_000
	for _, f := range families() {
		var prevGas int64 = -1
		prevSize := 0
		for _, n := range f.sizes {
			src := program(f, n)
			t0 := time.Now()
			tr := ch.OneTx([]std.Msg{chainsim.MsgRun(u, src)}, chainsim.Fee(gasLimit, 1_000_000), u)
			el := time.Since(t0)
			c.Count("hostile_programs_run", 1)
			c.Case(fmt.Sprintf("hostile/%s/%d", f.name, n), true)
			w := map[string]any{"family": f.name, "size": n, "program": src, "gas_used": tr.Res.GasUsed, "error": clip(tr.ErrString), "wall_s": el.Seconds()}
			outcome := "success"
			switch {
			case tr.OK:
			case isOOG(tr):
				outcome = "out-of-gas"
			case strings.Contains(tr.ErrString+tr.Log, "allocation limit") || strings.Contains(tr.ErrString+tr.Log, "alloc"):
				outcome = "allocation-limit"
			case strings.Contains(tr.ErrString, "recovered") || strings.Contains(tr.Log, "runtime error") || strings.Contains(tr.Log, "goroutine "):
				outcome = "internal-fault"
			default:
				outcome = "gno-or-validation-error"
			}
			c.Count("hostile_outcome:"+outcome, 1)
			if outcome == "internal-fault" {
				c.Violation("hostile-program-internal-fault:"+f.name, w, "family %s size %d ended in an internal fault: %s", f.name, n, clip(tr.ErrString+" "+tr.Log))
			}
			if tr.OK && tr.Res.GasUsed > gasLimit {
				c.Violation("hostile-success-above-limit:"+f.name, w, "family %s size %d succeeded with %d gas > limit %d", f.name, n, tr.Res.GasUsed, gasLimit)
			}
			if tr.Res.GasUsed == 0 && chainsim.AntePassed(tr) {
				c.Violation("hostile-zero-gas:"+f.name, w, "family %s size %d reports zero gas", f.name, n)
			}
			if f.name == "unbounded-loop" && outcome != "out-of-gas" {
				c.Violation("unbounded-loop-did-not-run-out-of-gas", w, "an unbounded loop ended with outcome %s", outcome)
			}
			if f.monotone && tr.OK {
				if prevGas >= 0 && n > prevSize && tr.Res.GasUsed <= prevGas {
					c.Violation("more-work-not-more-gas:"+f.name, w, "family %s: size %d used %d gas, size %d used %d gas (work grows, gas does not)", f.name, prevSize, prevGas, n, tr.Res.GasUsed)
				}
				prevGas, prevSize = tr.Res.GasUsed, n
			}
			if el > 120*time.Second {
				c.Inconclusive(fmt.Sprintf("watchdog: family %s size %d took %.0fs wall for at most %d gas (loaded machine or unmetered work) — rerun in isolation", f.name, n, el.Seconds(), gasLimit))
			}
			if f.name == "counted-loop" && n == 100 {
				c.Sample(map[string]any{"family": f.name, "size": n, "program": src, "outcome": outcome, "gas_used": tr.Res.GasUsed})
			}
		}
	}
}

func clip(s string) string {
	if len(s) > 240 {
		return s[:240] + "…"
	}
	return s
}

// oogEffects: one engineered transaction per block that does writes (coin
// transfers, realm state, object creation) and then runs out of gas. After
// the block the committed state must differ from the state before it only by
// the fee: payer -fee, one collector +fee, nothing else.
func oogEffects(c *vf.Ctx, rng *rand.Rand) {
	ch := start(0)
	defer ch.Close()
	n := c.N(30, 200)
	users := hist.Users
	// some ordinary traffic first, so that accounts and realm objects exist
	for i := 0; i < 6; i++ {
		u := ch.Acc(users[i%len(users)])
		ch.OneTx([]std.Msg{hist.Resolve(ch, u, hist.MsgSpec{Kind: "call", Pkg: hist.StorePath, Func: "Push", Args: []string{"w"}})}, chainsim.Fee(60_000_000, 1_000_000), u)
	}
	families := []string{"call-with-send", "bank-send-then-burn", "run-pay-then-loop", "grow-then-burn", "mint-then-burn", "send-to-self-realm-then-burn"}
	for k := 0; k < n; k++ {
		fam := families[k%len(families)]
		signer := users[rng.IntN(len(users))]
		other := users[(rng.IntN(len(users)-1)+1+indexOf(users, signer))%len(users)]
		fee := int64(1_000_000 + rng.IntN(500_000))
		amt := int64(1 + rng.IntN(2_000_000))
		burn := hist.MsgSpec{Kind: "call", Pkg: hist.StorePath, Func: "Burn", Args: []string{fmt.Sprint(100000 + rng.IntN(100000))}}
		tx := hist.TxSpec{Signer: signer, Fee: fee, Label: "oog:" + fam, Gas: int64(4_000_000 + rng.IntN(6_000_000))}
		switch fam {
		case "call-with-send":
			b := burn
			b.Send = amt
			tx.Msgs = []hist.MsgSpec{b}
		case "bank-send-then-burn":
			tx.Msgs = []hist.MsgSpec{{Kind: "send", To: other, Amount: amt}, burn}
		case "run-pay-then-loop":
			tx.Msgs = []hist.MsgSpec{{Kind: "run", Send: amt, Body: fmt.Sprintf("package main\n\nimport (\n\t\"gno.land/r/verif/store\"\n\t\"gno.land/r/verif/peer\"\n)\n\nfunc main(cur realm) {\n\tpeer.Pay(cross(cur), %q, %d)\n\tstore.Push(cross(cur), \"oog\")\n\tfor {\n\t}\n}\n", ch.Acc(other).Addr.String(), 1+rng.IntN(4000))}}
			tx.Gas = int64(12_000_000 + rng.IntN(10_000_000))
		case "grow-then-burn":
			tx.Msgs = []hist.MsgSpec{{Kind: "call", Pkg: hist.StorePath, Func: "BigGrow", Args: []string{fmt.Sprint(5 + rng.IntN(20))}, Send: amt}, burn}
			tx.Gas = int64(8_000_000 + rng.IntN(8_000_000))
		case "mint-then-burn":
			tx.Msgs = []hist.MsgSpec{{Kind: "call", Pkg: hist.PeerPath, Func: "Mint", Args: []string{"@" + signer, "tok", fmt.Sprint(1 + rng.IntN(500))}}, {Kind: "send", To: other, Amount: amt}, burn}
			tx.Gas = int64(8_000_000 + rng.IntN(8_000_000))
		case "send-to-self-realm-then-burn":
			tx.Msgs = []hist.MsgSpec{{Kind: "send", To: other, Amount: amt}, {Kind: "send", To: signer, Amount: amt / 2}, burn}
		}
		st0, _, err := audit.Snapshot(ch.DB, 0)
		if err != nil {
			panic(err)
		}
		ch.BeginBlock()
		tr := hist.PlayTx(ch, tx)
		if chainsim.AntePassed(tr) {
			ch.Acc(signer).Seq++
		}
		ch.EndBlockCommit()
		st1, _, err := audit.Snapshot(ch.DB, 0)
		if err != nil {
			panic(err)
		}
		c.Case(fmt.Sprintf("oog-effects/%s/%d", fam, k), isOOG(tr))
		if !isOOG(tr) {
			c.Count("oog_effects_tx_not_out_of_gas:"+fam, 1)
			continue
		}
		c.Count("oog_effects_checked:"+fam, 1)
		c.Count("oog_effects_checked", 1)
		w := map[string]any{"family": fam, "tx": tx, "gas_used": tr.Res.GasUsed, "gas_wanted": tr.Res.GasWanted, "error": clip(tr.ErrString)}
		payer := ch.Acc(signer).Addr.String()
		tier := map[string]bool{"ugnot": true}
		l0, l1 := monitors.ReadLedger(st0.Main, tier), monitors.ReadLedger(st1.Main, tier)
		addrs := map[string]bool{}
		for a := range l0.Balances {
			addrs[a] = true
		}
		for a := range l1.Balances {
			addrs[a] = true
		}
		var gainers []string
		bad := false
		for a := range addrs {
			denoms := map[string]bool{}
			for d := range l0.Balances[a] {
				denoms[d] = true
			}
			for d := range l1.Balances[a] {
				denoms[d] = true
			}
			for d := range denoms {
				delta := l1.Balances[a][d] - l0.Balances[a][d]
				switch {
				case delta == 0:
				case a == payer && d == "ugnot" && delta == -fee:
				case a == payer:
					bad = true
					c.Violation("out-of-gas-tx-left-effects:payer-balance:"+fam, w, "family %s: the payer's %s balance changed by %d in an out-of-gas tx whose fee is %d (message effects must be discarded, the fee paid)", fam, d, delta, fee)
				case d == "ugnot" && delta == fee:
					gainers = append(gainers, a)
				default:
					bad = true
					c.Violation("out-of-gas-tx-left-effects:other-balance:"+fam, w, "family %s: %s of %s changed by %d in an out-of-gas tx (fee %d)", fam, d, a, delta, fee)
				}
			}
		}
		if !bad && len(gainers) != 1 {
			c.Violation("out-of-gas-tx-left-effects:fee-not-collected-once:"+fam, w, "family %s: %d addresses gained exactly the fee %d", fam, len(gainers), fee)
		}
		for d, s := range l1.Supply {
			if l0.Supply[d] != s {
				c.Violation("out-of-gas-tx-left-effects:supply:"+fam, w, "family %s: supply of %s changed from %d to %d in an out-of-gas tx", fam, d, l0.Supply[d], s)
			}
		}
		if d := audit.DiffKV(st0.Base, st1.Base); !d.Empty() {
			c.Violation("out-of-gas-tx-left-effects:object-store:"+fam, w, "family %s: %d object-store keys changed in an out-of-gas tx, e.g. %q", fam, len(d.All()), d.All()[0])
		}
		for _, key := range audit.DiffKV(st0.Main, st1.Main).All() {
			switch cl := audit.KeyClass(key); cl {
			case "account", "gasprice":
			default:
				c.Violation("out-of-gas-tx-left-effects:main-store-"+strings.SplitN(cl, ":", 2)[0]+":"+fam, w, "family %s: main-store key %q (%s) changed in an out-of-gas tx", fam, key, cl)
			}
		}
	}
	c.RequireCounter("oog_effects_checked", int64(n/2))
}

func indexOf(xs []string, x string) int {
	for i, y := range xs {
		if y == x {
			return i
		}
	}
	return 0
}
