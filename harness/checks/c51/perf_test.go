package c51

import (
	"fmt"
	"math/rand/v2"
	"os"
	"runtime/pprof"
	"testing"
	"time"

	"verifharness/checks/c50/gnodrv"
)

func TestPerf(t *testing.T) {
	dir, _ := os.MkdirTemp("/verif/.work", "perf51")
	defer os.RemoveAll(dir)
	t0 := time.Now()
	e, err := gnodrv.New("/repo", dir)
	if err != nil {
		t.Fatal(err)
	}
	e.TraceLoads(func(p string, d time.Duration) { fmt.Println("  load", p, d) })
	defer pprof.StopCPUProfile()
	if err := e.Preload(grc20Path, "testing", "chain"); err != nil {
		t.Fatal(err)
	}
	fmt.Println("load", time.Since(t0))
	for k := 0; k < 3; k++ {
		var seqs []*seqCase
		for i := 0; i < 25; i++ {
			seqs = append(seqs, genSeq(rand.New(rand.NewPCG(1, uint64(i))), 40, map[string]int{}))
		}
		src := driverSource(seqs)
		if k == 0 {
			f, _ := os.Create("/verif/.work/c51run1.prof")
			pprof.StartCPUProfile(f)
		}
		if k == 1 {
			pprof.StopCPUProfile()
		}
		t1 := time.Now()
		out, err := e.Run(drvPath, "c51drv", "c51drv.gno", src, 2_000_000_000)
		fmt.Println(len(out), err, time.Since(t1))
	}
}
