package c51

import (
	"fmt"
	"os"
	"testing"
	"time"

	"verifharness/checks/c50/gnodrv"
)

const probeSrc = `package c51drv

import (
	"chain"
	"testing"

	"gno.land/p/demo/tokens/grc20"
)

func es(err error) string {
	if err == nil {
		return "ok"
	}
	return "E " + err.Error()
}

func main(cur realm) {
	tok, led := grc20.NewToken("Tok", "TOK", 6, 0, cur)
	alice := chain.PackageAddress("alice")
	bob := chain.PackageAddress("bob")
	var bad address = ""
	println(alice, bob, bad.IsValid(), address("xyz").IsValid())
	println(es(led.Mint(alice, 100)), es(led.Mint(bad, 1)), es(led.Mint(alice, -1)), es(led.Mint(bob, 9223372036854775807)))
	println(tok.TotalSupply(), tok.BalanceOf(alice), tok.BalanceOf(bob))
	println(es(led.Approve(alice, bob, 50)))
	println("self-transferfrom:", es(led.TransferFrom(alice, bob, alice, 20)), tok.Allowance(alice, bob), tok.BalanceOf(alice))
	ct := tok.CallerTeller()
	println("caller direct:", cur.Previous().Address(), cur.Address())
	println(es(ct.Approve(0, cur, bob, 7)), tok.Allowance(cur.Previous().Address(), bob))
	testing.SetRealm(testing.NewUserRealm(alice))
	func(cur realm) {
		println("crossed prev:", cur.Previous().Address())
		println(es(ct.Transfer(0, cur, bob, 5)), tok.BalanceOf(alice), tok.BalanceOf(bob))
	}(cross(cur))
	println("after cross, main prev:", cur.Previous().Address(), cur.IsCurrent())
	println(es(ct.Transfer(0, cur.Previous(), bob, 5)))
	rt := tok.RealmTeller(0, cur)
	st := tok.RealmSubTeller(0, cur, "sub")
	println(es(led.Mint(cur.Address(), 10)), es(rt.Transfer(0, cur, bob, 3)), tok.BalanceOf(cur.Address()))
	println(es(st.Approve(0, cur, bob, 3)))
	it := led.ImpersonateTeller(bob)
	println(es(it.Transfer(0, cur, alice, 1)), tok.BalanceOf(bob))
	ro := tok.ReadonlyTeller()
	println(es(ro.Transfer(0, cur, alice, 1)), ro.BalanceOf(bob), ro.TotalSupply())
	func() {
		defer func() { println("recovered:", recover()) }()
		var z *grc20.Token
		z.CallerTeller()
	}()
	println("done")
}
`

func TestProbe(t *testing.T) {
	dir, _ := os.MkdirTemp("/verif/.work", "probe51")
	defer os.RemoveAll(dir)
	t0 := time.Now()
	e, err := gnodrv.New("/repo", dir)
	if err != nil {
		t.Fatal(err)
	}
	fmt.Println(e.Preload("gno.land/p/demo/tokens/grc20", "testing"), time.Since(t0))
	for i := 0; i < 2; i++ {
		t0 = time.Now()
		out, err := e.Run("gno.land/r/verif/c51drv", "c51drv", "main.gno", probeSrc, 0)
		fmt.Println(out, err, time.Since(t0))
	}
}
