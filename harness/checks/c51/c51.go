// Package c51: GRC20 tokens (examples/gno.land/p/demo/tokens/grc20) conserve
// supply and honour allowances.
//
// The code under test is Gno source executed in the GnoVM, in-process: a
// generated realm driver applies op tables to fresh tokens through the
// PrivateLedger (Mint, Burn, Transfer, Approve, TransferFrom, SpendAllowance)
// and through every Teller flavour (CallerTeller with different previous
// realms, RealmTeller, RealmSubTeller, ImpersonateTeller, ReadonlyTeller, a
// stale realm token), and after every op prints the result and the complete
// observable state (supply, balances, allowances).
//
// Oracles, all on the Go side:
//   - state-only invariants on what was observed: sum of balances == supply;
//     an op that returned an error or panicked left every observable unchanged;
//     a successful transfer / transfer-from keeps supply and the balance sum,
//     debits the source and credits the destination by exactly the amount; a
//     successful transfer-from had allowance >= amount before and
//     allowance-amount after;
//   - a ledger model (balances, allowances, supply in int64 with explicit
//     overflow rules) predicts success/failure and the full state after each op.
package c51

import (
	"fmt"
	"math"
	"math/rand/v2"
	"runtime"
	"strconv"
	"strings"
	"sync/atomic"
	"time"

	"verifharness/checks/c50/gnodrv"
	"verifharness/internal/vf"
)

const grc20Path = "gno.land/p/demo/tokens/grc20"

func init() {
	vf.Register(&vf.Check{
		ID:    "C51",
		Level: "exploration",
		Rule: "case = one op sequence (quick 200 x 40 ops, thorough 3000 x 80) on a fresh grc20 token in the GnoVM over 4 valid accounts (two users, the driver realm, " +
			"its sub-account) and 2 invalid addresses; ops Mint/Burn/Transfer/Approve/TransferFrom/SpendAllowance on the PrivateLedger and Transfer/Approve/TransferFrom " +
			"through 8 teller variants (CallerTeller as alice, bob, realm; RealmTeller; RealmSubTeller; ImpersonateTeller; ReadonlyTeller; stale realm token); amounts from " +
			"0, 1, balance, balance+-1, allowance, allowance+-1, MaxInt64, MaxInt64-supply(+1), negative, MinInt64 and small randoms; non-trivial = the sequence had a successful " +
			"mint, a successful transfer and a successful transfer-from of a positive amount and at least 3 failing ops; distinct by the op table text",
		Run: run,
	})
}

// ---------------------------------------------------------------- op table

const (
	kMint = iota
	kBurn
	kTransfer
	kApprove
	kTransferFrom
	kSpendAllowance
	kTellerTransfer
	kTellerApprove
	kTellerTransferFrom
	nKinds
)

var kindNames = [nKinds]string{"Mint", "Burn", "Transfer", "Approve", "TransferFrom", "SpendAllowance", "Teller.Transfer", "Teller.Approve", "Teller.TransferFrom"}

const (
	nAcc   = 6 // 0 alice, 1 bob, 2 realm, 3 vault sub-account, 4 "", 5 malformed
	nValid = 4
)

var accNames = [nAcc]string{"alice", "bob", "realm", "vault", "invalid-empty", "invalid-malformed"}

const (
	vCallerAlice = iota
	vCallerBob
	vCallerRealm
	vRealmTeller
	vSubTeller
	vImpersonate
	vReadonly
	vStale
	nVariants
)

var variantNames = [nVariants]string{"CallerTeller(prev=alice)", "CallerTeller(prev=bob)", "CallerTeller(prev=realm)", "RealmTeller", "RealmSubTeller(vault)", "ImpersonateTeller", "ReadonlyTeller", "CallerTeller(stale realm token)"}

type op struct {
	K          int
	X, Y, Z, W int // account indexes (meaning depends on K)
	V          int // teller variant
	Amt        int64
}

func (o op) text() string {
	n := func(i int) string { return accNames[i] }
	switch o.K {
	case kMint, kBurn:
		return fmt.Sprintf("%s(%s,%d)", kindNames[o.K], n(o.X), o.Amt)
	case kTransfer:
		return fmt.Sprintf("Transfer(from=%s,to=%s,%d)", n(o.X), n(o.Y), o.Amt)
	case kApprove, kSpendAllowance:
		return fmt.Sprintf("%s(owner=%s,spender=%s,%d)", kindNames[o.K], n(o.X), n(o.Y), o.Amt)
	case kTransferFrom:
		return fmt.Sprintf("TransferFrom(owner=%s,spender=%s,to=%s,%d)", n(o.X), n(o.Y), n(o.Z), o.Amt)
	}
	v := variantNames[o.V]
	if o.V == vImpersonate {
		v += "(" + n(o.W) + ")"
	}
	switch o.K {
	case kTellerTransfer:
		return fmt.Sprintf("%s.Transfer(to=%s,%d)", v, n(o.Y), o.Amt)
	case kTellerApprove:
		return fmt.Sprintf("%s.Approve(spender=%s,%d)", v, n(o.Y), o.Amt)
	default:
		return fmt.Sprintf("%s.TransferFrom(owner=%s,to=%s,%d)", v, n(o.X), n(o.Z), o.Amt)
	}
}

// ---------------------------------------------------------------- model

// state is the observable state of one token.
type state struct {
	Supply int64
	Bal    [nAcc]int64
	Allow  [nValid][nValid]int64
}

func (s *state) line() string {
	var sb strings.Builder
	sb.WriteString(strconv.FormatInt(s.Supply, 10))
	for _, b := range s.Bal {
		sb.WriteString(" " + strconv.FormatInt(b, 10))
	}
	for i := range s.Allow {
		for _, a := range s.Allow[i] {
			sb.WriteString(" " + strconv.FormatInt(a, 10))
		}
	}
	return sb.String()
}

// parseLine splits a driver line "<supply> <6 balances> <16 allowances> | <result>".
func parseLine(l string) (st state, res string, ok bool) {
	nums, res, found := strings.Cut(l, " | ")
	f := strings.Fields(nums)
	if !found || len(f) != 1+nAcc+nValid*nValid {
		return st, "", false
	}
	v := make([]int64, len(f))
	for i, x := range f {
		n, err := strconv.ParseInt(x, 10, 64)
		if err != nil {
			return st, "", false
		}
		v[i] = n
	}
	st.Supply = v[0]
	copy(st.Bal[:], v[1:1+nAcc])
	for i := 0; i < nValid*nValid; i++ {
		st.Allow[i/nValid][i%nValid] = v[1+nAcc+i]
	}
	return st, res, true
}

func valid(i int) bool { return i < nValid }

// caller resolves the account a teller variant acts for; live=false means the
// teller refuses every write.
func (o op) caller() (acc int, live bool) {
	switch o.V {
	case vCallerAlice:
		return 0, true
	case vCallerBob:
		return 1, true
	case vCallerRealm, vRealmTeller:
		return 2, true
	case vSubTeller:
		return 3, true
	case vImpersonate:
		return o.W, true
	}
	return 0, false
}

// The ledger rules. Each returns "" on success (after updating s) or the
// reason class of the failure (s untouched).
func (s *state) mint(a int, amt int64) string {
	switch {
	case !valid(a):
		return "invalid-address"
	case amt < 0:
		return "negative-amount"
	case amt > math.MaxInt64-s.Supply:
		return "supply-overflow"
	}
	s.Supply += amt
	s.Bal[a] += amt
	return ""
}

func (s *state) burn(a int, amt int64) string {
	switch {
	case !valid(a):
		return "invalid-address"
	case amt < 0:
		return "negative-amount"
	case s.Bal[a] < amt:
		return "insufficient-balance"
	}
	s.Supply -= amt
	s.Bal[a] -= amt
	return ""
}

func (s *state) transfer(from, to int, amt int64) string {
	switch {
	case !valid(from) || !valid(to):
		return "invalid-address"
	case from == to:
		return "transfer-to-self"
	case amt < 0:
		return "negative-amount"
	case s.Bal[from] < amt:
		return "insufficient-balance"
	}
	s.Bal[from] -= amt
	s.Bal[to] += amt
	return ""
}

func (s *state) approve(owner, spender int, amt int64) string {
	switch {
	case !valid(owner) || !valid(spender):
		return "invalid-address"
	case amt < 0:
		return "negative-amount"
	}
	s.Allow[owner][spender] = amt
	return ""
}

func (s *state) spend(owner, spender int, amt int64) string {
	switch {
	case !valid(owner) || !valid(spender):
		return "invalid-address"
	case amt < 0:
		return "negative-amount"
	case s.Allow[owner][spender] < amt:
		return "insufficient-allowance"
	}
	s.Allow[owner][spender] -= amt
	return ""
}

func (s *state) transferFrom(owner, spender, to int, amt int64) string {
	switch {
	case amt < 0:
		return "negative-amount"
	case !valid(owner) || !valid(to) || !valid(spender):
		return "invalid-address"
	case s.Bal[owner] < amt:
		return "insufficient-balance"
	case s.Allow[owner][spender] < amt:
		return "insufficient-allowance"
	case owner == to:
		return "transfer-to-self"
	}
	s.Allow[owner][spender] -= amt
	s.Bal[owner] -= amt
	s.Bal[to] += amt
	return ""
}

// apply runs o on the model; returns the failure class ("" = success).
func (s *state) apply(o op) string {
	switch o.K {
	case kMint:
		return s.mint(o.X, o.Amt)
	case kBurn:
		return s.burn(o.X, o.Amt)
	case kTransfer:
		return s.transfer(o.X, o.Y, o.Amt)
	case kApprove:
		return s.approve(o.X, o.Y, o.Amt)
	case kTransferFrom:
		return s.transferFrom(o.X, o.Y, o.Z, o.Amt)
	case kSpendAllowance:
		return s.spend(o.X, o.Y, o.Amt)
	}
	c, live := o.caller()
	if !live {
		if o.V == vReadonly {
			return "readonly-teller"
		}
		return "stale-realm"
	}
	switch o.K {
	case kTellerTransfer:
		return s.transfer(c, o.Y, o.Amt)
	case kTellerApprove:
		return s.approve(c, o.Y, o.Amt)
	default:
		return s.transferFrom(o.X, c, o.Z, o.Amt)
	}
}

// movement describes, for transfer-like ops, who pays whom (for the
// state-only invariants); ok=false for other ops.
func (o op) movement() (from, to, spender int, isFrom, ok bool) {
	switch o.K {
	case kTransfer:
		return o.X, o.Y, 0, false, true
	case kTransferFrom:
		return o.X, o.Z, o.Y, true, true
	case kTellerTransfer:
		c, _ := o.caller()
		return c, o.Y, 0, false, true
	case kTellerTransferFrom:
		c, _ := o.caller()
		return o.X, o.Z, c, true, true
	}
	return 0, 0, 0, false, false
}

// ---------------------------------------------------------------- generator

type seqCase struct {
	ops       []op
	want      []state  // model state after each op
	wantFail  []string // model failure class per op
	okMint    bool
	okXfer    bool
	okXferFrm bool
	fails     int
}

func (s *seqCase) key() string {
	var sb strings.Builder
	for _, o := range s.ops {
		sb.WriteString(o.text())
		sb.WriteByte(';')
	}
	return sb.String()
}

func genSeq(r *rand.Rand, nops int, cnt map[string]int) *seqCase {
	sc := &seqCase{}
	var m state
	acc := func() int { // mostly valid accounts
		if r.IntN(14) == 0 {
			return nValid + r.IntN(nAcc-nValid)
		}
		return r.IntN(nValid)
	}
	amount := func(bal, allow int64) int64 {
		lim := bal
		if allow < lim {
			lim = allow
		}
		if lim > 0 && r.IntN(5) < 2 {
			return 1 + r.Int64N(lim) // affordable under both limits
		}
		switch r.IntN(20) {
		case 0:
			return 0
		case 1:
			return 1
		case 2:
			return bal
		case 3:
			return bal + 1 // bal <= MaxInt64-? may wrap only when bal == MaxInt64: then negative, fine
		case 4:
			if bal > 0 {
				return bal - 1
			}
			return 2
		case 5:
			return allow
		case 6:
			return allow + 1
		case 7:
			if allow > 0 {
				return allow - 1
			}
			return 3
		case 8:
			return math.MaxInt64
		case 9:
			return math.MaxInt64 - m.Supply
		case 10:
			if m.Supply > 0 {
				return math.MaxInt64 - m.Supply + 1
			}
			return math.MaxInt64 - 1
		case 11:
			return -1
		case 12:
			if r.IntN(2) == 0 {
				return math.MinInt64
			}
			return -int64(r.IntN(1000)) - 1
		case 13, 14:
			return int64(r.IntN(50))
		default:
			return int64(r.IntN(1000))
		}
	}
	weights := [nKinds]int{kMint: 14, kBurn: 8, kTransfer: 10, kApprove: 12, kTransferFrom: 14, kSpendAllowance: 5, kTellerTransfer: 12, kTellerApprove: 11, kTellerTransferFrom: 14}
	total := 0
	for _, w := range weights {
		total += w
	}
	for i := 0; i < nops; i++ {
		var o op
		if i == 0 || (i < 3 && r.IntN(2) == 0) {
			// start with some supply so that transfers have something to move
			o = op{K: kMint, X: r.IntN(nValid), Amt: int64(1 + r.IntN(5000))}
			if r.IntN(10) == 0 {
				o.Amt = math.MaxInt64 - int64(r.IntN(3)) - m.Supply // fill the supply (nearly) to the top
			}
		} else {
			x := r.IntN(total)
			k := 0
			for ; x >= weights[k]; k++ {
				x -= weights[k]
			}
			o.K = k
			o.X, o.Y, o.Z, o.W = acc(), acc(), acc(), acc()
			if k >= kTellerTransfer {
				o.V = r.IntN(nVariants)
				if o.V >= vReadonly && r.IntN(3) > 0 { // keep the always-failing variants rarer
					o.V = r.IntN(vReadonly)
				}
			}
			b := func(i int) int64 { return m.Bal[i] }
			al := func(i, j int) int64 {
				if valid(i) && valid(j) {
					return m.Allow[i][j]
				}
				return 0
			}
			switch k {
			case kMint:
				o.Amt = amount(b(o.X), math.MaxInt64-m.Supply)
			case kBurn:
				o.Amt = amount(b(o.X), b(o.X))
			case kTransfer:
				if r.IntN(2) == 0 {
					for t := 0; t < 8 && b(o.X) == 0; t++ {
						o.X = r.IntN(nValid)
					}
				}
				o.Amt = amount(b(o.X), b(o.X))
			case kApprove:
				o.Amt = amount(b(o.X), al(o.X, o.Y))
			case kSpendAllowance:
				o.Amt = amount(al(o.X, o.Y), al(o.X, o.Y))
			case kTransferFrom:
				// prefer an (owner,spender) pair that has an allowance
				if r.IntN(4) > 0 {
					for t := 0; t < 12 && (al(o.X, o.Y) == 0 || b(o.X) == 0); t++ {
						o.X, o.Y = r.IntN(nValid), r.IntN(nValid)
					}
				}
				o.Amt = amount(b(o.X), al(o.X, o.Y))
			case kTellerTransfer:
				c, _ := o.caller()
				o.Amt = amount(b(c), b(c))
			case kTellerApprove:
				c, _ := o.caller()
				o.Amt = amount(b(c), al(c, o.Y))
			case kTellerTransferFrom:
				c, _ := o.caller()
				if r.IntN(4) > 0 {
					for t := 0; t < 12 && (al(o.X, c) == 0 || b(o.X) == 0); t++ {
						o.X = r.IntN(nValid)
					}
				}
				o.Amt = amount(b(o.X), al(o.X, c))
			}
		}
		why := m.apply(o)
		sc.ops = append(sc.ops, o)
		sc.want = append(sc.want, m)
		sc.wantFail = append(sc.wantFail, why)
		name := kindNames[o.K]
		if why == "" {
			cnt["ok_"+name]++
			switch o.K {
			case kMint:
				sc.okMint = sc.okMint || o.Amt > 0
			case kTransfer, kTellerTransfer:
				sc.okXfer = sc.okXfer || o.Amt > 0
			case kTransferFrom, kTellerTransferFrom:
				sc.okXferFrm = sc.okXferFrm || o.Amt > 0
				if o.Amt > 0 {
					cnt["transferfrom_ok_positive"]++
				}
			}
			if o.Amt == 0 {
				cnt["ok_amount_zero"]++
			}
			if o.Amt == math.MaxInt64 || m.Supply == math.MaxInt64 {
				cnt["ok_at_maxint64"]++
			}
		} else {
			sc.fails++
			cnt["fail_"+name]++
			cnt["failclass_"+why]++
		}
		if o.K >= kTellerTransfer {
			cnt["teller_"+variantNames[o.V]]++
		}
	}
	return sc
}

// ---------------------------------------------------------------- run

func driverSource(batch []*seqCase) string {
	var ks, xs, ys, zs, ws, vs, amts, lens []string
	for _, s := range batch {
		lens = append(lens, strconv.Itoa(len(s.ops)))
		for _, o := range s.ops {
			ks = append(ks, strconv.Itoa(o.K))
			xs = append(xs, strconv.Itoa(o.X))
			ys = append(ys, strconv.Itoa(o.Y))
			zs = append(zs, strconv.Itoa(o.Z))
			ws = append(ws, strconv.Itoa(o.W))
			vs = append(vs, strconv.Itoa(o.V))
			amts = append(amts, strconv.FormatInt(o.Amt, 10))
		}
	}
	j := func(x []string) string { return strings.Join(x, ",") }
	return fmt.Sprintf(driverGno, j(ks), j(xs), j(ys), j(zs), j(ws), j(vs), j(amts), j(lens))
}

func witness(s *seqCase, upto int, before, after *state, res string) map[string]any {
	ops := make([]string, 0, upto+1)
	for _, o := range s.ops[:upto+1] {
		ops = append(ops, o.text())
	}
	w := map[string]any{"ops": ops, "failing_op_index": upto, "result": res,
		"model_says":   map[string]any{"fails_because": s.wantFail[upto], "state_after": s.want[upto].line()},
		"state_format": "supply | balances alice bob realm vault invalid-empty invalid-malformed | allowances owner-major over alice bob realm vault"}
	if before != nil {
		w["observed_before"] = before.line()
	}
	if after != nil {
		w["observed_after"] = after.line()
	}
	return w
}

// compare checks what the driver printed for one sequence. lines[0] is the
// initial state, lines[i+1] belongs to op i.
func compare(c *vf.Ctx, s *seqCase, lines []string, cnt map[string]int) {
	if len(lines) == 0 {
		c.Violation("driver-output-truncated", witness(s, 0, nil, nil, "<missing>"), "no output for the sequence")
		return
	}
	prev, _, ok := parseLine(lines[0])
	if !ok || prev != (state{}) {
		c.Violation("fresh-token-not-empty", witness(s, 0, nil, nil, lines[0]), "a fresh token does not start empty: %q", lines[0])
		return
	}
	model := state{} // follows s.want, except after a tolerated (already reported) deviation
	resynced := false
	for i, o := range s.ops {
		name := kindNames[o.K]
		if i+1 >= len(lines) {
			c.Violation("driver-output-truncated:"+name, witness(s, i, &prev, nil, "<missing>"), "driver output ends before op %d %s", i, o.text())
			return
		}
		cur, res, ok := parseLine(lines[i+1])
		if !ok {
			c.Violation("driver-output-garbled:"+name, witness(s, i, &prev, nil, lines[i+1]), "cannot parse driver line %q", lines[i+1])
			return
		}
		failed := res != "ok"
		w := func() map[string]any { return witness(s, i, &prev, &cur, res) }
		// the model's verdict for this op, from the (possibly resynced) model state
		var why string
		if resynced {
			why = model.apply(o)
		} else {
			why = s.wantFail[i]
			model = s.want[i]
		}

		// --- state-only invariants (independent of the model)
		if res == "P" {
			c.Violation("panic:"+name, w(), "%s panicked (model: %s)", o.text(), orOK(why))
			return
		}
		if failed && cur != prev {
			key := "failing-op-changed-state:" + name
			from, to, sp, isFrom, _ := o.movement()
			tolerated := false
			if isFrom && from == to && valid(from) && valid(sp) {
				// the one shape we give its own key: only the allowance moved, by exactly the amount
				exp := prev
				exp.Allow[from][sp] -= o.Amt
				if cur == exp {
					key = "failing-op-changed-state:TransferFrom(to==owner):allowance-spent"
					tolerated = true
				}
			}
			c.Violation(key, w(), "%s returned %q but changed the observable state: before %q after %q", o.text(), res, prev.line(), cur.line())
			if !tolerated {
				return
			}
			cnt["transferfrom_to_owner_allowance_spent"]++
			model = cur // continue the sequence from what the implementation did
			resynced = true
			prev = cur
			continue
		}
		var sum int64
		sumOK := true
		for _, b := range cur.Bal {
			if b < 0 || sum > math.MaxInt64-b {
				sumOK = false
				break
			}
			sum += b
		}
		if !sumOK || sum != cur.Supply {
			c.Violation("supply-ne-sum-of-balances:after-"+name, w(), "after %s: TotalSupply %d but balances are %v", o.text(), cur.Supply, cur.Bal)
			return
		}
		if !failed {
			if from, to, sp, isFrom, isMove := o.movement(); isMove {
				// conservation: supply unchanged (and sum == supply was just checked), exact debit/credit
				if cur.Supply != prev.Supply {
					c.Violation("transfer-changed-supply:"+name, w(), "%s succeeded and changed the supply %d -> %d", o.text(), prev.Supply, cur.Supply)
					return
				}
				if valid(from) && valid(to) && from != to {
					if prev.Bal[from]-cur.Bal[from] != o.Amt || cur.Bal[to]-prev.Bal[to] != o.Amt || o.Amt < 0 {
						c.Violation("transfer-wrong-debit-credit:"+name, w(), "%s succeeded: source %d -> %d, destination %d -> %d", o.text(), prev.Bal[from], cur.Bal[from], prev.Bal[to], cur.Bal[to])
						return
					}
				}
				if isFrom && valid(from) && valid(sp) {
					if prev.Allow[from][sp] < o.Amt {
						c.Violation("transferfrom-exceeds-allowance:"+name, w(), "%s succeeded with allowance %d", o.text(), prev.Allow[from][sp])
						return
					}
					if cur.Allow[from][sp] != prev.Allow[from][sp]-o.Amt {
						c.Violation("transferfrom-allowance-not-decreased:"+name, w(), "%s succeeded: allowance %d -> %d, want %d", o.text(), prev.Allow[from][sp], cur.Allow[from][sp], prev.Allow[from][sp]-o.Amt)
						return
					}
				}
			}
		}
		// --- ledger model
		if failed != (why != "") {
			c.Violation("model-mismatch:"+name+":result", w(), "%s returned %q, the ledger model says %s", o.text(), res, orOK(why))
			return
		}
		if cur != model {
			c.Violation("model-mismatch:"+name+":state", w(), "after %s (%s): observed %q, ledger model %q", o.text(), res, cur.line(), model.line())
			return
		}
		if failed {
			cnt["failing_ops_verified_unchanged"]++
		}
		prev = cur
	}
	if len(lines) != len(s.ops)+1 {
		c.Violation("driver-output-extra", witness(s, len(s.ops)-1, nil, nil, lines[len(s.ops)+1]), "driver printed %d lines, expected %d", len(lines), len(s.ops)+1)
	}
}

func orOK(why string) string {
	if why == "" {
		return "it succeeds"
	}
	return "it fails (" + why + ")"
}

func run(c *vf.Ctx) {
	nseq := c.N(200, 3000)
	nops := c.N(40, 80)
	// Every worker loads its own copy of the stdlibs grc20 needs into its own
	// store (about 10x the cost of running one batch), so few workers in quick.
	workers := c.N(3, 8)
	if n := runtime.NumCPU(); workers > n {
		workers = n
	}
	batch := c.N(25, 25)
	nb := (nseq + batch - 1) / batch
	if workers > nb {
		workers = nb
	}
	envs := make(chan *gnodrv.Env, workers)
	for w := 0; w < workers; w++ {
		envs <- nil
	}
	var made atomic.Int64
	getEnv := func() *gnodrv.Env {
		e := <-envs
		if e != nil {
			return e
		}
		e, err := gnodrv.New(vf.RepoRoot(), fmt.Sprintf("%s/env%d", c.WorkDir, made.Add(1)))
		if err != nil {
			panic(fmt.Sprintf("gnodrv.New: %v", err))
		}
		if err := e.Preload(grc20Path, "testing", "chain"); err != nil {
			panic(err.Error())
		}
		return e
	}
	tallies := make([]map[string]int, nb)
	var setupFail atomic.Int64
	c.Parallel(nb, workers, 500000, func(bi int, _ *rand.Rand) {
		cnt := map[string]int{}
		var seqs []*seqCase
		for si := bi * batch; si < (bi+1)*batch && si < nseq; si++ {
			seqs = append(seqs, genSeq(c.Rng(uint64(1000+si)), nops, cnt))
		}
		t0 := time.Now()
		env := getEnv()
		t1 := time.Now()
		out, err := env.Run(drvPath, "c51drv", "c51drv.gno", driverSource(seqs), 2_000_000_000)
		envs <- env
		if bi < workers {
			c.Logf("batch %d: env ready after %.1fs, driver ran %.1fs", bi, t1.Sub(t0).Seconds(), time.Since(t1).Seconds())
		}
		lines := strings.Split(strings.TrimRight(out, "\n"), "\n")
		if len(lines) == 0 || lines[0] != "SETUP-OK" {
			setupFail.Add(1)
			c.Logf("batch %d: driver setup failed: %q err=%v", bi, truncate(out, 300), err)
			tallies[bi] = cnt
			return
		}
		per := make([][]string, len(seqs))
		cur := -1
		for _, l := range lines[1:] {
			if strings.HasPrefix(l, "= ") {
				cur++
				if cur >= len(seqs) || l != "= "+strconv.Itoa(cur) {
					cur = len(seqs)
				}
				continue
			}
			if cur >= 0 && cur < len(seqs) {
				per[cur] = append(per[cur], l)
			}
		}
		if err != nil {
			si := cur
			if si < 0 || si >= len(seqs) {
				si = 0
			}
			at := len(per[si]) - 1 // index of the op that was executing
			if at < 0 {
				at = 0
			}
			if at >= len(seqs[si].ops) {
				at = len(seqs[si].ops) - 1
			}
			c.Violation("vm-abort:"+kindNames[seqs[si].ops[at].K], witness(seqs[si], at, nil, nil, truncate(err.Error(), 1500)),
				"the driver aborted in batch %d, sequence %d, at op %d %s: %s", bi, si, at, seqs[si].ops[at].text(), truncate(err.Error(), 600))
		}
		for i, s := range seqs {
			if err != nil && i >= cur {
				break // the aborted sequence and the ones never started are not evaluated
			}
			compare(c, s, per[i], cnt)
			nt := s.okMint && s.okXfer && s.okXferFrm && s.fails >= 3
			c.Case(s.key(), nt)
			if nt {
				cnt["sequences_nontrivial"]++
			}
			cnt["ops_executed"] += len(s.ops)
			if bi == 0 && i < 2 {
				ops := make([]string, 0, 10)
				for _, o := range s.ops[:10] {
					ops = append(ops, o.text())
				}
				c.Sample(map[string]any{"first_ops": ops, "driver_lines": per[i][:min(11, len(per[i]))]})
			}
		}
		tallies[bi] = cnt
	})
	for _, t := range tallies {
		for k, v := range t {
			c.Count(k, v)
		}
	}
	c.Set("sequences", nseq)
	c.Set("ops_per_sequence", nops)
	c.Assume("the GnoVM executes the driver faithfully; user callers are simulated with the test stdlib (testing.SetRealm + a crossing call), as the package's own tests do")
	c.Assume("the only holders are the 4 valid accounts of the driver (nothing else can receive tokens), so sum of the 6 printed balances is the sum of all balances")
	c.Assume("which error value a failing op returns is not compared, only success vs failure; documented refusals (transfer to self, invalid address, negative amount, readonly teller, stale realm token) are part of the model")
	if n := setupFail.Load(); n > 0 {
		c.Inconclusive(fmt.Sprintf("driver setup probe failed in %d batches (account derivation or teller constructors changed?)", n))
	}
	for k := 0; k < nKinds; k++ {
		c.RequireCounter("ok_"+kindNames[k], int64(nseq/4))
		c.RequireCounter("fail_"+kindNames[k], int64(nseq/4))
	}
	for v := 0; v < nVariants; v++ {
		c.RequireCounter("teller_"+variantNames[v], int64(nseq/10))
	}
	for _, cls := range []string{"invalid-address", "negative-amount", "supply-overflow", "insufficient-balance", "insufficient-allowance", "transfer-to-self", "readonly-teller", "stale-realm"} {
		c.RequireCounter("failclass_"+cls, int64(nseq/10))
	}
	c.RequireCounter("transferfrom_ok_positive", int64(nseq/2))
	c.RequireCounter("ok_amount_zero", int64(nseq/10))
	c.RequireCounter("ok_at_maxint64", int64(nseq/20))
	c.RequireCounter("failing_ops_verified_unchanged", int64(nseq*3))
	c.RequireCounter("sequences_nontrivial", int64(nseq/4))
}

func truncate(s string, n int) string {
	if len(s) <= n {
		return s
	}
	return s[:n] + "..."
}
