package c51

// drvPath is the realm the generated driver runs as (NewToken requires a live
// realm: rlm.IsCurrent() and a non-empty rlm.PkgPath()).
const drvPath = "gno.land/r/verif/c51drv"

// driverGno is the generated driver: a realm whose main(cur realm) applies the
// op table (parallel slices of basic literals, filled in by the generator) to
// one fresh grc20 token per sequence and prints, per op, the complete
// observable state (supply, six balances, sixteen allowances, re-read through
// the Token view and, on odd ops, through a Teller view) and the op's result.
//
// Accounts: 0 alice (user), 1 bob (user), 2 the driver realm itself, 3 the
// realm's "vault" sub-account, 4 and 5 invalid addresses.
// Teller variants (who the "caller" is):
//
//	0 CallerTeller, previous realm = user alice    -> alice
//	1 CallerTeller, previous realm = user bob      -> bob
//	2 CallerTeller, previous realm = driver realm  -> realm
//	3 RealmTeller(cur)                             -> realm
//	4 RealmSubTeller(cur, "vault")                 -> vault sub-account
//	5 ImpersonateTeller(account w)                 -> w (possibly invalid)
//	6 ReadonlyTeller                               -> every write fails
//	7 CallerTeller handed a stale realm value      -> every write fails
const driverGno = `package c51drv

import (
	"chain"
	"testing"

	"gno.land/p/demo/tokens/grc20"
)

var (
	ks   = []int{%s}
	xs   = []int{%s}
	ys   = []int{%s}
	zs   = []int{%s}
	ws   = []int{%s}
	vs   = []int{%s}
	amts = []int64{%s}
	lens = []int{%s}
)

func es(err error) string {
	if err == nil {
		return "ok"
	}
	return "E:" + err.Error()
}

type accounts [6]address

// dump prints one observation line: supply, 6 balances, 16 allowances (owner
// major), "|", the op result. Everything is re-read from the token, through
// the Token view or (odd) through a Teller view.
func dump(res string, tok *grc20.Token, odd bool, a *accounts) {
	if odd {
		v := tok.ReadonlyTeller()
		println(v.TotalSupply(),
			v.BalanceOf(a[0]), v.BalanceOf(a[1]), v.BalanceOf(a[2]), v.BalanceOf(a[3]), v.BalanceOf(a[4]), v.BalanceOf(a[5]),
			v.Allowance(a[0], a[0]), v.Allowance(a[0], a[1]), v.Allowance(a[0], a[2]), v.Allowance(a[0], a[3]),
			v.Allowance(a[1], a[0]), v.Allowance(a[1], a[1]), v.Allowance(a[1], a[2]), v.Allowance(a[1], a[3]),
			v.Allowance(a[2], a[0]), v.Allowance(a[2], a[1]), v.Allowance(a[2], a[2]), v.Allowance(a[2], a[3]),
			v.Allowance(a[3], a[0]), v.Allowance(a[3], a[1]), v.Allowance(a[3], a[2]), v.Allowance(a[3], a[3]),
			"|", res)
		return
	}
	v := tok
	println(v.TotalSupply(),
		v.BalanceOf(a[0]), v.BalanceOf(a[1]), v.BalanceOf(a[2]), v.BalanceOf(a[3]), v.BalanceOf(a[4]), v.BalanceOf(a[5]),
		v.Allowance(a[0], a[0]), v.Allowance(a[0], a[1]), v.Allowance(a[0], a[2]), v.Allowance(a[0], a[3]),
		v.Allowance(a[1], a[0]), v.Allowance(a[1], a[1]), v.Allowance(a[1], a[2]), v.Allowance(a[1], a[3]),
		v.Allowance(a[2], a[0]), v.Allowance(a[2], a[1]), v.Allowance(a[2], a[2]), v.Allowance(a[2], a[3]),
		v.Allowance(a[3], a[0]), v.Allowance(a[3], a[1]), v.Allowance(a[3], a[2]), v.Allowance(a[3], a[3]),
		"|", res)
}

func ledgerOp(led *grc20.PrivateLedger, a *accounts, k, x, y, z int, amt int64) (res string) {
	defer func() {
		if r := recover(); r != nil {
			res = "P"
		}
	}()
	switch k {
	case 0:
		return es(led.Mint(a[x], amt))
	case 1:
		return es(led.Burn(a[x], amt))
	case 2:
		return es(led.Transfer(a[x], a[y], amt))
	case 3:
		return es(led.Approve(a[x], a[y], amt))
	case 4:
		return es(led.TransferFrom(a[x], a[y], a[z], amt))
	case 5:
		return es(led.SpendAllowance(a[x], a[y], amt))
	}
	return "?"
}

// tellerOp runs inside a fresh crossing frame: cur is live, stale is not.
func tellerOp(cur, stale realm, tok *grc20.Token, led *grc20.PrivateLedger, a *accounts, k, x, y, z, w, v int, amt int64) (res string) {
	defer func() {
		if r := recover(); r != nil {
			res = "P"
		}
	}()
	var t grc20.Teller
	rlm := cur
	switch v {
	case 0, 1, 2:
		t = tok.CallerTeller()
	case 3:
		t = tok.RealmTeller(0, cur)
	case 4:
		t = tok.RealmSubTeller(0, cur, "vault")
	case 5:
		t = led.ImpersonateTeller(a[w])
	case 6:
		t = tok.ReadonlyTeller()
	case 7:
		t = tok.CallerTeller()
		rlm = stale
	}
	switch k {
	case 6:
		return es(t.Transfer(0, rlm, a[y], amt))
	case 7:
		return es(t.Approve(0, rlm, a[y], amt))
	case 8:
		return es(t.TransferFrom(0, rlm, a[x], a[z], amt))
	}
	return "?"
}

func main(cur realm) {
	var a accounts
	a[0] = chain.PackageAddress("alice")
	a[1] = chain.PackageAddress("bob")
	a[2] = cur.Address()
	a[3] = chain.PackageAddress(string(a[2]) + "/vault")
	a[4] = address("")
	a[5] = address("g1notanaddress")

	// setup probe: the vault address really is the sub-teller's account, the
	// realm address really is the RealmTeller's account, the invalid ones are invalid
	{
		tok, led := grc20.NewToken("Probe", "PRB", 6, 0, cur)
		led.Mint(a[3], 2)
		led.Mint(a[2], 2)
		ok := a[0].IsValid() && a[1].IsValid() && a[2].IsValid() && a[3].IsValid() && !a[4].IsValid() && !a[5].IsValid()
		func(cur realm) {
			ok = ok && tok.RealmSubTeller(0, cur, "vault").Transfer(0, cur, a[0], 2) == nil
			ok = ok && tok.RealmTeller(0, cur).Transfer(0, cur, a[1], 2) == nil
		}(cross(cur))
		ok = ok && tok.BalanceOf(a[0]) == 2 && tok.BalanceOf(a[1]) == 2 && tok.BalanceOf(a[2]) == 0 && tok.BalanceOf(a[3]) == 0
		if !ok {
			println("SETUP-FAIL")
			return
		}
		println("SETUP-OK")
	}

	p := 0
	for si, n := range lens {
		println("=", si)
		// earlier teller ops left a user realm as this frame's simulated
		// current realm; NewToken needs a code realm
		testing.SetRealm(testing.NewCodeRealm("gno.land/r/verif/c51drv"))
		tok, led := grc20.NewToken("Token", "TOK", 6, 0, cur)
		dump("new", tok, false, &a)
		for e := p + n; p < e; p++ {
			k, x, y, z, w, v, amt := ks[p], xs[p], ys[p], zs[p], ws[p], vs[p], amts[p]
			res := ""
			if k < 6 {
				res = ledgerOp(led, &a, k, x, y, z, amt)
			} else {
				switch v {
				case 0, 7:
					testing.SetRealm(testing.NewUserRealm(a[0]))
				case 1:
					testing.SetRealm(testing.NewUserRealm(a[1]))
				default:
					testing.SetRealm(testing.NewCodeRealm("gno.land/r/verif/c51drv"))
				}
				func(cur realm, stale realm) {
					res = tellerOp(cur, stale, tok, led, &a, k, x, y, z, w, v, amt)
				}(cross(cur), cur)
			}
			dump(res, tok, p%%2 == 1, &a)
		}
	}
}
`
