// Package c16: session keys cannot exceed their spend limit or allowed actions.
//
// Independent ledger per (master, session grant): every session-signed
// transaction is delivered alone in a block; what left the master is measured
// as the difference of the master's committed balances (audit view) and added
// to the ledger of the spend window the harness tracks by itself from header
// times. The code's own SpendUsed counter is never consulted. Liveness of
// grants (revoked, expired) and the allow-path rules are decided by the
// harness's own reading of the documented rules.
package c16

import (
	"fmt"
	"math"
	"math/rand/v2"

	"github.com/gnolang/gno/gno.land/pkg/gnoland"
	"github.com/gnolang/gno/gno.land/pkg/sdk/vm"
	"github.com/gnolang/gno/tm2/pkg/amino"
	"github.com/gnolang/gno/tm2/pkg/crypto"
	"github.com/gnolang/gno/tm2/pkg/std"

	"verifharness/checks/c15/txkit"
	"verifharness/internal/chainsim"
	"verifharness/internal/hist"
	"verifharness/internal/vf"
)

func init() {
	vf.Register(&vf.Check{
		ID:    "C16",
		Level: "exploration",
		Rule: "case = one session-signed transaction inside a history of session create / revoke / revoke-all / re-create, header times stepping across spend-period and expiry boundaries (±1 s), " +
			"and session-signed txs (bank sends in ugnot and a realm denomination, calls with attached coins, storage-deposit growth and release, realm pay-backs to the master, MsgRun scripts spending the master's coins through a banker, " +
			"multi-message txs mixing allowed / disallowed / failing messages, second signers paying or not paying the fee, zero fees, fees in a realm denomination); scripted boundary histories plus seeded random histories; " +
			"oracle = per-grant ledger fed by committed balance differences of the master, own window tracking, own allow-path matcher; non-trivial = the tx is signed by at least one session; distinct by (chain, height, label)",
		Run: run,
	})
}

type plan struct {
	id    string
	kind  string
	steps int
}

func run(c *vf.Ctx) {
	plans := []plan{{"L", "limits", 0}, {"T", "time-grants", 0}, {"F", "deposits-fuzz", c.N(150, 400)}}
	for i := 0; i < c.N(1, 6); i++ {
		plans = append(plans, plan{fmt.Sprintf("Z%d", i), "fuzz", c.N(250, 500)})
	}
	c.Parallel(len(plans), 6, 1600, func(i int, rng *rand.Rand) { runChain(c, plans[i], rng) })
	c.Assume("what left a master in a session-signed tx is measured as max(0, balance before − balance after) per denomination with that tx alone in its block: coins returned to the master inside the same tx (deposit releases, realm pay-backs) net against its outflow, so the ledger is a lower bound of the gross outflow")
	c.Assume("spend windows are tracked as documented: a window starts at the session's creation time; the first charged tx at header time ≥ start+period starts a new window at its own header time")
	c.Assume("account numbers and sequences used for signing are read from committed state (a client's query); every transaction of these histories is correctly signed — forgery is C15's subject")
	c.RequireCounter("ledger_checks", 60)
	c.RequireCounter("session_txs_with_outflow", 40)
	c.RequireCounter("over_limit_attempts", 8)
	c.RequireCounter("over_limit_rejected_without_fee", 3)
	c.RequireCounter("failed_session_txs_fee_charged", 3)
	c.RequireCounter("period_resets_in_model", 2)
	c.RequireCounter("must_reject:expired-session", 2)
	c.RequireCounter("must_reject:revoked-session", 3)
	c.RequireCounter("must_reject:not-in-allow-paths", 5)
	c.RequireCounter("must_reject:always-denied", 3)
	c.RequireCounter("prefix_guard_cases", 1)
	c.RequireCounter("deposit_growth_txs", 2)
	c.RequireCounter("deposit_refused_by_limit", 1)
	c.RequireCounter("exact_limit_reached", 2)
	c.RequireCounter("outflow_observed_tok", 1)
	c.RequireCounter("verdict:ok", 40)
}

type world struct {
	m   []*acct // alice bob carol dave
	out *acct   // erin: plain recipient
}

func runChain(c *vf.Ctx, p plan, rng *rand.Rand) {
	sm := &sim{c: c, id: p.id, rng: rng}
	var w world
	e, err := txkit.Start(chainsim.Options{}, func(ch *chainsim.Chain) gnoland.GnoGenesisState {
		st := hist.Genesis(ch)
		dep := ch.Acc("alice")
		for _, x := range []struct{ path, name string }{{VaultPath, "vault"}, {VaultXPath, "vaultx"}, {VaultSub, "sub"}} {
			st.Txs = append(st.Txs, chainsim.GenesisAddPkgTx(dep, x.path, map[string]string{x.name + ".gno": vaultSrc(x.name)}))
			st.Balances = append(st.Balances, gnoland.Balance{Address: hist.RealmAddr(x.path), Amount: std.Coins{{Denom: "ugnot", Amount: 1_000_000_000_000}}})
		}
		st.Balances = append(st.Balances, gnoland.Balance{Address: ch.Acc("erin").Addr, Amount: std.Coins{{Denom: "ugnot", Amount: 1_000_000}}})
		return st
	})
	if err != nil {
		panic(err)
	}
	defer e.Ch.Close()
	sm.e = e
	for _, n := range hist.Users {
		w.m = append(w.m, &acct{name: n, key: txkit.FromChainsim(e.Ch.Acc(n))})
	}
	w.out = &acct{name: "erin", key: txkit.FromChainsim(e.Ch.Acc("erin"))}
	// every master gets realm-denomination coins
	for _, a := range w.m {
		sm.masterTx(2, "mint tok", a, 60_000_000, vm.NewMsgCall(a.key.Addr, nil, hist.PeerPath, "Mint", []string{a.key.Addr.String(), "tok", "1000000000"}))
	}
	c.Logf("chain %s (%s): start at height %d", p.id, p.kind, e.Ch.Height)
	switch p.kind {
	case "limits":
		scenarioLimits(sm, &w)
	case "time-grants":
		scenarioPeriod(sm, &w)
		scenarioExpiry(sm, &w)
		scenarioGrants(sm, &w)
	case "deposits-fuzz":
		scenarioDeposits(sm, &w)
		fuzz(sm, &w, p.steps)
	case "fuzz":
		fuzz(sm, &w, p.steps)
	}
	c.Logf("chain %s (%s): done at height %d", p.id, p.kind, e.Ch.Height)
}

func (sm *sim) newKey(tag string) *txkit.Key {
	sm.nkeys++
	name := fmt.Sprintf("c16-%s-%s-%d", sm.id, tag, sm.nkeys)
	if sm.nkeys%2 == 0 {
		return txkit.Ed(name)
	}
	return txkit.Secp(name)
}

func ug(n int64) map[string]int64 { return map[string]int64{"ugnot": n} }

func feeU(n int64) std.Coin { return std.Coin{Denom: "ugnot", Amount: n} }

const (
	gSend = 5_000_000
	gCall = 60_000_000
)

func scenarioLimits(sm *sim, w *world) {
	to := w.out.key.Addr
	// many small spends approaching the limit: the last one lands at limit−1, limit, limit+1
	for vi, v := range []int64{-1, 0, 1} {
		m := w.m[vi]
		const L = 100_000
		s := sm.create(2, m, fmt.Sprintf("exact%+d", v), sm.newKey("x"), ug(L), 0, 0, []string{"bank/send", "vm/exec:" + VaultPath})
		spent := int64(0)
		for i := 0; i < 6; i++ {
			amt := int64(1 + sm.rng.IntN(3000))
			sm.tx(1+int64(sm.rng.IntN(4)), "small-spend", gSend, feeU(6000), part{by: s, m: mSend(to, ug(amt))})
			spent += 6000 + amt
		}
		x := L - spent
		sm.tx(2, fmt.Sprintf("last-spend-to-limit%+d", v), gSend, feeU(6000), part{by: s, m: mSend(to, ug(x-6000+v))})
		switch v {
		case 1:
			sm.tx(2, "spend-exact-remainder", gSend, feeU(6000), part{by: s, m: mSend(to, ug(x-6000))})
		case -1:
			sm.tx(2, "spend-exact-remainder", gCall, feeU(1), part{by: s, m: mCall(VaultPath, "Noop", 0)})
		}
		if s.used["ugnot"] == L {
			sm.c.Count("exact_limit_reached", 1)
		}
		sm.tx(2, "beyond-limit-fee-1", gCall, feeU(1), part{by: s, m: mCall(VaultPath, "Noop", 0)})
		sm.tx(2, "beyond-limit-fee-1", gSend, feeU(1), part{by: s, m: mSend(to, ug(1))})
	}
	// amounts at the edge of int64: sums in the limit arithmetic must not wrap
	{
		s := sm.create(2, w.m[3], "overflow", sm.newKey("o"), ug(9_000_000_000_000_000_000), 0, 0, []string{"*"})
		sm.tx(2, "huge-send", gSend, feeU(6000), part{by: s, m: mSend(to, ug(math.MaxInt64))})
		sm.tx(2, "huge-send-sum-wraps", gSend, feeU(6000), part{by: s, m: mSend(to, ug(math.MaxInt64-3000))}, part{by: s, m: mSend(to, ug(math.MaxInt64-3000))})
		sm.tx(2, "huge-fee", gSend, feeU(math.MaxInt64), part{by: s, m: mSend(to, ug(10))})
		sm.tx(2, "normal-after-huge", gSend, feeU(6000), part{by: s, m: mSend(to, ug(10))})
	}
	// failing transactions still pay the fee, and the fee counts
	d := w.m[3]
	s := sm.create(2, d, "burn", sm.newKey("b"), ug(10*20_000+500), 0, 0, []string{"*"})
	for i := 0; i < 13; i++ {
		sm.tx(2, "failing-after-partial-spend", gCall, feeU(20_000), part{by: s, m: mSend(to, ug(100))}, part{by: s, m: mCall(VaultPath, "Fail", 0)})
	}
	sm.tx(2, "after-burn-small-fee", gSend, feeU(400), part{by: s, m: mSend(to, ug(100))})
	sm.tx(2, "after-burn-small-fee", gSend, feeU(400), part{by: s, m: mSend(to, ug(101))})
	// two denominations, each with its own cap; a fee paid in the realm denomination
	a := w.m[0]
	s = sm.create(2, a, "two-denoms", sm.newKey("t"), map[string]int64{TokDenom: 50, "ugnot": 100_000}, 0, 0, []string{"*"})
	sm.tx(2, "tok-send", gSend, feeU(6000), part{by: s, m: mSend(to, map[string]int64{TokDenom: 20})})
	sm.tx(2, "tok-send-over", gSend, feeU(6000), part{by: s, m: mSend(to, map[string]int64{TokDenom: 31})})
	sm.tx(2, "tok-send", gSend, feeU(6000), part{by: s, m: mSend(to, map[string]int64{TokDenom: 30})})
	sm.tx(2, "tok-send-over", gSend, feeU(6000), part{by: s, m: mSend(to, map[string]int64{TokDenom: 1})})
	sm.tx(2, "both-denoms", gSend, feeU(6000), part{by: s, m: mSend(to, map[string]int64{TokDenom: 0, "ugnot": 10})})
	s = sm.create(2, a, "tok-only", sm.newKey("t"), map[string]int64{TokDenom: 20}, 0, 0, []string{"*"})
	tokFee := func(n int64) std.Coin { return std.Coin{Denom: TokDenom, Amount: n} }
	sm.tx(2, "fee-in-tok", gSend, tokFee(5), part{by: s, m: mSend(to, map[string]int64{TokDenom: 10})})
	sm.tx(2, "fee-in-tok-over", gSend, tokFee(5), part{by: s, m: mSend(to, map[string]int64{TokDenom: 1})})
	sm.tx(2, "fee-denom-not-in-limit", gSend, feeU(6000), part{by: s, m: mSend(to, map[string]int64{TokDenom: 1})})
	sm.tx(2, "send-denom-not-in-limit", gSend, tokFee(1), part{by: s, m: mSend(to, ug(1))})
	sm.tx(2, "fee-in-tok", gSend, tokFee(4), part{by: s, m: mSend(to, map[string]int64{TokDenom: 1})})
	// a session that does not pay the fee; a session without any limit
	b := w.m[1]
	s = sm.create(2, a, "not-payer", sm.newKey("n"), ug(1000), 0, 0, []string{"*"})
	sm.tx(2, "other-signer-pays", gSend, feeU(6000), part{own: b, m: mSend(to, ug(5))}, part{by: s, m: mSend(to, ug(600))})
	sm.tx(2, "other-signer-pays-over", gSend, feeU(6000), part{own: b, m: mSend(to, ug(5))}, part{by: s, m: mSend(to, ug(401))})
	sm.tx(2, "other-signer-pays", gSend, feeU(6000), part{own: b, m: mSend(to, ug(5))}, part{by: s, m: mSend(to, ug(400))})
	sm.tx(2, "session-pays-other-signer-too", gSend, feeU(6000), part{by: s, m: mSend(to, ug(1))}, part{own: b, m: mSend(to, ug(5))})
	s = sm.create(2, a, "no-limit", sm.newKey("n"), map[string]int64{}, 0, 0, []string{"*"})
	sm.tx(2, "no-limit-zero-spend", gCall, feeU(60_000), part{own: b, m: mCall(VaultPath, "Noop", 0)}, part{by: s, m: mCall(VaultPath, "Noop", 0)})
	sm.tx(2, "no-limit-attached-coins", gCall, feeU(60_000), part{own: b, m: mCall(VaultPath, "Noop", 0)}, part{by: s, m: mCall(VaultPath, "Noop", 1)})
	sm.tx(2, "no-limit-pays-fee", gCall, feeU(60_000), part{by: s, m: mCall(VaultPath, "Noop", 0)})
	// coins attached to calls and a script spending through a banker
	c := w.m[2]
	s = sm.create(2, c, "attached", sm.newKey("a"), ug(200_000), 0, 0, []string{"vm/exec", "vm/run"})
	sm.tx(2, "call-attached-coins", gCall, feeU(60_000), part{by: s, m: mCall(VaultPath, "Noop", 30_000)})
	sm.tx(2, "run-banker-send", gCall, feeU(60_000), part{by: s, m: mRunPay(to, 20_000, 0)})
	sm.tx(2, "run-banker-send-over", gCall, feeU(20_000), part{by: s, m: mRunPay(to, 10_001, 0)})
	sm.tx(2, "run-banker-send", gCall, feeU(5_000), part{by: s, m: mRunPay(to, 3_000, 0)})
}

// at returns the advance needed to put the next block at header time t.
func (sm *sim) at(t int64) int64 { return t - sm.e.Now.Unix() }

func scenarioPeriod(sm *sim, w *world) {
	to := w.out.key.Addr
	a := w.m[0]
	const P, L = 60, 50_000
	s := sm.create(2, a, "periodic", sm.newKey("p"), ug(L), P, 0, []string{"*"})
	spend := func(adv int64, label string, amt int64) {
		sm.tx(adv, label, gSend, feeU(6000), part{by: s, m: mSend(to, ug(amt))})
	}
	for i := 0; i < 5; i++ {
		spend(2, "window-fill", 2000)
	}
	r0 := s.reset
	spend(sm.at(r0+P-1), "one-second-before-period-end", 5000) // 40000+11000 > L
	spend(1, "at-period-end", 5000)                              // new window
	r1 := s.reset
	for i := 0; i < 4; i++ {
		spend(2, "window-fill", 2000)
	}
	spend(sm.at(r1+P-1), "one-second-before-period-end", 2000)
	spend(8, "late-after-period-end", 2000) // window starts here, not at r1+P
	r2 := s.reset
	for i := 0; i < 5; i++ {
		spend(1, "window-fill", 2000)
	}
	spend(sm.at(r1+2*P)+1, "aligned-boundary-is-not-a-reset", 2000) // r1+2P+1 < r2+P
	spend(sm.at(r2+P-1), "one-second-before-period-end", 2000)
	spend(1, "at-period-end", 2000)
	// rejected attempts must not start a window: idle for three periods, then an over-limit attempt, then a normal spend
	spend(3*P, "huge-after-idle", L)
	spend(1, "after-rejected-attempt", 2000)
	if !sm.dead && s.windows < 3 {
		panic(fmt.Sprintf("period scenario saw %d window changes", s.windows))
	}
}

func scenarioExpiry(sm *sim, w *world) {
	to := w.out.key.Addr
	b := w.m[1]
	s := sm.create(2, b, "expiring", sm.newKey("e"), ug(1_000_000), 0, 30, []string{"*"})
	spend := func(adv int64, label string) {
		sm.tx(adv, label, gSend, feeU(6000), part{by: s, m: mSend(to, ug(10))})
	}
	spend(2, "well-before-expiry")
	spend(sm.at(s.expires-1), "one-second-before-expiry")
	spend(1, "at-expiry")
	spend(1, "one-second-after-expiry")
	spend(1000, "long-after-expiry")
	// expiry and period together
	s = sm.create(2, b, "expiring-periodic", sm.newKey("e"), ug(20_000), 10, 25, []string{"*"})
	for i := 0; i < 12; i++ {
		sm.tx(3, "periodic-until-expiry", gSend, feeU(6000), part{by: s, m: mSend(to, ug(3000))})
	}
}

func scenarioGrants(sm *sim, w *world) {
	to := w.out.key.Addr
	a, b, c, d := w.m[0], w.m[1], w.m[2], w.m[3]
	big := ug(1_000_000_000)
	fc := feeU(60_000)
	sa := sm.create(2, a, "only-vault", sm.newKey("g"), big, 0, 0, []string{"vm/exec:" + VaultPath})
	sm.tx(2, "allowed-exact-path", gCall, fc, part{by: sa, m: mCall(VaultPath, "Noop", 7)})
	sm.tx(2, "allowed-sub-path", gCall, fc, part{by: sa, m: mCall(VaultSub, "Noop", 7)})
	sm.tx(2, "prefix-without-slash", gCall, fc, part{by: sa, m: mCall(VaultXPath, "Noop", 7)})
	sm.c.Count("prefix_guard_cases", 1)
	sm.tx(2, "other-realm", gCall, fc, part{by: sa, m: mCall(hist.PeerPath, "BoxAdd", 0, "1")})
	sm.tx(2, "parent-path", gCall, fc, part{by: sa, m: mCall(hist.StorePath, "Pop", 0)})
	sm.tx(2, "send-not-granted", gSend, feeU(6000), part{by: sa, m: mSend(to, ug(5))})
	sm.tx(2, "run-not-granted", gCall, fc, part{by: sa, m: mRunPay(to, 5, 0)})
	sm.tx(2, "mixed-allowed-then-disallowed", gCall, fc, part{by: sa, m: mCall(VaultPath, "Noop", 3)}, part{by: sa, m: mCall(VaultXPath, "Noop", 3)})
	sm.tx(2, "mixed-disallowed-then-allowed", gCall, fc, part{by: sa, m: mSend(to, ug(5))}, part{by: sa, m: mCall(VaultPath, "Noop", 3)})
	sm.tx(2, "allowed-state-change", gCall, fc, part{by: sa, m: mCall(VaultPath, "Touch", 0)})
	sm.tx(2, "other-signers-message-is-free", gCall, fc, part{by: sa, m: mCall(VaultPath, "Noop", 3)}, part{own: b, m: mSend(to, ug(5))})
	sm.tx(2, "other-signer-pays-session-disallowed", gCall, fc, part{own: b, m: mSend(to, ug(5))}, part{by: sa, m: mCall(VaultXPath, "Noop", 3)})

	sb := sm.create(2, b, "send-and-run", sm.newKey("g"), big, 0, 0, []string{"bank/send", "vm/run"})
	sm.tx(2, "send-granted", gSend, feeU(6000), part{by: sb, m: mSend(to, ug(5))})
	sm.tx(2, "run-granted", gCall, fc, part{by: sb, m: mRunPay(to, 5, 0)})
	sm.tx(2, "call-not-granted", gCall, fc, part{by: sb, m: mCall(VaultPath, "Noop", 0)})

	// two sessions of different masters co-sign one tx: each message is judged by its own signer's grant
	sm.tx(2, "two-sessions-each-within-own-grant", gCall, fc, part{by: sb, m: mSend(to, ug(5))}, part{by: sa, m: mCall(VaultPath, "Noop", 3)})
	sm.tx(2, "two-sessions-second-needs-firsts-grant", gCall, fc, part{by: sb, m: mSend(to, ug(5))}, part{by: sa, m: mSend(to, ug(5))})
	sm.tx(2, "two-sessions-second-needs-firsts-grant-reversed", gCall, fc, part{by: sa, m: mCall(VaultPath, "Noop", 3)}, part{by: sb, m: mCall(VaultPath, "Noop", 3)})
	sm.tx(2, "two-sessions-first-needs-seconds-grant", gCall, fc, part{by: sa, m: mSend(to, ug(5))}, part{by: sb, m: mSend(to, ug(5))})

	sc := sm.create(2, c, "wildcard", sm.newKey("g"), big, 0, 0, []string{"*"})
	sm.tx(2, "wildcard-session-first-restricted-second", gCall, fc, part{by: sc, m: mSend(to, ug(5))}, part{by: sa, m: mSend(to, ug(5))})
	sm.tx(2, "wildcard-session-first-restricted-second-run", gCall, fc, part{by: sc, m: mRunPay(to, 5, 0)}, part{by: sa, m: mRunPay(to, 5, 0)})
	sm.tx(2, "restricted-first-wildcard-second", gCall, fc, part{by: sa, m: mCall(VaultPath, "Noop", 3)}, part{by: sc, m: mSend(to, ug(5))})
	other := sm.newKey("esc")
	sm.tx(2, "wildcard-create-session", gSend, feeU(6000), part{by: sc, m: mAuth("create_session", other)})
	sm.tx(2, "wildcard-revoke-own-session", gSend, feeU(6000), part{by: sc, m: mAuth("revoke_session", sc.key)})
	sm.tx(2, "wildcard-revoke-all", gSend, feeU(6000), part{by: sc, m: mAuth("revoke_all_sessions", nil)})
	sm.tx(2, "wildcard-add-package", 200_000_000, feeU(200_000), part{by: sc, m: mAddPkg("gno.land/r/verif/byses" + sm.id)})
	sm.tx(2, "wildcard-mixed-send-then-auth", gSend, feeU(6000), part{by: sc, m: mSend(to, ug(5))}, part{by: sc, m: mAuth("revoke_all_sessions", nil)})
	sm.tx(2, "wildcard-anything-else", gCall, fc, part{by: sc, m: mCall(VaultXPath, "Noop", 9)}, part{by: sc, m: mSend(to, ug(5))}, part{by: sc, m: mRunPay(to, 5, 0)})

	sd := sm.create(2, d, "any-call", sm.newKey("g"), big, 0, 0, []string{"vm/exec"})
	sm.tx(2, "bare-exec-any-realm", gCall, fc, part{by: sd, m: mCall(VaultXPath, "Noop", 1)})
	sm.tx(2, "bare-exec-send-not-granted", gSend, feeU(6000), part{by: sd, m: mSend(to, ug(5))})

	// revoke one; the others of the same master live on
	sb2 := sm.create(2, b, "second-of-bob", sm.newKey("g"), big, 0, 0, []string{"bank/send"})
	sm.revoke(2, sb)
	sm.tx(2, "revoked", gSend, feeU(6000), part{by: sb, m: mSend(to, ug(5))})
	sm.tx(2, "sibling-of-revoked", gSend, feeU(6000), part{by: sb2, m: mSend(to, ug(5))})
	// the same key granted again with a tighter grant: only the new grant counts
	sb3 := sm.create(2, b, "regrant", sb.key, ug(20_000), 0, 0, []string{"bank/send"})
	sm.tx(2, "regranted-within", gSend, feeU(6000), part{by: sb3, m: mSend(to, ug(5))})
	sm.tx(2, "regranted-old-permission", gCall, fc, part{by: sb3, m: mRunPay(to, 5, 0)})
	sm.tx(2, "regranted-over-new-limit", gSend, feeU(6000), part{by: sb3, m: mSend(to, ug(9000))})
	// revoke in the same block, just before the session's tx
	sm.revokeThenUseSameBlock(sb2, to)
	// revoke-all
	sc2 := sm.create(2, c, "second-of-carol", sm.newKey("g"), big, 0, 0, []string{"*"})
	sm.tx(2, "before-revoke-all", gSend, feeU(6000), part{by: sc2, m: mSend(to, ug(5))})
	sm.revokeAll(2, c, []*sess{sc, sc2})
	sm.tx(2, "revoked-all", gSend, feeU(6000), part{by: sc, m: mSend(to, ug(5))})
	sm.tx(2, "revoked-all", gSend, feeU(6000), part{by: sc2, m: mSend(to, ug(5))})
	sm.tx(2, "other-master-unaffected", gCall, fc, part{by: sd, m: mCall(VaultPath, "Noop", 1)})
}

// revokeThenUseSameBlock: [master-signed revoke, session-signed send] in one block.
func (sm *sim) revokeThenUseSameBlock(s *sess, to crypto.Address) {
	if sm.dead {
		return
	}
	m := s.master
	v := sm.e.View
	body := txkit.Body{Msgs: []std.Msg{txkit.RevokeSession(m.key.Addr, s.key)}, Fee: txkit.Fee(gSend, 5001)}
	_, num, seq, _ := txkit.Account(v, m.key.Addr)
	rev := amino.MustMarshal(std.Tx{Msgs: body.Msgs, Fee: body.Fee, Signatures: []std.Signature{{PubKey: m.key.Pub, Signature: m.key.SignRaw(txkit.SignBytes(body, chainsim.ChainID, num, seq))}}})
	use := sm.buildTx(gSend, feeU(6000), []part{{by: s, m: mSend(to, ug(777))}})
	before := bal(v, m, "ugnot")
	o := sm.e.Block(2, rev, use)
	s.alive = false
	sm.logf("block [revoke %s ; session send] -> revoke ok=%v, session tx ante=%v ok=%v %s", s.name, o.Res[0].OK, chainsim.AntePassed(o.Res[1]), o.Res[1].OK, txkit.Clip(o.Res[1].ErrString, 100))
	sm.c.Case(fmt.Sprintf("%s/%d/revoke-then-use-same-block", sm.id, o.Height), true)
	sm.c.Count("must_reject:revoked-session", 1)
	if !o.Res[0].OK {
		panic("same-block revoke failed: " + o.Res[0].ErrString)
	}
	delta := before - bal(o.View, m, "ugnot")
	if chainsim.AntePassed(o.Res[1]) || delta != 5001 {
		sm.c.Violation("revoked-session-accepted:same-block", map[string]any{"chain": sm.id, "height": o.Height, "session": s.describe(), "master_delta": delta, "revoke_fee": 5001, "history": sm.tail()},
			"chain %s height %d: session %s was revoked by the first tx of the block; its tx later in the block passed=%v and the master lost %d ugnot (revoke fee is 5001)", sm.id, o.Height, s.name, chainsim.AntePassed(o.Res[1]), delta)
		sm.dead = true
	}
}

func scenarioDeposits(sm *sim, w *world) {
	a, b := w.m[0], w.m[1]
	to := w.out.key.Addr
	// measure what growing the vault by 40 entries locks (master-signed probe)
	b0 := bal(sm.e.View, a, "ugnot")
	o := sm.masterTx(2, "probe grow", a, gCall, vm.NewMsgCall(a.key.Addr, nil, VaultPath, "Grow", []string{"40"}))
	dep := b0 - bal(o.View, a, "ugnot") - (gCall/1000 + 1)
	sm.masterTx(2, "probe shrink", a, gCall, vm.NewMsgCall(a.key.Addr, nil, VaultPath, "Shrink", []string{"40"}))
	if !sm.dead && dep < 150_000 {
		panic(fmt.Sprintf("deposit probe: %d", dep))
	}
	sm.logf("deposit for Grow(40) measured as %d", dep)
	fee := int64(60_000)
	s := sm.create(2, a, "churn", sm.newKey("d"), ug(3*fee+dep+dep/2), 0, 0, []string{"vm/exec:" + VaultPath})
	grow := func(label string) *outcome {
		return sm.tx(2, label, gCall, feeU(fee), part{by: s, m: mCall(VaultPath, "Grow", 0, "40")})
	}
	if r := grow("deposit-grow"); r.ok {
		sm.c.Count("deposit_growth_txs", 1)
	}
	sm.tx(2, "deposit-release", gCall, feeU(fee), part{by: s, m: mCall(VaultPath, "Shrink", 0, "40")})
	if r := grow("deposit-grow-again"); !r.ok && !r.rejected {
		sm.c.Count("deposit_refused_by_limit", 1)
	} else if r.ok {
		sm.c.Count("deposit_growth_txs", 1)
	}
	grow("deposit-grow-again")
	// churn with a roomy limit: release does not give budget back
	s = sm.create(2, a, "churn-roomy", sm.newKey("d"), ug(4*fee+2*dep+dep/4), 0, 0, []string{"vm/exec:" + VaultPath})
	for i := 0; i < 3; i++ {
		r := sm.tx(2, "deposit-grow", gCall, feeU(fee), part{by: s, m: mCall(VaultPath, "Grow", 0, "40")})
		if r.ok {
			sm.c.Count("deposit_growth_txs", 1)
		} else if !r.rejected {
			sm.c.Count("deposit_refused_by_limit", 1)
		}
		sm.tx(2, "deposit-release", gCall, feeU(fee), part{by: s, m: mCall(VaultPath, "Shrink", 0, "40")})
	}
	// pay-backs from a realm to the master do not restore budget
	s = sm.create(2, b, "payback", sm.newKey("d"), ug(100_000), 0, 0, []string{"*"})
	for i := 0; i < 3; i++ {
		sm.tx(2, "realm-pays-master-back", gCall, feeU(20_000), part{by: s, m: mCall(VaultPath, "PayBack", 0, b.key.Addr.String(), "50000")})
	}
	sm.tx(2, "spend-after-paybacks", gSend, feeU(5_000), part{by: s, m: mSend(to, ug(30_000))})
	sm.tx(2, "spend-after-paybacks", gSend, feeU(5_000), part{by: s, m: mSend(to, ug(30_000))})
	sm.tx(2, "spend-after-paybacks", gSend, feeU(5_000), part{by: s, m: mSend(to, ug(30_000))})
}
