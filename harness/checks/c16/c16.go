package c16
