package c16

import (
	"fmt"

	"github.com/gnolang/gno/tm2/pkg/std"

	"verifharness/internal/hist"
)

var allowPresets = [][]string{
	{"*"},
	{"*"},
	{"bank/send"},
	{"vm/exec:" + VaultPath},
	{"vm/exec:" + VaultPath, "bank/send"},
	{"vm/exec", "vm/run"},
	{"vm/run", "bank/send"},
	{"vm/exec:" + VaultSub},
	{"vm/exec:gno.land/r/verif"},
}

// fuzz plays a seeded random history of grants, revocations, time jumps and session-signed transactions.
func fuzz(sm *sim, w *world, steps int) {
	var all []*sess
	onChain := map[*acct]int{}
	to := w.out.key.Addr
	rng := sm.rng
	pick := func() *sess {
		if len(all) == 0 {
			return nil
		}
		// mostly recent grants, sometimes any (dead ones included)
		if rng.IntN(4) > 0 && len(all) > 4 {
			return all[len(all)-1-rng.IntN(4)]
		}
		return all[rng.IntN(len(all))]
	}
	randMsg := func(s *sess) mspec {
		paths := []string{VaultPath, VaultPath, VaultXPath, VaultSub}
		switch k := rng.IntN(100); {
		case k < 30:
			return mSend(to, ug(int64(1+rng.IntN(9000))))
		case k < 36:
			return mSend(to, map[string]int64{TokDenom: int64(1 + rng.IntN(30))})
		case k < 50:
			return mCall(paths[rng.IntN(len(paths))], "Noop", int64(rng.IntN(5000)))
		case k < 56:
			return mCall(VaultPath, "Touch", 0)
		case k < 66:
			return mCall(VaultPath, "Grow", int64(rng.IntN(2))*100, fmt.Sprint(1+rng.IntN(12)))
		case k < 73:
			return mCall(VaultPath, "Shrink", 0, fmt.Sprint(1+rng.IntN(12)))
		case k < 79:
			return mCall(VaultPath, "Fail", int64(rng.IntN(3000)))
		case k < 84:
			return mCall(VaultPath, "PayBack", 0, s.master.key.Addr.String(), fmt.Sprint(1+rng.IntN(20000)))
		case k < 92:
			return mRunPay(to, int64(1+rng.IntN(8000)), 0)
		case k < 94:
			return mCall(hist.PeerPath, "BoxAdd", 0, "1")
		case k < 97:
			return mAuth([]string{"create_session", "revoke_session", "revoke_all_sessions"}[rng.IntN(3)], sm.newKey("fz"))
		default:
			return mAddPkg(fmt.Sprintf("gno.land/r/verif/fz%s%d", sm.id, len(sm.log)))
		}
	}
	for i := 0; i < steps && !sm.dead; i++ {
		adv := int64(1 + rng.IntN(6))
		// sometimes land exactly around a boundary of some grant
		if s := pick(); s != nil && rng.IntN(5) == 0 {
			var target int64
			switch {
			case s.period > 0 && rng.IntN(2) == 0:
				target = s.reset + s.period + int64(rng.IntN(3)) - 1
			case s.expires > 0:
				target = s.expires + int64(rng.IntN(3)) - 1
			}
			if d := target - sm.e.Now.Unix(); target > 0 && d >= 1 && d < 400 {
				adv = d
			}
		}
		switch k := rng.IntN(100); {
		case k < 10 || len(all) < 3:
			m := w.m[rng.IntN(len(w.m))]
			if onChain[m] >= 14 {
				sm.revokeAll(adv, m, all)
				onChain[m] = 0
				continue
			}
			limit := map[string]int64{}
			switch rng.IntN(6) {
			case 0: // no spending at all
			case 1:
				limit["ugnot"] = int64(20_000 + rng.IntN(40_000))
			case 2:
				limit["ugnot"] = int64(100_000 + rng.IntN(300_000))
				limit[TokDenom] = int64(10 + rng.IntN(100))
			default:
				limit["ugnot"] = int64(60_000 + rng.IntN(500_000))
			}
			period := []int64{0, 0, 15, 40}[rng.IntN(4)]
			expires := []int64{0, 0, 30, 120}[rng.IntN(4)]
			s := sm.create(adv, m, fmt.Sprintf("fz%d", i), sm.newKey("fz"), limit, period, expires, allowPresets[rng.IntN(len(allowPresets))])
			all = append(all, s)
			onChain[m]++
		case k < 14:
			if s := pick(); s != nil && s.alive {
				sm.revoke(adv, s)
				onChain[s.master]--
			}
		case k < 16:
			m := w.m[rng.IntN(len(w.m))]
			sm.revokeAll(adv, m, all)
			onChain[m] = 0
		default:
			s := pick()
			if s == nil {
				continue
			}
			n := 1
			if rng.IntN(3) == 0 {
				n = 2 + rng.IntN(2)
			}
			var parts []part
			calls := int64(0)
			for j := 0; j < n; j++ {
				m := randMsg(s)
				if m.route == "vm" {
					calls++
				}
				parts = append(parts, part{by: s, m: m})
			}
			// sometimes a second signer with its own key, paying or not
			if rng.IntN(6) == 0 {
				o := w.m[rng.IntN(len(w.m))]
				if o != s.master {
					p := part{own: o, m: mSend(to, ug(int64(1+rng.IntN(50))))}
					if rng.IntN(2) == 0 {
						parts = append([]part{p}, parts...)
					} else {
						parts = append(parts, p)
					}
				}
			}
			gas := int64(gSend) + calls*gCall
			fee := feeU([]int64{1, 2000, 6000, 6000, 20_000, 60_000}[rng.IntN(6)])
			if rng.IntN(15) == 0 {
				fee = std.Coin{Denom: TokDenom, Amount: int64(1 + rng.IntN(5))}
			}
			sm.tx(adv, fmt.Sprintf("fuzz#%d", i), gas, fee, parts...)
		}
	}
}
