package c16

import (
	"encoding/hex"
	"fmt"
	"math/rand/v2"
	"sort"
	"strings"

	"github.com/gnolang/gno/gno.land/pkg/sdk/vm"
	"github.com/gnolang/gno/tm2/pkg/amino"
	"github.com/gnolang/gno/tm2/pkg/crypto"
	"github.com/gnolang/gno/tm2/pkg/sdk/bank"
	"github.com/gnolang/gno/tm2/pkg/std"

	"verifharness/checks/c15/txkit"
	"verifharness/internal/audit"
	"verifharness/internal/chainsim"
	"verifharness/internal/vf"
)

const (
	VaultPath  = "gno.land/r/verif/vault"
	VaultXPath = "gno.land/r/verif/vaultx"    // has VaultPath as a plain string prefix
	VaultSub   = "gno.land/r/verif/vault/sub" // a sub-path of VaultPath
	TokDenom   = "/gno.land/r/verif/peer:tok"
)

func vaultSrc(name string) string {
	return `package ` + name + `

import (
	"chain"
	"chain/banker"
	"strings"
)

var (
	Data  []string
	Calls int
)

// Noop changes nothing (coins attached to the call stay with the realm).
func Noop(cur realm) int { return 1 }

// Touch changes one counter.
func Touch(cur realm) int { Calls++; return Calls }

func Grow(cur realm, n int) int {
	for i := 0; i < n; i++ {
		Data = append(Data, strings.Repeat("y", 64))
	}
	return len(Data)
}

func Shrink(cur realm, n int) int {
	if n > len(Data) {
		n = len(Data)
	}
	for i := len(Data) - n; i < len(Data); i++ {
		Data[i] = ""
	}
	Data = Data[:len(Data)-n]
	if len(Data) == 0 {
		Data = nil
	}
	return len(Data)
}

func Fail(cur realm) {
	Data = append(Data, "doomed")
	panic("` + name + `: deliberate failure")
}

// PayBack sends the realm's own coins.
func PayBack(cur realm, to string, amt int64) int64 {
	b := banker.NewBanker(banker.BankerTypeRealmSend, cur)
	b.SendCoins(cur.Address(), address(to), chain.Coins{chain.NewCoin("ugnot", amt)})
	return amt
}
`
}

// acct is a master account (harness-driven, always signs correctly).
type acct struct {
	name string
	key  *txkit.Key
}

// sess is the harness's own record of one session grant and its ledger.
type sess struct {
	name    string
	key     *txkit.Key
	master  *acct
	limit   map[string]int64
	period  int64
	reset   int64
	expires int64
	allow   []string
	alive   bool
	used    map[string]int64 // observed outflow of the master in this session's txs, current window
	known   map[string]int64 // gross outflow the model knows exactly (fees + declared coins), current window
	fuzzy   bool             // a tx with storage deposits succeeded in this window: known is only a lower bound
	windows int
}

func (s *sess) describe() map[string]any {
	return map[string]any{"session": s.name, "master": s.master.name, "limit": s.limit, "period": s.period, "window_start": s.reset, "expires_at": s.expires, "allow_paths": s.allow, "alive": s.alive, "observed_outflow_in_window": s.used}
}

// mspec is one message plus what the model knows about it.
type mspec struct {
	msg      func(from crypto.Address) std.Msg
	route    string
	typ      string
	path     string
	declared map[string]int64 // coins the message moves out of its signer by declaration (Send / Amount / in-script banker send)
	inexact  bool             // storage deposits or refunds make the exact outflow unknown to the model
	fails    bool             // designed to fail during execution
	text     string
}

func coinsOf(m map[string]int64) std.Coins {
	var ds []string
	for d, v := range m {
		if v > 0 {
			ds = append(ds, d)
		}
	}
	sort.Strings(ds)
	var out std.Coins
	for _, d := range ds {
		out = append(out, std.Coin{Denom: d, Amount: m[d]})
	}
	return out
}

func mSend(to crypto.Address, amt map[string]int64) mspec {
	return mspec{route: "bank", typ: "send", declared: amt, text: fmt.Sprintf("send %v", amt),
		msg: func(from crypto.Address) std.Msg { return bank.MsgSend{FromAddress: from, ToAddress: to, Amount: coinsOf(amt)} }}
}

func mCall(pkg, fn string, send int64, args ...string) mspec {
	m := mspec{route: "vm", typ: "exec", path: pkg, declared: map[string]int64{"ugnot": send}, text: fmt.Sprintf("call %s.%s(%s) send=%d", pkg, fn, strings.Join(args, ","), send),
		msg: func(from crypto.Address) std.Msg { return vm.NewMsgCall(from, txkit.Ugnot(send), pkg, fn, args) }}
	switch fn {
	case "Noop", "PayBack":
	case "Fail":
		m.fails = true
	default:
		m.inexact = true
	}
	return m
}

// mRunPay is a script that sends amt ugnot from the caller's own address with a realm-send banker.
func mRunPay(to crypto.Address, amt int64, send int64) mspec {
	body := fmt.Sprintf("package main\n\nimport (\n\t\"chain\"\n\t\"chain/banker\"\n)\n\nfunc main(cur realm) {\n\tb := banker.NewBanker(banker.BankerTypeRealmSend, cur)\n\tb.SendCoins(cur.Address(), address(%q), chain.Coins{chain.NewCoin(\"ugnot\", %d)})\n}\n", to.String(), amt)
	return mspec{route: "vm", typ: "run", declared: map[string]int64{"ugnot": amt + send}, text: fmt.Sprintf("run banker-send %d send=%d", amt, send),
		msg: func(from crypto.Address) std.Msg {
			return vm.NewMsgRun(from, txkit.Ugnot(send), []*std.MemFile{{Name: "main.gno", Body: body}})
		}}
}

func mAddPkg(path string) mspec {
	name := path[strings.LastIndex(path, "/")+1:]
	return mspec{route: "vm", typ: "add_package", path: path, declared: map[string]int64{}, inexact: true, text: "addpkg " + path,
		msg: func(from crypto.Address) std.Msg {
			return vm.NewMsgAddPackage(from, path, chainsim.Files(path, map[string]string{name + ".gno": "package " + name + "\n\nvar X = 1\n\nfunc Get(cur realm) int { return X }\n"}))
		}}
}

func mAuth(kind string, k *txkit.Key) mspec {
	return mspec{route: "auth", typ: kind, declared: map[string]int64{}, text: "auth " + kind,
		msg: func(from crypto.Address) std.Msg {
			switch kind {
			case "create_session":
				return txkit.CreateSession(from, k, 0, []string{"*"}, txkit.Ugnot(1_000_000_000), 0)
			case "revoke_session":
				return txkit.RevokeSession(from, k)
			default:
				return txkit.RevokeAll(from)
			}
		}}
}

// permitted is the harness's own reading of the allow-path rules (gno.land ADR-001).
func permitted(allow []string, route, typ, path string) (bool, string) {
	if route == "auth" {
		return false, "always-denied:auth"
	}
	if route == "vm" && typ == "add_package" {
		return false, "always-denied:add_package"
	}
	for _, e := range allow {
		if e == "*" {
			return true, ""
		}
		rt, p, has := strings.Cut(e, ":")
		if rt != route+"/"+typ {
			continue
		}
		if !has || path == p || strings.HasPrefix(path, p+"/") {
			return true, ""
		}
	}
	return false, "not-in-allow-paths:" + route + "/" + typ
}

type part struct {
	by  *sess // session signer, or
	own *acct // master signing with its own key
	m   mspec
}

func (p part) addr() crypto.Address {
	if p.by != nil {
		return p.by.master.key.Addr
	}
	return p.own.key.Addr
}

type sim struct {
	nkeys int
	c     *vf.Ctx
	id    string
	e     *txkit.Env
	rng   *rand.Rand
	log   []string
	dead  bool
	nsamp int
}

func (sm *sim) logf(f string, a ...any) {
	sm.log = append(sm.log, fmt.Sprintf("t=%d h=%d ", sm.e.Now.Unix(), sm.e.Ch.Height)+fmt.Sprintf(f, a...))
}

func (sm *sim) tail() []string {
	if len(sm.log) > 60 {
		return sm.log[len(sm.log)-60:]
	}
	return sm.log
}

// signWith builds the signature of one signer using committed account number and sequence.
func (sm *sim) sigFor(body txkit.Body, p part) std.Signature {
	v := sm.e.View
	if p.by != nil {
		da := txkit.Session(v, p.by.master.key.Addr, p.by.key.Addr)
		var num, seq uint64
		if da != nil {
			num, seq = da.GetAccountNumber(), da.GetSequence()
		}
		return std.Signature{PubKey: p.by.key.Pub, Signature: p.by.key.SignRaw(txkit.SignBytes(body, chainsim.ChainID, num, seq)), SessionAddr: p.by.key.Addr}
	}
	_, num, seq, _ := txkit.Account(v, p.own.key.Addr)
	return std.Signature{PubKey: p.own.key.Pub, Signature: p.own.key.SignRaw(txkit.SignBytes(body, chainsim.ChainID, num, seq))}
}

func (sm *sim) buildTx(gas int64, fee std.Coin, parts []part) []byte {
	body := txkit.Body{Fee: std.Fee{GasWanted: gas, GasFee: fee}}
	var signers []part
	for _, p := range parts {
		body.Msgs = append(body.Msgs, p.m.msg(p.addr()))
		dup := false
		for _, q := range signers {
			if q.addr() == p.addr() {
				dup = true
			}
		}
		if !dup {
			signers = append(signers, p)
		}
	}
	tx := std.Tx{Msgs: body.Msgs, Fee: body.Fee}
	for _, p := range signers {
		tx.Signatures = append(tx.Signatures, sm.sigFor(body, p))
	}
	return amino.MustMarshal(tx)
}

// masterTx delivers a master-signed transaction that the harness needs to succeed.
func (sm *sim) masterTx(adv int64, what string, a *acct, gas int64, msgs ...std.Msg) *txkit.Obs {
	body := txkit.Body{Msgs: msgs, Fee: txkit.Fee(gas, gas/1000+1)}
	_, num, seq, _ := txkit.Account(sm.e.View, a.key.Addr)
	tx := std.Tx{Msgs: msgs, Fee: body.Fee, Signatures: []std.Signature{{PubKey: a.key.Pub, Signature: a.key.SignRaw(txkit.SignBytes(body, chainsim.ChainID, num, seq))}}}
	o := sm.e.Block(adv, amino.MustMarshal(tx))
	sm.logf("master %s: %s ok=%v %s", a.name, what, o.Res[0].OK, txkit.Clip(o.Res[0].ErrString, 120))
	if !o.Res[0].OK {
		panic(fmt.Sprintf("harness setup tx failed (%s by %s): %s", what, a.name, o.Res[0].ErrString))
	}
	return o
}

func (sm *sim) create(adv int64, m *acct, name string, k *txkit.Key, limit map[string]int64, period, expiresIn int64, allow []string) *sess {
	exp := int64(0)
	now := sm.e.Now.Unix() + adv
	if expiresIn > 0 {
		exp = now + expiresIn
	}
	sm.masterTx(adv, fmt.Sprintf("create-session %s limit=%v period=%d expires=%d allow=%v", name, limit, period, exp, allow), m, 5_000_000, txkit.CreateSession(m.key.Addr, k, exp, allow, coinsOf(limit), period))
	sm.c.Count("sessions_created", 1)
	return &sess{name: name, key: k, master: m, limit: limit, period: period, reset: now, expires: exp, allow: allow, alive: true, used: map[string]int64{}, known: map[string]int64{}}
}

func (sm *sim) revoke(adv int64, s *sess) {
	sm.masterTx(adv, "revoke-session "+s.name, s.master, 5_000_000, txkit.RevokeSession(s.master.key.Addr, s.key))
	s.alive = false
	sm.c.Count("sessions_revoked", 1)
}

func (sm *sim) revokeAll(adv int64, m *acct, all []*sess) {
	sm.masterTx(adv, "revoke-all-sessions", m, 5_000_000, txkit.RevokeAll(m.key.Addr))
	for _, s := range all {
		if s.master == m {
			s.alive = false
		}
	}
	sm.c.Count("revoke_all", 1)
}

type outcome struct {
	obs      *txkit.Obs
	rejected bool // ante abort
	ok       bool
	err      string
}

// tx delivers one transaction in its own block and evaluates it against every
// session that signs it. The first part's signer pays the fee.
func (sm *sim) tx(adv int64, label string, gas int64, fee std.Coin, parts ...part) *outcome {
	if sm.dead {
		return &outcome{rejected: true}
	}
	now := sm.e.Now.Unix() + adv
	before := sm.e.View
	raw := sm.buildTx(gas, fee, parts)

	// ---- verdict from the model alone
	var sessions []*sess
	for _, p := range parts {
		if p.by != nil {
			dup := false
			for _, s := range sessions {
				if s == p.by {
					dup = true
				}
			}
			if !dup {
				sessions = append(sessions, p.by)
			}
		}
	}
	mustReject := ""
	if fee.Amount == 0 {
		mustReject = "zero-fee" // a zero coin has no wire form: the fee decodes as invalid
	}
	for _, s := range sessions {
		if !s.alive {
			mustReject = "revoked-session"
		} else if s.expires > 0 && now >= s.expires {
			mustReject = "expired-session"
		}
	}
	if mustReject == "" {
		for _, p := range parts {
			if p.by == nil {
				continue
			}
			if ok, why := permitted(p.by.allow, p.m.route, p.m.typ, p.m.path); !ok {
				mustReject = why
				break
			}
		}
	}
	payer := parts[0]
	// exact budget reasoning where the model knows every outflow
	exact := true
	designedFail := false
	for _, p := range parts {
		if p.m.inexact {
			exact = false
		}
		if p.m.fails {
			designedFail = true
		}
	}
	need := map[*sess]map[string]int64{}
	for _, s := range sessions {
		need[s] = map[string]int64{}
	}
	if payer.by != nil && fee.Amount > 0 {
		need[payer.by][fee.Denom] += fee.Amount
	}
	feeOnly := map[*sess]map[string]int64{}
	for s, m := range need {
		feeOnly[s] = map[string]int64{}
		for d, v := range m {
			feeOnly[s][d] = v
		}
	}
	for _, p := range parts {
		if p.by != nil {
			for d, v := range p.m.declared {
				need[p.by][d] = satAdd(need[p.by][d], v)
			}
		}
	}
	// certainlyOver: even the lower bounds exceed the limit; certainlyFits: the exact gross outflow of the window is known and fits
	certainlyOver := func(s *sess, n map[string]int64) bool {
		used, known, fuzzy := s.used, s.known, s.fuzzy
		if s.period > 0 && now >= s.reset+s.period {
			used, known, fuzzy = map[string]int64{}, map[string]int64{}, false
		}
		_ = fuzzy
		for d, v := range n {
			if v > 0 && (satAdd(used[d], v) > s.limit[d] || satAdd(known[d], v) > s.limit[d]) {
				return true
			}
		}
		return false
	}
	certainlyFits := func(s *sess, n map[string]int64) bool {
		known, fuzzy := s.known, s.fuzzy
		if s.period > 0 && now >= s.reset+s.period {
			known, fuzzy = map[string]int64{}, false
		}
		if fuzzy {
			return false
		}
		for d, v := range n {
			if v > 0 && satAdd(known[d], v) > s.limit[d] {
				return false
			}
		}
		return true
	}
	verdict := "unknown"
	switch {
	case mustReject != "":
		verdict = "reject:" + mustReject
	case exact:
		over, feeOver, fitsAll := false, false, true
		for _, s := range sessions {
			if certainlyOver(s, need[s]) {
				over = true
			}
			if certainlyOver(s, feeOnly[s]) {
				feeOver = true
			}
			if !certainlyFits(s, need[s]) {
				fitsAll = false
			}
		}
		switch {
		case feeOver:
			verdict = "reject:fee-over-limit"
		case over:
			verdict = "no-success:over-limit"
		case !fitsAll:
			verdict = "unknown"
		case designedFail:
			verdict = "fail:designed"
		default:
			verdict = "ok"
		}
	}

	// ---- run
	o := sm.e.Block(adv, raw)
	res := o.Res[0]
	passed := chainsim.AntePassed(res)
	out := &outcome{obs: o, rejected: !passed, ok: res.OK, err: res.ErrString}
	desc := []string{}
	for _, p := range parts {
		who := "own:" + p.addrName()
		if p.by != nil {
			who = "sess:" + p.by.name
		}
		desc = append(desc, who+" "+p.m.text)
	}
	sm.logf("tx[%s] fee=%s gas=%d {%s} model=%s chain: ante=%v ok=%v %s", label, fee, gas, strings.Join(desc, "; "), verdict, passed, res.OK, txkit.Clip(res.ErrString, 140))
	w := func(s *sess) map[string]any {
		m := map[string]any{"chain": sm.id, "height": o.Height, "block_time": o.Time, "label": label, "tx": desc, "fee": fee.String(), "gas_wanted": gas, "tx_hex": hex.EncodeToString(raw),
			"model_verdict": verdict, "ante_passed": passed, "ok": res.OK, "error": txkit.Clip(res.ErrString, 300), "block_diff": o.DiffClasses(), "history": sm.tail()}
		if s != nil {
			m["session"] = s.describe()
		}
		return m
	}
	nontrivial := len(sessions) > 0
	sm.c.Case(fmt.Sprintf("%s/%d/%s", sm.id, o.Height, label), nontrivial)
	sm.c.Count("session_txs", 1)
	sm.c.Count("verdict:"+strings.SplitN(verdict, ":", 2)[0], 1)
	if sm.nsamp < 2 && len(sessions) > 0 && passed {
		sm.nsamp++
		sm.c.Sample(map[string]any{"chain": sm.id, "label": label, "tx": desc, "session": sessions[0].describe(), "ok": res.OK})
	}

	// ---- rejections leave nothing behind
	if !passed {
		sm.c.Count("ante_rejections", 1)
		if !o.Empty() {
			sm.c.Violation("rejected-session-tx-changed-state:"+classOf(label), w(nil), "chain %s height %d: session tx %q was rejected by the ante handler (%s) but committed state changed: %s", sm.id, o.Height, label, txkit.Clip(res.ErrString, 160), o.DiffClasses())
			sm.dead = true
			return out
		}
	}
	if mustReject != "" {
		sm.c.Count("must_reject:"+strings.SplitN(mustReject, ":", 2)[0], 1)
		if passed {
			key := mustReject
			if strings.HasPrefix(mustReject, "not-in-allow-paths") || strings.HasPrefix(mustReject, "always-denied") {
				key = "disallowed-message-accepted:" + mustReject
			} else {
				key += "-accepted"
			}
			sm.c.Violation(key+":"+classOf(label), w(sessions[0]), "chain %s height %d: session tx %q must be rejected (%s) but passed the ante handler (ok=%v, diff %s)", sm.id, o.Height, label, mustReject, res.OK, o.DiffClasses())
			sm.dead = true
			return out
		}
		return out
	}

	// ---- ledger: what left each master, measured on committed balances
	for _, s := range sessions {
		delta := map[string]int64{}
		a := s.master.key.Addr
		denoms := map[string]bool{}
		for _, cn := range txkit.Coins(before, a) {
			denoms[cn.Denom] = true
		}
		for _, cn := range txkit.Coins(o.View, a) {
			denoms[cn.Denom] = true
		}
		any := false
		for d := range denoms {
			if x := txkit.Amount(before, a, d) - txkit.Amount(o.View, a, d); x != 0 {
				delta[d] = x
				if x > 0 {
					any = true
				}
			}
		}
		charged := any || (passed && s == payer.by && fee.Amount > 0)
		if res.OK {
			for _, v := range need[s] {
				if v > 0 {
					charged = true
				}
			}
		}
		if charged && s.period > 0 && now >= s.reset+s.period {
			s.used = map[string]int64{}
			s.known = map[string]int64{}
			s.fuzzy = false
			s.reset = now
			s.windows++
			sm.c.Count("period_resets_in_model", 1)
		}
		for d, x := range delta {
			if x > 0 {
				s.used[d] += x
				sm.c.Count("outflow_observed_"+short(d), int(min64(x, 1<<40)))
			}
		}
		if any {
			sm.c.Count("session_txs_with_outflow", 1)
		}
		if passed {
			for d, v := range feeOnly[s] {
				s.known[d] += v
			}
			if res.OK {
				for d, v := range need[s] {
					s.known[d] += v - feeOnly[s][d]
				}
				if !exact {
					s.fuzzy = true
				}
			}
		}
		for d, u := range s.used {
			if u > s.limit[d] {
				sm.c.Violation("spend-limit-exceeded:"+classOf(label), w(s), "chain %s height %d: session %s of %s: master's observed outflow of %s in the spend window starting %d is %d > limit %d after tx %q (this tx moved %d)",
					sm.id, o.Height, s.name, s.master.name, d, s.reset, u, s.limit[d], label, delta[d])
				sm.dead = true
				return out
			}
		}
		sm.c.Count("ledger_checks", 1)
	}

	// ---- exact verdicts
	switch verdict {
	case "ok":
		if !res.OK {
			sm.c.Violation("in-budget-tx-refused:"+classOf(label), w(sessions0(sessions)), "chain %s height %d: session tx %q fits the remaining budget of a live, permitted session by the model but did not succeed: %s", sm.id, o.Height, label, txkit.Clip(res.ErrString, 300))
			sm.dead = true
		}
	case "reject:fee-over-limit", "no-success:over-limit":
		sm.c.Count("over_limit_attempts", 1)
		if res.OK {
			sm.c.Violation("over-limit-tx-succeeded:"+classOf(label), w(sessions0(sessions)), "chain %s height %d: session tx %q needs more than the remaining budget but succeeded", sm.id, o.Height, label)
			sm.dead = true
		}
		if !passed {
			sm.c.Count("over_limit_rejected_without_fee", 1)
		}
	case "fail:designed":
		if passed && !res.OK {
			sm.c.Count("failed_session_txs_fee_charged", 1)
		}
	}
	return out
}

func sessions0(s []*sess) *sess {
	if len(s) == 0 {
		return nil
	}
	return s[0]
}

func (p part) addrName() string {
	if p.by != nil {
		return p.by.master.name
	}
	return p.own.name
}

func classOf(label string) string {
	if i := strings.IndexAny(label, "#:"); i >= 0 {
		return label[:i]
	}
	return label
}

func short(d string) string {
	if d == "ugnot" {
		return d
	}
	return "tok"
}

// satAdd adds non-negative amounts, saturating at the largest int64.
func satAdd(a, b int64) int64 {
	const max = int64(^uint64(0) >> 1)
	if b > max-a {
		return max
	}
	return a + b
}

func min64(a, b int64) int64 {
	if a < b {
		return a
	}
	return b
}

// balance helpers
func bal(v *audit.View, a *acct, d string) int64 { return txkit.Amount(v, a.key.Addr, d) }
