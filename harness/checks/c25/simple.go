package c25

import (
	"bytes"
	"crypto/sha256"
	"fmt"
	"math/bits"
	"math/rand/v2"

	ics23 "github.com/cosmos/ics23/go"

	"github.com/gnolang/gno/tm2/pkg/crypto/merkle"
	"github.com/gnolang/gno/tm2/pkg/crypto/tmhash"
	"github.com/gnolang/gno/tm2/pkg/std"

	"verifharness/internal/vf"
)

// Independent reference for the simple Merkle tree (RFC 6962 shape as
// documented in tm2/pkg/crypto/merkle/doc.go): leaf = SHA256(0x00||item),
// inner = SHA256(0x01||l||r), split point = largest power of two < n.

func refLeaf(item []byte) []byte {
	h := sha256.Sum256(append([]byte{0}, item...))
	return h[:]
}

func refInner(l, r []byte) []byte {
	h := sha256.Sum256(append(append([]byte{1}, l...), r...))
	return h[:]
}

func refSplit(n int) int {
	k := 1 << (bits.Len(uint(n)) - 1)
	if k == n {
		k >>= 1
	}
	return k
}

func refRoot(items [][]byte) []byte {
	switch len(items) {
	case 0:
		return nil
	case 1:
		return refLeaf(items[0])
	}
	k := refSplit(len(items))
	return refInner(refRoot(items[:k]), refRoot(items[k:]))
}

// refPath returns, leaf to root, whether the proven node is the LEFT child at
// each level, for (index,total); nil,false when index is out of range.
func refPath(index, total int) ([]bool, bool) {
	if total <= 0 || index < 0 || index >= total {
		return nil, false
	}
	var rec func(i, n int) []bool
	rec = func(i, n int) []bool {
		if n == 1 {
			return nil
		}
		k := refSplit(n)
		if i < k {
			return append(rec(i, k), true)
		}
		return append(rec(i-k, n-k), false)
	}
	return rec(index, total), true
}

// refCompute folds a leaf hash with aunts along the path; nil when the aunt
// count does not fit the path.
func refCompute(index, total int, leafHash []byte, aunts [][]byte) []byte {
	path, ok := refPath(index, total)
	if !ok || len(path) != len(aunts) {
		return nil
	}
	h := leafHash
	for i, left := range path {
		if left {
			h = refInner(h, aunts[i])
		} else {
			h = refInner(aunts[i], h)
		}
	}
	return h
}

// refVerify is what SimpleProof.Verify documents: leaf hash matches and the
// folded hash equals the root.
func refVerify(root []byte, leaf []byte, index, total int, leafHash []byte, aunts [][]byte) bool {
	if total < 0 || index < 0 {
		return false
	}
	if !bytes.Equal(leafHash, refLeaf(leaf)) {
		return false
	}
	got := refCompute(index, total, leafHash, aunts)
	return got != nil && bytes.Equal(got, root)
}

func samePath(i1, n1, i2, n2 int) bool {
	p1, ok1 := refPath(i1, n1)
	p2, ok2 := refPath(i2, n2)
	if !ok1 || !ok2 || len(p1) != len(p2) {
		return false
	}
	for i := range p1 {
		if p1[i] != p2[i] {
			return false
		}
	}
	return true
}

func cloneSimple(p *merkle.SimpleProof) *merkle.SimpleProof {
	q := &merkle.SimpleProof{Total: p.Total, Index: p.Index, LeafHash: append([]byte{}, p.LeafHash...)}
	for _, a := range p.Aunts {
		q.Aunts = append(q.Aunts, append([]byte{}, a...))
	}
	return q
}

type simpleCtx struct {
	c  *vf.Ctx
	st *stats
}

func (s *simpleCtx) verify(p *merkle.SimpleProof, root, leaf []byte) (ok bool, panicked bool) {
	var err error
	if pv := vf.Try(func() { err = p.Verify(root, leaf) }); pv != nil {
		s.st.add(func() { s.st.verifyPanics++ })
		return false, true
	}
	s.st.add(func() { s.st.simpleVerifications++ })
	return err == nil, false
}

// expectReject: the mutated (proof, root, leaf) must not verify; also compared
// with the reference verifier.
func (s *simpleCtx) expectReject(what string, n, i int, p *merkle.SimpleProof, root, leaf []byte) bool {
	if refVerify(root, leaf, p.Index, p.Total, p.LeafHash, p.Aunts) {
		// the mutant is a genuinely valid proof (duplicate items make symmetric
		// subtrees: the same item really is at the other index) - not a mutation
		// of the statement; only the differential below applies
		got, _ := s.verify(p, root, leaf)
		s.st.add(func() { s.st.validMutants++ })
		if !got {
			s.c.Violation("simpleproof:differs-from-reference", map[string]any{"total": n, "index": i, "mutation": what, "proof_total": p.Total, "proof_index": p.Index},
				"mutation %q of the proof for item %d of %d is valid per the reference verifier but Verify rejects it", what, i, n)
			return false
		}
		return true
	}
	got, _ := s.verify(p, root, leaf)
	s.st.add(func() { s.st.simpleMutants++; s.st.byMutation["simple/"+what]++ })
	if got {
		s.c.Violation("simpleproof:mutation-accepted:"+what, map[string]any{"total": n, "index": i, "mutation": what, "proof_total": p.Total, "proof_index": p.Index,
			"leaf": vf.Hex(leaf), "root": vf.Hex(root), "leaf_hash": vf.Hex(p.LeafHash), "aunts": fmt.Sprintf("%x", p.Aunts)},
			"SimpleProof for item %d of %d still verifies after mutation %q", i, n, what)
		return false
	}
	return true
}

// simpleList checks every index of one list.
func (s *simpleCtx) simpleList(items [][]byte, rng *rand.Rand) bool {
	n := len(items)
	root, proofs := merkle.SimpleProofsFromByteSlices(items)
	want := refRoot(items)
	if !bytes.Equal(root, want) || !bytes.Equal(merkle.SimpleHashFromByteSlices(items), want) || !bytes.Equal(merkle.SimpleHashFromByteSlicesIterative(items), want) {
		s.c.Violation("simpleproof:root-differs-from-reference", map[string]any{"total": n, "items": fmt.Sprintf("%x", items)},
			"list of %d items: root %x / %x / %x, reference (RFC 6962) %x", n, root, merkle.SimpleHashFromByteSlices(items), merkle.SimpleHashFromByteSlicesIterative(items), want)
		return false
	}
	if len(proofs) != n {
		s.c.Violation("simpleproof:proof-count", map[string]any{"total": n}, "%d proofs for %d items", len(proofs), n)
		return false
	}
	otherRoot := refRoot(append(append([][]byte{}, items...), []byte("extra")))
	for i, p := range proofs {
		leaf := items[i]
		s.c.Case(fmt.Sprintf("simple/%d/%d", n, i), n > 1)
		if p.Total != n || p.Index != i || !bytes.Equal(p.LeafHash, refLeaf(leaf)) {
			s.c.Violation("simpleproof:wrong-fields", map[string]any{"total": n, "index": i}, "proof %d of %d has Total=%d Index=%d LeafHash=%x", i, n, p.Total, p.Index, p.LeafHash)
			return false
		}
		if ok, _ := s.verify(p, root, leaf); !ok {
			s.c.Violation("simpleproof:valid-proof-rejected", map[string]any{"total": n, "index": i, "leaf": vf.Hex(leaf), "root": vf.Hex(root)}, "valid proof for item %d of %d rejected: %v", i, n, p.Verify(root, leaf))
			return false
		}
		if err := p.ValidateBasic(); err != nil {
			s.c.Violation("simpleproof:valid-proof-rejected:ValidateBasic", map[string]any{"total": n, "index": i}, "ValidateBasic: %v", err)
			return false
		}
		if !bytes.Equal(p.ComputeRootHash(), root) {
			s.c.Violation("simpleproof:valid-proof-rejected:ComputeRootHash", map[string]any{"total": n, "index": i}, "ComputeRootHash %x != root %x", p.ComputeRootHash(), root)
			return false
		}
		if wp, _ := refPath(i, n); len(wp) != len(p.Aunts) {
			s.c.Violation("simpleproof:wrong-fields", map[string]any{"total": n, "index": i}, "%d aunts, the path has %d levels", len(p.Aunts), len(wp))
			return false
		}
		s.st.add(func() { s.st.simpleProofs++ })
		ok := true
		// leaf
		for _, alt := range [][]byte{flipBitOrGrow(leaf, rng), append(append([]byte{}, leaf...), 0), nil, items[(i+1)%n]} {
			if bytes.Equal(alt, leaf) {
				continue
			}
			ok = ok && s.expectReject("leaf", n, i, p, root, alt)
		}
		// leaf hash
		q := cloneSimple(p)
		q.LeafHash = flipBit(q.LeafHash, rng.IntN(256))
		ok = ok && s.expectReject("leafhash-bitflip", n, i, q, root, leaf)
		q = cloneSimple(p)
		q.LeafHash = q.LeafHash[:31]
		ok = ok && s.expectReject("leafhash-truncate", n, i, q, root, leaf)
		// root
		ok = ok && s.expectReject("root-bitflip", n, i, p, flipBit(root, rng.IntN(256)), leaf)
		ok = ok && s.expectReject("root-other-list", n, i, p, otherRoot, leaf)
		ok = ok && s.expectReject("root-nil", n, i, p, nil, leaf)
		// aunts
		for a := range p.Aunts {
			q = cloneSimple(p)
			q.Aunts[a] = flipBit(q.Aunts[a], rng.IntN(256))
			ok = ok && s.expectReject("aunt-bitflip", n, i, q, root, leaf)
			q = cloneSimple(p)
			q.Aunts = append(q.Aunts[:a:a], q.Aunts[a+1:]...)
			ok = ok && s.expectReject("aunt-drop", n, i, q, root, leaf)
			if a+1 < len(p.Aunts) && !bytes.Equal(p.Aunts[a], p.Aunts[a+1]) {
				q = cloneSimple(p)
				q.Aunts[a], q.Aunts[a+1] = q.Aunts[a+1], q.Aunts[a]
				ok = ok && s.expectReject("aunt-swap", n, i, q, root, leaf)
			}
		}
		q = cloneSimple(p)
		q.Aunts = append(q.Aunts, refLeaf([]byte("x")))
		ok = ok && s.expectReject("aunt-add", n, i, q, root, leaf)
		q = cloneSimple(p)
		q.Aunts = append([][]byte{refLeaf([]byte("x"))}, q.Aunts...)
		ok = ok && s.expectReject("aunt-add-front", n, i, q, root, leaf)
		// a trail of the wrong length (no root can be computed) presented with an empty root
		for _, emptyRoot := range [][]byte{nil, {}} {
			q = cloneSimple(p)
			q.Aunts = append(q.Aunts, refLeaf([]byte("x")))
			ok = ok && s.expectReject("aunt-add+root-empty", n, i, q, emptyRoot, leaf)
			if len(p.Aunts) > 0 {
				q = cloneSimple(p)
				q.Aunts = q.Aunts[1:]
				ok = ok && s.expectReject("aunt-drop+root-empty", n, i, q, emptyRoot, leaf)
			}
			q = cloneSimple(p)
			q.Index = n + 1
			ok = ok && s.expectReject("index-out-of-range+root-empty", n, i, q, emptyRoot, leaf)
		}
		// index: every other index, and out-of-range ones
		for j := -2; j <= n+2; j++ {
			if j == i {
				continue
			}
			q = cloneSimple(p)
			q.Index = j
			ok = ok && s.expectReject("index", n, i, q, root, leaf)
		}
		// total: must be rejected whenever the (index,total') path differs from
		// the real one. With an identical path the proof makes the same positional
		// claim and SimpleProof.Verify documents "Check sp.Index/sp.Total manually
		// if needed": accepted, counted, not asserted.
		for tot := -1; tot <= 2*n+3; tot++ {
			if tot == n {
				continue
			}
			q = cloneSimple(p)
			q.Total = tot
			if samePath(i, n, i, tot) {
				got, _ := s.verify(q, root, leaf)
				s.st.add(func() {
					if got {
						s.st.totalSamePathAccepted++
					} else {
						s.st.totalSamePathRejected++
					}
				})
				if got {
					// strict reading of the property ("altering the proof makes verification
					// fail"): own key, does not abort the list (coverage must stay complete)
					s.c.Violation("simpleproof:mutation-accepted:total-same-path", map[string]any{"total": n, "index": i, "proof_total": tot, "proof_index": i,
						"leaf": vf.Hex(leaf), "root": vf.Hex(root), "leaf_hash": vf.Hex(p.LeafHash), "aunts": fmt.Sprintf("%x", p.Aunts)},
						"SimpleProof for item %d of %d still verifies with Total changed to %d (the (index,total) path is unchanged; Verify documents that Index/Total are for the caller to check)", i, n, tot)
				}
				continue
			}
			ok = ok && s.expectReject("total", n, i, q, root, leaf)
		}
		// differential: random multi-field mutants against the reference verifier
		for k := 0; k < 6; k++ {
			q = cloneSimple(p)
			switch rng.IntN(4) {
			case 0:
				q.Index = rng.IntN(n + 2)
			case 1:
				q.Total = 1 + rng.IntN(n+4)
			case 2:
				if len(q.Aunts) > 0 {
					q.Aunts = q.Aunts[:rng.IntN(len(q.Aunts))]
				}
			case 3:
				q.Index, q.Total = rng.IntN(n+1), 1+rng.IntN(n+4)
			}
			got, panicked := s.verify(q, root, leaf)
			wantOK := refVerify(root, leaf, q.Index, q.Total, q.LeafHash, q.Aunts)
			s.st.add(func() { s.st.simpleDifferential++ })
			if !panicked && got != wantOK {
				s.c.Violation("simpleproof:differs-from-reference", map[string]any{"total": n, "index": i, "proof_total": q.Total, "proof_index": q.Index, "aunts": len(q.Aunts)},
					"Verify=%v, reference verifier=%v for (index=%d,total=%d,%d aunts) derived from item %d of %d", got, wantOK, q.Index, q.Total, len(q.Aunts), i, n)
				ok = false
			}
		}
		if !ok {
			return false
		}
	}
	return true
}

func flipBitOrGrow(b []byte, rng *rand.Rand) []byte {
	if len(b) == 0 {
		return []byte{0}
	}
	return flipBit(b, rng.IntN(len(b)*8))
}

// simpleMap checks SimpleProofsFromMap / SimpleHashFromMap / SimpleValueOp /
// the ics23 conversion used by the multistore.
func (s *simpleCtx) simpleMap(m map[string][]byte, rng *rand.Rand) bool {
	root, proofs, keys := merkle.SimpleProofsFromMap(m)
	// reference: items = len-prefixed key || len-prefixed SHA256(value), sorted by key
	type kv struct{ k, item []byte }
	var ref []kv
	for k, v := range m {
		vh := sha256.Sum256(v)
		var b bytes.Buffer
		b.Write(uvarint(len(k)))
		b.WriteString(k)
		b.Write(uvarint(32))
		b.Write(vh[:])
		ref = append(ref, kv{[]byte(k), b.Bytes()})
	}
	for i := 1; i < len(ref); i++ {
		for j := i; j > 0 && bytes.Compare(ref[j].k, ref[j-1].k) < 0; j-- {
			ref[j], ref[j-1] = ref[j-1], ref[j]
		}
	}
	items := make([][]byte, len(ref))
	for i := range ref {
		items[i] = ref[i].item
	}
	want := refRoot(items)
	if !bytes.Equal(root, want) || !bytes.Equal(merkle.SimpleHashFromMap(m), want) {
		s.c.Violation("simplemap:root-differs-from-reference", map[string]any{"keys": fmt.Sprint(keys)}, "map of %d keys: SimpleProofsFromMap root %x, SimpleHashFromMap %x, reference %x", len(m), root, merkle.SimpleHashFromMap(m), want)
		return false
	}
	if len(keys) != len(m) {
		s.c.Violation("simplemap:keys", map[string]any{}, "%d keys returned for a map of %d", len(keys), len(m))
		return false
	}
	prt := merkle.DefaultProofRuntime()
	ok := true
	for i, k := range keys {
		if i > 0 && keys[i-1] >= k {
			s.c.Violation("simplemap:keys-unsorted", map[string]any{"keys": fmt.Sprint(keys)}, "keys not sorted")
			return false
		}
		v := m[k]
		p := proofs[k]
		s.c.Case(fmt.Sprintf("simplemap/%x/%d/%d", want[:6], len(m), i), len(m) > 1)
		leaf := merkle.KVPair(std.KVPair{Key: []byte(k), Value: tmhash.Sum(v)}).Bytes()
		if okv, _ := s.verify(p, root, leaf); !okv || p.Index != i || p.Total != len(m) {
			s.c.Violation("simplemap:valid-proof-rejected", map[string]any{"key": k, "index": i, "total": len(m)}, "map proof for key %q (index %d of %d) rejected or mis-indexed (Index=%d Total=%d)", k, i, len(m), p.Index, p.Total)
			return false
		}
		s.st.add(func() { s.st.mapProofs++ })
		// SimpleValueOp through the proof runtime
		op := merkle.NewSimpleValueOp([]byte(k), p)
		proof := &merkle.Proof{Ops: []merkle.ProofOp{op.ProofOp()}}
		kp := merkle.KeyPath{}.AppendKey([]byte(k), merkle.KeyEncodingHex).String()
		if err := prt.VerifyValue(proof, root, kp, v); err != nil {
			s.c.Violation("simplemap:valid-proof-rejected:SimpleValueOp", map[string]any{"key": k}, "ProofRuntime.VerifyValue for key %q: %v", k, err)
			return false
		}
		rej := func(what string, err error) {
			s.st.add(func() { s.st.simpleMutants++; s.st.byMutation["simplemap/"+what]++ })
			if err == nil {
				s.c.Violation("simplemap:mutation-accepted:"+what, map[string]any{"key": k, "mutation": what, "total": len(m)}, "map proof for key %q still verifies after %s", k, what)
				ok = false
			}
		}
		rej("value", prt.VerifyValue(proof, root, kp, flipBitOrGrow(v, rng)))
		rej("value-extended", prt.VerifyValue(proof, root, kp, append(append([]byte{}, v...), 0)))
		rej("root", prt.VerifyValue(proof, flipBit(root, rng.IntN(256)), kp, v))
		rej("keypath-other-key", prt.VerifyValue(proof, root, merkle.KeyPath{}.AppendKey(append([]byte(k), 'x'), merkle.KeyEncodingHex).String(), v))
		rej("keypath-extra-part", prt.VerifyValue(proof, root, kp+kp, v))
		op2 := merkle.NewSimpleValueOp(append([]byte(k), 0x01), p)
		rej("op-key", prt.VerifyValue(&merkle.Proof{Ops: []merkle.ProofOp{op2.ProofOp()}}, root, merkle.KeyPath{}.AppendKey(append([]byte(k), 0x01), merkle.KeyEncodingHex).String(), v))
		rej("absence-of-present-key", prt.VerifyAbsence(proof, root, kp))
		if len(keys) > 1 {
			other := keys[(i+1)%len(keys)]
			rej("other-keys-proof", prt.VerifyValue(&merkle.Proof{Ops: []merkle.ProofOp{merkle.NewSimpleValueOp([]byte(k), proofs[other]).ProofOp()}}, root, kp, v))
		}
		// serialized op data: single-bit flips, decoded-level equivalence filtered
		data := proof.Ops[0].Data
		for t := 0; t < 24; t++ {
			bit := rng.IntN(len(data) * 8)
			mp := &merkle.Proof{Ops: []merkle.ProofOp{{Type: proof.Ops[0].Type, Key: proof.Ops[0].Key, Data: flipBit(data, bit)}}}
			dec, derr := merkle.SimpleValueOpDecoder(mp.Ops[0])
			if derr != nil {
				s.st.add(func() { s.st.bitflipUndecodable++ })
				continue
			}
			dp := dec.(merkle.SimpleValueOp).Proof
			if dp != nil && dp.Total == p.Total && dp.Index == p.Index && bytes.Equal(dp.LeafHash, p.LeafHash) && auntsEqual(dp.Aunts, p.Aunts) {
				s.st.add(func() { s.st.equivalentMutants++ })
				continue
			}
			if dp != nil && dp.Index == p.Index && samePath(p.Index, p.Total, dp.Index, dp.Total) && bytes.Equal(dp.LeafHash, p.LeafHash) && auntsEqual(dp.Aunts, p.Aunts) {
				var verr error
				if pv := vf.Try(func() { verr = prt.VerifyValue(mp, root, kp, v) }); pv == nil && verr == nil {
					s.st.add(func() { s.st.totalSamePathAccepted++ })
					s.c.Violation("simpleproof:mutation-accepted:total-same-path", map[string]any{"key": k, "total": p.Total, "index": p.Index, "proof_total": dp.Total, "serialized_bit": bit},
						"map proof for key %q (index %d of %d) still verifies through SimpleValueOp with Total changed to %d by a single-bit flip (path unchanged)", k, p.Index, p.Total, dp.Total)
				} else {
					s.st.add(func() { s.st.totalSamePathRejected++ })
				}
				continue
			}
			s.st.add(func() { s.st.bitflipDecoded++ })
			var verr error
			if pv := vf.Try(func() { verr = prt.VerifyValue(mp, root, kp, v) }); pv != nil {
				s.st.add(func() { s.st.verifyPanics++ })
				continue
			}
			rej("serialized-bitflip", verr)
		}
		// the ics23 conversion the multistore uses (TendermintSpec)
		ep, err := merkle.ConvertExistenceProof(p, []byte(k), v)
		if err != nil {
			s.c.Violation("simplemap:convert-error", map[string]any{"key": k}, "ConvertExistenceProof: %v", err)
			return false
		}
		cp := existProof(ep)
		if !ics23.VerifyMembership(ics23.TendermintSpec, root, cp, []byte(k), v) {
			s.c.Violation("simplemap:valid-proof-rejected:ics23", map[string]any{"key": k, "total": len(m), "index": i}, "converted ics23 proof for key %q (index %d of %d) does not verify under TendermintSpec", k, i, len(m))
			return false
		}
		s.st.add(func() { s.st.convertedProofs++ })
		orig := semantic(cp)
		for _, mu := range mutateExist(ep, rng, false) {
			mp := existProof(mu.ep)
			if bytes.Equal(semantic(mp), orig) {
				s.st.add(func() { s.st.equivalentMutants++ })
				continue
			}
			var got bool
			if pv := vf.Try(func() { got = ics23.VerifyMembership(ics23.TendermintSpec, root, mp, []byte(k), v) }); pv != nil {
				s.st.add(func() { s.st.verifyPanics++ })
				continue
			}
			s.st.add(func() { s.st.mutantsRejected++; s.st.byMutation["converted/"+mutClass(mu.name)]++ })
			if got {
				s.c.Violation("simplemap:mutation-accepted:ics23:"+mutClass(mu.name), map[string]any{"key": k, "mutation": mu.name, "proof": vf.Hex(marshal(mp))}, "converted ics23 proof for key %q still verifies after %s", k, mu.name)
				ok = false
			}
		}
		if !ok {
			return false
		}
	}
	return true
}

func auntsEqual(a, b [][]byte) bool {
	if len(a) != len(b) {
		return false
	}
	for i := range a {
		if !bytes.Equal(a[i], b[i]) {
			return false
		}
	}
	return true
}

func uvarint(n int) []byte {
	var out []byte
	u := uint64(n)
	for u >= 0x80 {
		out = append(out, byte(u)|0x80)
		u >>= 7
	}
	return append(out, byte(u))
}
