package c25

import (
	"bytes"
	"fmt"
	"math/rand/v2"

	ics23 "github.com/cosmos/ics23/go"

	abci "github.com/gnolang/gno/tm2/pkg/bft/abci/types"
	"github.com/gnolang/gno/tm2/pkg/crypto/merkle"
	"github.com/gnolang/gno/tm2/pkg/db/memdb"
	storebptree "github.com/gnolang/gno/tm2/pkg/store/bptree"
	"github.com/gnolang/gno/tm2/pkg/store/rootmulti"
	"github.com/gnolang/gno/tm2/pkg/store/types"

	"verifharness/checks/c23/bpgen"
	"verifharness/internal/vf"
)

// storeLevel builds a real rootmulti store with bptree sub-stores, commits a
// few versions and verifies /key queries with Prove=true through the proof
// runtime: [bptree CommitmentOp, simple-merkle CommitmentOp] against the
// multistore commit hash.
func storeLevel(c *vf.Ctx, id int, rng *rand.Rand, st *stats) bool {
	ok := true
	fail := func(key string, w map[string]any, format string, args ...any) {
		ok = false
		d := fmt.Sprintf(format, args...)
		w["store_case"] = id
		w["detail"] = d
		c.Violation(key, w, "multistore case %d: %s", id, d)
	}
	db := memdb.NewMemDB()
	ms := rootmulti.NewMultiStore(db)
	ms.SetStoreOptions(types.StoreOptions{PruningOptions: types.PruneNothing})
	names := []string{"main", "acc", "z"}[:2+rng.IntN(2)]
	keys := map[string]types.StoreKey{}
	for i, n := range names {
		k := types.NewStoreKey(n)
		keys[n] = k
		cons := storebptree.StoreConstructor
		if (i+id)%2 == 0 {
			cons = storebptree.FastStoreConstructor
		}
		ms.MountStoreWithDB(k, cons, nil)
	}
	if err := ms.LoadLatestVersion(); err != nil {
		panic(err)
	}
	models := map[string]*bpgen.Model{}
	for _, n := range names {
		models[n] = &bpgen.Model{}
	}
	type committed struct {
		cid   types.CommitID
		snaps map[string]bpgen.Snapshot
	}
	var commits []committed
	nver := 2 + rng.IntN(3)
	for v := 0; v < nver; v++ {
		for _, n := range names {
			g := bpgen.NewKeyGen(bpgen.KeyMode(rng.IntN(int(bpgen.NumModes))), rng)
			store := ms.GetStore(keys[n])
			nops := 5 + rng.IntN(120)
			for i := 0; i < nops; i++ {
				m := models[n]
				if m.Len() > 0 && rng.IntN(4) == 0 {
					k := m.At(rng.IntN(m.Len())).K
					store.Delete(nil, append([]byte{}, k...))
					m.Remove(k)
					continue
				}
				k := g.Next(m)
				val := []byte(fmt.Sprintf("%s-%d-%d-%d", n, id, v, i))
				store.Set(nil, append([]byte{}, k...), append([]byte{}, val...))
				m.Set(k, val)
			}
		}
		cid := ms.Commit()
		cm := committed{cid: cid, snaps: map[string]bpgen.Snapshot{}}
		for _, n := range names {
			cm.snaps[n] = models[n].Snapshot()
		}
		commits = append(commits, cm)
	}
	prt := rootmulti.DefaultProofRuntime()
	kpath := func(store string, key []byte) string {
		return merkle.KeyPath{}.AppendKey([]byte(store), merkle.KeyEncodingURL).AppendKey(key, merkle.KeyEncodingHex).String()
	}
	rej := func(what string, w map[string]any, err error) {
		st.add(func() { st.storeRejections++; st.byMutation["store/"+what]++ })
		if err == nil {
			w["mutation"] = what
			fail("store:mutation-accepted:"+what, w, "the query proof still verifies after %s", what)
		}
	}
	for _, cm := range commits {
		for _, n := range names {
			snap := cm.snaps[n]
			if len(snap) == 0 {
				continue
			}
			for q := 0; q < 10 && ok; q++ {
				kv := snap[rng.IntN(len(snap))]
				present := q%2 == 0
				key, val := kv.K, kv.V
				if !present {
					key = bpgen.Probes(kv.K)[1+rng.IntN(len(bpgen.Probes(kv.K))-1)]
					if _, found := snap.Search(key); found || len(key) == 0 {
						continue
					}
					val = nil
				}
				res := ms.Query(abci.RequestQuery{Path: "/" + n + "/key", Data: append([]byte{}, key...), Height: cm.cid.Version, Prove: true})
				w := func() map[string]any {
					return map[string]any{"store": n, "key": vf.Hex(key), "height": cm.cid.Version, "present": present, "commit_hash": vf.Hex(cm.cid.Hash)}
				}
				if res.Error != nil || res.Proof == nil || len(res.Proof.Ops) != 2 {
					fail("store:query-failed", w(), "Query(/%s/key %x @%d prove) error=%v proof=%v log=%q", n, key, cm.cid.Version, res.Error, res.Proof, res.Log)
					break
				}
				if !bytes.Equal(res.Value, val) || (present && res.Value == nil) {
					fail("store:query-wrong-value", w(), "Query value %x, model %x", res.Value, val)
					break
				}
				st.add(func() { st.storeQueries++ })
				kp := kpath(n, key)
				if present {
					if err := prt.VerifyValue(res.Proof, cm.cid.Hash, kp, val); err != nil {
						fail("store:valid-proof-rejected", w(), "VerifyValue of a present key: %v", err)
						break
					}
					rej("absence-of-present-key", w(), prt.VerifyAbsence(res.Proof, cm.cid.Hash, kp))
					rej("value", w(), prt.VerifyValue(res.Proof, cm.cid.Hash, kp, flipBitOrGrow(val, rng)))
					rej("value-empty", w(), prt.VerifyValue(res.Proof, cm.cid.Hash, kp, []byte{}))
				} else {
					if err := prt.VerifyAbsence(res.Proof, cm.cid.Hash, kp); err != nil {
						fail("store:valid-proof-rejected:absence", w(), "VerifyAbsence of an absent key: %v", err)
						break
					}
					rej("value-for-absent-key", w(), prt.VerifyValue(res.Proof, cm.cid.Hash, kp, []byte("x")))
					// the absence proof must not verify for a present key
					rej("absence-proof-for-present-key", w(), prt.VerifyAbsence(res.Proof, cm.cid.Hash, kpath(n, kv.K)))
					// the same with the (unauthenticated) key field of the proof op rewritten to that present key
					{
						mp := &merkle.Proof{Ops: append([]merkle.ProofOp{}, res.Proof.Ops...)}
						o := mp.Ops[0]
						o.Key = append([]byte{}, kv.K...)
						mp.Ops[0] = o
						var err error
						if pv := vf.Try(func() { err = prt.VerifyAbsence(mp, cm.cid.Hash, kpath(n, kv.K)) }); pv != nil {
							err = fmt.Errorf("panic: %v", pv)
						}
						rej("absence-proof-relabelled-to-present-key", w(), err)
					}
				}
				verify := func(p *merkle.Proof, root []byte, path string) (err error) {
					if pv := vf.Try(func() {
						if present {
							err = prt.VerifyValue(p, root, path, val)
						} else {
							err = prt.VerifyAbsence(p, root, path)
						}
					}); pv != nil {
						st.add(func() { st.verifyPanics++ })
						return fmt.Errorf("panic: %v", pv)
					}
					return err
				}
				rej("root-bitflip", w(), verify(res.Proof, flipBit(cm.cid.Hash, rng.IntN(256)), kp))
				if len(commits) > 1 {
					other := commits[(int(cm.cid.Version))%len(commits)].cid.Hash
					if !bytes.Equal(other, cm.cid.Hash) {
						rej("root-of-other-version", w(), verify(res.Proof, other, kp))
					}
				}
				rej("keypath-other-key", w(), verify(res.Proof, cm.cid.Hash, kpath(n, append(append([]byte{}, key...), 0x07))))
				for _, on := range names {
					if on != n {
						rej("keypath-other-store", w(), verify(res.Proof, cm.cid.Hash, kpath(on, key)))
					}
				}
				rej("keypath-store-only", w(), verify(res.Proof, cm.cid.Hash, "/"+n))
				rej("ops-swapped", w(), verify(&merkle.Proof{Ops: []merkle.ProofOp{res.Proof.Ops[1], res.Proof.Ops[0]}}, cm.cid.Hash, kp))
				rej("ops-first-only", w(), verify(&merkle.Proof{Ops: res.Proof.Ops[:1]}, cm.cid.Hash, kp))
				rej("ops-second-only", w(), verify(&merkle.Proof{Ops: res.Proof.Ops[1:]}, cm.cid.Hash, kp))
				// op key / op data mutations
				for oi := range res.Proof.Ops {
					mp := &merkle.Proof{Ops: append([]merkle.ProofOp{}, res.Proof.Ops...)}
					o := mp.Ops[oi]
					o.Key = append(append([]byte{}, o.Key...), 0x01)
					mp.Ops[oi] = o
					rej(fmt.Sprintf("op%d-key", oi), w(), verify(mp, cm.cid.Hash, kp))
					data := res.Proof.Ops[oi].Data
					origP := &ics23.CommitmentProof{}
					if err := origP.Unmarshal(data); err != nil {
						fail("store:proof-op-undecodable", w(), "op %d data does not decode: %v", oi, err)
						break
					}
					orig := semantic(origP)
					for t := 0; t < 16; t++ {
						bit := rng.IntN(len(data) * 8)
						md := flipBit(data, bit)
						qp := &ics23.CommitmentProof{}
						var uerr error
						if pv := vf.Try(func() { uerr = qp.Unmarshal(md) }); pv != nil || uerr != nil {
							st.add(func() { st.bitflipUndecodable++ })
							continue
						}
						if bytes.Equal(semantic(qp), orig) {
							st.add(func() { st.equivalentMutants++ })
							continue
						}
						st.add(func() { st.bitflipDecoded++ })
						mp := &merkle.Proof{Ops: append([]merkle.ProofOp{}, res.Proof.Ops...)}
						o := mp.Ops[oi]
						o.Data = md
						mp.Ops[oi] = o
						rej(fmt.Sprintf("op%d-serialized-bitflip", oi), w(), verify(mp, cm.cid.Hash, kp))
					}
				}
			}
		}
	}
	return ok
}
