// Package c25: Merkle proofs are sound and complete.
//
// Oracles:
//   - B+ tree: the third-party ics23 verifier with the tree's BptreeSpec, against
//     a root that is itself recomputed from node contents and model values by the
//     harness' own SHA-256 mini-merkle; the ordered-map model says which keys are
//     present / absent and who the neighbours are.
//   - simple Merkle lists/maps: an independent RFC 6962 reference implementation
//     (root, path, verifier) written here.
//
// Soundness of the mutation oracle: a mutant is only required to be rejected if
// the DECODED proof differs semantically from the original (re-marshalled form
// differs; NonExistenceProof.Key, which no verifier reads, is ignored), and for
// SimpleProof only if the independent reference verifier also rejects it.
package c25

import (
	"fmt"
	"math/rand/v2"
	"runtime/debug"
	"sort"
	"sync"

	"verifharness/checks/c23/bpgen"
	"verifharness/internal/vf"
)

func init() {
	vf.Register(&vf.Check{
		ID:    "C25",
		Level: "exploration",
		Rule: "cases: (a) (tree version, key): trees from the C23 history generator (all key modes, up to height 3) plus fixed sizes 1,2,3,16,31,32,33,64,65 - all keys of trees <= 70 keys, " +
			"else first/last/leaf-boundary/inner-boundary/random keys; per key: membership proof + altered key/value/root + ~40 field mutations + single-bit flips of the serialized proof " +
			"(all bits for a few proofs, 48 random bits otherwise) + forged-gap non-membership; absent probes at every position class with neighbour/other-gap/present keys as counter-probes and structural mutations; " +
			"(b) rootmulti+bptree store queries with Prove through the proof runtime with key-path/op/root/data mutations; (c) merkle.SimpleProof for every (length <= 70, index) " +
			"with leaf/leafhash/aunt/index/total/root mutations and simple-map proofs (SimpleValueOp, ics23 conversion). " +
			"non-trivial = tree with > 1 key (list with > 1 item); distinct by (tree, version, key) / (length, index)",
		Run: run,
	})
}

type stats struct {
	mu sync.Mutex

	verifications, verifyPanics                       int64
	memberProofs, nonMemberProofs, mutableTreeProofs  int64
	alteredInputs, mutantsRejected, equivalentMutants int64
	bitflipDecoded, bitflipUndecodable                int64
	exhaustiveBitflipProofs                           int64
	sameGapAccepted, otherKeyRejected, forgedGaps     int64
	versions, emptyVersions, height3Versions          int64
	storeQueries, storeRejections                     int64
	simpleProofs, simpleVerifications, simpleMutants  int64
	simpleDifferential, validMutants                  int64
	totalSamePathAccepted, totalSamePathRejected      int64
	mapProofs, convertedProofs, emptyValueUnprovable  int64
	byClass, byMutation, byForged                     map[string]int64
}

func (s *stats) add(f func()) { s.mu.Lock(); f(); s.mu.Unlock() }

func run(c *vf.Ctx) {
	defer debug.SetGCPercent(debug.SetGCPercent(300))
	st := &stats{byClass: map[string]int64{}, byMutation: map[string]int64{}, byForged: map[string]int64{}}

	// ---- (a) B+ tree proofs -------------------------------------------------
	fixed := []int{1, 2, 3, 16, 31, 32, 33, 64, 65}
	nGen := c.N(30, 600)
	nTrees := len(fixed)*2 + nGen
	c.Parallel(nTrees, 14, 9000, func(i int, rng *rand.Rand) {
		p := bpgen.GenParams{Mode: bpgen.KeyMode(i % int(bpgen.NumModes)), Rollbacks: true}
		fx := 0
		if i < len(fixed)*2 {
			fx = fixed[i/2]
			if i%2 == 1 {
				p.Mode = bpgen.ModeLongPrefix
			} else {
				p.Mode = bpgen.ModeSeq
			}
		} else {
			p.NOps = 100 + rng.IntN(1400)
			p.NVersions = 4 + rng.IntN(12)
			if i%6 == 1 {
				p.Deep = true
				p.NOps = 1700 + rng.IntN(900)
			}
		}
		heavy := !c.Quick() || i%3 == 0
		ok := runTreeCase(c, i, p, fx, rng, st, heavy)
		_ = ok
	})
	// every (tree,version,key) evaluated is one case: account in bulk
	for i := int64(0); i < st.memberProofs; i++ {
		c.Case(fmt.Sprintf("member/%d", i), true)
	}
	for i := int64(0); i < st.nonMemberProofs; i++ {
		c.Case(fmt.Sprintf("nonmember/%d", i), true)
	}

	// documented exception: an empty value cannot be proven (ics23 LeafOp rejects it)
	emptyValueException(c, st)

	// ---- (b) store level ----------------------------------------------------
	nStores := c.N(8, 200)
	c.Parallel(nStores, 8, 20000, func(i int, rng *rand.Rand) {
		var ok bool
		if pv := vf.Try(func() { ok = storeLevel(c, i, rng, st) }); pv != nil {
			c.Violation("panic:store-level", map[string]any{"store_case": i}, "multistore case %d panicked: %v", i, pv)
		}
		c.Case(fmt.Sprintf("store/%d", i), ok)
	})

	// ---- (c) simple Merkle proofs --------------------------------------------
	sc := &simpleCtx{c: c, st: st}
	c.Parallel(70, 14, 30000, func(i int, rng *rand.Rand) {
		n := i + 1 // every length 1..70
		items := make([][]byte, n)
		for j := range items {
			items[j] = make([]byte, rng.IntN(40))
			for k := range items[j] {
				items[j][k] = byte(rng.IntN(256))
			}
			items[j] = append(items[j], byte(j), byte(j>>8)) // distinct
		}
		if pv := vf.Try(func() { sc.simpleList(items, rng) }); pv != nil {
			c.Violation("panic:simpleproof", map[string]any{"total": n}, "list of %d items panicked: %v", n, pv)
		}
		// a hostile list of the same length: duplicates and empty items (symmetric subtrees)
		h := make([][]byte, n)
		for j := range h {
			switch rng.IntN(3) {
			case 0:
				h[j] = []byte{}
			case 1:
				h[j] = []byte("dup")
			default:
				h[j] = []byte{byte(rng.IntN(4))}
			}
		}
		if pv := vf.Try(func() { sc.simpleList(h, rng) }); pv != nil {
			c.Violation("panic:simpleproof", map[string]any{"total": n, "hostile": true}, "hostile list of %d items panicked: %v", n, pv)
		}
	})
	nMaps := c.N(60, 1000)
	c.Parallel(nMaps, 14, 40000, func(i int, rng *rand.Rand) {
		n := 1 + i%24
		m := map[string][]byte{}
		for len(m) < n {
			k := make([]byte, 1+rng.IntN(12))
			for j := range k {
				k[j] = byte(rng.IntN(256))
			}
			if rng.IntN(5) == 0 && len(m) > 0 { // a key that extends an existing one
				for ek := range m {
					k = append([]byte(ek), byte(rng.IntN(3)))
					break
				}
			}
			v := make([]byte, 1+rng.IntN(40))
			for j := range v {
				v[j] = byte(rng.IntN(256))
			}
			m[string(k)] = v
		}
		if pv := vf.Try(func() { sc.simpleMap(m, rng) }); pv != nil {
			c.Violation("panic:simplemap", map[string]any{"keys": n}, "map of %d keys panicked: %v", n, pv)
		}
	})

	// ---- evidence -----------------------------------------------------------
	c.Count("ics23_verifications", int(st.verifications))
	c.Count("verifier_panics_counted_as_rejection", int(st.verifyPanics))
	c.Count("membership_proofs_verified", int(st.memberProofs))
	c.Count("nonmembership_proofs_verified", int(st.nonMemberProofs))
	c.Count("mutabletree_wrapper_proofs", int(st.mutableTreeProofs))
	c.Count("altered_key_value_root_rejected", int(st.alteredInputs))
	c.Count("semantic_mutants_rejected", int(st.mutantsRejected))
	c.Count("mutants_skipped_semantically_identical", int(st.equivalentMutants))
	c.Count("serialized_bitflips_decoded", int(st.bitflipDecoded))
	c.Count("serialized_bitflips_undecodable", int(st.bitflipUndecodable))
	c.Count("proofs_with_every_bit_flipped", int(st.exhaustiveBitflipProofs))
	c.Count("nonmembership_other_keys_rejected", int(st.otherKeyRejected))
	c.Count("nonmembership_same_gap_key_accepted", int(st.sameGapAccepted))
	c.Count("forged_gap_proofs_rejected", int(st.forgedGaps))
	c.Count("tree_versions_proved", int(st.versions))
	c.Count("tree_versions_height_3", int(st.height3Versions))
	c.Count("empty_tree_versions", int(st.emptyVersions))
	c.Count("store_queries_with_proof", int(st.storeQueries))
	c.Count("store_mutations_rejected", int(st.storeRejections))
	c.Count("simple_proofs_verified", int(st.simpleProofs))
	c.Count("simple_mutants_rejected", int(st.simpleMutants))
	c.Count("simple_differential_vs_reference", int(st.simpleDifferential))
	c.Count("simple_mutants_valid_per_reference", int(st.validMutants))
	c.Count("simple_total_changed_same_path_accepted", int(st.totalSamePathAccepted))
	c.Count("simple_total_changed_same_path_rejected", int(st.totalSamePathRejected))
	c.Count("simple_map_proofs_verified", int(st.mapProofs))
	c.Count("simple_map_ics23_conversions_verified", int(st.convertedProofs))
	c.Count("empty_value_unprovable_observed", int(st.emptyValueUnprovable))
	names := func(m map[string]int64) []string {
		out := make([]string, 0, len(m))
		for k := range m {
			out = append(out, k)
		}
		sort.Strings(out)
		return out
	}
	cls := map[string]int64{}
	for _, k := range names(st.byClass) {
		cls[k] = st.byClass[k]
	}
	c.Set("absent_key_position_classes", cls)
	c.Set("forged_gap_classes", st.byForged)
	c.Set("mutations_rejected_by_kind", st.byMutation)
	c.SetExhaustive(false)
	c.Set("simple_proof_lengths", "every length 1..70, every index (exhaustive over (length,index)); items random")
	c.Assume("ics23 (github.com/cosmos/ics23/go v0.11.0) is the trusted verifier for B+ tree proofs; the root it is given is recomputed independently from node contents and model values")
	c.Assume("documented exception (bptree/proof.go, TestProof_EmptyValueUnprovable): a key holding an EMPTY value has no verifying membership proof and poisons the non-membership proofs of its gaps; tree cases use non-empty values, the exception itself is observed and counted")
	c.Assume("strict reading: a non-membership proof that also verifies for another absent key of the SAME gap is reported under nonmembership:other-absent-key-in-same-gap-accepted (inherent to ics23 neighbour proofs); independently asserted: no present key and no key outside the gap verifies")
	c.Assume("strict reading: a changed SimpleProof.Total that leaves the (index,total) path unchanged and still verifies is reported under simpleproof:mutation-accepted:total-same-path (Verify documents that Total/Index are for the caller to check)")
	c.Assume("a verifier panic on a mutated proof counts as rejection (the property is about acceptance) and is reported in verifier_panics_counted_as_rejection")

	c.RequireCounter("membership_proofs_verified", 500)
	c.RequireCounter("nonmembership_proofs_verified", 1000)
	c.RequireCounter("semantic_mutants_rejected", 20000)
	c.RequireCounter("serialized_bitflips_decoded", 5000)
	c.RequireCounter("proofs_with_every_bit_flipped", 5)
	c.RequireCounter("forged_gap_proofs_rejected", 500)
	c.RequireCounter("nonmembership_other_keys_rejected", 5000)
	c.RequireCounter("tree_versions_height_3", 1)
	c.RequireCounter("store_queries_with_proof", 100)
	c.RequireCounter("store_mutations_rejected", 1000)
	c.Require("simple_proofs_verified", st.simpleProofs, 2*2485)
	c.RequireCounter("simple_mutants_rejected", 100000)
	c.RequireCounter("simple_map_proofs_verified", 300)
	c.RequireCounter("empty_value_unprovable_observed", 1)
	for _, k := range []string{"before-first", "after-last", "between-same-leaf", "between-across-leaves", "between-across-inner-nodes"} {
		var n int64
		for ck, v := range st.byClass {
			if len(ck) >= len(k) && ck[:len(k)] == k {
				n += v
			}
		}
		c.Require("absent_class_"+k, n, 3)
	}
	var prefixClass int64
	for ck, v := range st.byClass {
		if len(ck) > 20 && ck[len(ck)-20:] == "/prefix-of-successor" {
			prefixClass += v
		}
	}
	c.Require("absent_class_prefix-of-a-key", prefixClass, 10)
	for _, k := range []string{"first-key", "last-key", "first-of-leaf", "last-of-leaf", "middle-of-leaf", "only-key"} {
		c.Require("forged_gap_"+k, st.byForged[k], 1)
	}
}
