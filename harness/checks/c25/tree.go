package c25

import (
	"bytes"
	"fmt"
	"math/rand/v2"

	ics23 "github.com/cosmos/ics23/go"

	"github.com/gnolang/gno/tm2/pkg/bptree"
	"github.com/gnolang/gno/tm2/pkg/db/memdb"

	"verifharness/checks/c23/bpgen"
	"verifharness/internal/vf"
)

// ---------------------------------------------------------------------------
// proof cloning / canonical forms / mutation

func marshal(p *ics23.CommitmentProof) []byte {
	bz, err := p.Marshal()
	if err != nil {
		panic(err)
	}
	return bz
}

func cloneProof(p *ics23.CommitmentProof) *ics23.CommitmentProof {
	q := &ics23.CommitmentProof{}
	if err := q.Unmarshal(marshal(p)); err != nil {
		panic(err)
	}
	return q
}

func cloneExist(e *ics23.ExistenceProof) *ics23.ExistenceProof {
	if e == nil {
		return nil
	}
	bz, err := e.Marshal()
	if err != nil {
		panic(err)
	}
	q := &ics23.ExistenceProof{}
	if err := q.Unmarshal(bz); err != nil {
		panic(err)
	}
	return q
}

// semantic returns the canonical bytes of what the verifier consumes: the
// re-marshalled proof (unknown fields and non-canonical encodings vanish on
// decode) with NonExistenceProof.Key cleared — the ics23 verifier takes the key
// as an argument and never reads that field, so a change confined to it leaves
// the decoded proof semantically identical.
func semantic(p *ics23.CommitmentProof) []byte {
	q := cloneProof(p)
	if ne := q.GetNonexist(); ne != nil {
		ne.Key = nil
	}
	return marshal(q)
}

type mutant struct {
	name  string
	proof *ics23.CommitmentProof
}

func flipBit(b []byte, bit int) []byte {
	c := append([]byte{}, b...)
	c[bit/8] ^= 1 << (bit % 8)
	return c
}

// mutateExist applies field-level mutations to one ExistenceProof.
func mutateExist(ep *ics23.ExistenceProof, rng *rand.Rand, all bool) []struct {
	name string
	ep   *ics23.ExistenceProof
} {
	type m = struct {
		name string
		ep   *ics23.ExistenceProof
	}
	var out []m
	add := func(name string, f func(e *ics23.ExistenceProof)) {
		e := cloneExist(ep)
		f(e)
		out = append(out, m{name, e})
	}
	add("key-bitflip", func(e *ics23.ExistenceProof) { e.Key = flipBit(e.Key, rng.IntN(len(e.Key)*8)) })
	add("key-extend", func(e *ics23.ExistenceProof) { e.Key = append(e.Key, 0x00) })
	if len(ep.Key) > 1 {
		add("key-truncate", func(e *ics23.ExistenceProof) { e.Key = e.Key[:len(e.Key)-1] })
	}
	add("value-bitflip", func(e *ics23.ExistenceProof) { e.Value = flipBit(e.Value, rng.IntN(len(e.Value)*8)) })
	add("value-extend", func(e *ics23.ExistenceProof) { e.Value = append(e.Value, 0x00) })
	add("leaf-prefix-change", func(e *ics23.ExistenceProof) { e.Leaf.Prefix = []byte{0x01} })
	add("leaf-prefix-extend", func(e *ics23.ExistenceProof) { e.Leaf.Prefix = append(e.Leaf.Prefix, 0x00) })
	add("leaf-prefix-empty", func(e *ics23.ExistenceProof) { e.Leaf.Prefix = nil })
	add("leaf-hashop", func(e *ics23.ExistenceProof) { e.Leaf.Hash = ics23.HashOp_SHA512_256 })
	add("leaf-prehash-key", func(e *ics23.ExistenceProof) { e.Leaf.PrehashKey = ics23.HashOp_SHA256 })
	add("leaf-prehash-value", func(e *ics23.ExistenceProof) { e.Leaf.PrehashValue = ics23.HashOp_NO_HASH })
	add("leaf-lengthop", func(e *ics23.ExistenceProof) { e.Leaf.Length = ics23.LengthOp_NO_PREFIX })
	add("leaf-nil", func(e *ics23.ExistenceProof) { e.Leaf = nil })
	n := len(ep.Path)
	add("path-empty", func(e *ics23.ExistenceProof) { e.Path = nil })
	if n > 0 {
		add("path-drop-first", func(e *ics23.ExistenceProof) { e.Path = e.Path[1:] })
		add("path-drop-last", func(e *ics23.ExistenceProof) { e.Path = e.Path[:n-1] })
		add("path-dup-last", func(e *ics23.ExistenceProof) { e.Path = append(e.Path, e.Path[n-1]) })
		add("path-dup-first", func(e *ics23.ExistenceProof) { e.Path = append([]*ics23.InnerOp{e.Path[0]}, e.Path...) })
		idxs := []int{0, n - 1, rng.IntN(n), rng.IntN(n)}
		if all {
			idxs = idxs[:0]
			for i := 0; i < n; i++ {
				idxs = append(idxs, i)
			}
		}
		for _, i := range idxs {
			i := i
			add(fmt.Sprintf("inner-prefix-bitflip@%d", i), func(e *ics23.ExistenceProof) {
				e.Path[i].Prefix = flipBit(e.Path[i].Prefix, rng.IntN(len(e.Path[i].Prefix)*8))
			})
			if len(ep.Path[i].Suffix) > 0 {
				add(fmt.Sprintf("inner-suffix-bitflip@%d", i), func(e *ics23.ExistenceProof) {
					e.Path[i].Suffix = flipBit(e.Path[i].Suffix, rng.IntN(len(e.Path[i].Suffix)*8))
				})
				add(fmt.Sprintf("inner-side-swap@%d", i), func(e *ics23.ExistenceProof) {
					// claim the proven node is the right child instead of the left
					e.Path[i].Prefix = append(append([]byte{}, e.Path[i].Prefix...), e.Path[i].Suffix...)
					e.Path[i].Suffix = nil
				})
				add(fmt.Sprintf("inner-suffix-drop@%d", i), func(e *ics23.ExistenceProof) { e.Path[i].Suffix = nil })
			} else if len(ep.Path[i].Prefix) == 33 {
				add(fmt.Sprintf("inner-side-swap@%d", i), func(e *ics23.ExistenceProof) {
					e.Path[i].Suffix = append([]byte{}, e.Path[i].Prefix[1:]...)
					e.Path[i].Prefix = e.Path[i].Prefix[:1]
				})
				add(fmt.Sprintf("inner-prefix-truncate@%d", i), func(e *ics23.ExistenceProof) { e.Path[i].Prefix = e.Path[i].Prefix[:1] })
			}
			add(fmt.Sprintf("inner-hashop@%d", i), func(e *ics23.ExistenceProof) { e.Path[i].Hash = ics23.HashOp_SHA512_256 })
			if i+1 < n {
				add(fmt.Sprintf("path-swap-adjacent@%d", i), func(e *ics23.ExistenceProof) { e.Path[i], e.Path[i+1] = e.Path[i+1], e.Path[i] })
				add(fmt.Sprintf("path-drop@%d", i), func(e *ics23.ExistenceProof) { e.Path = append(e.Path[:i:i], e.Path[i+1:]...) })
			}
		}
	}
	return out
}

func existProof(e *ics23.ExistenceProof) *ics23.CommitmentProof {
	return &ics23.CommitmentProof{Proof: &ics23.CommitmentProof_Exist{Exist: e}}
}

func nonexistProof(key []byte, l, r *ics23.ExistenceProof) *ics23.CommitmentProof {
	return &ics23.CommitmentProof{Proof: &ics23.CommitmentProof_Nonexist{Nonexist: &ics23.NonExistenceProof{Key: key, Left: l, Right: r}}}
}

// ---------------------------------------------------------------------------

type treeCase struct {
	c    *vf.Ctx
	id   int
	desc string
	rng  *rand.Rand
	st   *stats
	bad  bool

	tree *bptree.MutableTree
	ver  int64
	imm  *bptree.ImmutableTree
	root []byte
	snap bpgen.Snapshot
	// leaf ordinal of every rank, and the level-1 inner ordinal of every leaf
	leafOf  []int
	innerOf []int
}

func (t *treeCase) violation(key string, w map[string]any, format string, args ...any) {
	t.bad = true
	d := fmt.Sprintf(format, args...)
	w["tree_case"] = t.id
	w["tree"] = t.desc
	w["version"] = t.ver
	w["root"] = fmt.Sprintf("%x", t.root)
	w["detail"] = d
	w["replay"] = "deterministic: re-run C25 at this seed and tier"
	t.c.Violation(key, w, "tree %d (%s) version %d: %s", t.id, t.desc, t.ver, d)
}

// safe verification wrappers: a panic in the verifier is a rejection (the
// property is about acceptance), but it is counted and reported.
func (t *treeCase) verifyMember(root []byte, p *ics23.CommitmentProof, key, value []byte) (ok bool) {
	if pv := vf.Try(func() { ok = ics23.VerifyMembership(bptree.BptreeSpec, root, p, key, value) }); pv != nil {
		t.st.add(func() { t.st.verifyPanics++ })
		return false
	}
	t.st.add(func() { t.st.verifications++ })
	return ok
}

func (t *treeCase) verifyNonMember(root []byte, p *ics23.CommitmentProof, key []byte) (ok bool) {
	if pv := vf.Try(func() { ok = ics23.VerifyNonMembership(bptree.BptreeSpec, root, p, key) }); pv != nil {
		t.st.add(func() { t.st.verifyPanics++ })
		return false
	}
	t.st.add(func() { t.st.verifications++ })
	return ok
}

// mustRejectMember asserts that a mutated existence-type proof proves nothing:
// neither the original claim nor the claim it now carries itself.
func (t *treeCase) mustRejectMember(name string, orig []byte, p *ics23.CommitmentProof, key, value []byte) {
	if bytes.Equal(semantic(p), orig) {
		t.st.add(func() { t.st.equivalentMutants++ })
		return
	}
	t.st.add(func() { t.st.mutantsRejected++; t.st.byMutation[mutClass(name)]++ })
	if t.verifyMember(t.root, p, key, value) {
		t.violation("membership:mutated-proof-accepted:"+mutClass(name), map[string]any{"key": vf.Hex(key), "value": vf.Hex(value), "mutation": name, "proof": vf.Hex(marshal(p))},
			"mutation %q: the altered proof still verifies for key %x", name, key)
		return
	}
	if e := p.GetExist(); e != nil && (!bytes.Equal(e.Key, key) || !bytes.Equal(e.Value, value)) {
		if t.verifyMember(t.root, p, e.Key, e.Value) {
			t.violation("membership:forged-claim-accepted:"+mutClass(name), map[string]any{"key": vf.Hex(e.Key), "value": vf.Hex(e.Value), "mutation": name, "proof": vf.Hex(marshal(p))},
				"mutation %q: the altered proof verifies for its own altered claim key=%x value=%x, which the tree does not hold", name, e.Key, e.Value)
		}
	}
}

func mutClass(name string) string {
	for i := 0; i < len(name); i++ {
		if name[i] == '@' {
			return name[:i]
		}
	}
	return name
}

func (t *treeCase) membership(rank int, allBits bool) {
	kv := t.snap[rank]
	key, value := kv.K, kv.V
	proof, err := t.imm.GetMembershipProof(append([]byte{}, key...))
	if err != nil {
		t.violation("membership:proof-generation-failed", map[string]any{"key": vf.Hex(key)}, "GetMembershipProof(%x) of a present key: %v", key, err)
		return
	}
	t.st.add(func() { t.st.memberProofs++ })
	w := func() map[string]any {
		return map[string]any{"key": vf.Hex(key), "value": vf.Hex(value), "proof": vf.Hex(marshal(proof)), "rank": rank, "size": len(t.snap)}
	}
	if !t.verifyMember(t.root, proof, key, value) {
		t.violation("membership:valid-proof-rejected", w(), "membership proof for present key %x (rank %d of %d) does not verify against the version's root", key, rank, len(t.snap))
		return
	}
	if ok, err := t.imm.VerifyMembership(proof, key); err != nil || !ok {
		t.violation("membership:valid-proof-rejected:VerifyMembership", w(), "ImmutableTree.VerifyMembership(%x) = %v, %v", key, ok, err)
		return
	}
	if e := proof.GetExist(); e == nil || !bytes.Equal(e.Key, key) || !bytes.Equal(e.Value, value) {
		t.violation("membership:proof-carries-wrong-pair", w(), "proof for %x carries key/value %x/%x", key, e.GetKey(), e.GetValue())
		return
	}
	orig := semantic(proof)
	if rank == 0 {
		t.c.Sample(map[string]any{"tree": t.desc, "version": t.ver, "size": len(t.snap), "key": vf.Hex(key), "value": vf.Hex(value), "root": vf.Hex(t.root),
			"proof_bytes": len(marshal(proof)), "inner_ops": len(proof.GetExist().GetPath()), "verifies": true})
	}

	// altered key / value / root with the untouched proof
	n := len(t.snap)
	altKeys := [][]byte{flipBit(key, t.rng.IntN(len(key)*8)), append(append([]byte{}, key...), 0x00), t.snap[(rank+1)%n].K, t.snap[(rank+n-1)%n].K, {}}
	if len(key) > 1 {
		altKeys = append(altKeys, key[:len(key)-1])
	}
	for _, k := range altKeys {
		if bytes.Equal(k, key) {
			continue
		}
		t.st.add(func() { t.st.alteredInputs++ })
		if t.verifyMember(t.root, proof, k, value) {
			t.violation("membership:altered-key-accepted", w(), "proof for %x verifies for the different key %x", key, k)
			return
		}
	}
	altVals := [][]byte{flipBit(value, t.rng.IntN(len(value)*8)), append(append([]byte{}, value...), 0x00), {}, t.snap[(rank+1)%n].V, value[:len(value)-1]}
	for _, v := range altVals {
		if bytes.Equal(v, value) {
			continue
		}
		t.st.add(func() { t.st.alteredInputs++ })
		if t.verifyMember(t.root, proof, key, v) {
			t.violation("membership:altered-value-accepted", w(), "proof for (%x,%x) verifies for the different value %x", key, value, v)
			return
		}
	}
	altRoots := [][]byte{flipBit(t.root, t.rng.IntN(256)), bpgen.EmptyTreeHash[:], bpgen.Sentinel[:], t.root[:31], append(append([]byte{}, t.root...), 0), nil}
	for _, r := range altRoots {
		t.st.add(func() { t.st.alteredInputs++ })
		if t.verifyMember(r, proof, key, value) {
			t.violation("membership:altered-root-accepted", w(), "proof for %x verifies against the altered root %x", key, r)
			return
		}
	}
	// field-level mutations of the decoded proof
	for _, m := range mutateExist(proof.GetExist(), t.rng, allBits) {
		t.mustRejectMember(m.name, orig, existProof(m.ep), key, value)
		if t.bad {
			return
		}
	}
	// wrong proof kind
	t.st.add(func() { t.st.alteredInputs++ })
	if t.verifyNonMember(t.root, proof, key) {
		t.violation("nonmembership:existence-proof-accepted", w(), "an existence proof for %x verifies as a NON-membership proof", key)
		return
	}
	// single-bit mutations of the serialized proof
	bz := marshal(proof)
	nbits := len(bz) * 8
	try := func(bit int) {
		mb := flipBit(bz, bit)
		q := &ics23.CommitmentProof{}
		var uerr error
		if pv := vf.Try(func() { uerr = q.Unmarshal(mb) }); pv != nil || uerr != nil {
			t.st.add(func() { t.st.bitflipUndecodable++ })
			return
		}
		t.st.add(func() { t.st.bitflipDecoded++ })
		t.mustRejectMember(fmt.Sprintf("serialized-bitflip@%d", bit), orig, q, key, value)
	}
	if allBits {
		for bit := 0; bit < nbits && !t.bad; bit++ {
			try(bit)
		}
		t.st.add(func() { t.st.exhaustiveBitflipProofs++ })
	} else {
		for i := 0; i < 48 && !t.bad; i++ {
			try(t.rng.IntN(nbits))
		}
	}
}

// ---------------------------------------------------------------------------
// non-membership

// absentClass labels the position class of an absent key with model rank r
// (number of keys smaller than it).
func (t *treeCase) absentClass(key []byte, r int) string {
	n := len(t.snap)
	switch {
	case r == 0:
		return "before-first"
	case r == n:
		return "after-last"
	}
	cls := "between-same-leaf"
	if t.leafOf[r-1] != t.leafOf[r] {
		cls = "between-across-leaves"
		if t.innerOf != nil && t.innerOf[t.leafOf[r-1]] != t.innerOf[t.leafOf[r]] {
			cls = "between-across-inner-nodes"
		}
	}
	if bytes.HasPrefix(t.snap[r].K, key) {
		cls += "/prefix-of-successor"
	}
	return cls
}

func (t *treeCase) existFor(rank int) *ics23.ExistenceProof {
	p, err := t.imm.GetMembershipProof(append([]byte{}, t.snap[rank].K...))
	if err != nil {
		t.violation("membership:proof-generation-failed", map[string]any{"key": vf.Hex(t.snap[rank].K)}, "GetMembershipProof(%x): %v", t.snap[rank].K, err)
		return nil
	}
	return p.GetExist()
}

func (t *treeCase) nonMembership(key []byte, bits int) {
	r, found := t.snap.Search(key)
	if found || len(key) == 0 {
		return
	}
	n := len(t.snap)
	cls := t.absentClass(key, r)
	proof, err := t.imm.GetNonMembershipProof(append([]byte{}, key...))
	if err != nil {
		t.violation("nonmembership:proof-generation-failed", map[string]any{"key": vf.Hex(key), "class": cls}, "GetNonMembershipProof(%x) of an absent key (%s): %v", key, cls, err)
		return
	}
	t.st.add(func() { t.st.nonMemberProofs++; t.st.byClass[cls]++ })
	w := func() map[string]any {
		return map[string]any{"key": vf.Hex(key), "class": cls, "proof": vf.Hex(marshal(proof)), "rank": r, "size": n}
	}
	if !t.verifyNonMember(t.root, proof, key) {
		t.violation("nonmembership:valid-proof-rejected:"+cls, w(), "non-membership proof for absent key %x (%s, rank %d of %d) does not verify", key, cls, r, n)
		return
	}
	if ok, err := t.imm.VerifyNonMembership(proof, key); err != nil || !ok {
		t.violation("nonmembership:valid-proof-rejected:VerifyNonMembership", w(), "ImmutableTree.VerifyNonMembership(%x) = %v, %v", key, ok, err)
		return
	}
	ne := proof.GetNonexist()
	var wantL, wantR []byte
	if r > 0 {
		wantL = t.snap[r-1].K
	}
	if r < n {
		wantR = t.snap[r].K
	}
	if ne == nil || !bytes.Equal(ne.GetLeft().GetKey(), wantL) || !bytes.Equal(ne.GetRight().GetKey(), wantR) {
		t.violation("nonmembership:wrong-neighbours", w(), "proof for %x brackets with (%x,%x); the model's neighbours are (%x,%x)", key, ne.GetLeft().GetKey(), ne.GetRight().GetKey(), wantL, wantR)
		return
	}
	orig := semantic(proof)

	// "only for that key": every key outside the open gap (left,right) must be rejected
	var probes [][]byte
	if r > 0 {
		probes = append(probes, t.snap[r-1].K)
		if r > 1 {
			probes = append(probes, t.snap[r-2].K, append(append([]byte{}, t.snap[r-2].K...), 0x00))
		}
	}
	if r < n {
		probes = append(probes, t.snap[r].K, append(append([]byte{}, t.snap[r].K...), 0x00))
		if r+1 < n {
			probes = append(probes, t.snap[r+1].K)
		}
	}
	for i := 0; i < 4; i++ {
		k := t.snap[t.rng.IntN(n)].K
		probes = append(probes, k, bpgen.Probes(k)[t.rng.IntN(len(bpgen.Probes(k)))])
	}
	probes = append(probes, []byte{0x00}, bytes.Repeat([]byte{0xff}, 20))
	for _, p := range probes {
		if len(p) == 0 {
			continue
		}
		inGap := (wantL == nil || bytes.Compare(wantL, p) < 0) && (wantR == nil || bytes.Compare(p, wantR) < 0)
		got := t.verifyNonMember(t.root, proof, p)
		_, present := t.snap.Search(p)
		switch {
		case inGap:
			// another absent key of the same gap: the neighbour pair proves the whole
			// gap empty; ics23 accepts it (inherent to neighbour proofs)
			if got && !bytes.Equal(p, key) {
				t.st.add(func() { t.st.sameGapAccepted++ })
				// strict reading of the property ("verifies only for that key"): own key,
				// does not abort the tree case
				ww := w()
				ww["other_key"] = vf.Hex(p)
				ww["tree_case"], ww["tree"], ww["version"], ww["root"] = t.id, t.desc, t.ver, vf.Hex(t.root)
				t.c.Violation("nonmembership:other-absent-key-in-same-gap-accepted", ww,
					"tree %d (%s) version %d: non-membership proof generated for %x also verifies for the different absent key %x of the same gap (%x..%x)", t.id, t.desc, t.ver, key, p, wantL, wantR)
			}
		case got && present:
			t.violation("nonmembership:accepted-for-present-key", w(), "non-membership proof for %x also verifies for %x, which is PRESENT in this version", key, p)
			return
		case got:
			t.violation("nonmembership:accepted-outside-gap", w(), "non-membership proof for %x (gap %x..%x) also verifies for %x outside that gap", key, wantL, wantR, p)
			return
		default:
			t.st.add(func() { t.st.otherKeyRejected++ })
		}
	}
	// existence claim with a non-existence proof
	if t.verifyMember(t.root, proof, key, []byte("x")) {
		t.violation("membership:nonexistence-proof-accepted", w(), "a non-existence proof verifies as a membership proof for %x", key)
		return
	}
	// altered root
	for _, rt := range [][]byte{flipBit(t.root, t.rng.IntN(256)), bpgen.EmptyTreeHash[:], nil} {
		t.st.add(func() { t.st.alteredInputs++ })
		if t.verifyNonMember(rt, proof, key) {
			t.violation("nonmembership:altered-root-accepted", w(), "non-membership proof for %x verifies against the altered root %x", key, rt)
			return
		}
	}
	reject := func(name string, p *ics23.CommitmentProof) {
		if bytes.Equal(semantic(p), orig) {
			t.st.add(func() { t.st.equivalentMutants++ })
			return
		}
		t.st.add(func() { t.st.mutantsRejected++; t.st.byMutation["nonexist/"+mutClass(name)]++ })
		if t.verifyNonMember(t.root, p, key) {
			t.violation("nonmembership:mutated-proof-accepted:"+mutClass(name), map[string]any{"key": vf.Hex(key), "class": cls, "mutation": name, "proof": vf.Hex(marshal(p))},
				"mutation %q: the altered non-membership proof still verifies for %x (%s)", name, key, cls)
		}
	}
	// structural mutations
	if ne.Left != nil {
		reject("drop-left", nonexistProof(key, nil, cloneExist(ne.Right)))
	}
	if ne.Right != nil {
		reject("drop-right", nonexistProof(key, cloneExist(ne.Left), nil))
	}
	if ne.Left != nil && ne.Right != nil {
		reject("swap-sides", nonexistProof(key, cloneExist(ne.Right), cloneExist(ne.Left)))
		reject("left-twice", nonexistProof(key, cloneExist(ne.Left), cloneExist(ne.Left)))
	}
	reject("both-nil", nonexistProof(key, nil, nil))
	// widened gaps: hide the true neighbour behind the next one
	if r >= 2 {
		if ll := t.existFor(r - 2); ll != nil {
			reject("left-replaced-by-its-predecessor", nonexistProof(key, ll, cloneExist(ne.Right)))
		}
	}
	if r+1 < n {
		if rr := t.existFor(r + 1); rr != nil {
			reject("right-replaced-by-its-successor", nonexistProof(key, cloneExist(ne.Left), rr))
		}
	}
	// field mutations inside the neighbour proofs
	for side, ep := range map[string]*ics23.ExistenceProof{"left": ne.Left, "right": ne.Right} {
		if ep == nil {
			continue
		}
		muts := mutateExist(ep, t.rng, false)
		for i := 0; i < 10 && !t.bad; i++ {
			m := muts[t.rng.IntN(len(muts))]
			if side == "left" {
				reject(side+"/"+m.name, nonexistProof(key, m.ep, cloneExist(ne.Right)))
			} else {
				reject(side+"/"+m.name, nonexistProof(key, cloneExist(ne.Left), m.ep))
			}
		}
	}
	// serialized single-bit mutations
	bz := marshal(proof)
	for i := 0; i < bits && !t.bad; i++ {
		bit := t.rng.IntN(len(bz) * 8)
		q := &ics23.CommitmentProof{}
		var uerr error
		if pv := vf.Try(func() { uerr = q.Unmarshal(flipBit(bz, bit)) }); pv != nil || uerr != nil {
			t.st.add(func() { t.st.bitflipUndecodable++ })
			continue
		}
		t.st.add(func() { t.st.bitflipDecoded++ })
		reject(fmt.Sprintf("serialized-bitflip@%d", bit), q)
	}
}

// forgedGap: a PRESENT key must not be provable absent by bracketing it with
// its own neighbours (or claiming it lies before the first / after the last key).
func (t *treeCase) forgedGap(rank int) {
	n := len(t.snap)
	key := t.snap[rank].K
	var l, r *ics23.ExistenceProof
	if rank > 0 {
		l = t.existFor(rank - 1)
	}
	if rank+1 < n {
		r = t.existFor(rank + 1)
	}
	if t.bad {
		return
	}
	cls := "middle-of-leaf"
	switch {
	case n == 1:
		cls = "only-key"
	case rank == 0:
		cls = "first-key"
	case rank == n-1:
		cls = "last-key"
	case t.leafOf[rank-1] != t.leafOf[rank]:
		cls = "first-of-leaf"
	case t.leafOf[rank+1] != t.leafOf[rank]:
		cls = "last-of-leaf"
	}
	forged := nonexistProof(key, l, r)
	t.st.add(func() { t.st.forgedGaps++; t.st.byForged[cls]++ })
	if t.verifyNonMember(t.root, forged, key) {
		t.violation("nonmembership:forged-gap-accepted:"+cls, map[string]any{"key": vf.Hex(key), "class": cls, "rank": rank, "size": n, "proof": vf.Hex(marshal(forged))},
			"present key %x (%s, rank %d of %d) verifies as ABSENT with a proof built from its two neighbours' existence proofs", key, cls, rank, n)
		return
	}
	// one-sided variants
	for name, p := range map[string]*ics23.CommitmentProof{"left-only": nonexistProof(key, l, nil), "right-only": nonexistProof(key, nil, r)} {
		if (name == "left-only" && l == nil) || (name == "right-only" && r == nil) {
			continue
		}
		t.st.add(func() { t.st.forgedGaps++ })
		if t.verifyNonMember(t.root, p, key) {
			t.violation("nonmembership:forged-gap-accepted:"+cls+":"+name, map[string]any{"key": vf.Hex(key), "class": cls, "rank": rank, "size": n, "proof": vf.Hex(marshal(p))},
				"present key %x (%s) verifies as ABSENT with a %s forged proof", key, cls, name)
			return
		}
	}
	// generation must refuse
	if p, err := t.imm.GetNonMembershipProof(append([]byte{}, key...)); err == nil {
		t.violation("nonmembership:generated-for-present-key", map[string]any{"key": vf.Hex(key), "proof": vf.Hex(marshal(p))}, "GetNonMembershipProof(%x) of a PRESENT key returned a proof", key)
	}
}

// layout derives, from the shape of the saved version, which leaf holds each rank.
func (t *treeCase) layout() bool {
	view, err := t.imm.VerifView()
	if err != nil {
		t.violation("tree:walk-error", map[string]any{}, "walking version %d: %v", t.ver, err)
		return false
	}
	// independent root: recomputed from node contents + model values
	problems := 0
	res := bpgen.Walk(view, bpgen.Lookup(t.snap), true, len(t.snap), func(sig, detail string) {
		problems++
		t.violation("tree:"+sig, map[string]any{}, "%s", detail)
	})
	if problems > 0 {
		return false
	}
	if !bytes.Equal(res.RootHash[:], t.root) {
		t.violation("tree:root-hash-not-recomputable", map[string]any{}, "root %x != hash recomputed from node contents and model values %x", t.root, res.RootHash)
		return false
	}
	t.leafOf = t.leafOf[:0]
	t.innerOf = nil
	leaf := 0
	var rec func(n *bptree.VerifNodeView, inner int)
	inners := 0
	var innerOf []int
	rec = func(n *bptree.VerifNodeView, inner int) {
		if n.Leaf {
			for range n.Keys {
				t.leafOf = append(t.leafOf, leaf)
			}
			innerOf = append(innerOf, inner)
			leaf++
			return
		}
		id := inner
		if n.Height == 1 {
			id = inners
			inners++
		}
		for _, c := range n.Children {
			rec(c, id)
		}
	}
	if view != nil {
		rec(view, 0)
	}
	if res.Height >= 3 {
		t.innerOf = innerOf
	}
	t.st.add(func() {
		if res.Height >= 3 {
			t.st.height3Versions++
		}
		t.st.versions++
	})
	return true
}

// proveVersion runs the whole proof battery on one saved version.
func (t *treeCase) proveVersion(ver int64, hash []byte, snap bpgen.Snapshot, heavy bool) {
	imm, err := t.tree.GetImmutable(ver)
	if err != nil {
		t.violation("tree:version-unreadable", map[string]any{}, "GetImmutable(%d): %v", ver, err)
		return
	}
	defer imm.Close()
	t.imm, t.ver, t.snap, t.root = imm, ver, snap, imm.Hash()
	if !bytes.Equal(t.root, hash) {
		t.violation("tree:hash-changed", map[string]any{}, "ImmutableTree.Hash() %x != SaveVersion hash %x", t.root, hash)
		return
	}
	n := len(snap)
	if n == 0 {
		// documented: nothing can be proven about an empty tree
		if _, err := imm.GetNonMembershipProof([]byte("k")); err == nil {
			t.violation("nonmembership:generated-on-empty-tree", map[string]any{}, "GetNonMembershipProof on an empty version returned a proof (documented: ErrEmptyTree)")
		}
		t.st.add(func() { t.st.emptyVersions++ })
		return
	}
	if !t.layout() {
		return
	}
	// ranks to prove: all for small trees; else ends, every leaf boundary (sampled) and random ones
	ranks := map[int]bool{}
	if n <= 70 {
		for i := 0; i < n; i++ {
			ranks[i] = true
		}
	} else {
		ranks[0], ranks[n-1] = true, true
		var bounds []int
		for i := 1; i < n; i++ {
			if t.leafOf[i] != t.leafOf[i-1] {
				bounds = append(bounds, i)
			}
		}
		for i := 0; i < 6 && len(bounds) > 0; i++ {
			b := bounds[t.rng.IntN(len(bounds))]
			ranks[b], ranks[b-1] = true, true
		}
		if t.innerOf != nil {
			for i := 1; i < n; i++ {
				if t.innerOf[t.leafOf[i]] != t.innerOf[t.leafOf[i-1]] {
					ranks[i], ranks[i-1] = true, true
				}
			}
		}
		for len(ranks) < 36 {
			ranks[t.rng.IntN(n)] = true
		}
	}
	exhaustive := 0
	for r := 0; r < n && !t.bad; r++ {
		if !ranks[r] {
			continue
		}
		allBits := heavy && exhaustive < 2 && (r == 0 || t.rng.IntN(len(ranks)) < 2)
		if allBits {
			exhaustive++
		}
		t.membership(r, allBits)
		if !t.bad {
			t.forgedGap(r)
		}
		// absent keys around this rank: every probe that is not present
		if !t.bad {
			for _, p := range bpgen.Probes(snap[r].K)[1:] {
				t.nonMembership(p, 12)
				if t.bad {
					return
				}
			}
		}
	}
	if t.bad {
		return
	}
	// explicit edge classes
	t.nonMembership([]byte{0x00}, 24)
	t.nonMembership(bytes.Repeat([]byte{0xff}, 24), 24)
	t.nonMembership(append(append([]byte{}, snap[n-1].K...), 0x00), 24)
	if f := snap[0].K; len(f) > 1 {
		t.nonMembership(f[:len(f)-1], 24)
	}
	for i := 0; i < 12 && !t.bad; i++ {
		k := make([]byte, 1+t.rng.IntN(12))
		for j := range k {
			k[j] = byte(t.rng.IntN(256))
		}
		t.nonMembership(k, 8)
	}
	// generation for an absent key as membership must refuse
	absent := append(append([]byte{}, snap[n-1].K...), 0x00, 0x01)
	if _, found := snap.Search(absent); !found {
		if p, err := imm.GetMembershipProof(absent); err == nil {
			t.violation("membership:generated-for-absent-key", map[string]any{"key": vf.Hex(absent), "proof": vf.Hex(marshal(p))}, "GetMembershipProof(%x) of an ABSENT key returned a proof", absent)
		}
	}
}

// runTreeCase builds a tree from a generated history and proves sampled versions.
func runTreeCase(c *vf.Ctx, id int, p bpgen.GenParams, fixed int, rng *rand.Rand, st *stats, heavy bool) bool {
	var h *bpgen.History
	desc := p.String()
	if fixed > 0 {
		// a tree of exactly `fixed` sequential keys saved once, then one more version after removing a few
		h = &bpgen.History{Params: p}
		g := bpgen.NewKeyGen(p.Mode, rng)
		var m bpgen.Model
		for m.Len() < fixed {
			k := g.Next(&m)
			v := []byte(fmt.Sprintf("v%d-%d", id, m.Len()))
			m.Set(k, v)
			h.Ops = append(h.Ops, bpgen.Op{Kind: bpgen.OpSet, Key: k, Val: v})
		}
		h.Ops = append(h.Ops, bpgen.Op{Kind: bpgen.OpSave})
		desc = fmt.Sprintf("fixed size %d mode=%s", fixed, bpgen.ModeNames[p.Mode])
	} else {
		h = bpgen.GenHistory(rng, p)
	}
	t := &treeCase{c: c, id: id, desc: desc, rng: rng, st: st}
	db := memdb.NewMemDB()
	opts := []bptree.Option{}
	if id%2 == 0 {
		opts = append(opts, bptree.FastIndexOption(true))
	}
	t.tree = bptree.NewMutableTreeWithDB(db, []int{0, 64, 10000}[id%3], bptree.NewNopLogger(), opts...)
	defer t.tree.Close()
	if _, err := t.tree.Load(); err != nil {
		panic(err)
	}
	var m bpgen.Model
	var last bpgen.Snapshot
	var snaps []bpgen.Snapshot
	var hashes [][]byte
	snaps, hashes = append(snaps, nil), append(hashes, nil)
	for i, op := range h.Ops {
		switch op.Kind {
		case bpgen.OpSet:
			if _, err := t.tree.Set(append([]byte{}, op.Key...), append([]byte{}, op.Val...)); err != nil {
				panic(fmt.Sprintf("op %d %s: %v", i, op, err))
			}
			m.Set(op.Key, op.Val)
		case bpgen.OpRemove:
			if _, _, err := t.tree.Remove(append([]byte{}, op.Key...)); err != nil {
				panic(fmt.Sprintf("op %d %s: %v", i, op, err))
			}
			m.Remove(op.Key)
		case bpgen.OpRollback:
			t.tree.Rollback()
			m.Load(last)
		case bpgen.OpSave:
			hash, _, err := t.tree.SaveVersion()
			if err != nil {
				panic(fmt.Sprintf("op %d save: %v", i, err))
			}
			last = m.Snapshot()
			snaps, hashes = append(snaps, last), append(hashes, append([]byte{}, hash...))
		}
	}
	nv := len(snaps) - 1
	pick := map[int]bool{nv: true}
	// the largest version and a random one
	big := 1
	for v := 1; v <= nv; v++ {
		if len(snaps[v]) > len(snaps[big]) {
			big = v
		}
	}
	pick[big] = true
	if heavy {
		pick[1+rng.IntN(nv)] = true
	}
	for v := 1; v <= nv && !t.bad; v++ {
		if pick[v] {
			if pv := vf.Try(func() { t.proveVersion(int64(v), hashes[v], snaps[v], heavy) }); pv != nil {
				t.violation("panic:proof-battery", map[string]any{}, "panic: %v", pv)
			}
		}
	}
	// MutableTree wrappers: proofs against the last committed version
	if !t.bad && len(snaps[nv]) > 0 {
		kv := snaps[nv][rng.IntN(len(snaps[nv]))]
		p, err := t.tree.GetMembershipProof(kv.K)
		if err != nil || !ics23.VerifyMembership(bptree.BptreeSpec, t.tree.Hash(), p, kv.K, kv.V) {
			t.violation("membership:valid-proof-rejected:MutableTree", map[string]any{"key": vf.Hex(kv.K)}, "MutableTree.GetMembershipProof(%x): err=%v or does not verify against Hash()", kv.K, err)
		}
		ab := append(append([]byte{}, kv.K...), 0x00)
		if _, found := snaps[nv].Search(ab); !found {
			p, err := t.tree.GetNonMembershipProof(ab)
			if err != nil || !ics23.VerifyNonMembership(bptree.BptreeSpec, t.tree.Hash(), p, ab) {
				t.violation("nonmembership:valid-proof-rejected:MutableTree", map[string]any{"key": vf.Hex(ab)}, "MutableTree.GetNonMembershipProof(%x): err=%v or does not verify against Hash()", ab, err)
			}
		}
		st.add(func() { st.mutableTreeProofs += 2 })
	}
	return !t.bad
}

// emptyValueException observes the documented exception: Set(key, []byte{}) is
// legal, a membership proof is generated, and ics23 cannot verify it.
func emptyValueException(c *vf.Ctx, st *stats) {
	tree := bptree.NewMutableTreeWithDB(memdb.NewMemDB(), 100, bptree.NewNopLogger())
	defer tree.Close()
	tree.Set([]byte("a"), []byte("1"))
	tree.Set([]byte("b"), []byte{})
	tree.Set([]byte("c"), []byte("3"))
	if _, _, err := tree.SaveVersion(); err != nil {
		panic(err)
	}
	p, err := tree.GetMembershipProof([]byte("b"))
	if err != nil {
		return
	}
	var ok bool
	if pv := vf.Try(func() { ok = ics23.VerifyMembership(bptree.BptreeSpec, tree.Hash(), p, []byte("b"), []byte{}) }); pv != nil || !ok {
		st.add(func() { st.emptyValueUnprovable++ })
	}
	// the neighbours are still provable
	for _, kv := range [][2]string{{"a", "1"}, {"c", "3"}} {
		p, err := tree.GetMembershipProof([]byte(kv[0]))
		if err != nil || !ics23.VerifyMembership(bptree.BptreeSpec, tree.Hash(), p, []byte(kv[0]), []byte(kv[1])) {
			c.Violation("membership:valid-proof-rejected:next-to-empty-value", map[string]any{"key": kv[0]}, "key %q next to an empty-valued key: proof err=%v or does not verify", kv[0], err)
		}
	}
}
