// Package c11: the VM never crashes and stays within its resource limits.
//
// Every input (.gno source submitted as MsgRun or MsgAddPackage through the real
// app) is processed in a CHILD process that logs the input index before each
// submission, so an unrecoverable Go fault (stack overflow, out of memory,
// fatal error) is attributed to the input that caused it. The parent polls the
// child's RSS and enforces a generous watchdog.
//
// Allowed outcomes: success; type-check / validation error; Gno panic reported
// as a tx error; out of gas; allocation limit. Violations: child death; peak RSS
// above 8 x the VM allocation limit; and a tx error that carries a Go
// runtime.Error raised by the interpreter's own code (index out of range [i]
// with length n, slice bounds out of range, invalid memory address or nil
// pointer dereference, interface conversion, integer divide by zero, nil map
// assignment, unhashable type) — Gno-level run-time panics use different wording.
package c11

import (
	"bufio"
	"fmt"
	"math/rand/v2"
	"os"
	"os/exec"
	"path/filepath"
	"regexp"
	"sort"
	"strconv"
	"strings"
	"time"

	"github.com/gnolang/gno/gno.land/pkg/sdk/vm"
	"github.com/gnolang/gno/tm2/pkg/std"

	"verifharness/internal/chainsim"
	"verifharness/internal/hist"
	"verifharness/internal/vf"
)

func init() {
	vf.Register(&vf.Check{
		ID:    "C11",
		Level: "exploration",
		Rule: "case = one .gno source submitted through the real app in a child process: byte-, token- and line-level mutations of the repository's filetests and example sources, structured pathologies " +
			"(nesting depth sweeps per bracket/operator kind, huge constants and shifts, recursive and mutually recursive types, giant literals, goto mazes, long identifiers, huge arrays/makes, init cycles) and generated programs; " +
			"non-trivial = the input passed parsing (outcome other than a syntax error); distinct by input hash",
		Run: run,
	})
	vf.Register(&vf.Check{ID: "C11CHILD", Rule: "child worker of C11 (not a property check)", Run: child})
}

const rssLimitKB = 8 * 500 * 1024 // 8 x the 500 MB allocation limit

// gnoExceptionMarker: the keeper renders an uncaught Gno panic (gno.UnhandledPanicError) as
// "VM panic: <value>\nStacktrace:\npanic: <value>\n<gno frames>"; any other recovered Go value gets the
// machine's plain stack trace without the "panic: " line (vm keeper, doRecoverInternal).
const gnoExceptionMarker = "Stacktrace:\npanic: "

var pkgClause = regexp.MustCompile(`(?m)^package\s+([A-Za-z_][A-Za-z_0-9]*)`)

// "hash of unhashable type" counts only when it names a Go type of the interpreter: the VM raises the
// same text with a Gno type ("[]int") deliberately, as a recoverable Gno panic (values.go, ComputeMapKey;
// gnovm/tests/files/range13.gno expects it), which is one of the permitted endings.
var goRuntimeErr = regexp.MustCompile(`index out of range \[-?\d+\]( with length \d+)?|slice bounds out of range \[|invalid memory address or nil pointer dereference|interface conversion: |integer divide by zero|assignment to entry in nil map|hash of unhashable type [\[\]*]*(gnolang|gno|std|vm)\.`)

// ---------- corpus

func corpusFiles() []string {
	var files []string
	for _, dir := range []string{"gnovm/tests/files", "examples/gno.land/p", "examples/gno.land/r/demo"} {
		filepath.WalkDir(filepath.Join(vf.RepoRoot(), dir), func(p string, d os.DirEntry, err error) error {
			if err == nil && !d.IsDir() && strings.HasSuffix(p, ".gno") {
				files = append(files, p)
			}
			return nil
		})
	}
	sort.Strings(files)
	return files
}

var tokenRe = regexp.MustCompile(`[A-Za-z_][A-Za-z_0-9]*|\d+|"[^"\n]*"|\S`)

func mutate(rng *rand.Rand, src string) string {
	switch rng.IntN(8) {
	case 0: // byte flip / delete / insert
		b := []byte(src)
		for k := 1 + rng.IntN(3); k > 0 && len(b) > 0; k-- {
			i := rng.IntN(len(b))
			switch rng.IntN(3) {
			case 0:
				b[i] ^= byte(1 << rng.IntN(8))
			case 1:
				b = append(b[:i], b[i+1:]...)
			default:
				const punct = "(){}[];,.*&+-<>=!:\"'`0"
				b = append(b[:i], append([]byte{punct[rng.IntN(len(punct))]}, b[i:]...)...)
			}
		}
		return string(b)
	case 1, 2, 3: // token level
		locs := tokenRe.FindAllStringIndex(src, -1)
		if len(locs) < 4 {
			return src
		}
		i, j := rng.IntN(len(locs)), rng.IntN(len(locs))
		ti, tj := src[locs[i][0]:locs[i][1]], src[locs[j][0]:locs[j][1]]
		switch rng.IntN(4) {
		case 0: // replace token i by token j
			return src[:locs[i][0]] + tj + src[locs[i][1]:]
		case 1: // delete
			return src[:locs[i][0]] + src[locs[i][1]:]
		case 2: // duplicate
			return src[:locs[i][1]] + " " + ti + src[locs[i][1]:]
		default: // replace by an interesting literal
			lits := []string{"0", "-1", "1<<62", "1<<63", "9223372036854775807", "1e308", "1e400", "nil", "\"\"", "[]int{}", "struct{}{}", "func(){}", "1<<10000", "'\\U0010FFFF'", "0x7fffffffffffffff", "~0", "make([]int, 1<<40)", "interface{}(nil)"}
			return src[:locs[i][0]] + lits[rng.IntN(len(lits))] + src[locs[i][1]:]
		}
	case 4: // line level: swap or duplicate or delete lines
		ls := strings.Split(src, "\n")
		if len(ls) < 3 {
			return src
		}
		i, j := rng.IntN(len(ls)), rng.IntN(len(ls))
		switch rng.IntN(3) {
		case 0:
			ls[i], ls[j] = ls[j], ls[i]
		case 1:
			ls = append(ls[:i], append([]string{ls[j]}, ls[i:]...)...)
		default:
			ls = append(ls[:i], ls[i+1:]...)
		}
		return strings.Join(ls, "\n")
	case 5: // type twiddling
		types := []string{"int", "int8", "uint8", "int64", "uint64", "float32", "float64", "string", "bool", "any", "[]int", "map[string]int", "*int", "error", "func()", "[2]int", "struct{}", "rune", "byte"}
		a, b := types[rng.IntN(len(types))], types[rng.IntN(len(types))]
		return strings.Replace(src, a, b, 1+rng.IntN(3))
	case 6: // operator twiddling
		ops := []string{"+", "-", "*", "/", "%", "<<", ">>", "&", "|", "^", "&&", "||", "==", "!=", "<", ">=", ":=", "=", "+=", "<<="}
		a, b := ops[rng.IntN(len(ops))], ops[rng.IntN(len(ops))]
		return strings.Replace(src, " "+a+" ", " "+b+" ", 1+rng.IntN(2))
	default:
		return src // unmutated
	}
}

func rep(s string, n int) string { return strings.Repeat(s, n) }

// pathologies returns structured hostile programs (name, source).
func pathologies(quick bool) [][2]string {
	depths := []int{10, 100, 1000, 10000, 100000}
	if quick {
		depths = []int{10, 200, 5000, 60000}
	}
	var out [][2]string
	add := func(name, body string) { out = append(out, [2]string{name, "package main\n\n" + body}) }
	// Run-time errors of the Gno program itself: the VM raises them as recoverable Gno panics whose text
	// mirrors Go's ("runtime error: index out of range [5] with length 3"). They are permitted endings and
	// must not be confused with a Go fault of the interpreter carrying the same text.
	for _, rp := range [][2]string{
		{"index", "func main() { a := []int{1, 2, 3}; i := 5; println(a[i]) }\n"},
		{"index-array", "func main() { var a [3]int; i := -1; println(a[i+0]) }\n"},
		{"index-string", "func main() { s := \"abc\"; i := 7; println(s[i]) }\n"},
		{"slice-bounds", "func main() { a := []int{1, 2, 3}; i, j := 2, 9; println(len(a[i:j])) }\n"},
		{"nil-deref", "type T struct{ X int }\n\nfunc main() { var p *T; println(p.X) }\n"},
		{"nil-map-assign", "func main() { var m map[string]int; m[\"a\"] = 1 }\n"},
		{"divide", "func main() { x, y := 1, 0; println(x / y) }\n"},
		{"iface-conversion", "func main() { var x any = \"s\"; println(x.(int)) }\n"},
		{"iface-conversion-nil", "func main() { var x any; println(x.(int)) }\n"},
		{"unhashable-key", "func main() { m := map[any]int{}; var k any = []int{1}; m[k] = 1 }\n"},
		{"recovered-index", "func main() { defer func() { println(recover() != nil) }(); a := []int{}; i := 1; println(a[i]) }\n"},
	} {
		add("program-runtime-error:"+rp[0], rp[1])
	}
	for _, d := range depths {
		ds := strconv.Itoa(d)
		add("nest-paren-"+ds, "func main() { println("+rep("(", d)+"1"+rep(")", d)+") }\n")
		add("nest-unary-"+ds, "func main() { x := 1; println("+rep("-", d)+"x) }\n")
		add("nest-not-"+ds, "func main() { b := true; println("+rep("!", d)+"b) }\n")
		add("nest-deref-"+ds, "func main() { var p *int; println("+rep("*", d)+"p) }\n")
		add("nest-addrof-type-"+ds, "var x "+rep("*", d)+"int\n\nfunc main() { println(x == nil) }\n")
		add("nest-slice-type-"+ds, "var x "+rep("[]", d)+"int\n\nfunc main() { println(len(x)) }\n")
		add("nest-array-lit-"+ds, "func main() { x := "+rep("[]any{", d)+rep("}", d)+"; println(len(x)) }\n")
		add("nest-block-"+ds, "func main() { "+rep("{", d)+"println(1)"+rep("}", d)+" }\n")
		add("nest-if-"+ds, "func main() { x := 1; "+rep("if x > 0 { ", d)+"println(x)"+rep(" }", d)+" }\n")
		add("nest-func-lit-"+ds, "func main() { f := "+rep("func() any { return ", d)+"1"+rep(" }", d)+"; println(f != nil) }\n")
		add("nest-call-"+ds, "func id(x int) int { return x }\n\nfunc main() { println("+rep("id(", d)+"1"+rep(")", d)+") }\n")
		add("nest-index-"+ds, "func main() { m := map[int]int{}; println("+rep("m[", d)+"0"+rep("]", d)+") }\n")
		add("chain-add-"+ds, "func main() { x := 1; println(x"+rep(" + x", d)+") }\n")
		add("chain-selector-"+ds, "type T struct{ N *T }\n\nfunc main() { t := &T{}; t.N = t; println(t"+rep(".N", d)+" != nil) }\n")
		add("chain-strcat-"+ds, "func main() { println(len(\"a\""+rep(" + \"a\"", d)+")) }\n")
		add("big-const-shift-"+ds, "const c = 1 << "+ds+"\n\nfunc main() { println(c >> "+ds+") }\n")
		add("big-const-digits-"+ds, "const c = 1"+rep("0", d)+"\n\nfunc main() { println(c / c) }\n")
		add("big-float-exp-"+ds, "const c = 1e"+ds+"\n\nfunc main() { println(c / c) }\n")
		add("long-ident-"+ds, "var "+rep("a", d)+" = 1\n\nfunc main() { println("+rep("a", d)+") }\n")
		add("many-params-"+ds, "func f("+strings.TrimSuffix(rep("int, ", min(d, 20000)), ", ")+") {}\n\nfunc main() { println(1) }\n")
		add("many-stmts-"+ds, "func main() { x := 0\n"+rep("x++\n", min(d, 50000))+"println(x) }\n")
		add("many-cases-"+ds, "func main() { x := 3\nswitch x {\n"+func() string {
			var b strings.Builder
			for i := 0; i < min(d, 20000); i++ {
				fmt.Fprintf(&b, "case %d: println(%d)\n", i+10, i)
			}
			return b.String()
		}()+"}\n}\n")
		add("big-struct-lit-"+ds, "func main() { x := []int{"+rep("1,", min(d, 200000))+"}; println(len(x)) }\n")
		add("goto-maze-"+ds, "func main() { i := 0\n"+func() string {
			var b strings.Builder
			n := min(d, 3000)
			for i := 0; i < n; i++ {
				fmt.Fprintf(&b, "L%d: i++; if i > %d { goto L%d }\n", i, n*3, (i*7+3)%n)
			}
			return b.String()
		}()+"println(i) }\n")
	}
	// rings of mutually recursive pointer-wrapper types (valid Go) used in a lookup
	for _, n := range []int{1, 2, 3, 7, 8, 9, 10, 16, 17, 33, 100} {
		var b strings.Builder
		for i := 0; i < n; i++ {
			fmt.Fprintf(&b, "type T%d *T%d\n", i, (i+1)%n)
		}
		add("ptr-wrapper-ring-"+strconv.Itoa(n), b.String()+"\nfunc main() { var x T0; println(x); var a any = x; _, ok := a.(interface{ M() }); println(ok) }\n")
	}
	// run-time exceptions raised while package-level variables are initialised (no call frame yet)
	add("global-init-index-range", "var a = []int{1}\nvar i = 5\nvar x = a[i]\n\nfunc main() { println(x) }\n")
	add("global-init-nil-deref", "var p *int\nvar x = *p\n\nfunc main() { println(x) }\n")
	add("global-init-div-zero", "var z = 0\nvar x = 1 / z\n\nfunc main() { println(x) }\n")
	add("global-init-nil-map-write", "var m map[string]int\nvar x = func() int { m[\"a\"] = 1; return 1 }()\n\nfunc main() { println(x) }\n")
	add("global-init-type-assert", "var a any = 1\nvar x = a.(string)\n\nfunc main() { println(x) }\n")
	add("global-init-slice-bounds", "var a = []int{1, 2}\nvar n = 5\nvar x = a[:n]\n\nfunc main() { println(len(x)) }\n")
	add("global-init-explicit-panic", "var x = func() int { panic(\"boom\") }()\n\nfunc main() { println(x) }\n")
	add("global-init-conversion", "var a = []int{1}\nvar x = [2]int(a)\n\nfunc main() { println(x[0]) }\n")
	add("rec-type-direct", "type T struct{ t T }\n\nfunc main() { var x T; println(x) }\n")
	add("rec-type-mutual", "type A struct{ b B }\ntype B struct{ a A }\n\nfunc main() { var x A; println(x) }\n")
	add("rec-type-alias", "type A B\ntype B A\n\nfunc main() { var x A; println(x) }\n")
	add("rec-type-array", "type T [2]T\n\nfunc main() { var x T; println(len(x)) }\n")
	add("rec-iface", "type I interface{ M() I }\ntype T struct{}\nfunc (T) M() I { return T{} }\n\nfunc main() { var i I = T{}; for k := 0; k < 10; k++ { i = i.M() }; println(i != nil) }\n")
	add("init-cycle", "var a = b\nvar b = a\n\nfunc main() { println(a) }\n")
	add("const-cycle", "const a = b\nconst b = a\n\nfunc main() { println(a) }\n")
	add("func-init-cycle", "var a = f()\nfunc f() int { return a }\n\nfunc main() { println(a) }\n")
	add("huge-array-type", "var x [1 << 40]int\n\nfunc main() { println(len(x)) }\n")
	add("huge-array-lit", "func main() { x := [1 << 30]int{}; println(len(x)) }\n")
	add("huge-make", "func main() { x := make([]int, 1<<50); println(len(x)) }\n")
	add("huge-make-cap", "func main() { x := make([]int, 0, 1<<62); println(cap(x)) }\n")
	add("neg-make", "func main() { n := -1; x := make([]int, n); println(len(x)) }\n")
	add("huge-map-make", "func main() { x := make(map[int]int, 1<<40); println(len(x)) }\n")
	add("shift-huge", "func main() { x := 1; var s uint = 1 << 40; println(x << s, x >> s) }\n")
	add("deep-recursion", "func f(n int) int { return f(n+1) + 1 }\n\nfunc main() { println(f(0)) }\n")
	add("mutual-recursion", "func f(n int) int { return g(n + 1) }\nfunc g(n int) int { return f(n + 1) }\n\nfunc main() { println(f(0)) }\n")
	add("defer-bomb", "func main() { for i := 0; ; i++ { defer func() {}() } }\n")
	add("panic-in-defer-loop", "func f() { defer f(); panic(\"x\") }\n\nfunc main() { f() }\n")
	add("recover-loop", "func f(n int) { defer func() { recover(); f(n + 1) }(); panic(n) }\n\nfunc main() { f(0) }\n")
	add("string-bomb", "func main() { s := \"x\"; for { s += s } }\n")
	add("slice-bomb", "func main() { s := []int{1}; for { s = append(s, s...) } }\n")
	add("map-bomb", "func main() { m := map[int][]int{}; for i := 0; ; i++ { m[i] = make([]int, 1000) } }\n")
	add("closure-self", "func main() { var f func() int; f = func() int { return f() }; println(f()) }\n")
	add("iface-self-embed", "type I interface{ I }\n\nfunc main() { var x I; println(x == nil) }\n")
	add("method-on-ptr-ptr", "type T int\ntype P *T\nfunc (p P) M() {}\n\nfunc main() {}\n")
	add("label-unused-goto-into-block", "func main() { goto L; { L: println(1) } }\n")
	add("range-assign-index", "func main() { s := []int{0}; for _, s[0] = range []int{1, 2} {}; println(s[0]) }\n")
	add("conv-overflow-const", "func main() { println(int8(1000)) }\n")
	add("array-neg-len", "func main() { var x [-1]int; println(len(x)) }\n")
	add("div-zero-const", "func main() { println(1 / 0) }\n")
	add("nil-map-write", "func main() { var m map[string]int; m[\"a\"] = 1 }\n")
	add("type-assert-fail", "func main() { var x any = 1; println(x.(string)) }\n")
	add("select-like-keywords", "func main() { go println(1) }\n")
	add("chan-type", "func main() { var c chan int; println(c == nil) }\n")
	add("complex-type", "func main() { var c complex128; println(real(c)) }\n")
	add("generics", "func f[T any](x T) T { return x }\n\nfunc main() { println(f(1)) }\n")
	add("unsafe-import", "import \"unsafe\"\n\nfunc main() { println(unsafe.Sizeof(1)) }\n")
	add("empty", "")
	add("only-package", "")
	return out
}

// ---------- child

func child(c *vf.Ctx) {
	batch := os.Getenv("C11_BATCH")
	in, err := os.ReadFile(batch)
	if err != nil {
		panic(err)
	}
	inputs := strings.Split(string(in), "\x00\x01\x02SEP\n")
	prog, _ := os.OpenFile(batch+".progress", os.O_CREATE|os.O_WRONLY|os.O_APPEND, 0o644)
	out, _ := os.OpenFile(batch+".out", os.O_CREATE|os.O_WRONLY|os.O_APPEND, 0o644)
	ch, err := chainsim.New(chainsim.Options{})
	if err != nil {
		panic(err)
	}
	r := ch.InitChain(hist.Genesis(ch))
	if r.Error != nil {
		panic(r.Error)
	}
	ch.RunBlock()
	u := ch.Acc("alice")
	for i, src := range inputs {
		if src == "" && i == len(inputs)-1 {
			break
		}
		fmt.Fprintf(prog, "START %d\n", i)
		prog.Sync()
		asPkg := i%5 == 4 && !strings.HasPrefix(src, "package main")
		// messages are built by hand: the client-side constructors (NewMsgRun / NewMsgAddPackage) parse the
		// source and panic on bad input, which is exactly what must reach the node here
		var msg std.Msg
		if asPkg {
			path := fmt.Sprintf("gno.land/r/verif/fz%d_%d", os.Getpid(), i)
			name := "x"
			if m := pkgClause.FindStringSubmatch(src); m != nil {
				name = m[1]
			}
			msg = vm.MsgAddPackage{Creator: u.Addr, Package: &std.MemPackage{Name: name, Path: path, Files: chainsim.Files(path, map[string]string{"a.gno": src})}}
		} else {
			msg = vm.MsgRun{Caller: u.Addr, Package: &std.MemPackage{Name: "main", Path: "", Files: []*std.MemFile{{Name: "main.gno", Body: src}}}}
		}
		t0 := time.Now()
		var tr *chainsim.TxResult
		pv := vf.Try(func() { tr = ch.OneTx([]std.Msg{msg}, chainsim.Fee(childGasLimit, 1_000_000), u) })
		el := time.Since(t0)
		outcome, detail := "success", ""
		switch {
		case pv != nil:
			outcome, detail = "escaped-panic", fmt.Sprint(pv)
		case tr.OK:
		default:
			e := tr.ErrString + "\n" + tr.Log
			switch {
			case goRuntimeErr.MatchString(e) && !strings.Contains(e, gnoExceptionMarker):
				outcome = "internal-fault"
				detail = goRuntimeErr.FindString(e) + " | " + firstFrames(tr.Log)
			case strings.Contains(e, "recovered:") && strings.Contains(e, "goroutine "):
				outcome = "baseapp-recovered-panic"
				detail = clip(tr.Log, 300)
			case strings.Contains(strings.ToLower(e), "out of gas"):
				outcome = "out-of-gas"
			case strings.Contains(e, "allocation limit"):
				outcome = "allocation-limit"
			case strings.Contains(e, "TypeCheckError") || strings.Contains(e, "type check"):
				outcome = "typecheck-error"
			case strings.Contains(e, "VM panic"):
				outcome = "gno-panic"
			default:
				outcome = "validation-error"
			}
		}
		fmt.Fprintf(out, "%d\t%s\t%d\t%d\t%s\n", i, outcome, el.Milliseconds(), gasOf(tr), strings.ReplaceAll(clip(detail, 400), "\n", " "))
		out.Sync()
	}
	fmt.Fprintf(prog, "DONE\n")
	prog.Sync()
	c.Case("child", true)
	c.Case("child2", true)
}

func gasOf(tr *chainsim.TxResult) int64 {
	if tr == nil {
		return 0
	}
	return tr.Res.GasUsed
}

func firstFrames(log string) string {
	var fr []string
	for _, l := range strings.Split(log, "\n") {
		l = strings.TrimSpace(l)
		if strings.Contains(l, "gnovm/pkg/gnolang/") || strings.Contains(l, "gnolang.") {
			fr = append(fr, l)
			if len(fr) >= 3 {
				break
			}
		}
	}
	return strings.Join(fr, " <- ")
}

func clip(s string, n int) string {
	if len(s) > n {
		return s[:n] + "…"
	}
	return s
}

// ---------- parent

func run(c *vf.Ctx) {
	files := corpusFiles()
	c.Count("corpus_files", len(files))
	rng := c.Rng(1)
	nMut := c.N(1000, 60000)
	var inputs []string
	var names []string
	for _, p := range pathologies(c.Quick()) {
		src := p[1]
		if p[0] == "only-package" {
			src = "package main\n"
		}
		if len(src) > 900_000 {
			continue
		}
		inputs = append(inputs, src)
		names = append(names, "pathology:"+p[0])
	}
	for i := 0; i < nMut; i++ {
		f := files[rng.IntN(len(files))]
		b, err := os.ReadFile(f)
		if err != nil || len(b) > 200_000 {
			continue
		}
		src := string(b)
		for k := rng.IntN(3); k >= 0; k-- {
			src = mutate(rng, src)
		}
		inputs = append(inputs, src)
		names = append(names, "mutant:"+strings.TrimPrefix(f, vf.RepoRoot()+"/"))
	}
	// shuffle so that every child gets a mix
	perm := rng.Perm(len(inputs))
	nChildren := c.N(8, 16)
	batches := make([][]int, nChildren)
	for k, idx := range perm {
		batches[k%nChildren] = append(batches[k%nChildren], idx)
	}
	c.Set("inputs_total", len(inputs))
	c.Parallel(nChildren, nChildren, 0, func(bi int, _ *rand.Rand) {
		runBatch(c, bi, batches[bi], inputs, names)
	})
	c.Assume("internal faults are recognised by the message forms of Go runtime.Error values in a tx error that is not rendered as an uncaught Gno panic; interpreter panics with other wording (e.g. 'unexpected type') are counted as gno-panic/validation outcomes, not judged")
	// the programs that fail at run time by themselves must have been seen ending as Gno panics
	c.RequireCounter("program_runtime_errors_ending_as:gno-panic", 8)
	c.Assume("inputs are submitted with 200M gas; the allocation limit is the VM default; RSS bound = 8 x 500 MB")
	c.RequireCounter("inputs_executed", int64(len(inputs)*9/10))
	c.RequireCounter("outcome:success", 20)
	c.RequireCounter("outcome:typecheck-error", 50)
	c.RequireCounter("outcome:out-of-gas", 3)
}

func runBatch(c *vf.Ctx, bi int, idxs []int, inputs, names []string) {
	pos := 0
	for pos < len(idxs) {
		// (re)start a child on the remaining inputs
		batchFile := filepath.Join(c.WorkDir, fmt.Sprintf("batch-%d-%d", bi, pos))
		var sb strings.Builder
		for _, ix := range idxs[pos:] {
			sb.WriteString(inputs[ix])
			sb.WriteString("\x00\x01\x02SEP\n")
		}
		os.WriteFile(batchFile, []byte(sb.String()), 0o644)
		cmd := exec.Command(os.Args[0], "C11CHILD", "quick")
		cmd.Env = append(os.Environ(), "C11_BATCH="+batchFile, "VERIF_OUT="+filepath.Join(c.WorkDir, "childout"), "VERIF_RACE_LOG=")
		errFile, _ := os.Create(batchFile + ".stderr")
		cmd.Stdout, cmd.Stderr = errFile, errFile
		if err := cmd.Start(); err != nil {
			panic(err)
		}
		done := make(chan error, 1)
		go func() { done <- cmd.Wait() }()
		var peakKB int64
		lastProgress, lastChange := -1, time.Now()
		killedFor := ""
		// CPU seconds of the child at the moment the current input started; maxDone = the most CPU any
		// finished input of this child needed. "Does not stop" is decided on CPU time consumed by the node
		// process on one input (independent of machine load), never on wall-clock time.
		cpuAtChange, maxDone, cpuNow := 0.0, 0.0, 0.0
	loop:
		for {
			select {
			case <-done:
				break loop
			case <-time.After(500 * time.Millisecond):
			}
			if kb := rssKB(cmd.Process.Pid); kb > peakKB {
				peakKB = kb
			}
			cur := lastStarted(batchFile + ".progress")
			if t := cpuSeconds(cmd.Process.Pid); t > 0 {
				cpuNow = t
			}
			if cur != lastProgress {
				if lastProgress >= 0 && cpuNow-cpuAtChange > maxDone {
					maxDone = cpuNow - cpuAtChange
				}
				lastProgress, lastChange, cpuAtChange = cur, time.Now(), cpuNow
			}
			if peakKB > rssLimitKB {
				killedFor = "rss"
				cmd.Process.Kill()
			} else if cpuNow-cpuAtChange > cpuHangSeconds {
				killedFor = "cpu"
				cmd.Process.Kill()
			} else if time.Since(lastChange) > 240*time.Second {
				killedFor = "watchdog"
				cmd.Process.Kill()
			}
		}
		errFile.Close()
		c.Count("children_started", 1)
		// collect results
		res := readOut(batchFile + ".out")
		for k, line := range res {
			ix := idxs[pos+k]
			f := strings.SplitN(line, "\t", 5)
			outcome := f[1]
			c.Count("inputs_executed", 1)
			c.Count("outcome:"+outcome, 1)
			c.Case(fmt.Sprintf("%x", hashOf(inputs[ix])), outcome != "validation-error" || !strings.HasPrefix(names[ix], "mutant"))
			if strings.HasPrefix(names[ix], "pathology:nest-paren-200") || (k == 0 && pos == 0 && bi == 0) {
				c.Sample(map[string]any{"input": names[ix], "source_head": clip(inputs[ix], 200), "outcome": outcome, "ms": f[2], "gas": f[3]})
			}
			w := map[string]any{"input_name": names[ix], "source": clip(inputs[ix], 20000), "outcome": outcome, "detail": f[4]}
			if strings.Contains(names[ix], "program-runtime-error:") {
				c.Count("program_runtime_errors_ending_as:"+outcome, 1)
			}
			switch outcome {
			case "internal-fault":
				c.Violation("internal-fault:"+faultSite(f[4]), w, "input %s: tx error carries a Go runtime fault of the interpreter: %s", names[ix], f[4])
			case "escaped-panic", "baseapp-recovered-panic":
				c.Violation(outcome+":"+faultSite(f[4]), w, "input %s: %s: %s", names[ix], outcome, f[4])
			}
		}
		done2 := len(res)
		finished := strings.Contains(readAll(batchFile+".progress"), "DONE")
		if finished {
			pos += done2
			if peakKB > 0 {
				c.Count("peak_rss_mb_max_seen", 0)
			}
			c.Set(fmt.Sprintf("peak_rss_mb_child_%d", bi), peakKB/1024)
			break
		}
		// child died or was killed while processing input number `done2`
		culprit := idxs[pos+done2]
		stderr := clip(tail(readAll(batchFile+".stderr"), 3000), 3000)
		w := map[string]any{"input_name": names[culprit], "source": clip(inputs[culprit], 20000), "stderr_tail": stderr, "peak_rss_mb": peakKB / 1024}
		switch killedFor {
		case "rss":
			c.Violation("memory-above-limit:"+kindOf(names[culprit]), w, "input %s: child RSS reached %d MB (> %d MB = 8 x allocation limit)", names[culprit], peakKB/1024, rssLimitKB/1024)
		case "cpu":
			w["cpu_seconds_on_this_input"] = int(cpuNow - cpuAtChange)
			w["max_cpu_seconds_of_any_finished_input_of_this_child"] = int(maxDone)
			c.Violation("does-not-stop:"+kindOf(names[culprit]), w, "input %s: the node process burned %d CPU-seconds on this one transaction without finishing it (gas limit %d; the most expensive finished input of the same child needed %.1f CPU-seconds): the VM does not stop within its gas limit", names[culprit], int(cpuNow-cpuAtChange), childGasLimit, maxDone)
		case "watchdog":
			c.Count("watchdog_kills", 1)
			c.Inconclusive(fmt.Sprintf("watchdog: input %s made no progress for 240 s (hang or very slow under load) — rerun in isolation", names[culprit]))
		default:
			sig := "exit"
			if strings.Contains(stderr, "fatal error:") {
				i := strings.Index(stderr, "fatal error:")
				sig = clip(strings.SplitN(stderr[i:], "\n", 2)[0], 80)
			} else if strings.Contains(stderr, "HARNESS PANIC") {
				sig = "harness-panic"
			}
			c.Violation("process-died:"+sig+":"+kindOf(names[culprit]), w, "input %s killed the node process (%s); stderr tail: %s", names[culprit], sig, clip(stderr, 600))
		}
		c.Count("children_died", 1)
		pos += done2 + 1
	}
}

// cpuHangSeconds: CPU time (user+system, all threads) one transaction may consume in the node
// process before the run is declared non-terminating. Finished inputs need well under 30 s.
const cpuHangSeconds = 180.0

// childGasLimit is the gas every input is submitted with.
const childGasLimit = 200_000_000

// cpuSeconds reads utime+stime of a process from /proc (clock ticks of 1/100 s).
func cpuSeconds(pid int) float64 {
	b, err := os.ReadFile(fmt.Sprintf("/proc/%d/stat", pid))
	if err != nil {
		return 0
	}
	s := string(b)
	i := strings.LastIndexByte(s, ')')
	if i < 0 {
		return 0
	}
	f := strings.Fields(s[i+1:])
	if len(f) < 13 {
		return 0
	}
	ut, _ := strconv.ParseFloat(f[11], 64)
	st, _ := strconv.ParseFloat(f[12], 64)
	return (ut + st) / 100
}

func kindOf(name string) string {
	if strings.HasPrefix(name, "pathology:") {
		n := strings.TrimPrefix(name, "pathology:")
		// strip the depth suffix
		if i := strings.LastIndexByte(n, '-'); i > 0 {
			if _, err := strconv.Atoi(n[i+1:]); err == nil {
				n = n[:i]
			}
		}
		return n
	}
	return "mutant"
}

func faultSite(detail string) string {
	// "<go error> | frame <- frame": key on the error form and the first frame's function
	parts := strings.SplitN(detail, " | ", 2)
	form := regexp.MustCompile(`\[-?\d+\]|\d+`).ReplaceAllString(parts[0], "N")
	site := ""
	if len(parts) > 1 {
		fr := strings.SplitN(parts[1], " <- ", 2)[0]
		fr = regexp.MustCompile(`:\d+`).ReplaceAllString(fr, "")
		site = clip(fr, 80)
	}
	return clip(form, 60) + "@" + site
}

func hashOf(s string) uint64 {
	var h uint64 = 1469598103934665603
	for i := 0; i < len(s); i++ {
		h ^= uint64(s[i])
		h *= 1099511628211
	}
	return h
}

func rssKB(pid int) int64 {
	b, err := os.ReadFile(fmt.Sprintf("/proc/%d/status", pid))
	if err != nil {
		return 0
	}
	for _, l := range strings.Split(string(b), "\n") {
		if strings.HasPrefix(l, "VmRSS:") {
			f := strings.Fields(l)
			if len(f) >= 2 {
				n, _ := strconv.ParseInt(f[1], 10, 64)
				return n
			}
		}
	}
	return 0
}

func lastStarted(path string) int {
	last := -1
	f, err := os.Open(path)
	if err != nil {
		return last
	}
	defer f.Close()
	sc := bufio.NewScanner(f)
	for sc.Scan() {
		var n int
		if _, err := fmt.Sscanf(sc.Text(), "START %d", &n); err == nil {
			last = n
		}
	}
	return last
}

func readOut(path string) []string {
	b, err := os.ReadFile(path)
	if err != nil {
		return nil
	}
	var out []string
	for _, l := range strings.Split(string(b), "\n") {
		if strings.Count(l, "\t") >= 4 {
			out = append(out, l)
		}
	}
	return out
}

func readAll(path string) string { b, _ := os.ReadFile(path); return string(b) }

func tail(s string, n int) string {
	if len(s) > n {
		return s[len(s)-n:]
	}
	return s
}
