// Package c01: chain replay is deterministic across runs, restarts, caches,
// GOMAXPROCS and DB backends.
//
// Oracle: the consensus-relevant trace (app hash per block; amino bytes of
// {Error,Data,Events} + GasWanted + GasUsed per tx; InitChain tx responses) of
// every variant run of a generated history must equal the reference run.
package c01

import (
	"fmt"
	"math/rand/v2"
	"os"
	"os/exec"
	"path/filepath"
	"runtime"
	"strings"
	"time"

	dbm "github.com/gnolang/gno/tm2/pkg/db"
	_ "github.com/gnolang/gno/tm2/pkg/db/boltdb"
	_ "github.com/gnolang/gno/tm2/pkg/db/goleveldb"
	_ "github.com/gnolang/gno/tm2/pkg/db/pebbledb"
	storetypes "github.com/gnolang/gno/tm2/pkg/store/types"

	"verifharness/internal/chainsim"
	"verifharness/internal/hist"
	"verifharness/internal/vf"
)

func init() {
	vf.Register(&vf.Check{ID: "C01CHILD", Rule: "child worker of C01 (not a property check)", Run: child})
	vf.Register(&vf.Check{
		ID:    "C01",
		Level: "exploration",
		Rule: "case = (generated block history, run variant); variants: identical re-run, GOMAXPROCS 1 vs 16, restart patterns (every block / random subset / none), " +
			"stdlib load cached vs cold, backends memdb/goleveldb/pebbledb/boltdb, prune nothing vs everything; a case is non-trivial when the history contains >= 1 succeeded and >= 1 failed tx " +
			"and the variant differs from the reference in at least one dimension; distinct by (history seed, variant)",
		Run: run,
	})
}

type variant struct {
	name     string
	procs    int
	restart  string // none | all | rand
	backend  string // memdb | goleveldb | pebbledb | boltdb
	coldStd  bool
	prune    storetypes.PruneStrategy
}

func openBackend(c *vf.Ctx, backend, name string) (dbm.DB, func() dbm.DB) {
	if backend == "memdb" || backend == "" {
		return nil, nil
	}
	dir := filepath.Join(c.WorkDir, name)
	os.MkdirAll(dir, 0o755)
	open := func() dbm.DB {
		db, err := dbm.NewDB("app", dbm.BackendType(backend), dir)
		if err != nil {
			panic(fmt.Sprintf("open %s: %v", backend, err))
		}
		return db
	}
	return open(), open
}

func playVariant(c *vf.Ctx, h *hist.History, v variant, rng *rand.Rand, tag string) (string, string, *chainsim.Chain, error) {
	old := runtime.GOMAXPROCS(0)
	if v.procs > 0 {
		runtime.GOMAXPROCS(v.procs)
		defer runtime.GOMAXPROCS(old)
	}
	db, reopen := openBackend(c, v.backend, tag)
	ra := map[int]bool{}
	switch v.restart {
	case "all":
		// every block boundary in thorough; every other one in quick (each restart re-creates the app: ~2 s)
		for i := range h.Blocks {
			if !c.Quick() || i%2 == 1 {
				ra[i] = true
			}
		}
	case "rand":
		max := c.N(2, 1000)
		for i := range h.Blocks {
			if len(ra) < max && rng.IntN(3) == 0 {
				ra[i] = true
			}
		}
		if len(ra) == 0 {
			ra[len(h.Blocks)/2] = true
		}
	case "afterfail":
		// filled by the caller through the reference trace: restart right after blocks holding a failed tx or a deployment
	}
	ch, err := hist.Play(h, hist.PlayOpts{
		Chain:     chainsim.Options{DB: db, OpenDB: reopen, NoStdlibCache: v.coldStd, Prune: v.prune},
		RestartAt: ra,
	})
	if err != nil {
		return "", "", ch, err
	}
	return chainsim.InitKey(ch.InitResp), chainsim.TraceKey(ch.Trace), ch, nil
}

func firstDiff(a, b string) string {
	la, lb := strings.Split(a, "\n"), strings.Split(b, "\n")
	for i := 0; i < len(la) && i < len(lb); i++ {
		if la[i] != lb[i] {
			return fmt.Sprintf("line %d:\n  ref: %s\n  got: %s", i, clip(la[i]), clip(lb[i]))
		}
	}
	return fmt.Sprintf("length %d vs %d lines", len(la), len(lb))
}

func clip(s string) string {
	if len(s) > 300 {
		return s[:300] + "…"
	}
	return s
}

// ---- process-level restarts: the history is played by a chain of child
// processes on an on-disk backend, each child handling a range of blocks and
// exiting, so that process-global caches (amino type cache, pkg-id cache,
// stdlib load cache) are cold too.

func child(c *vf.Ctx) {
	var seed uint64
	var nBlocks, from, to int
	fmt.Sscan(os.Getenv("C01_SEED"), &seed)
	fmt.Sscan(os.Getenv("C01_BLOCKS"), &nBlocks)
	fmt.Sscan(os.Getenv("C01_FROM"), &from)
	fmt.Sscan(os.Getenv("C01_TO"), &to)
	var stream uint64
	fmt.Sscan(os.Getenv("C01_STREAM"), &stream)
	backend, dir, out := os.Getenv("C01_BACKEND"), os.Getenv("C01_DIR"), os.Getenv("C01_OUT")
	c.Seed = int64(seed / 1000)
	rng := c.Rng(stream)
	h := genHist(rng, seed, nBlocks, int(stream)-100)
	db, err := dbm.NewDB("app", dbm.BackendType(backend), dir)
	if err != nil {
		panic(err)
	}
	var ch *chainsim.Chain
	initKey := ""
	if from < 0 { // genesis + first block
		ch, err = chainsim.New(chainsim.Options{DB: db, NoStdlibCache: true})
		if err != nil {
			panic(err)
		}
		r := ch.InitChain(hist.Genesis(ch))
		if r.Error != nil {
			panic(r.Error)
		}
		initKey = chainsim.InitKey(r)
		ch.RunBlock()
		from = 0
	} else {
		ch, err = chainsim.Reopen(chainsim.Options{DB: db, NoStdlibCache: true})
		if err != nil {
			panic(err)
		}
		ch.SyncAll(append([]string{"erin", "frank"}, hist.Users...)...)
	}
	hist.PlayRange(ch, h, from, to)
	os.WriteFile(out, []byte(initKey+"\x00"+chainsim.TraceKey(ch.Trace)), 0o644)
	ch.Close()
	c.Case("a", true)
	c.Case("b", true)
}

func playInChildren(c *vf.Ctx, seed uint64, stream uint64, nBlocks int, backend string, cuts []int, tag string) (string, string, error) {
	dir := filepath.Join(c.WorkDir, tag)
	os.MkdirAll(dir, 0o755)
	bounds := append([]int{-1}, cuts...)
	bounds = append(bounds, nBlocks)
	initKey, trace := "", ""
	for i := 0; i+1 < len(bounds); i++ {
		from, to := bounds[i], bounds[i+1]
		if i == 0 {
			to = bounds[1]
		}
		out := filepath.Join(dir, fmt.Sprintf("trace-%d", i))
		cmd := exec.Command(os.Args[0], "C01CHILD", "quick")
		f := from
		if i > 0 {
			f = bounds[i]
		}
		cmd.Env = append(os.Environ(), fmt.Sprintf("C01_SEED=%d", seed), fmt.Sprintf("C01_STREAM=%d", stream), fmt.Sprintf("C01_BLOCKS=%d", nBlocks), fmt.Sprintf("C01_FROM=%d", f), fmt.Sprintf("C01_TO=%d", to),
			"C01_BACKEND="+backend, "C01_DIR="+filepath.Join(dir, "db"), "C01_OUT="+out, "VERIF_OUT="+filepath.Join(dir, "childout"), "VERIF_RACE_LOG=")
		if b, err := cmd.CombinedOutput(); err != nil {
			return "", "", fmt.Errorf("child %d (blocks %d..%d) failed: %v\n%s", i, f, to, err, tailStr(string(b), 1500))
		}
		b, err := os.ReadFile(out)
		if err != nil {
			return "", "", err
		}
		parts := strings.SplitN(string(b), "\x00", 2)
		if i == 0 {
			initKey = parts[0]
		}
		trace += parts[1]
	}
	return initKey, trace, nil
}

func tailStr(s string, n int) string {
	if len(s) > n {
		return s[len(s)-n:]
	}
	return s
}

func run(c *vf.Ctx) {
	nHist := c.N(3, 16)
	nBlocks := c.N(8, 30)
	variants := []variant{
		{name: "rerun"},
		{name: "procs1", procs: 1},
		{name: "procs16-restart-all", procs: 16, restart: "all"},
		{name: "restart-rand", restart: "rand"},
		{name: "cold-stdlib", coldStd: true},
		{name: "goleveldb", backend: "goleveldb", restart: "rand"},
		{name: "pebbledb", backend: "pebbledb", restart: "rand"},
		{name: "boltdb", backend: "boltdb"},
		{name: "prune-everything", prune: storetypes.PruneEverythingStrategy, restart: "rand"},
		{name: "prune-nothing", prune: storetypes.PruneNothingStrategy},
	}
	c.Set("variants", func() []string {
		var s []string
		for _, v := range variants {
			s = append(s, v.name)
		}
		return s
	}())
	for hi := 0; hi < nHist; hi++ {
		rng := c.Rng(uint64(100 + hi))
		h := genHist(rng, uint64(c.Seed)*1000+uint64(hi), nBlocks, hi)
		refInit, refTrace, refCh, err := playVariant(c, h, variant{name: "ref", backend: "memdb"}, rng, fmt.Sprintf("h%d-ref", hi))
		if err != nil {
			c.Violation("reference-run-error", map[string]any{"history": h}, "reference run failed: %v", err)
			continue
		}
		ok, fail, labels := 0, 0, map[string]int{}
		for bi, bt := range refCh.Trace[1:] {
			for ti, t := range bt.Txs {
				lab := h.Blocks[bi][ti].Label
				if t.OK {
					ok++
					labels[lab+"/ok"]++
				} else {
					fail++
					labels[lab+"/fail"]++
					c.Count("txs_failed_total", 1)
				}
			}
		}
		refCh.Close()
		// process-level restart variant (one history in quick, all in thorough)
		if hi == 0 || !c.Quick() {
			cuts := []int{nBlocks / 2}
			if !c.Quick() {
				cuts = []int{nBlocks / 3, 2 * nBlocks / 3}
			}
			backend := []string{"pebbledb", "goleveldb"}[hi%2]
			in, tr, err := playInChildren(c, h.Seed, uint64(100+hi), nBlocks, backend, cuts, fmt.Sprintf("h%d-procs", hi))
			c.Case(fmt.Sprintf("%d/process-restarts-%s", h.Seed, backend), true)
			c.Count("process_level_restarts", len(cuts))
			w := map[string]any{"history": h, "variant": "process-restarts", "backend": backend, "cuts": cuts}
			switch {
			case err != nil:
				c.Violation("variant-error:process-restarts", w, "process-restart variant failed to run: %v", err)
			case in != refInit:
				c.Violation("initchain-differs:process-restarts", w, "InitChain tx responses differ when genesis runs in a fresh process with a cold stdlib load: %s", firstDiff(refInit, in))
			case tr != refTrace:
				c.Violation("trace-differs:process-restarts", w, "block trace differs when the history is played by separate processes (cuts %v, %s): %s", cuts, backend, firstDiff(refTrace, tr))
			}
		}
		for k, n := range labels {
			c.Count("tx:"+k, n)
		}
		c.Count("blocks_reference", len(refCh.Trace))
		if hi == 0 {
			c.Sample(map[string]any{"history_seed": h.Seed, "first_blocks": h.Blocks[:min(3, len(h.Blocks))], "ok_txs": ok, "failed_txs": fail})
		}
		nontrivial := ok > 0 && fail > 0
		type res struct {
			v           variant
			init, trace string
			err         error
		}
		results := make([]res, len(variants))
		// run variants sequentially when they set GOMAXPROCS, otherwise in parallel
		runOne := func(i int, r *rand.Rand) {
			v := variants[i]
			t0 := time.Now()
			defer func() { c.Logf("  variant %s took %.1fs", v.name, time.Since(t0).Seconds()) }()
			in, tr, ch, err := playVariant(c, h, v, r, fmt.Sprintf("h%d-%s", hi, v.name))
			if ch != nil {
				c.Count("restarts", ch.Restarts)
				ch.Close()
			}
			results[i] = res{v, in, tr, err}
		}
		// phase A: variants that set GOMAXPROCS run alone; phase B: the rest in parallel
		var par []int
		for i, v := range variants {
			if v.procs > 0 {
				runOne(i, c.Rng(uint64(1000+hi*100+i)))
			} else {
				par = append(par, i)
			}
		}
		c.Parallel(len(par), 8, uint64(2000+hi*100), func(j int, r *rand.Rand) { runOne(par[j], r) })
		for _, r := range results {
			c.Case(fmt.Sprintf("%d/%s", h.Seed, r.v.name), nontrivial)
			w := map[string]any{"history": h, "variant": r.v.name}
			if r.err != nil {
				c.Violation("variant-error:"+r.v.name, w, "variant %s failed to run: %v", r.v.name, r.err)
				continue
			}
			if r.init != refInit {
				c.Violation("initchain-differs:"+r.v.name, w, "InitChain tx responses differ in variant %s: %s", r.v.name, firstDiff(refInit, r.init))
			}
			if r.trace != refTrace {
				c.Violation("trace-differs:"+r.v.name, w, "block trace differs in variant %s: %s", r.v.name, firstDiff(refTrace, r.trace))
			}
		}
		c.Logf("history %d: %d ok / %d failed txs, %d variants compared", hi, ok, fail, len(variants))
	}
	c.Assume("the reference run is the same code: only divergence between runs is detected, not a deterministic wrong result")
	c.Assume("most restart variants are in-process (process-global caches survive); one variant per history plays the blocks in separate child processes on an on-disk backend; cgo backends not included")
	c.Require("succeeded txs", c.Counter("tx:store/ok"), 5)
	c.Require("failed txs", c.Counter("txs_failed_total"), 2)
	c.Require("restarts", c.Counter("restarts"), 5)
	c.RequireCounter("process_level_restarts", 1)
}

// genHist: every third history uses the fan-out profile, every third the failing-tx profile; the fan-out one has (clone realms changed by equal
// amounts inside one message: ties in every per-realm ordering).
func genHist(rng *rand.Rand, seed uint64, nBlocks, hi int) *hist.History {
	return hist.GenP(rng, seed, nBlocks, 6, hist.Profile{FanBoost: hi%3 == 1, FailBoost: hi%3 == 2, OddBoost: hi%3 == 0})
}
