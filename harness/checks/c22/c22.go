// Package c22: cache and prefix store layers behave like their overlay model.
//
// Oracle: the ordered-map overlay model in model.go (stack of maps with
// tombstones, prefix strip/add, checkpoint = copy). Real stacks of
// cache.Store / prefix.Store layers (depth 1-4) are built over three kinds of
// base store (dbadapter over memdb, dbadapter over CollectingDB(memdb), bptree
// store over memdb) plus cachemulti stores over several such bases. Every
// Get/Has and every iterator (ascending/descending, arbitrary bounds) at every
// layer is compared element by element with the model; after Write / Flush /
// WriteCheckpoint the parent is compared with model-parent + net changes.
//
// Usage discipline (what the stores' contracts allow):
//   - a layer is mutated directly only while it is the top of the stack (a
//     cache wrap above a store that is written underneath keeps stale reads by
//     design); mutating a lower layer first discards the layers above it.
//     Write/Flush/Checkpoint are view-preserving and may hit any cache layer.
//   - writes while an iterator is open happen only on a cache store (the Store
//     contract allows exactly that); content is asserted only when the writes
//     fall outside the iterator's domain.
//   - nil keys / nil values are used only to check the documented panics.
//   - a bptree base never receives an empty key (documented ErrEmptyKey).
package c22

import (
	"bytes"
	"fmt"
	"math/rand/v2"
	"runtime"
	"sort"
	"strings"
	"sync"

	dbm "github.com/gnolang/gno/tm2/pkg/db"
	"github.com/gnolang/gno/tm2/pkg/db/memdb"
	"github.com/gnolang/gno/tm2/pkg/store/bptree"
	"github.com/gnolang/gno/tm2/pkg/store/cache"
	"github.com/gnolang/gno/tm2/pkg/store/dbadapter"
	"github.com/gnolang/gno/tm2/pkg/store/prefix"
	"github.com/gnolang/gno/tm2/pkg/store/types"

	"verifharness/internal/vf"
)

func init() {
	vf.Register(&vf.Check{
		ID:    "C22",
		Level: "exploration",
		Rule: "case = one seeded operation sequence (quick 60, thorough 120 ops: set/delete/get/has/iterator asc+desc with nil/empty/equal-to-key/0x00-0xFF-neighbour bounds/" +
			"interleaved-iteration/write/flush/checkpoint/write-checkpoint/push/pop/drain/commit) over a random stack (depth 1-4) of cache and prefix stores on " +
			"dbadapter(memdb), dbadapter(CollectingDB) or a bptree store, or over nested cachemulti stores; keys are built from {00,01,'a','b',FE,FF} and from the " +
			"stack's own prefixes and their neighbours. non-trivial = the sequence compared at least one iterator whose domain contained a tombstone shadowing a " +
			"parent key and performed at least one Write/WriteCheckpoint with non-empty net changes; distinct by the full operation log",
		Run: run,
	})
}

const (
	kBase = iota
	kCache
	kPrefix
)

const (
	bMem = iota
	bCollect
	bBptree
)

var kindNames = []string{"base", "cache", "prefix"}
var baseNames = []string{"memdb", "collecting", "bptree"}

type rlayer struct {
	kind int
	st   types.Store
	m    mlayer
	pfx  []byte
}

type world struct {
	c        *vf.Ctx
	rng      *rand.Rand
	id       string
	tag      string // log prefix (substore name in cachemulti runs)
	baseKind int
	layers   []rlayer
	coll     *dbm.BatchCollector
	realDB   dbm.DB
	bp       types.CommitStore
	universe map[string]struct{} // every full (base-level) key ever used
	log      *[]string
	failed   *bool
	valCtr   int
	cnt      map[string]int
	// emptyVals: whether this sequence generates empty (non-nil) values.
	// (Was restricted on the CollectingDB base while BatchCollector.set turned
	// an empty value into nil; fixed upstream, now always on.)
	emptyVals bool

	sawShadowIter *bool
	sawNetWrite   *bool
}

func (w *world) logf(f string, a ...any) { *w.log = append(*w.log, w.tag+fmt.Sprintf(f, a...)) }

func (w *world) top() int { return len(w.layers) - 1 }

// count accumulates monitor counters locally; flushCounts adds them to the
// shared evidence counters once per sequence (avoids mutex contention).
func (w *world) count(name string, n int) { w.cnt[name] += n }

func (w *world) flushCounts() {
	for k, v := range w.cnt {
		w.c.Count(k, v)
	}
	w.cnt = map[string]int{}
}

func (w *world) ctxName(j int) string {
	return kindNames[w.layers[j].kind] + "/" + baseNames[w.baseKind]
}

func (w *world) describe() string {
	var sb strings.Builder
	sb.WriteString(baseNames[w.baseKind])
	for _, l := range w.layers[1:] {
		if l.kind == kCache {
			sb.WriteString(">cache")
		} else {
			fmt.Fprintf(&sb, ">prefix(%x)", l.pfx)
		}
	}
	return sb.String()
}

// violation keys seen in this run (all of them; vf caps what it prints)
var (
	vkMu   sync.Mutex
	vkSeen = map[string]int{}
)

func (w *world) fail(key string, f string, a ...any) {
	if *w.failed {
		return
	}
	*w.failed = true
	vkMu.Lock()
	vkSeen[key]++
	vkMu.Unlock()
	ops := *w.log
	if len(ops) > 400 {
		ops = ops[len(ops)-400:]
	}
	wit := map[string]any{"case": w.id, "stack": w.describe(), "ops": ops}
	w.c.Violation(key, wit, "%s [%s]: %s", w.id, w.describe(), fmt.Sprintf(f, a...))
}

// pathBelow: concatenated prefixes of layers 1..j (key at layer j -> base key).
func (w *world) pathBelow(j int) []byte {
	var p []byte
	for i := 1; i <= j && i < len(w.layers); i++ {
		if w.layers[i].kind == kPrefix {
			p = append(p, w.layers[i].pfx...)
		}
	}
	return p
}

// pathAbove: concatenated prefixes of layers j+1..top.
func (w *world) pathAbove(j int) []byte {
	var p []byte
	for i := j + 1; i < len(w.layers); i++ {
		if w.layers[i].kind == kPrefix {
			p = append(p, w.layers[i].pfx...)
		}
	}
	return p
}

var tokens = [][]byte{{0x00}, {0x01}, {'a'}, {'b'}, {0xFE}, {0xFF}}

func randTokens(r *rand.Rand, n int) []byte {
	b := []byte{}
	for i := 0; i < n; i++ {
		b = append(b, tokens[r.IntN(len(tokens))]...)
	}
	return b
}

func perturb(r *rand.Rand, p []byte) []byte {
	q := append([]byte{}, p...)
	if len(q) == 0 {
		return randTokens(r, 1)
	}
	switch r.IntN(5) {
	case 0:
		q[len(q)-1]++
	case 1:
		q[len(q)-1]--
	case 2:
		q = q[:len(q)-1]
	case 3: // the lexicographic successor of the prefix range
		for len(q) > 0 && q[len(q)-1] == 0xFF {
			q = q[:len(q)-1]
		}
		if len(q) > 0 {
			q[len(q)-1]++
		}
	case 4:
		q = append(q, 0xFF)
	}
	return q
}

// genKey returns a (non-nil) key relative to layer j.
func (w *world) genKey(j int) []byte {
	r := w.rng
	var k []byte
	switch x := r.IntN(100); {
	case x < 40:
		k = append(append([]byte{}, w.pathAbove(j)...), randTokens(r, r.IntN(3))...)
	case x < 55:
		k = append(perturb(r, w.pathAbove(j)), randTokens(r, r.IntN(2))...)
	default:
		k = randTokens(r, r.IntN(4))
	}
	if w.baseKind == bBptree && len(k) == 0 && len(w.pathBelow(j)) == 0 {
		k = randTokens(r, 1)
	}
	if k == nil {
		k = []byte{}
	}
	return k
}

func (w *world) existingKeys(j int) []string {
	return sortedKeys(w.layers[j].m.all())
}

func (w *world) genBound(j int) []byte {
	r := w.rng
	switch x := r.IntN(100); {
	case x < 20:
		return nil
	case x < 27:
		return []byte{}
	case x < 65:
		ks := w.existingKeys(j)
		if len(ks) == 0 {
			return w.genKey(j)
		}
		k := []byte(ks[r.IntN(len(ks))])
		switch r.IntN(6) {
		case 0, 1:
			return k
		case 2:
			return append(append([]byte{}, k...), 0x00)
		case 3:
			if len(k) > 0 {
				q := append([]byte{}, k...)
				q[len(q)-1]++
				return q
			}
		case 4:
			if len(k) > 0 {
				q := append([]byte{}, k...)
				q[len(q)-1]--
				return append(q, 0xFF)
			}
		case 5:
			if len(k) > 0 {
				return append([]byte{}, k[:len(k)-1]...)
			}
		}
		return k
	default:
		return w.genKey(j)
	}
}

func (w *world) genVal() []byte {
	if w.rng.IntN(10) == 0 && w.emptyVals {
		return []byte{}
	}
	w.valCtr++
	return []byte(fmt.Sprintf("v%d", w.valCtr))
}

func (w *world) noteKey(j int, key []byte) {
	w.universe[string(w.pathBelow(j))+string(key)] = struct{}{}
}

// relUniverse: every key ever used, expressed relative to layer j.
func (w *world) relUniverse(j int) []string {
	pb := string(w.pathBelow(j))
	var out []string
	for u := range w.universe {
		if strings.HasPrefix(u, pb) {
			out = append(out, u[len(pb):])
		}
	}
	sort.Strings(out)
	return out
}

// ---------------------------------------------------------------------------
// comparisons

func (w *world) checkGet(j int, key []byte) {
	if *w.failed {
		return
	}
	st := w.layers[j].st
	want, present := w.layers[j].m.get(string(key))
	var got []byte
	var has bool
	hasFirst := w.rng.IntN(2) == 0
	pv := vf.Try(func() {
		if hasFirst {
			has = st.Has(nil, key)
			got = st.Get(nil, key)
		} else {
			got = st.Get(nil, key)
			has = st.Has(nil, key)
		}
	})
	w.count("cmp_get", 1)
	w.logf("L%d get %x", j, key)
	if pv != nil {
		w.fail("panic:get:"+w.ctxName(j), "Get/Has(%x) at layer %d panicked: %v", key, j, pv)
		return
	}
	ev := ""
	if present && len(want) == 0 {
		ev = ":empty-value"
	}
	if w.baseKind == bCollect && present && len(want) == 0 && got == nil {
		w.fail("get-mismatch:collecting-direct-set-empty-value", "Get(%x) at layer %d = <absent> (Has=%v), model: present with empty value", key, j, has)
		return
	}
	if present != (got != nil) || (present && !bytes.Equal(got, []byte(want))) {
		w.fail("get-mismatch:"+w.ctxName(j)+ev, "Get(%x) at layer %d = %s, model %s", key, j, showVal(got, got != nil), showVal([]byte(want), present))
		return
	}
	if has != present {
		w.fail("has-mismatch:"+w.ctxName(j)+ev, "Has(%x) at layer %d = %v, model %v", key, j, has, present)
	}
}

func showVal(v []byte, present bool) string {
	if !present {
		return "<absent>"
	}
	return fmt.Sprintf("%x", v)
}

func showB(b []byte) string {
	if b == nil {
		return "nil"
	}
	return fmt.Sprintf("%x", b)
}

func dir(asc bool) string {
	if asc {
		return "asc"
	}
	return "desc"
}

// iterStep advances a comparison of `it` against exp starting at index *i for
// at most n elements (n < 0: until exhaustion, then also checks the end).
// Returns false when a violation was reported.
func (w *world) iterSteps(j int, it types.Iterator, exp []kv, i *int, n int, asc bool, dom string) bool {
	for steps := 0; n < 0 || steps < n; steps++ {
		if !it.Valid() {
			if *i < len(exp) {
				w.fail("iter-missing:"+dir(asc)+":"+w.ctxName(j), "iterator %s at layer %d ended after %d elements; model has %d, next %x", dom, j, *i, len(exp), exp[*i].k)
				return false
			}
			return true
		}
		k, v := it.Key(), it.Value()
		if *i >= len(exp) {
			w.fail("iter-extra:"+dir(asc)+":"+w.ctxName(j), "iterator %s at layer %d yields extra element #%d %x=%x; model has %d", dom, j, *i, k, v, len(exp))
			return false
		}
		e := exp[*i]
		if !bytes.Equal(k, []byte(e.k)) {
			w.fail("iter-key:"+dir(asc)+":"+w.ctxName(j), "iterator %s at layer %d element #%d key %x, model %x", dom, j, *i, k, e.k)
			return false
		}
		if v == nil || !bytes.Equal(v, []byte(e.v)) {
			ev := ""
			if len(e.v) == 0 {
				ev = ":empty-value"
			}
			w.fail("iter-value:"+dir(asc)+":"+w.ctxName(j)+ev, "iterator %s at layer %d element #%d key %x value %s, model %x", dom, j, *i, k, showB(v), e.v)
			return false
		}
		w.count("cmp_iter_elements", 1)
		it.Next()
		*i++
	}
	return true
}

func (w *world) openIter(j int, start, end []byte, asc bool) types.Iterator {
	if asc {
		return w.layers[j].st.Iterator(nil, start, end)
	}
	return w.layers[j].st.ReverseIterator(nil, start, end)
}

// checkIter compares one iterator with the model; stopAfter < 0 = exhaust.
func (w *world) checkIter(j int, start, end []byte, asc bool, stopAfter int) {
	if *w.failed {
		return
	}
	exp := expectRange(w.layers[j].m.all(), start, end, asc)
	dom := fmt.Sprintf("%s[%s,%s)", dir(asc), showB(start), showB(end))
	w.logf("L%d iter %s stop=%d", j, dom, stopAfter)
	w.iterStats(j, start, end, len(exp))
	pv := vf.Try(func() {
		it := w.openIter(j, start, end, asc)
		defer it.Close()
		i := 0
		w.iterSteps(j, it, exp, &i, stopAfter, asc, dom)
	})
	if asc {
		w.count("cmp_iter_asc", 1)
	} else {
		w.count("cmp_iter_desc", 1)
	}
	if pv != nil {
		w.fail("panic:iter:"+dir(asc)+":"+w.ctxName(j), "iterator %s at layer %d panicked: %v", dom, j, pv)
	}
}

// iterStats measures what the iterator had to merge (evidence counters).
func (w *world) iterStats(j int, start, end []byte, nexp int) {
	c := w
	if start == nil {
		c.count("bound_start_nil", 1)
	} else if len(start) == 0 {
		c.count("bound_start_empty", 1)
	}
	if end == nil {
		c.count("bound_end_nil", 1)
	} else if len(end) == 0 {
		c.count("bound_end_empty", 1)
	}
	if start != nil && end != nil && bytes.Compare(start, end) >= 0 {
		c.count("bound_start_ge_end", 1)
	}
	if nexp == 0 {
		c.count("iter_empty_result", 1)
	}
	all := w.layers[j].m.all()
	if start != nil {
		if _, ok := all[string(start)]; ok {
			c.count("bound_start_eq_key", 1)
		}
	}
	if end != nil {
		if _, ok := all[string(end)]; ok {
			c.count("bound_end_eq_key", 1)
		}
	}
	mc, ok := w.layers[j].m.(*mcache)
	if !ok {
		return
	}
	pall := mc.parent.all()
	pk := expectRange(pall, start, end, true)
	shadow, edge, dirty := 0, 0, 0
	for k, e := range mc.ov {
		if !inDomain(k, start, end) {
			continue
		}
		if !e.del {
			dirty++
			continue
		}
		if _, ok := pall[k]; ok {
			shadow++
			if len(pk) > 0 && (k == pk[0].k || k == pk[len(pk)-1].k) {
				edge++
			}
		}
	}
	if shadow > 0 {
		c.count("iter_with_shadowing_tombstone", 1)
		*w.sawShadowIter = true
	}
	if edge > 0 {
		c.count("iter_with_tombstone_at_range_edge", 1)
	}
	if dirty > 0 && len(pk) > 0 {
		c.count("iter_merging_dirty_and_parent", 1)
	}
}

// verifyLayer: full content of layer j (asc or desc iterator + point reads of
// every key ever used) equals the model.
func (w *world) verifyLayer(j int) {
	if *w.failed {
		return
	}
	w.checkIter(j, nil, nil, w.rng.IntN(4) != 0, -1)
	for _, k := range w.relUniverse(j) {
		if w.baseKind == bBptree && len(k) == 0 && len(w.pathBelow(j)) == 0 {
			continue
		}
		w.checkGet(j, []byte(k))
	}
	if mc, ok := w.layers[j].m.(*mcache); ok {
		if ck, ok := w.layers[j].st.(types.Checkpointable); ok {
			if got := ck.HasCheckpoint(); got != mc.hasCk {
				w.fail("has-checkpoint:"+w.ctxName(j), "HasCheckpoint at layer %d = %v, model %v", j, got, mc.hasCk)
			}
		} else {
			w.fail("not-checkpointable:"+w.ctxName(j), "cache layer %d is not Checkpointable", j)
		}
	}
	w.count("verify_layer", 1)
}

func (w *world) verifyAll() {
	for j := range w.layers {
		w.verifyLayer(j)
	}
}

// ---------------------------------------------------------------------------
// operations

func (w *world) truncate(j int) {
	if j < w.top() {
		w.logf("discard layers above L%d", j)
		w.layers = w.layers[:j+1]
		w.count("op_discard_layers", 1)
	}
}

func (w *world) doSet(j int, key, val []byte) {
	w.truncate(j)
	w.noteKey(j, key)
	w.logf("L%d set %x=%x", j, key, val)
	pv := vf.Try(func() { w.layers[j].st.Set(nil, key, val) })
	if pv != nil {
		w.fail("panic:set:"+w.ctxName(j), "Set(%x,%x) at layer %d panicked: %v", key, val, j, pv)
		return
	}
	w.layers[j].m.set(string(key), string(val))
	w.count("op_set", 1)
	if len(val) == 0 {
		w.count("op_set_empty_value", 1)
	}
	if len(key) == 0 {
		w.count("op_set_empty_key", 1)
	}
}

func (w *world) doDelete(j int, key []byte) {
	w.truncate(j)
	w.noteKey(j, key)
	w.logf("L%d delete %x", j, key)
	_, existed := w.layers[j].m.get(string(key))
	pv := vf.Try(func() { w.layers[j].st.Delete(nil, key) })
	if pv != nil {
		w.fail("panic:delete:"+w.ctxName(j), "Delete(%x) at layer %d panicked: %v", key, j, pv)
		return
	}
	w.layers[j].m.del(string(key))
	w.count("op_delete", 1)
	if existed {
		w.count("op_delete_existing", 1)
	}
}

// mutLayer picks the layer a direct mutation goes to: mostly the top.
func (w *world) mutLayer() int {
	if w.rng.IntN(100) < 88 {
		return w.top()
	}
	return w.rng.IntN(len(w.layers))
}

func (w *world) cacheLayers() []int {
	var out []int
	for j, l := range w.layers {
		if l.kind == kCache {
			out = append(out, j)
		}
	}
	return out
}

func (w *world) opWrite(j int, flush bool) {
	mc := w.layers[j].m.(*mcache)
	name := "write"
	if flush {
		name = "flush"
	}
	w.logf("L%d %s", j, name)
	pv := vf.Try(func() {
		if flush {
			w.layers[j].st.(types.Flusher).Flush()
		} else {
			w.layers[j].st.Write()
		}
	})
	if pv != nil {
		w.fail("panic:"+name+":"+w.ctxName(j), "%s at layer %d panicked: %v", name, j, pv)
		return
	}
	n := mc.write()
	if flush {
		// Flush writes through every directly stacked cache layer below.
		for p := j - 1; p >= 1 && w.layers[p].kind == kCache; p-- {
			n += w.layers[p].m.(*mcache).write()
		}
	}
	w.count("op_"+name, 1)
	if n > 0 {
		w.count("op_"+name+"_nonempty", 1)
		*w.sawNetWrite = true
	}
	// the parent must now equal model-parent + net changes
	if flush {
		w.verifyAll()
		return
	}
	w.verifyLayer(j - 1)
	w.verifyLayer(j)
}

func (w *world) opCheckpoint(j int) {
	w.logf("L%d checkpoint", j)
	pv := vf.Try(func() { w.layers[j].st.(types.Checkpointable).Checkpoint() })
	if pv != nil {
		w.fail("panic:checkpoint:"+w.ctxName(j), "Checkpoint at layer %d panicked: %v", j, pv)
		return
	}
	w.layers[j].m.(*mcache).checkpoint()
	w.count("op_checkpoint", 1)
}

func (w *world) opWriteCheckpoint(j int) {
	mc := w.layers[j].m.(*mcache)
	if !mc.hasCk {
		w.logf("L%d write-checkpoint (none active: must panic)", j)
		pv := vf.Try(func() { w.layers[j].st.(types.Checkpointable).WriteCheckpoint() })
		w.count("expected_panic_write_checkpoint_without_checkpoint", 1)
		if pv == nil {
			w.fail("nopanic:write-checkpoint-without-checkpoint:"+w.ctxName(j), "WriteCheckpoint without Checkpoint at layer %d did not panic", j)
		}
		return
	}
	w.truncate(j)
	w.logf("L%d write-checkpoint", j)
	post := 0 // overlay entries changed since the checkpoint (to be dropped)
	for k, e := range mc.ov {
		if ce, ok := mc.ck[k]; !ok || ce != e {
			post++
		}
	}
	pv := vf.Try(func() { w.layers[j].st.(types.Checkpointable).WriteCheckpoint() })
	if pv != nil {
		w.fail("panic:write-checkpoint:"+w.ctxName(j), "WriteCheckpoint at layer %d panicked: %v", j, pv)
		return
	}
	n := mc.writeCheckpoint()
	w.count("op_write_checkpoint", 1)
	if post > 0 {
		w.count("op_write_checkpoint_dropping_later_writes", 1)
	}
	if n > 0 {
		w.count("op_write_checkpoint_nonempty", 1)
		*w.sawNetWrite = true
	}
	w.verifyLayer(j - 1)
	w.verifyLayer(j)
}

func (w *world) genPrefix() []byte {
	r := w.rng
	switch x := r.IntN(100); {
	case x < 6:
		return nil
	case x < 10:
		return []byte{}
	case x < 25:
		return bytes.Repeat([]byte{0xFF}, 1+r.IntN(2))
	case x < 40:
		return append(randTokens(r, 1), 0xFF)
	default:
		return randTokens(r, 1+r.IntN(2))
	}
}

func (w *world) push(kind int) {
	p := w.layers[w.top()]
	switch kind {
	case kCache:
		var st types.Store
		if w.rng.IntN(2) == 0 {
			st = p.st.CacheWrap()
		} else {
			st = cache.New(p.st)
		}
		w.layers = append(w.layers, rlayer{kind: kCache, st: st, m: newMCache(p.m)})
		w.logf("push cache -> L%d", w.top())
		w.count("op_push_cache", 1)
	case kPrefix:
		pfx := w.genPrefix()
		w.layers = append(w.layers, rlayer{kind: kPrefix, st: prefix.New(p.st, pfx), m: &mprefix{parent: p.m, pfx: string(pfx)}, pfx: pfx})
		w.logf("push prefix(%s) -> L%d", showB(pfx), w.top())
		w.count("op_push_prefix", 1)
		if len(pfx) > 0 && pfx[len(pfx)-1] == 0xFF {
			w.count("prefix_ending_ff", 1)
		}
		if len(pfx) == 0 {
			w.count("prefix_empty", 1)
		}
	}
	if d := len(w.layers) - 1; d == 4 {
		w.count("stack_depth4_reached", 1)
	}
}

func (w *world) opIter() {
	j := w.rng.IntN(len(w.layers))
	if w.rng.IntN(3) != 0 {
		j = w.top()
	}
	start, end := w.genBound(j), w.genBound(j)
	stop := -1
	if w.rng.IntN(7) == 0 {
		stop = w.rng.IntN(4)
		w.count("iter_closed_early", 1)
	}
	w.checkIter(j, start, end, w.rng.IntN(2) == 0, stop)
}

// opInterleaved: on a top cache layer, write while an iterator is open.
func (w *world) opInterleaved() {
	j := w.top()
	if w.layers[j].kind != kCache {
		return
	}
	r := w.rng
	start, end := w.genBound(j), w.genBound(j)
	asc := r.IntN(2) == 0
	exp := expectRange(w.layers[j].m.all(), start, end, asc)
	dom := fmt.Sprintf("%s[%s,%s)", dir(asc), showB(start), showB(end))
	outsideOnly := r.IntN(3) != 0
	w.logf("L%d interleaved iter %s outsideOnly=%v", j, dom, outsideOnly)
	type wr struct {
		del bool
		k   []byte
		v   []byte
	}
	var writes []wr
	for n := 1 + r.IntN(4); n > 0; n-- {
		k := w.genKey(j)
		if outsideOnly && inDomain(string(k), start, end) {
			continue
		}
		if r.IntN(3) == 0 {
			writes = append(writes, wr{del: true, k: k})
		} else {
			writes = append(writes, wr{k: k, v: w.genVal()})
		}
	}
	touchedDomain := false
	pv := vf.Try(func() {
		it := w.openIter(j, start, end, asc)
		defer it.Close()
		i := 0
		first := 0
		if len(exp) > 0 {
			first = r.IntN(len(exp) + 1)
		}
		if !w.iterSteps(j, it, exp, &i, first, asc, dom) {
			return
		}
		for _, x := range writes {
			if inDomain(string(x.k), start, end) {
				touchedDomain = true
			}
			if x.del {
				w.doDelete(j, x.k)
			} else {
				w.doSet(j, x.k, x.v)
			}
			if *w.failed {
				return
			}
		}
		if !touchedDomain {
			// writes outside the domain: the open iterator must be unaffected
			w.iterSteps(j, it, exp, &i, -1, asc, dom+"+writes-outside-domain")
			w.count("interleaved_iter_writes_outside_domain", 1)
			return
		}
		// writes inside the domain of an open cache-store iterator are
		// allowed ("safe") but their visibility is unspecified: only require
		// that the iterator stays usable and terminates.
		for n := 0; it.Valid(); n++ {
			_, _ = it.Key(), it.Value()
			it.Next()
			if n > 10000 {
				w.fail("iter-nonterminating:"+w.ctxName(j), "iterator %s does not terminate after in-domain writes", dom)
				return
			}
		}
		w.count("interleaved_iter_writes_inside_domain", 1)
	})
	if pv != nil {
		w.fail("panic:interleaved-iter:"+w.ctxName(j), "iterator %s with interleaved writes panicked: %v", dom, pv)
		return
	}
	// an iterator opened after the writes sees them
	w.checkIter(j, start, end, asc, -1)
}

func (w *world) opExpectedPanic() {
	r := w.rng
	j := r.IntN(len(w.layers))
	l := w.layers[j]
	switch r.IntN(3) {
	case 0: // Write on a non-cache store
		if l.kind == kCache {
			return
		}
		w.logf("L%d write on %s (must panic)", j, kindNames[l.kind])
		pv := vf.Try(func() { l.st.Write() })
		w.count("expected_panic_write_on_noncache", 1)
		if pv == nil {
			w.fail("nopanic:write-on-noncache:"+w.ctxName(j), "Write() on %s layer %d did not panic", kindNames[l.kind], j)
		}
	case 1: // nil key
		if l.kind == kBase {
			return
		}
		which := r.IntN(4)
		w.logf("L%d nil-key op %d (must panic)", j, which)
		pv := vf.Try(func() {
			switch which {
			case 0:
				l.st.Get(nil, nil)
			case 1:
				l.st.Has(nil, nil)
			case 2:
				l.st.Set(nil, nil, []byte("x"))
			case 3:
				l.st.Delete(nil, nil)
			}
		})
		w.count("expected_panic_nil_key", 1)
		if pv == nil {
			w.fail("nopanic:nil-key:"+w.ctxName(j), "nil key op %d at layer %d did not panic", which, j)
		}
	case 2: // nil value
		if l.kind == kBase {
			return
		}
		k := w.genKey(j)
		w.logf("L%d set %x=nil (must panic)", j, k)
		pv := vf.Try(func() { l.st.Set(nil, k, nil) })
		w.count("expected_panic_nil_value", 1)
		if pv == nil {
			w.fail("nopanic:nil-value:"+w.ctxName(j), "Set(%x, nil) at layer %d did not panic", k, j)
		}
		w.noteKey(j, k)
	}
}

func (w *world) opBase() {
	switch w.baseKind {
	case bCollect:
		w.logf("drain collector")
		b := w.realDB.NewBatch()
		if err := w.coll.Drain(b); err != nil {
			w.fail("drain-error", "Drain: %v", err)
			return
		}
		if err := b.Write(); err != nil {
			w.fail("drain-error", "batch write: %v", err)
			return
		}
		b.Close()
		w.layers[0].m.(*mcollect).drain()
		w.count("op_drain", 1)
		w.verifyLayer(0)
	case bBptree:
		w.logf("commit bptree")
		pv := vf.Try(func() { w.bp.Commit() })
		if pv != nil {
			w.fail("panic:commit:bptree", "bptree Commit panicked: %v", pv)
			return
		}
		w.count("op_commit_bptree", 1)
		w.verifyLayer(0)
	}
}

func (w *world) step() {
	r := w.rng
	switch x := r.IntN(100); {
	case x < 22:
		j := w.mutLayer()
		w.doSet(j, w.genKey(j), w.genVal())
	case x < 34:
		j := w.mutLayer()
		var k []byte
		if ks := w.existingKeys(j); len(ks) > 0 && r.IntN(10) < 7 {
			k = []byte(ks[r.IntN(len(ks))])
		} else {
			k = w.genKey(j)
		}
		w.doDelete(j, k)
	case x < 42:
		j := r.IntN(len(w.layers))
		var k []byte
		if ks := w.existingKeys(j); len(ks) > 0 && r.IntN(2) == 0 {
			k = []byte(ks[r.IntN(len(ks))])
		} else {
			k = w.genKey(j)
		}
		w.noteKey(j, k)
		w.checkGet(j, k)
	case x < 62:
		w.opIter()
	case x < 68:
		w.opInterleaved()
	case x < 75:
		if cl := w.cacheLayers(); len(cl) > 0 {
			w.opWrite(cl[r.IntN(len(cl))], false)
		}
	case x < 77:
		if cl := w.cacheLayers(); len(cl) > 0 {
			w.opWrite(cl[r.IntN(len(cl))], true)
		}
	case x < 82:
		if cl := w.cacheLayers(); len(cl) > 0 {
			w.opCheckpoint(cl[r.IntN(len(cl))])
		}
	case x < 87:
		if cl := w.cacheLayers(); len(cl) > 0 {
			// prefer layers with an active checkpoint
			j := cl[r.IntN(len(cl))]
			any := false
			for _, c := range cl {
				if w.layers[c].m.(*mcache).hasCk {
					any = true
					if r.IntN(4) != 0 {
						j = c
					}
				}
			}
			if !any && r.IntN(10) < 8 {
				// nothing to restore: take a checkpoint instead (mostly)
				w.opCheckpoint(j)
				return
			}
			w.opWriteCheckpoint(j)
		}
	case x < 92:
		if len(w.layers)-1 < 4 {
			if r.IntN(10) < 6 {
				w.push(kCache)
			} else {
				w.push(kPrefix)
			}
		}
	case x < 94:
		if len(w.layers)-1 > 1 {
			w.truncate(w.top() - 1)
		}
	case x < 97:
		w.opBase()
	case x < 99:
		w.opExpectedPanic()
	default:
		w.verifyAll()
	}
}

func newWorld(c *vf.Ctx, rng *rand.Rand, id string, baseKind int) *world {
	w := &world{c: c, rng: rng, id: id, baseKind: baseKind, universe: map[string]struct{}{}, cnt: map[string]int{},
		log: new([]string), failed: new(bool), sawShadowIter: new(bool), sawNetWrite: new(bool)}
	var base rlayer
	switch baseKind {
	case bMem:
		base = rlayer{kind: kBase, st: dbadapter.Store{DB: memdb.NewMemDB()}, m: &mbase{m: map[string]string{}}}
	case bCollect:
		w.realDB = memdb.NewMemDB()
		w.coll = dbm.NewBatchCollector()
		base = rlayer{kind: kBase, st: dbadapter.Store{DB: dbm.NewCollectingDB(w.realDB, w.coll)},
			m: &mcollect{real: map[string]string{}, pend: map[string]mpend{}}}
	case bBptree:
		w.bp = bptree.StoreConstructor(memdb.NewMemDB(), types.StoreOptions{})
		if err := w.bp.LoadLatestVersion(); err != nil {
			panic(fmt.Sprintf("bptree LoadLatestVersion: %v", err))
		}
		base = rlayer{kind: kBase, st: w.bp, m: &mbase{m: map[string]string{}}}
	}
	w.layers = []rlayer{base}
	return w
}

func runStack(c *vf.Ctx, i int, rng *rand.Rand, nops int) {
	baseKind := i % 3
	w := newWorld(c, rng, fmt.Sprintf("stack/%d", i), baseKind)
	w.emptyVals = true
	c.Count("base_"+baseNames[baseKind], 1)
	// stack first (so base population can aim at the prefixes), then data
	depth := 1 + rng.IntN(4)
	for d := 0; d < depth; d++ {
		if rng.IntN(10) < 6 {
			w.push(kCache)
		} else {
			w.push(kPrefix)
		}
	}
	// populate the base directly (keys inside, next to and outside the prefixes);
	// no layer has read anything yet, so nothing can be stale
	for n := rng.IntN(14); n > 0; n-- {
		k := w.genKey(0)
		v := w.genVal()
		w.noteKey(0, k)
		w.logf("L0 set %x=%x (populate)", k, v)
		w.layers[0].st.Set(nil, k, v)
		w.layers[0].m.set(string(k), string(v))
	}
	if baseKind == bCollect && rng.IntN(10) < 7 {
		w.opBase()
	}
	for n := 0; n < nops && !*w.failed; n++ {
		w.step()
	}
	// final: verify everything, then write every cache layer down and verify the base
	w.verifyAll()
	for j := w.top(); j >= 1 && !*w.failed; j-- {
		if w.layers[j].kind == kCache {
			w.opWrite(j, false)
		}
	}
	if baseKind == bCollect && !*w.failed {
		w.opBase()
	}
	w.verifyAll()
	w.flushCounts()
	c.Case(strings.Join(*w.log, "\n"), *w.sawShadowIter && *w.sawNetWrite)
	if i < 2 {
		ops := *w.log
		if len(ops) > 25 {
			ops = ops[:25]
		}
		c.Sample(map[string]any{"case": w.id, "final_stack": w.describe(), "first_ops": ops})
	}
}

func run(c *vf.Ctx) {
	nseq := c.N(9000, 150000)
	nmulti := c.N(1500, 25000)
	nops := c.N(60, 120)
	workers := runtime.GOMAXPROCS(0)
	c.Set("sequences_stack", nseq)
	c.Set("sequences_cachemulti", nmulti)
	c.Set("ops_per_sequence", nops)
	c.Parallel(nseq, workers, 1000, func(i int, rng *rand.Rand) { runStack(c, i, rng, nops) })
	c.Logf("stack sequences done")
	c.Parallel(nmulti, workers, 5000000, func(i int, rng *rand.Rand) { runMulti(c, i, rng, nops) })
	if len(vkSeen) > 0 {
		c.Set("reported_keys_incl_known", vkSeen)
	}
	c.Assume("the ordered-map overlay model in checks/c22/model.go is the reference")
	c.Assume("a layer is mutated directly only while it is the top of its stack (cache wraps keep stale reads of a parent written underneath by design)")
	c.Assume("CollectingDB iterators read the underlying DB only, point reads see pending ops (documented in collecting.go)")

	for _, n := range []string{"op_set", "op_delete", "op_delete_existing", "op_write_nonempty", "op_flush_nonempty", "op_checkpoint",
		"op_write_checkpoint_nonempty", "op_write_checkpoint_dropping_later_writes", "op_push_cache", "op_push_prefix", "op_discard_layers",
		"op_drain", "op_commit_bptree", "cmp_get", "cmp_iter_asc", "cmp_iter_desc", "stack_depth4_reached",
		"interleaved_iter_writes_outside_domain", "interleaved_iter_writes_inside_domain",
		"expected_panic_write_checkpoint_without_checkpoint", "expected_panic_write_on_noncache", "expected_panic_nil_key", "expected_panic_nil_value",
		"bound_start_nil", "bound_start_empty", "bound_end_nil", "bound_end_empty", "bound_start_eq_key", "bound_end_eq_key", "bound_start_ge_end",
		"prefix_ending_ff", "prefix_empty", "op_set_empty_value", "op_set_empty_key",
		"base_memdb", "base_collecting", "base_bptree",
		"multi_write_nonempty", "multi_write_checkpoint", "multi_cache_wrap"} {
		c.RequireCounter(n, 1)
	}
	c.RequireCounter("iter_with_shadowing_tombstone", int64(c.N(2000, 20000)))
	c.RequireCounter("iter_with_tombstone_at_range_edge", int64(c.N(1000, 10000)))
	c.RequireCounter("iter_merging_dirty_and_parent", int64(c.N(2000, 20000)))
	c.RequireCounter("cmp_iter_elements", int64(c.N(200000, 2000000)))
}
