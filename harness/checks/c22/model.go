package c22

import (
	"bytes"
	"sort"
	"strings"
)

// ---------------------------------------------------------------------------
// Reference model: a stack of ordered-map overlays.
//
// Every model layer answers two questions independently of the code under
// test: what does a point read return (get) and what is the full ordered
// content an iterator would see (all). The two can differ only for the
// CollectingDB base, whose documentation says point reads see pending ops
// while iterators read the underlying DB only.

type mlayer interface {
	get(k string) (string, bool)
	all() map[string]string // fresh map: the layer's iteration view
	set(k, v string)
	del(k string)
}

// mbase: plain ordered map (dbadapter over memdb, bptree store).
type mbase struct{ m map[string]string }

func (b *mbase) get(k string) (string, bool) { v, ok := b.m[k]; return v, ok }
func (b *mbase) all() map[string]string {
	o := make(map[string]string, len(b.m))
	for k, v := range b.m {
		o[k] = v
	}
	return o
}
func (b *mbase) set(k, v string) { b.m[k] = v }
func (b *mbase) del(k string)    { delete(b.m, k) }

// mcollect: dbadapter over CollectingDB(memdb). Writes are pending until
// drained; Get/Has see pending ops (read-your-writes), iterators see only the
// real DB (documented in tm2/pkg/db/collecting.go).
type mpend struct {
	del bool
	v   string
}
type mcollect struct {
	real map[string]string
	pend map[string]mpend // latest pending op per key
	log  []struct {
		k string
		p mpend
	}
}

func (c *mcollect) get(k string) (string, bool) {
	if p, ok := c.pend[k]; ok {
		if p.del {
			return "", false
		}
		return p.v, true
	}
	v, ok := c.real[k]
	return v, ok
}
func (c *mcollect) all() map[string]string {
	o := make(map[string]string, len(c.real))
	for k, v := range c.real {
		o[k] = v
	}
	return o
}
func (c *mcollect) set(k, v string) {
	c.pend[k] = mpend{v: v}
	c.log = append(c.log, struct {
		k string
		p mpend
	}{k, mpend{v: v}})
}
func (c *mcollect) del(k string) {
	c.pend[k] = mpend{del: true}
	c.log = append(c.log, struct {
		k string
		p mpend
	}{k, mpend{del: true}})
}
func (c *mcollect) drain() {
	for _, e := range c.log {
		if e.p.del {
			delete(c.real, e.k)
		} else {
			c.real[e.k] = e.p.v
		}
	}
	c.log = nil
	c.pend = map[string]mpend{}
}

// mcache: overlay of sets and tombstones over a parent; checkpoint = copy.
type ment struct {
	del bool
	v   string
}
type mcache struct {
	parent mlayer
	ov     map[string]ment
	ck     map[string]ment
	hasCk  bool
}

func newMCache(p mlayer) *mcache { return &mcache{parent: p, ov: map[string]ment{}} }

func (c *mcache) get(k string) (string, bool) {
	if e, ok := c.ov[k]; ok {
		if e.del {
			return "", false
		}
		return e.v, true
	}
	return c.parent.get(k)
}
func (c *mcache) all() map[string]string {
	o := c.parent.all()
	for k, e := range c.ov {
		if e.del {
			delete(o, k)
		} else {
			o[k] = e.v
		}
	}
	return o
}
func (c *mcache) set(k, v string) { c.ov[k] = ment{v: v} }
func (c *mcache) del(k string)    { c.ov[k] = ment{del: true} }
func (c *mcache) checkpoint() {
	c.ck = make(map[string]ment, len(c.ov))
	for k, e := range c.ov {
		c.ck[k] = e
	}
	c.hasCk = true
}

// write applies exactly the net changes to the parent and empties the overlay.
func (c *mcache) write() (n int) {
	keys := make([]string, 0, len(c.ov))
	for k := range c.ov {
		keys = append(keys, k)
	}
	sort.Strings(keys)
	for _, k := range keys {
		e := c.ov[k]
		if e.del {
			c.parent.del(k)
		} else {
			c.parent.set(k, e.v)
		}
	}
	n = len(keys)
	c.ov = map[string]ment{}
	c.ck, c.hasCk = nil, false
	return n
}

// writeCheckpoint: the overlay becomes the checkpoint copy, then is written.
func (c *mcache) writeCheckpoint() int {
	c.ov = c.ck
	if c.ov == nil {
		c.ov = map[string]ment{}
	}
	return c.write()
}

// mprefix: view of the parent restricted to a prefix, prefix stripped.
type mprefix struct {
	parent mlayer
	pfx    string
}

func (p *mprefix) get(k string) (string, bool) { return p.parent.get(p.pfx + k) }
func (p *mprefix) all() map[string]string {
	o := map[string]string{}
	for k, v := range p.parent.all() {
		if strings.HasPrefix(k, p.pfx) {
			o[k[len(p.pfx):]] = v
		}
	}
	return o
}
func (p *mprefix) set(k, v string) { p.parent.set(p.pfx+k, v) }
func (p *mprefix) del(k string)    { p.parent.del(p.pfx + k) }

// ---------------------------------------------------------------------------

type kv struct{ k, v string }

// inDomain: start inclusive (nil/empty = from the first key), end exclusive
// (nil = unbounded; empty non-nil = nothing is smaller than the empty key).
func inDomain(k string, start, end []byte) bool {
	if start != nil && bytes.Compare([]byte(k), start) < 0 {
		return false
	}
	if end != nil && bytes.Compare([]byte(k), end) >= 0 {
		return false
	}
	return true
}

func sortedKeys(m map[string]string) []string {
	ks := make([]string, 0, len(m))
	for k := range m {
		ks = append(ks, k)
	}
	sort.Strings(ks)
	return ks
}

// expectRange is what an iterator over [start,end) must yield.
func expectRange(m map[string]string, start, end []byte, asc bool) []kv {
	ks := sortedKeys(m)
	out := make([]kv, 0, len(ks))
	for _, k := range ks {
		if inDomain(k, start, end) {
			out = append(out, kv{k, m[k]})
		}
	}
	if !asc {
		for i, j := 0, len(out)-1; i < j; i, j = i+1, j-1 {
			out[i], out[j] = out[j], out[i]
		}
	}
	return out
}
