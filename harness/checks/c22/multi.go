package c22

import (
	"fmt"
	"math/rand/v2"
	"strings"

	"github.com/gnolang/gno/tm2/pkg/store/cachemulti"
	"github.com/gnolang/gno/tm2/pkg/store/types"

	"verifharness/internal/vf"
)

// multi drives nested cachemulti stores: level L of the multistore holds, for
// every substore key, the cache layer L+1 of that substore's chain. The model
// is simply one overlay chain per substore; MultiWrite / Checkpoint /
// WriteCheckpoint apply to every chain at that level.
type multi struct {
	c      *vf.Ctx
	rng    *rand.Rand
	chains []*world
	keys   []types.StoreKey
	levels []types.MultiStore
}

func (m *multi) failed() bool { return *m.chains[0].failed }

func (m *multi) pushLevel() {
	var ms types.MultiStore
	if len(m.levels) == 0 {
		stores := map[types.StoreKey]types.Store{}
		names := map[string]types.StoreKey{}
		for i, ch := range m.chains {
			stores[m.keys[i]] = ch.layers[0].st
			names[m.keys[i].Name()] = m.keys[i]
		}
		ms = cachemulti.New(stores, names)
	} else {
		ms = m.levels[len(m.levels)-1].MultiCacheWrap()
	}
	m.levels = append(m.levels, ms)
	for i, ch := range m.chains {
		p := ch.layers[ch.top()]
		ch.layers = append(ch.layers, rlayer{kind: kCache, st: ms.GetStore(m.keys[i]), m: newMCache(p.m)})
	}
	m.chains[0].logf("multi-cache-wrap -> level %d", len(m.levels)-1)
	if len(m.levels) > 1 {
		m.c.Count("multi_cache_wrap", 1)
	}
}

func (m *multi) truncate(level int) {
	if level < len(m.levels)-1 {
		m.chains[0].logf("discard levels above %d", level)
		m.levels = m.levels[:level+1]
		for _, ch := range m.chains {
			ch.layers = ch.layers[:level+2]
		}
	}
}

func (m *multi) verifyLevel(level int) {
	for _, ch := range m.chains {
		ch.verifyLayer(level) // the parents of this level
		ch.verifyLayer(level + 1)
	}
	if m.failed() {
		return
	}
	want := m.chains[0].layers[level+1].m.(*mcache).hasCk
	if got := m.levels[level].(types.Checkpointable).HasCheckpoint(); got != want {
		m.chains[0].fail("has-checkpoint:cachemulti", "cachemulti level %d HasCheckpoint = %v, model %v", level, got, want)
	}
}

func (m *multi) step() {
	r := m.rng
	ch := m.chains[r.IntN(len(m.chains))]
	w0 := m.chains[0]
	switch x := r.IntN(100); {
	case x < 26, x < 38:
		j := ch.top()
		if r.IntN(100) >= 88 {
			j = 1 + r.IntN(len(m.levels))
			m.truncate(j - 1)
		}
		if x < 26 {
			ch.doSet(j, ch.genKey(j), ch.genVal())
		} else {
			var k []byte
			if ks := ch.existingKeys(j); len(ks) > 0 && r.IntN(10) < 7 {
				k = []byte(ks[r.IntN(len(ks))])
			} else {
				k = ch.genKey(j)
			}
			ch.doDelete(j, k)
		}
	case x < 46:
		j := r.IntN(len(ch.layers))
		k := ch.genKey(j)
		if ks := ch.existingKeys(j); len(ks) > 0 && r.IntN(2) == 0 {
			k = []byte(ks[r.IntN(len(ks))])
		}
		ch.noteKey(j, k)
		ch.checkGet(j, k)
	case x < 62:
		ch.opIter()
	case x < 66:
		ch.opInterleaved()
	case x < 76: // MultiWrite at any level
		L := r.IntN(len(m.levels))
		w0.logf("level %d multi-write", L)
		pv := vf.Try(func() { m.levels[L].MultiWrite() })
		if pv != nil {
			w0.fail("panic:multi-write:cachemulti", "MultiWrite at level %d panicked: %v", L, pv)
			return
		}
		n := 0
		for _, c := range m.chains {
			n += c.layers[L+1].m.(*mcache).write()
		}
		m.c.Count("multi_write", 1)
		if n > 0 {
			m.c.Count("multi_write_nonempty", 1)
			*w0.sawNetWrite = true
		}
		m.verifyLevel(L)
	case x < 82: // Checkpoint at any level
		L := r.IntN(len(m.levels))
		w0.logf("level %d checkpoint", L)
		pv := vf.Try(func() { m.levels[L].(types.Checkpointable).Checkpoint() })
		if pv != nil {
			w0.fail("panic:checkpoint:cachemulti", "Checkpoint at level %d panicked: %v", L, pv)
			return
		}
		for _, c := range m.chains {
			c.layers[L+1].m.(*mcache).checkpoint()
		}
		m.c.Count("multi_checkpoint", 1)
	case x < 88: // WriteCheckpoint
		L := r.IntN(len(m.levels))
		for l := range m.levels {
			if m.chains[0].layers[l+1].m.(*mcache).hasCk && r.IntN(4) != 0 {
				L = l
			}
		}
		if !m.chains[0].layers[L+1].m.(*mcache).hasCk {
			w0.logf("level %d write-checkpoint (none active: must panic)", L)
			pv := vf.Try(func() { m.levels[L].(types.Checkpointable).WriteCheckpoint() })
			m.c.Count("expected_panic_write_checkpoint_without_checkpoint", 1)
			if pv == nil {
				w0.fail("nopanic:write-checkpoint-without-checkpoint:cachemulti", "cachemulti WriteCheckpoint without Checkpoint at level %d did not panic", L)
			}
			return
		}
		m.truncate(L)
		w0.logf("level %d write-checkpoint", L)
		pv := vf.Try(func() { m.levels[L].(types.Checkpointable).WriteCheckpoint() })
		if pv != nil {
			w0.fail("panic:write-checkpoint:cachemulti", "WriteCheckpoint at level %d panicked: %v", L, pv)
			return
		}
		n := 0
		for _, c := range m.chains {
			n += c.layers[L+1].m.(*mcache).writeCheckpoint()
		}
		m.c.Count("multi_write_checkpoint", 1)
		if n > 0 {
			*w0.sawNetWrite = true
		}
		m.verifyLevel(L)
	case x < 93:
		if len(m.levels) < 3 {
			m.pushLevel()
		}
	case x < 95:
		if len(m.levels) > 1 {
			m.truncate(len(m.levels) - 2)
		}
	case x < 98:
		// base-level drain / commit is view-preserving for point reads
		ch.opBase()
	default:
		for L := range m.levels {
			m.verifyLevel(L)
		}
	}
}

func runMulti(c *vf.Ctx, i int, rng *rand.Rand, nops int) {
	m := &multi{c: c, rng: rng}
	id := fmt.Sprintf("cachemulti/%d", i)
	n := 2 + rng.IntN(2)
	var shared *world
	for s := 0; s < n; s++ {
		w := newWorld(c, rng, id, rng.IntN(3))
		if shared == nil {
			shared = w
		} else {
			w.log, w.failed, w.sawShadowIter, w.sawNetWrite = shared.log, shared.failed, shared.sawShadowIter, shared.sawNetWrite
		}
		w.emptyVals = true
		w.tag = fmt.Sprintf("store%d(%s) ", s, baseNames[w.baseKind])
		m.chains = append(m.chains, w)
		m.keys = append(m.keys, types.NewStoreKey(fmt.Sprintf("store%d", s)))
		for k := rng.IntN(10); k > 0; k-- {
			key, v := w.genKey(0), w.genVal()
			w.noteKey(0, key)
			w.logf("L0 set %x=%x (populate)", key, v)
			w.layers[0].st.Set(nil, key, v)
			w.layers[0].m.set(string(key), string(v))
		}
		if w.baseKind == bCollect && rng.IntN(10) < 7 {
			w.opBase()
		}
	}
	m.pushLevel()
	for k := 0; k < nops && !m.failed(); k++ {
		m.step()
	}
	for L := len(m.levels) - 1; L >= 0 && !m.failed(); L-- {
		m.levels[L].MultiWrite()
		for _, ch := range m.chains {
			ch.layers[L+1].m.(*mcache).write()
		}
		m.verifyLevel(L)
	}
	for _, ch := range m.chains {
		ch.flushCounts()
	}
	c.Count("multi_sequences", 1)
	c.Case(strings.Join(*shared.log, "\n"), *shared.sawShadowIter && *shared.sawNetWrite)
}
