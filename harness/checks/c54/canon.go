package c54

import (
	"bytes"
	"fmt"
	"go/ast"
	"go/constant"
	"go/token"
	"reflect"
	"strconv"
)

// canon renders a go/ast value "ignoring positions and comment placement":
//
//   - token.Pos fields are dropped, except the two whose *validity* is syntax:
//     CallExpr.Ellipsis (f(x...)) and TypeSpec.Assign (alias declaration);
//   - comments (Doc/Comment groups, File.Comments) are dropped;
//   - identifier resolution artefacts (Obj, Scope, Unresolved, Imports),
//     FileStart/FileEnd and GoVersion (derived from a //go:build comment) are
//     dropped;
//   - pure grouping is dropped: ParenExpr is replaced by its operand (the tree
//     shape still carries precedence), GenDecl.Lparen/Rparen are positions;
//   - empty statements are dropped from statement lists and EmptyStmt.Implicit
//     is ignored (";;" and "L: }" print without them) — go/printer omits them;
//   - number literals are compared by value (go/constant), because the
//     formatter normalises 0X1F -> 0x1F, 1E3 -> 1e3, 0O7 -> 0o7, 012i -> 12i.
//
// Everything else (every node kind, operator, name, literal text, order of
// declarations, statements, fields, specs) is part of the rendering.
func canon(node any) string {
	var b bytes.Buffer
	canonVal(&b, reflect.ValueOf(node))
	return b.String()
}

var (
	posType      = reflect.TypeOf(token.NoPos)
	cgType       = reflect.TypeOf((*ast.CommentGroup)(nil))
	cgListType   = reflect.TypeOf([]*ast.CommentGroup(nil))
	objType      = reflect.TypeOf((*ast.Object)(nil))
	scopeType    = reflect.TypeOf((*ast.Scope)(nil))
	parenType    = reflect.TypeOf((*ast.ParenExpr)(nil))
	emptyType    = reflect.TypeOf((*ast.EmptyStmt)(nil))
	basicLitType = reflect.TypeOf((*ast.BasicLit)(nil))
	stmtListType = reflect.TypeOf([]ast.Stmt(nil))
)

func canonVal(b *bytes.Buffer, v reflect.Value) {
	switch v.Kind() {
	case reflect.Invalid:
		b.WriteString("nil")
	case reflect.Interface:
		if v.IsNil() {
			b.WriteString("nil")
			return
		}
		canonVal(b, v.Elem())
	case reflect.Pointer:
		if v.IsNil() {
			b.WriteString("nil")
			return
		}
		switch v.Type() {
		case parenType:
			canonVal(b, reflect.ValueOf(v.Interface().(*ast.ParenExpr).X))
			return
		case emptyType:
			b.WriteString("EmptyStmt")
			return
		case basicLitType:
			bl := v.Interface().(*ast.BasicLit)
			switch bl.Kind {
			case token.INT, token.FLOAT, token.IMAG:
				if c := constant.MakeFromLiteral(bl.Value, bl.Kind, 0); c.Kind() != constant.Unknown {
					fmt.Fprintf(b, "Num(%s:%s)", bl.Kind, c.ExactString())
					return
				}
			}
			fmt.Fprintf(b, "Lit(%s:%s)", bl.Kind, strconv.Quote(bl.Value))
			return
		}
		canonVal(b, v.Elem())
	case reflect.Slice:
		if v.Type() == cgListType {
			return
		}
		b.WriteString("[")
		for i := 0; i < v.Len(); i++ {
			e := v.Index(i)
			if v.Type() == stmtListType {
				if _, ok := e.Interface().(*ast.EmptyStmt); ok {
					continue
				}
			}
			canonVal(b, e)
			b.WriteString(",")
		}
		b.WriteString("]")
	case reflect.Struct:
		t := v.Type()
		b.WriteString(t.Name())
		b.WriteString("{")
		for i := 0; i < t.NumField(); i++ {
			f := t.Field(i)
			if !f.IsExported() {
				continue
			}
			switch f.Type {
			case posType:
				if (t.Name() == "CallExpr" && f.Name == "Ellipsis") || (t.Name() == "TypeSpec" && f.Name == "Assign") {
					fmt.Fprintf(b, "%s=%v;", f.Name, token.Pos(v.Field(i).Int()).IsValid())
				}
				continue
			case cgType, cgListType, objType, scopeType:
				continue
			}
			if t.Name() == "File" {
				switch f.Name {
				case "Unresolved", "Imports", "GoVersion":
					continue
				}
			}
			b.WriteString(f.Name)
			b.WriteString("=")
			canonVal(b, v.Field(i))
			b.WriteString(";")
		}
		b.WriteString("}")
	case reflect.String:
		b.WriteString(strconv.Quote(v.String()))
	case reflect.Bool:
		fmt.Fprintf(b, "%v", v.Bool())
	case reflect.Int, reflect.Int8, reflect.Int16, reflect.Int32, reflect.Int64:
		// token.Token, ast.ChanDir, ast.ObjKind …
		if s, ok := v.Interface().(fmt.Stringer); ok {
			b.WriteString(s.String())
		} else {
			b.WriteString(strconv.FormatInt(v.Int(), 10))
		}
	default:
		fmt.Fprintf(b, "%v", v.Interface())
	}
}

// splitDecls returns the canonical form of the package clause + every
// non-import declaration, and the import specs.
func splitDecls(f *ast.File) (body string, imports []*ast.ImportSpec) {
	var b bytes.Buffer
	b.WriteString("package ")
	b.WriteString(f.Name.Name)
	b.WriteString("\n")
	for _, d := range f.Decls {
		if gd, ok := d.(*ast.GenDecl); ok && gd.Tok == token.IMPORT {
			for _, s := range gd.Specs {
				imports = append(imports, s.(*ast.ImportSpec))
			}
			continue
		}
		canonVal(&b, reflect.ValueOf(d))
		b.WriteString("\n")
	}
	return b.String(), imports
}

// diffAt returns a short description of the first divergence of two strings.
func diffAt(a, b string) string {
	n := min(len(a), len(b))
	i := 0
	for i < n && a[i] == b[i] {
		i++
	}
	lo := max(0, i-120)
	cut := func(s string) string { return s[min(lo, len(s)):min(len(s), i+120)] }
	return fmt.Sprintf("at %d: before …%s… after …%s…", i, cut(a), cut(b))
}
