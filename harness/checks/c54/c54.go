// Package c54: gno fmt is idempotent and preserves program meaning.
//
// Code under test: gnovm/pkg/gnofmt Processor — FormatSource (layout only),
// FormatImportFromSource (single file, imports resolved against a Resolver) and
// FormatFile (file inside its package directory), wired exactly like
// `gno fmt` (cmd/gno/fmt.go): an FSResolver loaded with gnovm/stdlibs and
// examples.
//
// Oracle, for every input x that parses (go/parser, the parser gnofmt uses):
//  1. fmt(x) succeeds and parses.
//  2. canon(x) == canon(fmt(x)) for the package clause and every non-import
//     declaration, where canon drops positions, comments and pure grouping
//     (see canon.go) — computed by this package from fresh parses.
//  3. imports: FormatSource never adds or drops an import (same set of
//     (name, path)). For the resolving entry points, with refs(x) = names used
//     as package qualifier (X of a selector, unresolved in the file) and the
//     binding name of an import = alias or the package name found by an
//     independent index of stdlibs/examples (package clauses + gnomod.toml):
//     every name in refs(x) that x bound by an import is still bound, to one
//     of the same paths (no needed import dropped or redirected); every import
//     present only in fmt(x) binds a name in refs(x) that x left unbound;
//     blank imports are never dropped. Dot imports (rejected by Gno itself)
//     are outside the import oracle.
//  4. fmt(fmt(x)) == fmt(x) byte for byte, and fmt(x) is the same when
//     computed twice (fresh Processor).
package c54

import (
	"bytes"
	"encoding/json"
	"errors"
	"fmt"
	"go/ast"
	"go/parser"
	"go/token"
	"math/rand/v2"
	"os"
	"path/filepath"
	"regexp"
	"sort"
	"strconv"
	"strings"
	"sync"

	"github.com/gnolang/gno/gnovm/pkg/gnofmt"

	"verifharness/internal/vf"
)

func init() {
	vf.Register(&vf.Check{
		ID:    "C54",
		Level: "exploration",
		Rule: "case = (entry point, file text[, package directory]). Inputs: every .gno file of the tree that go/parser accepts (examples, gnovm/stdlibs, gnovm/tests, docs, misc, …) through FormatSource and FormatImportFromSource; every file of every examples/stdlibs package directory through FormatFile in a copy of its directory; " +
			"seeded import-section mutants of those files (15 kinds: needed import removed, unused added, reordered, regrouped over several declarations/groups with odd spacing and comments, aliased consistently / dangling / redundantly, dot added/converted, blank added/converted/next to the plain import, duplicated, all removed, same path twice) and white-space layout perturbations; " +
			"non-trivial = the formatter changed the text, or the file has imports; distinct by (entry, text)",
		Run:    run,
		Replay: replay,
	})
}

type env struct {
	c        *vf.Ctx
	resolver *gnofmt.FSResolver
	names    map[string]string // independent index: import path -> package name
	universe []string          // known import paths (sorted)
}

// ---- independent package-name index

var moduleRe = regexp.MustCompile(`(?m)^\s*module\s*=\s*"([^"]+)"`)

func pkgClauseOf(dir string) string {
	ents, _ := os.ReadDir(dir)
	for _, e := range ents {
		n := e.Name()
		if e.IsDir() || !strings.HasSuffix(n, ".gno") || strings.HasPrefix(n, ".") || strings.HasSuffix(n, "_test.gno") || strings.HasSuffix(n, "_filetest.gno") {
			continue
		}
		f, err := parser.ParseFile(token.NewFileSet(), filepath.Join(dir, n), nil, parser.PackageClauseOnly)
		if err == nil {
			return f.Name.Name
		}
	}
	return ""
}

func buildIndex(root string) map[string]string {
	idx := map[string]string{}
	std := filepath.Join(root, "gnovm", "stdlibs")
	filepath.WalkDir(std, func(p string, d os.DirEntry, err error) error {
		if err == nil && d.IsDir() {
			if n := pkgClauseOf(p); n != "" {
				rel, _ := filepath.Rel(std, p)
				idx[filepath.ToSlash(rel)] = n
			}
		}
		return nil
	})
	filepath.WalkDir(filepath.Join(root, "examples"), func(p string, d os.DirEntry, err error) error {
		if err == nil && !d.IsDir() && d.Name() == "gnomod.toml" {
			b, _ := os.ReadFile(p)
			if m := moduleRe.FindSubmatch(b); m != nil {
				if n := pkgClauseOf(filepath.Dir(p)); n != "" {
					if _, dup := idx[string(m[1])]; !dup {
						idx[string(m[1])] = n
					}
				}
			}
		}
		return nil
	})
	return idx
}

var versionElem = regexp.MustCompile(`^v(0|[1-9][0-9]*)$`)

// lastElem is Gno's default package name for an import path that the index
// does not know: the last path element, skipping a version suffix (the
// language requires `package foo` for gno.land/r/foo/v2).
func lastElem(p string) string {
	parts := strings.Split(p, "/")
	if n := len(parts); n >= 2 && versionElem.MatchString(parts[n-1]) {
		return parts[n-2]
	}
	return parts[len(parts)-1]
}

// bindName is the identifier an import declares in the file scope.
func (e *env) bindName(s impSpec) string {
	if s.name != "" {
		return s.name
	}
	if n, ok := e.names[s.path]; ok {
		return n
	}
	return lastElem(s.path)
}

// qualifierRefs = names used as X in X.Sel where X is not resolved inside the
// file (go/parser object resolution): candidates for package qualifiers.
func qualifierRefs(f *ast.File) map[string]bool {
	refs := map[string]bool{}
	ast.Inspect(f, func(n ast.Node) bool {
		if se, ok := n.(*ast.SelectorExpr); ok {
			if id, ok := se.X.(*ast.Ident); ok && id.Obj == nil {
				refs[id.Name] = true
			}
		}
		return true
	})
	return refs
}

func specsOf(list []*ast.ImportSpec) ([]impSpec, error) {
	var out []impSpec
	for _, is := range list {
		p, err := strconv.Unquote(is.Path.Value)
		if err != nil {
			return nil, err
		}
		s := impSpec{path: p}
		if is.Name != nil {
			s.name = is.Name.Name
		}
		out = append(out, s)
	}
	return out, nil
}

// ---- the oracle

type caseIn struct {
	entry  string // FormatSource | FormatImportFromSource | FormatFile
	name   string // file name handed to the formatter (FormatFile: absolute path inside dir)
	src    []byte
	origin string
	// FormatFile only: top-level names declared by the other files of the directory, per package clause
	pooled map[string]map[string]bool
}

func (e *env) viol(ci *caseIn, key string, w map[string]any, format string, args ...any) {
	kind := ci.origin
	if strings.HasPrefix(kind, "mutant:") {
		kind = kind[:strings.Index(kind[7:], ":")+7]
	} else if i := strings.Index(kind, ":"); i > 0 {
		kind = kind[:i]
	}
	e.c.Count("viol|"+key+"|"+kind, 1)
	e.c.Violation(key, w, format, args...)
}

func (ci *caseIn) witness(extra map[string]any) map[string]any {
	w := map[string]any{"entry": ci.entry, "file": ci.name, "origin": ci.origin, "source": string(ci.src)}
	for k, v := range extra {
		w[k] = v
	}
	return w
}

func (e *env) format(p *gnofmt.Processor, ci *caseIn, src []byte) (out []byte, err error, pv any) {
	pv = vf.Try(func() {
		switch ci.entry {
		case "FormatSource":
			out, err = p.FormatSource(ci.name, src)
		case "FormatImportFromSource":
			out, err = p.FormatImportFromSource(ci.name, src)
		case "FormatFile":
			// the file on disk is the input
			if werr := os.WriteFile(ci.name, src, 0o644); werr != nil {
				panic(werr)
			}
			out, err = p.FormatFile(ci.name)
		}
	})
	return
}

// judge evaluates one case. Returns the formatted text (nil if none).
func (e *env) judge(ci *caseIn) []byte {
	c := e.c
	fsetX := token.NewFileSet()
	fx, perr := parser.ParseFile(fsetX, ci.name, ci.src, parser.ParseComments|parser.AllErrors)
	if perr != nil {
		c.Count("skipped_unparseable", 1)
		return nil
	}
	p := gnofmt.NewProcessor(e.resolver)
	out, err, pv := e.format(p, ci, ci.src)
	bodyX, impX := splitDecls(fx)
	nontrivial := len(impX) > 0 || !bytes.Equal(out, ci.src)
	c.Case(ci.entry+"\x00"+string(ci.src), nontrivial)
	c.Count("cases_"+ci.entry, 1)
	if pv != nil {
		e.viol(ci, "panic:"+ci.entry, ci.witness(map[string]any{"panic": fmt.Sprint(pv)}), "%s panicked on %s: %v", ci.entry, ci.origin, pv)
		return nil
	}
	if err != nil {
		if errors.Is(err, gnofmt.ErrPackageConflict) {
			c.Count("documented_package_conflict", 1)
			return nil
		}
		e.viol(ci, "format-error:"+ci.entry, ci.witness(map[string]any{"error": err.Error()}), "%s failed on a parseable file (%s): %v", ci.entry, ci.origin, err)
		return nil
	}
	if !bytes.Equal(out, ci.src) {
		c.Count("text_changed", 1)
	}
	// 1. output parses
	fo, oerr := parser.ParseFile(token.NewFileSet(), ci.name, out, parser.ParseComments|parser.AllErrors)
	if oerr != nil {
		e.viol(ci, "output-unparseable:"+ci.entry, ci.witness(map[string]any{"output": string(out), "error": oerr.Error()}), "%s produced text that does not parse (%s): %v", ci.entry, ci.origin, oerr)
		return out
	}
	// 2. same tree outside the import declarations
	bodyO, impO := splitDecls(fo)
	if bodyX != bodyO {
		e.viol(ci, "ast-changed:"+ci.entry, ci.witness(map[string]any{"output": string(out), "diff": diffAt(bodyX, bodyO)}), "%s changed the syntax tree of %s: %s", ci.entry, ci.origin, diffAt(bodyX, bodyO))
	}
	// 3. imports
	dropCause, hazard := "", ""
	sx, e1 := specsOf(impX)
	so, e2 := specsOf(impO)
	if e1 != nil || e2 != nil {
		c.Count("skipped_bad_import_path", 1)
	} else {
		dropCause, hazard = e.judgeImports(ci, fx, sx, so, out)
	}
	// 4. idempotence and determinism
	out2, err2, pv2 := e.format(gnofmt.NewProcessor(e.resolver), ci, out)
	switch {
	case pv2 != nil || err2 != nil:
		e.viol(ci, "reformat-failed:"+ci.entry, ci.witness(map[string]any{"output": string(out), "error": fmt.Sprint(pv2, err2)}), "%s failed on its own output (%s): %v %v", ci.entry, ci.origin, pv2, err2)
	case !bytes.Equal(out2, out):
		// signature by cause: the second run re-adds an import the first one wrongly dropped;
		// x/tools/imports sorting/merging import declarations that carry comments; a blank or
		// duplicate import hazard in the input; anything else.
		key := "not-idempotent:" + ci.entry
		nImpDecl, impComment := importSectionComments(fsetX, fx)
		switch {
		case dropCause != "":
			key = "not-idempotent:reimport-after-drop:" + dropCause
		case nImpDecl >= 2 && impComment:
			key = "not-idempotent:import-decls-merged-with-comments"
		case impComment:
			key = "not-idempotent:comments-in-import-block"
		case hazard != "":
			key = "not-idempotent:" + hazard
		}
		e.viol(ci, key, ci.witness(map[string]any{"once": string(out), "twice": string(out2)}), "%s is not idempotent on %s: %s", ci.entry, ci.origin, diffAt(string(out), string(out2)))
	default:
		c.Count("idempotence_confirmed", 1)
	}
	if ci.entry == "FormatFile" {
		os.WriteFile(ci.name, ci.src, 0o644) // restore the input for the determinism run
	}
	out3, err3, pv3 := e.format(gnofmt.NewProcessor(e.resolver), ci, ci.src)
	if pv3 != nil || err3 != nil || !bytes.Equal(out3, out) {
		e.viol(ci, "nondeterministic-output:"+ci.entry, ci.witness(map[string]any{"first": string(out), "second": string(out3), "error": fmt.Sprint(pv3, err3)}), "%s gave two different results for the same input (%s)", ci.entry, ci.origin)
	}
	return out
}

func specSet(l []impSpec) map[impSpec]int {
	m := map[impSpec]int{}
	for _, s := range l {
		m[s]++
	}
	return m
}

// importSectionComments reports how many import declarations the file has and
// whether a comment sits inside (or trails) its import section.
func importSectionComments(fset *token.FileSet, f *ast.File) (ndecl int, hasComment bool) {
	var first, last *ast.GenDecl
	for _, d := range f.Decls {
		if gd, ok := d.(*ast.GenDecl); ok && gd.Tok == token.IMPORT {
			if first == nil {
				first = gd
			}
			last = gd
			ndecl++
		}
	}
	if ndecl == 0 {
		return 0, false
	}
	endLine := fset.Position(last.End()).Line
	for _, cg := range f.Comments {
		if cg.Pos() > first.Pos() && fset.Position(cg.Pos()).Line <= endLine {
			return ndecl, true
		}
	}
	return ndecl, false
}

// judgeImports applies the import oracle; it returns the cause class of a
// dropped needed import ("" if none was dropped).
func (e *env) judgeImports(ci *caseIn, fx *ast.File, sx, so []impSpec, out []byte) (dropCause, hazard string) {
	c := e.c
	mx, mo := specSet(sx), specSet(so)
	w := func(extra map[string]any) map[string]any {
		extra["output"] = string(out)
		extra["imports_before"] = fmt.Sprint(sx)
		extra["imports_after"] = fmt.Sprint(so)
		return ci.witness(extra)
	}
	if ci.entry == "FormatSource" {
		for s := range mx {
			if mo[s] == 0 {
				e.viol(ci, "import-dropped:FormatSource", w(map[string]any{"import": fmt.Sprint(s)}), "FormatSource dropped import %v from %s (documented: never prunes)", s, ci.origin)
			}
		}
		for s := range mo {
			if mx[s] == 0 {
				e.viol(ci, "import-added:FormatSource", w(map[string]any{"import": fmt.Sprint(s)}), "FormatSource added import %v to %s (documented: never adds)", s, ci.origin)
			}
		}
		for s, n := range mx {
			if mo[s] != 0 && mo[s] < n {
				c.Count("duplicate_import_merged", 1)
			}
		}
		return "", ""
	}
	refs := qualifierRefs(fx)
	pooledSame := ci.pooled[fx.Name.Name]
	// bindings before / after
	boundX, boundO := map[string]map[string]bool{}, map[string]map[string]bool{}
	add := func(m map[string]map[string]bool, s impSpec) {
		if s.name == "_" || s.name == "." {
			return
		}
		n := e.bindName(s)
		if m[n] == nil {
			m[n] = map[string]bool{}
		}
		m[n][s.path] = true
	}
	for _, s := range sx {
		add(boundX, s)
	}
	for _, s := range so {
		add(boundO, s)
	}
	// hazards present in x (used to give idempotence failures a cause signature)
	{
		nb := map[string]int{}
		for _, s := range sx {
			if s.name != "_" && s.name != "." {
				nb[e.bindName(s)]++
			}
		}
		for _, s := range sx {
			if n := e.bindName(impSpec{path: s.path}); s.name == "_" && refs[n] && nb[n] > 0 {
				hazard = "blank-import-same-name"
			}
		}
		if hazard == "" {
			for n, k := range nb {
				if k >= 2 && refs[n] {
					hazard = "duplicate-import"
				}
			}
		}
	}
	// needed imports survive
	for n := range refs {
		if boundX[n] == nil || pooledSame[n] {
			continue
		}
		c.Count("needed_import_bindings_checked", 1)
		if boundO[n] == nil {
			// signature by cause
			key, cause := "needed-import-dropped:"+ci.entry, "other"
			nBind, blankSame := 0, false
			for _, s := range sx {
				switch {
				case s.name == "_":
					if e.bindName(impSpec{path: s.path}) == n {
						blankSame = true
					}
				case s.name != "." && e.bindName(s) == n:
					nBind++
				}
			}
			switch {
			case blankSame:
				key, cause = "needed-import-dropped:blank-import-same-name", "blank-import-same-name"
			case nBind >= 2:
				key, cause = "needed-import-dropped:duplicate-import", "duplicate-import"
			case ci.entry == "FormatFile":
				for pkg, names := range ci.pooled {
					if pkg != fx.Name.Name && names[n] {
						key, cause = "needed-import-dropped:pooled-unrelated-file", "pooled-unrelated-file"
					}
				}
			}
			dropCause = cause
			e.viol(ci, key, w(map[string]any{"name": n, "paths": fmt.Sprint(boundX[n])}), "%s removed the import that binds %q although %s still uses %s.…", ci.entry, n, ci.origin, n)
			continue
		}
		same := false
		for p := range boundO[n] {
			if boundX[n][p] {
				same = true
			}
		}
		if !same {
			e.viol(ci, "import-redirected:"+ci.entry, w(map[string]any{"name": n, "before": fmt.Sprint(boundX[n]), "after": fmt.Sprint(boundO[n])}), "%s rebound qualifier %q from %v to %v in %s", ci.entry, n, boundX[n], boundO[n], ci.origin)
		}
	}
	// added imports are referenced and were unbound
	for s := range mo {
		if mx[s] > 0 || s.name == "." {
			continue
		}
		c.Count("imports_added", 1)
		n := e.bindName(s)
		if s.name == "_" || !refs[n] {
			e.viol(ci, "unreferenced-import-added:"+ci.entry, w(map[string]any{"import": fmt.Sprint(s), "binds": n}), "%s added import %v to %s but nothing references %q", ci.entry, s, ci.origin, n)
		} else if boundX[n] != nil {
			e.viol(ci, "import-added-for-bound-name:"+ci.entry, w(map[string]any{"import": fmt.Sprint(s), "binds": n}), "%s added import %v to %s although %q was already bound by %v", ci.entry, s, ci.origin, n, boundX[n])
		}
	}
	// removed imports: blank never; others were unreferenced (or still bound: duplicates)
	for s := range mx {
		if mo[s] > 0 {
			continue
		}
		switch s.name {
		case ".":
			c.Count("dot_import_removed", 1)
			continue
		case "_":
			e.viol(ci, "blank-import-dropped:"+ci.entry, w(map[string]any{"import": fmt.Sprint(s)}), "%s dropped blank import %v from %s", ci.entry, s, ci.origin)
			continue
		}
		c.Count("imports_removed", 1)
	}
	return dropCause, hazard
}

// ---- workload

type gfile struct {
	rel string
	src []byte
}

func loadGno(root string) []gfile {
	var out []gfile
	filepath.WalkDir(root, func(p string, d os.DirEntry, err error) error {
		if err != nil {
			return nil
		}
		if d.IsDir() {
			if n := d.Name(); n == ".git" || n == "node_modules" {
				return filepath.SkipDir
			}
			return nil
		}
		if filepath.Ext(p) != ".gno" {
			return nil
		}
		b, err := os.ReadFile(p)
		if err != nil {
			return nil
		}
		rel, _ := filepath.Rel(root, p)
		out = append(out, gfile{rel, b})
		return nil
	})
	sort.Slice(out, func(i, j int) bool { return out[i].rel < out[j].rel })
	return out
}

// topLevelNames returns, per package clause, the names declared at top level by src.
func topLevelNames(name string, src []byte, into map[string]map[string]bool) {
	f, err := parser.ParseFile(token.NewFileSet(), name, src, parser.SkipObjectResolution)
	if err != nil {
		return
	}
	m := into[f.Name.Name]
	if m == nil {
		m = map[string]bool{}
		into[f.Name.Name] = m
	}
	for _, d := range f.Decls {
		switch d := d.(type) {
		case *ast.GenDecl:
			for _, s := range d.Specs {
				switch s := s.(type) {
				case *ast.TypeSpec:
					m[s.Name.Name] = true
				case *ast.ValueSpec:
					for _, n := range s.Names {
						m[n.Name] = true
					}
				}
			}
		case *ast.FuncDecl:
			if d.Recv == nil {
				m[d.Name.Name] = true
			}
		}
	}
}

// stageDir copies the .gno files and gnomod.toml of a package directory into a
// fresh scratch directory and returns it with the pooled top-level names of
// the files other than `except`.
func stageDir(srcDir, dst string, except string) (map[string]map[string]bool, error) {
	if err := os.MkdirAll(dst, 0o755); err != nil {
		return nil, err
	}
	ents, err := os.ReadDir(srcDir)
	if err != nil {
		return nil, err
	}
	pooled := map[string]map[string]bool{}
	for _, e := range ents {
		n := e.Name()
		if e.IsDir() || !(strings.HasSuffix(n, ".gno") || n == "gnomod.toml") {
			continue
		}
		b, err := os.ReadFile(filepath.Join(srcDir, n))
		if err != nil {
			return nil, err
		}
		if err := os.WriteFile(filepath.Join(dst, n), b, 0o644); err != nil {
			return nil, err
		}
		if n != except && strings.HasSuffix(n, ".gno") {
			topLevelNames(n, b, pooled)
		}
	}
	return pooled, nil
}

var dirSeq struct {
	sync.Mutex
	n int
}

func run(c *vf.Ctx) {
	root := vf.RepoRoot()
	e := &env{c: c, resolver: gnofmt.NewFSResolver(), names: buildIndex(root)}
	nilHandler := func(path string, err error) error { return nil }
	// exactly what cmd/gno/fmt.go does
	if err := e.resolver.LoadPackages(filepath.Join(root, "gnovm", "stdlibs"), nilHandler); err != nil {
		panic(err)
	}
	if err := e.resolver.LoadPackages(filepath.Join(root, "examples"), nilHandler); err != nil {
		panic(err)
	}
	for p := range e.names {
		e.universe = append(e.universe, p)
	}
	sort.Strings(e.universe)
	c.Set("indexed_packages", len(e.universe))
	// the independent index and the resolver under test must agree on names (else the import oracle is moot)
	for _, p := range e.universe {
		if pk := e.resolver.ResolvePath(p); pk != nil && pk.Name() != "" && pk.Name() != e.names[p] {
			c.Violation("resolver-package-name", map[string]any{"path": p, "resolver": pk.Name(), "package_clause": e.names[p]}, "resolver reports package name %q for %s, its files say %q", pk.Name(), p, e.names[p])
		}
	}
	files := loadGno(root)
	c.Set("gno_files", len(files))
	const W = 16

	// Phase A: every .gno file, layout-only and import-resolving single-file entry points
	c.Logf("phase A: %d files x 2 entry points", len(files))
	var parseable []int
	var pmu sync.Mutex
	c.Parallel(len(files), W, 1<<32, func(i int, r *rand.Rand) {
		f := files[i]
		if _, err := parser.ParseFile(token.NewFileSet(), f.rel, f.src, parser.ParseComments|parser.AllErrors); err != nil {
			c.Count("tree_files_unparseable", 1)
			return
		}
		pmu.Lock()
		parseable = append(parseable, i)
		pmu.Unlock()
		for _, entry := range []string{"FormatSource", "FormatImportFromSource"} {
			e.judge(&caseIn{entry: entry, name: filepath.Base(f.rel), src: f.src, origin: "tree:" + f.rel})
		}
		if i < 3 {
			c.Sample(map[string]any{"entry": "FormatSource+FormatImportFromSource", "input": "tree:" + f.rel})
		}
	})
	sort.Ints(parseable)
	c.Count("tree_files_parseable", len(parseable))

	// Phase B: FormatFile on every file of every examples / stdlibs package directory (staged copy)
	var pkgFiles []gfile
	for _, i := range parseable {
		if strings.HasPrefix(files[i].rel, "examples/") || strings.HasPrefix(files[i].rel, "gnovm/stdlibs/") {
			pkgFiles = append(pkgFiles, files[i])
		}
	}
	nB := len(pkgFiles)
	if c.Quick() {
		nB = min(nB, 700)
	}
	c.Logf("phase B: FormatFile on %d package files", nB)
	permB := c.Rng(2).Perm(len(pkgFiles))
	c.Parallel(nB, W, 2<<32, func(i int, r *rand.Rand) {
		f := pkgFiles[permB[i]]
		e.formatFileCase(f, f.src, "tree:"+f.rel)
	})

	// Phase C: import-section mutants and layout perturbations
	nmut := c.N(2600, 120000)
	c.Logf("phase C: %d mutants", nmut)
	c.Parallel(nmut, W, 3<<32, func(i int, r *rand.Rand) {
		f := files[parseable[r.IntN(len(parseable))]]
		src := f.src
		kind := "layout"
		if r.IntN(5) > 0 {
			m, ok := mutateImports(r, filepath.Base(f.rel), src, e.universe, e.bindName)
			if !ok {
				c.Count("mutant_not_applicable", 1)
				return
			}
			src, kind = m.src, m.kind
			if r.IntN(4) == 0 {
				src = perturbLayout(r, src)
				kind += "+layout"
			}
		} else {
			src = perturbLayout(r, src)
		}
		if _, err := parser.ParseFile(token.NewFileSet(), f.rel, src, parser.ParseComments|parser.AllErrors); err != nil {
			c.Count("mutant_unparseable_discarded", 1)
			return
		}
		c.Count("mut_"+strings.TrimSuffix(kind, "+layout"), 1)
		origin := "mutant:" + kind + ":" + f.rel
		inPkg := strings.HasPrefix(f.rel, "examples/") || strings.HasPrefix(f.rel, "gnovm/stdlibs/")
		switch {
		case inPkg && i%4 == 0:
			e.formatFileCase(f, src, origin)
		case i%4 == 1:
			e.judge(&caseIn{entry: "FormatSource", name: filepath.Base(f.rel), src: src, origin: origin})
		default:
			e.judge(&caseIn{entry: "FormatImportFromSource", name: filepath.Base(f.rel), src: src, origin: origin})
		}
		if i < 2 {
			c.Sample(map[string]any{"input": origin, "text_head": string(src[:min(len(src), 300)])})
		}
	})

	c.Assume("go/parser (toolchain) decides which files are in the property's domain and is used by the oracle to re-parse; it is also the parser gnofmt itself uses")
	c.Assume("package names for the import oracle come from an index built by this check from package clauses and gnomod.toml; dot imports (rejected by Gno) are outside the import oracle")
	c.Assume("FormatFile is exercised on staged copies of the package directories (.gno files + gnomod.toml), one fresh Processor per call, sharing one FSResolver loaded like cmd/gno/fmt.go")

	c.RequireCounter("tree_files_parseable", 4000)
	c.RequireCounter("cases_FormatSource", int64(c.N(4500, 20000)))
	c.RequireCounter("cases_FormatImportFromSource", int64(c.N(5000, 50000)))
	c.RequireCounter("cases_FormatFile", int64(c.N(700, 8000)))
	c.RequireCounter("idempotence_confirmed", int64(c.N(10000, 90000)))
	c.RequireCounter("text_changed", 1000)
	c.RequireCounter("imports_added", 100)
	c.RequireCounter("imports_removed", 100)
	c.RequireCounter("needed_import_bindings_checked", 10000)
	for _, k := range []string{"remove-needed", "add-unused", "reorder", "regroup", "alias-consistent", "alias-dangling", "alias-same", "dot-add", "dot-convert", "blank-add", "blank-convert", "blank-plus-plain", "duplicate", "remove-all", "add-needed-twice-paths", "decl-named-like-import", "layout"} {
		c.RequireCounter("mut_"+k, 15)
	}
}

// formatFileCase stages the package directory of f, replaces f by src and
// judges FormatFile on it.
func (e *env) formatFileCase(f gfile, src []byte, origin string) {
	dirSeq.Lock()
	dirSeq.n++
	n := dirSeq.n
	dirSeq.Unlock()
	base := filepath.Base(f.rel)
	dst := filepath.Join(e.c.WorkDir, "pkg", strconv.Itoa(n), filepath.Base(filepath.Dir(f.rel)))
	pooled, err := stageDir(filepath.Join(vf.RepoRoot(), filepath.Dir(f.rel)), dst, base)
	if err != nil {
		panic(err)
	}
	defer os.RemoveAll(filepath.Dir(dst))
	e.judge(&caseIn{entry: "FormatFile", name: filepath.Join(dst, base), src: src, origin: origin, pooled: pooled})
}

func replay(c *vf.Ctx, w json.RawMessage) {
	var rec struct {
		Entry  string `json:"entry"`
		File   string `json:"file"`
		Origin string `json:"origin"`
		Source string `json:"source"`
	}
	if err := json.Unmarshal(w, &rec); err != nil {
		panic(err)
	}
	root := vf.RepoRoot()
	e := &env{c: c, resolver: gnofmt.NewFSResolver(), names: buildIndex(root)}
	nilHandler := func(path string, err error) error { return nil }
	e.resolver.LoadPackages(filepath.Join(root, "gnovm", "stdlibs"), nilHandler)
	e.resolver.LoadPackages(filepath.Join(root, "examples"), nilHandler)
	if rec.Entry == "FormatFile" {
		// origin = "...:<rel path>"
		rel := rec.Origin[strings.LastIndex(rec.Origin, ":")+1:]
		e.formatFileCase(gfile{rel: rel}, []byte(rec.Source), "replay:"+rec.Origin)
		return
	}
	e.judge(&caseIn{entry: rec.Entry, name: rec.File, src: []byte(rec.Source), origin: "replay:" + rec.Origin})
}
