package c54

import (
	"bytes"
	"fmt"
	"go/ast"
	"go/parser"
	"go/scanner"
	"go/token"
	"math/rand/v2"
	"sort"
	"strconv"
	"strings"
)

// impSpec is one import of a (mutated) import section.
type impSpec struct {
	name string // "", alias, "_" or "."
	path string
}

// importSection locates the import declarations of a parsed file: byte range
// [beg,end) covering all of them (they are contiguous at the top of a file;
// comments in between are dropped by a rewrite) and the specs.
func importSection(fset *token.FileSet, f *ast.File, src []byte) (beg, end int, specs []impSpec, ok bool) {
	tf := fset.File(f.Pos())
	first := true
	for _, d := range f.Decls {
		gd, isGen := d.(*ast.GenDecl)
		if !isGen || gd.Tok != token.IMPORT {
			break
		}
		if first {
			beg = tf.Offset(gd.Pos())
			first = false
		}
		end = tf.Offset(gd.End())
		for _, s := range gd.Specs {
			is := s.(*ast.ImportSpec)
			p, err := strconv.Unquote(is.Path.Value)
			if err != nil {
				return 0, 0, nil, false
			}
			sp := impSpec{path: p}
			if is.Name != nil {
				sp.name = is.Name.Name
			}
			specs = append(specs, sp)
		}
	}
	if first {
		// no imports: insertion point right after the package clause
		beg = tf.Offset(f.Name.End())
		end = beg
	}
	return beg, end, specs, true
}

// renderImports prints an import section with a seeded layout: one block or
// several declarations, random blank lines (groups), odd spacing, optional
// comments. Always parseable.
func renderImports(r *rand.Rand, specs []impSpec, hadNone bool) string {
	if len(specs) == 0 {
		if r.IntN(4) == 0 {
			return "\n\nimport ()\n"
		}
		return ""
	}
	var b strings.Builder
	if hadNone {
		b.WriteString("\n\n")
	}
	one := func(s impSpec) string {
		q := strconv.Quote(s.path)
		if r.IntN(6) == 0 {
			q = "`" + s.path + "`"
			if strings.ContainsAny(s.path, "`\n") {
				q = strconv.Quote(s.path)
			}
		}
		if s.name != "" {
			sep := " "
			if r.IntN(5) == 0 {
				sep = "   "
			}
			return s.name + sep + q
		}
		return q
	}
	switch r.IntN(5) {
	case 0: // one declaration per import
		for i, s := range specs {
			if i > 0 {
				b.WriteString("\n")
				if r.IntN(3) == 0 {
					b.WriteString("\n")
				}
			}
			b.WriteString("import " + one(s))
			if r.IntN(6) == 0 {
				b.WriteString(" // c" + strconv.Itoa(i))
			}
		}
	case 1: // two blocks
		k := r.IntN(len(specs) + 1)
		for bi, part := range [][]impSpec{specs[:k], specs[k:]} {
			if len(part) == 0 {
				continue
			}
			if bi > 0 && b.Len() > 2 {
				b.WriteString("\n\n")
			}
			b.WriteString("import (\n")
			for _, s := range part {
				b.WriteString("\t" + one(s) + "\n")
			}
			b.WriteString(")")
		}
	default: // one block with seeded grouping and spacing
		b.WriteString("import (")
		if r.IntN(8) != 0 {
			b.WriteString("\n")
		}
		for i, s := range specs {
			switch r.IntN(6) {
			case 0:
				b.WriteString("\n")
			case 1:
				b.WriteString("  ")
			default:
				b.WriteString("\t")
			}
			if r.IntN(10) == 0 {
				b.WriteString("// lead " + strconv.Itoa(i) + "\n\t")
			}
			b.WriteString(one(s))
			switch r.IntN(8) {
			case 0:
				b.WriteString(" // trail " + strconv.Itoa(i))
			case 1:
				b.WriteString(" /* t */")
			case 2:
				b.WriteString(";")
			}
			b.WriteString("\n")
		}
		b.WriteString(")")
	}
	return b.String()
}

// renameQualifier rewrites every package-qualifier use of `from` (identifier
// that is the X of a selector and unresolved in the file) to `to`, textually.
func renameQualifier(fset *token.FileSet, f *ast.File, src []byte, from, to string) []byte {
	tf := fset.File(f.Pos())
	var offs []int
	ast.Inspect(f, func(n ast.Node) bool {
		if se, ok := n.(*ast.SelectorExpr); ok {
			if id, ok := se.X.(*ast.Ident); ok && id.Obj == nil && id.Name == from {
				offs = append(offs, tf.Offset(id.Pos()))
			}
		}
		return true
	})
	sort.Sort(sort.Reverse(sort.IntSlice(offs)))
	out := append([]byte(nil), src...)
	for _, o := range offs {
		out = append(out[:o], append([]byte(to), out[o+len(from):]...)...)
	}
	return out
}

type mutResult struct {
	src  []byte
	kind string
}

// mutateImports builds one import-section mutant of a parseable file.
// universe = import paths known to the resolver (for added imports).
func mutateImports(r *rand.Rand, name string, src []byte, universe []string, bindName func(impSpec) string) (mutResult, bool) {
	fset := token.NewFileSet()
	f, err := parser.ParseFile(fset, name, src, parser.ParseComments)
	if err != nil {
		return mutResult{}, false
	}
	beg, end, specs, ok := importSection(fset, f, src)
	if !ok {
		return mutResult{}, false
	}
	refs := qualifierRefs(f)
	hadNone := beg == end
	var needed, unneeded []int
	for i, s := range specs {
		if s.name != "_" && s.name != "." && refs[bindName(s)] {
			needed = append(needed, i)
		} else {
			unneeded = append(unneeded, i)
		}
	}
	// declarations that reuse the name of a needed import without shadowing it at package level
	// (a method, a struct field, a local variable / label / parameter inside a new function):
	// the import section is left alone and must survive
	if r.IntN(8) == 0 {
		if len(needed) == 0 {
			return mutResult{}, false
		}
		n := bindName(specs[needed[r.IntN(len(needed))]])
		uniq := fmt.Sprintf("verifT%d", r.IntN(1_000_000))
		var decl string
		switch r.IntN(5) {
		case 0:
			decl = fmt.Sprintf("\n\ntype %s struct{}\n\nfunc (%s) %s() {}\n", uniq, uniq, n)
		case 1:
			decl = fmt.Sprintf("\n\ntype %s struct{ %s int }\n", uniq, n)
		case 2:
			decl = fmt.Sprintf("\n\nfunc f%s() int {\n\t%s := 1\n\treturn %s\n}\n", uniq, n, n)
		case 3:
			decl = fmt.Sprintf("\n\nfunc f%s(%s int) int { return %s }\n", uniq, n, n)
		default:
			decl = fmt.Sprintf("\n\ntype %s interface{ %s() }\n", uniq, n)
		}
		pos := len(src)
		if r.IntN(2) == 0 { // before the first use: right after the import section
			pos = end
		}
		res := append(append(append([]byte(nil), src[:pos]...), decl...), src[pos:]...)
		if _, err := parser.ParseFile(token.NewFileSet(), name, res, parser.ParseComments|parser.AllErrors); err != nil {
			return mutResult{}, false
		}
		return mutResult{res, "decl-named-like-import"}, true
	}
	body := src
	kinds := []string{"remove-needed", "add-unused", "reorder", "regroup", "alias-consistent", "alias-dangling", "alias-same", "dot-add", "dot-convert", "blank-add", "blank-convert", "blank-plus-plain", "duplicate", "remove-all", "add-needed-twice-paths"}
	kind := kinds[r.IntN(len(kinds))]
	out := append([]impSpec(nil), specs...)
	switch kind {
	case "remove-needed":
		if len(needed) == 0 {
			return mutResult{}, false
		}
		k := needed[r.IntN(len(needed))]
		out = append(out[:k], out[k+1:]...)
	case "add-unused":
		for n := 1 + r.IntN(3); n > 0; n-- {
			out = append(out, impSpec{path: universe[r.IntN(len(universe))]})
		}
		r.Shuffle(len(out), func(i, j int) { out[i], out[j] = out[j], out[i] })
	case "reorder":
		if len(out) < 2 {
			return mutResult{}, false
		}
		r.Shuffle(len(out), func(i, j int) { out[i], out[j] = out[j], out[i] })
	case "regroup":
		if len(out) == 0 {
			return mutResult{}, false
		}
	case "alias-consistent":
		if len(needed) == 0 {
			return mutResult{}, false
		}
		k := needed[r.IntN(len(needed))]
		old := bindName(out[k])
		alias := fmt.Sprintf("%sAlias%d", old, r.IntN(10))
		body = renameQualifier(fset, f, src, old, alias)
		out[k].name = alias
		// offsets of the import section are unaffected only if all uses are after it
		if !bytes.Equal(body[:end], src[:end]) {
			return mutResult{}, false
		}
	case "alias-dangling":
		if len(needed) == 0 {
			return mutResult{}, false
		}
		out[needed[r.IntN(len(needed))]].name = "unusedAlias"
	case "alias-same":
		if len(out) == 0 {
			return mutResult{}, false
		}
		k := r.IntN(len(out))
		if out[k].name != "" {
			return mutResult{}, false
		}
		out[k].name = bindName(out[k])
	case "dot-add":
		out = append(out, impSpec{name: ".", path: universe[r.IntN(len(universe))]})
	case "dot-convert":
		if len(out) == 0 {
			return mutResult{}, false
		}
		out[r.IntN(len(out))].name = "."
	case "blank-add":
		out = append(out, impSpec{name: "_", path: universe[r.IntN(len(universe))]})
		r.Shuffle(len(out), func(i, j int) { out[i], out[j] = out[j], out[i] })
	case "blank-convert":
		if len(out) == 0 {
			return mutResult{}, false
		}
		out[r.IntN(len(out))].name = "_"
	case "blank-plus-plain":
		if len(needed) == 0 {
			return mutResult{}, false
		}
		s := out[needed[r.IntN(len(needed))]]
		blank := impSpec{name: "_", path: s.path}
		if r.IntN(2) == 0 {
			out = append([]impSpec{blank}, out...)
		} else {
			out = append(out, blank)
		}
	case "duplicate":
		if len(out) == 0 {
			return mutResult{}, false
		}
		out = append(out, out[r.IntN(len(out))])
	case "remove-all":
		if len(out) == 0 {
			return mutResult{}, false
		}
		out = nil
	case "add-needed-twice-paths":
		// a second package with the same name as a needed one, under an alias
		if len(needed) == 0 {
			return mutResult{}, false
		}
		s := out[needed[r.IntN(len(needed))]]
		out = append(out, impSpec{name: "other" + bindName(s), path: s.path})
	}
	_ = unneeded
	sec := renderImports(r, out, hadNone)
	res := append(append(append([]byte(nil), body[:beg]...), sec...), body[end:]...)
	if _, err := parser.ParseFile(token.NewFileSet(), name, res, parser.ParseComments|parser.AllErrors); err != nil {
		return mutResult{}, false // only parseable inputs are in the property's domain
	}
	return mutResult{res, kind}, true
}

// perturbLayout changes only white space and comment-free layout between
// tokens (extra spaces/tabs anywhere; extra newlines only where no semicolon
// would be inserted) so that the input is not already formatted.
func perturbLayout(r *rand.Rand, src []byte) []byte {
	fset := token.NewFileSet()
	tf := fset.AddFile("", -1, len(src))
	var s scanner.Scanner
	s.Init(tf, src, nil, scanner.ScanComments)
	type gap struct {
		off    int
		nlSafe bool
	}
	var gaps []gap
	prev := token.ILLEGAL
	for {
		pos, tok, lit := s.Scan()
		if tok == token.EOF {
			break
		}
		if tok == token.SEMICOLON && lit == "\n" {
			prev = tok
			continue
		}
		safe := false
		switch prev {
		case token.LBRACE, token.LPAREN, token.COMMA, token.SEMICOLON, token.ADD, token.MUL, token.LAND, token.LOR, token.ASSIGN, token.DEFINE, token.EQL, token.PERIOD, token.LBRACK, token.COLON:
			safe = true
		}
		if prev != token.ILLEGAL && prev != token.COMMENT && tok != token.COMMENT {
			gaps = append(gaps, gap{tf.Offset(pos), safe})
		}
		prev = tok
	}
	if len(gaps) == 0 {
		return src
	}
	n := 1 + r.IntN(12)
	pickd := map[int]string{}
	for i := 0; i < n; i++ {
		g := gaps[r.IntN(len(gaps))]
		ins := []string{" ", "  ", "\t", "   \t "}[r.IntN(4)]
		if g.nlSafe && r.IntN(2) == 0 {
			ins = []string{"\n", "\n\n", "\n\n\n\t", " \n"}[r.IntN(4)]
		}
		pickd[g.off] = ins
	}
	offs := make([]int, 0, len(pickd))
	for o := range pickd {
		offs = append(offs, o)
	}
	sort.Ints(offs)
	var out []byte
	last := 0
	for _, o := range offs {
		out = append(out, src[last:o]...)
		out = append(out, pickd[o]...)
		last = o
	}
	return append(out, src[last:]...)
}
