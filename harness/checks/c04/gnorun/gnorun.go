// Package gnorun runs a single-file Gno `package main` program in-process on
// the GnoVM, the same way gnovm/pkg/test runs a (non-realm) filetest: a test
// store with the real stdlibs loaded once per Runner, one cache-wrapped
// transaction store + Machine per program, a gas cap as the cycle bound.
// Shared by the C04 and C05 checks.
package gnorun

import (
	"bytes"
	"fmt"
	"math"
	"runtime/debug"
	"strings"

	gno "github.com/gnolang/gno/gnovm/pkg/gnolang"
	gnotest "github.com/gnolang/gno/gnovm/pkg/test"
	"github.com/gnolang/gno/tm2/pkg/std"
	"github.com/gnolang/gno/tm2/pkg/store"
	storetypes "github.com/gnolang/gno/tm2/pkg/store/types"

	"verifharness/internal/vf"
)

// Runner owns one test store. Not safe for concurrent use: use one per worker.
type Runner struct {
	base  storetypes.CommitStore
	store gno.Store
	sink  bytes.Buffer // output of stdlib loading (unused)
}

// New builds a store rooted at the repository under test and preloads the
// given stdlib imports.
func New(imports ...string) (*Runner, error) {
	r := &Runner{}
	r.base, r.store = gnotest.TestStore(vf.RepoRoot(), &r.sink, nil)
	var src strings.Builder
	src.WriteString("package main\n")
	for _, im := range imports {
		fmt.Fprintf(&src, "import _ %q\n", im)
	}
	src.WriteString("func main() {}\n")
	err := gnotest.LoadImports(r.store, &std.MemPackage{
		Type: gno.MPFiletests, Name: "main", Path: "main",
		Files: []*std.MemFile{
			{Name: "gnomod.toml", Body: gno.GenGnoModLatest("main")},
			{Name: "main.gno", Body: src.String()},
		},
	}, true)
	if err != nil {
		return nil, err
	}
	return r, nil
}

// Result of one program run.
type Result struct {
	Output   string
	Panicked bool   // an uncaught Gno panic, a preprocess error or a VM-internal Go panic escaped
	Kind     string // "" | "gno-panic" | "preprocess" | "out-of-gas" | "go-panic"
	Error    string
	GoStack  string
	Gas      int64
}

// Run executes `package main` source src (func main()) with the given gas cap.
func (r *Runner) Run(fname, src string, gasLimit int64) (res Result) {
	var out bytes.Buffer
	gm := store.NewGasMeter(gasLimit)
	tcw := r.base.CacheWrap()
	m := gno.NewMachineWithOptions(gno.MachineOptions{
		Output:        &out,
		Store:         r.store.BeginTransaction(tcw, tcw, nil, gm),
		Context:       gnotest.Context("", "main", nil),
		MaxAllocBytes: math.MaxInt64,
		GasMeter:      gm,
		ReviveEnabled: true,
	})
	defer m.Release()
	defer func() {
		res.Gas = int64(gm.GasConsumed())
		if p := recover(); p != nil {
			res.Output = out.String()
			res.Panicked = true
			switch v := p.(type) {
			case *gno.TypedValue:
				res.Kind, res.Error = "gno-panic", v.Sprint(m)
			case *gno.PreprocessError:
				res.Kind, res.Error = "preprocess", v.Unwrap().Error()
			case gno.UnhandledPanicError:
				res.Kind, res.Error = "gno-panic", v.Error()
			case storetypes.OutOfGasError:
				res.Kind, res.Error = "out-of-gas", v.Error()
			default:
				res.Kind, res.Error = "go-panic", fmt.Sprint(v)
				res.GoStack = string(debug.Stack())
			}
		}
	}()
	fn := m.MustParseFile(fname, src)
	pn := gno.NewPackageNode("main", "main", &gno.FileSet{})
	pv := pn.NewPackage(m.Alloc)
	m.Store.SetBlockNode(pn)
	m.Store.SetCachePackage(pv)
	m.SetActivePackage(pv)
	m.RunFiles(fn)
	m.RunMain()
	res.Output = out.String()
	return res
}
