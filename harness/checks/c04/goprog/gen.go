// Package goprog generates programs in the intersection of Go and Gno with a
// deterministic output protocol. A program is a list of independent snippets,
// each a function `pN_sK()` printing lines through println(string); values are
// rendered with strconv / math.Float64bits helpers from a shared prelude, and
// recovered panic values are rendered as ERR<<<message>>> so that the harness
// can compare panic CLASSES (messages differ between Go and Gno by design).
//
// The same function text is emitted into (a) one Go file holding K programs,
// built once and run natively, and (b) one Gno `package main` file per program.
package goprog

import (
	"fmt"
	"math/rand/v2"
	"strings"
)

// Snippet is one independent, separately reportable piece of a program.
type Snippet struct {
	Kind  string // family
	Tag   string // specific signature (family:detail), used in violation keys
	Decls string // package-level declarations, identifiers prefixed per snippet
	Body  string // statements of the snippet function
}

// Program is a sequence of snippets.
type Program struct {
	ID    int
	Snips []Snippet
}

// Prelude is shared by Go and Gno (no package clause / imports).
const Prelude = `
func itoa(i int64) string  { return strconv.FormatInt(i, 10) }
func utoa(u uint64) string { return strconv.FormatUint(u, 10) }
func btoa(b bool) string   { return strconv.FormatBool(b) }
func f64s(f float64) string {
	if f != f {
		return "NaN"
	}
	return "f64:" + strconv.FormatUint(math.Float64bits(f), 16)
}
func f32s(f float32) string {
	if f != f {
		return "NaN"
	}
	return "f32:" + strconv.FormatUint(uint64(math.Float32bits(f)), 16)
}
func hexs(s string) string {
	const digits = "0123456789abcdef"
	out := ""
	for i := 0; i < len(s); i++ {
		out += string(digits[s[i]>>4]) + string(digits[s[i]&15])
	}
	return "x" + out
}
func ints(a []int) string {
	s := "[" + itoa(int64(len(a))) + ":"
	for _, v := range a {
		s += " " + itoa(int64(v))
	}
	return s + "]"
}
func bytesStr(a []byte) string { return hexs(string(a)) }
func sortInts(a []int) {
	for i := 1; i < len(a); i++ {
		for j := i; j > 0 && a[j] < a[j-1]; j-- {
			a[j], a[j-1] = a[j-1], a[j]
		}
	}
}
func sortStrings(a []string) {
	for i := 1; i < len(a); i++ {
		for j := i; j > 0 && a[j] < a[j-1]; j-- {
			a[j], a[j-1] = a[j-1], a[j]
		}
	}
}

type vErr struct{ code int }

func (e vErr) Error() string { return "vErr" + itoa(int64(e.code)) }

type vKey struct {
	a int
	b string
}

func describe(r any) string {
	switch v := r.(type) {
	case nil:
		return "nil"
	case vErr:
		return "vErr(" + itoa(int64(v.code)) + ")"
	case *vErr:
		return "*vErr(" + itoa(int64(v.code)) + ")"
	case error:
		return "ERR<<<" + v.Error() + ">>>"
	case string:
		return "string(" + v + ")"
	case int:
		return "int(" + itoa(int64(v)) + ")"
	case int8:
		return "int8(" + itoa(int64(v)) + ")"
	case uint8:
		return "uint8(" + utoa(uint64(v)) + ")"
	case float64:
		return "float64(" + f64s(v) + ")"
	case bool:
		return "bool(" + btoa(v) + ")"
	case vKey:
		return "vKey(" + itoa(int64(v.a)) + "," + v.b + ")"
	case []int:
		return "[]int" + ints(v)
	}
	return "other"
}

// try runs f; a panic is reported and swallowed.
func try(f func()) {
	defer func() {
		if r := recover(); r != nil {
			println("  recovered " + describe(r))
		}
	}()
	f()
}

// runProg is the top-level protocol: a panic escaping the program is rendered as a class line.
func runProg(id int, f func()) {
	println("#BEGIN " + itoa(int64(id)))
	defer func() {
		if r := recover(); r != nil {
			println("#PANIC " + describe(r))
		}
		println("#END " + itoa(int64(id)))
	}()
	f()
}
`

const imports = "import (\n\t\"math\"\n\t\"strconv\"\n)\n"

// Funcs renders the declarations and functions of the program.
func (p *Program) Funcs() string {
	var sb strings.Builder
	for k, s := range p.Snips {
		fmt.Fprintf(&sb, "// program %d snippet %d: %s\n", p.ID, k, s.Tag)
		if s.Decls != "" {
			sb.WriteString(s.Decls)
			sb.WriteString("\n")
		}
		fmt.Fprintf(&sb, "func p%d_s%d() {\n%s}\n\n", p.ID, k, s.Body)
	}
	fmt.Fprintf(&sb, "func prog%d() {\n", p.ID)
	for k, s := range p.Snips {
		fmt.Fprintf(&sb, "\tprintln(\"@%d %s\")\n\tp%d_s%d()\n", k, s.Tag, p.ID, k)
	}
	sb.WriteString("}\n")
	return sb.String()
}

// GnoFile renders the program as a stand-alone `package main` (valid Go as well).
func (p *Program) GnoFile() string {
	return "package main\n\n" + imports + Prelude + "\n" + p.Funcs() +
		fmt.Sprintf("\nfunc main() { runProg(%d, prog%d) }\n", p.ID, p.ID)
}

// GoFile renders a batch of programs into one Go source file. It returns the
// source and, per program, the [first,last] line numbers of its text.
func GoFile(progs []*Program) (src string, lines [][2]int) {
	var sb strings.Builder
	sb.WriteString("package main\n\n" + imports + Prelude + "\n")
	line := strings.Count(sb.String(), "\n") + 1
	for _, p := range progs {
		f := p.Funcs() + "\n"
		n := strings.Count(f, "\n")
		lines = append(lines, [2]int{line, line + n - 1})
		line += n
		sb.WriteString(f)
	}
	sb.WriteString("func main() {\n")
	for _, p := range progs {
		fmt.Fprintf(&sb, "\trunProg(%d, prog%d)\n", p.ID, p.ID)
	}
	sb.WriteString("}\n")
	return sb.String(), lines
}

// Only returns a copy of p reduced to snippet k (for minimal witnesses).
func (p *Program) Only(k int) *Program {
	return &Program{ID: p.ID, Snips: []Snippet{p.Snips[k]}}
}

// ---------------------------------------------------------------------------
// generator core

// G is the per-snippet generation context.
type G struct {
	r    *rand.Rand
	px   string // prefix for package-level identifiers
	body strings.Builder
	decl strings.Builder
	ind  int
	nloc int
}

func (g *G) P(format string, args ...any) {
	g.body.WriteString(strings.Repeat("\t", g.ind+1))
	fmt.Fprintf(&g.body, format, args...)
	g.body.WriteString("\n")
}

func (g *G) D(format string, args ...any) {
	fmt.Fprintf(&g.decl, format, args...)
	g.decl.WriteString("\n")
}

func (g *G) in()  { g.ind++ }
func (g *G) out() { g.ind-- }

// loc returns a fresh local identifier.
func (g *G) loc(base string) string {
	g.nloc++
	return fmt.Sprintf("%s%d", base, g.nloc)
}

// T returns a prefixed package-level identifier.
func (g *G) T(base string) string { return g.px + base }

func (g *G) n(n int) int        { return g.r.IntN(n) }
func (g *G) coin() bool         { return g.r.IntN(2) == 0 }
func (g *G) pct(p int) bool     { return g.r.IntN(100) < p }
func pick[T any](g *G, a []T) T { return a[g.r.IntN(len(a))] }

type family struct {
	kind   string
	weight int
	gen    func(g *G) (tag string)
}

var families []family

func register(kind string, weight int, gen func(g *G) string) {
	families = append(families, family{kind, weight, gen})
}

// Families lists the registered family names.
func Families() []string {
	var out []string
	for _, f := range families {
		out = append(out, f.kind)
	}
	return out
}

// Generate builds program id: 3–6 snippets; the first family is chosen
// round-robin on id so that every family appears at a fixed rate.
func Generate(id int, rng *rand.Rand) *Program {
	p := &Program{ID: id}
	total := 0
	for _, f := range families {
		total += f.weight
	}
	n := 3 + rng.IntN(4)
	for k := 0; k < n; k++ {
		var f family
		if k == 0 {
			f = families[id%len(families)]
		} else {
			w := rng.IntN(total)
			for _, c := range families {
				if w < c.weight {
					f = c
					break
				}
				w -= c.weight
			}
		}
		g := &G{r: rng, px: fmt.Sprintf("P%dS%d", id, k)}
		tag := f.gen(g)
		p.Snips = append(p.Snips, Snippet{Kind: f.kind, Tag: tag, Decls: g.decl.String(), Body: g.body.String()})
	}
	return p
}
