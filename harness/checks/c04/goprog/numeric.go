package goprog

import (
	"fmt"
	"math"
	"math/big"
	"strconv"
)

// IT is an integer type.
type IT struct {
	Name   string
	Bits   uint
	Signed bool
}

var intTypes = []IT{
	{"int8", 8, true}, {"int16", 16, true}, {"int32", 32, true}, {"int64", 64, true}, {"int", 64, true},
	{"uint8", 8, false}, {"uint16", 16, false}, {"uint32", 32, false}, {"uint64", 64, false}, {"uint", 64, false},
}

func (t IT) min() *big.Int {
	if !t.Signed {
		return big.NewInt(0)
	}
	return new(big.Int).Neg(new(big.Int).Lsh(big.NewInt(1), t.Bits-1))
}

func (t IT) max() *big.Int {
	b := t.Bits
	if t.Signed {
		b--
	}
	return new(big.Int).Sub(new(big.Int).Lsh(big.NewInt(1), b), big.NewInt(1))
}

func (t IT) fits(v *big.Int) bool { return v.Cmp(t.min()) >= 0 && v.Cmp(t.max()) <= 0 }

// wrap reduces v modulo 2^bits into the range of t.
func (t IT) wrap(v *big.Int) *big.Int {
	m := new(big.Int).Lsh(big.NewInt(1), t.Bits)
	r := new(big.Int).Mod(v, m) // 0 <= r < m
	if t.Signed && r.Cmp(t.max()) > 0 {
		r.Sub(r, m)
	}
	return r
}

// show renders the Gno/Go expression that turns expr (of type t) into a string.
func (t IT) show(expr string) string {
	if t.Signed {
		return "itoa(int64(" + expr + "))"
	}
	return "utoa(uint64(" + expr + "))"
}

// val draws a value of t biased to 0, ±1, min, max and their neighbours.
func (g *G) val(t IT) *big.Int {
	v := new(big.Int)
	switch g.n(14) {
	case 0:
		// 0
	case 1:
		v.SetInt64(1)
	case 2:
		if t.Signed {
			v.SetInt64(-1)
		} else {
			v.Set(t.max())
		}
	case 3:
		v.Set(t.min())
	case 4:
		v.Set(t.max())
	case 5:
		v.Add(t.min(), big.NewInt(1))
	case 6:
		v.Sub(t.max(), big.NewInt(1))
	case 7:
		v.SetInt64(2)
	case 8: // power of two or one less
		v.Lsh(big.NewInt(1), uint(g.n(int(t.Bits))))
		if g.coin() {
			v.Sub(v, big.NewInt(1))
		}
		v = t.wrap(v)
	case 9, 10: // small
		v.SetInt64(int64(g.n(20)) - 5)
		v = t.wrap(v)
	default:
		v.SetUint64(g.r.Uint64())
		v = t.wrap(v)
	}
	return v
}

// lit renders v as a typed constant expression of t.
func (t IT) lit(v *big.Int) string { return t.Name + "(" + v.String() + ")" }

type ivar struct {
	name string
	t    IT
}

// intExpr builds a random expression of type t over vars. It guarantees that
// no sub-expression is a compile-time constant other than a leaf literal (Go
// rejects overflowing or zero-dividing constant expressions at compile time).
func (g *G) intExpr(t IT, depth int, vars []ivar) (expr string, isConst bool) {
	same := func() (string, bool) {
		var c []ivar
		for _, v := range vars {
			if v.t.Name == t.Name {
				c = append(c, v)
			}
		}
		if len(c) == 0 {
			return "", false
		}
		return pick(g, c).name, true
	}
	nonConst := func(d int) string {
		for i := 0; i < 8; i++ {
			if e, c := g.intExpr(t, d, vars); !c {
				return e
			}
		}
		if s, ok := same(); ok {
			return s
		}
		v := pick(g, vars)
		return t.Name + "(" + v.name + ")"
	}
	if depth <= 0 || g.pct(25) {
		switch g.n(10) {
		case 0, 1, 2: // literal
			return t.lit(g.val(t)), true
		case 3, 4: // conversion of a variable of another type
			v := pick(g, vars)
			return t.Name + "(" + v.name + ")", false
		default:
			if s, ok := same(); ok {
				return s, false
			}
			v := pick(g, vars)
			return t.Name + "(" + v.name + ")", false
		}
	}
	switch g.n(16) {
	case 0: // unary
		return "(" + pick(g, []string{"-", "^", "+"}) + nonConst(depth-1) + ")", false
	case 1: // conversion round trip through another type
		u := pick(g, intTypes)
		var uv []ivar
		uv = append(uv, vars...)
		e, c := g.intExpr(u, depth-1, uv)
		if c {
			v := pick(g, vars)
			e = u.Name + "(" + v.name + ")"
		}
		return t.Name + "(" + e + ")", false
	case 2, 3: // shift
		l := nonConst(depth - 1)
		var cnt string
		switch g.n(4) {
		case 0:
			cnt = strconv.Itoa(pick(g, []int{0, 1, int(t.Bits) - 1, int(t.Bits), int(t.Bits) + 1, 63, 64, 65, 7, 8, 31, 32}))
		case 1:
			v := pick(g, vars)
			if v.t.Signed { // keep run-time negative counts for the shift family
				cnt = "(" + v.name + " & 127)"
			} else {
				cnt = "(" + v.name + " & 127)"
			}
		default:
			v := pick(g, vars)
			cnt = "(" + v.name + " & " + strconv.Itoa(pick(g, []int{7, 15, 31, 63})) + ")"
		}
		return "(" + l + " " + pick(g, []string{"<<", ">>"}) + " " + cnt + ")", false
	default:
		op := pick(g, []string{"+", "-", "*", "/", "%", "&", "|", "^", "&^", "+", "-", "*"})
		l, lc := g.intExpr(t, depth-1, vars)
		r, rc := g.intExpr(t, depth-1, vars)
		if lc && rc {
			l = nonConst(depth - 1)
		}
		if rc && (op == "/" || op == "%") {
			for i := 0; ; i++ {
				v := g.val(t)
				if v.Sign() != 0 {
					r = t.lit(v)
					break
				}
			}
		}
		return "(" + l + " " + op + " " + r + ")", false
	}
}

func init() {
	register("int-arith", 10, genIntArith)
	register("shift", 6, genShift)
	register("int-conv", 6, genIntConv)
	register("float-conv", 5, genFloatConv)
	register("float-arith", 5, genFloatArith)
	register("const-fold", 8, genConstFold)
	register("int-wrap", 4, genIntWrap)
}

func (g *G) declVars(types []IT) []ivar {
	var vars []ivar
	for i, t := range types {
		name := fmt.Sprintf("v%d", i)
		g.P("var %s %s = %s", name, t.Name, g.val(t).String())
		vars = append(vars, ivar{name, t})
	}
	return vars
}

// genIntArith: random expressions at one width, mixed with other widths via conversions.
func genIntArith(g *G) string {
	t := pick(g, intTypes)
	types := []IT{t, t, t, pick(g, intTypes)}
	if g.coin() {
		types = append(types, pick(g, intTypes))
	}
	vars := g.declVars(types)
	wrapAll := g.pct(85)
	n := 3 + g.n(4)
	for i := 0; i < n; i++ {
		e, c := g.intExpr(t, 1+g.n(4), vars)
		if c {
			e = "(" + e + " + v0)"
		}
		line := fmt.Sprintf("println(\"e%d \" + %s)", i, t.show(e))
		if wrapAll {
			g.P("try(func() { %s })", line)
		} else {
			g.P("%s", line)
		}
		if g.pct(40) { // statement forms: op-assign / inc / dec
			op := pick(g, []string{"+=", "-=", "*=", "&=", "|=", "^=", "&^=", "<<=", ">>="})
			if op == "<<=" || op == ">>=" {
				g.P("v0 %s %d", op, g.n(int(t.Bits)+2))
			} else {
				g.P("v0 %s v1", op)
			}
			if g.coin() {
				g.P("v1++")
			} else {
				g.P("v2--")
			}
		}
	}
	for _, v := range vars {
		g.P("println(\"%s \" + %s)", v.name, v.t.show(v.name))
	}
	return "int-arith:" + t.Name
}

// genIntWrap: explicit wrap-around identities at min/max of one width, and INT_MIN / -1.
func genIntWrap(g *G) string {
	t := pick(g, intTypes)
	g.P("var lo %s = %s", t.Name, t.min())
	g.P("var hi %s = %s", t.Name, t.max())
	g.P("var one %s = 1", t.Name)
	g.P("var k %s = %s", t.Name, g.val(t))
	sh := func(label, e string) { g.P("println(\"%s \" + %s)", label, t.show(e)) }
	sh("hi+1", "hi+one")
	sh("lo-1", "lo-one")
	sh("hi*hi", "hi*hi")
	sh("hi*k", "hi*k")
	sh("lo*k", "lo*k")
	sh("-lo", "-lo")
	sh("^k", "^k")
	sh("k-hi", "k-hi")
	sh("k+k+k", "k+k+k")
	if t.Signed {
		g.P("var m1 %s = -1", t.Name)
		sh("lo/m1", "lo/m1")
		sh("lo%m1", "lo%m1")
		sh("k/m1", "k/m1")
		sh("hi/lo", "hi/lo")
		sh("lo/hi", "lo/hi")
		sh("k%lo", "k%lo")
		g.P("m1--")
		sh("m1--", "m1")
	}
	g.P("hi++")
	sh("hi++", "hi")
	g.P("lo--")
	sh("lo--", "lo")
	g.P("k *= k")
	sh("k*=k", "k")
	g.P("k <<= %d", g.n(int(t.Bits)))
	sh("k<<=", "k")
	if g.coin() {
		g.P("var z %s", t.Name)
		if g.coin() {
			g.P("println(\"k/z \" + %s)", t.show("k/z"))
		} else {
			g.P("println(\"k%%z \" + %s)", t.show("k%z"))
		}
		g.P("println(\"unreachable\")")
	}
	return "int-wrap:" + t.Name
}

// genShift: shifts with counts of every kind, including >= width and negative run-time counts.
func genShift(g *G) string {
	t := pick(g, intTypes)
	ct := pick(g, intTypes)
	g.P("var x %s = %s", t.Name, g.val(t))
	g.P("var y %s = %s", t.Name, g.val(t))
	counts := []int64{0, 1, int64(t.Bits) - 1, int64(t.Bits), int64(t.Bits) + 1, 63, 64, 65, 127}
	if ct.Bits > 8 {
		counts = append(counts, 255, 256, 1000)
	}
	if ct.Bits == 8 && !ct.Signed {
		counts = append(counts, 200, 255)
	}
	g.P("var cs = []%s{%s}", ct.Name, joinInts(counts, g, len(counts)))
	g.P("for _, s := range cs {")
	g.in()
	g.P("println(\"shl \" + %s + \" shr \" + %s + \" y>> \" + %s)", t.show("x<<s"), t.show("x>>s"), t.show("y>>s"))
	g.out()
	g.P("}")
	// untyped constant left operand takes its type from the context
	g.P("var s1 %s = %d", ct.Name, g.n(int(t.Bits)+3))
	g.P("var c1 %s = 1 << s1", t.Name)
	g.P("var c2 = %s(1<<s1) + x", t.Name)
	g.P("c3 := x + 1<<s1")
	g.P("c4 := 1 << s1")
	g.P("println(\"ctx \" + %s + \" \" + %s + \" \" + %s + \" \" + itoa(int64(c4)))", t.show("c1"), t.show("c2"), t.show("c3"))
	g.P("x <<= s1")
	g.P("y >>= s1")
	g.P("println(\"assign \" + %s + \" \" + %s)", t.show("x"), t.show("y"))
	detail := "shift:" + t.Name + ":count-" + ct.Name
	if ct.Signed && g.pct(60) {
		g.P("var neg %s = %d", ct.Name, -1-g.n(3))
		switch g.n(3) {
		case 0:
			g.P("println(\"neg \" + %s)", t.show("x<<neg"))
		case 1:
			g.P("println(\"neg \" + %s)", t.show("x>>neg"))
		default:
			g.P("try(func() { println(\"neg \" + %s) })", t.show("y<<neg"))
			g.P("println(\"after\")")
		}
		detail += ":negative"
	}
	return detail
}

func joinInts(vs []int64, g *G, n int) string {
	s := ""
	for i := 0; i < n; i++ {
		if i > 0 {
			s += ", "
		}
		s += strconv.FormatInt(vs[i], 10)
	}
	return s
}

// genIntConv: conversions between all integer types (truncation, sign extension).
func genIntConv(g *G) string {
	a := pick(g, intTypes)
	b := pick(g, intTypes)
	n := 4 + g.n(5)
	vals := ""
	for i := 0; i < n; i++ {
		if i > 0 {
			vals += ", "
		}
		vals += g.val(a).String()
	}
	g.P("var vs = []%s{%s}", a.Name, vals)
	g.P("for _, v := range vs {")
	g.in()
	c := pick(g, intTypes)
	g.P("w := %s(v)", b.Name)
	g.P("println(%s + \" -> \" + %s + \" -> \" + %s + \" back \" + %s)", a.show("v"), b.show("w"), c.show(c.Name+"(w)"), a.show(a.Name+"(w)"))
	g.out()
	g.P("}")
	return "int-conv:" + a.Name + "->" + b.Name
}

type FT struct {
	Name string
	Bits int
}

var floatTypes = []FT{{"float32", 32}, {"float64", 64}}

func (t FT) show(e string) string {
	if t.Bits == 32 {
		return "f32s(" + e + ")"
	}
	return "f64s(" + e + ")"
}

// flit renders a float literal exactly (hex float literals are not used: decimal round-trips).
func (g *G) fval(t FT) float64 {
	var f float64
	switch g.n(12) {
	case 0:
		f = 0
	case 1:
		f = 1
	case 2:
		f = -1
	case 3:
		f = 0.5
	case 4:
		f = 0.1
	case 5:
		f = float64(int64(g.n(2000)) - 1000)
	case 6:
		f = math.Ldexp(1, g.n(60)-30)
	case 7:
		f = 1e30
	case 8:
		f = 1e-30
	case 9:
		f = 16777216 + float64(g.n(5))
	default:
		f = (g.r.Float64() - 0.5) * math.Pow(10, float64(g.n(12)-4))
	}
	if t.Bits == 32 {
		f = float64(float32(f))
	}
	return f
}

func flit(f float64) string {
	s := strconv.FormatFloat(f, 'g', -1, 64)
	return s
}

// genFloatConv: int -> float (all widths), float <-> float, float -> int for values known to be in range.
func genFloatConv(g *G) string {
	it := pick(g, intTypes)
	ft := pick(g, floatTypes)
	n := 4 + g.n(4)
	vals := ""
	for i := 0; i < n; i++ {
		if i > 0 {
			vals += ", "
		}
		vals += g.val(it).String()
	}
	g.P("var is = []%s{%s}", it.Name, vals)
	g.P("for _, v := range is {")
	g.in()
	g.P("f := %s(v)", ft.Name)
	g.P("println(%s + \" -> \" + %s + \" \" + f64s(float64(v)) + \" \" + f32s(float32(v)))", it.show("v"), ft.show("f"))
	g.out()
	g.P("}")
	// float -> int: operands whose truncation is certainly representable
	limit := math.Ldexp(1, int(it.Bits)-2)
	fvals := ""
	for i := 0; i < n; i++ {
		var f float64
		switch g.n(5) {
		case 0:
			f = float64(g.n(100)) + pick(g, []float64{0, 0.5, 0.99, 0.25})
		case 1:
			f = limit - 1 + pick(g, []float64{0, 0.5})
		case 2:
			f = pick(g, []float64{0.999, 0.5, 1e-9, 0})
		default:
			f = g.r.Float64() * limit
		}
		if it.Signed && g.coin() {
			f = -f
		}
		if ft.Bits == 32 {
			f = float64(float32(f))
			if math.Abs(f) >= limit*2 {
				f = 1
			}
		}
		if i > 0 {
			fvals += ", "
		}
		fvals += flit(f)
	}
	g.P("var fs = []%s{%s}", ft.Name, fvals)
	g.P("for _, f := range fs {")
	g.in()
	g.P("println(%s + \" -> \" + %s + \" widen \" + f64s(float64(f)) + \" narrow \" + f32s(float32(f)))", ft.show("f"), it.show(it.Name+"(f)"))
	g.out()
	g.P("}")
	return "float-conv:" + it.Name + "<->" + ft.Name
}

func (g *G) floatExpr(t FT, depth int, vars []string) (string, bool) {
	if depth <= 0 || g.pct(25) {
		if g.pct(30) {
			return t.Name + "(" + flit(g.fval(t)) + ")", true
		}
		return pick(g, vars), false
	}
	if g.pct(10) {
		e, c := g.floatExpr(t, depth-1, vars)
		if c {
			e = pick(g, vars)
		}
		return "(-" + e + ")", false
	}
	op := pick(g, []string{"+", "-", "*", "/"})
	l, lc := g.floatExpr(t, depth-1, vars)
	r, rc := g.floatExpr(t, depth-1, vars)
	if lc && rc {
		l = pick(g, vars)
	}
	if rc && op == "/" { // constant division by zero is a compile error
		r = pick(g, vars)
	}
	return "(" + l + " " + op + " " + r + ")", false
}

func genFloatArith(g *G) string {
	t := pick(g, floatTypes)
	var vars []string
	for i := 0; i < 4; i++ {
		name := fmt.Sprintf("f%d", i)
		g.P("var %s %s = %s", name, t.Name, flit(g.fval(t)))
		vars = append(vars, name)
	}
	n := 3 + g.n(4)
	for i := 0; i < n; i++ {
		e, c := g.floatExpr(t, 1+g.n(4), vars)
		if c {
			e = "(" + e + " * f0)"
		}
		g.P("println(\"e%d \" + %s)", i, t.show(e))
		if g.pct(40) {
			g.P("f0 %s f1", pick(g, []string{"+=", "-=", "*=", "/="}))
			if g.coin() {
				g.P("f2++")
			} else {
				g.P("f3--")
			}
		}
	}
	g.P("println(\"cmp \" + btoa(f0 < f1) + btoa(f0 <= f1) + btoa(f0 == f1) + btoa(f0 != f1) + btoa(f2 > f3) + btoa(f2 >= f3))")
	g.P("nan := f0 - f0")
	g.P("nan /= nan")
	g.P("println(\"nan \" + btoa(nan == nan) + btoa(nan != nan) + btoa(nan < f1) + btoa(nan >= f1) + \" \" + %s)", t.show("nan"))
	for _, v := range vars {
		g.P("println(\"%s \" + %s)", v, t.show(v))
	}
	return "float-arith:" + t.Name
}

// ---- constant folding vs run-time evaluation ----

type cexpr struct {
	text string   // expression over constant literals
	rt   string   // same expression over run-time variables
	rtok bool     // every leaf and intermediate fits t, so rt is meaningful
	val  *big.Int // exact value
}

// constExpr builds an integer constant expression. typed: every leaf is a
// typed constant of t and every intermediate fits t (otherwise Go rejects the
// program). untyped: exact arbitrary-precision arithmetic, any size up to 200
// bits. lits collects (varName, literal) pairs for the run-time twin.
func (g *G) constExpr(t IT, typed bool, depth int, lits *[][2]string) cexpr {
	if depth <= 0 || g.pct(20) {
		v := g.val(t)
		if !typed && g.pct(30) { // untyped constants may exceed every machine type
			v = new(big.Int).Lsh(big.NewInt(int64(g.n(9)+1)), uint(g.n(80)))
		}
		text := v.String()
		if typed {
			text = t.lit(v)
		} else if v.Sign() < 0 {
			text = "(" + text + ")"
		}
		if !t.fits(v) {
			return cexpr{text: text, val: v}
		}
		name := fmt.Sprintf("r%d", len(*lits))
		*lits = append(*lits, [2]string{name, v.String()})
		return cexpr{text: text, rt: name, rtok: true, val: v}
	}
	for try := 0; try < 20; try++ {
		save := len(*lits)
		op := pick(g, []string{"+", "-", "*", "/", "%", "&", "|", "^", "<<", ">>", "+", "-", "*"})
		l := g.constExpr(t, typed, depth-1, lits)
		var r cexpr
		v := new(big.Int)
		okv := true
		if op == "<<" || op == ">>" {
			k := uint(g.n(int(t.Bits) + 2))
			if !typed {
				k = uint(g.n(70))
			}
			if op == "<<" {
				v.Lsh(l.val, k)
			} else {
				v.Rsh(l.val, k)
			}
			ks := strconv.Itoa(int(k))
			r = cexpr{text: ks, rt: ks, rtok: true, val: big.NewInt(int64(k))}
		} else {
			r = g.constExpr(t, typed, depth-1, lits)
			switch op {
			case "+":
				v.Add(l.val, r.val)
			case "-":
				v.Sub(l.val, r.val)
			case "*":
				v.Mul(l.val, r.val)
			case "/", "%":
				if r.val.Sign() == 0 {
					okv = false
				} else if op == "/" {
					v.Quo(l.val, r.val)
				} else {
					v.Rem(l.val, r.val)
				}
			case "&":
				v.And(l.val, r.val)
			case "|":
				v.Or(l.val, r.val)
			case "^":
				v.Xor(l.val, r.val)
			}
		}
		if okv && typed && !t.fits(v) {
			okv = false // typed constant overflow is a compile error
		}
		if okv && v.BitLen() > 200 {
			okv = false
		}
		if !okv {
			*lits = (*lits)[:save]
			continue
		}
		return cexpr{text: "(" + l.text + " " + op + " " + r.text + ")", rt: "(" + l.rt + " " + op + " " + r.rt + ")",
			rtok: l.rtok && r.rtok && t.fits(v), val: v}
	}
	return cexpr{text: "1", rt: "1", rtok: true, val: big.NewInt(1)}
}

// genConstFold: the same expression as a constant (folded by the compiler /
// preprocessor) and over run-time variables; when every intermediate fits the
// type both must agree, and in any case Gno must agree with Go on each.
func genConstFold(g *G) string {
	if g.pct(25) {
		return genConstFoldFloat(g)
	}
	if g.pct(15) {
		return genIota(g)
	}
	t := pick(g, intTypes)
	typed := g.coin()
	n := 2 + g.n(3)
	kind := "untyped"
	if typed {
		kind = "typed"
	}
	for i := 0; i < n; i++ {
		var lits [][2]string
		var c cexpr
		for try := 0; ; try++ {
			lits = lits[:0]
			c = g.constExpr(t, typed, 1+g.n(3), &lits)
			if t.fits(c.val) || try > 30 {
				break
			}
		}
		if !t.fits(c.val) {
			c = cexpr{text: "1", rt: "1", rtok: true, val: big.NewInt(1)}
			lits = nil
		}
		g.P("{")
		g.in()
		g.P("const c %s = %s", t.Name, c.text)
		if c.rtok {
			for _, l := range lits {
				g.P("var %s %s = %s", l[0], t.Name, l[1])
			}
			g.P("var rt %s = %s", t.Name, c.rt)
			g.P("println(\"const \" + %s + \" runtime \" + %s + \" exact %s\")", t.show("c"), t.show("rt"), c.val.String())
		} else {
			g.P("println(\"const \" + %s + \" exact %s\")", t.show("c"), c.val.String())
		}
		g.out()
		g.P("}")
	}
	// untyped constant arithmetic beyond 64 bits, converted at the end
	if !typed {
		k := 64 + g.n(60)
		g.P("const big = 1 << %d", k)
		g.P("const back = big >> %d", k-g.n(int(t.Bits)-1))
		g.P("var bk %s = back", t.Name)
		g.P("println(\"big \" + %s)", t.show("bk"))
		g.P("const q = (big + %d) / (big / %d)", g.n(1000), 1+g.n(100))
		g.P("println(\"q \" + itoa(q))")
	}
	return "const-fold:" + kind + ":" + t.Name
}

func genConstFoldFloat(g *G) string {
	ft := pick(g, floatTypes)
	n := 2 + g.n(3)
	for i := 0; i < n; i++ {
		a := pick(g, []string{"1", "3", "10", "0.1", "0.2", "0.3", "1e10", "7", "2.5", "1e-3", "123456789", "0.7"})
		b := pick(g, []string{"3", "7", "10", "0.1", "0.3", "9", "1e5", "1.5", "49", "1e-7"})
		op := pick(g, []string{"+", "-", "*", "/"})
		g.P("{")
		g.in()
		g.P("const c = %s %s %s", a, op, b)
		g.P("var x %s = c", ft.Name)
		g.P("var a %s = %s", ft.Name, a)
		g.P("var b %s = %s", ft.Name, b)
		g.P("println(\"const \" + %s + \" runtime \" + %s)", ft.show("x"), ft.show("a "+op+" b"))
		if g.coin() {
			g.P("const d = c * %s", pick(g, []string{"3", "10", "0.5", "1e3"}))
			g.P("var y %s = d", ft.Name)
			g.P("println(\"const2 \" + %s)", ft.show("y"))
		}
		if g.pct(30) {
			g.P("const e = 1 << 62")
			g.P("var z %s = e * 4 * c", ft.Name)
			g.P("println(\"const3 \" + %s)", ft.show("z"))
		}
		g.out()
		g.P("}")
	}
	// integer-valued float constants convert to integer types
	g.P("const whole = 6.0 * 7")
	g.P("var w int = whole")
	g.P("var w8 uint8 = 510 / 2.0")
	g.P("println(\"whole \" + itoa(int64(w)) + \" \" + utoa(uint64(w8)))")
	return "const-fold:float:" + ft.Name
}

// genIota: const blocks with iota, implicit repetition, skips and typed constants.
func genIota(g *G) string {
	t := pick(g, intTypes)
	k := 1 + g.n(3)
	g.P("const (")
	g.P("\ta0 = iota * %d", 1+g.n(9))
	g.P("\ta1")
	g.P("\t_")
	g.P("\ta3")
	g.P("\tb0, b1 = iota + %d, iota << %d", g.n(5), k)
	g.P("\tb2, b3")
	g.P(")")
	g.P("const (")
	g.P("\tf0 %s = 1 << iota", t.Name)
	g.P("\tf1")
	g.P("\tf2")
	g.P("\ts0 = \"s\"")
	g.P("\tn4 = iota")
	g.P("\tf5 %s = f2 | n4", t.Name)
	g.P(")")
	g.P("const single = iota + %d", g.n(9))
	g.P("println(\"iota \" + itoa(a0) + itoa(a1) + itoa(a3) + \" \" + itoa(b0) + itoa(b1) + itoa(b2) + itoa(b3) + \" \" + %s + %s + %s + s0 + itoa(n4) + %s + itoa(single))", t.show("f0"), t.show("f1"), t.show("f2"), t.show("f5"))
	g.P("var v %s = f2", t.Name)
	g.P("switch v {")
	g.P("case f0, f1:")
	g.P("\tprintln(\"low\")")
	g.P("case f2:")
	g.P("\tprintln(\"f2\")")
	g.P("}")
	return "const-fold:iota:" + t.Name
}
